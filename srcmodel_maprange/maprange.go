package main

// X-MAPRANGE: every `range` statement over a map-typed expression in
// compiler/protogen and cmd/protoc-gen-go/internal_gengo, with the shape of its
// body, plus a syntactic inventory of other sources of nondeterminism.
// Standard library only (go/parser, go/types with a source importer).

import (
	"bytes"
	"fmt"
	"go/ast"
	"go/build"
	"go/importer"
	"go/parser"
	"go/printer"
	"go/token"
	"go/types"
	"os"
	"path/filepath"
	"sort"
	"strings"
)

const mapRangeModule = "google.golang.org/protobuf"

var mapRangeTargets = []string{"compiler/protogen", "cmd/protoc-gen-go/internal_gengo"}

type MapRangeSite struct {
	File, Func, Expr, Shape string
	Line                    int
	PtrKey                  bool // the map is keyed by a pointer (iteration order and any key-derived order are address dependent)
}

type MapRangeNondet struct {
	File, Func, Kind, Detail string
	Line                     int
}

// MapRangeMarshal: a call that serialises a protobuf message inside the generator.
// Without Deterministic: true the bytes depend on map iteration order whenever the
// message (e.g. descriptor options re-linked through dynamicpb) contains map fields.
type MapRangeMarshal struct {
	File, Func, Callee string
	Line               int
	Deterministic      bool
}

type mapRangeImporter struct {
	fset  *token.FileSet
	repo  string
	std   types.Importer
	pkgs  map[string]*types.Package
	errs  []string
	files map[string][]*ast.File
	infos map[string]*types.Info
}

func (m *mapRangeImporter) Import(path string) (*types.Package, error) {
	if path == mapRangeModule || strings.HasPrefix(path, mapRangeModule+"/") {
		return m.load(path, false)
	}
	return m.std.Import(path)
}

func (m *mapRangeImporter) load(path string, bodies bool) (*types.Package, error) {
	if p, ok := m.pkgs[path]; ok && (!bodies || m.infos[path] != nil) {
		return p, nil
	}
	dir := filepath.Join(m.repo, strings.TrimPrefix(strings.TrimPrefix(path, mapRangeModule), "/"))
	ctxt := build.Default
	ctxt.CgoEnabled = false
	bp, err := ctxt.ImportDir(dir, 0)
	if err != nil {
		return nil, fmt.Errorf("%s: %v", path, err)
	}
	var files []*ast.File
	for _, name := range bp.GoFiles {
		f, err := parser.ParseFile(m.fset, filepath.Join(dir, name), nil, parser.ParseComments)
		if err != nil {
			return nil, err
		}
		files = append(files, f)
	}
	conf := types.Config{Importer: m, IgnoreFuncBodies: !bodies, FakeImportC: true,
		Error: func(err error) {
			if bodies {
				m.errs = append(m.errs, err.Error())
			}
		}}
	var info *types.Info
	if bodies {
		info = &types.Info{Types: map[ast.Expr]types.TypeAndValue{}, Defs: map[*ast.Ident]types.Object{}, Uses: map[*ast.Ident]types.Object{}}
	}
	pkg, _ := conf.Check(path, m.fset, files, info)
	if pkg == nil {
		return nil, fmt.Errorf("%s: type check failed", path)
	}
	m.pkgs[path] = pkg
	if bodies {
		m.files[path] = files
		m.infos[path] = info
	}
	return pkg, nil
}

func mapRangeText(fset *token.FileSet, n ast.Node) string {
	var b bytes.Buffer
	printer.Fprint(&b, fset, n)
	return strings.Join(strings.Fields(b.String()), " ")
}

// ---- shape classification ----

type mapRangeCls struct {
	info *types.Info
	fset *token.FileSet
	key  types.Object // the key variable of the range statement being classified
}

func (c *mapRangeCls) isRangeKey(e ast.Expr) bool {
	id, ok := e.(*ast.Ident)
	return ok && c.key != nil && (c.info.Uses[id] == c.key || c.info.Defs[id] == c.key)
}

func (c *mapRangeCls) ptrKey(e ast.Expr) bool {
	tv, ok := c.info.Types[e]
	if !ok || tv.Type == nil {
		return false
	}
	m, ok := tv.Type.Underlying().(*types.Map)
	if !ok {
		return false
	}
	switch m.Key().Underlying().(type) {
	case *types.Pointer, *types.Chan, *types.Interface:
		return true
	}
	return false
}

func (c *mapRangeCls) isMap(e ast.Expr) bool {
	tv, ok := c.info.Types[e]
	if !ok || tv.Type == nil {
		return false
	}
	_, ok = tv.Type.Underlying().(*types.Map)
	return ok
}

func mapRangeIsCall(e ast.Expr, names ...string) (*ast.CallExpr, bool) {
	call, ok := e.(*ast.CallExpr)
	if !ok {
		return nil, false
	}
	if id, ok := call.Fun.(*ast.Ident); ok {
		for _, n := range names {
			if id.Name == n {
				return call, true
			}
		}
	}
	return call, false
}

func mapRangeHasAppend(e ast.Expr) bool {
	found := false
	ast.Inspect(e, func(n ast.Node) bool {
		if ce, ok := n.(*ast.CallExpr); ok {
			if id, ok := ce.Fun.(*ast.Ident); ok && id.Name == "append" {
				found = true
			}
		}
		return true
	})
	return found
}

// effect kinds of the statements of a loop body
const (
	mrAppendSlice = "append" // s = append(s, ...)   (s an identifier)
	mrMapInsert   = "insert" // m[k] = v, delete(m, k)
	mrFold        = "fold"   // x += e, x++, x |= e, x = true/false/const, max/min update, return <constants>
	mrErrReturn   = "errreturn" // return <constants>..., fmt.Errorf(...) / errors.New(...)
	mrOther       = "other"
)

type mapRangeEffects struct {
	kinds  map[string]bool
	slices map[string]bool // identifiers appended to
}

func (c *mapRangeCls) isConst(e ast.Expr) bool {
	if tv, ok := c.info.Types[e]; ok && tv.Value != nil {
		return true
	}
	if id, ok := e.(*ast.Ident); ok && (id.Name == "true" || id.Name == "false" || id.Name == "nil") {
		return true
	}
	return false
}

func (c *mapRangeCls) stmt(s ast.Stmt, ef *mapRangeEffects) {
	switch s := s.(type) {
	case nil, *ast.EmptyStmt:
	case *ast.BlockStmt:
		for _, x := range s.List {
			c.stmt(x, ef)
		}
	case *ast.IfStmt:
		// max/min fold: if e > x { x = e }
		if s.Init != nil {
			if as, ok := s.Init.(*ast.AssignStmt); !ok || as.Tok != token.DEFINE {
				ef.kinds[mrOther] = true
			}
		}
		c.stmt(s.Body, ef)
		if s.Else != nil {
			c.stmt(s.Else, ef)
		}
	case *ast.BranchStmt:
		if s.Tok != token.CONTINUE || s.Label != nil {
			ef.kinds[mrOther] = true // break makes the result depend on the order
		}
	case *ast.IncDecStmt:
		if _, ok := s.X.(*ast.Ident); ok {
			ef.kinds[mrFold] = true
		} else {
			ef.kinds[mrOther] = true
		}
	case *ast.ForStmt:
		// an inner counting loop: its own init/post only touch variables declared there
		if as, ok := s.Init.(*ast.AssignStmt); s.Init != nil && (!ok || as.Tok != token.DEFINE) {
			ef.kinds[mrOther] = true
		}
		c.stmt(s.Body, ef)
	case *ast.DeclStmt:
		// local declaration: no effect outside the iteration
	case *ast.ExprStmt:
		if call, ok := mapRangeIsCall(s.X, "delete"); ok && len(call.Args) == 2 && c.isMap(call.Args[0]) {
			ef.kinds[mrMapInsert] = true
		} else {
			ef.kinds[mrOther] = true
		}
	case *ast.ReturnStmt:
		all := true
		for _, r := range s.Results {
			if !c.isConst(r) {
				all = false
			}
		}
		if all {
			ef.kinds[mrFold] = true // "exists" search returning constants
			return
		}
		// every result constant except a freshly built error in last position
		if n := len(s.Results); n >= 1 {
			ok := true
			for _, r := range s.Results[:n-1] {
				if !c.isConst(r) {
					ok = false
				}
			}
			if call, isCall := s.Results[n-1].(*ast.CallExpr); ok && isCall {
				if t := mapRangeText(c.fset, call.Fun); t == "fmt.Errorf" || t == "errors.New" {
					ef.kinds[mrErrReturn] = true
					return
				}
			}
		}
		ef.kinds[mrOther] = true
	case *ast.AssignStmt:
		if s.Tok == token.DEFINE {
			return // new local variables
		}
		if len(s.Lhs) != 1 || len(s.Rhs) != 1 {
			ef.kinds[mrOther] = true
			return
		}
		lhs, rhs := s.Lhs[0], s.Rhs[0]
		switch l := lhs.(type) {
		case *ast.IndexExpr:
			if c.isMap(l.X) && s.Tok == token.ASSIGN && !mapRangeHasAppend(rhs) && (c.isConst(rhs) || c.isRangeKey(l.Index)) {
				// a set (constant value) or a map keyed by the range key itself: no two
				// iterations write different values under one key
				ef.kinds[mrMapInsert] = true
			} else {
				ef.kinds[mrOther] = true
			}
		case *ast.Ident:
			switch s.Tok {
			case token.ADD_ASSIGN, token.OR_ASSIGN, token.AND_ASSIGN, token.XOR_ASSIGN, token.MUL_ASSIGN:
				if tv, ok := c.info.Types[lhs]; ok {
					if b, ok := tv.Type.Underlying().(*types.Basic); ok && b.Info()&types.IsString != 0 {
						ef.kinds[mrOther] = true // string concatenation is order dependent
						return
					}
				}
				ef.kinds[mrFold] = true
			case token.ASSIGN:
				if call, ok := mapRangeIsCall(rhs, "append"); ok && len(call.Args) >= 1 {
					if a0, ok := call.Args[0].(*ast.Ident); ok && a0.Name == l.Name {
						ef.kinds[mrAppendSlice] = true
						ef.slices[l.Name] = true
						return
					}
				}
				if c.isConst(rhs) {
					ef.kinds[mrFold] = true // any / all flag
					return
				}
				ef.kinds[mrOther] = true
			default:
				ef.kinds[mrOther] = true
			}
		default:
			ef.kinds[mrOther] = true
		}
	default:
		ef.kinds[mrOther] = true // nested loops, switch, go, defer, send, ...
	}
}

// sortedAfter reports whether, in the statements following the range statement
// in its block, slice s is passed to a sort function before any other mention.
func (c *mapRangeCls) sortedAfter(rest []ast.Stmt, s string) bool {
	for _, st := range rest {
		if es, ok := st.(*ast.ExprStmt); ok {
			if call, ok := es.X.(*ast.CallExpr); ok {
				if sel, ok := call.Fun.(*ast.SelectorExpr); ok {
					if pk, ok := sel.X.(*ast.Ident); ok && (pk.Name == "sort" || pk.Name == "slices") && len(call.Args) >= 1 {
						if a0, ok := call.Args[0].(*ast.Ident); ok && a0.Name == s {
							return true
						}
					}
				}
			}
		}
		mentions := 0
		ast.Inspect(st, func(n ast.Node) bool {
			if id, ok := n.(*ast.Ident); ok && id.Name == s {
				mentions++
			}
			return true
		})
		if mentions == 0 {
			continue
		}
		// another loop that only appends to s (s = append(s, ...)) may come first
		ef := &mapRangeEffects{kinds: map[string]bool{}, slices: map[string]bool{}}
		switch x := st.(type) {
		case *ast.RangeStmt:
			c.stmt(x.Body, ef)
		case *ast.ForStmt:
			c.stmt(x.Body, ef)
		case *ast.IfStmt:
			c.stmt(x, ef)
		default:
			return false
		}
		appends := 0
		ast.Inspect(st, func(n ast.Node) bool {
			if as, ok := n.(*ast.AssignStmt); ok && len(as.Lhs) == 1 && len(as.Rhs) == 1 {
				if l, ok := as.Lhs[0].(*ast.Ident); ok && l.Name == s {
					if call, ok := mapRangeIsCall(as.Rhs[0], "append"); ok && len(call.Args) >= 1 {
						if a0, ok := call.Args[0].(*ast.Ident); ok && a0.Name == s {
							appends++
						}
					}
				}
			}
			return true
		})
		if len(ef.kinds) != 1 || !ef.kinds[mrAppendSlice] || len(ef.slices) != 1 || !ef.slices[s] || mentions != 2*appends {
			return false
		}
	}
	return false
}

func (c *mapRangeCls) classify(rs *ast.RangeStmt, rest []ast.Stmt) string {
	ef := &mapRangeEffects{kinds: map[string]bool{}, slices: map[string]bool{}}
	c.key = nil
	if id, ok := rs.Key.(*ast.Ident); ok {
		c.key = c.info.Defs[id]
		if c.key == nil {
			c.key = c.info.Uses[id]
		}
	}
	c.stmt(rs.Body, ef)
	switch {
	case ef.kinds[mrOther]:
		return "Other"
	case ef.kinds[mrAppendSlice]:
		if len(ef.kinds) != 1 {
			return "Other"
		}
		for s := range ef.slices {
			if !c.sortedAfter(rest, s) {
				return "Other"
			}
		}
		return "CollectThenSort"
	case ef.kinds[mrErrReturn]:
		if len(ef.kinds) == 1 {
			return "ReturnError"
		}
		return "Other"
	case ef.kinds[mrMapInsert] && !ef.kinds[mrFold]:
		return "InsertIntoMapOrSet"
	case ef.kinds[mrFold] && !ef.kinds[mrMapInsert]:
		return "OrderInsensitiveFold"
	case len(ef.kinds) == 0:
		return "OrderInsensitiveFold" // no effect at all
	}
	return "Other"
}

func mapRangeFuncName(fd *ast.FuncDecl, fset *token.FileSet) string {
	if fd.Recv != nil && len(fd.Recv.List) == 1 {
		t := mapRangeText(fset, fd.Recv.List[0].Type)
		return strings.TrimPrefix(t, "*") + "." + fd.Name.Name
	}
	return fd.Name.Name
}

func MapRangeExtract(repo string) ([]MapRangeSite, []MapRangeNondet, []MapRangeMarshal, []string, error) {
	fset := token.NewFileSet()
	build.Default.CgoEnabled = false
	m := &mapRangeImporter{fset: fset, repo: repo, std: importer.ForCompiler(fset, "source", nil),
		pkgs: map[string]*types.Package{}, files: map[string][]*ast.File{}, infos: map[string]*types.Info{}}
	var sites []MapRangeSite
	var nondet []MapRangeNondet
	var marshals []MapRangeMarshal
	for _, t := range mapRangeTargets {
		path := mapRangeModule + "/" + t
		if _, err := m.load(path, true); err != nil {
			return nil, nil, nil, nil, err
		}
		info := m.infos[path]
		cls := &mapRangeCls{info: info, fset: fset}
		for _, f := range m.files[path] {
			fname := t + "/" + filepath.Base(fset.Position(f.Pos()).Filename)
			for _, d := range f.Decls {
				fd, ok := d.(*ast.FuncDecl)
				if !ok || fd.Body == nil {
					continue
				}
				fn := mapRangeFuncName(fd, fset)
				// range statements, with the statements that follow them in their block
				var walkBlock func(list []ast.Stmt)
				var walk func(n ast.Node)
				walk = func(n ast.Node) {
					ast.Inspect(n, func(x ast.Node) bool {
						switch x := x.(type) {
						case *ast.BlockStmt:
							walkBlock(x.List)
							return false
						case *ast.CaseClause:
							for _, e := range x.List {
								walk(e)
							}
							walkBlock(x.Body)
							return false
						case *ast.CommClause:
							walkBlock(x.Body)
							return false
						case *ast.GoStmt:
							nondet = append(nondet, MapRangeNondet{fname, fn, "go", mapRangeText(fset, x.Call.Fun), fset.Position(x.Pos()).Line})
						case *ast.SelectStmt:
							nondet = append(nondet, MapRangeNondet{fname, fn, "select", "", fset.Position(x.Pos()).Line})
						case *ast.CallExpr:
							if sel, ok := x.Fun.(*ast.SelectorExpr); ok {
								if ms, ok := mapRangeMarshalCall(info, fset, sel); ok {
									ms.File, ms.Func, ms.Line = fname, fn, fset.Position(x.Pos()).Line
									marshals = append(marshals, ms)
								}
								if pk, ok := sel.X.(*ast.Ident); ok {
									if obj, ok := info.Uses[pk].(*types.PkgName); ok {
										ip := obj.Imported().Path()
										switch {
										case ip == "time" && (sel.Sel.Name == "Now" || sel.Sel.Name == "Since"):
											nondet = append(nondet, MapRangeNondet{fname, fn, "time", sel.Sel.Name, fset.Position(x.Pos()).Line})
										case ip == "math/rand" || ip == "math/rand/v2" || ip == "crypto/rand":
											nondet = append(nondet, MapRangeNondet{fname, fn, "rand", ip + "." + sel.Sel.Name, fset.Position(x.Pos()).Line})
										case ip == "os" && (sel.Sel.Name == "Getenv" || sel.Sel.Name == "Getpid" || sel.Sel.Name == "Hostname" || sel.Sel.Name == "LookupEnv" || sel.Sel.Name == "Environ"):
											nondet = append(nondet, MapRangeNondet{fname, fn, "env", sel.Sel.Name, fset.Position(x.Pos()).Line})
										}
									}
								}
							}
						case *ast.BasicLit:
							if x.Kind == token.STRING && strings.Contains(x.Value, "%p") {
								nondet = append(nondet, MapRangeNondet{fname, fn, "percent_p", x.Value, fset.Position(x.Pos()).Line})
							}
						}
						return true
					})
				}
				walkBlock = func(list []ast.Stmt) {
					for i, st := range list {
						if ls, ok := st.(*ast.LabeledStmt); ok {
							st = ls.Stmt
						}
						if rs, ok := st.(*ast.RangeStmt); ok && cls.isMap(rs.X) {
							sites = append(sites, MapRangeSite{File: fname, Func: fn, Expr: mapRangeText(fset, rs.X),
								Shape: cls.classify(rs, list[i+1:]), Line: fset.Position(rs.Pos()).Line, PtrKey: cls.ptrKey(rs.X)})
						}
						walk(st)
					}
				}
				walkBlock(fd.Body.List)
			}
			// pointer-keyed maps (iteration order over them would be address dependent)
			ast.Inspect(f, func(x ast.Node) bool {
				if mt, ok := x.(*ast.MapType); ok {
					if tv, ok := info.Types[mt.Key]; ok && tv.Type != nil {
						if _, ok := tv.Type.Underlying().(*types.Pointer); ok {
							nondet = append(nondet, MapRangeNondet{fname, "", "pointer_keyed_map", mapRangeText(fset, mt), fset.Position(mt.Pos()).Line})
						}
					}
				}
				return true
			})
		}
	}
	sort.Slice(sites, func(i, j int) bool {
		if sites[i].File != sites[j].File {
			return sites[i].File < sites[j].File
		}
		return sites[i].Line < sites[j].Line
	})
	sort.Slice(nondet, func(i, j int) bool {
		a, b := nondet[i], nondet[j]
		if a.File != b.File {
			return a.File < b.File
		}
		if a.Line != b.Line {
			return a.Line < b.Line
		}
		return a.Kind < b.Kind
	})
	sort.Slice(marshals, func(i, j int) bool {
		if marshals[i].File != marshals[j].File {
			return marshals[i].File < marshals[j].File
		}
		return marshals[i].Line < marshals[j].Line
	})
	return sites, nondet, marshals, m.errs, nil
}

// mapRangeMarshalCall recognises proto.Marshal / prototext.Marshal / protojson.Marshal
// and the Marshal* methods of their MarshalOptions; deterministic means the receiver is
// a proto.MarshalOptions literal with Deterministic: true.
func mapRangeMarshalCall(info *types.Info, fset *token.FileSet, sel *ast.SelectorExpr) (MapRangeMarshal, bool) {
	switch sel.Sel.Name {
	case "Marshal", "MarshalAppend", "MarshalState", "Format":
	default:
		return MapRangeMarshal{}, false
	}
	serial := func(p string) bool {
		return p == mapRangeModule+"/proto" || p == mapRangeModule+"/encoding/prototext" || p == mapRangeModule+"/encoding/protojson"
	}
	if pk, ok := sel.X.(*ast.Ident); ok {
		if obj, ok := info.Uses[pk].(*types.PkgName); ok {
			if serial(obj.Imported().Path()) {
				return MapRangeMarshal{Callee: obj.Imported().Name() + "." + sel.Sel.Name}, true
			}
			return MapRangeMarshal{}, false
		}
	}
	tv, ok := info.Types[sel.X]
	if !ok || tv.Type == nil {
		return MapRangeMarshal{}, false
	}
	named, ok := tv.Type.(*types.Named)
	if !ok || named.Obj().Pkg() == nil || named.Obj().Name() != "MarshalOptions" || !serial(named.Obj().Pkg().Path()) {
		return MapRangeMarshal{}, false
	}
	ms := MapRangeMarshal{Callee: named.Obj().Pkg().Name() + ".MarshalOptions." + sel.Sel.Name}
	if lit, ok := sel.X.(*ast.CompositeLit); ok && named.Obj().Pkg().Path() == mapRangeModule+"/proto" {
		for _, el := range lit.Elts {
			if kv, ok := el.(*ast.KeyValueExpr); ok {
				if k, ok := kv.Key.(*ast.Ident); ok && k.Name == "Deterministic" {
					if v, ok := kv.Value.(*ast.Ident); ok && v.Name == "true" {
						ms.Deterministic = true
					}
				}
			}
		}
	}
	return ms, true
}

func mapRangeCoqString(s string) string {
	return `"` + strings.ReplaceAll(s, `"`, `""`) + `"`
}

// MapRangeCoq renders coq/theories/Gen/MapRangeSites.v.
func MapRangeCoq(sites []MapRangeSite, nondet []MapRangeNondet, marshals []MapRangeMarshal) string {
	var b strings.Builder
	b.WriteString("(* GENERATED by srcmodel maprange from compiler/protogen and cmd/protoc-gen-go/internal_gengo\n")
	b.WriteString("   (go/parser + go/types) -- do not edit.  One record per `range` statement over a\n")
	b.WriteString("   map-typed expression, and one per syntactic source of nondeterminism. *)\n")
	b.WriteString("From Coq Require Import List String NArith.\nImport ListNotations.\nOpen Scope string_scope.\n\n")
	b.WriteString("Inductive shape := CollectThenSort | InsertIntoMapOrSet | OrderInsensitiveFold | ReturnError | Other.\n")
	b.WriteString("Record site := mksite { s_file : string; s_line : N; s_func : string; s_expr : string; s_shape : shape; s_ptrkey : bool }.\n")
	b.WriteString("Record nondet := mknondet { n_file : string; n_line : N; n_func : string; n_kind : string; n_detail : string }.\n")
	b.WriteString("Record marshal_site := mkmarshal { m_file : string; m_line : N; m_func : string; m_callee : string; m_deterministic : bool }.\n\n")
	b.WriteString("Definition sites : list site := [\n")
	for i, s := range sites {
		sep := ";"
		if i == len(sites)-1 {
			sep = ""
		}
		fmt.Fprintf(&b, "  mksite %s %d%%N %s %s %s %v%s\n", mapRangeCoqString(s.File), s.Line, mapRangeCoqString(s.Func), mapRangeCoqString(s.Expr), s.Shape, s.PtrKey, sep)
	}
	b.WriteString("].\n\n(* go statements, select, time, rand, environment, %p, maps keyed by pointers *)\n")
	b.WriteString("Definition nondet_sources : list nondet := [\n")
	for i, s := range nondet {
		sep := ";"
		if i == len(nondet)-1 {
			sep = ""
		}
		fmt.Fprintf(&b, "  mknondet %s %d%%N %s %s %s%s\n", mapRangeCoqString(s.File), s.Line, mapRangeCoqString(s.Func), mapRangeCoqString(s.Kind), mapRangeCoqString(s.Detail), sep)
	}
	b.WriteString("].\n\n(* calls that serialise a message: proto/prototext/protojson Marshal and MarshalOptions methods;\n")
	b.WriteString("   m_deterministic = the receiver is a proto.MarshalOptions literal with Deterministic: true *)\n")
	b.WriteString("Definition marshal_sites : list marshal_site := [\n")
	for i, s := range marshals {
		sep := ";"
		if i == len(marshals)-1 {
			sep = ""
		}
		fmt.Fprintf(&b, "  mkmarshal %s %d%%N %s %s %v%s\n", mapRangeCoqString(s.File), s.Line, mapRangeCoqString(s.Func), mapRangeCoqString(s.Callee), s.Deterministic, sep)
	}
	b.WriteString("].\n")
	return b.String()
}

func MapRangeMain(repo string) int {
	sites, nondet, marshals, errs, err := MapRangeExtract(repo)
	if err != nil {
		fmt.Fprintln(os.Stderr, "maprange:", err)
		return 1
	}
	rc := 0
	if len(errs) > 0 {
		// the table is still emitted; the proof step decides
		fmt.Fprintf(os.Stderr, "maprange: %d type errors, first: %s\n", len(errs), errs[0])
		rc = 1
	}
	dir, err := os.MkdirTemp("", "maprange")
	if err != nil {
		fmt.Fprintln(os.Stderr, err)
		return 1
	}
	out := filepath.Join(dir, "MapRangeSites.v")
	if err := os.WriteFile(out, []byte(MapRangeCoq(sites, nondet, marshals)), 0o644); err != nil {
		fmt.Fprintln(os.Stderr, err)
		return 1
	}
	fmt.Println("WRITE " + out)
	return rc
}
