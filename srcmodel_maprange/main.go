// Command srcmodel_maprange is the Tier T extractor X-MAPRANGE (DESIGN.md 3.1):
//
//	srcmodel_maprange maprange <repo>
//
// prints "WRITE <tmpfile>" for the generated coq/theories/Gen/MapRangeSites.v.
// It is a separate module only to keep work packages merge-conflict free; the
// integrator may move maprange.go into srcmodel/ and dispatch to
// MapRangeMain from srcmodel's main.
package main

import (
	"fmt"
	"os"
)

func main() {
	if len(os.Args) != 3 || os.Args[1] != "maprange" {
		fmt.Fprintln(os.Stderr, "usage: srcmodel_maprange maprange <repo>")
		os.Exit(2)
	}
	os.Exit(MapRangeMain(os.Args[2]))
}
