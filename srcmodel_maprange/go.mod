module verif/srcmodel_maprange

go 1.23
