(* Bytes: conversions between Coq's 256-constructor [byte] and [N]. *)
From Coq Require Import List Arith NArith Lia Bool.
From Coq Require Import ZifyBool ZifyNat ZifyN.
From Coq Require Export Strings.Byte.
Import ListNotations.
Open Scope N_scope.

Definition b2n (b : byte) : N := Byte.to_N b.
Definition n2b (n : N) : byte := match Byte.of_N n with Some b => b | None => x00 end.

(* [take n bs] = (first n bytes, rest) when at least n bytes are available *)
Definition take (n : nat) (bs : list byte) : option (list byte * list byte) :=
  if Nat.leb n (length bs) then Some (firstn n bs, skipn n bs) else None.

Lemma b2n_lt b : b2n b < 256.
Proof. unfold b2n. pose proof (Byte.to_N_bounded b). lia. Qed.

Lemma n2b_b2n b : n2b (b2n b) = b.
Proof. unfold n2b, b2n. now rewrite Byte.of_to_N. Qed.

Lemma b2n_n2b n : n < 256 -> b2n (n2b n) = n.
Proof.
  intros H. unfold n2b, b2n.
  destruct (Byte.of_N n) eqn:E.
  - now apply Byte.to_of_N.
  - apply Byte.of_N_None_iff in E. lia.
Qed.

Lemma take_app (b rest : list byte) : take (length b) (b ++ rest) = Some (b, rest).
Proof.
  unfold take. rewrite app_length.
  replace (Nat.leb (length b) (length b + length rest)) with true by (symmetry; apply Nat.leb_le; lia).
  rewrite firstn_app, Nat.sub_diag, firstn_all, firstn_O, app_nil_r.
  rewrite skipn_app, Nat.sub_diag, skipn_all. reflexivity.
Qed.

Lemma take_some n bs a r : take n bs = Some (a, r) -> bs = a ++ r /\ length a = n.
Proof.
  unfold take. destruct (Nat.leb n (length bs)) eqn:E; [|discriminate].
  intros H; inversion H; subst. split.
  - symmetry; apply firstn_skipn.
  - apply firstn_length_le. now apply Nat.leb_le.
Qed.
