(* Utf8Valid: Go's unicode/utf8.Valid (go1.23 src/unicode/utf8/utf8.go) as a total
   function on byte lists, Go's utf8.DecodeRune, and the declarative Unicode
   definition of well-formed UTF-8 (Unicode 15, D92 / table 3-7): a concatenation
   of the shortest-form encodings of Unicode scalar values.

   Definitions only; proofs are in Utf8ValidP.v.  Used by C13. *)
From Coq Require Import List NArith Bool.
Require Import PB.Base.PBytes.
Import ListNotations.
Open Scope N_scope.

(* ---------------------------------------------------------------- declarative *)

(* Unicode scalar value: a code point <= U+10FFFF that is not a surrogate *)
Definition scalar (r : N) : Prop := r < 0xD800 \/ (0xE000 <= r /\ r <= 0x10FFFF).
Definition scalarb (r : N) : bool := (r <? 0xD800) || ((0xE000 <=? r) && (r <=? 0x10FFFF)).

(* the shortest-form encoding (= utf8.AppendRune for scalar values) *)
Definition encode_rune (r : N) : list byte :=
  if r <? 0x80 then [n2b r]
  else if r <? 0x800 then [n2b (0xC0 + r / 64); n2b (0x80 + r mod 64)]
  else if r <? 0x10000 then [n2b (0xE0 + r / 4096); n2b (0x80 + (r / 64) mod 64); n2b (0x80 + r mod 64)]
  else [n2b (0xF0 + r / 262144); n2b (0x80 + (r / 4096) mod 64); n2b (0x80 + (r / 64) mod 64); n2b (0x80 + r mod 64)].

Inductive is_utf8 : list byte -> Prop :=
| utf8_nil : is_utf8 []
| utf8_cons r bs : scalar r -> is_utf8 bs -> is_utf8 (encode_rune r ++ bs).

(* ---------------------------------------------------------------- utf8.Valid *)

(* the [first] table of utf8.go: information about the first byte of an encoding.
     as = 0xF0 (ASCII, size 1)   xx = 0xF1 (invalid, size 1)
     s1 = 0x02  s2 = 0x13  s3 = 0x03  s4 = 0x23  s5 = 0x34  s6 = 0x04  s7 = 0x44
   low 3 bits: size; high 4 bits: index into acceptRanges *)
Definition t_xx : N := 0xF1.
Definition first (x0 : N) : N :=
  if x0 <? 0x80 then 0xF0                (* 00..7F as *)
  else if x0 <? 0xC2 then t_xx           (* 80..C1 xx *)
  else if x0 <? 0xE0 then 0x02           (* C2..DF s1 *)
  else if x0 =? 0xE0 then 0x13           (* E0     s2 *)
  else if x0 <? 0xED then 0x03           (* E1..EC s3 *)
  else if x0 =? 0xED then 0x23           (* ED     s4 *)
  else if x0 <? 0xF0 then 0x03           (* EE..EF s3 *)
  else if x0 =? 0xF0 then 0x34           (* F0     s5 *)
  else if x0 <? 0xF4 then 0x04           (* F1..F3 s6 *)
  else if x0 =? 0xF4 then 0x44           (* F4     s7 *)
  else t_xx.                             (* F5..FF xx *)

(* acceptRanges [16]acceptRange: entries 0..4 are set, the others are {0,0} *)
Definition accept_lo (i : N) : N :=
  match i with 0 => 0x80 | 1 => 0xA0 | 2 => 0x80 | 3 => 0x90 | 4 => 0x80 | _ => 0 end.
Definition accept_hi (i : N) : N :=
  match i with 0 => 0xBF | 1 => 0xBF | 2 => 0x9F | 3 => 0xBF | 4 => 0x8F | _ => 0 end.

Definition locb : N := 0x80.
Definition hicb : N := 0xBF.

(* the main loop of utf8.Valid:  for i := 0; i < n; { ... } *)
Fixpoint valid_loop (p : list byte) : bool :=
  match p with
  | [] => true
  | b0 :: r =>
    let pi := b2n b0 in
    if pi <? 0x80 then valid_loop r                       (* i++; continue *)
    else
      let x := first pi in
      if x =? t_xx then false                              (* illegal starter byte *)
      else
        let size := N.land x 7 in
        if N.of_nat (length p) <? size then false          (* i+size > n : short or invalid *)
        else
          let lo := accept_lo (N.shiftr x 4) in
          let hi := accept_hi (N.shiftr x 4) in
          match r with
          | [] => false                                    (* unreachable: size >= 2 *)
          | b1 :: r1 =>
            let c := b2n b1 in
            if (c <? lo) || (hi <? c) then false
            else if size =? 2 then valid_loop r1
            else match r1 with
              | [] => false                                (* unreachable: size >= 3 *)
              | b2 :: r2 =>
                let c := b2n b2 in
                if (c <? locb) || (hicb <? c) then false
                else if size =? 3 then valid_loop r2
                else match r2 with
                  | [] => false                            (* unreachable: size = 4 *)
                  | b3 :: r3 =>
                    let c := b2n b3 in
                    if (c <? locb) || (hicb <? c) then false
                    else valid_loop r3
                  end
              end
          end
  end.

(* the fast path: skip 8 bytes at a time while all of them are ASCII.
     first32 := uint32(p[0]) | uint32(p[1])<<8 | uint32(p[2])<<16 | uint32(p[3])<<24
     second32 := uint32(p[4]) | ... | uint32(p[7])<<24
     if (first32|second32)&0x80808080 != 0 { break }
   (a byte shifted left by at most 24 stays below 2^32, so uint32 never wraps here) *)
Definition ascii (b : byte) : bool := b2n b <? 0x80.
Definition le32 (b0 b1 b2 b3 : byte) : N :=
  N.lor (N.lor (N.lor (b2n b0) (N.shiftl (b2n b1) 8)) (N.shiftl (b2n b2) 16)) (N.shiftl (b2n b3) 24).
Definition has_high8 (b0 b1 b2 b3 b4 b5 b6 b7 : byte) : bool :=
  negb (N.land (N.lor (le32 b0 b1 b2 b3) (le32 b4 b5 b6 b7)) 0x80808080 =? 0).
Fixpoint skip_ascii8 (p : list byte) : list byte :=
  match p with
  | b0 :: b1 :: b2 :: b3 :: b4 :: b5 :: b6 :: b7 :: r =>
    if has_high8 b0 b1 b2 b3 b4 b5 b6 b7 then p else skip_ascii8 r
  | _ => p
  end.

Definition utf8_valid (p : list byte) : bool := valid_loop (skip_ascii8 p).

(* ---------------------------------------------------------------- utf8.DecodeRune *)

(* returns (rune, size); ill-formed prefix -> (RuneError, 1); empty -> (RuneError, 0).
   The text and JSON codecs validate strings by iterating DecodeRune and testing
   r == RuneError && n == 1. *)
Definition rune_error : N := 0xFFFD.
Definition cont (x : N) : bool := (0x80 <=? x) && (x <? 0xC0).

Definition decode_rune (bs : list byte) : N * nat :=
  match bs with
  | [] => (rune_error, 0%nat)
  | b0 :: r =>
    let x0 := b2n b0 in
    if x0 <? 0x80 then (x0, 1%nat)
    else if x0 <? 0xC2 then (rune_error, 1%nat)
    else if x0 <? 0xE0 then
      match r with
      | b1 :: _ => let x1 := b2n b1 in
                   if cont x1 then ((x0 - 0xC0) * 64 + (x1 - 0x80), 2%nat) else (rune_error, 1%nat)
      | _ => (rune_error, 1%nat)
      end
    else if x0 <? 0xF0 then
      match r with
      | b1 :: b2 :: _ =>
        let x1 := b2n b1 in let x2 := b2n b2 in
        let lo := if x0 =? 0xE0 then 0xA0 else 0x80 in
        let hi := if x0 =? 0xED then 0xA0 else 0xC0 in
        if (lo <=? x1) && (x1 <? hi) && cont x2
        then ((x0 - 0xE0) * 4096 + (x1 - 0x80) * 64 + (x2 - 0x80), 3%nat) else (rune_error, 1%nat)
      | _ => (rune_error, 1%nat)
      end
    else if x0 <? 0xF5 then
      match r with
      | b1 :: b2 :: b3 :: _ =>
        let x1 := b2n b1 in let x2 := b2n b2 in let x3 := b2n b3 in
        let lo := if x0 =? 0xF0 then 0x90 else 0x80 in
        let hi := if x0 =? 0xF4 then 0x90 else 0xC0 in
        if (lo <=? x1) && (x1 <? hi) && cont x2 && cont x3
        then ((x0 - 0xF0) * 262144 + (x1 - 0x80) * 4096 + (x2 - 0x80) * 64 + (x3 - 0x80), 4%nat)
        else (rune_error, 1%nat)
      | _ => (rune_error, 1%nat)
      end
    else (rune_error, 1%nat)
  end.

Definition decode_bad (d : N * nat) : bool := (fst d =? rune_error) && Nat.eqb (snd d) 1.

(* validity as the text/JSON codecs establish it: iterate DecodeRune, fail on (RuneError,1) *)
Fixpoint valid_by_decode (fuel : nat) (p : list byte) : bool :=
  match fuel with
  | O => match p with [] => true | _ => false end
  | S f =>
    match p with
    | [] => true
    | _ => let d := decode_rune p in
           if decode_bad d then false else valid_by_decode f (skipn (snd d) p)
    end
  end.
Definition utf8_valid_dec (p : list byte) : bool := valid_by_decode (length p) p.
