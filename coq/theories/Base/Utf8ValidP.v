(* Proofs about Base/Utf8Valid.v: Go's utf8.Valid accepts exactly the well-formed
   UTF-8 byte strings of the Unicode standard. *)
From Coq Require Import List NArith ZArith Lia Bool Arith.
From Coq Require Import ZifyBool ZifyNat ZifyN.
Require Import PB.Base.PBytes PB.Base.Utf8Valid.
Import ListNotations.
Open Scope N_scope.
Ltac Zify.zify_post_hook ::= Z.div_mod_to_equations.

Lemma n2b_inj_b2n b x : b2n b = x -> n2b x = b.
Proof. intros <-. apply n2b_b2n. Qed.

(* ---- the first table, by range *)
Lemma first_cases x0 : x0 < 256 ->
  (x0 < 0x80 /\ first x0 = 0xF0) \/
  ((0x80 <= x0 < 0xC2 \/ 0xF5 <= x0) /\ first x0 = t_xx) \/
  (0xC2 <= x0 < 0xE0 /\ first x0 = 0x02) \/
  (x0 = 0xE0 /\ first x0 = 0x13) \/
  ((0xE1 <= x0 < 0xED \/ 0xEE <= x0 < 0xF0) /\ first x0 = 0x03) \/
  (x0 = 0xED /\ first x0 = 0x23) \/
  (x0 = 0xF0 /\ first x0 = 0x34) \/
  (0xF1 <= x0 < 0xF4 /\ first x0 = 0x04) \/
  (x0 = 0xF4 /\ first x0 = 0x44).
Proof.
  intros H. unfold first.
  repeat match goal with |- context [if ?c then _ else _] => destruct c eqn:? end; lia.
Qed.

Lemma bad_err : decode_bad (rune_error, 1%nat) = true.
Proof. reflexivity. Qed.
Lemma bad_n r n : n <> 1%nat -> decode_bad (r, n) = false.
Proof. intros H. unfold decode_bad. cbn [fst snd]. destruct (Nat.eqb_spec n 1); [tauto|apply andb_false_r]. Qed.

Ltac fix_b0 b0 :=
  repeat match goal with
  | |- context [b2n b0 <? ?k] =>
      first [replace (b2n b0 <? k) with true by lia | replace (b2n b0 <? k) with false by lia]
  | |- context [b2n b0 =? ?k] =>
      first [replace (b2n b0 =? k) with true by lia | replace (b2n b0 =? k) with false by lia]
  end.
Ltac consts :=
  repeat match goal with
  | |- context [N.land ?a ?b] => let v := eval vm_compute in (N.land a b) in change (N.land a b) with v
  | |- context [N.shiftr ?a ?b] => let v := eval vm_compute in (N.shiftr a b) in change (N.shiftr a b) with v
  end.
Ltac eqconsts :=
  repeat match goal with |- context [N.eqb ?a ?b] =>
     let v := eval vm_compute in (N.eqb a b) in change (N.eqb a b) with v end.
Ltac or_false := match goal with |- context [if ?c || ?d then false else _] => replace (c || d) with false by lia end.
Ltac or_true := match goal with |- context [if ?c || ?d then false else _] => replace (c || d) with true by lia end.
Ltac or_case := match goal with |- context [if ?c || ?d then false else _] => destruct (c || d) eqn:? end.

Ltac prep b0 F :=
  cbn [valid_loop decode_rune]; rewrite F; fix_b0 b0; consts;
  cbn [accept_lo accept_hi]; unfold t_xx, locb, hicb; eqconsts; cbv iota.

Ltac three b0 rest F :=
    prep b0 F;
    destruct rest as [|b1 [|b2 r2]];
    [ reflexivity
    | cbn [length]; replace (N.of_nat 2 <? 3) with true by lia; reflexivity
    | replace (N.of_nat (length (b0 :: b1 :: b2 :: r2)) <? 3) with false by (cbn [length]; lia);
      pose proof (b2n_lt b1); pose proof (b2n_lt b2); unfold cont;
      match goal with |- context [if (?c && ?d && ?e) then _ else _] => destruct (c && d && e) eqn:C end;
      [ or_false; or_false; rewrite bad_n by lia; reflexivity
      | or_case; [ reflexivity | or_true; reflexivity ] ] ].

Ltac four b0 rest F :=
    prep b0 F;
    destruct rest as [|b1 [|b2 [|b3 r3]]];
    [ reflexivity
    | cbn [length]; replace (N.of_nat 2 <? 4) with true by lia; reflexivity
    | cbn [length]; replace (N.of_nat 3 <? 4) with true by lia; reflexivity
    | replace (N.of_nat (length (b0 :: b1 :: b2 :: b3 :: r3)) <? 4) with false by (cbn [length]; lia);
      pose proof (b2n_lt b1); pose proof (b2n_lt b2); pose proof (b2n_lt b3); unfold cont;
      match goal with |- context [if (?c && ?d && ?e && ?f) then _ else _] => destruct (c && d && e && f) eqn:C end;
      [ or_false; or_false; or_false; rewrite bad_n by lia; reflexivity
      | or_case; [ reflexivity | or_case; [ reflexivity | or_true; reflexivity ] ] ] ].

(* one iteration of utf8.Valid's main loop = one utf8.DecodeRune *)
Lemma valid_loop_decode b0 rest :
  valid_loop (b0 :: rest) =
  if decode_bad (decode_rune (b0 :: rest)) then false
  else valid_loop (skipn (snd (decode_rune (b0 :: rest))) (b0 :: rest)).
Proof.
  pose proof (b2n_lt b0) as H0.
  destruct (first_cases _ H0) as [[R F]|[[R F]|[[R F]|[[R F]|[[R F]|[[R F]|[[R F]|[[R F]|[R F]]]]]]]]].
  - (* ASCII *)
    cbn [valid_loop decode_rune]. replace (b2n b0 <? 128) with true by lia.
    unfold decode_bad. cbn [fst snd skipn].
    replace (b2n b0 =? rune_error) with false by (unfold rune_error; lia). reflexivity.
  - (* illegal starter *)
    cbn [valid_loop decode_rune]. replace (b2n b0 <? 128) with false by lia.
    rewrite F. cbn [N.eqb t_xx Pos.eqb].
    destruct (b2n b0 <? 194) eqn:E1; [reflexivity|].
    replace (b2n b0 <? 224) with false by lia. replace (b2n b0 <? 240) with false by lia.
    replace (b2n b0 <? 245) with false by lia. reflexivity.
  - (* C2..DF *)
    prep b0 F.
    destruct rest as [|b1 r1]; [reflexivity|].
    replace (N.of_nat (length (b0 :: b1 :: r1)) <? 2) with false by (cbn [length]; lia).
    pose proof (b2n_lt b1). unfold cont.
    destruct ((128 <=? b2n b1) && (b2n b1 <? 192)) eqn:C.
    + or_false. rewrite bad_n by lia. reflexivity.
    + or_true. reflexivity.
  - three b0 rest F.
  - three b0 rest F.
  - three b0 rest F.
  - four b0 rest F.
  - four b0 rest F.
  - four b0 rest F.
Qed.
(* a successful DecodeRune step consumed the shortest-form encoding of a scalar value *)
Lemma decode_rune_sound bs r n :
  decode_rune bs = (r, n) -> decode_bad (r, n) = false -> bs <> [] ->
  scalar r /\ encode_rune r = firstn n bs /\ (1 <= n <= length bs)%nat.
Proof.
  unfold decode_rune. destruct bs as [|b0 rest]; [congruence|]. intros D B _. revert D.
  assert (BE : forall (P : Prop), (rune_error, 1%nat) = (r, n) -> P).
  { intros P [= <- <-]. rewrite bad_err in B. discriminate. }
  pose proof (b2n_lt b0) as H0.
  destruct (b2n b0 <? 128) eqn:E1.
  { intros [= <- <-]. unfold scalar, encode_rune. replace (b2n b0 <? 128) with true by lia.
    cbn [firstn length]. rewrite n2b_b2n. repeat split; try lia. }
  destruct (b2n b0 <? 194) eqn:E2; [intro X; exact (BE _ X)|].
  destruct (b2n b0 <? 224) eqn:E3.
  { destruct rest as [|b1 rest]; [intro X; exact (BE _ X)|].
    pose proof (b2n_lt b1) as H1. unfold cont.
    destruct ((128 <=? b2n b1) && (b2n b1 <? 192)) eqn:C1; [|intro X; exact (BE _ X)].
    intros [= <- <-]. unfold encode_rune, scalar.
    replace ((b2n b0 - 192) * 64 + (b2n b1 - 128) <? 128) with false by lia.
    replace ((b2n b0 - 192) * 64 + (b2n b1 - 128) <? 2048) with true by lia.
    cbn [firstn length]. repeat split; try lia.
    f_equal; [|f_equal]; apply n2b_inj_b2n; lia. }
  destruct (b2n b0 <? 240) eqn:E4.
  { destruct rest as [|b1 [|b2 rest]]; try (intro X; exact (BE _ X)).
    pose proof (b2n_lt b1) as H1. pose proof (b2n_lt b2) as H2. unfold cont.
    match goal with |- context [if ?c then _ else _] => destruct c eqn:C end; [|intro X; exact (BE _ X)].
    intros [= <- <-]. unfold encode_rune, scalar.
    assert (Hlo : 160 <= b2n b1 \/ b2n b0 <> 224) by (destruct (b2n b0 =? 224) eqn:?; lia).
    assert (Hhi : b2n b1 < 160 \/ b2n b0 <> 237) by (destruct (b2n b0 =? 237) eqn:?; lia).
    assert (128 <= b2n b1 < 192) by (destruct (b2n b0 =? 224) eqn:?; destruct (b2n b0 =? 237) eqn:?; lia).
    assert (128 <= b2n b2 < 192) by lia.
    set (r := (b2n b0 - 224) * 4096 + (b2n b1 - 128) * 64 + (b2n b2 - 128)).
    assert (2048 <= r < 65536) by (unfold r; lia).
    assert (r < 55296 \/ 57344 <= r) by (unfold r; lia).
    replace (r <? 128) with false by lia. replace (r <? 2048) with false by lia.
    replace (r <? 65536) with true by lia.
    cbn [firstn length]. repeat split; try lia.
    f_equal; [|f_equal; [|f_equal]]; apply n2b_inj_b2n; unfold r; lia. }
  destruct (b2n b0 <? 245) eqn:E5; [|intro X; exact (BE _ X)].
  destruct rest as [|b1 [|b2 [|b3 rest]]]; try (intro X; exact (BE _ X)).
  pose proof (b2n_lt b1) as H1. pose proof (b2n_lt b2) as H2. pose proof (b2n_lt b3) as H3. unfold cont.
  match goal with |- context [if ?c then _ else _] => destruct c eqn:C end; [|intro X; exact (BE _ X)].
  intros [= <- <-]. unfold encode_rune, scalar.
  assert (128 <= b2n b1 < 192) by (destruct (b2n b0 =? 240) eqn:?; destruct (b2n b0 =? 244) eqn:?; lia).
  assert (144 <= b2n b1 \/ b2n b0 <> 240) by (destruct (b2n b0 =? 240) eqn:?; lia).
  assert (b2n b1 < 144 \/ b2n b0 <> 244) by (destruct (b2n b0 =? 244) eqn:?; lia).
  assert (128 <= b2n b2 < 192) by lia. assert (128 <= b2n b3 < 192) by lia.
  set (r := (b2n b0 - 240) * 262144 + (b2n b1 - 128) * 4096 + (b2n b2 - 128) * 64 + (b2n b3 - 128)).
  assert (65536 <= r <= 1114111) by (unfold r; lia).
  replace (r <? 128) with false by lia. replace (r <? 2048) with false by lia.
  replace (r <? 65536) with false by lia.
  cbn [firstn length]. repeat split; try lia.
  f_equal; [|f_equal; [|f_equal; [|f_equal]]]; apply n2b_inj_b2n; unfold r; lia.
Qed.
Lemma encode_rune_length r : (1 <= length (encode_rune r) <= 4)%nat.
Proof. unfold encode_rune. repeat match goal with |- context [if ?c then _ else _] => destruct c end; cbn [length]; lia. Qed.

(* DecodeRune on the encoding of a scalar value returns that value and its length *)
Lemma decode_encode_rune r rest : scalar r ->
  decode_rune (encode_rune r ++ rest) = (r, length (encode_rune r)).
Proof.
  unfold scalar, encode_rune. intros S.
  destruct (r <? 128) eqn:E1.
  { cbn [app length decode_rune]. rewrite b2n_n2b by lia. now rewrite E1. }
  destruct (r <? 2048) eqn:E2.
  { cbn [app length decode_rune]. rewrite !b2n_n2b by lia. unfold cont.
    replace (192 + r / 64 <? 128) with false by lia.
    replace (192 + r / 64 <? 194) with false by lia.
    replace (192 + r / 64 <? 224) with true by lia.
    replace ((128 <=? 128 + r mod 64) && (128 + r mod 64 <? 192)) with true by lia.
    f_equal. lia. }
  destruct (r <? 65536) eqn:E3.
  { cbn [app length decode_rune]. rewrite !b2n_n2b by lia. unfold cont.
    replace (224 + r / 4096 <? 128) with false by lia.
    replace (224 + r / 4096 <? 194) with false by lia.
    replace (224 + r / 4096 <? 224) with false by lia.
    replace (224 + r / 4096 <? 240) with true by lia.
    match goal with |- (if ?c then _ else _) = _ => replace c with true end.
    - f_equal. lia.
    - symmetry. destruct (224 + r / 4096 =? 224) eqn:A; destruct (224 + r / 4096 =? 237) eqn:B; lia. }
  cbn [app length decode_rune]. rewrite !b2n_n2b by lia. unfold cont.
  replace (240 + r / 262144 <? 128) with false by lia.
  replace (240 + r / 262144 <? 194) with false by lia.
  replace (240 + r / 262144 <? 224) with false by lia.
  replace (240 + r / 262144 <? 240) with false by lia.
  replace (240 + r / 262144 <? 245) with true by lia.
  match goal with |- (if ?c then _ else _) = _ => replace c with true end.
  - f_equal. lia.
  - symmetry. destruct (240 + r / 262144 =? 240) eqn:A; destruct (240 + r / 262144 =? 244) eqn:B; lia.
Qed.

Lemma decode_encode_not_bad r : decode_bad (r, length (encode_rune r)) = false \/ length (encode_rune r) = 1%nat /\ r < 128.
Proof.
  unfold encode_rune. destruct (r <? 128) eqn:E; [right; cbn [length]; split; lia|].
  left. apply bad_n. repeat match goal with |- context [if ?c then _ else _] => destruct c end; cbn [length]; lia.
Qed.

Lemma skipn_app_len {A} (a b : list A) : skipn (length a) (a ++ b) = b.
Proof. induction a; cbn; auto. Qed.

Lemma valid_loop_encode r rest : scalar r -> valid_loop (encode_rune r ++ rest) = valid_loop rest.
Proof.
  intros S. pose proof (encode_rune_length r) as L.
  destruct (encode_rune r ++ rest) as [|b0 t] eqn:E.
  { destruct (encode_rune r); cbn in *; [lia|discriminate]. }
  rewrite valid_loop_decode. rewrite <- E. rewrite decode_encode_rune by assumption.
  cbn [snd]. rewrite skipn_app_len.
  destruct (decode_encode_not_bad r) as [->|[L1 R1]]; [reflexivity|].
  unfold decode_bad. cbn [fst snd]. replace (r =? rune_error) with false by (unfold rune_error; lia). reflexivity.
Qed.

Lemma valid_loop_sound : forall n p, (length p <= n)%nat -> valid_loop p = true -> is_utf8 p.
Proof.
  induction n; intros p L V.
  - destruct p; [constructor|cbn in L; lia].
  - destruct p as [|b0 rest]; [constructor|].
    rewrite valid_loop_decode in V.
    destruct (decode_rune (b0 :: rest)) as [r k] eqn:D.
    destruct (decode_bad (r, k)) eqn:B; [discriminate|].
    destruct (decode_rune_sound _ _ _ D B ltac:(discriminate)) as (S & En & K).
    cbn [snd] in V.
    rewrite <- (firstn_skipn k (b0 :: rest)). rewrite <- En.
    constructor; [assumption|]. apply IHn; [|assumption].
    rewrite skipn_length. cbn [length] in *. lia.
Qed.

Theorem valid_loop_spec p : valid_loop p = true <-> is_utf8 p.
Proof.
  split.
  - apply (valid_loop_sound (length p)). lia.
  - induction 1; [reflexivity|]. now rewrite valid_loop_encode.
Qed.

Lemma valid_loop_ascii b r : ascii b = true -> valid_loop (b :: r) = valid_loop r.
Proof. unfold ascii. intros H. cbn [valid_loop]. now rewrite H. Qed.

(* the word test of the fast path: some byte of the eight has its high bit set *)
Lemma high_bit_0 b : (N.land (b2n b) 0x80808080 =? 0) = ascii b.
Proof. destruct b; reflexivity. Qed.
Lemma high_bit_8 b : (N.land (N.shiftl (b2n b) 8) 0x80808080 =? 0) = ascii b.
Proof. destruct b; reflexivity. Qed.
Lemma high_bit_16 b : (N.land (N.shiftl (b2n b) 16) 0x80808080 =? 0) = ascii b.
Proof. destruct b; reflexivity. Qed.
Lemma high_bit_24 b : (N.land (N.shiftl (b2n b) 24) 0x80808080 =? 0) = ascii b.
Proof. destruct b; reflexivity. Qed.

Lemma lor_eqb_0 a b : (N.lor a b =? 0) = (a =? 0) && (b =? 0).
Proof.
  destruct (N.eqb_spec (N.lor a b) 0) as [E|E].
  - apply N.lor_eq_0_iff in E. destruct E as [-> ->]. reflexivity.
  - destruct (N.eqb_spec a 0) as [->|]; [|reflexivity]. destruct (N.eqb_spec b 0) as [->|]; [|reflexivity].
    exfalso. apply E. reflexivity.
Qed.

Lemma le32_high b0 b1 b2 b3 :
  (N.land (le32 b0 b1 b2 b3) 0x80808080 =? 0) = ascii b0 && ascii b1 && ascii b2 && ascii b3.
Proof.
  unfold le32. rewrite !N.land_lor_distr_l, !lor_eqb_0.
  now rewrite high_bit_0, high_bit_8, high_bit_16, high_bit_24.
Qed.

Lemma has_high8_spec b0 b1 b2 b3 b4 b5 b6 b7 :
  has_high8 b0 b1 b2 b3 b4 b5 b6 b7 =
  negb (ascii b0 && ascii b1 && ascii b2 && ascii b3 && ascii b4 && ascii b5 && ascii b6 && ascii b7).
Proof.
  unfold has_high8. rewrite N.land_lor_distr_l, lor_eqb_0, !le32_high. f_equal.
  now rewrite !andb_assoc.
Qed.

Lemma skip_ascii8_valid : forall n p, (length p <= n)%nat -> valid_loop (skip_ascii8 p) = valid_loop p.
Proof.
  induction n; intros p L.
  - destruct p; [reflexivity|cbn in L; lia].
  - destruct p as [|b0 [|b1 [|b2 [|b3 [|b4 [|b5 [|b6 [|b7 r]]]]]]]]; try reflexivity.
    cbn [skip_ascii8]. rewrite has_high8_spec.
    destruct (ascii b0) eqn:A0; [|reflexivity]. destruct (ascii b1) eqn:A1; [|reflexivity].
    destruct (ascii b2) eqn:A2; [|reflexivity]. destruct (ascii b3) eqn:A3; [|reflexivity].
    destruct (ascii b4) eqn:A4; [|reflexivity]. destruct (ascii b5) eqn:A5; [|reflexivity].
    destruct (ascii b6) eqn:A6; [|reflexivity]. destruct (ascii b7) eqn:A7; [|reflexivity].
    cbn [andb negb]. rewrite IHn by (cbn [length] in L; lia).
    now rewrite !valid_loop_ascii.
Qed.

(* Go's utf8.Valid accepts exactly the well-formed UTF-8 byte strings *)
Theorem utf8_valid_spec bs : utf8_valid bs = true <-> is_utf8 bs.
Proof. unfold utf8_valid. rewrite (skip_ascii8_valid (length bs)) by lia. apply valid_loop_spec. Qed.

(* the validity test of the text and JSON codecs (iterate DecodeRune, fail on (RuneError,1)) is the same predicate *)
Lemma valid_by_decode_eq : forall n p, (length p <= n)%nat -> valid_by_decode n p = valid_loop p.
Proof.
  induction n; intros p L.
  - destruct p; [reflexivity|cbn in L; lia].
  - destruct p as [|b0 rest]; [reflexivity|].
    rewrite valid_loop_decode. cbn [valid_by_decode].
    destruct (decode_rune (b0 :: rest)) as [r k] eqn:D.
    destruct (decode_bad (r, k)) eqn:B; [reflexivity|].
    destruct (decode_rune_sound _ _ _ D B ltac:(discriminate)) as (S & En & K).
    cbn [snd]. apply IHn. rewrite skipn_length. cbn [length] in *. lia.
Qed.

Theorem utf8_valid_dec_eq p : utf8_valid_dec p = utf8_valid p.
Proof.
  unfold utf8_valid_dec, utf8_valid. rewrite valid_by_decode_eq by lia.
  now rewrite (skip_ascii8_valid (length p)) by lia.
Qed.
