(* Proofs about Base/Utf8Model.v: what a valid DecodeRune result looks like,
   canonical re-encoding, independence of the bytes after the sequence. *)
From Coq Require Import List Arith NArith ZArith Lia Bool.
From Coq Require Import ZifyBool ZifyNat ZifyN.
From PB Require Import Base.PBytes Base.Utf8Model.
Ltac Zify.zify_post_hook ::= Z.div_mod_to_equations.
Import ListNotations.
Open Scope N_scope.

Lemma n2b_inj_b2n b x : b2n b = x -> n2b x = b.
Proof. intros <-. apply n2b_b2n. Qed.

(* everything the string codec needs to know about one decoded rune *)
Record rune_ok (bs : list byte) (r : N) (n : nat) : Prop := {
  ro_len : (1 <= n <= 4)%nat;
  ro_avail : (n <= length bs)%nat;
  ro_max : r <= max_rune;
  ro_nosurr : is_surrogate r = false;
  ro_enc : encode_rune_raw r = firstn n bs;
  ro_ascii : (n = 1%nat <-> r < 128);
  ro_head : forall b0 t, bs = b0 :: t -> (r < 128 -> r = b2n b0) /\ (128 <= r -> 194 <= b2n b0);
  ro_prefix : forall t, decode_rune (firstn n bs ++ t) = (r, n)
}.

Ltac inv_pair := match goal with H : (_, _) = (_, _) |- _ => inversion H; subst; clear H end.

Theorem decode_rune_ok bs r n :
  bs <> [] -> decode_rune bs = (r, n) -> rune_invalid (r, n) = false -> rune_ok bs r n.
Proof.
  intros Hne. unfold decode_rune, rune_invalid, rune_error. cbn [fst snd].
  destruct bs as [|b0 rest]; [congruence|clear Hne].
  pose proof (b2n_lt b0) as H0.
  destruct (b2n b0 <? 128) eqn:E1.
  { intros [= <- <-] _.
    split; cbn [length firstn app]; unfold max_rune, is_surrogate, encode_rune_raw; try lia.
    - rewrite E1. f_equal. apply n2b_b2n.
    - intros b t [= <- <-]. split; intros; lia.
    - intros t. unfold decode_rune. rewrite E1. reflexivity. }
  destruct (b2n b0 <? 194) eqn:E2; [intros [= <- <-]; cbn; discriminate|].
  destruct (b2n b0 <? 224) eqn:E3.
  { destruct rest as [|b1 rest]; [intros [= <- <-]; cbn; discriminate|].
    pose proof (b2n_lt b1) as H1. unfold cont.
    destruct ((128 <=? b2n b1) && (b2n b1 <? 192)) eqn:C1; [|intros [= <- <-]; cbn; discriminate].
    intros [= <- <-] _.
    set (r := (b2n b0 - 192) * 64 + (b2n b1 - 128)).
    assert (128 <= r < 2048) by (unfold r; lia).
    split; cbn [length firstn app]; unfold max_rune, is_surrogate, encode_rune_raw; try lia.
    - replace (r <? 128) with false by lia. replace (r <? 2048) with true by lia.
      f_equal; [|f_equal]; apply n2b_inj_b2n; unfold r; lia.
    - intros b t [= <- <-]. split; intros; lia.
    - intros t. unfold decode_rune, cont. rewrite E1, E2, E3, C1. reflexivity. }
  destruct (b2n b0 <? 240) eqn:E4.
  { destruct rest as [|b1 [|b2 rest]]; try (intros [= <- <-]; cbn; discriminate).
    pose proof (b2n_lt b1) as H1. pose proof (b2n_lt b2) as H2. unfold cont.
    match goal with |- context [if ?c then _ else _] => destruct c eqn:C end; [|intros [= <- <-]; cbn; discriminate].
    intros [= <- <-] _.
    assert (Hlo : 160 <= b2n b1 \/ b2n b0 <> 224) by (destruct (b2n b0 =? 224) eqn:?; lia).
    assert (Hhi : b2n b1 < 160 \/ b2n b0 <> 237) by (destruct (b2n b0 =? 237) eqn:?; lia).
    assert (128 <= b2n b1 < 192) by (destruct (b2n b0 =? 224) eqn:?; destruct (b2n b0 =? 237) eqn:?; lia).
    assert (128 <= b2n b2 < 192) by lia.
    set (r := (b2n b0 - 224) * 4096 + (b2n b1 - 128) * 64 + (b2n b2 - 128)).
    assert (2048 <= r < 65536) by (unfold r; lia).
    assert (r < 55296 \/ 57344 <= r) by (unfold r; lia).
    split; cbn [length firstn app]; unfold max_rune, is_surrogate, encode_rune_raw; try lia.
    - replace (r <? 128) with false by lia. replace (r <? 2048) with false by lia.
      replace (r <? 65536) with true by lia.
      f_equal; [|f_equal; [|f_equal]]; apply n2b_inj_b2n; unfold r; lia.
    - intros b t [= <- <-]. split; intros; lia.
    - intros t. unfold decode_rune, cont. rewrite E1, E2, E3, E4, C. reflexivity. }
  destruct (b2n b0 <? 245) eqn:E5; [|intros [= <- <-]; cbn; discriminate].
  destruct rest as [|b1 [|b2 [|b3 rest]]]; try (intros [= <- <-]; cbn; discriminate).
  pose proof (b2n_lt b1) as H1. pose proof (b2n_lt b2) as H2. pose proof (b2n_lt b3) as H3. unfold cont.
  match goal with |- context [if ?c then _ else _] => destruct c eqn:C end; [|intros [= <- <-]; cbn; discriminate].
  intros [= <- <-] _.
  assert (128 <= b2n b1 < 192) by (destruct (b2n b0 =? 240) eqn:?; destruct (b2n b0 =? 244) eqn:?; lia).
  assert (144 <= b2n b1 \/ b2n b0 <> 240) by (destruct (b2n b0 =? 240) eqn:?; lia).
  assert (b2n b1 < 144 \/ b2n b0 <> 244) by (destruct (b2n b0 =? 244) eqn:?; lia).
  assert (128 <= b2n b2 < 192) by lia. assert (128 <= b2n b3 < 192) by lia.
  set (r := (b2n b0 - 240) * 262144 + (b2n b1 - 128) * 4096 + (b2n b2 - 128) * 64 + (b2n b3 - 128)).
  assert (65536 <= r <= 1114111) by (unfold r; lia).
  split; cbn [length firstn app]; unfold max_rune, is_surrogate, encode_rune_raw; try lia.
  - replace (r <? 128) with false by lia. replace (r <? 2048) with false by lia.
    replace (r <? 65536) with false by lia.
    f_equal; [|f_equal; [|f_equal; [|f_equal]]]; apply n2b_inj_b2n; unfold r; lia.
  - intros b t [= <- <-]. split; intros; lia.
  - intros t. unfold decode_rune, cont. rewrite E1, E2, E3, E4, E5, C. reflexivity.
Qed.

(* an invalid first byte is >= 0x80 and exactly one byte is consumed *)
Lemma decode_rune_invalid b0 t r n :
  decode_rune (b0 :: t) = (r, n) -> rune_invalid (r, n) = true -> n = 1%nat /\ 128 <= b2n b0.
Proof.
  unfold rune_invalid. cbn [fst snd]. intros Hd Hi.
  assert (n = 1%nat) by (destruct (Nat.eqb n 1) eqn:E; [now apply Nat.eqb_eq|rewrite andb_false_r in Hi; discriminate]).
  split; [assumption|].
  unfold decode_rune in Hd. destruct (b2n b0 <? 128) eqn:E1; [|lia].
  inversion Hd; subst. unfold rune_error in Hi. pose proof (b2n_lt b0). lia.
Qed.

Lemma decode_rune_nonempty_pos b0 t : (1 <= snd (decode_rune (b0 :: t)))%nat.
Proof.
  destruct (decode_rune (b0 :: t)) as [r n] eqn:E. cbn [snd].
  destruct (rune_invalid (r, n)) eqn:I.
  - destruct (decode_rune_invalid _ _ _ _ E I). lia.
  - destruct (decode_rune_ok (b0 :: t) r n); [discriminate|assumption|assumption|lia].
Qed.

Lemma decode_rune_le_length bs : (snd (decode_rune bs) <= length bs)%nat.
Proof.
  destruct bs as [|b0 t]; [cbn; lia|].
  destruct (decode_rune (b0 :: t)) as [r n] eqn:E. cbn [snd].
  destruct (rune_invalid (r, n)) eqn:I.
  - destruct (decode_rune_invalid _ _ _ _ E I). cbn [length]. lia.
  - destruct (decode_rune_ok (b0 :: t) r n); [discriminate|assumption|assumption|lia].
Qed.

(* a valid decode: encode_rune (with Go's replacement of invalid runes) gives
   back the consumed bytes *)
Lemma encode_decode_rune bs r n :
  bs <> [] -> decode_rune bs = (r, n) -> rune_invalid (r, n) = false -> encode_rune r = firstn n bs.
Proof.
  intros Hne Hd Hi. destruct (decode_rune_ok bs r n Hne Hd Hi).
  unfold encode_rune. rewrite ro_nosurr0. replace (max_rune <? r) with false by lia. assumption.
Qed.

(* ASCII fast facts *)
Lemma decode_rune_ascii b t : b2n b < 128 -> decode_rune (b :: t) = (b2n b, 1%nat).
Proof. intros H. unfold decode_rune. replace (b2n b <? 128) with true by lia. reflexivity. Qed.
