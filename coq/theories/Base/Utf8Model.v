(* Model of Go's unicode/utf8 DecodeRune / AppendRune (definitions only).
   Runes are [N]; DecodeRune returns (rune, size); an invalid or short
   sequence gives (RuneError, 1), the empty input (RuneError, 0). *)
From Coq Require Import List NArith Bool.
From PB Require Import Base.PBytes.
Import ListNotations.
Open Scope N_scope.

Definition rune_error : N := 65533.   (* U+FFFD *)
Definition max_rune : N := 1114111.   (* U+10FFFF *)

Definition cont (x : N) : bool := (128 <=? x) && (x <? 192).

Definition decode_rune (bs : list byte) : N * nat :=
  match bs with
  | [] => (rune_error, 0%nat)
  | b0 :: r =>
    let x0 := b2n b0 in
    if x0 <? 128 then (x0, 1%nat)
    else if x0 <? 194 then (rune_error, 1%nat)            (* 0x80..0xC1 : continuation or overlong lead *)
    else if x0 <? 224 then                                 (* 2-byte: C2..DF *)
      match r with
      | b1 :: _ => let x1 := b2n b1 in
                   if cont x1 then ((x0 - 192) * 64 + (x1 - 128), 2%nat) else (rune_error, 1%nat)
      | _ => (rune_error, 1%nat)
      end
    else if x0 <? 240 then                                 (* 3-byte: E0..EF *)
      match r with
      | b1 :: b2 :: _ =>
        let x1 := b2n b1 in let x2 := b2n b2 in
        let lo := if x0 =? 224 then 160 else 128 in        (* E0: A0..BF *)
        let hi := if x0 =? 237 then 160 else 192 in        (* ED: 80..9F (no surrogates) *)
        if (lo <=? x1) && (x1 <? hi) && cont x2
        then ((x0 - 224) * 4096 + (x1 - 128) * 64 + (x2 - 128), 3%nat) else (rune_error, 1%nat)
      | _ => (rune_error, 1%nat)
      end
    else if x0 <? 245 then                                 (* 4-byte: F0..F4 *)
      match r with
      | b1 :: b2 :: b3 :: _ =>
        let x1 := b2n b1 in let x2 := b2n b2 in let x3 := b2n b3 in
        let lo := if x0 =? 240 then 144 else 128 in        (* F0: 90..BF *)
        let hi := if x0 =? 244 then 144 else 192 in        (* F4: 80..8F *)
        if (lo <=? x1) && (x1 <? hi) && cont x2 && cont x3
        then ((x0 - 240) * 262144 + (x1 - 128) * 4096 + (x2 - 128) * 64 + (x3 - 128), 4%nat)
        else (rune_error, 1%nat)
      | _ => (rune_error, 1%nat)
      end
    else (rune_error, 1%nat)
  end.

(* the "r == utf8.RuneError && n == 1" test used by both text/encode.go and
   text/decode_string.go *)
Definition rune_invalid (rn : N * nat) : bool :=
  (fst rn =? rune_error) && Nat.eqb (snd rn) 1.

(* utf8.AppendRune / string(rune) for a valid scalar value (surrogates and
   out-of-range runes become U+FFFD, as in Go) *)
Definition is_surrogate (r : N) : bool := (55296 <=? r) && (r <? 57344).

Definition encode_rune_raw (r : N) : list byte :=
  if r <? 128 then [n2b r]
  else if r <? 2048 then [n2b (192 + r / 64); n2b (128 + r mod 64)]
  else if r <? 65536 then [n2b (224 + r / 4096); n2b (128 + (r / 64) mod 64); n2b (128 + r mod 64)]
  else [n2b (240 + r / 262144); n2b (128 + (r / 4096) mod 64); n2b (128 + (r / 64) mod 64); n2b (128 + r mod 64)].

Definition encode_rune (r : N) : list byte :=
  if is_surrogate r || (max_rune <? r) then encode_rune_raw rune_error else encode_rune_raw r.

(* utf8.Valid *)
Fixpoint utf8_valid_fuel (fuel : nat) (bs : list byte) : bool :=
  match fuel with
  | O => match bs with [] => true | _ => false end
  | S f =>
    match bs with
    | [] => true
    | _ => let rn := decode_rune bs in
           if rune_invalid rn then false else utf8_valid_fuel f (skipn (snd rn) bs)
    end
  end.
Definition utf8_valid (bs : list byte) : bool := utf8_valid_fuel (length bs) bs.
