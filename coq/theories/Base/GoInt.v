(* Support definitions for Go code translated to Gallina by srcmodel (Tier T).
   Hand-written; definitions only.

   Conventions of the translation: every Go integer is a [Z] that lies in the
   range of its Go type; an operation that can leave the range is followed by
   the [wrap_*] of the static Go type of the expression.  Byte slices and
   strings are [list Z] (elements in [0,256)).  An operation that can panic in
   Go (index, slice expression, division by a non-constant) yields an
   [outcome]; a function that contains such an operation returns [outcome T].
   Slice capacity is not modelled: [b[:hi]] with [hi > len b] is a [Panic]
   here although Go allows it up to [cap b] (the model is stricter, so "no
   Panic" in the model implies "no panic and no read beyond len" in Go). *)
From Coq Require Import List ZArith Bool.
From Coq Require String.
Import ListNotations.
Open Scope Z_scope.

Definition wrap_u8 (z : Z) : Z := z mod 256.
Definition wrap_u16 (z : Z) : Z := z mod 65536.
Definition wrap_u32 (z : Z) : Z := z mod 4294967296.
Definition wrap_u64 (z : Z) : Z := z mod 18446744073709551616.
Definition wrap_i8 (z : Z) : Z := (z + 128) mod 256 - 128.
Definition wrap_i16 (z : Z) : Z := (z + 32768) mod 65536 - 32768.
Definition wrap_i32 (z : Z) : Z := (z + 2147483648) mod 4294967296 - 2147483648.
Definition wrap_i64 (z : Z) : Z := (z + 9223372036854775808) mod 18446744073709551616 - 9223372036854775808.

(* [Fuel]: a translated loop or recursion used up the fuel the translation
   gave it (theorems show this unreachable) *)
Inductive outcome (A : Type) := Val (a : A) | Panic | Fuel.
Arguments Val {A}. Arguments Panic {A}. Arguments Fuel {A}.
Definition bind {A B : Type} (o : outcome A) (f : A -> outcome B) : outcome B :=
  match o with Val a => f a | Panic => Panic | Fuel => Fuel end.

Definition len {A : Type} (b : list A) : Z := Z.of_nat (List.length b).

(* b[i] *)
Definition index (b : list Z) (i : Z) : outcome Z :=
  if (i <? 0) || (len b <=? i) then Panic else Val (nth (Z.to_nat i) b 0).
(* b[lo:] *)
Definition slice_lo (b : list Z) (lo : Z) : outcome (list Z) :=
  if (lo <? 0) || (len b <? lo) then Panic else Val (skipn (Z.to_nat lo) b).
(* b[:hi] *)
Definition slice_hi (b : list Z) (hi : Z) : outcome (list Z) :=
  if (hi <? 0) || (len b <? hi) then Panic else Val (firstn (Z.to_nat hi) b).
(* b[lo:hi] *)
Definition slice_lo_hi (b : list Z) (lo hi : Z) : outcome (list Z) :=
  if (lo <? 0) || (hi <? lo) || (len b <? hi) then Panic
  else Val (firstn (Z.to_nat (hi - lo)) (skipn (Z.to_nat lo) b)).
(* x / y and x % y with a divisor that is not a non-zero constant *)
Definition quot_checked (x y : Z) : outcome Z := if y =? 0 then Panic else Val (Z.quot x y).
Definition rem_checked (x y : Z) : outcome Z := if y =? 0 then Panic else Val (Z.rem x y).

(* math/bits *)
Definition bits_LeadingZeros64 (v : Z) : Z := if v =? 0 then 64 else 63 - Z.log2 v.
Definition bits_Len64 (v : Z) : Z := if v =? 0 then 0 else Z.log2 v + 1.

(* values of type error: nil or a named package-level error variable *)
Inductive go_error := GoNil | GoErr (name : String.string).

(* a function outside the translatable subset: any theorem that applies it
   fails to type-check *)
Inductive Unsupported := unsupported (reason : String.string).
