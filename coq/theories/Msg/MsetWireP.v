(* Wire-layer lemmas needed by the MessageSet proofs (the wire model itself,
   Wire/WireModel.v, and varint_roundtrip in Wire/VarintP.v belong to WP-A and
   are used read-only). *)
From Coq Require Import List Arith NArith ZArith Lia Bool.
From Coq Require Import ZifyBool ZifyNat ZifyN.
From PB Require Import Base.PBytes Wire.WireModel Wire.VarintP.
Ltac Zify.zify_post_hook ::= Z.div_mod_to_equations.
Import ListNotations.
Open Scope N_scope.

(* ---------- varint: decoding depends only on the consumed prefix ---------- *)
Lemma dec_varint_aux_prefix : forall k sh acc bs v r,
  dec_varint_aux k sh acc bs = Ok (v, r) ->
  exists pre, bs = pre ++ r /\ pre <> [] /\ forall y, dec_varint_aux k sh acc (pre ++ y) = Ok (v, y).
Proof.
  induction k as [|k IH]; intros sh acc bs v r H; [discriminate|].
  destruct bs as [|b bs]; [discriminate|].
  cbn [dec_varint_aux] in H.
  destruct k as [|k'].
  - destruct (b2n b <? 2) eqn:E; [|discriminate]. inversion H; subst.
    exists [b]. split; [reflexivity|]. split; [discriminate|].
    intros y. cbn [app dec_varint_aux]. rewrite E. reflexivity.
  - destruct (b2n b <? 128) eqn:E.
    + inversion H; subst. exists [b]. split; [reflexivity|]. split; [discriminate|].
      intros y. cbn [app dec_varint_aux]. rewrite E. reflexivity.
    + apply IH in H. destruct H as (pre & -> & _ & Hy).
      exists (b :: pre). split; [reflexivity|]. split; [discriminate|].
      intros y. cbn [app dec_varint_aux]. rewrite E. apply Hy.
Qed.

Lemma dec_varint_prefix bs v r :
  dec_varint bs = Ok (v, r) ->
  exists pre, bs = pre ++ r /\ pre <> [] /\ forall y, dec_varint (pre ++ y) = Ok (v, y).
Proof. apply dec_varint_aux_prefix. Qed.

Lemma enc_varint_nonempty v : enc_varint v <> [].
Proof. unfold enc_varint. cbn [enc_varint_fuel]. destruct (v <? 128); discriminate. Qed.

(* ---------- tags ---------- *)
Definition valid_num (num : N) : Prop := 1 <= num <= 2147483647.

Lemma dec_tag_enc_tag num typ rest :
  valid_num num -> typ < 8 -> dec_tag (enc_tag num typ ++ rest) = Ok (num, typ, rest).
Proof.
  unfold valid_num. intros Hn Ht. unfold dec_tag, enc_tag, encode_tag.
  rewrite varint_roundtrip by (change (2^64) with 18446744073709551616; lia).
  unfold decode_tag.
  replace (2147483647 <? (num * 8 + typ mod 8) / 8) with false by lia.
  replace ((num * 8 + typ mod 8) / 8) with num by lia.
  replace ((num * 8 + typ mod 8) mod 8) with typ by lia.
  replace (num <? 1) with false by lia. reflexivity.
Qed.

Lemma dec_tag_prefix bs num typ r :
  dec_tag bs = Ok (num, typ, r) ->
  valid_num num /\ typ < 8 /\
  exists pre, bs = pre ++ r /\ pre <> [] /\ forall y, dec_tag (pre ++ y) = Ok (num, typ, y).
Proof.
  unfold dec_tag. destruct (dec_varint bs) as [[x r0]|e] eqn:E; [|discriminate].
  unfold decode_tag. destruct (2147483647 <? x / 8) eqn:E1; [discriminate|].
  destruct (x / 8 <? 1) eqn:E2; [discriminate|].
  intros H; inversion H; subst. unfold valid_num.
  split; [lia|]. split; [lia|].
  apply dec_varint_prefix in E. destruct E as (pre & -> & Hne & Hy).
  exists pre. split; [reflexivity|]. split; [exact Hne|].
  intros y. rewrite Hy. rewrite E1, E2. reflexivity.
Qed.

(* ---------- length-prefixed bytes ---------- *)
Lemma dec_bytes_enc_bytes v rest :
  N.of_nat (length v) < 2^64 -> dec_bytes (enc_bytes v ++ rest) = Ok (v, rest).
Proof.
  intros H. unfold dec_bytes, enc_bytes. rewrite <- app_assoc.
  rewrite varint_roundtrip by exact H.
  rewrite app_length.
  replace (N.of_nat (length v + length rest) <? N.of_nat (length v)) with false by lia.
  rewrite Nat2N.id, take_app. reflexivity.
Qed.

(* a length-delimited value as it sits on the wire: prefix bytes [pre] (any
   valid varint spelling of the length) followed by the contents *)
Lemma dec_bytes_prefix bs m r :
  dec_bytes bs = Ok (m, r) ->
  exists pre, bs = pre ++ m ++ r /\ pre <> [] /\
    dec_varint (pre ++ m ++ r) = Ok (N.of_nat (length m), m ++ r) /\
    forall y, dec_bytes (pre ++ m ++ y) = Ok (m, y).
Proof.
  unfold dec_bytes. destruct (dec_varint bs) as [[n r0]|e] eqn:E; [|discriminate].
  destruct (N.of_nat (length r0) <? n) eqn:E1; [discriminate|].
  destruct (take (N.to_nat n) r0) as [[v r']|] eqn:E2; [|discriminate].
  intros H; inversion H; subst.
  apply take_some in E2. destruct E2 as [-> Hl].
  apply dec_varint_prefix in E. destruct E as (pre & -> & Hne & Hy).
  exists pre. split; [reflexivity|]. split; [exact Hne|].
  assert (Hn : n = N.of_nat (length m)) by lia.
  split.
  - rewrite Hy. now rewrite Hn.
  - intros y. rewrite Hy. rewrite app_length.
    replace (N.of_nat (length m + length y) <? n) with false by lia.
    rewrite <- Hl, take_app. reflexivity.
Qed.

(* the raw bytes of a length-delimited value (what ConsumeFieldValue keeps with wantLen) *)
Lemma firstn_consumed {A} (a r : list A) : firstn (length (a ++ r) - length r) (a ++ r) = a.
Proof.
  rewrite app_length. replace (length a + length r - length r)%nat with (length a) by lia.
  rewrite firstn_app, Nat.sub_diag, firstn_all, firstn_O, app_nil_r. reflexivity.
Qed.

(* ---------- SizeVarint = length of the encoding ---------- *)
Lemma enc_varint_fuel_length : forall k v,
  v < 2^(7 * N.of_nat k) -> (0 < k)%nat ->
  N.of_nat (length (enc_varint_fuel k v)) = if v =? 0 then 1 else (N.size v + 6) / 7.
Proof.
  induction k as [|k IH]; intros v Hv Hk; [lia|].
  cbn [enc_varint_fuel].
  destruct (v <? 128) eqn:E.
  - cbn [length]. destruct (v =? 0) eqn:E0; [reflexivity|].
    assert (Hs : 1 <= N.size v <= 7).
    { pose proof (N.size_gt v). pose proof (N.size_le v).
      assert (N.size v <> 0). { intros C. rewrite C in H. change (2^0) with 1 in H. lia. }
      split; [lia|].
      destruct (N.le_gt_cases (N.size v) 7) as [L|G]; [exact L|].
      assert (2^8 <= 2^N.size v) by (apply N.pow_le_mono_r; lia).
      change (2^8) with 256 in H2. lia. }
    lia.
  - cbn [length]. rewrite Nat2N.inj_succ.
    assert (Hk' : (0 < k)%nat).
    { destruct k; [|lia]. change (2^(7 * N.of_nat 1)) with 128 in Hv. lia. }
    rewrite IH; [| | exact Hk'].
    2:{ replace (7 * N.of_nat (S k)) with (7 + 7 * N.of_nat k) in Hv by lia.
        rewrite N.pow_add_r in Hv. change (2^7) with 128 in Hv.
        apply N.div_lt_upper_bound; lia. }
    replace (v =? 0) with false by lia.
    replace (v / 128 =? 0) with false by lia.
    assert (Hsz : N.size v = N.size (v / 128) + 7).
    { rewrite !N.size_log2 by lia.
      change 128 with (2^7). rewrite <- N.shiftr_div_pow2, N.log2_shiftr.
      assert (H7 : 128 <= v) by lia.
      apply N.log2_le_mono in H7. change (N.log2 128) with 7 in H7.
      lia. }
    rewrite Hsz. lia.
Qed.

Lemma size_varint_length v : v < 2^64 -> size_varint v = N.of_nat (length (enc_varint v)).
Proof.
  intros Hv. unfold enc_varint, size_varint.
  rewrite enc_varint_fuel_length; [| | lia].
  2:{ change (2^(7 * N.of_nat 10)) with (2^64 * 64). lia. }
  destruct (v =? 0) eqn:E.
  - assert (v = 0) by lia. subst. reflexivity.
  - assert (Hs : 1 <= N.size v <= 64).
    { pose proof (N.size_le v).
      assert (N.size v <> 0). { intros C. pose proof (N.size_gt v). rewrite C in H0. change (2^0) with 1 in H0. lia. }
      split; [lia|].
      destruct (N.le_gt_cases (N.size v) 64) as [L|G]; [exact L|].
      assert (2^65 <= 2^N.size v) by (apply N.pow_le_mono_r; lia).
      change (2^65) with (2 * 2^64) in H1. lia. }
    (* (9 s + 64) / 64 = (s + 6) / 7 for 1 <= s <= 64 *)
    remember (N.size v) as s. clear -Hs.
    assert (forall s, s <= 64 -> 1 <= s -> (9 * s + 64) / 64 = (s + 6) / 7).
    { clear. intros s. intros. lia. }
    apply H; lia.
Qed.

Lemma size_tag_length num : valid_num num -> forall typ, typ < 8 ->
  size_tag num = N.of_nat (length (enc_tag num typ)).
Proof.
  unfold valid_num. intros Hn typ Ht. unfold size_tag, enc_tag, encode_tag.
  change (0 mod 8) with 0.
  assert (H64 : num * 8 + typ mod 8 < 2^64) by (change (2^64) with 18446744073709551616; lia).
  assert (H64' : num * 8 + 0 < 2^64) by (change (2^64) with 18446744073709551616; lia).
  (* the low three bits do not change the size: both are N.size-determined with num >= 1 *)
  unfold size_varint.
  assert (N.size (num * 8 + 0) = N.size (num * 8 + typ mod 8)).
  { rewrite !N.size_log2 by lia. f_equal.
    assert (forall t, t < 8 -> N.log2 (num * 8 + t) = N.log2 num + 3).
    { intros t Ht'. replace (num * 8 + t) with (t + num * 2^3) by (change (2^3) with 8; lia).
      assert (E : (t + num * 2^3) / 2^3 = num).
      { change (2^3) with 8. lia. }
      rewrite <- E at 2. rewrite <- N.shiftr_div_pow2, N.log2_shiftr.
      assert (H8 : 8 <= t + num * 2^3) by (change (2^3) with 8; lia).
      apply N.log2_le_mono in H8. change (N.log2 8) with 3 in H8.
      lia. }
    rewrite (H 0) by lia. rewrite (H (typ mod 8)) by lia. reflexivity. }
  rewrite H. fold (size_varint (num * 8 + typ mod 8)).
  apply size_varint_length. exact H64.
Qed.

(* ---------- progress of the scanner (for the loop fuel) ---------- *)
Lemma dec_varint_len bs v r : dec_varint bs = Ok (v, r) -> (length r < length bs)%nat.
Proof.
  intros H. apply dec_varint_prefix in H. destruct H as (pre & -> & Hne & _).
  rewrite app_length. destruct pre; [congruence|]. cbn [length]. lia.
Qed.
Lemma dec_tag_len bs n t r : dec_tag bs = Ok (n, t, r) -> (length r < length bs)%nat.
Proof.
  intros H. apply dec_tag_prefix in H. destruct H as (_ & _ & pre & -> & Hne & _).
  rewrite app_length. destruct pre; [congruence|]. cbn [length]. lia.
Qed.
Lemma dec_bytes_len bs m r : dec_bytes bs = Ok (m, r) -> (length r < length bs)%nat.
Proof.
  intros H. apply dec_bytes_prefix in H. destruct H as (pre & -> & Hne & _).
  rewrite !app_length. destruct pre; [congruence|]. cbn [length]. lia.
Qed.

Lemma take_len n bs a r : take n bs = Some (a, r) -> (length r <= length bs)%nat.
Proof. intros H. apply take_some in H. destruct H as [-> _]. rewrite app_length. lia. Qed.

Lemma group_loop_len (pv : pv_t) :
  (forall n t bs v r, pv n t bs = Ok (v, r) -> (length r <= length bs)%nat) ->
  forall num g bs acc v r, group_loop pv num g bs acc = Ok (v, r) -> (length r <= length bs)%nat.
Proof.
  intros Hpv num g. induction g as [|x g IH]; intros bs acc v r H; [discriminate|].
  cbn [group_loop] in H.
  destruct (dec_tag bs) as [[[n2 t2] r0]|e] eqn:E; [|discriminate].
  apply dec_tag_len in E.
  destruct (t2 =? 4).
  - destruct (n2 =? num); [|discriminate]. inversion H; subst. lia.
  - destruct (pv n2 t2 r0) as [[v0 r1]|e] eqn:E2; [|discriminate].
    apply Hpv in E2. apply IH in H. lia.
Qed.

Ltac pv_case H IH :=
  match type of H with
  | match dec_varint ?bs with _ => _ end = _ =>
      let E := fresh "E" in
      destruct (dec_varint bs) as [[? ?]|?] eqn:E; [|discriminate]; inversion H; subst;
      apply dec_varint_len in E; lia
  | match take ?k ?bs with _ => _ end = _ =>
      let E := fresh "E" in
      destruct (take k bs) as [[? ?]|] eqn:E; [|discriminate]; inversion H; subst;
      eapply take_len; eauto
  | match dec_bytes ?bs with _ => _ end = _ =>
      let E := fresh "E" in
      destruct (dec_bytes bs) as [[? ?]|?] eqn:E; [|discriminate]; inversion H; subst;
      apply dec_bytes_len in E; lia
  | group_loop _ _ _ _ _ = _ => eapply group_loop_len; [|exact H]; exact IH
  | _ => discriminate
  end.

Lemma parse_val_len : forall dep num typ bs v r,
  parse_val dep num typ bs = Ok (v, r) -> (length r <= length bs)%nat.
Proof.
  induction dep as [|d IH]; intros num typ bs v r H;
    destruct typ as [|[[[?|?|]|[?|?|]|]|[[?|?|]|[?|?|]|]|]]; cbn [parse_val] in H;
    try discriminate; pv_case H IH.
Qed.
