(* DetModel — deterministic marshaling as a function of message content (C05).  Definitions only.

   The [value]s of Msg/MsgValue.v are read here as CONCRETE messages: the bindings of a message
   and the entries of a map stand in the order in which they were inserted (a Go map has no
   order: whoever iterates sees an arbitrary permutation, modelled by oracle functions that the
   theorems quantify over), and a binding may hold an empty list (an allocated, empty Go map).

     det_canon v                   abs: the canonical value (bindings sorted by number, empty bindings
                                   dropped, map entries sorted by key, recursively)
     det_arrange sorte pf pi v     what an encoder sees: every map iterated in the order the oracle
                                   [pi] gives, the bindings of every message in the order [pf] gives;
                                   with [sorte] the collected entries are then sorted by key
                                   (appendMapDeterministic / order.RangeEntries with GenericKeyOrder);
                                   bindings are always sorted (sort.Ints over extension numbers,
                                   orderedCoderFields, order.RangeFields)
     det_encode pf pi S tid v      Marshal with Deterministic          = msg_encode of det_arrange true
     det_encode_nondet pf pi ...   default Marshal of the table-driven path = msg_encode of det_arrange false
     det_kcmp                      the total key order: bool false<true, signed numerically, unsigned
                                   numerically, strings bytewise ([msg_scmp] within one kind)
     det_sort lt                   insertion sort (any correct sort gives the same list: Msg/DetP.v)
     det_op, det_step, det_run md ops   operation histories on one message: Set / Clear / map insert /
                                   map delete / SetUnknown, with the implicit-presence and oneof rules
     det_wf v                      concrete well-formedness: distinct numbers, distinct map keys
     det_ops_ok ops                the values mentioned by a history are well-formed *)
From Coq Require Import List NArith ZArith Bool.
From PB Require Import Base.PBytes Wire.WireModel Msg.MsgSchema Msg.MsgValue Msg.MsgEnc Msg.MsgDec.
Import ListNotations.
Open Scope N_scope.

(* ---------- key order ---------- *)
Definition det_tag (s : scalar) : N :=
  match s with SB _ => 0 | SZ _ => 1 | SN _ => 2 | SBy _ => 3 end.

(* keys of one map all have the same kind; comparing the kind first makes the order total on
   all scalars without changing it within a kind *)
Definition det_kcmp (a b : scalar) : comparison :=
  match det_tag a ?= det_tag b with
  | Eq => msg_scmp a b
  | c => c
  end.
Definition det_klt (a b : scalar) : bool := match det_kcmp a b with Lt => true | _ => false end.

Definition det_is_entry (v : value) : bool := match v with VEntry _ _ => true | _ => false end.
Definition det_entry_lt (a b : value) : bool :=
  match a, b with
  | VEntry k _, VEntry k' _ => det_klt k k'
  | _, _ => false
  end.
Definition det_field_lt (p q : N * list value) : bool := fst p <? fst q.

(* ---------- sorting ---------- *)
Section Sort.
  Context {A : Type} (lt : A -> A -> bool).
  Fixpoint det_insert (x : A) (l : list A) : list A :=
    match l with
    | [] => [x]
    | y :: r => if lt y x then y :: det_insert x r else x :: l
    end.
  Fixpoint det_sort (l : list A) : list A :=
    match l with
    | [] => []
    | x :: r => det_insert x (det_sort r)
    end.
End Sort.

(* ---------- what an encoder sees ---------- *)
Definition det_nonempty (p : N * list value) : bool :=
  match snd p with [] => false | _ :: _ => true end.

Definition det_is_map (vs : list value) : bool :=
  match vs with [] => false | _ :: _ => forallb det_is_entry vs end.

Section Arrange.
  Variable sorte : bool.                                  (* Deterministic *)
  Variable pf : fields -> fields.                         (* iteration order of a message's bindings *)
  Variable pi : list value -> list value.                 (* iteration order of a map *)
  Fixpoint det_arrange (v : value) : value :=
    match v with
    | VS s => VS s
    | VEntry k x => VEntry k (det_arrange x)
    | VMsg fs u =>
      VMsg (det_sort det_field_lt
              (filter det_nonempty
                 (pf (map (fun p => (fst p,
                                     let vs := map det_arrange (snd p) in
                                     if det_is_map vs
                                     then (if sorte then det_sort det_entry_lt (pi vs) else pi vs)
                                     else vs)) fs)))) u
    end.
End Arrange.

Definition det_id {A} (x : A) : A := x.
Definition det_canon (v : value) : value := det_arrange true det_id det_id v.

Definition det_encode (pf : fields -> fields) (pi : list value -> list value)
           (S : schema) (tid : nat) (v : value) : list byte :=
  msg_encode S tid (det_arrange true pf pi v).
Definition det_encode_nondet (pf : fields -> fields) (pi : list value -> list value)
           (S : schema) (tid : nat) (v : value) : list byte :=
  msg_encode S tid (det_arrange false pf pi v).

(* what the model driver runs: the value as dumped (assignment / insertion order) *)
Definition det_encode_dump (S : schema) (tid : nat) (v : value) : list byte :=
  det_encode det_id det_id S tid v.

(* ---------- histories ---------- *)
Inductive det_op :=
| DSet (num : N) (vs : list value)         (* assign a singular field ([vs] = one value) or a whole list *)
| DClear (num : N)
| DPut (num : N) (k : scalar) (v : value)  (* map insert / overwrite *)
| DDel (num : N) (k : scalar)              (* map delete *)
| DUnk (u : list byte).                    (* SetUnknown *)

Definition det_key_eqb (a b : scalar) : bool := match det_kcmp a b with Eq => true | _ => false end.

(* replace the binding in place, or add it at the end *)
Fixpoint det_cset (fs : fields) (num : N) (vs : list value) : fields :=
  match fs with
  | [] => [(num, vs)]
  | (k, old) :: r => if num =? k then (k, vs) :: r else (k, old) :: det_cset r num vs
  end.

Fixpoint det_eput (es : list value) (key : scalar) (v : value) : list value :=
  match es with
  | [] => [VEntry key v]
  | VEntry k0 x :: r => if det_key_eqb k0 key then VEntry key v :: r else VEntry k0 x :: det_eput r key v
  | e :: r => e :: det_eput r key v
  end.
Fixpoint det_edel (es : list value) (key : scalar) : list value :=
  match es with
  | [] => []
  | VEntry k0 x :: r => if det_key_eqb k0 key then r else VEntry k0 x :: det_edel r key
  | e :: r => e :: det_edel r key
  end.

Definition det_card_is_map (c : card) : bool := match c with CMap _ _ _ => true | _ => false end.

Definition det_step (md : mdesc) (st : fields * list byte) (o : det_op) : fields * list byte :=
  match o with
  | DSet num vs =>
    match msg_find_field md num with
    | None => st
    | Some fd =>
      if det_card_is_map (f_card fd) || existsb det_is_entry vs then st else
      let drop := match vs with
                  | [] => true
                  | [VS s] => match f_card fd with CImp => msg_scalar_is_zero s | _ => false end
                  | _ => false
                  end in
      if drop then (msg_fdel (fst st) num, snd st)
      else
        let fs1 := det_cset (fst st) num vs in
        (match f_oneof fd with Some oi => msg_clear_oneof md oi num fs1 | None => fs1 end, snd st)
    end
  | DClear num => (msg_fdel (fst st) num, snd st)
  | DPut num k v =>
    match msg_find_field md num with
    | None => st
    | Some fd =>
      if det_card_is_map (f_card fd)
      then (det_cset (fst st) num (det_eput (msg_fget (fst st) num) k v), snd st)
      else st
    end
  | DDel num k =>
    match msg_find_field md num with
    | None => st
    | Some fd =>
      if det_card_is_map (f_card fd)
      then (det_cset (fst st) num (det_edel (msg_fget (fst st) num) k), snd st)
      else st
    end
  | DUnk u => (fst st, u)
  end.

Definition det_run (md : mdesc) (ops : list det_op) : value :=
  let st := fold_left (det_step md) ops ([], []) in VMsg (fst st) (snd st).

(* ---------- well-formedness ---------- *)
Fixpoint det_nodup_n (l : list N) : bool :=
  match l with
  | [] => true
  | x :: r => negb (existsb (N.eqb x) r) && det_nodup_n r
  end.

Definition det_has_key (key : scalar) (e : value) : bool :=
  match e with VEntry k _ => det_key_eqb k key | _ => false end.

Fixpoint det_nodup_keys (es : list value) : bool :=
  match es with
  | [] => true
  | VEntry k _ :: r => negb (existsb (det_has_key k) r) && det_nodup_keys r
  | _ :: r => det_nodup_keys r
  end.

(* a binding holds either entries only (with distinct keys) or no entry at all *)
Definition det_shape (vs : list value) : bool :=
  if forallb det_is_entry vs then det_nodup_keys vs else negb (existsb det_is_entry vs).

Fixpoint det_wf (v : value) : bool :=
  match v with
  | VS _ => true
  | VEntry _ x => det_wf x
  | VMsg fs _ =>
    det_nodup_n (map fst fs) &&
    forallb (fun p => det_shape (snd p) && forallb det_wf (snd p)) fs
  end.

Definition det_op_ok (o : det_op) : bool :=
  match o with
  | DSet _ vs => forallb det_wf vs
  | DPut _ _ v => det_wf v
  | _ => true
  end.
Definition det_ops_ok (ops : list det_op) : bool := forallb det_op_ok ops.
