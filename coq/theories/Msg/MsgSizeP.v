(* MsgSizeP — proof of C04: the size function of the message codec model equals the length of
   the encoder's output, for every schema table and every value whose varints fit uint64. *)
From Coq Require Import List Arith NArith ZArith Lia Bool.
From Coq Require Import ZifyBool ZifyNat ZifyN.
From PB Require Import Base.PBytes Wire.WireModel Wire.VarintP.
From PB Require Import Msg.MsgSchema Msg.MsgValue Msg.MsgEnc Msg.MsgValid Msg.MsgWireP.
Ltac Zify.zify_post_hook ::= Z.div_mod_to_equations.
Import ListNotations.
Open Scope N_scope.

(* ---------- induction principle for the nested inductive [value] ---------- *)
Section ValueInd.
  Variable P : value -> Prop.
  Hypothesis HS : forall s, P (VS s).
  Hypothesis HM : forall fs unk, Forall (fun p => Forall P (snd p)) fs -> P (VMsg fs unk).
  Hypothesis HE : forall k v, P v -> P (VEntry k v).
  Fixpoint msg_value_ind (v : value) : P v :=
    match v with
    | VS s => HS s
    | VMsg fs unk =>
      HM fs unk
         ((fix go (l : list (N * list value)) : Forall (fun p => Forall P (snd p)) l :=
             match l with
             | [] => Forall_nil _
             | p :: r =>
               Forall_cons p
                 ((fix go2 (vs : list value) : Forall P vs :=
                     match vs with
                     | [] => Forall_nil _
                     | v :: r2 => Forall_cons v (msg_value_ind v) (go2 r2)
                     end) (snd p))
                 (go r)
             end) fs)
    | VEntry k v => HE k v (msg_value_ind v)
    end.
End ValueInd.

(* ---------- sums, lengths, sorting ---------- *)
Lemma msg_sum_app a b : msg_sum (a ++ b) = msg_sum a + msg_sum b.
Proof. induction a as [|x a IH]; cbn [msg_sum app fold_right] in *; [reflexivity|]. unfold msg_sum in *. lia. Qed.

Lemma msg_len_flat_map {A} (f : A -> list byte) (g : A -> N) l :
  Forall (fun x => g x = N.of_nat (length (f x))) l ->
  msg_sum (map g l) = N.of_nat (length (flat_map f l)).
Proof.
  induction 1 as [|x l Hx _ IH]; [reflexivity|].
  cbn [map flat_map]. rewrite app_length. unfold msg_sum in *. cbn [fold_right]. lia.
Qed.

Definition msg_chunks_len {A} (len : A -> N) (l : list (N * A)) : N := msg_sum (map (fun c => len (snd c)) l).

Lemma msg_chunk_insert_len {A} (len : A -> N) c (l : list (N * A)) :
  msg_chunks_len len (msg_chunk_insert c l) = len (snd c) + msg_chunks_len len l.
Proof.
  induction l as [|d r IH]; [reflexivity|]. cbn [msg_chunk_insert].
  destruct (fst d <=? fst c).
  - unfold msg_chunks_len, msg_sum in *. cbn [map fold_right] in *. lia.
  - reflexivity.
Qed.

Lemma msg_chunk_sort_len {A} (len : A -> N) (l : list (N * A)) :
  msg_chunks_len len (msg_chunk_sort l) = msg_chunks_len len l.
Proof.
  induction l as [|c r IH]; [reflexivity|]. cbn [msg_chunk_sort].
  rewrite msg_chunk_insert_len, IH. reflexivity.
Qed.

Lemma msg_concat_len (l : list (N * list byte)) :
  N.of_nat (length (concat (map snd l))) = msg_chunks_len (fun b => N.of_nat (length b)) l.
Proof.
  induction l as [|c r IH]; [reflexivity|]. cbn [map concat]. rewrite app_length.
  unfold msg_chunks_len, msg_sum in *. cbn [map fold_right]. lia.
Qed.

(* ---------- scalars ---------- *)
Lemma msg_two64_eq : msg_two64 = 2^64. Proof. reflexivity. Qed.

Lemma msg_size_scalar_eq sk s :
  msg_wval_ok (sk_enc sk s) = true -> msg_size_scalar sk s = N.of_nat (length (msg_enc_scalar sk s)).
Proof.
  unfold msg_size_scalar, msg_enc_scalar.
  destruct (sk_enc sk s) as [x|b|b|b|fs] eqn:E; cbn [msg_wval_ok render_val]; intros H.
  - rewrite msgw_enc_varint_length; [reflexivity|]. rewrite <- msg_two64_eq. lia.
  - destruct sk, s; cbn [sk_enc] in E; try discriminate; inversion E; subst;
      unfold enc_fixed32; rewrite msgw_enc_le_length; reflexivity.
  - destruct sk, s; cbn [sk_enc] in E; try discriminate; inversion E; subst;
      unfold enc_fixed64; rewrite msgw_enc_le_length; reflexivity.
  - rewrite app_length. unfold size_bytes.
    rewrite <- msgw_enc_varint_length by (rewrite <- msg_two64_eq; lia). lia.
  - destruct sk, s; cbn [sk_enc] in E; discriminate.
Qed.

Lemma msg_enc_bytes_len b :
  N.of_nat (length b) < 2^64 -> N.of_nat (length (enc_bytes b)) = size_bytes (N.of_nat (length b)).
Proof.
  intros H. unfold enc_bytes, size_bytes. rewrite app_length.
  rewrite <- msgw_enc_varint_length by exact H. lia.
Qed.

(* ---------- one field ---------- *)
Section Field.
  Variable sb : nat -> value -> N.
  Variable eb : nat -> value -> list byte.
  Variable ok : nat -> value -> bool.

  Definition msg_sub_eq (v : value) : Prop :=
    forall tid, ok tid v = true -> sb tid v = N.of_nat (length (eb tid v)).
  Definition msg_sub_eq_deep (v : value) : Prop :=
    msg_sub_eq v /\ match v with VEntry _ v' => msg_sub_eq v' | _ => True end.

  Lemma msg_size_elem_eq num k v :
    num < 2^61 -> msg_sub_eq v -> msg_szok_elem sb ok k v = true ->
    msg_size_elem sb num k v = N.of_nat (length (msg_enc_elem eb num k v)).
  Proof.
    intros Hnum Hsub Hok. unfold msg_size_elem, msg_enc_elem, msg_szok_elem in *.
    destruct k as [sk|tid|tid], v as [s|fs unk|key v']; try reflexivity.
    - rewrite app_length, Nnat.Nat2N.inj_add, msgw_enc_tag_length by exact Hnum.
      rewrite (msg_size_scalar_eq sk s Hok). reflexivity.
    - apply andb_true_iff in Hok. destruct Hok as [Hok Hlt].
      rewrite app_length, Nnat.Nat2N.inj_add, msgw_enc_tag_length by exact Hnum.
      rewrite (Hsub tid Hok) in *.
      rewrite msg_enc_bytes_len by (rewrite <- msg_two64_eq; lia). reflexivity.
    - rewrite !app_length, !Nnat.Nat2N.inj_add, !msgw_enc_tag_length by exact Hnum.
      rewrite (Hsub tid Hok). lia.
  Qed.

  Lemma msg_size_key_eq kk key :
    msg_wval_ok (sk_enc kk key) = true -> msg_size_key kk key = N.of_nat (length (msg_enc_key kk key)).
  Proof.
    intros H. unfold msg_size_key, msg_enc_key.
    rewrite app_length, Nnat.Nat2N.inj_add, msgw_enc_tag_length by (cbn; lia).
    rewrite (msg_size_scalar_eq kk key H). reflexivity.
  Qed.

  Lemma msg_size_entry_eq num kk vk e :
    num < 2^61 -> msg_sub_eq_deep e -> msg_szok_entry sb ok kk vk e = true ->
    msg_size_entry sb num kk vk e = N.of_nat (length (msg_enc_entry eb num kk vk e)).
  Proof.
    intros Hnum [_ Hdeep] Hok. unfold msg_size_entry, msg_enc_entry, msg_szok_entry in *.
    destruct e as [s|fs unk|key v]; try reflexivity.
    apply andb_true_iff in Hok. destruct Hok as [Hok Hlt].
    apply andb_true_iff in Hok. destruct Hok as [Hkey Hval].
    rewrite app_length, Nnat.Nat2N.inj_add, msgw_enc_tag_length by exact Hnum.
    assert (Hbody : msg_size_key kk key + msg_size_elem sb 2 vk v =
                    N.of_nat (length (msg_enc_key kk key ++ msg_enc_elem eb 2 vk v))).
    { rewrite app_length, Nnat.Nat2N.inj_add.
      rewrite (msg_size_key_eq kk key Hkey).
      rewrite (msg_size_elem_eq 2 vk v); [reflexivity|cbn; lia|exact Hdeep|exact Hval]. }
    rewrite Hbody in *.
    rewrite msg_enc_bytes_len by (rewrite <- msg_two64_eq; lia). reflexivity.
  Qed.

  Lemma msg_forallb_Forall {A} (f : A -> bool) l : forallb f l = true -> Forall (fun x => f x = true) l.
  Proof. intros H. apply Forall_forall. now apply forallb_forall. Qed.

  Lemma msg_elems_eq num k vs :
    num < 2^61 -> Forall msg_sub_eq_deep vs -> forallb (msg_szok_elem sb ok k) vs = true ->
    msg_sum (map (msg_size_elem sb num k) vs) =
    N.of_nat (length (flat_map (fun e => msg_enc_elem eb num k e) vs)).
  Proof.
    intros Hnum Hsub Hok. apply msg_len_flat_map.
    apply msg_forallb_Forall in Hok. rewrite Forall_forall in *.
    intros v Hv. apply msg_size_elem_eq; [exact Hnum|apply Hsub, Hv|apply Hok, Hv].
  Qed.

  Lemma msg_packed_eq sk vs :
    forallb (msg_szok_elem sb ok (KS sk)) vs = true ->
    msg_size_packed_payload sk vs = N.of_nat (length (msg_enc_packed_payload sk vs)).
  Proof.
    intros Hok. unfold msg_size_packed_payload, msg_enc_packed_payload.
    apply msg_len_flat_map. apply msg_forallb_Forall in Hok. rewrite Forall_forall in *.
    intros v Hv. specialize (Hok v Hv). destruct v as [s| |]; try reflexivity.
    cbn [msg_szok_elem] in Hok. apply msg_size_scalar_eq. exact Hok.
  Qed.

  Lemma msg_size_field_eq fd vs :
    Forall msg_sub_eq_deep vs -> msg_szok_field sb ok fd vs = true ->
    msg_size_field sb fd vs = N.of_nat (length (msg_enc_field eb fd vs)).
  Proof.
    intros Hsub Hok. unfold msg_szok_field in Hok. apply andb_true_iff in Hok.
    destruct Hok as [Hnum Hok].
    assert (Hn : f_num fd < 2^61) by (change (2^61) with 2305843009213693952; lia).
    unfold msg_size_field, msg_enc_field.
    destruct (f_card fd) as [| | | | |kk kutf8 vdef].
    1-4: apply msg_elems_eq; assumption.
    - (* packed *)
      destruct (f_kind fd) as [sk|tid|tid] eqn:Hk.
      + destruct vs as [|v0 vs']; [reflexivity|].
        destruct (msg_packable sk).
        * apply andb_true_iff in Hok. destruct Hok as [Hall Hlt].
          rewrite app_length, Nnat.Nat2N.inj_add, msgw_enc_tag_length by exact Hn.
          rewrite (msg_packed_eq sk (v0 :: vs') Hall) in *.
          rewrite msg_enc_bytes_len by (rewrite <- msg_two64_eq; lia). reflexivity.
        * apply msg_elems_eq; assumption.
      + apply msg_elems_eq; assumption.
      + apply msg_elems_eq; assumption.
    - (* map *)
      apply msg_len_flat_map. apply msg_forallb_Forall in Hok. rewrite Forall_forall in *.
      intros e He. apply msg_size_entry_eq; [exact Hn|apply Hsub, He|apply Hok, He].
  Qed.

  Lemma msg_size_chunk_eq md p :
    Forall msg_sub_eq_deep (snd p) -> msg_szok_chunk sb ok md p = true ->
    msg_size_chunk sb md p = N.of_nat (length (snd (msg_enc_chunk eb md p))).
  Proof.
    intros Hsub Hok. unfold msg_size_chunk, msg_enc_chunk, msg_szok_chunk in *.
    destruct (msg_find_field md (fst p)) as [fd|]; [|reflexivity].
    cbn [snd]. apply msg_size_field_eq; assumption.
  Qed.
End Field.

(* ---------- the theorem ---------- *)
Definition msg_size_stmt (S : schema) (v : value) : Prop :=
  forall tid, msg_sizes_ok S tid v = true ->
    msg_size_body S tid v = N.of_nat (length (msg_enc_body S tid v)).

Lemma msg_size_eq_deep S v :
  msg_sub_eq_deep (msg_size_body S) (msg_enc_body S) (msg_sizes_ok S) v.
Proof.
  induction v as [s|fs unk IH|k v IH] using msg_value_ind.
  - split; [|exact I]. intros tid _. reflexivity.
  - split; [|exact I]. intros tid Hok.
    cbn [msg_size_body msg_enc_body msg_sizes_ok] in *.
    rewrite app_length, Nnat.Nat2N.inj_add. f_equal.
    rewrite msg_concat_len, msg_chunk_sort_len.
    unfold msg_chunks_len. rewrite map_map.
    apply msg_forallb_Forall in Hok.
    induction fs as [|p r IHr]; [reflexivity|].
    inversion IH as [|? ? Hp Hr]; subst. inversion Hok as [|? ? Hokp Hokr]; subst.
    cbn [map]. unfold msg_sum in *. cbn [fold_right]. rewrite <- (IHr Hr Hokr).
    f_equal. apply msg_size_chunk_eq with (ok := msg_sizes_ok S); assumption.
  - split; [intros tid _; reflexivity|]. destruct IH as [IH _]. exact IH.
Qed.

Theorem msg_size_eq_length S tid v :
  msg_sizes_ok S tid v = true ->
  msg_size_body S tid v = N.of_nat (length (msg_encode S tid v)).
Proof. intros H. apply (proj1 (msg_size_eq_deep S v)). exact H. Qed.

Theorem msg_marshal_append_prefix prefix S tid v :
  msg_sizes_ok S tid v = true ->
  firstn (length prefix) (msg_marshal_append prefix S tid v) = prefix /\
  skipn (length prefix) (msg_marshal_append prefix S tid v) = msg_encode S tid v /\
  N.of_nat (length (msg_marshal_append prefix S tid v)) = N.of_nat (length prefix) + msg_size_body S tid v.
Proof.
  intros H. unfold msg_marshal_append. repeat split.
  - rewrite firstn_app, Nat.sub_diag, firstn_all. cbn [firstn]. now rewrite app_nil_r.
  - rewrite skipn_app, Nat.sub_diag, skipn_all. reflexivity.
  - rewrite app_length, Nnat.Nat2N.inj_add, (msg_size_eq_length S tid v H). reflexivity.
Qed.

(* ---------- finishSpeculativeLength ---------- *)
Lemma msg_overwrite_mid (pre old src post : list byte) :
  length old = length src -> msg_overwrite (pre ++ old ++ post) (length pre) src = pre ++ src ++ post.
Proof.
  intros H. unfold msg_overwrite.
  rewrite firstn_app, Nat.sub_diag, firstn_all. cbn [firstn]. rewrite app_nil_r. f_equal. f_equal.
  rewrite skipn_app. rewrite skipn_all2 by lia.
  replace (length pre + length src - length pre)%nat with (length old) by lia.
  cbn [app]. rewrite skipn_app, Nat.sub_diag, skipn_all. reflexivity.
Qed.

Theorem msg_finish_spec_ok (pre body : list byte) :
  N.of_nat (length body) < 2^64 ->
  msg_finish_spec (fst (msg_append_spec pre) ++ body) (snd (msg_append_spec pre)) =
  pre ++ enc_varint (N.of_nat (length body)) ++ body.
Proof.
  intros Hlen. cbn [msg_append_spec fst snd]. unfold msg_finish_spec.
  rewrite !app_length. cbn [length].
  replace (length pre + 1 + length body - length pre - 1)%nat with (length body) by lia.
  pose proof (msgw_enc_varint_length _ Hlen) as Hsz.
  set (enc := enc_varint (N.of_nat (length body))) in *.
  assert (Hmsiz : N.to_nat (size_varint (N.of_nat (length body))) = length enc) by lia.
  rewrite Hmsiz.
  assert (Hpos : (1 <= length enc)%nat).
  { unfold enc, enc_varint. cbn [enc_varint_fuel]. destruct (_ <? 128); cbn [length]; lia. }
  destruct (Nat.eqb (length enc) 1) eqn:E1.
  - apply Nat.eqb_eq in E1. rewrite <- app_assoc.
    apply (msg_overwrite_mid pre [x00] enc body). cbn [length]. lia.
  - apply Nat.eqb_neq in E1.
    (* the grown buffer: pre ++ [0] ++ body ++ zeros *)
    set (z := repeat x00 (length enc - 1)).
    assert (Hz : length z = (length enc - 1)%nat) by (unfold z; apply repeat_length).
    assert (Hsrc : firstn (length body) (skipn (length pre + 1) (((pre ++ [x00]) ++ body) ++ z)) = body).
    { rewrite <- !app_assoc. rewrite (app_assoc pre [x00]).
      replace (length pre + 1)%nat with (length (pre ++ [x00])) by (rewrite app_length; cbn; lia).
      rewrite skipn_app, Nat.sub_diag, skipn_all. cbn [app skipn].
      rewrite firstn_app, Nat.sub_diag, firstn_all. cbn [firstn]. apply app_nil_r. }
    rewrite Hsrc.
    (* split the grown buffer at pos + msiz: (pre ++ [0] ++ firstn (msiz-1) (body ++ z)) ++ rest *)
    set (ext := ((pre ++ [x00]) ++ body) ++ z).
    assert (Hext : length ext = (length pre + 1 + length body + (length enc - 1))%nat).
    { unfold ext. rewrite !app_length. cbn [length]. lia. }
    assert (Hmove : msg_overwrite ext (length pre + length enc) body =
                    firstn (length pre + length enc) ext ++ body).
    { unfold msg_overwrite. f_equal. rewrite skipn_all2 by lia. apply app_nil_r. }
    rewrite Hmove.
    assert (Hfirst : firstn (length pre + length enc) ext = pre ++ firstn (length enc) ([x00] ++ body ++ z)).
    { unfold ext. rewrite <- !app_assoc. rewrite firstn_app.
      rewrite firstn_all2 by lia. f_equal. f_equal. lia. }
    rewrite Hfirst. rewrite <- app_assoc.
    apply (msg_overwrite_mid pre (firstn (length enc) ([x00] ++ body ++ z)) enc body).
    rewrite firstn_length. rewrite !app_length. cbn [length]. lia.
Qed.
