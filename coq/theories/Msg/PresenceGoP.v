(* Tier T for C11: the Gallina translation of internal/impl/presence.go and of the four presence
   methods of api_export_opaque.go (Gen/PresenceGo.v, regenerated from /repo on every check by
   srcmodel_presence) computes exactly the hand-written bitmap model of Msg/PresenceModel.v
   (pword, pbit, bm_present, bm_set, bm_clear, bm_any) for every array of uint32 words that lies
   inside the 64-bit address space, every base address, every bit index inside the array, and
   never returns Panic (an access outside the array) or Fuel there.

   The heap of the translated code is (base address P, words as Z); the model's bitmap is the
   list of words as N: [heap_of P s]. *)
From Coq Require Import List Arith NArith ZArith Lia Bool.
From Coq Require Import ZifyBool ZifyNat ZifyN.
From PB Require Import Base.GoInt Msg.PresenceHeap Gen.PresenceGo Msg.PresenceModel Msg.PresenceP.
Import ListNotations.
Ltac Zify.zify_post_hook ::= Z.to_euclidean_division_equations.
Open Scope Z_scope.

Definition zwords (s : bitmap) : list Z := map Z.of_N s.
Definition heap_of (P : Z) (s : bitmap) : heap := mkHeap P (zwords s).
(* the array lies inside the address space: no pointer into it wraps around *)
Definition addr_ok (P : Z) (s : bitmap) : Prop :=
  0 <= P /\ P + 4 * Z.of_nat (length s) <= 18446744073709551616.

(* ------------------------------------------------------------------ *)
(** * N / Z bridges *)

Lemma of_N_land a b : Z.of_N (N.land a b) = Z.land (Z.of_N a) (Z.of_N b).
Proof. destruct a, b; reflexivity. Qed.
Lemma of_N_lor a b : Z.of_N (N.lor a b) = Z.lor (Z.of_N a) (Z.of_N b).
Proof. destruct a, b; reflexivity. Qed.
Lemma of_N_ldiff a b : Z.of_N (N.ldiff a b) = Z.ldiff (Z.of_N a) (Z.of_N b).
Proof. destruct a, b; reflexivity. Qed.

(* the mask expression of the source: 1 << (num % 32) at type uint32 *)
Lemma go_mask_pbit n : wrap_u32 (Z.shiftl 1 (Z.rem (Z.of_N n) 32)) = Z.of_N (pbit n).
Proof.
  unfold pbit, u32, wrap_u32. rewrite N.shiftl_1_l, Z.shiftl_1_l.
  rewrite N2Z.inj_mod, N2Z.inj_pow, N2Z.inj_rem. reflexivity.
Qed.

Lemma lor_u32 a b : (a < 2^32)%N -> (b < 2^32)%N -> u32 (N.lor a b) = N.lor a b.
Proof.
  intros Ha Hb. unfold u32. rewrite <- !N.land_ones, N.land_lor_distr_l, !N.land_ones.
  rewrite (N.mod_small a), (N.mod_small b) by assumption. reflexivity.
Qed.

Lemma pbit_lt n : (pbit n < 2^32)%N.
Proof. unfold pbit, u32. apply N.mod_lt. discriminate. Qed.

Lemma pos_of_N w : (0 <? Z.of_N w) = (0 <? w)%N.
Proof. destruct w; reflexivity. Qed.

(* ------------------------------------------------------------------ *)
(** * The heap: loads and stores at the address of word k *)

Lemma zwords_length s : length (zwords s) = length s.
Proof. apply map_length. Qed.

Lemma word_index_at P s k :
  0 <= k < Z.of_nat (length s) -> word_index (heap_of P s) (P + 4 * k) = Val k.
Proof.
  intros Hk. unfold word_index, heap_of, len. cbn [h_base h_words]. rewrite zwords_length.
  replace (P + 4 * k - P) with (4 * k) by lia.
  replace (Z.quot (4 * k) 4) with k by lia. replace (Z.rem (4 * k) 4) with 0 by lia.
  replace ((4 * k <? 0) || negb (0 =? 0) || (Z.of_nat (length s) <=? k)) with false by lia.
  reflexivity.
Qed.

Lemma load32_at P s k :
  0 <= k < Z.of_nat (length s) ->
  load32 (heap_of P s) (P + 4 * k) = Val (Z.of_N (nth (Z.to_nat k) s 0%N)).
Proof.
  intros Hk. unfold load32. rewrite (word_index_at P s k Hk). cbn [bind heap_of h_words].
  unfold zwords. change 0 with (Z.of_N 0%N). rewrite map_nth. reflexivity.
Qed.

Lemma store32_at P s k v :
  0 <= k < Z.of_nat (length s) ->
  store32 (heap_of P s) (P + 4 * k) v = Val (mkHeap P (upd_word (zwords s) (Z.to_nat k) v)).
Proof.
  intros Hk. unfold store32. rewrite (word_index_at P s k Hk). reflexivity.
Qed.

Lemma upd_word_upd_nth f : forall s k, (k < length s)%nat ->
  upd_word (zwords s) k (Z.of_N (f (nth k s 0%N))) = zwords (upd_nth s k f).
Proof.
  induction s as [|w r IH]; intros k Hk; [cbn in Hk; lia|].
  destruct k as [|k]; cbn [zwords map upd_word upd_nth nth]; [reflexivity|].
  f_equal. apply IH. cbn in Hk. lia.
Qed.

Lemma nth_error_in_range (s : bitmap) k : (k < length s)%nat -> nth_error s k = Some (nth k s 0%N).
Proof. intros H. apply nth_error_nth'. exact H. Qed.

(* ------------------------------------------------------------------ *)
(** * toElem: the address of the word of bit num *)

(* the index expression of the source, uintptr(num) / (siz * bitsPerByte) * siz with
   siz = unsafe.Sizeof(uint32) = 4, is 4 * pword num bytes from the base *)
Theorem go_toElem_model P s num :
  addr_ok P s -> (num < 32 * N.of_nat (length s))%N ->
  go_presence_toElem P (Z.of_N num) = P + 4 * Z.of_N (pword num).
Proof.
  intros [HP Hs] Hn. unfold go_presence_toElem, pword, wrap_u64.
  rewrite N2Z.inj_div. change (Z.of_N 32) with 32. lia.
Qed.

Lemma pword_range (s : bitmap) num :
  (num < 32 * N.of_nat (length s))%N -> 0 <= Z.of_N (pword num) < Z.of_nat (length s).
Proof. unfold pword. intros H. lia. Qed.

Lemma pword_to_nat num : Z.to_nat (Z.of_N (pword num)) = N.to_nat (pword num).
Proof. lia. Qed.

(* ------------------------------------------------------------------ *)
(** * Present *)

Theorem go_Present_model P s num :
  addr_ok P s -> (num < 32 * N.of_nat (length s))%N ->
  go_presence_Present (heap_of P s) P (Z.of_N num) = Val (bm_present s num).
Proof.
  intros HA Hn. unfold go_presence_Present, go_Export_Present.
  rewrite (go_toElem_model P s num HA Hn), (load32_at P s _ (pword_range s num Hn)).
  cbn [bind]. rewrite pword_to_nat, go_mask_pbit, <- of_N_land, pos_of_N.
  unfold bm_present. rewrite nth_error_in_range by (apply pword_in_range; exact Hn).
  reflexivity.
Qed.

(* outside the array the source reads memory it does not own: Panic in the translation *)
Theorem go_Present_out_of_range P s num :
  addr_ok P s -> (num < 2^32)%N -> (32 * N.of_nat (length s) <= num)%N ->
  go_presence_Present (heap_of P s) P (Z.of_N num) = Panic.
Proof.
  intros [HP Hs] Hlt Hn. unfold go_presence_Present, go_Export_Present, go_presence_toElem, load32, word_index, heap_of, len.
  cbn [h_base h_words]. rewrite zwords_length. unfold wrap_u64.
  match goal with |- context [if ?c then Panic else _] => replace c with true by lia end.
  reflexivity.
Qed.

(* ------------------------------------------------------------------ *)
(** * SetPresent / ClearPresent: the compare-and-swap retry loops *)

Definition cas_body (h : heap) (part : Z) (f : Z -> Z) (next : heap -> outcome heap) : outcome heap :=
  bind (load32 h part) (fun old =>
  bind (cas32 h part old (f old)) (fun t => if snd t then Val (fst t) else next (fst t))).

(* shape of the generated loops: two unrollings of the retry loop (cas_retry_fuel) *)
Lemma go_Export_SetPresent_shape h part num size :
  go_Export_SetPresent h part num size =
  let f := fun old => Z.lor old (wrap_u32 (Z.shiftl 1 (Z.rem num 32))) in
  cas_body h part f (fun h => cas_body h part f (fun _ => Fuel)).
Proof. reflexivity. Qed.

Lemma go_Export_ClearPresent_shape h part num :
  go_Export_ClearPresent h part num =
  let f := fun old => Z.ldiff old (wrap_u32 (Z.shiftl 1 (Z.rem num 32))) in
  cas_body h part f (fun h => cas_body h part f (fun _ => Fuel)).
Proof. reflexivity. Qed.

(* sequential execution: the compare-and-swap directly after the load succeeds *)
Lemma cas_body_at P s k f g next :
  (k < length s)%nat -> (forall w, f (Z.of_N w) = Z.of_N (g w)) ->
  cas_body (heap_of P s) (P + 4 * Z.of_nat k) f next = Val (heap_of P (upd_nth s k g)).
Proof.
  intros Hk Hf. unfold cas_body, cas32.
  assert (0 <= Z.of_nat k < Z.of_nat (length s)) as Hk' by lia.
  rewrite (load32_at P s _ Hk'). cbn [bind]. rewrite Z.eqb_refl.
  rewrite (store32_at P s _ _ Hk'). cbn [bind snd fst].
  rewrite Nat2Z.id, Hf, upd_word_upd_nth by exact Hk. reflexivity.
Qed.

Lemma toElem_addr P s num :
  addr_ok P s -> (num < 32 * N.of_nat (length s))%N ->
  go_presence_toElem P (Z.of_N num) = P + 4 * Z.of_nat (N.to_nat (pword num)).
Proof. intros HA Hn. rewrite (go_toElem_model P s num HA Hn). f_equal. lia. Qed.

Theorem go_SetPresent_model P s num size :
  addr_ok P s -> bm_wf s -> (num < 32 * N.of_nat (length s))%N ->
  go_presence_SetPresent (heap_of P s) P (Z.of_N num) size = Val (heap_of P (bm_set s num)).
Proof.
  intros HA Hwf Hn. unfold go_presence_SetPresent. rewrite go_Export_SetPresent_shape.
  rewrite (toElem_addr P s num HA Hn). cbv zeta.
  rewrite (cas_body_at P s _ _ (fun w => N.lor w (pbit num))).
  - cbn [bind]. unfold bm_set. f_equal. f_equal.
    (* the model wraps old|bit to 32 bits; on uint32 words that is the identity *)
    clear HA Hn. generalize (N.to_nat (pword num)) as k. induction Hwf as [|w r Hw _ IH]; intros k; [destruct k; reflexivity|].
    destruct k; cbn [upd_nth]; [|rewrite IH; reflexivity].
    unfold part_set. rewrite lor_u32; [reflexivity|exact Hw|apply pbit_lt].
  - apply pword_in_range. exact Hn.
  - intros w. rewrite go_mask_pbit, of_N_lor. reflexivity.
Qed.

Theorem go_SetPresentUnatomic_model P s num size :
  addr_ok P s -> bm_wf s -> (num < 32 * N.of_nat (length s))%N ->
  go_presence_SetPresentUnatomic (heap_of P s) P (Z.of_N num) size = Val (heap_of P (bm_set s num)).
Proof.
  intros HA Hwf Hn. rewrite <- (go_SetPresent_model P s num size HA Hwf Hn).
  unfold go_presence_SetPresentUnatomic, go_Export_SetPresentNonAtomic, go_presence_SetPresent.
  rewrite go_Export_SetPresent_shape. cbv zeta. unfold cas_body, cas32.
  rewrite (toElem_addr P s num HA Hn).
  assert (0 <= Z.of_nat (N.to_nat (pword num)) < Z.of_nat (length s)) as Hk
    by (pose proof (pword_in_range s num Hn); lia).
  rewrite (load32_at P s _ Hk). cbn [bind]. rewrite Z.eqb_refl.
  rewrite (store32_at P s _ _ Hk). reflexivity.
Qed.

Theorem go_ClearPresent_model P s num :
  addr_ok P s -> (num < 32 * N.of_nat (length s))%N ->
  go_presence_ClearPresent (heap_of P s) P (Z.of_N num) = Val (heap_of P (bm_clear s num)).
Proof.
  intros HA Hn. unfold go_presence_ClearPresent. rewrite go_Export_ClearPresent_shape.
  rewrite (toElem_addr P s num HA Hn). cbv zeta.
  rewrite (cas_body_at P s _ _ (fun w => part_clear w num)).
  - reflexivity.
  - apply pword_in_range. exact Hn.
  - intros w. unfold part_clear. rewrite go_mask_pbit, of_N_ldiff. reflexivity.
Qed.

(* ------------------------------------------------------------------ *)
(** * LoadPresenceCache: the first word (0 for the nil presence set) *)

Theorem go_LoadPresenceCache_model P s :
  addr_ok P s -> 0 < P -> (0 < length s)%nat ->
  go_presence_LoadPresenceCache (heap_of P s) P = Val (Z.of_N (nth 0 s 0%N)).
Proof.
  intros HA HP Hs. unfold go_presence_LoadPresenceCache.
  replace (P =? 0) with false by lia.
  replace P with (P + 4 * 0) at 2 by lia. rewrite load32_at by lia. reflexivity.
Qed.
Theorem go_LoadPresenceCache_nil h : go_presence_LoadPresenceCache h 0 = Val 0.
Proof. reflexivity. Qed.

(* ------------------------------------------------------------------ *)
(** * AnyPresent: the loop over the first (size+31)/32 words *)

Section AnyLoop.
Variables (h : heap) (P n : Z).
Fixpoint any_loop (lfuel : nat) (j : Z) {struct lfuel} : outcome bool :=
  match lfuel with
  | O => Fuel
  | S lfuel' =>
    if j <? n then
      bind (load32 h (wrap_u64 (P + wrap_u64 (j * 4)))) (fun b =>
      if 0 <? b then Val true else any_loop lfuel' (wrap_u64 (j + 1)))
    else Val false
  end.
End AnyLoop.

(* shape of the generated function: the loop bound expression of the source and the loop *)
Lemma go_AnyPresent_shape h P size :
  go_presence_AnyPresent h P size =
  let n := Z.quot (wrap_u32 (size + 31)) 32 in any_loop h P n (S (Z.to_nat (n - 0))) 0.
Proof. reflexivity. Qed.

Lemma skipn_nth_cons (s : bitmap) k : (k < length s)%nat -> skipn k s = nth k s 0%N :: skipn (S k) s.
Proof.
  revert k. induction s as [|w r IH]; intros k Hk; [cbn in Hk; lia|].
  destruct k; [reflexivity|]. cbn [skipn nth]. rewrite IH by (cbn in Hk; lia). reflexivity.
Qed.

Lemma any_loop_spec P s n : addr_ok P s -> n <= Z.of_nat (length s) ->
  forall fuel j, 0 <= j -> (Z.to_nat (n - j) < fuel)%nat ->
  any_loop (heap_of P s) P n fuel j = Val (any_words (skipn (Z.to_nat j) s) (Z.to_nat (n - j))).
Proof.
  intros [HP Hs] Hn. induction fuel as [|fuel IH]; intros j Hj Hf; [lia|].
  cbn [any_loop]. destruct (Z.ltb_spec j n) as [Hlt|Hge].
  - replace (wrap_u64 (P + wrap_u64 (j * 4))) with (P + 4 * j) by (unfold wrap_u64; lia).
    rewrite load32_at by lia. cbn [bind]. rewrite pos_of_N.
    replace (wrap_u64 (j + 1)) with (j + 1) by (unfold wrap_u64; lia).
    rewrite (skipn_nth_cons s (Z.to_nat j)) by lia.
    replace (Z.to_nat (n - j)) with (S (Z.to_nat (n - (j + 1)))) by lia.
    cbn [any_words]. destruct (0 <? nth (Z.to_nat j) s 0%N)%N; [reflexivity|].
    rewrite IH by lia. replace (Z.to_nat (j + 1)) with (S (Z.to_nat j)) by lia. reflexivity.
  - replace (Z.to_nat (n - j)) with O by lia. destruct (skipn (Z.to_nat j) s); reflexivity.
Qed.

Theorem go_AnyPresent_model P s size :
  addr_ok P s -> (size < 2^32)%N -> (u32 (size + 31) / 32 <= N.of_nat (length s))%N ->
  go_presence_AnyPresent (heap_of P s) P (Z.of_N size) = Val (bm_any s size).
Proof.
  intros HA Hsz Hn. rewrite go_AnyPresent_shape. cbv zeta.
  assert (Z.quot (wrap_u32 (Z.of_N size + 31)) 32 = Z.of_N (u32 (size + 31) / 32)) as E.
  { unfold wrap_u32, u32. rewrite N2Z.inj_div, N2Z.inj_mod, N2Z.inj_add.
    change (Z.of_N 31) with 31. change (Z.of_N 32) with 32. change (Z.of_N (2^32)) with 4294967296. lia. }
  rewrite E. rewrite (any_loop_spec P s _ HA) by lia.
  unfold bm_any. cbn [Z.to_nat skipn].
  replace (u32 (u32 (size + 31) / 32)) with (u32 (size + 31) / 32)%N.
  - f_equal. f_equal. lia.
  - unfold u32. symmetry. apply N.mod_small.
    assert ((size + 31) mod 2^32 < 2^32)%N by (apply N.mod_lt; discriminate).
    change (2^32)%N with 4294967296%N in *. lia.
Qed.

(* ------------------------------------------------------------------ *)
(** * The property-level statements of C11 for the translated source *)

(* after SetPresent(i), Present(j) holds for j = i and is unchanged for every other index *)
Theorem go_SetPresent_then_Present P s i j size :
  addr_ok P s -> bm_wf s -> (i < 32 * N.of_nat (length s))%N -> (j < 32 * N.of_nat (length s))%N ->
  exists h', go_presence_SetPresent (heap_of P s) P (Z.of_N i) size = Val h' /\
    (forall b, go_presence_Present (heap_of P s) P (Z.of_N j) = Val b ->
               go_presence_Present h' P (Z.of_N j) = Val ((i =? j)%N || b)).
Proof.
  intros HA Hwf Hi Hj. exists (heap_of P (bm_set s i)). split; [apply go_SetPresent_model; assumption|].
  intros b Hb. rewrite (go_Present_model P s j HA Hj) in Hb. injection Hb as <-.
  assert (addr_ok P (bm_set s i)) as HA' by (unfold addr_ok in *; rewrite bm_set_length; exact HA).
  rewrite (go_Present_model P (bm_set s i) j HA') by (rewrite bm_set_length; exact Hj).
  rewrite bm_set_present by exact Hi. reflexivity.
Qed.

Theorem go_SetPresentUnatomic_then_Present P s i j size :
  addr_ok P s -> bm_wf s -> (i < 32 * N.of_nat (length s))%N -> (j < 32 * N.of_nat (length s))%N ->
  exists h', go_presence_SetPresentUnatomic (heap_of P s) P (Z.of_N i) size = Val h' /\
    (forall b, go_presence_Present (heap_of P s) P (Z.of_N j) = Val b ->
               go_presence_Present h' P (Z.of_N j) = Val ((i =? j)%N || b)).
Proof.
  intros HA Hwf Hi Hj. destruct (go_SetPresent_then_Present P s i j size HA Hwf Hi Hj) as [h' [E H]].
  exists h'. split; [|exact H].
  rewrite go_SetPresentUnatomic_model by assumption. rewrite go_SetPresent_model in E by assumption. exact E.
Qed.

Theorem go_ClearPresent_then_Present P s i j :
  addr_ok P s -> (i < 32 * N.of_nat (length s))%N -> (j < 32 * N.of_nat (length s))%N ->
  exists h', go_presence_ClearPresent (heap_of P s) P (Z.of_N i) = Val h' /\
    (forall b, go_presence_Present (heap_of P s) P (Z.of_N j) = Val b ->
               go_presence_Present h' P (Z.of_N j) = Val (negb (i =? j)%N && b)).
Proof.
  intros HA Hi Hj. exists (heap_of P (bm_clear s i)). split; [apply go_ClearPresent_model; assumption|].
  intros b Hb. rewrite (go_Present_model P s j HA Hj) in Hb. injection Hb as <-.
  assert (addr_ok P (bm_clear s i)) as HA' by (unfold addr_ok in *; rewrite bm_clear_length; exact HA).
  rewrite (go_Present_model P (bm_clear s i) j HA') by (rewrite bm_clear_length; exact Hj).
  rewrite bm_clear_present. reflexivity.
Qed.

(* AnyPresent(size) returns (never faults inside the array) and is true iff Present(i) is true
   for some bit i of the scanned words *)
Theorem go_AnyPresent_iff_some_bit P s size :
  addr_ok P s -> bm_wf s -> (size + 31 < 2^32)%N -> ((size + 31) / 32 <= N.of_nat (length s))%N ->
  exists b, go_presence_AnyPresent (heap_of P s) P (Z.of_N size) = Val b /\
    (b = true <-> exists i, (i < 32 * ((size + 31) / 32))%N /\
                            go_presence_Present (heap_of P s) P (Z.of_N i) = Val true).
Proof.
  intros HA Hwf Hsz Hn.
  assert (u32 (size + 31) = (size + 31)%N) as Eu by (unfold u32; apply N.mod_small; exact Hsz).
  exists (bm_any s size). split.
  - apply go_AnyPresent_model; [exact HA|lia|rewrite Eu; exact Hn].
  - rewrite (bm_any_spec s size Hwf Hsz Hn). split; intros [i [Hi Hp]]; exists i; (split; [exact Hi|]).
    + rewrite go_Present_model by (try exact HA; lia). rewrite Hp. reflexivity.
    + rewrite go_Present_model in Hp by (try exact HA; lia). injection Hp as ->. reflexivity.
Qed.
