(* Proofs about the typed-nil model (Msg/NilModel.v). *)
From Coq Require Import List NArith Bool Lia.
From PB Require Import Base.PBytes Msg.NilModel.
Import ListNotations.
Open Scope N_scope.

Definition nil_state : mstate := None.
Definition empty_state : mstate := Some empty_msg.

Lemma nil_invalid : is_valid nil_state = false /\ is_valid empty_state = true.
Proof. split; reflexivity. Qed.

Lemma has_nil f : has nil_state f = has empty_state f.
Proof. reflexivity. Qed.
Lemma has_nil_false f : has nil_state f = false.
Proof. reflexivity. Qed.

Lemma get_nil f : get nil_state f = get empty_state f.
Proof. reflexivity. Qed.
Lemma get_nil_zero f : get nil_state f = zero_value f.
Proof. reflexivity. Qed.

Lemma range_nil : range nil_state = range empty_state /\ range nil_state = [].
Proof. split; reflexivity. Qed.

Lemma find_ext {A} (p q : A -> bool) l : (forall x, p x = q x) -> find p l = find q l.
Proof. intros H. induction l as [|a l IH]; cbn; [reflexivity|]. rewrite H, IH. reflexivity. Qed.

Lemma find_none_false {A} (p : A -> bool) l : (forall x, p x = false) -> find p l = None.
Proof. intros H. induction l as [|a l IH]; cbn; [reflexivity|]. now rewrite H. Qed.

Lemma which_oneof_nil sch o : which_oneof sch nil_state o = which_oneof sch empty_state o.
Proof.
  cbn. rewrite find_none_false; [reflexivity|].
  intros f. cbn. apply andb_false_r.
Qed.

Lemma unknown_nil : get_unknown nil_state = get_unknown empty_state.
Proof. reflexivity. Qed.

Lemma check_init_nil sch : check_init sch nil_state = check_init sch empty_state.
Proof.
  cbn. rewrite (find_ext frequired (fun f => frequired f && negb (has (Some empty_msg) f))); [reflexivity|].
  intros f. cbn. now rewrite andb_true_r.
Qed.

Lemma size_nil enc : size enc nil_state = size enc empty_state.
Proof. reflexivity. Qed.

(* same error or same bytes; the only difference is the nil-ness of an empty buffer *)
Definition mres_bytes (r : mres) : option N + list byte :=
  match r with MErr n => inl (Some n) | MBuf _ b => inr b end.

Lemma marshal_nil enc ap sch :
  mres_bytes (marshal enc ap sch nil_state) = mres_bytes (marshal enc ap sch empty_state).
Proof.
  unfold marshal. destruct ap.
  - reflexivity.
  - rewrite check_init_nil. destruct (check_init sch empty_state); reflexivity.
Qed.

Lemma marshal_nilbuf_iff_invalid enc ap sch s nb :
  marshal enc ap sch s = MBuf nb [] -> nb = negb (is_valid s).
Proof.
  unfold marshal.
  destruct (if ap then None else check_init sch s); [discriminate|].
  destruct s as [m|]; cbn.
  - destruct (encode enc m); intros H; inversion H; reflexivity.
  - intros H; inversion H; reflexivity.
Qed.

Lemma marshal_append_nil enc p sch :
  marshal_append enc p sch nil_state = marshal_append enc p sch empty_state
  /\ marshal_append enc p sch nil_state = Some p.
Proof. split; cbn; now rewrite ?app_nil_r. Qed.

Lemma format_nil render : format render nil_state = format render empty_state.
Proof. reflexivity. Qed.

Lemma debug_format_nil render : debug_format render nil_state = nil_marker.
Proof. reflexivity. Qed.

Lemma equal_nil eqm m :
  equal eqm nil_state nil_state = true /\
  equal eqm nil_state (Some m) = false /\ equal eqm (Some m) nil_state = false.
Proof. repeat split. Qed.

Lemma clone_nil : clone nil_state = nil_state /\ is_valid (clone nil_state) = false.
Proof. split; reflexivity. Qed.

Lemma merge_nil dst : merge dst nil_state = dst /\ merge dst empty_state = dst.
Proof.
  split; [reflexivity|]. destruct dst as [p u]. cbn. unfold merge_msg. cbn.
  now rewrite !app_nil_r.
Qed.
