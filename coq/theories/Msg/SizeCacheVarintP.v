(* len (enc_varint v) = size_varint v: the tie between protowire.SizeVarint and AppendVarint that the size-cache proofs need. *)
From Coq Require Import List Arith NArith ZArith Lia Bool.
From Coq Require Import ZifyBool ZifyNat ZifyN.
From PB Require Import Base.PBytes Wire.WireModel Msg.SizeCacheModel.
Ltac Zify.zify_post_hook ::= Z.div_mod_to_equations.
Import ListNotations.
Open Scope N_scope.

Lemma size_range v k : 0 < k -> 2^(k-1) <= v < 2^k -> N.size v = k.
Proof.
  intros Hk [Hlo Hhi].
  assert (v <> 0) by (pose proof (N.pow_nonzero 2 (k-1)); lia).
  rewrite N.size_log2 by assumption.
  assert (N.log2 v = k - 1); [|lia].
  apply N.log2_unique; [lia|]. replace (N.succ (k-1)) with k by lia. lia.
Qed.

Lemma enc_varint_fuel_len : forall f v, (0 < f)%nat -> 
  forall k, (0 < k <= f)%nat -> (k = 1%nat \/ 2^(7*(N.of_nat k - 1)) <= v) -> v < 2^(7 * N.of_nat k) ->
  length (enc_varint_fuel f v) = k.
Proof.
  induction f as [|f IH]; intros v Hf k Hk Hlo Hhi; [lia|].
  cbn [enc_varint_fuel].
  destruct (v <? 128) eqn:E.
  - cbn. destruct Hlo as [->|Hlo]; [reflexivity|].
    destruct k as [|[|k]]; [lia|reflexivity|].
    exfalso. assert (2^7 <= 2^(7 * (N.of_nat (S (S k)) - 1))) by (apply N.pow_le_mono_r; lia).
    change (2^7) with 128 in *. lia.
  - cbn [length]. destruct k as [|[|k]]; [lia| |].
    + change (2^(7 * N.of_nat 1)) with 128 in Hhi. lia.
    + f_equal. apply IH; try lia.
      * destruct k; [left; reflexivity|right].
        destruct Hlo as [?|Hlo]; [lia|].
        replace (7 * (N.of_nat (S (S (S k))) - 1)) with (7 * (N.of_nat (S (S k)) - 1) + 7) in Hlo by lia.
        rewrite N.pow_add_r in Hlo. change (2^7) with 128 in Hlo.
        apply N.div_le_lower_bound; lia.
      * replace (7 * N.of_nat (S (S k))) with (7 * N.of_nat (S k) + 7) in Hhi by lia.
        rewrite N.pow_add_r in Hhi. change (2^7) with 128 in Hhi.
        apply N.div_lt_upper_bound; lia.
Qed.

Lemma size_bounds v : v <> 0 -> 2^(N.size v - 1) <= v < 2^(N.size v).
Proof.
  intros H. rewrite N.size_log2 by assumption.
  replace (N.succ (N.log2 v) - 1) with (N.log2 v) by lia.
  apply N.log2_spec. lia.
Qed.

Lemma varint_len_case v (j : nat) : (1 <= j <= 10)%nat ->
  v <> 0 -> 7 * (N.of_nat j - 1) + 1 <= N.size v <= 7 * N.of_nat j -> 
  length (enc_varint v) = j.
Proof.
  intros Hj Hv Hs. pose proof (size_bounds v Hv) as [Hlo Hhi].
  unfold enc_varint. apply enc_varint_fuel_len; try lia.
  - right. etransitivity; [|exact Hlo]. apply N.pow_le_mono_r; lia.
  - eapply N.lt_le_trans; [exact Hhi|]. apply N.pow_le_mono_r; lia.
Qed.

Lemma size_varint_len v : v < 2^64 -> len (enc_varint v) = size_varint v.
Proof.
  intros Hv. unfold len, size_varint.
  destruct (N.eq_dec v 0) as [->|Hnz]; [reflexivity|].
  assert (Hs1 : 1 <= N.size v) by (rewrite N.size_log2 by assumption; lia).
  assert (Hs2 : N.size v <= 64).
  { rewrite N.size_log2 by assumption. assert (N.log2 v < 64) by (apply N.log2_lt_pow2; lia). lia. }
  set (s := N.size v) in *.
  assert (C : s <= 7 \/ 8 <= s <= 14 \/ 15 <= s <= 21 \/ 22 <= s <= 28 \/ 29 <= s <= 35 \/
              36 <= s <= 42 \/ 43 <= s <= 49 \/ 50 <= s <= 56 \/ 57 <= s <= 63 \/ s = 64) by lia.
  destruct C as [C|[C|[C|[C|[C|[C|[C|[C|[C|C]]]]]]]]].
  - rewrite (varint_len_case v 1); subst s; lia.
  - rewrite (varint_len_case v 2); subst s; lia.
  - rewrite (varint_len_case v 3); subst s; lia.
  - rewrite (varint_len_case v 4); subst s; lia.
  - rewrite (varint_len_case v 5); subst s; lia.
  - rewrite (varint_len_case v 6); subst s; lia.
  - rewrite (varint_len_case v 7); subst s; lia.
  - rewrite (varint_len_case v 8); subst s; lia.
  - rewrite (varint_len_case v 9); subst s; lia.
  - rewrite (varint_len_case v 10); subst s; lia.
Qed.
