(* Model of the size cache protocol of proto.Marshal / proto.Size.  Definitions
   only (proofs: Msg/SizeCacheP.v).

   Anchors:
     proto/encode.go        MarshalOptions.marshal   (Size pass, then Marshal with UseCachedSize)
     proto/size.go          MarshalOptions.size
     internal/impl/encode.go  sizePointer / sizePointerSlow / marshalAppendPointer
     internal/impl/codec_field.go        sizeMessageInfo / appendMessageInfo, sizeGroupType / appendGroupType,
                                         the ...SliceInfo variants
     internal/impl/codec_field_opaque.go sizeOpaqueMessage / appendOpaqueMessage (same algorithm)
     internal/impl/codec_map.go          sizeMap / appendMapItem (message-valued maps)

   The message content is abstract: a node is a list of items, an item is either
   a chunk of already-encoded bytes ([Raw]: scalars, unknown fields, lazy buffers
   that are passed through) or a child message ([Sub]) together with the way the
   child is framed by its parent ([kind]).  Every node carries the int32
   [sizecache] cell of its Go struct: 0 = unset, otherwise size+1. *)
From Coq Require Import List NArith Bool.
From PB Require Import Base.PBytes Wire.WireModel.
Import ListNotations.
Open Scope N_scope.

(* how a parent frames a child message *)
Inductive kind :=
| KLen (tag : list byte)                    (* tag, varint(size), body       : appendMessageInfo *)
| KGroup (stag etag : list byte)            (* start tag, body, end tag      : appendGroupType *)
| KMap (tag key vtag : list byte)           (* map entry with message value  : appendMapItem, f.mi != nil *)
| KLenM (tag : list byte)                   (* as KLen, but through proto.MarshalOptions: appendMessage /
                                               appendMessageSliceValue (extension values, children without MessageInfo) *)
| KGroupM (stag etag : list byte).          (* as KGroup, through proto.MarshalOptions: appendGroup / appendGroupSliceValue *)

Inductive item (A : Type) :=
| Raw (b : list byte)
| Sub (k : kind) (c : A).
Arguments Raw {A} b.
Arguments Sub {A} k c.

Inductive node := Node (cache : N) (items : list (item node)).

Definition cache_of (n : node) : N := match n with Node c _ => c end.
Definition items_of (n : node) : list (item node) := match n with Node _ its => its end.

Definition len (b : list byte) : N := N.of_nat (length b).

(* ---------- the true encoding (specification; never looks at a cache) ---------- *)
Definition wrap (k : kind) (body : list byte) : list byte :=
  match k with
  | KLen tag | KLenM tag => tag ++ enc_varint (len body) ++ body
  | KGroup st et | KGroupM st et => st ++ body ++ et
  | KMap tag key vtag =>
      let inner := key ++ vtag ++ enc_varint (len body) ++ body in
      tag ++ enc_varint (len inner) ++ inner
  end.

Definition enc_item (e : node -> list byte) (it : item node) : list byte :=
  match it with Raw b => b | Sub k c => wrap k (e c) end.

Fixpoint enc (n : node) : list byte :=
  match n with
  | Node _ its => concat (map (enc_item enc) its)
  end.

(* ---------- sizes as the code computes them ---------- *)
(* size contribution of a framed child of size s: sizeMessageInfo, sizeGroupType, sizeMap *)
Definition kind_size (k : kind) (s : N) : N :=
  match k with
  | KLen tag | KLenM tag => size_bytes s + len tag
  | KGroup st et | KGroupM st et => len st + len et + s
  | KMap tag key vtag => len tag + size_bytes (len key + (len vtag + size_bytes s))
  end.

(* sizePointerSlow's final store: sizes above MaxInt32-1 are not cached *)
Definition max_cacheable : N := 2147483646.
Definition store (size : N) : N := if max_cacheable <? size then 0 else size + 1.

(* the field loop of sizePointerSlow; [f] = sizePointer on a child *)
Definition size_item (f : node -> N * node) (it : item node) : N * item node :=
  match it with
  | Raw b => (len b, Raw b)
  | Sub k ch => let '(s, ch') := f ch in (kind_size k s, Sub k ch')
  end.

Definition size_items (f : node -> N * node) : list (item node) -> N * list (item node) :=
  fix go (l : list (item node)) : N * list (item node) :=
    match l with
    | [] => (0, [])
    | it :: r =>
        let '(s1, it') := size_item f it in
        let '(s2, r') := go r in
        (s1 + s2, it' :: r')
    end.

(* sizePointer(p, opts): [uc] = opts.UseCachedSize().  Returns the size and the
   node with the caches it wrote. *)
Fixpoint size_pass (uc : bool) (n : node) : N * node :=
  match n with
  | Node c its =>
      if uc && (0 <? c) then (c - 1, n)
      else
        let '(sz, its') := size_items (size_pass uc) its in
        (sz, Node (store sz) its')
  end.

(* marshalAppendPointer(b, p, opts).  [AMismatch] = errors.MismatchedSizeCalculation.
   The length prefix of a child is sizePointer(child, opts), written before the
   child is appended, and compared with the measured size afterwards.  On an
   error the remaining siblings are not visited.
   The child that is appended is the child *after* sizePointer stored into its
   caches, so the recursion is not structural: it is indexed by [fuel] (nesting
   depth still allowed); [AFuel] is the out-of-fuel outcome, excluded by the
   theorems for fuel > height. *)
Inductive ares := ABytes (b : list byte) | AMismatch | AFuel.

Definition ares_map (f : list byte -> ares) (r : ares) : ares :=
  match r with ABytes b => f b | AMismatch => AMismatch | AFuel => AFuel end.

(* does the parent compute the child's size before appending it (length prefix)? *)
Definition sized (k : kind) : bool :=
  match k with KGroup _ _ | KGroupM _ _ => false | _ => true end.
(* is the child appended through proto.MarshalOptions.MarshalAppend (which runs
   its own methods.Size first) rather than through marshalAppendPointer? *)
Definition via_marshal (k : kind) : bool :=
  match k with KLenM _ | KGroupM _ _ => true | _ => false end.

(* the framing as the code writes it: [s] is the size the code computed *)
Definition frame_with (k : kind) (s : N) (body : list byte) : list byte :=
  match k with
  | KLen tag | KLenM tag => tag ++ enc_varint s ++ body
  | KGroup st et | KGroupM st et => st ++ body ++ et
  | KMap tag key vtag =>
      tag ++ enc_varint (len key + (len vtag + size_bytes s)) ++ key ++ vtag ++ enc_varint s ++ body
  end.

(* one field of marshalAppendPointer.  [rec] = marshalAppendPointer on a child
   with the same options; [recm] = marshalAppendPointer as called by a nested
   proto.MarshalOptions.marshal (which always adds MarshalUseCachedSize). *)
Definition append_item (uc : bool) (rec recm : node -> ares * node) (it : item node) : ares * item node :=
  match it with
  | Raw b => (ABytes b, Raw b)
  | Sub k ch =>
      let '(so, ch1) :=
        if sized k then let '(s, c) := size_pass uc ch in (Some s, c) else (None, ch) in
      let '(rb, ch2) :=
        if via_marshal k then let '(_, c) := size_pass uc ch1 in recm c else rec ch1 in
      (ares_map (fun body =>
                   match so with
                   | Some s => if s =? len body then ABytes (frame_with k s body) else AMismatch
                   | None => ABytes (frame_with k 0 body)
                   end) rb,
       Sub k ch2)
  end.

Fixpoint append_items (uc : bool) (rec recm : node -> ares * node) (l : list (item node)) : ares * list (item node) :=
  match l with
  | [] => (ABytes [], [])
  | it :: rest =>
      let '(r1, it') := append_item uc rec recm it in
      match r1 with
      | ABytes b1 =>
          let '(r2, rest') := append_items uc rec recm rest in
          (ares_map (fun b2 => ABytes (b1 ++ b2)) r2, it' :: rest')
      | _ => (r1, it' :: rest)
      end
  end.

Fixpoint append_fuel (fuel : nat) (uc : bool) (n : node) : ares * node :=
  match fuel with
  | O => (AFuel, n)
  | S fuel' =>
      match n with
      | Node c its =>
          let '(r, its') := append_items uc (append_fuel fuel' uc) (append_fuel fuel' true) its in
          (r, Node c its')
      end
  end.

Definition item_height (h : node -> nat) (it : item node) : nat :=
  match it with Raw _ => O | Sub _ c => h c end.

Fixpoint height (n : node) : nat :=
  match n with
  | Node _ its => S (fold_right Nat.max O (map (item_height height) its))
  end.

Definition append_pass (uc : bool) (n : node) : ares * node := append_fuel (height n) uc n.

(* proto.MarshalOptions.marshal: [ouc] = the caller's o.UseCachedSize.
   methods.Size is called with the caller's flags, then methods.Marshal with
   MarshalUseCachedSize added. *)
Definition marshal (ouc : bool) (n : node) : ares * node :=
  let '(_, n1) := size_pass ouc n in
  append_pass true n1.

(* proto.MarshalOptions.Size *)
Definition size_op (ouc : bool) (n : node) : N * node := size_pass ouc n.

(* ---------- read-only operations ---------- *)
(* proto.Clone: a new message tree (all caches zero) with the same content *)
Definition clone_item (f : node -> node) (it : item node) : item node :=
  match it with Raw b => Raw b | Sub k c => Sub k (f c) end.

Fixpoint clone (n : node) : node :=
  match n with
  | Node _ its => Node 0 (map (clone_item clone) its)
  end.

Definition bytes_eqb (a b : list byte) : bool :=
  if list_eq_dec Byte.byte_eq_dec a b then true else false.

Definition kind_eqb (a b : kind) : bool :=
  match a, b with
  | KLen t1, KLen t2 => bytes_eqb t1 t2
  | KGroup s1 e1, KGroup s2 e2 => bytes_eqb s1 s2 && bytes_eqb e1 e2
  | KMap t1 k1 v1, KMap t2 k2 v2 => bytes_eqb t1 t2 && bytes_eqb k1 k2 && bytes_eqb v1 v2
  | KLenM t1, KLenM t2 => bytes_eqb t1 t2
  | KGroupM s1 e1, KGroupM s2 e2 => bytes_eqb s1 s2 && bytes_eqb e1 e2
  | _, _ => false
  end.

(* proto.Equal on the abstract content: structure and bytes, never the caches *)
Fixpoint equal (a b : node) : bool :=
  match a, b with
  | Node _ ia, Node _ ib =>
      (fix go (la : list (item node)) (lb : list (item node)) : bool :=
         match la, lb with
         | [], [] => true
         | Raw x :: ra, Raw y :: rb => bytes_eqb x y && go ra rb
         | Sub k1 c1 :: ra, Sub k2 c2 :: rb => kind_eqb k1 k2 && equal c1 c2 && go ra rb
         | _, _ => false
         end) ia ib
  end.

(* ---------- paths and mutations ---------- *)
(* a path selects a descendant: each element is the index of a [Sub] item *)
Fixpoint subtree (p : list nat) (n : node) : option node :=
  match p with
  | [] => Some n
  | i :: p' =>
      match nth_error (items_of n) i with
      | Some (Sub _ c) => subtree p' c
      | _ => None
      end
  end.

Fixpoint replace_nth {A} (i : nat) (x : A) (l : list A) : list A :=
  match l, i with
  | [], _ => []
  | _ :: r, O => x :: r
  | y :: r, S j => y :: replace_nth j x r
  end.

Fixpoint insert_nth {A} (i : nat) (x : A) (l : list A) : list A :=
  match i, l with
  | O, _ => x :: l
  | S j, [] => [x]
  | S j, y :: r => y :: insert_nth j x r
  end.

Fixpoint remove_nth {A} (i : nat) (l : list A) : list A :=
  match l, i with
  | [], _ => []
  | _ :: r, O => r
  | y :: r, S j => y :: remove_nth j r
  end.

(* apply [f] to the descendant at [p]; an invalid path leaves the tree unchanged.
   Nothing on the way to the descendant is touched: in particular NO CACHE. *)
Fixpoint update_at (p : list nat) (f : node -> node) (n : node) : node :=
  match p with
  | [] => f n
  | i :: p' =>
      match n with
      | Node c its =>
          match nth_error its i with
          | Some (Sub k ch) => Node c (replace_nth i (Sub k (update_at p' f ch)) its)
          | _ => n
          end
      end
  end.

(* mutations edit the item list of one node and keep its cache cell as it is *)
Definition set_item (i : nat) (it : item node) (n : node) : node :=
  match n with Node c its => Node c (replace_nth i it its) end.
Definition ins_item (i : nat) (it : item node) (n : node) : node :=
  match n with Node c its => Node c (insert_nth i it its) end.
Definition del_item (i : nat) (n : node) : node :=
  match n with Node c its => Node c (remove_nth i its) end.

Inductive op :=
| OSet (p : list nat) (i : nat) (it : item node)   (* mutate content / replace a child (also: a lazy field gets decoded) *)
| OIns (p : list nat) (i : nat) (it : item node)   (* add a field / list element / map entry / submessage *)
| ODel (p : list nat) (i : nat)                    (* clear a field / remove an element *)
| OSize (p : list nat) (uc : bool)                 (* proto.MarshalOptions{UseCachedSize: uc}.Size(sub) *)
| OMarshal (p : list nat) (uc : bool)              (* proto.MarshalOptions{UseCachedSize: uc}.Marshal(sub) *)
| OEqual (p q : list nat)                          (* proto.Equal(sub_p, sub_q) *)
| OClone (p : list nat).                           (* proto.Clone(sub), then Marshal of the clone *)

Inductive obs :=
| ONone
| OInvalid                       (* path does not exist *)
| OSz (s : N)
| OBytes (b : list byte)
| OMismatch                      (* errors.MismatchedSizeCalculation *)
| OBool (b : bool)
| OFuel.

Definition obs_of_ares (r : ares) : obs :=
  match r with ABytes b => OBytes b | AMismatch => OMismatch | AFuel => OFuel end.

(* put the updated descendant back *)
Definition with_sub (p : list nat) (t : node) (f : node -> obs * node) : node * obs :=
  match subtree p t with
  | None => (t, OInvalid)
  | Some s => let '(o, s') := f s in (update_at p (fun _ => s') t, o)
  end.

Definition step (t : node) (o : op) : node * obs :=
  match o with
  | OSet p i it => (update_at p (set_item i it) t, ONone)
  | OIns p i it => (update_at p (ins_item i it) t, ONone)
  | ODel p i => (update_at p (del_item i) t, ONone)
  | OSize p uc => with_sub p t (fun s => let '(sz, s') := size_op uc s in (OSz sz, s'))
  | OMarshal p uc =>
      with_sub p t (fun s => let '(r, s') := marshal uc s in
                             (obs_of_ares r, s'))
  | OEqual p q =>
      match subtree p t, subtree q t with
      | Some a, Some b => (t, OBool (equal a b))
      | _, _ => (t, OInvalid)
      end
  | OClone p =>
      match subtree p t with
      | Some s => (t, obs_of_ares (fst (marshal false (clone s))))
      | None => (t, OInvalid)
      end
  end.

Definition empty : node := Node 0 [].

Definition run (ops : list op) (t : node) : node :=
  fold_left (fun t o => fst (step t o)) ops t.

(* the list of observations of a history *)
Fixpoint trace (ops : list op) (t : node) : list obs :=
  match ops with
  | [] => []
  | o :: r => let '(t', ob) := step t o in ob :: trace r t'
  end.

(* caches in preorder (what the harness reads out of the Go structs) *)
Definition caches_item (f : node -> list N) (it : item node) : list N :=
  match it with Raw _ => [] | Sub _ ch => f ch end.

Fixpoint caches (n : node) : list N :=
  match n with
  | Node c its =>
      c :: concat (map (caches_item caches) its)
  end.
