(* EqualFastP — proofs for C30, part 3: the table-driven equality algorithm (internal/impl/equal.go)
   computes the same relation as the reflection algorithm (protoreflect.Value.Equal) on
   well-formed concrete messages, including extension-map entries that hold empty lists. *)
From Coq Require Import List Arith NArith ZArith Lia Bool Permutation.
From Coq Require Import ZifyBool ZifyNat ZifyN.
From PB Require Import Base.PBytes Wire.WireModel Wire.VarintP.
From PB Require Import Msg.MsgSchema Msg.MsgValue Msg.MsgEnc Msg.MsgValid Msg.MsgWireP Msg.MsgSizeP.
From PB Require Import Msg.EqualModel Msg.EqualP Msg.EqualMsgP.
Import ListNotations.
Open Scope N_scope.

(* ------------------------------------------------------------------ unfolding *)
Definition eqm_elem_fast (S : schema) (k : kind) : value -> value -> bool :=
  match k with KMsg _ => eqm_fast S k | _ => eqm_value S k end.

Definition eqm_fbind (S : schema) (ev : kind -> value -> value -> bool) (md : mdesc) (fb : fields) (p : N * list value) : bool :=
  match msg_find_field md (fst p) with
  | None => false
  | Some fd =>
    let vb := msg_fget fb (fst p) in
    if negb (f_ext fd) && (eqm_nil (snd p) || eqm_nil vb) then true
    else eqm_vals (f_card fd) (ev (f_kind fd)) (snd p) vb
  end.

Definition eqm_fhas (fa fb : fields) (fd : fdesc) : bool :=
  f_ext fd || Bool.eqb (eqm_nil (msg_fget fa (f_num fd))) (eqm_nil (msg_fget fb (f_num fd))).

Definition eqm_fextra (md : mdesc) (fa : fields) (q : N * list value) : bool :=
  match msg_find_field md (fst q) with
  | None => false
  | Some fd => negb (f_ext fd) || existsb (N.eqb (fst q)) (map fst fa) || eqm_nil (snd q)
  end.

Lemma eqm_fast_msg S k fa ua fb ub :
  eqm_fast S k (VMsg fa ua) (VMsg fb ub) =
  forallb (eqm_fbind S (eqm_elem_fast S) (eqm_md S k) fb) fa
  && forallb (eqm_fhas fa fb) (eqm_md S k)
  && forallb (eqm_fextra (eqm_md S k) fa) fb
  && eqm_unknown ua ub.
Proof.
  cbn [eqm_fast]. f_equal. f_equal. f_equal.
  apply eqm_forallb_ext_in. intros p _. unfold eqm_fbind.
  destruct (msg_find_field (eqm_md S k) (fst p)) as [fd|]; [|reflexivity]. cbv zeta.
  destruct (negb (f_ext fd) && (eqm_nil (snd p) || eqm_nil (msg_fget fb (fst p)))); [reflexivity|].
  unfold eqm_elem_fast. destruct (f_card fd); destruct (f_kind fd); reflexivity.
Qed.

Lemma eqm_fast_entry S k ka xa kb xb :
  eqm_fast S k (VEntry ka xa) (VEntry kb xb) = eqm_key ka kb && eqm_fast S k xa xb.
Proof. reflexivity. Qed.

Lemma eqm_find_field_in md n fd : msg_find_field md n = Some fd -> In fd md /\ f_num fd = n.
Proof.
  induction md as [|f r IH]; cbn [msg_find_field]; [discriminate|].
  destruct (f_num f =? n) eqn:E.
  - intros [= ->]. apply N.eqb_eq in E. split; [now left|exact E].
  - intros H. destruct (IH H). split; [now right|assumption].
Qed.

Lemma eqm_vals_nil c ev : eqm_vals c ev [] [] = true.
Proof. destruct c; reflexivity. Qed.

(* the reflection algorithm's per-binding check in terms of eqm_fbind's ingredients *)
Lemma eqm_bind_spec md ev fb p :
  eqm_bind md ev fb p = true <->
  (snd p = [] \/
   exists fd, msg_find_field md (fst p) = Some fd /\ msg_fget fb (fst p) <> [] /\
              eqm_vals (f_card fd) (ev (f_kind fd)) (snd p) (msg_fget fb (fst p)) = true).
Proof.
  unfold eqm_bind. destruct (snd p) as [|v0 vr] eqn:Ev; [split; [now left|reflexivity]|].
  destruct (msg_find_field md (fst p)) as [fd|].
  - destruct (msg_fget fb (fst p)) as [|b0 br] eqn:Eb.
    + split; [discriminate|]. intros [H|[fd' [_ [H _]]]]; [discriminate|congruence].
    + split.
      * intros H. right. exists fd. repeat split; [discriminate|exact H].
      * intros [H|[fd' [E [_ H]]]]; [discriminate|]. inversion E; subst. exact H.
  - split; [discriminate|]. intros [H|[fd' [E _]]]; discriminate.
Qed.

Section FastEq.
  Variable S : schema.

  Definition eqm_P_fast (x : value) : Prop :=
    forall k y, eqm_wf S k x = true -> eqm_wf S k y = true -> eqm_fast S k x y = eqm_value S k x y.

  (* step 1: under the induction hypothesis the element comparisons coincide *)
  Lemma eqm_fbind_elems md fa ua fb ub k p :
    md = eqm_md S k ->
    eqm_wf S k (VMsg fa ua) = true -> eqm_wf S k (VMsg fb ub) = true ->
    In p fa -> Forall eqm_P_fast (snd p) ->
    eqm_fbind S (eqm_elem_fast S) md fb p = eqm_fbind S (eqm_value S) md fb p.
  Proof.
    intros -> Wa Wb Hp IH. unfold eqm_fbind.
    pose proof (eqm_wf_bind_in _ _ _ _ _ Wa Hp) as Wp. unfold eqm_wf_bind in Wp.
    destruct (msg_find_field (eqm_md S k) (fst p)) as [fd|] eqn:Ef; [|reflexivity]. cbv zeta.
    destruct (negb (f_ext fd) && (eqm_nil (snd p) || eqm_nil (msg_fget fb (fst p)))); [reflexivity|].
    (* well-formedness of the other side's values *)
    assert (match f_card fd with
            | CMap _ _ _ => forallb (fun e => match e with VEntry _ x => eqm_wf S (f_kind fd) x | _ => true end) (msg_fget fb (fst p))
            | _ => forallb (fun x => eqm_wf S (f_kind fd) x) (msg_fget fb (fst p))
            end = true) as Wq.
    { destruct (msg_fget fb (fst p)) as [|b0 br] eqn:Eb; [destruct (f_card fd); reflexivity|].
      assert (In (fst p, b0 :: br) fb) as Hq by (rewrite <- Eb; apply eqm_fget_in; rewrite Eb; discriminate).
      pose proof (eqm_wf_bind_in _ _ _ _ _ Wb Hq) as Wq. unfold eqm_wf_bind in Wq. cbn [fst snd] in Wq.
      rewrite Ef in Wq. destruct (f_card fd); try exact Wq.
      apply andb_true_iff in Wq. destruct Wq as [_ Wq]. rewrite forallb_forall in *. intros e He.
      specialize (Wq _ He). destruct e; try discriminate; exact Wq. }
    rewrite Forall_forall in IH.
    unfold eqm_elem_fast. destruct (f_kind fd) as [sk|tid|tid] eqn:Ek; try reflexivity.
    destruct (f_card fd) eqn:Ec.
    1-5: cbn [eqm_vals]; apply eqm_all2_ext; intros x y Hx Hy; apply IH; [exact Hx| |];
         [rewrite forallb_forall in Wp; now apply Wp|rewrite forallb_forall in Wq; now apply Wq].
    rewrite !eqm_vals_map. apply eqm_emap_ext. intros k0 x y Hx Hy.
    apply andb_true_iff in Wp. destruct Wp as [_ Wp]. rewrite forallb_forall in Wp, Wq.
    specialize (Wp _ Hx). specialize (Wq _ Hy). cbn in Wp, Wq.
    specialize (IH _ Hx (KMsg tid) (VEntry k0 y)). cbn [eqm_wf] in IH. specialize (IH Wp Wq).
    rewrite eqm_fast_entry, eqm_value_entry, eqm_key_refl in IH. exact IH.
  Qed.

  (* step 2: the two ways of comparing the sets of populated fields agree *)
  Lemma eqm_fast_reflect_bindings md fa ua fb ub k :
    md = eqm_md S k ->
    eqm_wf S k (VMsg fa ua) = true -> eqm_wf S k (VMsg fb ub) = true ->
    forallb (eqm_fbind S (eqm_value S) md fb) fa && forallb (eqm_fhas fa fb) md && forallb (eqm_fextra md fa) fb
    = forallb (eqm_bind md (eqm_value S) fb) fa && Nat.eqb (eqm_populated fa) (eqm_populated fb).
  Proof.
    intros -> Wa Wb. set (md := eqm_md S k).
    pose proof (eqm_wf_nodup _ _ _ _ Wa) as Na. pose proof (eqm_wf_nodup _ _ _ _ Wb) as Nb.
    apply eq_true_iff_eq. rewrite !andb_true_iff, Nat.eqb_eq, !forallb_forall. split.
    - intros [[F1 F2] F3].
      assert (forall p, In p fa -> eqm_bind md (eqm_value S) fb p = true) as R1.
      { intros p Hp. apply eqm_bind_spec. destruct (snd p) as [|v0 vr] eqn:Ev; [now left|right].
        specialize (F1 p Hp). unfold eqm_fbind in F1.
        destruct (msg_find_field md (fst p)) as [fd|] eqn:Ef; [|discriminate]. cbv zeta in F1.
        exists fd. split; [reflexivity|].
        assert (msg_fget fa (fst p) = v0 :: vr) as Ega by (apply eqm_fget_nodup; [exact Na|]; rewrite <- Ev; now destruct p).
        destruct (f_ext fd) eqn:Ex; cbn [negb andb] in F1.
        + rewrite Ev in F1. pose proof (eqm_vals_length _ _ _ _ F1) as L. split; [|exact F1].
          destruct (msg_fget fb (fst p)); [discriminate|discriminate].
        + destruct (eqm_find_field_in _ _ _ Ef) as [Hin Hnum]. specialize (F2 _ Hin). unfold eqm_fhas in F2.
          rewrite Ex, Hnum, Ega in F2. cbn [orb eqm_nil] in F2.
          destruct (msg_fget fb (fst p)) as [|b0 br] eqn:Eb; [discriminate|].
          rewrite Ev in F1. cbn [eqm_nil orb] in F1. split; [discriminate|exact F1]. }
      split; [exact R1|].
      assert (incl (eqm_popnums fa) (eqm_popnums fb)) as I1.
      { apply (eqm_bind_popnums md (eqm_value S)); [|exact Nb]. now apply forallb_forall. }
      assert (incl (eqm_popnums fb) (eqm_popnums fa)) as I2.
      { intros n Hn. apply eqm_popnums_in in Hn. destruct Hn as [vb [Hvb Hq]].
        specialize (F3 _ Hq). unfold eqm_fextra in F3. cbn [fst snd] in F3.
        destruct (msg_find_field md n) as [fd|] eqn:Ef; [|discriminate].
        pose proof (eqm_fget_nodup _ _ _ Nb Hq) as Egb.
        destruct (f_ext fd) eqn:Ex; cbn [negb orb] in F3.
        - destruct vb as [|b0 br]; [congruence|]. cbn [eqm_nil] in F3. rewrite orb_false_r in F3.
          apply existsb_exists in F3. destruct F3 as [n' [Hn' E]]. apply N.eqb_eq in E. subst n'.
          apply in_map_iff in Hn'. destruct Hn' as [p [Ep Hp]].
          specialize (F1 _ Hp). unfold eqm_fbind in F1. rewrite Ep, Ef in F1. cbv zeta in F1.
          rewrite Ex, Egb in F1. cbn [negb andb] in F1. pose proof (eqm_vals_length _ _ _ _ F1) as L.
          apply eqm_popnums_in. exists (snd p). split; [destruct (snd p); [discriminate|discriminate]|].
          rewrite <- Ep. now destruct p.
        - destruct (eqm_find_field_in _ _ _ Ef) as [Hin Hnum]. specialize (F2 _ Hin). unfold eqm_fhas in F2.
          rewrite Ex, Hnum, Egb in F2. cbn [orb] in F2.
          apply eqm_popnums_fget; [exact Na|]. destruct vb; [congruence|]. cbn [eqm_nil] in F2.
          destruct (msg_fget fa n); [discriminate|discriminate]. }
      rewrite !eqm_populated_len. apply Nat.le_antisymm; apply NoDup_incl_length; try assumption;
        now apply eqm_popnums_nodup.
    - intros [R1 C].
      assert (incl (eqm_popnums fa) (eqm_popnums fb)) as I1.
      { apply (eqm_bind_popnums md (eqm_value S)); [|exact Nb]. now apply forallb_forall. }
      assert (incl (eqm_popnums fb) (eqm_popnums fa)) as I2 by (now apply eqm_pop_pigeonhole).
      split; [split|].
      + intros p Hp. unfold eqm_fbind.
        pose proof (eqm_wf_bind_in _ _ _ _ _ Wa Hp) as Wp. unfold eqm_wf_bind in Wp. fold md in Wp.
        destruct (msg_find_field md (fst p)) as [fd|] eqn:Ef; [|discriminate]. cbv zeta.
        destruct (negb (f_ext fd) && (eqm_nil (snd p) || eqm_nil (msg_fget fb (fst p)))) eqn:Econd; [reflexivity|].
        specialize (R1 _ Hp). apply eqm_bind_spec in R1. destruct R1 as [Enil|[fd' [Ef' [_ Hv]]]].
        * (* an empty binding of x: y has none, or an empty one *)
          rewrite Enil in *.
          assert (msg_fget fb (fst p) = []) as Egb.
          { destruct (msg_fget fb (fst p)) as [|b0 br] eqn:Eb; [reflexivity|exfalso].
            assert (In (fst p) (eqm_popnums fa)) as Hpa.
            { apply I2. apply eqm_popnums_fget; [exact Nb|]. rewrite Eb. discriminate. }
            apply (eqm_popnums_fget _ _ Na) in Hpa. apply Hpa. apply eqm_fget_nodup; [exact Na|].
            rewrite <- Enil. now destruct p. }
          rewrite Egb. apply eqm_vals_nil.
        * rewrite Ef in Ef'. inversion Ef'; subst fd'. exact Hv.
      + intros fd Hfd. unfold eqm_fhas. destruct (f_ext fd); [reflexivity|]. cbn [orb].
        apply Bool.eqb_true_iff.
        destruct (msg_fget fa (f_num fd)) as [|a0 ar] eqn:Ea, (msg_fget fb (f_num fd)) as [|b0 br] eqn:Eb; try reflexivity; exfalso.
        * assert (In (f_num fd) (eqm_popnums fa)) as H by (apply I2, eqm_popnums_fget; [exact Nb|]; rewrite Eb; discriminate).
          apply (eqm_popnums_fget _ _ Na) in H. congruence.
        * assert (In (f_num fd) (eqm_popnums fb)) as H by (apply I1, eqm_popnums_fget; [exact Na|]; rewrite Ea; discriminate).
          apply (eqm_popnums_fget _ _ Nb) in H. congruence.
      + intros q Hq. unfold eqm_fextra.
        pose proof (eqm_wf_bind_in _ _ _ _ _ Wb Hq) as Wq. unfold eqm_wf_bind in Wq. fold md in Wq.
        destruct (msg_find_field md (fst q)) as [fd|]; [|discriminate].
        destruct (f_ext fd); [|reflexivity]. cbn [negb orb].
        destruct (snd q) as [|b0 br] eqn:Eq; [now rewrite orb_true_r|]. rewrite orb_false_r.
        assert (In (fst q) (eqm_popnums fa)) as H.
        { apply I2, eqm_popnums_in. exists (b0 :: br). split; [discriminate|]. rewrite <- Eq. now destruct q. }
        apply eqm_popnums_in in H. destruct H as [va [_ Hva]].
        apply existsb_exists. exists (fst q). split; [|apply N.eqb_refl].
        change (fst q) with (fst (fst q, va)). now apply in_map.
  Qed.

  Theorem eqm_fast_eq_value : forall x, eqm_P_fast x.
  Proof.
    induction x as [s|fa ua IH|ka xa IH] using msg_value_ind; intros k y Wx Wy.
    - destruct y; reflexivity.
    - destruct y as [|fb ub|]; try reflexivity.
      rewrite eqm_fast_msg, eqm_value_msg.
      replace (forallb (eqm_fbind S (eqm_elem_fast S) (eqm_md S k) fb) fa)
        with (forallb (eqm_fbind S (eqm_value S) (eqm_md S k) fb) fa).
      + now rewrite (eqm_fast_reflect_bindings _ fa ua fb ub k eq_refl Wx Wy).
      + symmetry. apply eqm_forallb_ext_in. intros p Hp. rewrite Forall_forall in IH.
        eapply eqm_fbind_elems; [reflexivity|exact Wx|exact Wy|exact Hp|now apply IH].
    - destruct y as [| |kb xb]; try reflexivity. cbn [eqm_wf] in Wx, Wy.
      rewrite eqm_fast_entry, eqm_value_entry. f_equal. now apply IH.
  Qed.
End FastEq.
