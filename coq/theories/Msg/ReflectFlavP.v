(* ReflectFlavP — all representations of one message agree (C29): corollaries of the refinement
   theorems of Msg/ReflectCellP.v and of the codecs being functions of the abstract message. *)
From Coq Require Import List NArith ZArith Bool.
From PB Require Import Base.PBytes Wire.WireModel Msg.MsgSchema Msg.MsgValue Msg.MsgEnc.
From PB Require Import Msg.ReflectModel Msg.ReflectP Msg.ReflectCellModel Msg.ReflectCellP.
Import ListNotations.
Open Scope N_scope.

Section TwoRepresentations.
  Variables (cellA cellB : Type) (opsA : cellops cellA) (opsB : cellops cellB).
  Variables (invA : fdesc -> cellA -> Prop) (invB : fdesc -> cellB -> Prop).
  Hypothesis LA : celllaws cellA opsA invA.
  Hypothesis LB : celllaws cellB opsB invB.
  Variable S : schema.
  Variable D : rdefs.
  Let md := nth O S [].
  Notation absA st := (refl_val_of (cm_abs cellA opsA md st)).
  Notation absB st := (refl_val_of (cm_abs cellB opsB md st)).

  (* same content now: same deterministic bytes, same size, same value of every function of the
     abstract message (the JSON and text encoders of the codec models are such functions) *)
  Theorem same_abstraction_same_encodings : forall (a : cmsg cellA) (b : cmsg cellB),
    absA a = absB b ->
    msg_encode S O (absA a) = msg_encode S O (absB b) /\
    msg_size_body S O (absA a) = msg_size_body S O (absB b) /\
    forall (X : Type) (F : value -> X), F (absA a) = F (absB b).
  Proof. intros a b E. rewrite E. repeat split. Qed.

  (* the same history on two representations of the same content: same results of every
     operation, same content afterwards *)
  Theorem flavours_agree_along_histories : forall steps (a : cmsg cellA) (b : cmsg cellB),
    md_ok md -> CInv cellA invA md (cm_cells a) -> CInv cellB invB md (cm_cells b) ->
    absA a = absB b ->
    absA (fst (cm_run cellA opsA S D a steps)) = absB (fst (cm_run cellB opsB S D b steps)) /\
    snd (cm_run cellA opsA S D a steps) = snd (cm_run cellB opsB S D b steps).
  Proof.
    intros steps a b Hok Ha Hb E.
    destruct (cm_run_refines cellA opsA invA LA md S D steps a eq_refl Hok Ha) as [A1 [A2 _]].
    destruct (cm_run_refines cellB opsB invB LB md S D steps b eq_refl Hok Hb) as [B1 [B2 _]].
    rewrite A1, B1, A2, B2, E. auto.
  Qed.

  Theorem flavours_agree : forall steps (a : cmsg cellA) (b : cmsg cellB),
    md_ok md -> CInv cellA invA md (cm_cells a) -> CInv cellB invB md (cm_cells b) ->
    absA a = absB b ->
    let a' := fst (cm_run cellA opsA S D a steps) in
    let b' := fst (cm_run cellB opsB S D b steps) in
    msg_encode S O (absA a') = msg_encode S O (absB b') /\
    msg_size_body S O (absA a') = msg_size_body S O (absB b') /\
    (forall (X : Type) (F : value -> X), F (absA a') = F (absB b')) /\
    snd (cm_run cellA opsA S D a steps) = snd (cm_run cellB opsB S D b steps).
  Proof.
    intros steps a b Hok Ha Hb E a' b'.
    destruct (flavours_agree_along_histories steps a b Hok Ha Hb E) as [E' O'].
    destruct (same_abstraction_same_encodings a' b' E') as [P1 [P2 P3]]. auto.
  Qed.
End TwoRepresentations.

(* dynamicpb and opaque generated messages built by the same calls from empty messages *)
Theorem dynamic_and_opaque_agree : forall (S : schema) (D : rdefs) (steps : list rstep),
  md_ok (nth O S []) ->
  let a' := fst (cm_run dyncell dyn_ops S D (mkCM [] []) steps) in
  let b' := fst (cm_run ocell opq_ops S D (mkCM [] []) steps) in
  msg_encode S O (refl_val_of (cm_abs dyncell dyn_ops (nth O S []) a')) =
  msg_encode S O (refl_val_of (cm_abs ocell opq_ops (nth O S []) b')) /\
  snd (cm_run dyncell dyn_ops S D (mkCM [] []) steps) = snd (cm_run ocell opq_ops S D (mkCM [] []) steps).
Proof.
  intros S D steps Hok a' b'.
  destruct (flavours_agree dyncell ocell dyn_ops opq_ops dyn_inv opq_inv dyn_laws opq_laws S D steps
              (mkCM [] []) (mkCM [] []) Hok) as [P1 [_ [_ P4]]]; auto.
  - split; cbn; auto. intros ? ? ? [].
  - split; cbn; auto. intros ? ? ? [].
Qed.
