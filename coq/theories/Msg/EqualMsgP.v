(* EqualMsgP — proofs for C30, part 2: proto.Equal on messages is an equivalence relation, and
   the table-driven algorithm computes the same relation as the reflection algorithm. *)
From Coq Require Import List Arith NArith ZArith Lia Bool Permutation.
From Coq Require Import ZifyBool ZifyNat ZifyN.
From PB Require Import Base.PBytes Wire.WireModel Wire.VarintP.
From PB Require Import Msg.MsgSchema Msg.MsgValue Msg.MsgEnc Msg.MsgValid Msg.MsgWireP Msg.MsgSizeP.
From PB Require Import Msg.EqualModel Msg.EqualP.
Import ListNotations.
Open Scope N_scope.

(* ------------------------------------------------------------------ unfolding *)
Definition eqm_bind (md : mdesc) (ev : kind -> value -> value -> bool) (fb : fields) (p : N * list value) : bool :=
  match snd p with
  | [] => true
  | _ :: _ =>
    match msg_find_field md (fst p) with
    | None => false
    | Some fd =>
      match msg_fget fb (fst p) with
      | [] => false
      | vb => eqm_vals (f_card fd) (ev (f_kind fd)) (snd p) vb
      end
    end
  end.

Lemma eqm_value_msg S k fa ua fb ub :
  eqm_value S k (VMsg fa ua) (VMsg fb ub) =
  forallb (eqm_bind (eqm_md S k) (eqm_value S) fb) fa
  && Nat.eqb (eqm_populated fa) (eqm_populated fb) && eqm_unknown ua ub.
Proof. reflexivity. Qed.

Definition eqm_wf_bind (S : schema) (md : mdesc) (p : N * list value) : bool :=
  match msg_find_field md (fst p) with
  | None => false
  | Some fd =>
    match f_card fd with
    | CMap _ _ _ =>
      eqm_nodup_keys (snd p) &&
      forallb (fun e => match e with VEntry _ x => eqm_wf S (f_kind fd) x | _ => false end) (snd p)
    | _ => forallb (fun x => eqm_wf S (f_kind fd) x) (snd p)
    end
  end.

Lemma eqm_wf_msg S k fs u :
  eqm_wf S k (VMsg fs u) = eqm_nodup_n (map fst fs) && forallb (eqm_wf_bind S (eqm_md S k)) fs.
Proof. reflexivity. Qed.

Lemma eqm_value_entry S k ka xa kb xb :
  eqm_value S k (VEntry ka xa) (VEntry kb xb) = eqm_key ka kb && eqm_value S k xa xb.
Proof. reflexivity. Qed.

(* ------------------------------------------------------------------ pairwise comparison *)
Section All2P.
  Context {A B : Type}.
  Lemma eqm_all2_length (f : A -> B -> bool) la : forall lb, eqm_all2 f la lb = true -> length la = length lb.
  Proof.
    induction la as [|x la IH]; intros [|y lb]; cbn [eqm_all2 length]; try discriminate; [reflexivity|].
    rewrite andb_true_iff. intros [_ H]. f_equal. now apply IH.
  Qed.
  Lemma eqm_all2_ext (f g : A -> B -> bool) la : forall lb,
    (forall x y, In x la -> In y lb -> f x y = g x y) -> eqm_all2 f la lb = eqm_all2 g la lb.
  Proof.
    induction la as [|x la IH]; intros [|y lb] H; cbn [eqm_all2]; try reflexivity.
    rewrite H by now left. f_equal. apply IH. intros x' y' Hx Hy. apply H; now right.
  Qed.
End All2P.

Lemma eqm_all2_refl {A} (f : A -> A -> bool) l : Forall (fun x => f x x = true) l -> eqm_all2 f l l = true.
Proof. induction 1 as [|x l Hx Hl IH]; cbn [eqm_all2]; [reflexivity|]. now rewrite Hx, IH. Qed.

Lemma eqm_all2_sym {A B} (f : A -> B -> bool) (g : B -> A -> bool) la : forall lb,
  (forall x y, In x la -> In y lb -> f x y = true -> g y x = true) ->
  eqm_all2 f la lb = true -> eqm_all2 g lb la = true.
Proof.
  induction la as [|x la IH]; intros [|y lb] H; cbn [eqm_all2]; try discriminate; [reflexivity|].
  rewrite !andb_true_iff. intros [H1 H2]. split.
  - apply H; [now left|now left|exact H1].
  - apply IH; [|exact H2]. intros x' y' Hx Hy. apply H; now right.
Qed.

Lemma eqm_all2_trans {A} (f : A -> A -> bool) la : forall lb lc,
  (forall x y z, In x la -> f x y = true -> f y z = true -> f x z = true) ->
  eqm_all2 f la lb = true -> eqm_all2 f lb lc = true -> eqm_all2 f la lc = true.
Proof.
  induction la as [|x la IH]; intros [|y lb] [|z lc] H; cbn [eqm_all2]; try discriminate; [reflexivity|].
  rewrite !andb_true_iff. intros [H1 H2] [H3 H4]. split.
  - eapply H; [now left|exact H1|exact H3].
  - eapply IH; [|exact H2|exact H4]. intros x' y' z' Hx. apply H. now right.
Qed.

(* ------------------------------------------------------------------ maps *)
Definition eqm_emap (ev : value -> value -> bool) (va vb : list value) : bool :=
  Nat.eqb (length va) (length vb) &&
  forallb (fun e => match e with
                    | VEntry ka xa => match eqm_efind vb ka with Some xb => ev xa xb | None => false end
                    | _ => false
                    end) va.

Lemma eqm_emap_in ev va vb k x :
  eqm_emap ev va vb = true -> In (VEntry k x) va ->
  exists y, eqm_efind vb k = Some y /\ ev x y = true.
Proof.
  unfold eqm_emap. rewrite andb_true_iff, forallb_forall. intros [_ H] Hin.
  specialize (H _ Hin). cbn in H. destruct (eqm_efind vb k) as [y|]; [|discriminate]. now exists y.
Qed.

Lemma eqm_emap_refl ev va :
  eqm_nodup_keys va = true -> (forall k x, In (VEntry k x) va -> ev x x = true) -> eqm_emap ev va va = true.
Proof.
  intros Hn H. unfold eqm_emap. rewrite Nat.eqb_refl. cbn [andb]. apply forallb_forall. intros e He.
  destruct (eqm_nodup_keys_spec _ Hn) as [_ [_ A]]. destruct (A _ He) as [k [x ->]].
  rewrite (eqm_efind_nodup _ _ _ Hn He). now apply (H k).
Qed.

Lemma eqm_emap_keys_incl ev va vb :
  eqm_emap ev va vb = true -> incl (eqm_keys va) (eqm_keys vb).
Proof.
  intros H k Hk. apply eqm_keys_in in Hk. destruct Hk as [x Hx].
  destruct (eqm_emap_in _ _ _ _ _ H Hx) as [y [Hy _]]. apply eqm_keys_in. exists y. now apply eqm_efind_in.
Qed.

Lemma eqm_emap_sym ev ev' va vb :
  eqm_nodup_keys va = true -> eqm_nodup_keys vb = true ->
  (forall k x y, In (VEntry k x) va -> In (VEntry k y) vb -> ev x y = true -> ev' y x = true) ->
  eqm_emap ev va vb = true -> eqm_emap ev' vb va = true.
Proof.
  intros Na Nb H E. pose proof E as E0. unfold eqm_emap in E. apply andb_true_iff in E. destruct E as [L _].
  apply Nat.eqb_eq in L. unfold eqm_emap. rewrite <- L, Nat.eqb_refl. cbn [andb]. apply forallb_forall. intros e He.
  destruct (eqm_nodup_keys_spec _ Na) as [NDa [La _]]. destruct (eqm_nodup_keys_spec _ Nb) as [NDb [Lb Ab]].
  destruct (Ab _ He) as [k [y ->]].
  assert (incl (eqm_keys vb) (eqm_keys va)) as I.
  { apply NoDup_length_incl; [exact NDa|lia|now apply (eqm_emap_keys_incl ev)]. }
  assert (In k (eqm_keys va)) as Hk by (apply I, eqm_keys_in; now exists y).
  apply eqm_keys_in in Hk. destruct Hk as [x Hx].
  rewrite (eqm_efind_nodup _ _ _ Na Hx).
  destruct (eqm_emap_in _ _ _ _ _ E0 Hx) as [y' [Hy' Hev]].
  rewrite (eqm_efind_nodup _ _ _ Nb He) in Hy'. inversion Hy'; subst y'.
  eapply H; eassumption.
Qed.

Lemma eqm_emap_trans ev va vb vc :
  (forall k x y z, In (VEntry k x) va -> ev x y = true -> ev y z = true -> ev x z = true) ->
  eqm_emap ev va vb = true -> eqm_emap ev vb vc = true -> eqm_emap ev va vc = true.
Proof.
  intros H E1 E2. pose proof E1 as E1'. pose proof E2 as E2'. unfold eqm_emap in E1', E2'.
  apply andb_true_iff in E1', E2'. destruct E1' as [L1 F1], E2' as [L2 _]. apply Nat.eqb_eq in L1, L2.
  unfold eqm_emap. rewrite andb_true_iff. split; [apply Nat.eqb_eq; congruence|].
  apply forallb_forall. intros e He. rewrite forallb_forall in F1. pose proof (F1 _ He) as Fe.
  destruct e as [s|fs u|k x]; try discriminate.
  destruct (eqm_emap_in _ _ _ _ _ E1 He) as [y [Hy Hxy]].
  destruct (eqm_emap_in _ _ _ _ _ E2 (eqm_efind_in _ _ _ Hy)) as [z [Hz Hyz]].
  rewrite Hz. eapply H; eassumption.
Qed.

Lemma eqm_forallb_ext_in {A} (f g : A -> bool) l : (forall x, In x l -> f x = g x) -> forallb f l = forallb g l.
Proof.
  induction l as [|x r IH]; intros H; cbn [forallb]; [reflexivity|].
  rewrite (H x) by now left. f_equal. apply IH. intros y Hy. apply H. now right.
Qed.

Lemma eqm_emap_ext ev ev' va vb :
  (forall k x y, In (VEntry k x) va -> In (VEntry k y) vb -> ev x y = ev' x y) ->
  eqm_emap ev va vb = eqm_emap ev' va vb.
Proof.
  intros H. unfold eqm_emap. f_equal. apply eqm_forallb_ext_in. intros e He.
  destruct e as [s|fs u|k x]; try reflexivity.
  destruct (eqm_efind vb k) as [y|] eqn:E; [|reflexivity]. apply (H k); [exact He|now apply eqm_efind_in].
Qed.

Lemma eqm_vals_map kk ku vd ev va vb : eqm_vals (CMap kk ku vd) ev va vb = eqm_emap ev va vb.
Proof. reflexivity. Qed.

Lemma eqm_vals_list c ev va vb : (forall kk ku vd, c <> CMap kk ku vd) -> eqm_vals c ev va vb = eqm_all2 ev va vb.
Proof. destruct c; try reflexivity. intros H. exfalso. eapply H. reflexivity. Qed.

(* values of one field are non-empty on both sides when they compare equal *)
Lemma eqm_vals_length c ev va vb : eqm_vals c ev va vb = true -> length va = length vb.
Proof.
  destruct c; cbn [eqm_vals]; try apply eqm_all2_length.
  rewrite andb_true_iff, Nat.eqb_eq. tauto.
Qed.

(* ------------------------------------------------------------------ well-formedness of parts *)
Lemma eqm_wf_bind_in S k fs u p :
  eqm_wf S k (VMsg fs u) = true -> In p fs -> eqm_wf_bind S (eqm_md S k) p = true.
Proof. rewrite eqm_wf_msg, andb_true_iff, forallb_forall. intros [_ H] Hp. now apply H. Qed.

Lemma eqm_wf_nodup S k fs u : eqm_wf S k (VMsg fs u) = true -> NoDup (map fst fs).
Proof. rewrite eqm_wf_msg, andb_true_iff, eqm_nodup_n_spec. tauto. Qed.

(* ------------------------------------------------------------------ reflexivity *)
Section Laws.
  Variable S : schema.

  Definition eqm_P_refl (x : value) : Prop := forall k, eqm_wf S k x = true -> eqm_value S k x x = true.

  Lemma eqm_value_refl : forall x, eqm_P_refl x.
  Proof.
    induction x as [s|fa ua IH|ka xa IH] using msg_value_ind; intros k Hwf.
    - apply eqm_scalar_refl.
    - rewrite eqm_value_msg, Nat.eqb_refl, eqm_unknown_refl, !andb_true_r.
      apply forallb_forall. intros p Hp. pose proof (eqm_wf_bind_in _ _ _ _ _ Hwf Hp) as Hb.
      pose proof (eqm_wf_nodup _ _ _ _ Hwf) as Hn.
      rewrite Forall_forall in IH. specialize (IH p Hp). rewrite Forall_forall in IH.
      unfold eqm_bind, eqm_wf_bind in *. destruct (snd p) as [|v0 vr] eqn:Ev; [reflexivity|].
      destruct (msg_find_field (eqm_md S k) (fst p)) as [fd|]; [|discriminate].
      assert (msg_fget fa (fst p) = v0 :: vr) as Eg.
      { apply eqm_fget_nodup; [exact Hn|]. rewrite <- Ev. now destruct p. }
      rewrite Eg. destruct (f_card fd) eqn:Ec.
      1-5: cbn [eqm_vals]; apply eqm_all2_refl, Forall_forall; intros x Hx; apply IH; [exact Hx|];
           rewrite forallb_forall in Hb; now apply Hb.
      rewrite eqm_vals_map. apply andb_true_iff in Hb. destruct Hb as [Hk Hw].
      apply eqm_emap_refl; [exact Hk|]. intros k0 x Hx.
      rewrite forallb_forall in Hw. specialize (Hw _ Hx). cbn in Hw.
      specialize (IH _ Hx (f_kind fd)). cbn [eqm_wf] in IH. specialize (IH Hw).
      rewrite eqm_value_entry in IH. apply andb_true_iff in IH. tauto.
    - cbn [eqm_wf] in Hwf. rewrite eqm_value_entry, eqm_key_refl. cbn [andb]. now apply IH.
  Qed.

  (* ---------------------------------------------------------------- transitivity (no side conditions) *)
  Definition eqm_P_trans (x : value) : Prop :=
    forall k y z, eqm_value S k x y = true -> eqm_value S k y z = true -> eqm_value S k x z = true.

  Lemma eqm_value_trans : forall x, eqm_P_trans x.
  Proof.
    induction x as [s|fa ua IH|ka xa IH] using msg_value_ind; intros k y z Hxy Hyz.
    - destruct y as [t| |]; try discriminate. destruct z as [r| |]; try discriminate.
      cbn [eqm_value] in *. eapply eqm_scalar_trans; eassumption.
    - destruct y as [|fb ub|]; try discriminate. destruct z as [|fc uc|]; try discriminate.
      rewrite eqm_value_msg in *. rewrite !andb_true_iff in *.
      destruct Hxy as [[F1 C1] U1], Hyz as [[F2 C2] U2]. repeat split.
      + rewrite forallb_forall in *. intros p Hp. specialize (F1 p Hp).
        rewrite Forall_forall in IH. specialize (IH p Hp). rewrite Forall_forall in IH.
        unfold eqm_bind in *. destruct (snd p) as [|v0 vr] eqn:Ev; [reflexivity|].
        destruct (msg_find_field (eqm_md S k) (fst p)) as [fd|] eqn:Ef; [|discriminate].
        destruct (msg_fget fb (fst p)) as [|b0 br] eqn:Eb; [discriminate|].
        assert (In (fst p, b0 :: br) fb) as Hb by (rewrite <- Eb; apply eqm_fget_in; rewrite Eb; discriminate).
        specialize (F2 _ Hb). cbn [fst snd] in F2. rewrite Ef in F2.
        destruct (msg_fget fc (fst p)) as [|c0 cr] eqn:Ec; [discriminate|].
        destruct (f_card fd) eqn:Ecard.
        1-5: cbn [eqm_vals] in *; eapply eqm_all2_trans; [|exact F1|exact F2];
             intros x' y' z' Hx'; apply IH; exact Hx'.
        rewrite eqm_vals_map in *. eapply eqm_emap_trans; [|exact F1|exact F2].
        intros k0 x' y' z' Hx' H1 H2. specialize (IH _ Hx' (f_kind fd) (VEntry k0 y') (VEntry k0 z')).
        rewrite !eqm_value_entry, eqm_key_refl in IH. cbn [andb] in IH. now apply IH.
      + apply Nat.eqb_eq in C1, C2. apply Nat.eqb_eq. congruence.
      + eapply eqm_unknown_trans; eassumption.
    - destruct y as [| |kb xb]; try discriminate. destruct z as [| |kc xc]; try discriminate.
      rewrite eqm_value_entry in *. rewrite !andb_true_iff, !eqm_key_eq in *.
      destruct Hxy as [-> H1], Hyz as [-> H2]. split; [reflexivity|]. eapply IH; eassumption.
  Qed.

  (* ---------------------------------------------------------------- symmetry *)
  Definition eqm_P_sym (x : value) : Prop :=
    forall k y, eqm_wf S k x = true -> eqm_wf S k y = true ->
                eqm_value S k x y = true -> eqm_value S k y x = true.

  (* the populated numbers of a are populated in b *)
  Lemma eqm_bind_popnums md ev fa fb :
    forallb (eqm_bind md ev fb) fa = true -> NoDup (map fst fb) -> incl (eqm_popnums fa) (eqm_popnums fb).
  Proof.
    rewrite forallb_forall. intros F Hn n Hin. apply eqm_popnums_in in Hin. destruct Hin as [v [Hv Hin]].
    specialize (F _ Hin). unfold eqm_bind in F. cbn [fst snd] in F. destruct v as [|v0 vr]; [congruence|].
    destruct (msg_find_field md n); [|discriminate].
    apply eqm_popnums_fget; [exact Hn|]. destruct (msg_fget fb n); [discriminate|discriminate].
  Qed.

  Lemma eqm_value_sym : forall x, eqm_P_sym x.
  Proof.
    induction x as [s|fa ua IH|ka xa IH] using msg_value_ind; intros k y Wx Wy Hxy.
    - destruct y as [t| |]; try discriminate. cbn [eqm_value] in *. now apply eqm_scalar_sym.
    - destruct y as [|fb ub|]; try discriminate.
      rewrite eqm_value_msg in *. rewrite !andb_true_iff in *. destruct Hxy as [[F C] U].
      pose proof (eqm_wf_nodup _ _ _ _ Wx) as Na. pose proof (eqm_wf_nodup _ _ _ _ Wy) as Nb.
      apply Nat.eqb_eq in C. repeat split; [|apply Nat.eqb_eq; congruence|now apply eqm_unknown_sym].
      assert (incl (eqm_popnums fb) (eqm_popnums fa)) as I.
      { apply eqm_pop_pigeonhole; [exact Na| |exact C]. eapply eqm_bind_popnums; eassumption. }
      rewrite forallb_forall in *. intros q Hq.
      pose proof (eqm_wf_bind_in _ _ _ _ _ Wy Hq) as Wq.
      unfold eqm_bind. destruct (snd q) as [|b0 br] eqn:Eq; [reflexivity|].
      assert (In (fst q) (eqm_popnums fa)) as Hpa.
      { apply I, eqm_popnums_in. exists (b0 :: br). split; [discriminate|]. rewrite <- Eq. now destruct q. }
      apply eqm_popnums_in in Hpa. destruct Hpa as [va [Hva Hina]].
      specialize (F _ Hina). unfold eqm_bind in F. cbn [fst snd] in F.
      destruct va as [|a0 ar]; [congruence|].
      destruct (msg_find_field (eqm_md S k) (fst q)) as [fd|] eqn:Ef; [|discriminate].
      assert (msg_fget fb (fst q) = b0 :: br) as Egb.
      { apply eqm_fget_nodup; [exact Nb|]. rewrite <- Eq. now destruct q. }
      rewrite Egb in F. rewrite (eqm_fget_nodup _ _ _ Na Hina).
      pose proof (eqm_wf_bind_in _ _ _ _ _ Wx Hina) as Wp. unfold eqm_wf_bind in Wp, Wq. cbn [fst snd] in Wp.
      rewrite Ef in Wp, Wq. rewrite Eq in Wq.
      rewrite Forall_forall in IH. specialize (IH _ Hina). cbn [snd] in IH. rewrite Forall_forall in IH.
      destruct (f_card fd) eqn:Ecard.
      1-5: cbn [eqm_vals] in *; eapply eqm_all2_sym; [|exact F]; intros x' y' Hx' Hy' Hev;
           rewrite forallb_forall in Wp, Wq; apply IH; [exact Hx'|now apply Wp|now apply Wq|exact Hev].
      rewrite eqm_vals_map in *. apply andb_true_iff in Wp, Wq. destruct Wp as [Ka Wa], Wq as [Kb Wb].
      eapply eqm_emap_sym; [exact Ka|exact Kb| |exact F].
      intros k0 x' y' Hx' Hy' Hev. rewrite forallb_forall in Wa, Wb.
      specialize (Wa _ Hx'). specialize (Wb _ Hy'). cbn in Wa, Wb.
      specialize (IH _ Hx' (f_kind fd) (VEntry k0 y')). cbn [eqm_wf] in IH.
      rewrite !eqm_value_entry, eqm_key_refl in IH. cbn [andb] in IH. now apply IH.
    - destruct y as [| |kb xb]; try discriminate. cbn [eqm_wf] in Wx, Wy.
      rewrite eqm_value_entry in *. rewrite !andb_true_iff, !eqm_key_eq in *.
      destruct Hxy as [-> H1]. split; [reflexivity|]. now apply IH.
  Qed.
End Laws.
