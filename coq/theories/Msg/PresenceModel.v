(* C11 — field presence: model of
     internal/filedesc/desc.go       Field.HasPresence, Extension.HasPresence
     internal/filedesc/presence.go   UsePresenceForField
     internal/filedesc/editions.go, reflect/protodesc/editions.go  (field_presence feature -> IsFieldPresence/IsLegacyRequired)
     internal/impl/presence.go, api_export_opaque.go   (presence bitmap)
     internal/impl/message_reflect_field.go, message_opaque.go, types/dynamicpb  (Has per field class)
   Definitions only; proofs are in PresenceP.v. *)
From Coq Require Import List NArith Bool.
From PB Require Import Base.PBytes Wire.WireModel.
Import ListNotations.
Open Scope N_scope.

(* ------------------------------------------------------------------ *)
(** * 1. The HasPresence decision table *)

Inductive psyntax := SProto2 | SProto3 | SEditions.
Inductive plabel := LOptional | LRequired | LRepeated.
Inductive fpresence := FPExplicit | FPImplicit | FPLegacyRequired.

(* The attributes of a field as declared in its FieldDescriptorProto. *)
Record fattr := mkFattr {
  fa_syntax : psyntax;
  fa_label : plabel;     (* label as declared *)
  fa_oneof : bool;       (* member of a real (non-synthetic) oneof *)
  fa_p3opt : bool;       (* proto3_optional: member of a synthetic oneof *)
  fa_msg : bool;         (* kind message or group: L1.Message != nil *)
  fa_ext : bool;         (* extension field (filedesc.Extension) *)
  fa_fp : fpresence      (* resolved features.field_presence of the field *)
}.

(* Feature resolution: the file's edition default, overridden by every explicitly set
   features.field_presence on the path file -> message -> ... -> field
   (mergeEditionFeatures / unmarshalFeatureSet: "any feature set by the child overwrites"). *)
Definition default_fp (s : psyntax) : fpresence :=
  match s with SProto2 => FPExplicit | SProto3 => FPImplicit | SEditions => FPExplicit end.

Definition resolve_fp (dflt : fpresence) (chain : list (option fpresence)) : fpresence :=
  fold_left (fun acc o => match o with Some x => x | None => acc end) chain dflt.

(* EditionFeatures.IsFieldPresence / IsLegacyRequired *)
Definition is_field_presence (fp : fpresence) : bool :=
  match fp with FPImplicit => false | _ => true end.
Definition is_legacy_required (fp : fpresence) : bool :=
  match fp with FPLegacyRequired => true | _ => false end.

Definition is_repeated (l : plabel) : bool := match l with LRepeated => true | _ => false end.

(* L1.Cardinality after descriptor initialisation (desc_lazy.go unmarshalFull,
   protodesc/desc_init.go): LEGACY_REQUIRED overrides the declared label. *)
Definition eff_card (a : fattr) : plabel :=
  if is_legacy_required (fa_fp a) then LRequired else fa_label a.

(* L1.ContainingOneof != nil: real or synthetic oneof *)
Definition has_containing_oneof (a : fattr) : bool := fa_oneof a || fa_p3opt a.

(* Field.HasPresence and Extension.HasPresence *)
Definition has_presence (a : fattr) : bool :=
  if fa_ext a then negb (is_repeated (fa_label a))
  else if is_repeated (eff_card a) then false
  else is_field_presence (fa_fp a) || fa_msg a || has_containing_oneof a.

(* filedesc.UsePresenceForField: (usePresence, canBeLazy) *)
Definition use_presence (a : fattr) (is_map is_lazy : bool) : bool * bool :=
  if fa_oneof a then (false, false)
  else if is_map then (false, false)
  else if fa_msg a then (is_lazy, is_lazy)
  else (has_presence a, false).

(* The declarative rule (protobuf "field presence" specification):
   a singular field tracks presence iff it is an extension, a message/group, a member of a
   oneof, a proto2 field, a proto3 field declared `optional`, or an editions field whose
   field_presence is not IMPLICIT. *)
Definition presence_rule (a : fattr) : bool :=
  negb (is_repeated (fa_label a)) &&
  (fa_ext a || fa_msg a || fa_oneof a ||
   match fa_syntax a with
   | SProto2 => true
   | SProto3 => fa_p3opt a
   | SEditions => negb (match fa_fp a with FPImplicit => true | _ => false end)
   end).

(* Well-formed attribute combinations (what protoc / protodesc accept). *)
Definition valid_attr (a : fattr) : bool :=
  match fa_syntax a with
  | SProto2 => negb (fa_p3opt a) && match fa_fp a with FPExplicit => true | _ => false end
  | SProto3 => match fa_fp a with FPImplicit => true | _ => false end
               && match fa_label a with LRequired => false | _ => true end
               && (negb (fa_p3opt a) || (match fa_label a with LOptional => true | _ => false end
                                          && negb (fa_oneof a)))
  | SEditions => negb (fa_p3opt a)
               && match fa_label a with LRequired => false | _ => true end
               && (negb (is_legacy_required (fa_fp a))
                   || (match fa_label a with LOptional => true | _ => false end
                       && negb (fa_oneof a) && negb (fa_ext a)))
  end
  && (negb (fa_oneof a) || match fa_label a with LOptional => true | _ => false end).

Definition all_syntax := [SProto2; SProto3; SEditions].
Definition all_label := [LOptional; LRequired; LRepeated].
Definition all_fp := [FPExplicit; FPImplicit; FPLegacyRequired].
Definition all_bool := [false; true].
Definition all_attrs : list fattr :=
  flat_map (fun s => flat_map (fun l => flat_map (fun o => flat_map (fun p =>
  flat_map (fun m => flat_map (fun e => map (fun f => mkFattr s l o p m e f) all_fp)
  all_bool) all_bool) all_bool) all_bool) all_label) all_syntax.

(* ------------------------------------------------------------------ *)
(** * 2. The opaque presence bitmap: an array of uint32 words *)

Definition u32 (x : N) : N := x mod 2^32.

(* 1 << (num % 32) in uint32 arithmetic *)
Definition pbit (num : N) : N := u32 (N.shiftl 1 (num mod 32)).
(* toElem: index of the word holding bit num *)
Definition pword (num : N) : N := num / 32.

(* Export.Present / SetPresent / SetPresentNonAtomic / ClearPresent on one word *)
Definition part_present (w num : N) : bool := 0 <? N.land w (pbit num).
Definition part_set (w num : N) : N := u32 (N.lor w (pbit num)).
Definition part_clear (w num : N) : N := N.ldiff w (pbit num).   (* old &^ bit *)

Definition bitmap := list N.

Fixpoint upd_nth (s : bitmap) (k : nat) (f : N -> N) : bitmap :=
  match s, k with
  | [], _ => []
  | w :: r, O => f w :: r
  | w :: r, S k' => w :: upd_nth r k' f
  end.

(* presence.Present etc.: toElem + the word operation.  An index beyond the array is a
   memory-safety violation in Go; the model makes it a no-op / false and every theorem
   has the hypothesis num < 32 * len. *)
Definition bm_present (s : bitmap) (num : N) : bool :=
  match nth_error s (N.to_nat (pword num)) with
  | Some w => part_present w num
  | None => false
  end.
Definition bm_set (s : bitmap) (num : N) : bitmap :=
  upd_nth s (N.to_nat (pword num)) (fun w => part_set w num).
Definition bm_clear (s : bitmap) (num : N) : bitmap :=
  upd_nth s (N.to_nat (pword num)) (fun w => part_clear w num).

(* AnyPresent(size): scans the first (size+31)/32 words *)
Fixpoint any_words (s : bitmap) (n : nat) {struct n} : bool :=
  match n, s with
  | O, _ => false
  | S n', w :: r => if 0 <? w then true else any_words r n'
  | S _, [] => false
  end.
Definition bm_any (s : bitmap) (size : N) : bool :=
  any_words s (N.to_nat (u32 (u32 (size + 31) / 32))).

(* bitmap operations of a history, as driven by the harness *)
Inductive bmop := BSet (i : N) | BSetNA (i : N) | BClear (i : N).
Definition bm_step (s : bitmap) (o : bmop) : bitmap :=
  match o with BSet i | BSetNA i => bm_set s i | BClear i => bm_clear s i end.
Definition bm_run (s : bitmap) (ops : list bmop) : bitmap := fold_left bm_step ops s.

(* abstraction: the finite set of present indices, as a membership predicate *)
Definition set_step (P : N -> bool) (o : bmop) : N -> bool :=
  match o with
  | BSet i | BSetNA i => fun j => (i =? j) || P j
  | BClear i => fun j => negb (i =? j) && P j
  end.
Definition set_run (P : N -> bool) (ops : list bmop) : N -> bool := fold_left set_step ops P.

(* presenceIndex (message_opaque.go): fields in declaration order; every field that is not
   a oneof member, and the last member of each oneof, takes an index.  A field is given as
   (in_oneof, is_last_member_of_its_oneof). *)
Fixpoint count_indices (fs : list (bool * bool)) : N :=
  match fs with
  | [] => 0
  | (inone, last) :: r => (if negb inone || last then 1 else 0) + count_indices r
  end.
(* (index of the field at position target, presenceSize) *)
Definition presence_index (fs : list (bool * bool)) (target : nat) : N * N :=
  (count_indices (firstn target fs), count_indices fs).

(* ------------------------------------------------------------------ *)
(** * 3. Has over operation histories, per field class *)

Inductive pval :=
| PVBool (b : bool)
| PVInt (n : N)                (* any integer or enum kind, as its 64-bit image *)
| PVF32 (bits : N) | PVF64 (bits : N)
| PVBytes (b : list byte).     (* string or bytes *)

(* Go: rv.Float() != 0 || math.Signbit(rv.Float()) on the IEEE bits of width w *)
Definition float_ne0 (w bits : N) : bool := negb (N.land bits (2^(w-1) - 1) =? 0).
Definition float_signbit (w bits : N) : bool := N.testbit bits (w-1).

Definition nonzero (v : pval) : bool :=
  match v with
  | PVBool b => b
  | PVInt n => negb (n =? 0)
  | PVF32 b => float_ne0 32 b || float_signbit 32 b
  | PVF64 b => float_ne0 64 b || float_signbit 64 b
  | PVBytes l => negb (Nat.eqb (length l) 0)
  end.

Definition zero_like (v : pval) : pval :=
  match v with
  | PVBool _ => PVBool false | PVInt _ => PVInt 0 | PVF32 _ => PVF32 0 | PVF64 _ => PVF64 0
  | PVBytes _ => PVBytes []
  end.

Inductive fclass :=
| FCExplicit     (* singular scalar with presence: *T / non-nil []byte / presence bit / dynamicpb entry *)
| FCImplicit     (* singular scalar without presence *)
| FCMessage      (* singular message or group *)
| FCList | FCMap.

Inductive pop :=
| OpSet (v : pval)          (* Set of a scalar; for FCMessage the value is ignored *)
| OpClear
| OpMutable                 (* Mutable (message: allocate; list/map: no change of contents) *)
| OpAppend (v : pval) | OpTruncate (n : nat) | OpSetList (vs : list pval)
| OpMapSet (k : N) (v : pval) | OpMapClear (k : N)
| OpGet.                    (* any read: Get/Has/Range *)

Inductive fstate :=
| StOpt (o : option pval)           (* FCExplicit, FCMessage (value irrelevant) *)
| StVal (v : pval)                  (* FCImplicit: the stored Go value *)
| StList (l : list pval)
| StMap (m : list (N * pval)).

Definition init_state (c : fclass) (zero : pval) : fstate :=
  match c with
  | FCExplicit | FCMessage => StOpt None
  | FCImplicit => StVal zero
  | FCList => StList []
  | FCMap => StMap []
  end.

Fixpoint map_del (m : list (N * pval)) (k : N) : list (N * pval) :=
  match m with
  | [] => []
  | (k', v) :: r => if k' =? k then map_del r k else (k', v) :: map_del r k
  end.
Definition map_put (m : list (N * pval)) (k : N) (v : pval) := (k, v) :: map_del m k.

(* Operations that do not apply to a class (they panic in Go and are never generated by the
   harness) leave the state unchanged. *)
Definition fstep (st : fstate) (o : pop) : fstate :=
  match st, o with
  | StOpt _, OpSet v => StOpt (Some v)
  | StOpt _, OpClear => StOpt None
  | StOpt None, OpMutable => StOpt (Some (PVBytes []))
  | StVal _, OpSet v => StVal v
  | StVal v, OpClear => StVal (zero_like v)
  | StList _, OpClear => StList []
  | StList l, OpAppend v => StList (l ++ [v])
  | StList l, OpTruncate n => StList (firstn n l)
  | StList _, OpSetList vs => StList vs
  | StMap _, OpClear => StMap []
  | StMap m, OpMapSet k v => StMap (map_put m k v)
  | StMap m, OpMapClear k => StMap (map_del m k)
  | _, _ => st
  end.

Definition fhas (st : fstate) : bool :=
  match st with
  | StOpt o => match o with Some _ => true | None => false end
  | StVal v => nonzero v
  | StList l => negb (Nat.eqb (length l) 0)
  | StMap m => negb (Nat.eqb (length m) 0)
  end.

Definition frun (st : fstate) (ops : list pop) : fstate := fold_left fstep ops st.

(* the Has result after every operation of a history *)
Fixpoint fhas_trace (st : fstate) (ops : list pop) : list bool :=
  match ops with
  | [] => []
  | o :: r => let st' := fstep st o in fhas st' :: fhas_trace st' r
  end.

(** The rule of the property text, read off the history alone. *)
(* explicit presence: the most recent Set/Clear/Mutable exists and is not a Clear *)
Fixpoint last_write (ops : list pop) (acc : option pop) : option pop :=
  match ops with
  | [] => acc
  | o :: r => last_write r (match o with OpSet _ | OpClear | OpMutable => Some o | _ => acc end)
  end.
Definition rule_explicit (ops : list pop) : bool :=
  match last_write ops None with Some OpClear | None => false | Some _ => true end.
(* implicit presence: the most recent Set/Clear is a Set of a non-zero value *)
Fixpoint last_setclear (ops : list pop) (acc : option pop) : option pop :=
  match ops with
  | [] => acc
  | o :: r => last_setclear r (match o with OpSet _ | OpClear => Some o | _ => acc end)
  end.
Definition rule_implicit (zero : pval) (ops : list pop) : bool :=
  match last_setclear ops None with Some (OpSet v) => nonzero v | Some _ => false | None => nonzero zero end.

(** The opaque representation of explicit-presence scalars: one shared bitmap plus a
    stored value per field (fieldInfoForScalarOpaque).  A message history is a list of
    (presence index, operation). *)
Record ostate := mkO { o_bits : bitmap; o_vals : N -> pval }.
Definition ostep (s : ostate) (io : N * pop) : ostate :=
  let '(i, o) := io in
  match o with
  | OpSet v => mkO (bm_set (o_bits s) i) (fun j => if j =? i then v else o_vals s j)
  | OpClear => mkO (bm_clear (o_bits s) i) (fun j => if j =? i then zero_like (o_vals s j) else o_vals s j)
  | OpMutable => mkO (bm_set (o_bits s) i) (o_vals s)    (* fieldInfoForMessageOpaque.mutable *)
  | _ => s
  end.
Definition orun (s : ostate) (h : list (N * pop)) : ostate := fold_left ostep h s.
Definition ohas (s : ostate) (i : N) : bool := bm_present (o_bits s) i.
(* the operations of a message history that concern field i *)
Definition ops_of (i : N) (h : list (N * pop)) : list pop :=
  map snd (filter (fun io => fst io =? i) h).

(* ------------------------------------------------------------------ *)
(** * 4. A minimal single-field binary codec for varint-kind scalars *)

(* state of the field as the encoder sees it *)
Definition enc_explicit (num : N) (st : option N) : list byte :=
  match st with
  | Some v => enc_varint (encode_tag num 0) ++ enc_varint v
  | None => []
  end.
(* the NoZero coders: appendUint64NoZero etc. *)
Definition enc_implicit (num : N) (v : N) : list byte :=
  if v =? 0 then [] else enc_varint (encode_tag num 0) ++ enc_varint v.

Definition enc_field (c : fclass) (num : N) (st : fstate) : list byte :=
  match c, st with
  | FCExplicit, StOpt (Some (PVInt v)) => enc_explicit num (Some v)
  | FCExplicit, StOpt (Some (PVBool b)) => enc_explicit num (Some (if b then 1 else 0))
  | FCImplicit, StVal (PVInt v) => enc_implicit num v
  | FCImplicit, StVal (PVBool b) => enc_implicit num (if b then 1 else 0)
  | _, _ => []
  end.

(* decoding a buffer that consists of varint fields only; fuel = number of bytes *)
Fixpoint dec_fields (fuel : nat) (num : N) (bs : list byte) (acc : option N) : result (option N) :=
  match fuel with
  | O => match bs with [] => Ok acc | _ => Err OutOfFuel end
  | S f =>
    match bs with
    | [] => Ok acc
    | _ =>
      match dec_varint bs with
      | Err e => Err e
      | Ok (t, r1) =>
        match dec_varint r1 with
        | Err e => Err e
        | Ok (v, r2) => dec_fields f num r2 (if (t =? encode_tag num 0) then Some v else acc)
        end
      end
    end
  end.
Definition dec_explicit (num : N) (bs : list byte) : result (option N) :=
  dec_fields (length bs) num bs None.
