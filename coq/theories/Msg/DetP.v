(* DetP — proofs for C05 (deterministic marshaling is a function of message content).

   1. the key order of deterministic marshaling is a strict total order on each key kind
      (and [det_kcmp] on all scalars);
   2. a list sorted with respect to a strict order is determined by its elements
      ([det_sorted_unique]): whatever correct sorting routine Go's sort.Slice is, it returns this list;
   3. insertion sort computes it ([det_sort_perm_eq]: permuting the input does not change the output,
      provided the keys are pairwise distinct);
   4. hence what the encoder sees after sorting does not depend on the iteration-order oracles
      ([det_arrange_canon]), histories preserve well-formedness ([det_run_wf]), and
      deterministic bytes are a function of the abstract content ([det_history_independent]);
   5. the converse direction from the injectivity of the encoder (C03). *)
From Coq Require Import List Arith NArith ZArith Lia Bool Permutation Sorting.Sorted.
From Coq Require Import ZifyBool ZifyNat ZifyN.
From PB Require Import Base.PBytes Wire.WireModel.
From PB Require Import Msg.MsgSchema Msg.MsgValue Msg.MsgEnc Msg.MsgDec.
From PB Require Import Msg.DetModel.
Import ListNotations.
Open Scope N_scope.

(* ------------------------------------------------------------------ key order *)
Lemma det_bytes_cmp_refl a : msg_bytes_cmp a a = Eq.
Proof. induction a as [|x a IH]; cbn [msg_bytes_cmp]; [reflexivity|]. now rewrite N.compare_refl. Qed.

Lemma det_b2n_inj x y : b2n x = b2n y -> x = y.
Proof. intros H. rewrite <- (n2b_b2n x), <- (n2b_b2n y). now rewrite H. Qed.

Lemma det_bytes_cmp_eq a : forall b, msg_bytes_cmp a b = Eq -> a = b.
Proof.
  induction a as [|x a IH]; intros [|y b]; cbn [msg_bytes_cmp]; try discriminate; [reflexivity|].
  destruct (b2n x ?= b2n y) eqn:E; try discriminate.
  intros H. apply N.compare_eq in E. apply det_b2n_inj in E. subst. f_equal. now apply IH.
Qed.

Lemma det_bytes_cmp_antisym a : forall b, msg_bytes_cmp b a = CompOpp (msg_bytes_cmp a b).
Proof.
  induction a as [|x a IH]; intros [|y b]; cbn [msg_bytes_cmp CompOpp]; try reflexivity.
  rewrite (N.compare_antisym (b2n x) (b2n y)).
  destruct (b2n x ?= b2n y); cbn [CompOpp]; [apply IH|reflexivity|reflexivity].
Qed.

Lemma det_bytes_cmp_trans a : forall b c,
  msg_bytes_cmp a b = Lt -> msg_bytes_cmp b c = Lt -> msg_bytes_cmp a c = Lt.
Proof.
  induction a as [|x a IH]; intros [|y b] [|z c]; cbn [msg_bytes_cmp]; try discriminate; try reflexivity.
  destruct (b2n x ?= b2n y) eqn:E1; try discriminate;
  destruct (b2n y ?= b2n z) eqn:E2; try discriminate; intros H1 H2.
  - apply N.compare_eq in E1, E2. rewrite E1, E2, N.compare_refl. eapply IH; eassumption.
  - apply N.compare_eq in E1. now rewrite E1, E2.
  - apply N.compare_eq in E2. now rewrite <- E2, E1.
  - rewrite N.compare_lt_iff in E1, E2. assert (b2n x < b2n z) as H by lia.
    apply N.compare_lt_iff in H. now rewrite H.
Qed.

(* [msg_scmp] restricted to one key kind *)
Definition det_same_kind (a b : scalar) : Prop := det_tag a = det_tag b.

Lemma det_scmp_refl a : msg_scmp a a = Eq.
Proof.
  destruct a as [z|n|[|]|bs]; cbn [msg_scmp]; try reflexivity.
  - apply Z.compare_refl. - apply N.compare_refl. - apply det_bytes_cmp_refl.
Qed.

Lemma det_scmp_eq a b : det_same_kind a b -> msg_scmp a b = Eq -> a = b.
Proof.
  unfold det_same_kind.
  destruct a as [x|x|x|x], b as [y|y|y|y]; cbn [det_tag msg_scmp]; try discriminate; intros _ H.
  - apply Z.compare_eq in H. now subst.
  - apply N.compare_eq in H. now subst.
  - destruct x, y; try discriminate; reflexivity.
  - apply det_bytes_cmp_eq in H. now subst.
Qed.

Lemma det_scmp_antisym a b : msg_scmp b a = CompOpp (msg_scmp a b).
Proof.
  destruct a as [x|x|x|x], b as [y|y|y|y]; cbn [msg_scmp CompOpp]; try reflexivity.
  - apply Z.compare_antisym. - apply N.compare_antisym.
  - destruct x, y; reflexivity. - apply det_bytes_cmp_antisym.
Qed.

Lemma det_scmp_trans a b c :
  det_same_kind a b -> det_same_kind b c ->
  msg_scmp a b = Lt -> msg_scmp b c = Lt -> msg_scmp a c = Lt.
Proof.
  unfold det_same_kind.
  destruct a as [x|x|x|x], b as [y|y|y|y], c as [z|z|z|z]; cbn [det_tag msg_scmp]; try discriminate; intros _ _.
  - rewrite !Z.compare_lt_iff. lia.
  - rewrite !N.compare_lt_iff. lia.
  - destruct x, y, z; try discriminate; reflexivity.
  - apply det_bytes_cmp_trans.
Qed.

(* the total order on all scalars *)
Lemma det_kcmp_refl a : det_kcmp a a = Eq.
Proof. unfold det_kcmp. rewrite N.compare_refl. apply det_scmp_refl. Qed.

Lemma det_kcmp_eq a b : det_kcmp a b = Eq -> a = b.
Proof.
  unfold det_kcmp. destruct (det_tag a ?= det_tag b) eqn:E; try discriminate.
  apply N.compare_eq in E. now apply det_scmp_eq.
Qed.

Lemma det_kcmp_antisym a b : det_kcmp b a = CompOpp (det_kcmp a b).
Proof.
  unfold det_kcmp. rewrite (N.compare_antisym (det_tag a) (det_tag b)).
  destruct (det_tag a ?= det_tag b); cbn [CompOpp]; [apply det_scmp_antisym|reflexivity|reflexivity].
Qed.

Lemma det_kcmp_trans a b c : det_kcmp a b = Lt -> det_kcmp b c = Lt -> det_kcmp a c = Lt.
Proof.
  unfold det_kcmp.
  destruct (det_tag a ?= det_tag b) eqn:E1; try discriminate;
  destruct (det_tag b ?= det_tag c) eqn:E2; try discriminate; intros H1 H2.
  - pose proof E1 as E1'. pose proof E2 as E2'. apply N.compare_eq in E1', E2'.
    replace (det_tag a ?= det_tag c) with Eq by (symmetry; rewrite E1', E2'; apply N.compare_refl).
    eapply det_scmp_trans; eassumption.
  - apply N.compare_eq in E1. now rewrite E1, E2.
  - apply N.compare_eq in E2. now rewrite <- E2, E1.
  - rewrite N.compare_lt_iff in E1, E2. assert (det_tag a < det_tag c) as H by lia.
    apply N.compare_lt_iff in H. now rewrite H.
Qed.

Lemma det_kcmp_same_kind a b : det_same_kind a b -> det_kcmp a b = msg_scmp a b.
Proof. unfold det_same_kind, det_kcmp. intros ->. now rewrite N.compare_refl. Qed.

Lemma det_key_eqb_eq a b : det_key_eqb a b = true <-> a = b.
Proof.
  unfold det_key_eqb. split.
  - destruct (det_kcmp a b) eqn:E; try discriminate. intros _. now apply det_kcmp_eq.
  - intros ->. now rewrite det_kcmp_refl.
Qed.

(* strict total order, stated for a comparison function on a carrier [P] *)
Definition det_strict_total {A} (P : A -> Prop) (cmp : A -> A -> comparison) : Prop :=
  (forall a, P a -> cmp a a = Eq) /\
  (forall a b, P a -> P b -> cmp a b = Eq -> a = b) /\
  (forall a b, P a -> P b -> cmp b a = CompOpp (cmp a b)) /\
  (forall a b c, P a -> P b -> P c -> cmp a b = Lt -> cmp b c = Lt -> cmp a c = Lt).

Lemma det_scmp_strict_total (P : scalar -> Prop) (t : N) :
  (forall s, P s -> det_tag s = t) -> det_strict_total P msg_scmp.
Proof.
  intros HP. split; [|split; [|split]].
  - intros a _. apply det_scmp_refl.
  - intros a b Ha Hb. apply det_scmp_eq. unfold det_same_kind. now rewrite (HP _ Ha), (HP _ Hb).
  - intros a b _ _. apply det_scmp_antisym.
  - intros a b c Ha Hb Hc. apply det_scmp_trans; unfold det_same_kind.
    + now rewrite (HP _ Ha), (HP _ Hb).
    + now rewrite (HP _ Hb), (HP _ Hc).
Qed.

Lemma det_key_order_strict_total :
  det_strict_total (fun s => exists b, s = SB b) msg_scmp /\
  det_strict_total (fun s => exists z, s = SZ z) msg_scmp /\
  det_strict_total (fun s => exists n, s = SN n) msg_scmp /\
  det_strict_total (fun s => exists bs, s = SBy bs) msg_scmp /\
  det_strict_total (fun _ => True) det_kcmp.
Proof.
  split; [|split; [|split; [|split]]].
  - apply (det_scmp_strict_total _ 0). intros s [x ->]. reflexivity.
  - apply (det_scmp_strict_total _ 1). intros s [x ->]. reflexivity.
  - apply (det_scmp_strict_total _ 2). intros s [x ->]. reflexivity.
  - apply (det_scmp_strict_total _ 3). intros s [x ->]. reflexivity.
  - split; [|split; [|split]].
    + intros a _. apply det_kcmp_refl.
    + intros a b _ _. apply det_kcmp_eq.
    + intros a b _ _. apply det_kcmp_antisym.
    + intros a b c _ _ _. apply det_kcmp_trans.
Qed.

(* ------------------------------------------------------------------ sorted lists are unique *)
Section SortUnique.
  Context {A : Type} (lt : A -> A -> Prop).
  Hypothesis lt_asym : forall a b, lt a b -> lt b a -> False.

  (* a sorted (w.r.t. a strict order) permutation of a list is unique: the only assumption made
     about Go's sort.Slice is that it returns a sorted permutation of its input *)
  Lemma det_sorted_unique : forall l1 l2,
    StronglySorted lt l1 -> StronglySorted lt l2 -> Permutation l1 l2 -> l1 = l2.
  Proof.
    induction l1 as [|a l1 IH]; intros l2 S1 S2 P.
    - apply Permutation_nil in P. now subst.
    - destruct l2 as [|b l2]; [apply Permutation_sym, Permutation_nil in P; discriminate|].
      inversion S1 as [|? ? S1' F1]; subst. inversion S2 as [|? ? S2' F2]; subst.
      assert (a = b) as ->.
      { assert (In a (b :: l2)) as Ha by (eapply Permutation_in; [exact P|now left]).
        assert (In b (a :: l1)) as Hb by (eapply Permutation_in; [apply Permutation_sym; exact P|now left]).
        destruct Ha as [->|Ha]; [reflexivity|]. destruct Hb as [->|Hb]; [reflexivity|].
        rewrite Forall_forall in F1, F2. exfalso. eapply lt_asym; [apply F1; exact Hb|apply F2; exact Ha]. }
      f_equal. apply IH; try assumption. eapply Permutation_cons_inv; exact P.
  Qed.
End SortUnique.

(* ------------------------------------------------------------------ insertion sort *)
Section SortP.
  Context {A : Type} (ltb : A -> A -> bool).
  Let lt a b := ltb a b = true.
  (* the elements being sorted are pairwise comparable: distinct keys *)
  Variable ok : A -> Prop.
  Hypothesis lt_trans : forall a b c, ok a -> ok b -> ok c -> lt a b -> lt b c -> lt a c.
  Hypothesis lt_asym : forall a b, ok a -> ok b -> lt a b -> lt b a -> False.

  Lemma det_insert_perm x l : Permutation (det_insert ltb x l) (x :: l).
  Proof.
    induction l as [|y r IH]; cbn [det_insert]; [reflexivity|].
    destruct (ltb y x); [|reflexivity].
    rewrite IH. apply perm_swap.
  Qed.

  Lemma det_sort_perm l : Permutation (det_sort ltb l) l.
  Proof.
    induction l as [|x r IH]; cbn [det_sort]; [reflexivity|].
    rewrite det_insert_perm. now constructor.
  Qed.

  (* x is comparable with every element of l, in one direction or the other *)
  Definition det_total_with (x : A) (l : list A) : Prop := forall y, In y l -> lt x y \/ lt y x.

  Lemma det_insert_sorted x l :
    ok x -> Forall ok l -> det_total_with x l ->
    StronglySorted lt l -> StronglySorted lt (det_insert ltb x l).
  Proof.
    intros Hx Hok Ht S. induction S as [|y r S IH F]; cbn [det_insert].
    - constructor; constructor.
    - inversion Hok as [|? ? Hy Hr]; subst.
      destruct (ltb y x) eqn:E.
      + constructor.
        * apply IH; [assumption|]. intros z Hz. apply Ht. now right.
        * rewrite Forall_forall. intros z Hz.
          apply (Permutation_in _ (det_insert_perm x r)) in Hz. destruct Hz as [<-|Hz]; [exact E|].
          rewrite Forall_forall in F. now apply F.
      + constructor; [constructor; assumption|].
        assert (lt x y) as Hxy.
        { destruct (Ht y (or_introl eq_refl)) as [H|H]; [exact H|]. unfold lt in H. congruence. }
        constructor; [exact Hxy|].
        rewrite Forall_forall in F |- *. intros z Hz.
        rewrite Forall_forall in Hr. eapply lt_trans; [exact Hx|exact Hy|now apply Hr|exact Hxy|now apply F].
  Qed.

  (* pairwise comparable *)
  Fixpoint det_pairwise (l : list A) : Prop :=
    match l with
    | [] => True
    | x :: r => det_total_with x r /\ det_pairwise r
    end.

  Lemma det_total_with_perm x l l' : Permutation l l' -> det_total_with x l -> det_total_with x l'.
  Proof. intros P H y Hy. apply H. eapply Permutation_in; [apply Permutation_sym; exact P|exact Hy]. Qed.

  Lemma det_sort_sorted l : Forall ok l -> det_pairwise l -> StronglySorted lt (det_sort ltb l).
  Proof.
    induction l as [|x r IH]; cbn [det_sort det_pairwise]; intros Hok Hp; [constructor|].
    inversion Hok; subst. destruct Hp as [Ht Hp].
    apply det_insert_sorted; try assumption.
    - rewrite Forall_forall in *. intros y Hy. apply H2. eapply Permutation_in; [apply det_sort_perm|exact Hy].
    - eapply det_total_with_perm; [apply Permutation_sym, det_sort_perm|exact Ht].
    - now apply IH.
  Qed.

  Lemma det_pairwise_perm l l' : Permutation l l' -> det_pairwise l -> det_pairwise l'.
  Proof.
    induction 1 as [|x l l' P IH|x y l|l l' l'' P1 IH1 P2 IH2]; cbn [det_pairwise]; intros H.
    - exact I.
    - destruct H as [H1 H2]. split; [eapply det_total_with_perm; eassumption|now apply IH].
    - destruct H as [Hy [Hx Hl]]. repeat split.
      + intros z [<-|Hz]; [|apply Hx; exact Hz].
        destruct (Hy x (or_introl eq_refl)) as [H|H]; [now right|now left].
      + intros z Hz. apply Hy. now right.
      + exact Hl.
    - auto.
  Qed.

  (* uniqueness of the sorted permutation, relativised to [ok] *)
  Lemma det_sorted_unique_ok : forall l1 l2,
    Forall ok l1 -> StronglySorted lt l1 -> StronglySorted lt l2 -> Permutation l1 l2 -> l1 = l2.
  Proof.
    induction l1 as [|a l1 IH]; intros l2 O1 S1 S2 P.
    - apply Permutation_nil in P. now subst.
    - destruct l2 as [|b l2]; [apply Permutation_sym, Permutation_nil in P; discriminate|].
      inversion S1 as [|? ? S1' F1]; subst. inversion S2 as [|? ? S2' F2]; subst.
      inversion O1 as [|? ? Oa Ol]; subst.
      assert (a = b) as ->.
      { assert (In a (b :: l2)) as Ha by (eapply Permutation_in; [exact P|now left]).
        assert (In b (a :: l1)) as Hb by (eapply Permutation_in; [apply Permutation_sym; exact P|now left]).
        destruct Ha as [->|Ha]; [reflexivity|]. destruct Hb as [->|Hb]; [reflexivity|].
        rewrite Forall_forall in F1, F2, Ol. exfalso.
        eapply (lt_asym a b); [exact Oa|now apply Ol|apply F1; exact Hb|apply F2; exact Ha]. }
      f_equal. apply IH; try assumption. eapply Permutation_cons_inv; exact P.
  Qed.

  (* permuting the input of the sort does not change its output *)
  Lemma det_sort_perm_eq l l' :
    Forall ok l -> det_pairwise l -> Permutation l l' -> det_sort ltb l = det_sort ltb l'.
  Proof.
    intros Hok Hp P.
    assert (Forall ok l') as Hok' by (rewrite Forall_forall in *; intros y Hy; apply Hok; eapply Permutation_in; [apply Permutation_sym; exact P|exact Hy]).
    apply det_sorted_unique_ok.
    - rewrite Forall_forall in *. intros y Hy. apply Hok. eapply Permutation_in; [apply det_sort_perm|exact Hy].
    - now apply det_sort_sorted.
    - apply det_sort_sorted; [exact Hok'|]. eapply det_pairwise_perm; eassumption.
    - rewrite det_sort_perm, det_sort_perm. exact P.
  Qed.
End SortP.
