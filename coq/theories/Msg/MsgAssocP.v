(* MsgAssocP — the sorted association list of fields: get/set/delete, and the fact that
   inserting the bindings of a strictly sorted list in any order rebuilds that list
   (the encoder emits fields in order.LegacyFieldOrder, the canonical value is number-sorted). *)
From Coq Require Import List Arith NArith ZArith Lia Bool Permutation.
From Coq Require Import ZifyBool ZifyNat ZifyN.
From PB Require Import Base.PBytes Msg.MsgSchema Msg.MsgValue Msg.MsgValid.
Import ListNotations.
Open Scope N_scope.

Definition msg_keys (fs : fields) : list N := map fst fs.

Fixpoint msg_sorted (lo : N) (fs : fields) : Prop :=
  match fs with
  | [] => True
  | p :: r => lo < fst p /\ msg_sorted (fst p) r
  end.

Lemma msg_keys_sorted_spec lo fs : msg_keys_sorted lo fs = true <-> msg_sorted lo fs.
Proof.
  revert lo. induction fs as [|[k vs] r IH]; intros lo; cbn [msg_keys_sorted msg_sorted fst]; [tauto|].
  rewrite andb_true_iff, IH. split; intros [H1 H2]; split; try assumption; lia.
Qed.

Lemma msg_sorted_weaken lo lo' fs : lo' <= lo -> msg_sorted lo fs -> msg_sorted lo' fs.
Proof. destruct fs as [|p r]; cbn [msg_sorted]; [trivial|]. intros H [H1 H2]. split; [lia|exact H2]. Qed.

Lemma msg_sorted_keys_gt lo fs : msg_sorted lo fs -> forall k, In k (msg_keys fs) -> lo < k.
Proof.
  revert lo. induction fs as [|p r IH]; intros lo Hs k Hin; [contradiction|].
  destruct Hs as [H1 H2]. destruct Hin as [<-|Hin]; [exact H1|].
  specialize (IH _ H2 k Hin). lia.
Qed.

Lemma msg_sorted_nodup lo fs : msg_sorted lo fs -> NoDup (msg_keys fs).
Proof.
  revert lo. induction fs as [|p r IH]; intros lo Hs; [constructor|].
  destruct Hs as [H1 H2]. cbn [msg_keys map]. constructor; [|eapply IH; exact H2].
  intros Hin. pose proof (msg_sorted_keys_gt _ _ H2 _ Hin). lia.
Qed.

(* ---------- get / set / delete ---------- *)
Lemma msg_fget_fset_same fs k vs : msg_fget (msg_fset fs k vs) k = vs.
Proof.
  induction fs as [|[k0 v0] r IH]; cbn [msg_fset msg_fget].
  - now rewrite N.eqb_refl.
  - destruct (k <? k0) eqn:E1; [cbn [msg_fget]; now rewrite N.eqb_refl|].
    destruct (k =? k0) eqn:E2; cbn [msg_fget]; rewrite E2; [reflexivity|exact IH].
Qed.

Lemma msg_fset_fset_same fs k a b : msg_fset (msg_fset fs k a) k b = msg_fset fs k b.
Proof.
  induction fs as [|[k0 v0] r IH]; cbn [msg_fset].
  - replace (k <? k) with false by lia. now rewrite N.eqb_refl.
  - destruct (k <? k0) eqn:E1.
    + cbn [msg_fset]. replace (k <? k) with false by lia. now rewrite N.eqb_refl.
    + destruct (k =? k0) eqn:E2; cbn [msg_fset]; rewrite E1, E2; [reflexivity|now rewrite IH].
Qed.

Lemma msg_fget_notin fs k : ~ In k (msg_keys fs) -> msg_fget fs k = [].
Proof.
  induction fs as [|[k0 v0] r IH]; intros H; [reflexivity|]. cbn [msg_fget].
  cbn [msg_keys map fst In] in H. destruct (k =? k0) eqn:E; [exfalso; apply H; left; lia|].
  apply IH. intros Hin. apply H. right. exact Hin.
Qed.

Lemma msg_fdel_notin fs k : ~ In k (msg_keys fs) -> msg_fdel fs k = fs.
Proof.
  induction fs as [|[k0 v0] r IH]; intros H; [reflexivity|]. cbn [msg_fdel].
  cbn [msg_keys map fst In] in H. destruct (k =? k0) eqn:E; [exfalso; apply H; left; lia|].
  f_equal. apply IH. intros Hin. apply H. right. exact Hin.
Qed.

Lemma msg_keys_fset fs k vs x : In x (msg_keys (msg_fset fs k vs)) <-> x = k \/ In x (msg_keys fs).
Proof.
  induction fs as [|[k0 v0] r IH]; cbn [msg_fset msg_keys map fst In].
  - intuition.
  - destruct (k <? k0) eqn:E1; [cbn [map fst In]; intuition|].
    destruct (k =? k0) eqn:E2; cbn [map fst In].
    + assert (k = k0) by lia. subst. intuition.
    + fold (msg_keys (msg_fset r k vs)). fold (msg_keys r). rewrite IH. intuition.
Qed.

Lemma msg_fset_sorted lo fs k vs : msg_sorted lo fs -> lo < k -> msg_sorted lo (msg_fset fs k vs).
Proof.
  revert lo. induction fs as [|[k0 v0] r IH]; intros lo Hs Hk; cbn [msg_fset].
  - cbn. auto.
  - destruct Hs as [H1 H2]. cbn [fst] in *.
    destruct (k <? k0) eqn:E1; [cbn [msg_sorted fst]; repeat split; try lia; exact H2|].
    destruct (k =? k0) eqn:E2; cbn [msg_sorted fst].
    + split; [exact H1|exact H2].
    + split; [exact H1|]. apply IH; [exact H2|lia].
Qed.

Lemma msg_fset_perm fs k vs : ~ In k (msg_keys fs) -> Permutation (msg_fset fs k vs) ((k, vs) :: fs).
Proof.
  induction fs as [|[k0 v0] r IH]; intros H; cbn [msg_fset]; [reflexivity|].
  cbn [msg_keys map fst In] in H.
  destruct (k <? k0); [reflexivity|].
  destruct (k =? k0) eqn:E2; [exfalso; apply H; left; lia|].
  rewrite IH by (intros Hin; apply H; right; exact Hin). apply perm_swap.
Qed.

(* two strictly sorted lists with the same bindings are equal *)
Lemma msg_sorted_perm_eq : forall a b lo lo',
  msg_sorted lo a -> msg_sorted lo' b -> Permutation a b -> a = b.
Proof.
  induction a as [|[k vs] a IH]; intros b lo lo' Ha Hb Hp.
  - apply Permutation_nil in Hp. now subst.
  - destruct b as [|[k' vs'] b]; [apply Permutation_sym, Permutation_nil in Hp; discriminate|].
    destruct Ha as [Ha1 Ha2], Hb as [Hb1 Hb2]. cbn [fst] in *.
    assert (Hin1 : In (k, vs) ((k', vs') :: b)) by (eapply Permutation_in; [exact Hp|left; reflexivity]).
    assert (Hin2 : In (k', vs') ((k, vs) :: a)) by (eapply Permutation_in; [apply Permutation_sym; exact Hp|left; reflexivity]).
    assert (Hk : k = k').
    { destruct Hin1 as [E|Hin1]; [now inversion E|].
      destruct Hin2 as [E|Hin2]; [now inversion E|].
      pose proof (msg_sorted_keys_gt _ _ Hb2 k (in_map fst _ _ Hin1)).
      pose proof (msg_sorted_keys_gt _ _ Ha2 k' (in_map fst _ _ Hin2)). cbn [fst] in *. lia. }
    subst k'.
    assert (Hv : vs = vs').
    { destruct Hin1 as [E|Hin1]; [now inversion E|].
      pose proof (msg_sorted_keys_gt _ _ Hb2 k (in_map fst _ _ Hin1)). cbn [fst] in *. lia. }
    subst vs'. f_equal. apply (IH b k k Ha2 Hb2). eapply Permutation_cons_inv. exact Hp.
Qed.

(* ---------- inserting all bindings, in any order ---------- *)
Definition msg_ins_all (l : fields) (acc : fields) : fields :=
  fold_left (fun a p => msg_fset a (fst p) (snd p)) l acc.

Lemma msg_ins_all_app l1 l2 acc : msg_ins_all (l1 ++ l2) acc = msg_ins_all l2 (msg_ins_all l1 acc).
Proof. unfold msg_ins_all. apply fold_left_app. Qed.

Lemma msg_ins_all_props : forall l acc lo,
  NoDup (msg_keys l ++ msg_keys acc) -> msg_sorted lo acc -> (forall k, In k (msg_keys l) -> lo < k) ->
  msg_sorted lo (msg_ins_all l acc) /\ Permutation (msg_ins_all l acc) (l ++ acc).
Proof.
  induction l as [|[k vs] l IH]; intros acc lo Hnd Hs Hlo.
  - cbn. split; [exact Hs|reflexivity].
  - cbn [msg_ins_all fold_left fst snd]. fold (msg_ins_all l (msg_fset acc k vs)).
    cbn [msg_keys map fst app] in Hnd. inversion Hnd as [|? ? Hnotin Hnd']; subst.
    assert (Hk : ~ In k (msg_keys acc)) by (intros Hin; apply Hnotin, in_or_app; right; exact Hin).
    destruct (IH (msg_fset acc k vs) lo) as [H1 H2].
    + (* NoDup *)
      eapply Permutation_NoDup; [|exact Hnd].
      etransitivity; [apply Permutation_middle|].
      apply Permutation_app_head. unfold msg_keys.
      rewrite (Permutation_map fst (msg_fset_perm acc k vs Hk)). reflexivity.
    + apply msg_fset_sorted; [exact Hs|]. apply Hlo. left. reflexivity.
    + intros x Hx. apply Hlo. right. exact Hx.
    + split; [exact H1|].
      rewrite H2. rewrite (msg_fset_perm acc k vs Hk). cbn [app].
      apply Permutation_sym, Permutation_middle.
Qed.
