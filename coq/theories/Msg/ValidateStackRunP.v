(* ValidateStackRunP — the induction over whole runs that Msg/ValidateStackP.v left open:
   the explicit-stack state machine [vm_run] (the algorithm of MessageInfo.validate) started on
   the initial stack computes what the recursive-descent validator [vr_msg] computes, for every
   schema table without dangling type indices, every recursion limit, type and input.

   Stack invariant.  A frame [mkVS ty e tail mask] on top of [below], with [bs] still to read at
   machine depth [d] and global flag [A && i], is a pending call of the recursive form:
     ty = VtMessage/VtGroup tid  <->  [vr_loop] of type tid at depth budget [S d] with group number
                                      [e], required numbers seen [mask], accumulator [i];
     ty = VtMap ..               <->  [vr_entry] at budget [d] with "value seen" = 2 in [mask].
   [vs_runs]: if that call returns [VOk i' q' rest], the machine needs n steps
   (n + 2|rest| <= 2|bs| + 1) to pop the frame and then continues on [below] with the bytes the
   frame left -- [tail] for a length-delimited frame (e = 0), [rest] for a group -- at depth
   [S d] with flag [A && i']; if it returns [VBad] the machine answers Invalid within 2|bs| + 1
   steps.  Push = recursive call ([vs_compose]), pop = return ([vs_run_pop_nil], [vs_run_pop_end]).
   The fuel 2|bs| + 2 of [vm_validate_stack] is the bound for the initial frame plus the final
   look at the empty stack. *)
From Coq Require Import List Arith NArith ZArith Lia Bool.
From Coq Require Import ZifyBool ZifyNat ZifyN.
From PB Require Import Base.PBytes Wire.WireModel Wire.VarintP Wire.ScanP.
From PB Require Import Msg.MsgSchema Msg.MsgValue Msg.MsgUtf8 Msg.MsgDec Msg.ValidateMsgModel Msg.ValidateMsgP.
From PB Require Import Msg.DecTotalP Msg.InitSoundP Msg.ValidateStackP.
Ltac Zify.zify_post_hook ::= Z.div_mod_to_equations.
Import ListNotations.
Open Scope N_scope.

Definition vs_next (e : N) (tail rest : list byte) : list byte := if e =? 0 then tail else rest.

Lemma vs_dec_tag_pos b num typ r : dec_tag b = Ok (num, typ, r) -> 1 <= num.
Proof.
  unfold dec_tag. destruct (dec_varint b) as [[x r0]|e]; [|discriminate].
  destruct (decode_tag x) as [[n t]|]; [|discriminate].
  destruct (n <? 1) eqn:E; [discriminate|]. intros H; inversion H; subst. lia.
Qed.

Lemma vs_loop_unfold reqof md vsub vsub2 grp x g' bs seen i q :
  vr_loop reqof md vsub vsub2 grp (x :: g') bs seen i q =
  match bs with
  | [] => if grp =? 0 then VOk (i && vr_req_ok md seen) q [] else VBad
  | _ =>
    match dec_tag bs with
    | Err _ => VBad
    | Ok (num, typ, r) =>
      if msg_max_num <? num then VBad
      else if typ =? 4 then (if num =? grp then VOk (i && vr_req_ok md seen) q r else VBad)
      else
        match vr_step reqof md vsub vsub2 num typ r with
        | VOk i1 q1 r' =>
          vr_loop reqof md vsub vsub2 grp g' r' (if vr_marks md num typ then num :: seen else seen) (i && i1) (q || q1)
        | e => e
        end
    end
  end.
Proof. destruct bs; reflexivity. Qed.

(* ---------- single machine steps, in terms of [vs_runs] ---------- *)
Section Steps.
  Variable S : schema.

  Lemma vs_bad_tag st below b d A i next : b <> [] -> vs_otag b = None ->
    vs_runs S st below b d A i VBad next.
  Proof.
    intros Hb Ho. exists 1%nat. split; [lia|]. intros fuel. cbn [Nat.add].
    rewrite vs_run_cons by exact Hb. rewrite Ho. reflexivity.
  Qed.

  Lemma vs_run_pop_nil st below d A i q (next : list byte -> list byte) :
    vs_end st = 0 -> next [] = vs_tail st ->
    vs_runs S st below [] d A i (VOk (i && vm_pop_ok S st) q []) next.
  Proof.
    intros He Hn. exists 1%nat. split; [cbn [length]; lia|]. split; [lia|]. intros fuel. cbn [Nat.add].
    rewrite vs_run_nil, He, Hn. cbn [N.eqb]. rewrite andb_assoc. reflexivity.
  Qed.

  Lemma vs_run_bad_nil st below d A i next : vs_end st <> 0 ->
    vs_runs S st below [] d A i VBad next.
  Proof.
    intros He. exists 1%nat. split; [lia|]. intros fuel. cbn [Nat.add].
    rewrite vs_run_nil. apply N.eqb_neq in He. rewrite He. reflexivity.
  Qed.

  Lemma vs_run_pop_end st below b d A i q num b1 (next : list byte -> list byte) :
    b <> [] -> vs_otag b = Some (num, 4, b1) -> (length b1 < length b)%nat ->
    vs_end st = num -> next b1 = b1 ->
    vs_runs S st below b d A i (VOk (i && vm_pop_ok S st) q b1) next.
  Proof.
    intros Hb Ho Hl He Hn. exists 1%nat. split; [lia|]. split; [lia|]. intros fuel. cbn [Nat.add].
    rewrite vs_run_cons by exact Hb. rewrite Ho, Hn. cbn [N.eqb Pos.eqb]. rewrite He, N.eqb_refl, andb_assoc. reflexivity.
  Qed.

  Lemma vs_run_bad_end st below b d A i num b1 next :
    b <> [] -> vs_otag b = Some (num, 4, b1) -> vs_end st <> num ->
    vs_runs S st below b d A i VBad next.
  Proof.
    intros Hb Ho He. exists 1%nat. split; [lia|]. intros fuel. cbn [Nat.add].
    rewrite vs_run_cons by exact Hb. rewrite Ho. cbn [N.eqb Pos.eqb]. apply N.eqb_neq in He. rewrite He. reflexivity.
  Qed.

  Lemma vs_run_invalid st below b d A i num wtyp b1 next :
    b <> [] -> vs_otag b = Some (num, wtyp, b1) -> (wtyp =? 4) = false ->
    vm_field_action (fst (vm_info S st num)) num wtyp b1 = AInvalid ->
    vs_runs S st below b d A i VBad next.
  Proof.
    intros Hb Ho H4 Ha. exists 1%nat. split; [lia|]. intros fuel. cbn [Nat.add].
    rewrite vs_run_cons by exact Hb. rewrite Ho, H4, Ha. reflexivity.
  Qed.

  Lemma vs_run_push0 st below b A i num wtyp b1 nt e tail content next :
    b <> [] -> vs_otag b = Some (num, wtyp, b1) -> (wtyp =? 4) = false ->
    vm_field_action (fst (vm_info S st num)) num wtyp b1 = APush nt e tail content ->
    vs_runs S st below b O A i VBad next.
  Proof.
    intros Hb Ho H4 Ha. exists 1%nat. split; [lia|]. intros fuel. cbn [Nat.add].
    rewrite vs_run_cons by exact Hb. rewrite Ho, H4, Ha. reflexivity.
  Qed.

  Lemma vs_run_cont st below b d A i num wtyp b1 b' res next :
    b <> [] -> vs_otag b = Some (num, wtyp, b1) -> (wtyp =? 4) = false ->
    vm_field_action (fst (vm_info S st num)) num wtyp b1 = ACont b' ->
    (length b1 < length b)%nat -> (length b' <= length b1)%nat ->
    vs_runs S (vm_mark S st num wtyp) below b' d A i res next ->
    vs_runs S st below b d A i res next.
  Proof.
    intros Hb Ho H4 Ha Hl1 Hl2 Hr.
    assert (Step : forall f init, vm_run S (Datatypes.S f) (st :: below) b d init =
                                  vm_run S f (vm_mark S st num wtyp :: below) b' d init).
    { intros f init. rewrite vs_run_cons by exact Hb. rewrite Ho, H4, Ha. reflexivity. }
    destruct res as [i' q' rest| |]; [| |exact I].
    - destruct Hr as (n & Hn & Hlr & Hr). exists (Datatypes.S n). split; [lia|]. split; [lia|].
      intros fuel. cbn [Nat.add]. rewrite Step. apply Hr.
    - destruct Hr as (n & Hn & Hr). exists (Datatypes.S n). split; [lia|].
      intros fuel. cbn [Nat.add]. rewrite Step. apply Hr.
  Qed.

  (* push = call, pop = return *)
  Lemma vs_compose st below b d' A i num wtyp b1 nt e tail content rs
        (cont : bool -> bool -> list byte -> vres) res next :
    b <> [] -> vs_otag b = Some (num, wtyp, b1) -> (wtyp =? 4) = false ->
    vm_field_action (fst (vm_info S st num)) num wtyp b1 = APush nt e tail content ->
    (length b1 < length b)%nat -> (length content + length tail <= length b1)%nat ->
    vs_runs S (mkVS nt e tail []) (vm_mark S st num wtyp :: below) content d' (A && i) true rs (vs_next e tail) ->
    (forall i1 q1 rest1, rs = VOk i1 q1 rest1 ->
       vs_runs S (vm_mark S st num wtyp) below (vs_next e tail rest1) (Datatypes.S d') A (i && i1)
               (cont i1 q1 rest1) next) ->
    res = match rs with VOk i1 q1 rest1 => cont i1 q1 rest1 | VBad => VBad | VFuel => VFuel end ->
    vs_runs S st below b (Datatypes.S d') A i res next.
  Proof.
    intros Hb Ho H4 Ha Hl1 Hl2 Hsub Hcont ->.
    assert (Step : forall f init, vm_run S (Datatypes.S f) (st :: below) b (Datatypes.S d') init =
                     vm_run S f (mkVS nt e tail [] :: vm_mark S st num wtyp :: below) content d' init).
    { intros f init. rewrite vs_run_cons by exact Hb. rewrite Ho, H4, Ha. reflexivity. }
    destruct rs as [i1 q1 rest1| |]; [| |exact I].
    - specialize (Hcont i1 q1 rest1 eq_refl).
      destruct Hsub as (n1 & Hn1 & Hlr1 & Hsub). rewrite andb_true_r in Hsub.
      assert (Hnx : (length (vs_next e tail rest1) <= length b1)%nat /\
                    (n1 + 2 * length (vs_next e tail rest1) <= 2 * length b1 + 1)%nat).
      { unfold vs_next. destruct (e =? 0); lia. }
      destruct (cont i1 q1 rest1) as [i' q' rest| |]; [| |exact I].
      + destruct Hcont as (n2 & Hn2 & Hlr2 & Hcont). exists (Datatypes.S (n1 + n2)).
        split; [lia|]. split; [lia|]. intros fuel. cbn [Nat.add]. rewrite Step.
        rewrite <- Nat.add_assoc, Hsub, <- andb_assoc. apply Hcont.
      + destruct Hcont as (n2 & Hn2 & Hcont). exists (Datatypes.S (n1 + n2)).
        split; [lia|]. intros fuel. cbn [Nat.add]. rewrite Step.
        rewrite <- Nat.add_assoc, Hsub, <- andb_assoc. apply Hcont.
    - destruct Hsub as (n1 & Hn1 & Hsub). rewrite andb_true_r in Hsub. exists (Datatypes.S n1).
      split; [lia|]. intros fuel. cbn [Nat.add]. rewrite Step. apply Hsub.
  Qed.
End Steps.

(* ---------- validation types and the schema ---------- *)
Lemma vs_vtype_msg fd tid : vm_field_vtype fd = VtMessage tid -> f_kind fd = KMsg tid.
Proof.
  unfold vm_field_vtype. destruct (f_card fd); try discriminate.
  all: destruct (f_kind fd) as [sk|t|t]; try discriminate; try (intros H; inversion H; reflexivity).
  all: destruct sk; cbn [vm_scalar_vtype sk_wt card_repeated]; try destruct (f_utf8 fd); discriminate.
Qed.
Lemma vs_vtype_grp fd tid : vm_field_vtype fd = VtGroup tid -> f_kind fd = KGrp tid.
Proof.
  unfold vm_field_vtype. destruct (f_card fd); try discriminate.
  all: destruct (f_kind fd) as [sk|t|t]; try discriminate; try (intros H; inversion H; reflexivity).
  all: destruct sk; cbn [vm_scalar_vtype sk_wt card_repeated]; try destruct (f_utf8 fd); discriminate.
Qed.
Lemma vs_vtype_map fd kk kutf8 vdef : f_card fd = CMap kk kutf8 vdef ->
  vm_field_vtype fd = VtMap (vs_kt kk kutf8) (vs_vt (f_kind fd) (f_utf8 fd)) (vs_vmi (f_kind fd)).
Proof. intros H. unfold vm_field_vtype. rewrite H. reflexivity. Qed.

Lemma vs_info_map S st kk kutf8 vk vutf8 num :
  vs_typ st = VtMap (vs_kt kk kutf8) (vs_vt vk vutf8) (vs_vmi vk) ->
  fst (vm_info S st num) = vs_entry_vt kk kutf8 vk vutf8 num /\
  forall typ, vm_mark S st num typ =
    mkVS (vs_typ st) (vs_end st) (vs_tail st)
         (if (num =? 2) && vm_compat (vs_vt vk vutf8) typ then num :: vs_mask st else vs_mask st).
Proof.
  intros Ht. unfold vm_mark, vm_info, vs_entry_vt. rewrite Ht.
  destruct (num =? 1) eqn:E1.
  - assert (E2 : (num =? 2) = false) by lia. rewrite E2. cbn [fst andb]. split; [reflexivity|].
    intros typ. destruct st; cbn in Ht |- *; rewrite Ht; reflexivity.
  - destruct (num =? 2) eqn:E2; cbn [fst andb]; (split; [reflexivity|]); intros typ.
    + destruct (vm_compat (vs_vt vk vutf8) typ); [reflexivity|]. destruct st; cbn in Ht |- *; rewrite Ht; reflexivity.
    + destruct st; cbn in Ht |- *; rewrite Ht; reflexivity.
Qed.

(* ---------- the induction ---------- *)
Section Run.
  Variable S : schema.
  Hypothesis Hwf : dt_schema_wf S.

  Definition vs_P_msg (d : nat) : Prop :=
    forall tid md ty, nth_error S tid = Some md -> (ty = VtMessage tid \/ ty = VtGroup tid) ->
    forall grp tail below g bs seen i q A,
      vs_runs S (mkVS ty grp tail seen) below bs d A i
              (vr_loop (vr_reqof S) md (vr_msg S d) (vp_vsub2 S d) grp g bs seen i q) (vs_next grp tail).

  Definition vs_P_entry (d : nat) : Prop :=
    forall kk kutf8 vk vutf8, match vk with KMsg t => nth_error S t <> None | _ => True end ->
    forall tail below g bs sv i q mask A,
      match vk with KMsg _ => sv = vr_seen mask 2 | _ => True end ->
      vs_runs S (mkVS (VtMap (vs_kt kk kutf8) (vs_vt vk vutf8) (vs_vmi vk)) 0 tail mask) below bs d A i
              (vr_entry (vr_reqof S) g kk kutf8 vk vutf8 (vr_msg S d) bs sv i q) (vs_next 0 tail).

  Lemma vs_entry_of_msg d : (forall d', d = Datatypes.S d' -> vs_P_msg d') -> vs_P_entry d.
  Proof.
    intros IHm kk kutf8 vk vutf8 Hvk tail below g.
    induction g as [|x g' IH]; intros bs sv i q mask A Hsv; [exact I|].
    rewrite vs_entry_unfold.
    set (st := mkVS (VtMap (vs_kt kk kutf8) (vs_vt vk vutf8) (vs_vmi vk)) 0 tail mask).
    destruct bs as [|b0 t].
    { (* end of the entry: PopState *)
      assert (Hp : vm_pop_ok S st = negb (match vk with KMsg tid => vr_reqof S tid | _ => false end) || sv).
      { unfold vm_pop_ok, st. cbn [vs_typ vs_mask]. destruct vk as [sk|tid|tid]; cbn [vs_vmi]; try reflexivity.
        rewrite Hsv. reflexivity. }
      rewrite <- Hp. apply vs_run_pop_nil; reflexivity. }
    assert (Hb : b0 :: t <> []) by discriminate.
    destruct (dec_tag (b0 :: t)) as [[[num typ] r]|e] eqn:Et.
    2: { apply vs_bad_tag; [exact Hb|]. unfold vs_otag. rewrite Et. reflexivity. }
    destruct (msg_max_num <? num) eqn:Em.
    { apply vs_bad_tag; [exact Hb|]. unfold vs_otag. rewrite Et, Em. reflexivity. }
    pose proof (vs_otag_some _ _ _ _ Et Em) as Ho.
    pose proof (vp_dec_tag_len _ _ _ _ Et) as Hl.
    pose proof (vs_dec_tag_pos _ _ _ _ Et) as Hpos.
    destruct (vs_info_map S st kk kutf8 vk vutf8 num eq_refl) as [Hinfo Hmark].
    destruct (typ =? 4) eqn:H4.
    { (* an end-group tag in a map entry: the machine compares with endGroup = 0, the recursive
         form skips it as a value, which fails *)
      apply N.eqb_eq in H4. subst typ.
      assert (Hb4 : vs_entry_body (vr_reqof S) g' kk kutf8 vk vutf8 (vr_msg S d) num 4 r sv i q = VBad).
      { unfold vs_entry_body. cbn [N.eqb Pos.eqb andb]. rewrite !andb_false_r. cbn [andb].
        unfold vr_skip. rewrite parse_val_eq. reflexivity. }
      rewrite Hb4. eapply vs_run_bad_end; [exact Hb|exact Ho|]. cbn [vs_end st]. unfold st. cbn [vs_end]. lia. }
    pose proof (vs_entry_action (vr_reqof S) g' kk kutf8 vk vutf8 (vr_msg S d) num typ r sv i q) as Hact.
    pose proof (vs_action_bound (vs_entry_vt kk kutf8 vk vutf8 num) num typ r) as Hbound.
    rewrite <- Hinfo in Hact, Hbound.
    destruct (vm_field_action (fst (vm_info S st num)) num typ r) as [|r'|nt e tail' content] eqn:Ea.
    - rewrite Hact. eapply vs_run_invalid; eassumption.
    - rewrite Hact. eapply vs_run_cont; try eassumption.
      rewrite Hmark. cbn [vs_typ vs_end vs_tail vs_mask st]. unfold st. cbn [vs_typ vs_end vs_tail vs_mask].
      apply IH.
      (* the value-seen flag is unchanged by a field that is skipped *)
      destruct vk as [sk|tid|tid]; try exact I.
      destruct ((num =? 2) && vm_compat (vs_vt (KMsg tid) vutf8) typ) eqn:Ec; [|exact Hsv].
      (* num = 2, typ = 2 with a message value would have been a push *)
      exfalso. cbn [vs_vt vm_compat] in Ec. assert (num = 2 /\ typ = 2) as [-> ->] by lia.
      rewrite Hinfo in Ea. unfold vs_entry_vt in Ea. cbn [N.eqb Pos.eqb vs_vt] in Ea.
      rewrite vs_action_len in Ea. destruct (dec_bytes r) as [[v b3]|]; discriminate.
    - destruct Hact as (tid & -> & -> & -> & -> & -> & Hact). rewrite Hact.
      destruct Hbound as [Hbound _].
      destruct d as [|d'].
      { cbn [vr_msg]. eapply vs_run_push0; eassumption. }
      specialize (IHm d' eq_refl).
      rewrite vp_vr_unfold. cbv beta iota in Hvk.
      destruct (nth_error S tid) as [md'|] eqn:Emd; [|congruence].
      eapply vs_compose with
          (rs := vr_loop (vr_reqof S) md' (vr_msg S d') (vp_vsub2 S d') 0 (x00 :: content) content [] true false)
          (cont := fun i1 q1 _ => vr_entry (vr_reqof S) g' kk kutf8 (KMsg tid) vutf8
                                       (vr_msg S (Datatypes.S d')) tail' true (i && i1) (q || q1));
        try eassumption.
      + apply (IHm tid md' (VtMessage tid) Emd (or_introl eq_refl)).
      + intros i1 q1 rest1 _. cbn [vs_next N.eqb].
        rewrite Hmark. unfold st. cbn [vs_typ vs_end vs_tail vs_mask vs_vt vm_compat N.eqb Pos.eqb andb].
        apply IH. reflexivity.
      + reflexivity.
  Qed.

  Lemma vs_msg_of_sub d :
    (forall d', d = Datatypes.S d' -> vs_P_msg d' /\ vs_P_entry d') -> vs_P_msg d.
  Proof.
    intros IHd tid md ty Hmd Hty grp tail below g.
    assert (Hnth : nth tid S [] = md) by (apply nth_error_nth; exact Hmd).
    assert (HinS : In md S) by (eapply nth_error_In; exact Hmd).
    induction g as [|x g' IH]; intros bs seen i q A; [exact I|].
    rewrite vs_loop_unfold.
    set (st := mkVS ty grp tail seen).
    assert (Hst : vs_typ st = VtMessage tid \/ vs_typ st = VtGroup tid) by exact Hty.
    assert (Hp : vm_pop_ok S st = vr_req_ok md seen).
    { unfold vm_pop_ok, st. cbn [vs_typ vs_mask]. destruct Hty as [-> | ->]; rewrite Hnth; reflexivity. }
    destruct bs as [|b0 t].
    { destruct (grp =? 0) eqn:Eg.
      - rewrite <- Hp. apply vs_run_pop_nil; [cbn [vs_end st]; unfold st; cbn [vs_end]; lia|].
        unfold vs_next. rewrite Eg. reflexivity.
      - apply vs_run_bad_nil. unfold st. cbn [vs_end]. lia. }
    assert (Hb : b0 :: t <> []) by discriminate.
    destruct (dec_tag (b0 :: t)) as [[[num typ] r]|e] eqn:Et.
    2: { apply vs_bad_tag; [exact Hb|]. unfold vs_otag. rewrite Et. reflexivity. }
    destruct (msg_max_num <? num) eqn:Em.
    { apply vs_bad_tag; [exact Hb|]. unfold vs_otag. rewrite Et, Em. reflexivity. }
    pose proof (vs_otag_some _ _ _ _ Et Em) as Ho.
    pose proof (vp_dec_tag_len _ _ _ _ Et) as Hl.
    pose proof (vs_dec_tag_pos _ _ _ _ Et) as Hpos.
    destruct (vs_info_msg S st tid md num Hst Hnth) as [Hinfo Hmark].
    destruct (typ =? 4) eqn:H4.
    { apply N.eqb_eq in H4. subst typ. destruct (num =? grp) eqn:Eg.
      - apply N.eqb_eq in Eg. subst grp. rewrite <- Hp.
        eapply vs_run_pop_end; [exact Hb|exact Ho|exact Hl|reflexivity|].
        unfold vs_next. replace (num =? 0) with false by lia. reflexivity.
      - eapply vs_run_bad_end; [exact Hb|exact Ho|]. unfold st. cbn [vs_end]. lia. }
    pose proof (vs_step_action (vr_reqof S) md (vr_msg S d) (vp_vsub2 S d) num typ r) as Hrel.
    pose proof (vs_action_bound (vs_vt_of md num) num typ r) as Hbound.
    rewrite <- Hinfo in Hrel, Hbound.
    assert (Hst' : vm_mark S st num typ = mkVS ty grp tail (if vr_marks md num typ then num :: seen else seen)).
    { rewrite Hmark. reflexivity. }
    destruct (vm_field_action (fst (vm_info S st num)) num typ r) as [|r'|nt e tail' content] eqn:Ea.
    - cbn [vs_step_rel] in Hrel. rewrite Hrel. eapply vs_run_invalid; eassumption.
    - cbn [vs_step_rel] in Hrel. destruct Hrel as (q0 & ->). rewrite andb_true_r.
      eapply vs_run_cont; try eassumption. rewrite Hst'. apply IH.
    - destruct Hbound as [Hbound Hnt].
      (* the pushed type comes from a field of md: its type index is not dangling *)
      assert (Hfd : exists fd, msg_find_field md num = Some fd /\ nt = vm_field_vtype fd).
      { rewrite Hinfo in Hnt. unfold vs_vt_of in Hnt. destruct (msg_find_field md num) as [fd|]; [eauto|].
        subst nt. cbn [vs_step_rel] in Hrel. contradiction. }
      destruct Hfd as (fd & Hfind & Hntfd).
      pose proof (Hwf md fd HinS (vp_find_field_in _ _ _ Hfind)) as Hwfd.
      destruct nt as [|tid'|tid'|kt vt' vmi| | | | | | | |]; cbn [vs_step_rel] in Hrel; try contradiction.
      + (* a sub-message *)
        destruct Hrel as (-> & Hrel). rewrite Hrel.
        destruct d as [|d'].
        { cbn [vr_msg]. eapply vs_run_push0; eassumption. }
        destruct (IHd d' eq_refl) as [IHm _].
        rewrite vp_vr_unfold. symmetry in Hntfd. apply vs_vtype_msg in Hntfd. rewrite Hntfd in Hwfd.
        destruct (nth_error S tid') as [md'|] eqn:Emd; [|congruence].
        eapply vs_compose with
            (rs := vr_loop (vr_reqof S) md' (vr_msg S d') (vp_vsub2 S d') 0 (x00 :: content) content [] true false)
            (cont := fun i1 q1 _ =>
            vr_loop (vr_reqof S) md (vr_msg S (Datatypes.S d')) (vp_vsub2 S (Datatypes.S d')) grp g' tail'
                    (if vr_marks md num typ then num :: seen else seen) (i && i1) (q || q1));
          try eassumption.
        * apply (IHm tid' md' (VtMessage tid') Emd (or_introl eq_refl)).
        * intros i1 q1 rest1 _. cbn [vs_next N.eqb]. rewrite Hst'. apply IH.
        * match goal with |- _ = match ?X with VOk _ _ _ => _ | _ => _ end => destruct X end; reflexivity.
      + (* a group *)
        destruct Hrel as (-> & -> & -> & Hrel). rewrite Hrel.
        destruct d as [|d'].
        { cbn [vr_msg]. eapply vs_run_push0; eassumption. }
        destruct (IHd d' eq_refl) as [IHm _].
        rewrite vp_vr_unfold. symmetry in Hntfd. apply vs_vtype_grp in Hntfd. rewrite Hntfd in Hwfd.
        destruct (nth_error S tid') as [md'|] eqn:Emd; [|congruence].
        eapply vs_compose with
            (rs := vr_loop (vr_reqof S) md' (vr_msg S d') (vp_vsub2 S d') num (x00 :: r) r [] true false)
            (cont := fun i1 q1 rest1 =>
            vr_loop (vr_reqof S) md (vr_msg S (Datatypes.S d')) (vp_vsub2 S (Datatypes.S d')) grp g' rest1
                    (if vr_marks md num typ then num :: seen else seen) (i && i1) (q || q1));
          try eassumption.
        * apply (IHm tid' md' (VtGroup tid') Emd (or_intror eq_refl)).
        * intros i1 q1 rest1 _. unfold vs_next. replace (num =? 0) with false by lia. rewrite Hst'. apply IH.
        * reflexivity.
      + (* a map entry *)
        destruct Hrel as (-> & fd' & kk & kutf8 & vdef & Hfind' & Hcard & Hrel). rewrite Hrel.
        rewrite Hfind in Hfind'. inversion Hfind'; subst fd'.
        destruct d as [|d'].
        { cbn [vp_vsub2]. eapply vs_run_push0; eassumption. }
        destruct (IHd d' eq_refl) as [_ IHe]. cbn [vp_vsub2].
        rewrite (vs_vtype_map fd kk kutf8 vdef Hcard) in Hntfd. inversion Hntfd; subst kt vt' vmi.
        eapply vs_compose with
            (rs := vr_entry (vr_reqof S) (x00 :: content) kk kutf8 (f_kind fd) (f_utf8 fd) (vr_msg S d') content
                            false true false)
            (cont := fun i1 q1 _ =>
            vr_loop (vr_reqof S) md (vr_msg S (Datatypes.S d')) (vp_vsub2 S (Datatypes.S d')) grp g' tail'
                    (if vr_marks md num typ then num :: seen else seen) (i && i1) (q || q1));
          try eassumption.
        * apply IHe.
          -- destruct (f_kind fd); try exact I. exact Hwfd.
          -- destruct (f_kind fd); try exact I. reflexivity.
        * intros i1 q1 rest1 _. cbn [vs_next N.eqb]. rewrite Hst'. apply IH.
        * match goal with |- _ = match ?X with VOk _ _ _ => _ | _ => _ end => destruct X end; reflexivity.
  Qed.

  Lemma vs_P_all d : vs_P_msg d /\ vs_P_entry d.
  Proof.
    induction d as [|d [IHm IHe]].
    - split; [apply vs_msg_of_sub|apply vs_entry_of_msg]; intros d' H; discriminate.
    - split.
      + apply vs_msg_of_sub. intros d' H. inversion H; subst d'. split; assumption.
      + apply vs_entry_of_msg. intros d' H. inversion H; subst d'. assumption.
  Qed.
End Run.

(* ---------- whole runs ---------- *)
Definition vs_proj (r : N * bool * bool) : N * bool := (fst (fst r), snd (fst r)).

Theorem vs_stack_eq_recursive S limit tid bs :
  dt_schema_wf S -> vm_validate_stack S limit tid bs = vs_proj (vm_validate S limit tid bs).
Proof.
  intros Hwf. unfold vm_validate_stack, vm_validate, vs_proj.
  destruct limit as [|d]; [reflexivity|].
  pose proof (vp_validate_cases False S (fun f => match f with end) (Datatypes.S d) tid bs) as Hnf.
  rewrite vp_vr_unfold in Hnf |- *.
  destruct (nth_error S tid) as [md|] eqn:Emd; [|reflexivity].
  destruct (vs_P_all S Hwf d) as [Pm _].
  pose proof (Pm tid md (VtMessage tid) Emd (or_introl eq_refl) 0 [] [] (x00 :: bs) bs [] true false true) as H.
  destruct (vr_loop (vr_reqof S) md (vr_msg S d) (vp_vsub2 S d) 0 (x00 :: bs) bs [] true false) as [i q rest| |];
    [| |contradiction].
  - destruct H as (n & Hn & _ & H).
    replace (2 * length bs + 2)%nat with (n + Datatypes.S (2 * length bs + 1 - n))%nat by lia.
    cbn [andb] in H. rewrite H. reflexivity.
  - destruct H as (n & Hn & H).
    replace (2 * length bs + 2)%nat with (n + (2 * length bs + 2 - n))%nat by lia.
    cbn [andb] in H. rewrite H. reflexivity.
Qed.

(* the hypothesis is needed: with a dangling type index the recursive form fails ([nth_error]),
   the machine validates the payload against an empty table ([nth]) *)
Lemma vs_stack_neq_dangling :
  exists S limit tid bs, vm_validate_stack S limit tid bs <> vs_proj (vm_validate S limit tid bs).
Proof.
  exists [[mkF 1 (KMsg 5) COpt None false false false]], 5%nat, 0%nat, [x0a; x00].
  vm_compute. discriminate.
Qed.

(* consequences for the machine itself *)
Corollary vs_stack_total S limit tid bs : dt_schema_wf S -> fst (vm_validate_stack S limit tid bs) <> 0.
Proof. intros Hwf. rewrite vs_stack_eq_recursive by exact Hwf. apply vp_validate_total. Qed.

Corollary vs_stack_invalid_sound S limit tid bs :
  dt_schema_wf S -> vp_fl1_free S -> fst (vm_validate_stack S limit tid bs) = 2 ->
  exists e, msg_decode false S limit tid bs = DErr e.
Proof. intros Hwf Hfl. rewrite vs_stack_eq_recursive by exact Hwf. apply vp_invalid_sound. exact Hfl. Qed.

(* Valid by the machine: Unmarshal succeeds, or this is the FWB4 boundary (depth error) *)
Corollary vs_stack_valid_cases S limit tid bs i :
  dt_schema_wf S -> vm_validate_stack S limit tid bs = (3, i) ->
  (exists v, msg_decode false S limit tid bs = DOk v) \/ msg_decode false S limit tid bs = DErr DDepth.
Proof.
  intros Hwf. rewrite vs_stack_eq_recursive by exact Hwf.
  destruct (vm_validate S limit tid bs) as [[s i'] q] eqn:E. unfold vs_proj. cbn [fst snd].
  intros H. inversion H; subst s i'. destruct q.
  - right. eapply vp_valid_quirk. exact E.
  - left. eapply vp_valid_sound. exact E.
Qed.

Corollary vs_stack_initialized_sound S limit tid bs v :
  dt_schema_wf S -> is_schema_ok S ->
  vm_validate_stack S limit tid bs = (3, true) -> msg_decode false S limit tid bs = DOk v ->
  msg_check_init S tid v = true.
Proof.
  intros Hwf Hok. rewrite vs_stack_eq_recursive by exact Hwf.
  destruct (vm_validate S limit tid bs) as [[s i'] q] eqn:E. unfold vs_proj. cbn [fst snd].
  intros H Hd. inversion H; subst s i'. eapply is_validate_initialized_sound; eassumption.
Qed.
