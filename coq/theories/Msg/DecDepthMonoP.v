(* DecDepthMonoP — the eager decoder is monotone in the recursion limit: a decode that succeeds
   with limit d succeeds with every limit d' >= d, with the same value (both paths).
   This is piece (1) of "forcing a lazy field gives the eagerly decoded value" (C17): Unmarshal
   validated the field with the depth that was left, forcing decodes it with
   DefaultRecursionLimit (lazyUnmarshalOptions.depth). *)
From Coq Require Import List Arith NArith ZArith Lia Bool.
From PB Require Import Base.PBytes Wire.WireModel.
From PB Require Import Msg.MsgSchema Msg.MsgValue Msg.MsgUtf8 Msg.MsgDec Msg.DecTotalP.
Import ListNotations.
Open Scope N_scope.

Definition ddm_le (a b : msg_dec_t) : Prop :=
  forall tid grp g bs acc x, a tid grp g bs acc = DOk x -> b tid grp g bs acc = DOk x.
Definition ddm_le2 (a b : option msg_dec_t) : Prop :=
  match a, b with
  | None, _ => True
  | Some a', Some b' => ddm_le a' b'
  | Some _, None => False
  end.

Lemma ddm_entry_mono kk kutf8 vk vutf8 (dm dm' : list byte -> value -> dres value) :
  (forall p v x, dm p v = DOk x -> dm' p v = DOk x) ->
  forall g bs key val x,
    msg_dec_entry g kk kutf8 vk vutf8 dm bs key val = DOk x ->
    msg_dec_entry g kk kutf8 vk vutf8 dm' bs key val = DOk x.
Proof.
  intros Hdm. induction g as [|c g IH]; intros bs key val x; cbn [msg_dec_entry]; [discriminate|].
  destruct bs as [|b0 t0] eqn:Ebs; [exact (fun H => H)|]. rewrite <- Ebs. clear Ebs.
  destruct (dec_tag bs) as [[[num typ] r]|e]; [|discriminate].
  destruct (msg_max_num <? num); [discriminate|].
  destruct (parse_val default_dep num typ r) as [[w r']|e]; [|discriminate].
  destruct (num =? 1).
  { destruct (msg_dec_scalar kk kutf8 w) as [[s|e]|]; try discriminate; apply IH. }
  destruct (num =? 2); [|apply IH].
  destruct vk as [sk|tid|tid].
  - destruct (msg_dec_scalar sk vutf8 w) as [[s|e]|]; try discriminate; apply IH.
  - destruct w; try apply IH.
    destruct (dm b val) as [v'|e] eqn:E; [|discriminate]. rewrite (Hdm _ _ _ E). apply IH.
  - apply IH.
Qed.

Lemma ddm_whole_mono (dm dm' : msg_dec_t) tid payload old m :
  ddm_le dm dm' -> msg_whole dm tid payload old = DOk m -> msg_whole dm' tid payload old = DOk m.
Proof.
  intros H. unfold msg_whole.
  destruct (dm tid 0 (x00 :: payload) payload old) as [[m0 r0]|e] eqn:E; [|discriminate].
  rewrite (H _ _ _ _ _ _ E). exact (fun H => H).
Qed.

Lemma ddm_step_mono slow md dsub dsub' dsub2 dsub2' tagraw num typ r acc x :
  ddm_le dsub dsub' -> ddm_le2 dsub2 dsub2' ->
  msg_step slow md dsub dsub2 tagraw num typ r acc = DOk x ->
  msg_step slow md dsub' dsub2' tagraw num typ r acc = DOk x.
Proof.
  intros H1 H2. unfold msg_step.
  destruct (msg_find_field md num) as [fd|]; [|exact (fun H => H)].
  assert (Hplain :
    match f_kind fd with
    | KMsg tid =>
        if typ =? 2
        then match dec_bytes r with
             | Ok (payload, r') =>
                 match msg_whole dsub tid payload (msg_old_sub fd (fst acc)) with
                 | DOk m => DOk (msg_store_sub md fd m (fst acc), snd acc, r')
                 | DErr e => DErr e
                 end
             | Err _ => DErr DParse
             end
        else msg_unknown tagraw num typ r acc
    | KGrp tid =>
        if typ =? 3
        then if slow
             then match consume_group num r with
                  | Ok (Some content, n) =>
                      match msg_whole dsub tid content (msg_old_sub fd (fst acc)) with
                      | DOk m => DOk (msg_store_sub md fd m (fst acc), snd acc, skipn (N.to_nat n) r)
                      | DErr e => DErr e
                      end
                  | Ok (None, _) => DErr DFuel
                  | Err _ => DErr DParse
                  end
             else match dsub tid num (x00 :: r) r (msg_old_sub fd (fst acc)) with
                  | DOk (m, r') => DOk (msg_store_sub md fd m (fst acc), snd acc, r')
                  | DErr e => DErr e
                  end
        else msg_unknown tagraw num typ r acc
    | KS sk =>
        if typ =? sk_wt sk
        then match parse_val 0 num typ r with
             | Ok (w, r') =>
                 match msg_dec_scalar sk (msg_field_utf8 slow fd) w with
                 | Some (DOk s) =>
                     DOk (if card_repeated (f_card fd) then msg_append_field fd [VS s] (fst acc)
                          else msg_set_field md fd (VS s) (fst acc), snd acc, r')
                 | Some (DErr e) => DErr e
                 | None => msg_unknown tagraw num typ r acc
                 end
             | Err _ => DErr DParse
             end
        else if (typ =? 2) && msg_packable sk && card_repeated (f_card fd)
             then match dec_bytes r with
                  | Ok (payload, r') =>
                      match msg_dec_packed (x00 :: payload) sk payload [] with
                      | DOk vs => DOk (msg_append_field fd vs (fst acc), snd acc, r')
                      | DErr e => DErr e
                      end
                  | Err _ => DErr DParse
                  end
             else msg_unknown tagraw num typ r acc
    end = DOk x ->
    match f_kind fd with
    | KMsg tid =>
        if typ =? 2
        then match dec_bytes r with
             | Ok (payload, r') =>
                 match msg_whole dsub' tid payload (msg_old_sub fd (fst acc)) with
                 | DOk m => DOk (msg_store_sub md fd m (fst acc), snd acc, r')
                 | DErr e => DErr e
                 end
             | Err _ => DErr DParse
             end
        else msg_unknown tagraw num typ r acc
    | KGrp tid =>
        if typ =? 3
        then if slow
             then match consume_group num r with
                  | Ok (Some content, n) =>
                      match msg_whole dsub' tid content (msg_old_sub fd (fst acc)) with
                      | DOk m => DOk (msg_store_sub md fd m (fst acc), snd acc, skipn (N.to_nat n) r)
                      | DErr e => DErr e
                      end
                  | Ok (None, _) => DErr DFuel
                  | Err _ => DErr DParse
                  end
             else match dsub' tid num (x00 :: r) r (msg_old_sub fd (fst acc)) with
                  | DOk (m, r') => DOk (msg_store_sub md fd m (fst acc), snd acc, r')
                  | DErr e => DErr e
                  end
        else msg_unknown tagraw num typ r acc
    | KS sk =>
        if typ =? sk_wt sk
        then match parse_val 0 num typ r with
             | Ok (w, r') =>
                 match msg_dec_scalar sk (msg_field_utf8 slow fd) w with
                 | Some (DOk s) =>
                     DOk (if card_repeated (f_card fd) then msg_append_field fd [VS s] (fst acc)
                          else msg_set_field md fd (VS s) (fst acc), snd acc, r')
                 | Some (DErr e) => DErr e
                 | None => msg_unknown tagraw num typ r acc
                 end
             | Err _ => DErr DParse
             end
        else if (typ =? 2) && msg_packable sk && card_repeated (f_card fd)
             then match dec_bytes r with
                  | Ok (payload, r') =>
                      match msg_dec_packed (x00 :: payload) sk payload [] with
                      | DOk vs => DOk (msg_append_field fd vs (fst acc), snd acc, r')
                      | DErr e => DErr e
                      end
                  | Err _ => DErr DParse
                  end
             else msg_unknown tagraw num typ r acc
    end = DOk x).
  { destruct (f_kind fd) as [sk|tid|tid]; [exact (fun H => H)| |].
    - destruct (typ =? 2); [|exact (fun H => H)].
      destruct (dec_bytes r) as [[payload r']|e]; [|discriminate].
      destruct (msg_whole dsub tid payload (msg_old_sub fd (fst acc))) as [m|e] eqn:E; [|discriminate].
      rewrite (ddm_whole_mono _ _ _ _ _ _ H1 E). exact (fun H => H).
    - destruct (typ =? 3); [|exact (fun H => H)]. destruct slow.
      + destruct (consume_group num r) as [[[content|] n]|e]; try discriminate.
        destruct (msg_whole dsub tid content (msg_old_sub fd (fst acc))) as [m|e] eqn:E; [|discriminate].
        rewrite (ddm_whole_mono _ _ _ _ _ _ H1 E). exact (fun H => H).
      + destruct (dsub tid num (x00 :: r) r (msg_old_sub fd (fst acc))) as [[m r']|e] eqn:E; [|discriminate].
        rewrite (H1 _ _ _ _ _ _ E). exact (fun H => H). }
  destruct (f_card fd) as [| | | | |kk kutf8 vdef] eqn:Ec; try exact Hplain.
  clear Hplain.
  destruct dsub2 as [dm2|]; [|discriminate]. destruct dsub2' as [dm2'|]; [|contradiction]. cbn [ddm_le2] in H2.
  destruct (typ =? 2); [|exact (fun H => H)].
  destruct (dec_bytes r) as [[payload r']|e]; [|discriminate]. cbv zeta.
  match goal with |- match msg_dec_entry ?g ?a ?b ?c ?d ?dm ?p ?k ?v with _ => _ end = _ -> _ =>
    destruct (msg_dec_entry g a b c d dm p k v) as [[key v0]|e] eqn:E; [|discriminate] end.
  eapply ddm_entry_mono in E.
  - rewrite E. exact (fun H => H).
  - intros p v y. cbv beta. destruct (f_kind fd) as [sk|tid|tid]; try discriminate.
    destruct (msg_whole dm2 tid p (msg_macc_of v)) as [m|e] eqn:Ew; [|discriminate].
    rewrite (ddm_whole_mono _ _ _ _ _ _ H2 Ew). exact (fun H => H).
Qed.

Lemma ddm_succ slow S : forall d, ddm_le (msg_decode_msg slow S d) (msg_decode_msg slow S (Datatypes.S d)).
Proof.
  induction d as [d IHd] using lt_wf_ind. destruct d as [|d0]; intros tid grp g bs acc x.
  { cbn [msg_decode_msg]. discriminate. }
  destruct (nth_error S tid) as [md|] eqn:Hmd.
  2: { cbn [msg_decode_msg]. rewrite Hmd. discriminate. }
  revert bs acc. induction g as [|c g IH]; intros bs acc.
  { cbn [msg_decode_msg]. rewrite Hmd. discriminate. }
  rewrite (dt_dm_unfold slow S d0 tid grp md c g bs acc Hmd).
  rewrite (dt_dm_unfold slow S (Datatypes.S d0) tid grp md c g bs acc Hmd).
  destruct bs as [|b0 t0] eqn:Ebs; [exact (fun H => H)|]. rewrite <- Ebs. clear Ebs.
  destruct (dec_tag bs) as [[[num typ] r]|e]; [|discriminate].
  destruct (msg_max_num <? num); [discriminate|].
  destruct ((typ =? 4) && negb slow); [exact (fun H => H)|]. cbv zeta.
  destruct (msg_step slow md (msg_decode_msg slow S d0) (dt_dsub2 slow S d0) _ num typ r acc) as [[acc' r']|e] eqn:Es;
    [|discriminate].
  erewrite ddm_step_mono; [| | |exact Es].
  - apply IH.
  - apply IHd. lia.
  - destruct d0 as [|d1]; cbn [dt_dsub2 ddm_le2]; [exact I|]. apply IHd. lia.
Qed.

Lemma ddm_mono slow S d d' : (d <= d')%nat -> ddm_le (msg_decode_msg slow S d) (msg_decode_msg slow S d').
Proof.
  induction 1 as [|d' _ IH]; [intros tid grp g bs acc x H; exact H|].
  intros tid grp g bs acc x H. apply ddm_succ. apply IH. exact H.
Qed.

(* proto.Unmarshal / Merge: raising RecursionLimit never changes a successful decode *)
Theorem ddm_decode_into_mono slow S limit limit' tid bs old v :
  (limit <= limit')%nat ->
  msg_decode_into slow S limit tid bs old = DOk v -> msg_decode_into slow S limit' tid bs old = DOk v.
Proof.
  intros Hle. unfold msg_decode_into.
  destruct (msg_decode_msg slow S limit tid 0 (x00 :: bs) bs (msg_macc_of old)) as [[m r]|e] eqn:E; [|discriminate].
  rewrite (ddm_mono slow S limit limit' Hle _ _ _ _ _ _ E). exact (fun H => H).
Qed.

Theorem ddm_decode_mono slow S limit limit' tid bs v :
  (limit <= limit')%nat ->
  msg_decode slow S limit tid bs = DOk v -> msg_decode slow S limit' tid bs = DOk v.
Proof. apply ddm_decode_into_mono. Qed.
