(* MsgDec — the merging binary decoder of the message codec model.  Definitions only.

   One model, two modes:
     slow = false  internal/impl/decode.go unmarshalPointerEager + codec_field.go/codec_map.go/
                   codec_gen.go (table-driven fast path of generated messages)
     slow = true   proto/decode.go unmarshalMessageSlow (reflection path: dynamicpb)
   The modes differ in: the tag bytes kept for an unknown field (fast: re-encoded minimally,
   slow: raw), how a known group is read (fast: directed, the same tag loop with
   groupTag; slow: protowire.ConsumeGroup first, then the content as a message), and where an
   end-group tag is noticed (fast: before the field lookup; slow: only by ConsumeFieldValue, i.e.
   after the depth check of a map field with that number).

   Depth: [dep] is Go's remaining depth before the decrement at message entry
   (opts.depth / RecursionLimit): dep = 0 fails with DDepth; a map entry costs one more level.

   API
     derr, dres
     msg_decode_msg slow S dep tid grp fuel bs acc : dres (msg_macc * list byte)
         tag loop of message type [tid] over [bs], merging into [acc]; [grp] <> 0: inside the group
         with that number (returns the bytes after the end-group tag); fuel: any list at least
         one longer than [bs] (callers pass [x00 :: bs])
     msg_decode slow S limit tid bs : dres value       proto.Unmarshal into a fresh message
     msg_decode_into slow S limit tid bs old           UnmarshalOptions{Merge:true} into [old]
     msg_step ...                                      one field (non recursive, parameterised by
                                                       the decoders of the next depth)
     msg_set_field, msg_clear_oneof, msg_dec_entry, msg_dec_packed *)
From Coq Require Import List NArith ZArith Bool.
From PB Require Import Base.PBytes Wire.WireModel Msg.MsgSchema Msg.MsgValue Msg.MsgUtf8.
Import ListNotations.
Open Scope N_scope.

Inductive derr := DParse | DDepth | DUtf8 | DFuel | DSchema.
Inductive dres (A : Type) := DOk (a : A) | DErr (e : derr).
Arguments DOk {A}. Arguments DErr {A}.

(* ---------- one scalar ---------- *)
(* None: the wire value does not fit the kind (the field goes to the unknown set) *)
Definition msg_dec_scalar (sk : skind) (utf8 : bool) (w : wval) : option (dres scalar) :=
  match sk_dec sk w with
  | None => None
  | Some s =>
    match sk, s with
    | SkString, SBy b => if utf8 && negb (msg_utf8_valid b) then Some (DErr DUtf8) else Some (DOk s)
    | _, _ => Some (DOk s)
    end
  end.

(* packed payload: elements until the payload is exhausted *)
Fixpoint msg_dec_packed (g : list byte) (sk : skind) (bs : list byte) (acc : list value)
  : dres (list value) :=
  match g with
  | [] => DErr DFuel
  | _ :: g' =>
    match bs with
    | [] => DOk (rev acc)
    | _ =>
      match parse_val 0 1 (sk_wt sk) bs with
      | Err _ => DErr DParse
      | Ok (w, r) =>
        match sk_dec sk w with
        | Some s => msg_dec_packed g' sk r (VS s :: acc)
        | None => DErr DSchema
        end
      end
    end
  end.

(* ---------- map entries ---------- *)
Definition msg_entry_default (vk : kind) (vdef : Z) : value :=
  match vk with
  | KS SkEnum => VS (SZ vdef)
  | KS sk => VS (sk_zero sk)
  | _ => msg_empty
  end.

(* dm: decoder of a message-typed value (payload, value so far) *)
Fixpoint msg_dec_entry (g : list byte) (kk : skind) (kutf8 : bool) (vk : kind) (vutf8 : bool)
         (dm : list byte -> value -> dres value)
         (bs : list byte) (key : scalar) (val : value) : dres (scalar * value) :=
  match g with
  | [] => DErr DFuel
  | _ :: g' =>
    match bs with
    | [] => DOk (key, val)
    | _ =>
      match dec_tag bs with
      | Err _ => DErr DParse
      | Ok (num, typ, r) =>
        if msg_max_num <? num then DErr DParse else
        match parse_val default_dep num typ r with
        | Err _ => DErr DParse
        | Ok (w, r') =>
          if num =? 1 then
            match msg_dec_scalar kk kutf8 w with
            | Some (DOk s) => msg_dec_entry g' kk kutf8 vk vutf8 dm r' s val
            | Some (DErr e) => DErr e
            | None => msg_dec_entry g' kk kutf8 vk vutf8 dm r' key val
            end
          else if num =? 2 then
            match vk with
            | KS sk =>
              match msg_dec_scalar sk vutf8 w with
              | Some (DOk s) => msg_dec_entry g' kk kutf8 vk vutf8 dm r' key (VS s)
              | Some (DErr e) => DErr e
              | None => msg_dec_entry g' kk kutf8 vk vutf8 dm r' key val
              end
            | KMsg _ =>
              match w with
              | WLen payload =>
                match dm payload val with
                | DOk v' => msg_dec_entry g' kk kutf8 vk vutf8 dm r' key v'
                | DErr e => DErr e
                end
              | _ => msg_dec_entry g' kk kutf8 vk vutf8 dm r' key val
              end
            | KGrp _ => msg_dec_entry g' kk kutf8 vk vutf8 dm r' key val
            end
          else msg_dec_entry g' kk kutf8 vk vutf8 dm r' key val
        end
      end
    end
  end.

(* ---------- storing into the accumulator ---------- *)
Fixpoint msg_clear_oneof (md : mdesc) (oi : N) (num : N) (fs : fields) : fields :=
  match md with
  | [] => fs
  | fd :: r =>
    let fs' := match f_oneof fd with
               | Some j => if (j =? oi) && negb (f_num fd =? num) then msg_fdel fs (f_num fd) else fs
               | None => fs
               end in
    msg_clear_oneof r oi num fs'
  end.

(* store a singular value: implicit presence drops zeros; oneof members replace each other *)
Definition msg_set_field (md : mdesc) (fd : fdesc) (v : value) (fs : fields) : fields :=
  let drop := match f_card fd, v with
              | CImp, VS s => msg_scalar_is_zero s
              | _, _ => false
              end in
  let fs1 := if drop then msg_fdel fs (f_num fd) else msg_fset fs (f_num fd) [v] in
  match f_oneof fd with
  | Some oi => msg_clear_oneof md oi (f_num fd) fs1
  | None => fs1
  end.

Definition msg_append_field (fd : fdesc) (vs : list value) (fs : fields) : fields :=
  match vs with
  | [] => fs
  | _ => msg_fset fs (f_num fd) (msg_fget fs (f_num fd) ++ vs)
  end.

Definition msg_old_sub (fd : fdesc) (fs : fields) : msg_macc :=
  if card_repeated (f_card fd) then ([], [])
  else match msg_fget fs (f_num fd) with
       | v :: _ => msg_macc_of v
       | [] => ([], [])
       end.

Definition msg_store_sub (md : mdesc) (fd : fdesc) (m : msg_macc) (fs : fields) : fields :=
  let v := VMsg (fst m) (snd m) in
  if card_repeated (f_card fd) then msg_append_field fd [v] fs else msg_set_field md fd v fs.

(* ---------- one field ---------- *)
Definition msg_dec_t := nat -> N -> list byte -> list byte -> msg_macc -> dres (msg_macc * list byte).

Section Step.
  Variable slow : bool.
  Variable md : mdesc.
  Variable dsub : msg_dec_t.            (* messages one level down *)
  Variable dsub2 : option msg_dec_t.    (* two levels down (values of map entries); None: no depth left for the entry *)

  Definition msg_unknown (tagraw : list byte) (num typ : N) (r : list byte) (acc : msg_macc)
    : dres (msg_macc * list byte) :=
    match parse_val default_dep num typ r with
    | Err _ => DErr DParse
    | Ok (_, r') => DOk ((fst acc, snd acc ++ tagraw ++ firstn (length r - length r') r), r')
    end.

  Definition msg_whole (dm : msg_dec_t) (tid : nat) (payload : list byte) (old : msg_macc) : dres msg_macc :=
    match dm tid 0 (x00 :: payload) payload old with
    | DOk (m, _) => DOk m
    | DErr e => DErr e
    end.

  Definition msg_step (tagraw : list byte) (num typ : N) (r : list byte) (acc : msg_macc)
    : dres (msg_macc * list byte) :=
    match msg_find_field md num with
    | None => msg_unknown tagraw num typ r acc
    | Some fd =>
      match f_card fd with
      | CMap kk kutf8 vdef =>
        match dsub2 with
        | None => DErr DDepth
        | Some dm2 =>
          if typ =? 2 then
            match dec_bytes r with
            | Err _ => DErr DParse
            | Ok (payload, r') =>
              let dm := fun p (v : value) =>
                match f_kind fd with
                | KMsg tid => match msg_whole dm2 tid p (msg_macc_of v) with
                              | DOk m => DOk (VMsg (fst m) (snd m)) | DErr e => DErr e end
                | _ => DErr DSchema
                end in
              match msg_dec_entry (x00 :: payload) kk kutf8 (f_kind fd) (f_utf8 fd) dm payload
                                  (sk_zero kk) (msg_entry_default (f_kind fd) vdef) with
              | DErr e => DErr e
              | DOk (key, v) =>
                DOk ((msg_fset (fst acc) num (msg_map_put (msg_fget (fst acc) num) key v), snd acc), r')
              end
            end
          else msg_unknown tagraw num typ r acc
        end
      | c =>
        match f_kind fd with
        | KMsg tid =>
          if typ =? 2 then
            match dec_bytes r with
            | Err _ => DErr DParse
            | Ok (payload, r') =>
              match msg_whole dsub tid payload (msg_old_sub fd (fst acc)) with
              | DErr e => DErr e
              | DOk m => DOk ((msg_store_sub md fd m (fst acc), snd acc), r')
              end
            end
          else msg_unknown tagraw num typ r acc
        | KGrp tid =>
          if typ =? 3 then
            if slow then
              match consume_group num r with
              | Err _ => DErr DParse
              | Ok (None, _) => DErr DFuel
              | Ok (Some content, n) =>
                match msg_whole dsub tid content (msg_old_sub fd (fst acc)) with
                | DErr e => DErr e
                | DOk m => DOk ((msg_store_sub md fd m (fst acc), snd acc), skipn (N.to_nat n) r)
                end
              end
            else
              match dsub tid num (x00 :: r) r (msg_old_sub fd (fst acc)) with
              | DErr e => DErr e
              | DOk (m, r') => DOk ((msg_store_sub md fd m (fst acc), snd acc), r')
              end
          else msg_unknown tagraw num typ r acc
        | KS sk =>
          if typ =? sk_wt sk then
            match parse_val 0 num typ r with
            | Err _ => DErr DParse
            | Ok (w, r') =>
              match msg_dec_scalar sk (msg_field_utf8 slow fd) w with
              | None => msg_unknown tagraw num typ r acc
              | Some (DErr e) => DErr e
              | Some (DOk s) =>
                DOk ((if card_repeated c then msg_append_field fd [VS s] (fst acc)
                      else msg_set_field md fd (VS s) (fst acc), snd acc), r')
              end
            end
          else if (typ =? 2) && msg_packable sk && card_repeated c then
            match dec_bytes r with
            | Err _ => DErr DParse
            | Ok (payload, r') =>
              match msg_dec_packed (x00 :: payload) sk payload [] with
              | DErr e => DErr e
              | DOk vs => DOk ((msg_append_field fd vs (fst acc), snd acc), r')
              end
            end
          else msg_unknown tagraw num typ r acc
        end
      end
    end.
End Step.

(* ---------- the tag loop ---------- *)
Fixpoint msg_decode_msg (slow : bool) (S : schema) (dep : nat) {struct dep} : msg_dec_t :=
  match dep with
  | O => fun _ _ _ _ _ => DErr DDepth
  | Datatypes.S d => fun tid grp =>
    match nth_error S tid with
    | None => fun _ _ _ => DErr DSchema
    | Some md =>
      let dsub2 := match d with O => None | Datatypes.S d1 => Some (msg_decode_msg slow S d1) end in
      fix loop (g bs : list byte) (acc : msg_macc) {struct g} : dres (msg_macc * list byte) :=
        match g with
        | [] => DErr DFuel
        | _ :: g' =>
          match bs with
          | [] => if grp =? 0 then DOk (acc, []) else DErr DParse
          | _ =>
            match dec_tag bs with
            | Err _ => DErr DParse
            | Ok (num, typ, r) =>
              if msg_max_num <? num then DErr DParse
              else if (typ =? 4) && negb slow then (if num =? grp then DOk (acc, r) else DErr DParse)
              else
                let tagraw := if slow then firstn (length bs - length r) bs else enc_tag num typ in
                match msg_step slow md (msg_decode_msg slow S d) dsub2 tagraw num typ r acc with
                | DErr e => DErr e
                | DOk (acc', r') => loop g' r' acc'
                end
            end
          end
        end
    end
  end.

Definition msg_decode_into (slow : bool) (S : schema) (limit : nat) (tid : nat) (bs : list byte)
           (old : value) : dres value :=
  match msg_decode_msg slow S limit tid 0 (x00 :: bs) bs (msg_macc_of old) with
  | DOk (m, _) => DOk (VMsg (fst m) (snd m))
  | DErr e => DErr e
  end.
Definition msg_decode (slow : bool) (S : schema) (limit : nat) (tid : nat) (bs : list byte) : dres value :=
  msg_decode_into slow S limit tid bs msg_empty.

Definition derr_code (e : derr) : N :=
  match e with DParse => 1 | DDepth => 2 | DUtf8 => 3 | DFuel => 4 | DSchema => 5 end.
