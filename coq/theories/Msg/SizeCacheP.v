(* Proofs about Msg/SizeCacheModel.v: the size pass writes exactly the caches
   the append pass reads; an append pass that succeeds always produced the true
   encoding; the ordinary Marshal entry point is correct from every cache state. *)
From Coq Require Import List Arith NArith ZArith Lia Bool.
From Coq Require Import ZifyBool ZifyNat ZifyN.
From PB Require Import Base.PBytes Wire.WireModel Msg.SizeCacheModel Msg.SizeCacheVarintP.
Ltac Zify.zify_post_hook ::= Z.div_mod_to_equations.
Import ListNotations.
Open Scope N_scope.

(* ---------- induction principle for the nested type ---------- *)
Definition item_all (P : node -> Prop) (it : item node) : Prop :=
  match it with Raw _ => True | Sub _ c => P c end.

Fixpoint node_ind2 (P : node -> Prop)
  (H : forall c its, Forall (item_all P) its -> P (Node c its)) (n : node) : P n :=
  match n with
  | Node c its =>
      H c its ((fix go (l : list (item node)) : Forall (item_all P) l :=
                  match l with
                  | [] => Forall_nil _
                  | it :: r =>
                      Forall_cons it
                        (match it return item_all P it with
                         | Raw _ => I
                         | Sub _ ch => node_ind2 P H ch
                         end) (go r)
                  end) its)
  end.

(* ---------- lengths ---------- *)
Lemma len_app a b : len (a ++ b) = len a + len b.
Proof. unfold len. rewrite app_length. lia. Qed.

Lemma len_nil : len [] = 0.
Proof. reflexivity. Qed.

Definition items_enc (its : list (item node)) : list byte := concat (map (enc_item enc) its).

Lemma enc_node c its : enc (Node c its) = items_enc its.
Proof. reflexivity. Qed.

Lemma items_enc_cons it r : items_enc (it :: r) = enc_item enc it ++ items_enc r.
Proof. reflexivity. Qed.

Definition fits (n : node) : Prop := len (enc n) < 2^64.

(* the size formulas of the code agree with the framing, as long as the
   numbers fit a uint64 (they fit an int in Go) *)
Lemma kind_size_wrap k body : len (wrap k body) < 2^64 -> kind_size k (len body) = len (wrap k body).
Proof.
  destruct k as [tag|st et|tag key vtag|tag|st et]; cbn [wrap kind_size]; intros H;
    repeat rewrite len_app in *; unfold size_bytes.
  - rewrite <- size_varint_len by lia. lia.
  - lia.
  - pose proof (size_varint_len (len body)) as E1.
    rewrite <- E1 by lia.
    pose proof (size_varint_len (len key + (len vtag + (len (enc_varint (len body)) + len body)))) as E2.
    rewrite <- E2 by lia. lia.
  - rewrite <- size_varint_len by lia. lia.
  - lia.
Qed.

Lemma wrap_ge k body : len body <= len (wrap k body).
Proof. destruct k; cbn [wrap]; repeat rewrite len_app; lia. Qed.

(* ---------- content (= the tree without its caches) ---------- *)
Lemma clone_node c its : clone (Node c its) = Node 0 (map (clone_item clone) its).
Proof. reflexivity. Qed.

Lemma enc_clone : forall n, enc (clone n) = enc n.
Proof.
  induction n as [c its IH] using node_ind2.
  rewrite clone_node, !enc_node. unfold items_enc. f_equal.
  rewrite map_map. apply map_ext_Forall.
  eapply Forall_impl; [|exact IH].
  intros [b|k ch]; cbn; [reflexivity|]. intros ->. reflexivity.
Qed.

Lemma same_enc a b : clone a = clone b -> enc a = enc b.
Proof. intros H. rewrite <- (enc_clone a), <- (enc_clone b), H. reflexivity. Qed.

Lemma height_clone : forall n, height (clone n) = height n.
Proof.
  induction n as [c its IH] using node_ind2.
  rewrite clone_node. cbn [height]. f_equal. f_equal.
  rewrite map_map. apply map_ext_Forall.
  eapply Forall_impl; [|exact IH].
  intros [b|k ch]; cbn; [reflexivity|]. intros ->. reflexivity.
Qed.

Lemma same_height a b : clone a = clone b -> height a = height b.
Proof. intros H. rewrite <- (height_clone a), <- (height_clone b), H. reflexivity. Qed.

Lemma clone_idem n : clone (clone n) = clone n.
Proof.
  induction n as [c its IH] using node_ind2.
  rewrite !clone_node. f_equal. rewrite map_map. apply map_ext_Forall.
  eapply Forall_impl; [|exact IH].
  intros [b|k ch]; cbn; [reflexivity|]. intros ->. reflexivity.
Qed.
(* ---------- predicates over all nodes of a tree ---------- *)
Fixpoint all_nodes (P : N -> list (item node) -> Prop) (n : node) : Prop :=
  match n with
  | Node c its =>
      P c its /\
      (fix go (l : list (item node)) : Prop :=
         match l with
         | [] => True
         | it :: r => match it with Raw _ => True | Sub _ ch => all_nodes P ch end /\ go r
         end) its
  end.

Lemma all_nodes_unfold P c its :
  all_nodes P (Node c its) <-> P c its /\ Forall (item_all (all_nodes P)) its.
Proof.
  cbn [all_nodes]. apply and_iff_compat_l.
  induction its as [|it r IH]; [split; auto|].
  rewrite IH. split.
  - intros [H1 H2]. constructor; [destruct it; exact H1 | exact H2].
  - intros H. inversion H; subst. split; [destruct it; assumption | assumption].
Qed.

(* every cache is unset or holds the true size (+1) *)
Definition cache_valid : node -> Prop :=
  all_nodes (fun c its => c = 0 \/ c = len (items_enc its) + 1).
(* every cache holds what sizePointerSlow stores for the true size *)
Definition cache_fresh : node -> Prop :=
  all_nodes (fun c its => c = store (len (items_enc its))).

Lemma store_cases s : store s = 0 \/ store s = s + 1.
Proof. unfold store. destruct (max_cacheable <? s); auto. Qed.

Lemma all_nodes_impl (P Q : N -> list (item node) -> Prop) :
  (forall c its, P c its -> Q c its) -> forall n, all_nodes P n -> all_nodes Q n.
Proof.
  intros HPQ. induction n as [c its IH] using node_ind2.
  rewrite !all_nodes_unfold. intros [H1 H2]. split; [auto|].
  rewrite Forall_forall in *. intros it Hin. specialize (IH it Hin). specialize (H2 it Hin).
  destruct it; cbn in *; auto.
Qed.

Lemma fresh_valid n : cache_fresh n -> cache_valid n.
Proof.
  apply all_nodes_impl. intros c its ->. apply store_cases.
Qed.

(* ---------- the size pass ---------- *)
Lemma size_items_cons f it r :
  size_items f (it :: r) =
  let '(s1, it') := size_item f it in
  let '(s2, r') := size_items f r in (s1 + s2, it' :: r').
Proof. reflexivity. Qed.

(* content is never changed, whatever the caches are *)
Lemma size_pass_clone uc : forall n, clone (snd (size_pass uc n)) = clone n.
Proof.
  induction n as [c its IH] using node_ind2.
  cbn [size_pass]. destruct (uc && (0 <? c)); [reflexivity|].
  destruct (size_items (size_pass uc) its) as [sz its'] eqn:E. cbn [snd].
  rewrite !clone_node. f_equal.
  revert sz its' E. induction its as [|it r IHr]; intros sz its' E.
  - inversion E; subst. reflexivity.
  - rewrite size_items_cons in E.
    destruct (size_item (size_pass uc) it) as [s1 it'] eqn:E1.
    destruct (size_items (size_pass uc) r) as [s2 r'] eqn:E2.
    inversion E; subst. inversion IH; subst.
    cbn [map]. f_equal; [|eapply IHr; eauto].
    destruct it as [b|k ch]; cbn in E1.
    + inversion E1; subst. reflexivity.
    + destruct (size_pass uc ch) as [s ch'] eqn:E3. inversion E1; subst.
      cbn [item_all] in H1. rewrite E3 in H1. cbn in *. f_equal. rewrite <- H1. reflexivity.
Qed.

Lemma fits_cons c it r : fits (Node c (it :: r)) -> len (enc_item enc it) < 2^64 /\ fits (Node c r).
Proof.
  unfold fits. rewrite !enc_node, items_enc_cons, len_app. lia.
Qed.

Lemma size_pass_spec uc : forall n, fits n -> (uc = true -> cache_valid n) ->
  fst (size_pass uc n) = len (enc n) /\
  cache_valid (snd (size_pass uc n)) /\
  (uc = false -> cache_fresh (snd (size_pass uc n))).
Proof.
  induction n as [c its IH] using node_ind2. intros Hfit Hval.
  cbn [size_pass]. destruct (uc && (0 <? c)) eqn:Ec.
  - apply andb_true_iff in Ec. destruct Ec as [-> Ec]. specialize (Hval eq_refl).
    cbn [fst snd]. split; [|split; [exact Hval|discriminate]].
    apply all_nodes_unfold in Hval. destruct Hval as [[H|H] _]; rewrite enc_node; lia.
  - assert (Hv' : uc = true -> Forall (item_all cache_valid) its).
    { intros Hu. apply Hval in Hu. apply all_nodes_unfold in Hu. tauto. }
    assert (G : fst (size_items (size_pass uc) its) = len (items_enc its) /\
                Forall (item_all cache_valid) (snd (size_items (size_pass uc) its)) /\
                (uc = false -> Forall (item_all cache_fresh) (snd (size_items (size_pass uc) its))) /\
                items_enc (snd (size_items (size_pass uc) its)) = items_enc its).
    { clear Hval Ec. revert Hfit Hv'. induction its as [|it r IHr]; intros Hfit Hv'.
      - cbn. repeat split; auto.
      - rewrite size_items_cons.
        apply fits_cons in Hfit. destruct Hfit as [Hit Hr].
        inversion IH as [|? ? IHit IHrest]; subst.
        assert (Hv1 : uc = true -> item_all cache_valid it) by (intros Hu; specialize (Hv' Hu); inversion Hv'; assumption).
        assert (Hv2 : uc = true -> Forall (item_all cache_valid) r) by (intros Hu; specialize (Hv' Hu); inversion Hv'; assumption).
        specialize (IHr IHrest Hr Hv2). destruct IHr as (R1 & R2 & R3 & R4).
        destruct (size_items (size_pass uc) r) as [s2 r'] eqn:E2. cbn [fst snd] in *.
        destruct it as [b|k ch].
        + cbn [size_item]. cbn [fst snd]. rewrite !items_enc_cons, len_app, R4. cbn [enc_item].
          repeat split; try (intros; constructor; cbn; auto). lia.
        + cbn [size_item]. cbn [item_all] in IHit, Hv1.
          cbn [enc_item] in Hit.
          assert (Hfc : fits ch) by (unfold fits; pose proof (wrap_ge k (enc ch)); lia).
          specialize (IHit Hfc Hv1). destruct IHit as (I1 & I2 & I3).
          pose proof (size_pass_clone uc ch) as I4. apply same_enc in I4.
          destruct (size_pass uc ch) as [s ch'] eqn:E3. cbn [fst snd] in *.
          rewrite !items_enc_cons, len_app, R4. cbn [enc_item]. rewrite I4.
          repeat split; try (intros; constructor; cbn; auto).
          rewrite I1, kind_size_wrap by assumption. lia. }
    destruct G as (G1 & G2 & G3 & G4).
    destruct (size_items (size_pass uc) its) as [sz its'] eqn:E. cbn [fst snd] in *.
    rewrite enc_node. split; [exact G1|]. subst sz.
    split.
    + apply all_nodes_unfold. split; [|exact G2]. rewrite G4. apply store_cases.
    + intros Hu. apply all_nodes_unfold. split; [|auto]. rewrite G4. reflexivity.
Qed.
(* ---------- the append pass ---------- *)
Lemma append_fuel_S fuel uc c its :
  append_fuel (S fuel) uc (Node c its) =
  let '(r, its') := append_items uc (append_fuel fuel uc) (append_fuel fuel true) its in (r, Node c its').
Proof. reflexivity. Qed.

Lemma height_node c its : height (Node c its) = S (fold_right Nat.max O (map (item_height height) its)).
Proof. reflexivity. Qed.

Lemma height_cons c it r fuel : (height (Node c (it :: r)) <= S fuel)%nat ->
  (item_height height it <= fuel)%nat /\ (height (Node c r) <= S fuel)%nat.
Proof. rewrite !height_node. cbn [map fold_right]. lia. Qed.

(* the framing written by the code is the true framing when the size it used is
   the true size (and always, for groups) *)
Lemma frame_with_wrap k body : len (wrap k body) < 2^64 -> frame_with k (len body) body = wrap k body.
Proof.
  destruct k as [tag|st et|tag key vtag|tag|st et]; cbn [wrap frame_with]; intros H; try reflexivity.
  do 2 f_equal. repeat rewrite len_app in *. unfold size_bytes.
  rewrite <- size_varint_len by lia. reflexivity.
Qed.

Lemma frame_unsized k s body : sized k = false -> frame_with k s body = wrap k body.
Proof. destruct k; cbn; try discriminate; reflexivity. Qed.

(* the two preparation steps of [append_item] on a child: they never change content *)
Definition pre1 (uc : bool) (k : kind) (ch : node) : option N * node :=
  if sized k then let '(s, c) := size_pass uc ch in (Some s, c) else (None, ch).
Definition pre2 (uc : bool) (k : kind) (ch1 : node) : node :=
  if via_marshal k then snd (size_pass uc ch1) else ch1.

Lemma append_item_sub uc rec recm k ch :
  append_item uc rec recm (Sub k ch) =
  let '(so, ch1) := pre1 uc k ch in
  let '(rb, ch2) := (if via_marshal k then recm else rec) (pre2 uc k ch1) in
  (ares_map (fun body =>
               match so with
               | Some s => if s =? len body then ABytes (frame_with k s body) else AMismatch
               | None => ABytes (frame_with k 0 body)
               end) rb, Sub k ch2).
Proof.
  cbn [append_item]. unfold pre1, pre2.
  destruct (sized k); [destruct (size_pass uc ch) as [s c]|];
    (destruct (via_marshal k); [destruct (size_pass uc _) as [s' c']|]); reflexivity.
Qed.

Lemma pre1_clone uc k ch : clone (snd (pre1 uc k ch)) = clone ch.
Proof.
  unfold pre1. destruct (sized k); [|reflexivity].
  pose proof (size_pass_clone uc ch). destruct (size_pass uc ch). assumption.
Qed.

Lemma pre2_clone uc k ch : clone (pre2 uc k ch) = clone ch.
Proof. unfold pre2. destruct (via_marshal k); [apply size_pass_clone|reflexivity]. Qed.

(* under the invariant both steps return the true size and keep the invariant *)
Lemma pre1_spec uc k ch : fits ch -> (uc = true -> cache_valid ch) ->
  (fst (pre1 uc k ch) = if sized k then Some (len (enc ch)) else None) /\
  (uc = true -> cache_valid (snd (pre1 uc k ch))) /\
  (cache_valid ch -> cache_valid (snd (pre1 uc k ch))).
Proof.
  intros Hf Hv. unfold pre1. destruct (sized k); [|cbn; auto].
  pose proof (size_pass_spec uc ch Hf Hv) as (S1 & S2 & _).
  destruct (size_pass uc ch) as [s c]. cbn [fst snd] in *. subst. auto.
Qed.

Lemma pre2_spec uc k ch : fits ch -> (uc = true -> cache_valid ch) ->
  (uc = true -> cache_valid (pre2 uc k ch)) /\ (cache_valid ch -> cache_valid (pre2 uc k ch)) /\
  (via_marshal k = true -> cache_valid (pre2 uc k ch)).
Proof.
  intros Hf Hv. unfold pre2. destruct (via_marshal k); [|repeat split; auto; discriminate].
  pose proof (size_pass_spec uc ch Hf Hv) as (_ & S2 & _). auto.
Qed.

(* content is never changed by the append pass either *)
Lemma append_fuel_clone : forall fuel uc n, clone (snd (append_fuel fuel uc n)) = clone n.
Proof.
  induction fuel as [|fuel IH]; intros uc [c its]; [reflexivity|].
  rewrite append_fuel_S.
  destruct (append_items uc (append_fuel fuel uc) (append_fuel fuel true) its) as [r its'] eqn:E. cbn [snd].
  rewrite !clone_node. f_equal.
  revert r its' E. induction its as [|it rest IHr]; intros r its' E.
  - cbn in E. inversion E. reflexivity.
  - cbn [append_items] in E.
    destruct (append_item uc (append_fuel fuel uc) (append_fuel fuel true) it) as [r1 it'] eqn:E1.
    assert (H1 : clone_item clone it' = clone_item clone it).
    { destruct it as [b|k ch].
      - cbn in E1. inversion E1; reflexivity.
      - rewrite append_item_sub in E1.
        pose proof (pre1_clone uc k ch) as P1.
        destruct (pre1 uc k ch) as [so ch1]. cbn [snd] in P1.
        pose proof (pre2_clone uc k ch1) as P2.
        assert (Ha : clone (snd ((if via_marshal k then append_fuel fuel true else append_fuel fuel uc) (pre2 uc k ch1)))
                     = clone (pre2 uc k ch1)) by (destruct (via_marshal k); apply IH).
        destruct ((if via_marshal k then append_fuel fuel true else append_fuel fuel uc) (pre2 uc k ch1)) as [rb ch2].
        cbn [snd] in Ha. inversion E1; subst. cbn [clone_item]. f_equal. congruence. }
    destruct r1 as [b1| |].
    + destruct (append_items uc (append_fuel fuel uc) (append_fuel fuel true) rest) as [r2 rest'] eqn:E2.
      inversion E; subst. cbn [map]. f_equal; [exact H1|]. eapply IHr; reflexivity.
    + inversion E; subst. cbn [map]. f_equal; exact H1.
    + inversion E; subst. cbn [map]. f_equal; exact H1.
Qed.

(* SOUNDNESS, for arbitrary caches: if the append pass reports success, the
   bytes are the true encoding (the measured-size check catches every stale
   length prefix). *)
Lemma append_fuel_sound : forall fuel uc n b, fits n ->
  fst (append_fuel fuel uc n) = ABytes b -> b = enc n.
Proof.
  induction fuel as [|fuel IH]; intros uc [c its] b Hfit; [cbn; discriminate|].
  rewrite append_fuel_S, enc_node.
  destruct (append_items uc (append_fuel fuel uc) (append_fuel fuel true) its) as [r its'] eqn:E. cbn [fst].
  intros ->. revert b its' E. induction its as [|it rest IHr]; intros b its' E.
  - cbn in E. inversion E. reflexivity.
  - apply fits_cons in Hfit. destruct Hfit as [Hit Hrest].
    cbn [append_items] in E.
    destruct (append_item uc (append_fuel fuel uc) (append_fuel fuel true) it) as [r1 it'] eqn:E1.
    destruct r1 as [b1| |]; try (inversion E; fail).
    destruct (append_items uc (append_fuel fuel uc) (append_fuel fuel true) rest) as [r2 rest'] eqn:E2.
    destruct r2 as [b2| |]; cbn [ares_map] in E; inversion E; subst.
    rewrite items_enc_cons. f_equal; [|eapply IHr; eauto].
    clear E E2 IHr.
    destruct it as [bb|k ch]; [cbn in E1; inversion E1; reflexivity|].
    rewrite append_item_sub in E1. cbn [enc_item] in *.
    pose proof (pre1_clone uc k ch) as P1. apply same_enc in P1.
    destruct (pre1 uc k ch) as [so ch1] eqn:Ep1. cbn [snd] in P1.
    pose proof (pre2_clone uc k ch1) as P2. apply same_enc in P2.
    assert (Hf2 : fits (pre2 uc k ch1)).
    { unfold fits. rewrite P2, P1. pose proof (wrap_ge k (enc ch)). lia. }
    assert (Ha : forall body, fst ((if via_marshal k then append_fuel fuel true else append_fuel fuel uc) (pre2 uc k ch1)) = ABytes body ->
                 body = enc ch).
    { intros body Hb. rewrite <- P1, <- P2. destruct (via_marshal k); eapply IH; eauto. }
    destruct ((if via_marshal k then append_fuel fuel true else append_fuel fuel uc) (pre2 uc k ch1)) as [rb ch2].
    cbn [fst] in Ha.
    destruct rb as [body| |]; cbn [ares_map] in E1; try (inversion E1; fail).
    specialize (Ha body eq_refl). subst body.
    destruct so as [s|].
    + destruct (s =? len (enc ch)) eqn:Es; inversion E1; subst.
      apply N.eqb_eq in Es. subst s. apply frame_with_wrap. exact Hit.
    + inversion E1; subst. apply frame_unsized.
      unfold pre1 in Ep1. destruct (sized k); [|reflexivity].
      destruct (size_pass uc ch); discriminate.
Qed.

Lemma valid_same_root c c' its its' :
  items_enc its' = items_enc its ->
  (c = 0 \/ c = len (items_enc its) + 1) -> c' = c -> (c' = 0 \/ c' = len (items_enc its') + 1).
Proof. intros -> H ->. exact H. Qed.

(* COMPLETENESS: on a tree whose caches are all unset-or-correct (always, when
   the caches are not used), the append pass succeeds with the true encoding and
   leaves the caches unset-or-correct. *)
Lemma append_fuel_complete : forall fuel uc n, (height n <= fuel)%nat -> fits n ->
  (uc = true -> cache_valid n) ->
  fst (append_fuel fuel uc n) = ABytes (enc n) /\
  (cache_valid n -> cache_valid (snd (append_fuel fuel uc n))).
Proof.
  induction fuel as [|fuel IH]; intros uc [c its] Hh Hfit Hval; [rewrite height_node in Hh; lia|].
  rewrite append_fuel_S, enc_node.
  assert (Hv' : uc = true -> Forall (item_all cache_valid) its).
  { intros Hu. apply Hval in Hu. apply all_nodes_unfold in Hu. tauto. }
  assert (G : fst (append_items uc (append_fuel fuel uc) (append_fuel fuel true) its) = ABytes (items_enc its) /\
              (Forall (item_all cache_valid) its ->
               Forall (item_all cache_valid) (snd (append_items uc (append_fuel fuel uc) (append_fuel fuel true) its)))).
  { clear Hval. revert Hh Hfit Hv'. induction its as [|it rest IHr]; intros Hh Hfit Hv'.
    - cbn. split; auto.
    - apply fits_cons in Hfit. destruct Hfit as [Hit Hrest].
      apply height_cons in Hh. destruct Hh as [Hhi Hhr].
      assert (Hv1 : uc = true -> item_all cache_valid it) by (intros Hu; specialize (Hv' Hu); inversion Hv'; assumption).
      assert (Hv2 : uc = true -> Forall (item_all cache_valid) rest) by (intros Hu; specialize (Hv' Hu); inversion Hv'; assumption).
      specialize (IHr Hhr Hrest Hv2). destruct IHr as [R1 R2].
      cbn [append_items].
      assert (H1 : fst (append_item uc (append_fuel fuel uc) (append_fuel fuel true) it) = ABytes (enc_item enc it) /\
                   (item_all cache_valid it ->
                    item_all cache_valid (snd (append_item uc (append_fuel fuel uc) (append_fuel fuel true) it)))).
      { clear R1 R2 Hv2 Hv' Hrest Hhr.
        destruct it as [bb|k ch]; [cbn; split; auto|].
        rewrite append_item_sub. cbn [enc_item item_height item_all] in *.
        assert (Hf : fits ch) by (unfold fits; pose proof (wrap_ge k (enc ch)); lia).
        pose proof (pre1_spec uc k ch Hf Hv1) as (Q1 & Q2 & Q3).
        pose proof (pre1_clone uc k ch) as P1.
        destruct (pre1 uc k ch) as [so ch1]. cbn [fst snd] in *.
        pose proof (same_enc _ _ P1) as He1. pose proof (same_height _ _ P1) as Hh1.
        assert (Hf1 : fits ch1) by (unfold fits; rewrite He1; exact Hf).
        pose proof (pre2_spec uc k ch1 Hf1 Q2) as (T1 & T2 & T3).
        pose proof (pre2_clone uc k ch1) as P2.
        pose proof (same_enc _ _ P2) as He2. pose proof (same_height _ _ P2) as Hh2.
        assert (Hf2 : fits (pre2 uc k ch1)) by (unfold fits; rewrite He2; exact Hf1).
        assert (Ha : fst ((if via_marshal k then append_fuel fuel true else append_fuel fuel uc) (pre2 uc k ch1))
                       = ABytes (enc (pre2 uc k ch1)) /\
                     (cache_valid (pre2 uc k ch1) ->
                      cache_valid (snd ((if via_marshal k then append_fuel fuel true else append_fuel fuel uc) (pre2 uc k ch1))))).
        { destruct (via_marshal k) eqn:Ev; apply IH; auto; lia. }
        destruct Ha as [A1 A2].
        destruct ((if via_marshal k then append_fuel fuel true else append_fuel fuel uc) (pre2 uc k ch1)) as [rb ch2].
        cbn [fst snd] in *. subst rb. cbn [ares_map]. rewrite He2, He1. subst so.
        split; [|intros Hc; cbn [item_all]; auto].
        destruct (sized k) eqn:Esz.
        - rewrite N.eqb_refl. rewrite frame_with_wrap by exact Hit. reflexivity.
        - rewrite frame_unsized by exact Esz. reflexivity. }
      destruct H1 as [H1 H1v].
      destruct (append_item uc (append_fuel fuel uc) (append_fuel fuel true) it) as [r1 it']. cbn [fst snd] in *. subst r1.
      destruct (append_items uc (append_fuel fuel uc) (append_fuel fuel true) rest) as [r2 rest']. cbn [fst snd] in *. subst r2.
      cbn [ares_map fst snd]. rewrite items_enc_cons. split; [reflexivity|].
      intros Hall. inversion Hall; subst. constructor; auto. }
  destruct G as [G1 G2].
  pose proof (append_fuel_clone (S fuel) uc (Node c its)) as Hc. rewrite append_fuel_S in Hc.
  destruct (append_items uc (append_fuel fuel uc) (append_fuel fuel true) its) as [r its']. cbn [fst snd] in *.
  split; [exact G1|].
  intros Hcv. apply all_nodes_unfold in Hcv. destruct Hcv as [Hroot Hkids].
  apply all_nodes_unfold. split; [|auto].
  apply same_enc in Hc. rewrite !enc_node in Hc. rewrite Hc. exact Hroot.
Qed.

Lemma append_pass_complete uc n : fits n -> (uc = true -> cache_valid n) ->
  fst (append_pass uc n) = ABytes (enc n) /\ (cache_valid n -> cache_valid (snd (append_pass uc n))).
Proof. intros. apply append_fuel_complete; auto. Qed.

(* the fuel of [append_pass] (= height) always suffices, whatever the caches *)
Lemma append_fuel_no_fuel : forall fuel uc n, (height n <= fuel)%nat -> fst (append_fuel fuel uc n) <> AFuel.
Proof.
  induction fuel as [|fuel IH]; intros uc [c its] Hh; [rewrite height_node in Hh; lia|].
  rewrite append_fuel_S.
  assert (G : fst (append_items uc (append_fuel fuel uc) (append_fuel fuel true) its) <> AFuel).
  { revert Hh. induction its as [|it rest IHr]; intros Hh; [cbn; discriminate|].
    apply height_cons in Hh. destruct Hh as [Hhi Hhr]. specialize (IHr Hhr).
    cbn [append_items].
    assert (H1 : fst (append_item uc (append_fuel fuel uc) (append_fuel fuel true) it) <> AFuel).
    { destruct it as [bb|k ch]; [cbn; discriminate|].
      rewrite append_item_sub. cbn [item_height] in Hhi.
      pose proof (pre1_clone uc k ch) as P1. apply same_height in P1.
      destruct (pre1 uc k ch) as [so ch1]. cbn [snd] in P1.
      pose proof (pre2_clone uc k ch1) as P2. apply same_height in P2.
      assert (A : fst ((if via_marshal k then append_fuel fuel true else append_fuel fuel uc) (pre2 uc k ch1)) <> AFuel)
        by (destruct (via_marshal k); apply IH; lia).
      destruct ((if via_marshal k then append_fuel fuel true else append_fuel fuel uc) (pre2 uc k ch1)) as [[body| |] ch2];
        cbn [fst ares_map] in *; try congruence.
      destruct so as [s|]; [destruct (s =? len body)|]; discriminate. }
    destruct (append_item uc (append_fuel fuel uc) (append_fuel fuel true) it) as [[b1| |] it']; cbn [fst] in *; try congruence.
    destruct (append_items uc (append_fuel fuel uc) (append_fuel fuel true) rest) as [[b2| |] rest']; cbn [fst ares_map] in *; congruence. }
  destruct (append_items uc (append_fuel fuel uc) (append_fuel fuel true) its) as [r its']. exact G.
Qed.

(* ---------- the entry points ---------- *)
Lemma marshal_clone ouc n : clone (snd (marshal ouc n)) = clone n.
Proof.
  unfold marshal. pose proof (size_pass_clone ouc n) as H.
  destruct (size_pass ouc n) as [s n1]. cbn [snd] in H.
  unfold append_pass. rewrite append_fuel_clone. exact H.
Qed.

(* proto.Marshal (no UseCachedSize from the caller): correct from EVERY cache state *)
Lemma marshal_spec n : fits n ->
  fst (marshal false n) = ABytes (enc n) /\ cache_valid (snd (marshal false n)).
Proof.
  intros Hf. unfold marshal.
  pose proof (size_pass_spec false n Hf ltac:(discriminate)) as (S1 & S2 & S3).
  pose proof (size_pass_clone false n) as Hc.
  destruct (size_pass false n) as [s n1]. cbn [fst snd] in *.
  pose proof (same_enc _ _ Hc) as He.
  assert (Hf1 : fits n1) by (unfold fits; rewrite He; exact Hf).
  destruct (append_pass_complete true n1 Hf1 (fun _ => S2)) as [A1 A2].
  rewrite A1, He. split; auto.
Qed.

(* MarshalOptions{UseCachedSize: true}: correct when the caches are unset-or-correct ... *)
Lemma cmarshal_valid n : fits n -> cache_valid n ->
  fst (marshal true n) = ABytes (enc n) /\ cache_valid (snd (marshal true n)).
Proof.
  intros Hf Hv. unfold marshal.
  pose proof (size_pass_spec true n Hf (fun _ => Hv)) as (S1 & S2 & S3).
  pose proof (size_pass_clone true n) as Hc.
  destruct (size_pass true n) as [s n1]. cbn [fst snd] in *.
  pose proof (same_enc _ _ Hc) as He.
  assert (Hf1 : fits n1) by (unfold fits; rewrite He; exact Hf).
  destruct (append_pass_complete true n1 Hf1 (fun _ => S2)) as [A1 A2].
  rewrite A1, He. split; auto.
Qed.

(* ... and in every other cache state it either fails or is still correct *)
Lemma marshal_sound ouc n b : fits n -> fst (marshal ouc n) = ABytes b -> b = enc n.
Proof.
  intros Hf. unfold marshal.
  pose proof (size_pass_clone ouc n) as Hc.
  destruct (size_pass ouc n) as [s n1]. cbn [snd] in Hc.
  pose proof (same_enc _ _ Hc) as He.
  assert (Hf1 : fits n1) by (unfold fits; rewrite He; exact Hf).
  intros H. apply append_fuel_sound in H; [|exact Hf1]. congruence.
Qed.

Lemma marshal_no_fuel ouc n : fst (marshal ouc n) <> AFuel.
Proof.
  unfold marshal. destruct (size_pass ouc n) as [s n1].
  apply append_fuel_no_fuel. unfold append_pass. lia.
Qed.
(* ---------- operations at a path, histories ---------- *)
Lemma map_replace_nth {A B} (g : A -> B) : forall l i x y,
  nth_error l i = Some y -> g x = g y -> map g (replace_nth i x l) = map g l.
Proof.
  induction l as [|a l IH]; intros [|i] x y H E; cbn in *; try discriminate.
  - inversion H; subst. rewrite E. reflexivity.
  - f_equal. eapply IH; eauto.
Qed.

Lemma update_at_same : forall p t s s', subtree p t = Some s -> clone s' = clone s ->
  clone (update_at p (fun _ => s') t) = clone t.
Proof.
  induction p as [|i p IH]; intros [c its] s s' Hs Hc.
  - cbn in *. inversion Hs; subst. exact Hc.
  - cbn [subtree items_of] in Hs. cbn [update_at].
    destruct (nth_error its i) as [[b|k ch]|] eqn:En; try discriminate.
    rewrite !clone_node. f_equal.
    eapply map_replace_nth; [exact En|]. cbn [clone_item]. f_equal. eapply IH; eauto.
Qed.

Definition readonly (o : op) : bool :=
  match o with OSet _ _ _ | OIns _ _ _ | ODel _ _ => false | _ => true end.

(* Size / Marshal / Equal / Clone never change the content of the tree *)
Lemma step_readonly t o : readonly o = true -> clone (fst (step t o)) = clone t.
Proof.
  destruct o; cbn [readonly]; try discriminate; intros _; cbn [step]; unfold with_sub.
  - destruct (subtree p t) as [s|] eqn:Es; [|reflexivity].
    unfold size_op. pose proof (size_pass_clone uc s) as H.
    destruct (size_pass uc s) as [sz s']. cbn [fst snd] in *. eapply update_at_same; eauto.
  - destruct (subtree p t) as [s|] eqn:Es; [|reflexivity].
    pose proof (marshal_clone uc s) as H.
    destruct (marshal uc s) as [r s']. cbn [fst snd] in *. eapply update_at_same; eauto.
  - destruct (subtree p t), (subtree q t); reflexivity.
  - destruct (subtree p t); reflexivity.
Qed.

(* the observation of an ordinary Marshal, in any state *)
Lemma step_marshal t p s : subtree p t = Some s -> fits s ->
  snd (step t (OMarshal p false)) = OBytes (enc s).
Proof.
  intros Hs Hf. cbn [step]. unfold with_sub. rewrite Hs.
  pose proof (marshal_spec s Hf) as [H _].
  destruct (marshal false s) as [r s']. cbn [fst snd] in *. subst r. reflexivity.
Qed.

Lemma step_size t p s : subtree p t = Some s -> fits s ->
  snd (step t (OSize p false)) = OSz (len (enc s)).
Proof.
  intros Hs Hf. cbn [step]. unfold with_sub, size_op. rewrite Hs.
  pose proof (size_pass_spec false s Hf ltac:(discriminate)) as [H _].
  destruct (size_pass false s) as [r s']. cbn [fst snd] in *. subst r. reflexivity.
Qed.

(* every Marshal / Size observation along a history is current *)
Fixpoint observations_current (ops : list op) (t : node) : Prop :=
  match ops with
  | [] => True
  | o :: r =>
      match o with
      | OMarshal p false => forall s, subtree p t = Some s -> fits s -> snd (step t o) = OBytes (enc s)
      | OSize p false => forall s, subtree p t = Some s -> fits s -> snd (step t o) = OSz (len (enc s))
      | OMarshal p true => forall s b, subtree p t = Some s -> fits s -> snd (step t o) = OBytes b -> b = enc s
      | _ => True
      end /\ observations_current r (fst (step t o))
  end.

Lemma history_current : forall ops t, observations_current ops t.
Proof.
  induction ops as [|o r IH]; intros t; [exact I|].
  cbn [observations_current]. split; [|apply IH].
  destruct o; try exact I; destruct uc.
  - exact I.
  - intros s Hs Hf. apply step_size; assumption.
  - intros s b Hs Hf. cbn [step]. unfold with_sub. rewrite Hs.
    pose proof (marshal_sound true s) as H.
    destruct (marshal true s) as [[b'| |] s']; cbn [fst snd obs_of_ares] in *; try discriminate.
    intros E; inversion E; subst. apply H; auto.
  - intros s Hs Hf. apply step_marshal; assumption.
Qed.

(* ---------- Equal and Clone ---------- *)
Lemma bytes_eqb_eq a b : bytes_eqb a b = true <-> a = b.
Proof. unfold bytes_eqb. destruct (list_eq_dec Byte.byte_eq_dec a b); split; congruence. Qed.

Lemma kind_eqb_eq a b : kind_eqb a b = true <-> a = b.
Proof.
  destruct a, b; cbn [kind_eqb]; rewrite ?andb_true_iff, ?bytes_eqb_eq;
    (split; [try discriminate; intuition congruence | intros H; inversion H; auto]).
Qed.

Lemma equal_iff : forall a b, equal a b = true <-> clone a = clone b.
Proof.
  induction a as [ca ia IH] using node_ind2. intros [cb ib].
  rewrite !clone_node. cbn [equal].
  match goal with |- ?go ia ib = true <-> _ => set (g := go) end.
  assert (G : g ia ib = true <-> map (clone_item clone) ia = map (clone_item clone) ib).
  { clear ca cb. revert ib. induction ia as [|x ra IHr]; intros [|y rb].
    - cbn. tauto.
    - cbn. split; discriminate.
    - destruct x; cbn; split; discriminate.
    - inversion IH as [|? ? IHx IHrest]; subst. specialize (IHr IHrest rb).
      destruct x as [bx|kx cx], y as [by_|ky cy]; cbn [map clone_item].
      + change (g (Raw bx :: ra) (Raw by_ :: rb)) with (bytes_eqb bx by_ && g ra rb).
        rewrite andb_true_iff, bytes_eqb_eq, IHr. split.
        * intros [-> ->]; reflexivity.
        * intros H; inversion H; auto.
      + change (g (Raw bx :: ra) (Sub ky cy :: rb)) with false. split; discriminate.
      + change (g (Sub kx cx :: ra) (Raw by_ :: rb)) with false. split; discriminate.
      + change (g (Sub kx cx :: ra) (Sub ky cy :: rb)) with (kind_eqb kx ky && equal cx cy && g ra rb).
        cbn [item_all] in IHx.
        rewrite !andb_true_iff, kind_eqb_eq, IHx, IHr. split.
        * intros [[-> ->] ->]; reflexivity.
        * intros H; inversion H; auto. }
  rewrite G. split; [intros ->; reflexivity | intros H; inversion H; reflexivity].
Qed.

(* Equal does not depend on any cache *)
Lemma equal_cache_independent a a' b b' : clone a = clone a' -> clone b = clone b' -> equal a b = equal a' b'.
Proof.
  intros Ha Hb. destruct (equal a b) eqn:E.
  - symmetry. apply equal_iff. apply equal_iff in E. congruence.
  - destruct (equal a' b') eqn:E'; [|reflexivity].
    apply equal_iff in E'. assert (equal a b = true) by (apply equal_iff; congruence). congruence.
Qed.

Lemma clone_caches_zero : forall n, Forall (fun c => c = 0) (caches (clone n)).
Proof.
  induction n as [c its IH] using node_ind2.
  rewrite clone_node. cbn [caches]. constructor; [reflexivity|].
  rewrite map_map. apply Forall_concat. rewrite Forall_map.
  eapply Forall_impl; [|exact IH]. intros [b|k ch]; cbn; auto.
Qed.

Lemma clone_marshal n : fits n -> fst (marshal false (clone n)) = ABytes (enc n).
Proof.
  intros Hf. assert (Hf' : fits (clone n)) by (unfold fits; rewrite enc_clone; exact Hf).
  destruct (marshal_spec (clone n) Hf') as [H _]. rewrite H, enc_clone. reflexivity.
Qed.
