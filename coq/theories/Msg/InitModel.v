(* InitModel — required-field checks (C10).  Definitions only.

   msg_check_init S tid v       proto.CheckInitialized: the tree walk of proto/checkinit.go
                                checkInitializedSlow and internal/impl/checkinit.go
                                checkInitializedPointer: every required field of the message is
                                present, and every message value below it (singular, list element,
                                map value, oneof member, extension) is initialized.
   msg_init_flag S ni limit tid bs
                                the UnmarshalInitialized output flag of the table-driven eager
                                decoder (internal/impl/decode.go unmarshalPointerEager and the
                                field coders), computed from the input bytes alone:
       requiredMask |= requiredBit of every known field that was decoded; requiredBit of the n-th
       required field (declaration order) is 1 << (n-1) as a uint64, i.e. 0 for n > 64; the count
       numRequiredFields saturates at 255 (validate.go newFieldValidationInfo); at the end
       popcount(requiredMask) must equal numRequiredFields;
       a message-typed occurrence clears the flag when its own flag is false (also for every member
       of a oneof: finding FA2 -- isInit installed on the first member's coder only -- is repaired);
       a map entry with message value: the entry is initialized as soon as ONE occurrence of its
       value is (codec_map.go consumeMapOfMessage; finding FA5), an entry without value is not;
       this clears the flag only if the value type needs an init check ([ni], see below).
     [ni tid] is needsInitCheck of the type (a required field or an extension range is reachable);
     it is an input because extension ranges are not part of the schema table.
   msg_unmarshal / msg_marshal_checked   the AllowPartial logic of proto.Unmarshal / proto.Marshal
   msg_check_init_lazy, msg_unmarshal_lazy
                                the lazy path: undecoded [lazy=true] fields are skipped by the
                                later check when the message was decoded without AllowPartial
                                (checkinit.go: "it was checked on unmarshal"; finding FA1). *)
From Coq Require Import List NArith ZArith Bool.
From PB Require Import Base.PBytes Wire.WireModel Msg.MsgSchema Msg.MsgValue Msg.MsgEnc Msg.MsgDec.
Import ListNotations.
Open Scope N_scope.

Definition msg_is_req (fd : fdesc) : bool := match f_card fd with CReq => true | _ => false end.
Definition msg_present (fs : fields) (num : N) : bool :=
  match msg_fget fs num with [] => false | _ => true end.

(* ---------- the tree walk ---------- *)
Section CheckField.
  Variable ck : nat -> value -> bool.
  Definition msg_check_elem (t : nat) (x : value) : bool :=
    match x with VEntry _ x' => ck t x' | _ => ck t x end.
  Definition msg_check_chunk (md : mdesc) (p : N * list value) : bool :=
    match msg_find_field md (fst p) with
    | Some fd =>
      match f_kind fd with
      | KMsg t | KGrp t => forallb (msg_check_elem t) (snd p)
      | KS _ => true
      end
    | None => true
    end.
End CheckField.

Definition msg_required_present (md : mdesc) (fs : fields) : bool :=
  forallb (fun fd => negb (msg_is_req fd) || msg_present fs (f_num fd)) md.

Fixpoint msg_check_init (S : schema) (tid : nat) (v : value) {struct v} : bool :=
  match v with
  | VMsg fs _ =>
    msg_required_present (nth tid S []) fs
    && forallb (fun p => msg_check_chunk (msg_check_init S) (nth tid S []) p) fs
  | _ => true
  end.

(* ---------- requiredMask accounting ---------- *)
(* 1-based index of field [num] among the required fields of md (extensions are not coder fields);
   0: not a required field, or beyond the 255th *)
Definition msg_req_counted (fd : fdesc) : bool := negb (f_ext fd) && msg_is_req fd.
Fixpoint msg_req_index (md : mdesc) (num : N) (n : N) : N :=
  match md with
  | [] => 0
  | fd :: r =>
    let hit := msg_req_counted fd && (n <? 255) in
    if f_num fd =? num then (if hit then n + 1 else 0)
    else msg_req_index r num (if hit then n + 1 else n)
  end.

(* 1 << (idx-1) in uint64 arithmetic *)
Definition msg_req_bit (idx : N) : N :=
  if idx =? 0 then 0 else if idx <=? 64 then 2 ^ (idx - 1) else 0.

Fixpoint msg_count_required (md : mdesc) : N :=
  match md with
  | [] => 0
  | fd :: r => (if msg_req_counted fd then 1 else 0) + msg_count_required r
  end.
Definition msg_num_required (md : mdesc) : N := N.min 255 (msg_count_required md).

Fixpoint msg_popcount_pos (p : positive) : N :=
  match p with
  | xH => 1
  | xO q => msg_popcount_pos q
  | xI q => 1 + msg_popcount_pos q
  end.
Definition msg_popcount (n : N) : N := match n with N0 => 0 | Npos p => msg_popcount_pos p end.

Definition msg_ist := (N * bool)%type.   (* requiredMask, initialized *)

Definition msg_init_t := nat -> N -> list byte -> list byte -> dres (bool * list byte).

(* value occurrences of one map entry: initialized as soon as one occurrence is *)
Fixpoint msg_ientry (g : list byte) (im : list byte -> dres bool) (bs : list byte) (seen : bool)
  : dres bool :=
  match g with
  | [] => DErr DFuel
  | _ :: g' =>
    match bs with
    | [] => DOk seen
    | _ =>
      match dec_tag bs with
      | Err _ => DErr DParse
      | Ok (num, typ, r) =>
        if msg_max_num <? num then DErr DParse else
        match parse_val default_dep num typ r with
        | Err _ => DErr DParse
        | Ok (w, r') =>
          if num =? 2 then
            match w with
            | WLen payload =>
              match im payload with
              | DOk f => msg_ientry g' im r' (seen || f)
              | DErr e => DErr e
              end
            | _ => msg_ientry g' im r' seen
            end
          else msg_ientry g' im r' seen
        end
      end
    end
  end.

Section IStep.
  Variable ni : nat -> bool.
  Variable md : mdesc.
  Variable isub : msg_init_t.
  Variable isub2 : option msg_init_t.

  Definition msg_iskip (num typ : N) (r : list byte) (st : msg_ist) : dres (msg_ist * list byte) :=
    match parse_val default_dep num typ r with
    | Err _ => DErr DParse
    | Ok (_, r') => DOk (st, r')
    end.

  Definition msg_ihit (fd : fdesc) (st : msg_ist) : msg_ist :=
    (N.lor (fst st) (if f_ext fd then 0 else msg_req_bit (msg_req_index md (f_num fd) 0)), snd st).

  (* a decoded message-typed occurrence whose own flag is f *)
  Definition msg_iupd (fd : fdesc) (f : bool) (st : msg_ist) : msg_ist :=
    if f then st else (fst st, false).

  Definition msg_iwhole (im : msg_init_t) (tid : nat) (payload : list byte) : dres bool :=
    match im tid 0 (x00 :: payload) payload with
    | DOk (f, _) => DOk f
    | DErr e => DErr e
    end.

  Definition msg_istep (num typ : N) (r : list byte) (st : msg_ist) : dres (msg_ist * list byte) :=
    match msg_find_field md num with
    | None => msg_iskip num typ r st
    | Some fd =>
      match f_card fd with
      | CMap _ _ _ =>
        match isub2 with
        | None => DErr DDepth
        | Some im2 =>
          if typ =? 2 then
            match dec_bytes r with
            | Err _ => DErr DParse
            | Ok (payload, r') =>
              match f_kind fd with
              | KMsg tid =>
                match msg_ientry (x00 :: payload) (msg_iwhole im2 tid) payload false with
                | DErr e => DErr e
                | DOk f => DOk ((fst st, snd st && (f || negb (ni tid))), r')
                end
              | _ => DOk (st, r')
              end
            end
          else msg_iskip num typ r st
        end
      | c =>
        match f_kind fd with
        | KMsg tid =>
          if typ =? 2 then
            match dec_bytes r with
            | Err _ => DErr DParse
            | Ok (payload, r') =>
              match msg_iwhole isub tid payload with
              | DErr e => DErr e
              | DOk f => DOk (msg_iupd fd f (msg_ihit fd st), r')
              end
            end
          else msg_iskip num typ r st
        | KGrp tid =>
          if typ =? 3 then
            match isub tid num (x00 :: r) r with
            | DErr e => DErr e
            | DOk (f, r') => DOk (msg_iupd fd f (msg_ihit fd st), r')
            end
          else msg_iskip num typ r st
        | KS sk =>
          if typ =? sk_wt sk then
            match parse_val 0 num typ r with
            | Err _ => DErr DParse
            | Ok (w, r') =>
              match msg_dec_scalar sk (msg_field_utf8 false fd) w with
              | None => msg_iskip num typ r st
              | Some (DErr e) => DErr e
              | Some (DOk _) => DOk (msg_ihit fd st, r')
              end
            end
          else if (typ =? 2) && msg_packable sk && card_repeated c then
            match dec_bytes r with
            | Err _ => DErr DParse
            | Ok (_, r') => DOk (msg_ihit fd st, r')
            end
          else msg_iskip num typ r st
        end
      end
    end.
End IStep.

Definition msg_ifinish (md : mdesc) (st : msg_ist) : bool :=
  snd st && ((msg_num_required md =? 0) || (msg_popcount (fst st) =? msg_num_required md)).

(* the tag loop, parameterised by the step function of the message type *)
Fixpoint msg_iloop (step : N -> N -> list byte -> msg_ist -> dres (msg_ist * list byte)) (grp : N)
         (g bs : list byte) (st : msg_ist) {struct g} : dres (msg_ist * list byte) :=
  match g with
  | [] => DErr DFuel
  | _ :: g' =>
    match bs with
    | [] => if grp =? 0 then DOk (st, []) else DErr DParse
    | _ =>
      match dec_tag bs with
      | Err _ => DErr DParse
      | Ok (num, typ, r) =>
        if msg_max_num <? num then DErr DParse
        else if typ =? 4 then (if num =? grp then DOk (st, r) else DErr DParse)
        else
          match step num typ r st with
          | DErr e => DErr e
          | DOk (st', r') => msg_iloop step grp g' r' st'
          end
      end
    end
  end.

Fixpoint msg_init_msg (S : schema) (ni : nat -> bool) (dep : nat) {struct dep} : msg_init_t :=
  match dep with
  | O => fun _ _ _ _ => DErr DDepth
  | Datatypes.S d => fun tid grp g bs =>
    match nth_error S tid with
    | None => DErr DSchema
    | Some md =>
      let isub2 := match d with O => None | Datatypes.S d1 => Some (msg_init_msg S ni d1) end in
      match msg_iloop (msg_istep ni md (msg_init_msg S ni d) isub2) grp g bs (0, true) with
      | DErr e => DErr e
      | DOk (st, rest) => DOk (msg_ifinish md st, rest)
      end
    end
  end.

Definition msg_init_flag (S : schema) (ni : nat -> bool) (limit : nat) (tid : nat) (bs : list byte) : dres bool :=
  match msg_init_msg S ni limit tid 0 (x00 :: bs) bs with
  | DOk (f, _) => DOk f
  | DErr e => DErr e
  end.

(* ---------- the entry points ---------- *)
Inductive ures := UOk (v : value) | URequired | UDecode (e : derr).

(* proto.Unmarshal, table-driven path, eager: proto/decode.go unmarshal *)
Definition msg_unmarshal (S : schema) (ni : nat -> bool) (limit tid : nat) (allow_partial : bool) (bs : list byte) : ures :=
  match msg_decode false S limit tid bs with
  | DErr e => UDecode e
  | DOk v =>
    if allow_partial then UOk v
    else match msg_init_flag S ni limit tid bs with
         | DOk true => UOk v
         | _ => if msg_check_init S tid v then UOk v else URequired
         end
  end.

(* reflection path: no flag, always the tree walk *)
Definition msg_unmarshal_slow (S : schema) (limit tid : nat) (allow_partial : bool) (bs : list byte) : ures :=
  match msg_decode true S limit tid bs with
  | DErr e => UDecode e
  | DOk v => if allow_partial || msg_check_init S tid v then UOk v else URequired
  end.

(* proto.Marshal *)
Definition msg_marshal_checked (S : schema) (tid : nat) (allow_partial : bool) (v : value) : option (list byte) :=
  if allow_partial || msg_check_init S tid v then Some (msg_encode S tid v) else None.

(* ---------- lazy decoding ---------- *)
(* the check made on a message that was decoded lazily without AllowPartial: undecoded lazy fields
   are skipped ("it was checked on unmarshal") *)
Section CheckLazy.
  Variable ck : nat -> value -> bool.
  Definition msg_check_chunk_lazy (md : mdesc) (p : N * list value) : bool :=
    match msg_find_field md (fst p) with
    | Some fd =>
      if f_lazy fd then true
      else match f_kind fd with
           | KMsg t | KGrp t => forallb (msg_check_elem ck t) (snd p)
           | KS _ => true
           end
    | None => true
    end.
End CheckLazy.
Fixpoint msg_check_init_lazy (S : schema) (tid : nat) (v : value) {struct v} : bool :=
  match v with
  | VMsg fs _ =>
    msg_required_present (nth tid S []) fs
    && forallb (fun p => msg_check_chunk_lazy (msg_check_init_lazy S) (nth tid S []) p) fs
  | _ => true
  end.

(* proto.Unmarshal with lazy decoding on, for input in which every lazy field validated (they all
   stay undecoded): the flag is the conjunction computed by the validator, which for the inputs
   considered here agrees with [msg_init_flag]; the fall-back check skips the lazy fields *)
Definition msg_unmarshal_lazy (S : schema) (ni : nat -> bool) (limit tid : nat) (allow_partial : bool) (bs : list byte) : ures :=
  match msg_decode false S limit tid bs with
  | DErr e => UDecode e
  | DOk v =>
    if allow_partial then UOk v
    else match msg_init_flag S ni limit tid bs with
         | DOk true => UOk v
         | _ => if msg_check_init_lazy S tid v then UOk v else URequired
         end
  end.
