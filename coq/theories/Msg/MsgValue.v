(* MsgValue — canonical message values and the scalar codec layer.  Definitions only.

   API
     scalar               SZ z (signed kinds, enum) | SN n (unsigned kinds, float/double BITS)
                          | SB b | SBy bytes (string, bytes)
     value                VS scalar | VMsg fields unknown | VEntry key value
                          [fields : list (N * list value)] is sorted by field number; the list
                          of a singular field has one element, of a repeated field its elements,
                          of a map field [VEntry]s sorted by key ([msg_scmp]); never empty.
                          [unknown] is the raw unknown-field byte string.
     sk_enc sk s : wval   wire value of a scalar;  sk_dec sk w : option scalar (None = the wire
                          type does not fit the kind);  sk_ok sk s : the kind's range
     sk_zero, msg_scalar_is_zero   default / implicit-presence zero test
     msg_scmp             key order of deterministic marshalling (bool, signed, unsigned, bytewise)
     msg_fget / msg_fset / msg_fdel   the sorted association list
     msg_map_put          upsert of a map entry *)
From Coq Require Import List NArith ZArith Bool.
From PB Require Import Base.PBytes Wire.WireModel Msg.MsgSchema.
Import ListNotations.
Open Scope N_scope.

Inductive scalar := SZ (z : Z) | SN (n : N) | SB (b : bool) | SBy (bs : list byte).

Inductive value :=
| VS (s : scalar)
| VMsg (fs : list (N * list value)) (unk : list byte)
| VEntry (k : scalar) (v : value).

Definition fields := list (N * list value).

(* ---------- fixed-width conversions ---------- *)
Definition msg_u64 (z : Z) : N := Z.to_N (z mod 18446744073709551616).
Definition msg_u32 (z : Z) : N := Z.to_N (z mod 4294967296).
Definition msg_s64 (n : N) : Z :=
  let z := Z.of_N (n mod 18446744073709551616) in
  if (z <? 9223372036854775808)%Z then z else (z - 18446744073709551616)%Z.
Definition msg_s32 (n : N) : Z :=
  let z := Z.of_N (n mod 4294967296) in
  if (z <? 2147483648)%Z then z else (z - 4294967296)%Z.

(* ---------- scalar codec ---------- *)
Definition sk_enc (sk : skind) (s : scalar) : wval :=
  match sk, s with
  | SkInt32, SZ z | SkInt64, SZ z | SkEnum, SZ z => WVarint (msg_u64 z)
  | SkUint32, SN n | SkUint64, SN n => WVarint n
  | SkSint32, SZ z | SkSint64, SZ z => WVarint (zz_enc z)
  | SkBool, SB b => WVarint (enc_bool b)
  | SkFixed32, SN n | SkFloat, SN n => WFixed32 (enc_fixed32 n)
  | SkSfixed32, SZ z => WFixed32 (enc_fixed32 (msg_u32 z))
  | SkFixed64, SN n | SkDouble, SN n => WFixed64 (enc_fixed64 n)
  | SkSfixed64, SZ z => WFixed64 (enc_fixed64 (msg_u64 z))
  | SkString, SBy b | SkBytes, SBy b => WLen b
  | _, _ => WVarint 0
  end.

Definition sk_dec (sk : skind) (w : wval) : option scalar :=
  match sk, w with
  | SkInt32, WVarint v | SkEnum, WVarint v => Some (SZ (msg_s32 v))
  | SkInt64, WVarint v => Some (SZ (msg_s64 v))
  | SkUint32, WVarint v => Some (SN (v mod 4294967296))
  | SkUint64, WVarint v => Some (SN v)
  | SkSint32, WVarint v => Some (SZ (zz_dec (v mod 4294967296)))
  | SkSint64, WVarint v => Some (SZ (zz_dec v))
  | SkBool, WVarint v => Some (SB (dec_bool v))
  | SkFixed32, WFixed32 b | SkFloat, WFixed32 b => Some (SN (dec_le b))
  | SkSfixed32, WFixed32 b => Some (SZ (msg_s32 (dec_le b)))
  | SkFixed64, WFixed64 b | SkDouble, WFixed64 b => Some (SN (dec_le b))
  | SkSfixed64, WFixed64 b => Some (SZ (msg_s64 (dec_le b)))
  | SkString, WLen b | SkBytes, WLen b => Some (SBy b)
  | _, _ => None
  end.

(* the values a Go field of this kind can hold *)
Definition sk_ok (sk : skind) (s : scalar) : bool :=
  match sk, s with
  | SkInt32, SZ z | SkEnum, SZ z | SkSint32, SZ z | SkSfixed32, SZ z =>
      ((-2147483648 <=? z) && (z <? 2147483648))%Z
  | SkInt64, SZ z | SkSint64, SZ z | SkSfixed64, SZ z =>
      ((-9223372036854775808 <=? z) && (z <? 9223372036854775808))%Z
  | SkUint32, SN n | SkFixed32, SN n | SkFloat, SN n => n <? 4294967296
  | SkUint64, SN n | SkFixed64, SN n | SkDouble, SN n => n <? 18446744073709551616
  | SkBool, SB _ => true
  | SkString, SBy _ | SkBytes, SBy _ => true
  | _, _ => false
  end.

Definition sk_zero (sk : skind) : scalar :=
  match sk with
  | SkInt32 | SkInt64 | SkEnum | SkSint32 | SkSint64 | SkSfixed32 | SkSfixed64 => SZ 0
  | SkBool => SB false
  | SkString | SkBytes => SBy []
  | _ => SN 0
  end.

Definition msg_scalar_is_zero (s : scalar) : bool :=
  match s with
  | SZ z => (z =? 0)%Z
  | SN n => n =? 0
  | SB b => negb b
  | SBy b => match b with [] => true | _ => false end
  end.

(* ---------- map key order ---------- *)
Fixpoint msg_bytes_cmp (a b : list byte) : comparison :=
  match a, b with
  | [], [] => Eq
  | [], _ => Lt
  | _, [] => Gt
  | x :: a', y :: b' =>
    match b2n x ?= b2n y with Eq => msg_bytes_cmp a' b' | c => c end
  end.
Definition msg_scmp (a b : scalar) : comparison :=
  match a, b with
  | SZ x, SZ y => (x ?= y)%Z
  | SN x, SN y => x ?= y
  | SB x, SB y => match x, y with false, true => Lt | true, false => Gt | _, _ => Eq end
  | SBy x, SBy y => msg_bytes_cmp x y
  | _, _ => Eq
  end.

(* ---------- sorted association list of fields ---------- *)
Fixpoint msg_fget (fs : fields) (num : N) : list value :=
  match fs with
  | [] => []
  | (k, vs) :: r => if num =? k then vs else msg_fget r num
  end.
Fixpoint msg_fset (fs : fields) (num : N) (vs : list value) : fields :=
  match fs with
  | [] => [(num, vs)]
  | (k, old) :: r =>
    if num <? k then (num, vs) :: fs
    else if num =? k then (k, vs) :: r
    else (k, old) :: msg_fset r num vs
  end.
Fixpoint msg_fdel (fs : fields) (num : N) : fields :=
  match fs with
  | [] => []
  | (k, old) :: r => if num =? k then r else (k, old) :: msg_fdel r num
  end.

(* upsert of one entry in a key-sorted entry list *)
Fixpoint msg_map_put (es : list value) (key : scalar) (v : value) : list value :=
  match es with
  | [] => [VEntry key v]
  | e :: r =>
    match e with
    | VEntry k0 _ =>
      match msg_scmp key k0 with
      | Lt => VEntry key v :: es
      | Eq => VEntry key v :: r
      | Gt => e :: msg_map_put r key v
      end
    | _ => e :: msg_map_put r key v
    end
  end.

Definition msg_macc := (fields * list byte)%type.
Definition msg_macc_of (v : value) : msg_macc :=
  match v with VMsg fs u => (fs, u) | _ => ([], []) end.
Definition msg_empty : value := VMsg [] [].
