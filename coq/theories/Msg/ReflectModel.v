(* ReflectModel — the protoreflect contract as operations on the abstract message of the codec
   model (C28).  Definitions only.

   The abstract message of Msg/MsgValue.v ([VMsg fields unknown]: the populated fields only, sorted
   by number, no empty lists) IS the contract: an operation of protoreflect.Message / List / Map
   is a function  state -> state * result.  reflect/protoreflect/value.go is the text that is
   modelled; the harness family "refl" runs every flavour of the implementation against it.

   API
     rdefs                      explicit defaults and first enum values, per message type
     pstep, rop, lop, mop       path steps into sub-messages, message / list / map operations
     rout                       results (values, booleans, numbers, panic)
     refl_step S D tid ro op m  one operation on one message ([ro]: m is the read-only empty
                                message that Get returns for an unpopulated message field)
     refl_apply S D w path op m the operation applied to the sub-message reached by [path]
                                (w = true: every step uses Mutable and therefore populates;
                                 w = false: every step uses Get)
     refl_run S D m steps       a whole history: final state and the result of every operation
     refl_dumps op              operations after which the harness dumps the whole message
     refl_wf S tid m            the invariant of abstract states (sorted numbers, no empty field,
                                declared fields only, oneof exclusivity, implicit fields non-zero) *)
From Coq Require Import List NArith ZArith Bool.
From PB Require Import Base.PBytes Wire.WireModel Msg.MsgSchema Msg.MsgValue.
Import ListNotations.
Open Scope N_scope.

Record rdefs := mkRD {
  rd_def : list (list (N * scalar));   (* type index -> field number -> explicit default *)
  rd_enum0 : list (list (N * Z))       (* type index -> field number -> first value of the enum *)
}.

Fixpoint refl_assoc {A} (l : list (N * A)) (n : N) : option A :=
  match l with
  | [] => None
  | (k, a) :: r => if n =? k then Some a else refl_assoc r n
  end.

(* default of a singular scalar field *)
Definition refl_default (D : rdefs) (tid : nat) (num : N) (sk : skind) : scalar :=
  match refl_assoc (nth tid (rd_def D) []) num with
  | Some s => s
  | None => sk_zero sk
  end.

(* NewElement of a list: first enum value / zero *)
Definition refl_elem_zero (D : rdefs) (tid : nat) (num : N) (sk : skind) : scalar :=
  match sk with
  | SkEnum => match refl_assoc (nth tid (rd_enum0 D) []) num with Some z => SZ z | None => SZ 0 end
  | _ => sk_zero sk
  end.

Definition refl_is_map (fd : fdesc) : bool :=
  match f_card fd with CMap _ _ _ => true | _ => false end.
Definition refl_is_list (fd : fdesc) : bool := card_repeated (f_card fd).
Definition refl_kind_is_msg (k : kind) : bool :=
  match k with KS _ => false | _ => true end.
Definition refl_is_msg (fd : fdesc) : bool :=
  refl_kind_is_msg (f_kind fd) && negb (refl_is_map fd) && negb (refl_is_list fd).
Definition refl_kind_tid (k : kind) : nat :=
  match k with KS _ => O | KMsg t => t | KGrp t => t end.

(* ---------- operations ---------- *)
Inductive lop :=
| LLen | LGet (i : N) | LSet (i : N) (v : value) | LAppend (v : value) | LTruncate (n : N)
| LAppendMutable | LNewElement.

Inductive mop :=
| MLen | MGet (k : scalar) | MSet (k : scalar) (v : value) | MClear (k : scalar) | MHas (k : scalar)
| MRange | MMutable (k : scalar) | MNewValue.

Inductive rop :=
| RHas (f : N)
| RGet (f : N)
| RSet (f : N) (vs : list value)   (* singular: one value; list: the elements; map: the entries *)
| RClear (f : N)
| RMutable (f : N)
| RNewField (f : N)
| RWhich (o : N)
| RRange
| RGetUnknown
| RSetUnknown (b : list byte)
| RList (f : N) (viaget : bool) (o : lop)    (* the list is taken from Get / from Mutable *)
| RMap (f : N) (viaget : bool) (o : mop).

Inductive pstep := PF (f : N) | PL (f : N) (i : N) | PM (f : N) (k : scalar).

Inductive rout :=
| ONone
| OBool (b : bool)
| ONum (n : N)
| OVal (valid : bool) (vs : list value)
| OOpt (o : option value)
| OBytes (b : list byte)
| OState (fs : fields) (unk : list byte)    (* Range: the populated fields with their values *)
| OPanic.

(* ---------- helpers on fields ---------- *)
Definition refl_has (fs : fields) (num : N) : bool :=
  match msg_fget fs num with [] => false | _ => true end.

Definition refl_in_oneof (md : mdesc) (i : N) (num : N) : bool :=
  match msg_find_field md num with
  | Some fd => match f_oneof fd with Some j => j =? i | None => false end
  | None => false
  end.

(* clearOtherOneofFields *)
Definition refl_oneof_clear (md : mdesc) (fd : fdesc) (fs : fields) : fields :=
  match f_oneof fd with
  | None => fs
  | Some i => filter (fun p => negb (refl_in_oneof md i (fst p)) || (fst p =? f_num fd)) fs
  end.

(* store a non-empty value list / clear on an empty one *)
Definition refl_store (md : mdesc) (fd : fdesc) (fs : fields) (vs : list value) : fields :=
  match vs with
  | [] => msg_fdel fs (f_num fd)
  | _ => msg_fset (refl_oneof_clear md fd fs) (f_num fd) vs
  end.

Definition refl_set (md : mdesc) (fd : fdesc) (fs : fields) (vs : list value) : fields :=
  match f_card fd, vs with
  | CImp, [VS s] => if msg_scalar_is_zero s then msg_fdel fs (f_num fd) else refl_store md fd fs vs
  | _, _ => refl_store md fd fs vs
  end.

Fixpoint refl_which (md : mdesc) (o : N) (fs : fields) : N :=
  match md with
  | [] => 0
  | fd :: r =>
    if match f_oneof fd with Some j => j =? o | None => false end && refl_has fs (f_num fd)
    then f_num fd else refl_which r o fs
  end.

Fixpoint refl_replace_nth (l : list value) (i : nat) (v : value) : list value :=
  match l, i with
  | [], _ => []
  | _ :: r, O => v :: r
  | x :: r, Datatypes.S j => x :: refl_replace_nth r j v
  end.

Definition refl_scalar_eqb (a b : scalar) : bool :=
  match a, b with
  | SZ x, SZ y => (x =? y)%Z
  | SN x, SN y => x =? y
  | SB x, SB y => Bool.eqb x y
  | SBy x, SBy y => match msg_bytes_cmp x y with Eq => true | _ => false end
  | _, _ => false
  end.

Fixpoint refl_map_get (es : list value) (k : scalar) : option value :=
  match es with
  | [] => None
  | VEntry k0 v :: r => if refl_scalar_eqb k k0 then Some v else refl_map_get r k
  | _ :: r => refl_map_get r k
  end.
Fixpoint refl_map_del (es : list value) (k : scalar) : list value :=
  match es with
  | [] => []
  | VEntry k0 v :: r => if refl_scalar_eqb k k0 then r else VEntry k0 v :: refl_map_del r k
  | e :: r => e :: refl_map_del r k
  end.

(* ---------- Get ---------- *)
Definition refl_get (D : rdefs) (tid : nat) (fd : fdesc) (fs : fields) : rout :=
  match msg_fget fs (f_num fd) with
  | [] =>
    if refl_is_map fd || refl_is_list fd then OVal false []
    else match f_kind fd with
         | KS sk => OVal true [VS (refl_default D tid (f_num fd) sk)]
         | _ => OVal false [msg_empty]
         end
  | vs => OVal true vs
  end.

Definition refl_newfield (D : rdefs) (tid : nat) (fd : fdesc) : rout :=
  if refl_is_map fd || refl_is_list fd then OVal true []
  else match f_kind fd with
       | KS sk => OVal true [VS (refl_default D tid (f_num fd) sk)]
       | _ => OVal true [msg_empty]
       end.

(* ---------- list operations ----------
   [refl_list_edit]: the operation on the element list alone; the first component is the new
   element list (None: unchanged).  lro: the list is the read-only empty list *)
Definition refl_list_edit (D : rdefs) (tid : nat) (fd : fdesc) (lro : bool) (o : lop) (vs : list value)
    : option (list value) * rout :=
  let len := N.of_nat (length vs) in
  match o with
  | LLen => (None, ONum len)
  | LGet i => match nth_error vs (N.to_nat i) with Some v => (None, OVal true [v]) | None => (None, OPanic) end
  | LSet i v => if i <? len then (Some (refl_replace_nth vs (N.to_nat i) v), ONone) else (None, OPanic)
  | LAppend v => if lro then (None, OPanic) else (Some (vs ++ [v]), ONone)
  | LTruncate n =>
    if lro then (None, OPanic)
    else if n <=? len then (Some (firstn (N.to_nat n) vs), ONone) else (None, OPanic)
  | LAppendMutable =>
    if lro then (None, OPanic)
    else if refl_kind_is_msg (f_kind fd) then (Some (vs ++ [msg_empty]), ONone)
    else (None, OPanic)
  | LNewElement =>
    match f_kind fd with
    | KS sk => (None, OVal true [VS (refl_elem_zero D tid (f_num fd) sk)])
    | _ => (None, OVal true [msg_empty])
    end
  end.

Definition refl_list_op (D : rdefs) (tid : nat) (md : mdesc) (fd : fdesc) (lro : bool) (o : lop)
    (fs : fields) : fields * rout :=
  let '(r, out) := refl_list_edit D tid fd lro o (msg_fget fs (f_num fd)) in
  (match r with Some vs' => refl_store md fd fs vs' | None => fs end, out).

Definition refl_map_vdef (fd : fdesc) : Z :=
  match f_card fd with CMap _ _ vdef => vdef | _ => 0%Z end.

Definition refl_map_edit (fd : fdesc) (mro : bool) (o : mop) (es : list value)
    : option (list value) * rout :=
  match o with
  | MLen => (None, ONum (N.of_nat (length es)))
  | MGet k => (None, OOpt (refl_map_get es k))
  | MHas k => (None, OBool (match refl_map_get es k with Some _ => true | None => false end))
  | MRange => (None, OVal true es)
  | MSet k v => if mro then (None, OPanic) else (Some (msg_map_put es k v), ONone)
  | MClear k => if mro then (None, ONone) else (Some (refl_map_del es k), ONone)
  | MMutable k =>
    if mro then (None, OPanic)
    else if refl_kind_is_msg (f_kind fd) then
      match refl_map_get es k with
      | Some v => (None, OVal true [v])
      | None => (Some (msg_map_put es k msg_empty), OVal true [msg_empty])
      end
    else (None, OPanic)
  | MNewValue =>
    match f_kind fd with
    | KS SkEnum => (None, OVal true [VS (SZ (refl_map_vdef fd))])
    | KS sk => (None, OVal true [VS (sk_zero sk)])
    | _ => (None, OVal true [msg_empty])
    end
  end.

Definition refl_map_op (md : mdesc) (fd : fdesc) (mro : bool) (o : mop) (fs : fields) : fields * rout :=
  let '(r, out) := refl_map_edit fd mro o (msg_fget fs (f_num fd)) in
  (match r with Some es' => refl_store md fd fs es' | None => fs end, out).

(* ---------- the invariant of abstract states ---------- *)
Definition refl_oneofs_ok (md : mdesc) (fs : fields) : bool :=
  forallb (fun p =>
    match msg_find_field md (fst p) with
    | Some fd =>
      match f_oneof fd with
      | None => true
      | Some i => forallb (fun q => (fst q =? fst p) || negb (refl_in_oneof md i (fst q))) fs
      end
    | None => false
    end) fs.

Fixpoint refl_keys_sorted (lo : option N) (fs : fields) : bool :=
  match fs with
  | [] => true
  | (k, vs) :: r =>
    match lo with Some l => l <? k | None => true end
    && match vs with [] => false | _ => true end
    && refl_keys_sorted (Some k) r
  end.

Definition refl_level_wf (md : mdesc) (fs : fields) : bool :=
  refl_keys_sorted None fs && refl_oneofs_ok md fs.

(* the recursive invariant: every message of the tree is well formed for its type *)
Section WfVals.
  Variable wf : nat -> value -> bool.
  Definition refl_wf_val (t : nat) (v : value) : bool :=
    match v with VEntry _ v' => wf t v' | VS _ => false | VMsg _ _ => wf t v end.
  Definition refl_wf_vals (fd : fdesc) (vs : list value) : bool :=
    match f_kind fd with
    | KS _ => true
    | KMsg t | KGrp t => forallb (refl_wf_val t) vs
    end.
  Definition refl_wf_chunk (md : mdesc) (p : N * list value) : bool :=
    match msg_find_field md (fst p) with
    | Some fd => refl_wf_vals fd (snd p)
    | None => false
    end.
End WfVals.

Fixpoint refl_wf (S : schema) (tid : nat) (v : value) {struct v} : bool :=
  match v with
  | VMsg fs _ =>
    refl_level_wf (nth tid S []) fs && forallb (refl_wf_chunk (refl_wf S) (nth tid S [])) fs
  | _ => false
  end.

(* the value list given to Set: one value for a singular field, a scalar for a scalar kind *)
Definition refl_set_shape (fd : fdesc) (vs : list value) : bool :=
  refl_is_map fd || refl_is_list fd ||
  match vs with
  | [v] => match f_kind fd, v with
           | KS _, VS _ => true
           | KS _, _ => false
           | _, VS _ => false
           | _, _ => true
           end
  | _ => false
  end.

(* descriptors the Go descriptor layer can produce: members of a oneof and extensions are
   singular with explicit presence *)
Definition refl_fd_ok (fd : fdesc) : bool :=
  match f_oneof fd with
  | Some _ => negb (refl_is_map fd || refl_is_list fd) && negb (f_ext fd) &&
              match f_card fd with CImp => false | _ => true end
  | None => true
  end &&
  (negb (f_ext fd) || match f_card fd with CImp => false | CMap _ _ _ => false | _ => true end).

(* argument values of an operation are dumps of protoreflect values: well formed *)
Definition refl_op_wf (S : schema) (md : mdesc) (op : rop) : bool :=
  let vals (f : N) (vs : list value) : bool :=
    match msg_find_field md f with
    | Some fd => refl_wf_vals (refl_wf S) fd vs
    | None => true
    end in
  let arg (f : N) (v : value) : bool :=       (* one list element / one map value *)
    match msg_find_field md f with
    | Some fd => match f_kind fd with KS _ => true | KMsg t | KGrp t => refl_wf S t v end
    | None => true
    end in
  let shape (f : N) (vs : list value) : bool :=
    match msg_find_field md f with
    | Some fd => refl_set_shape fd vs
    | None => true
    end in
  match op with
  | RSet f vs => vals f vs && shape f vs
  | RList f _ (LSet _ v) => arg f v
  | RList f _ (LAppend v) => arg f v
  | RMap f _ (MSet _ v) => arg f v
  | _ => true
  end.

(* ---------- one operation on one message ----------
   ro: the message is the read-only empty message (then fs = [] and unk = []) *)
Definition refl_step (S : schema) (D : rdefs) (tid : nat) (ro : bool) (op : rop) (m : msg_macc)
    : msg_macc * rout :=
  let md := nth tid S [] in
  let '(fs, unk) := m in
  if negb (refl_op_wf S md op) then (m, OPanic) else    (* outside the domain: not a dump *)
  let with_field (num : N) (k : fdesc -> msg_macc * rout) : msg_macc * rout :=
    match msg_find_field md num with
    | Some fd => k fd
    | None => (m, OPanic)      (* a descriptor of another message: checkField panics *)
    end in
  match op with
  | RHas f => with_field f (fun fd => (m, OBool (refl_has fs f)))
  | RGet f => with_field f (fun fd => (m, refl_get D tid fd fs))
  | RNewField f => with_field f (fun fd => (m, refl_newfield D tid fd))
  | RWhich o => (m, ONum (refl_which md o fs))
  | RRange => (m, OState fs unk)
  | RGetUnknown => (m, OBytes unk)
  | RSetUnknown b => if ro then (m, OPanic) else ((fs, b), ONone)
  | RSet f vs => with_field f (fun fd => if ro then (m, OPanic) else ((refl_set md fd fs vs, unk), ONone))
  | RClear f => with_field f (fun fd => if ro then (m, OPanic) else ((msg_fdel fs f, unk), ONone))
  | RMutable f =>
    with_field f (fun fd =>
      if ro then (m, OPanic)
      else if refl_is_map fd || refl_is_list fd then (m, OVal true (msg_fget fs f))
      else if refl_kind_is_msg (f_kind fd) then
        match msg_fget fs f with
        | [] => ((refl_store md fd fs [msg_empty], unk), OVal true [msg_empty])
        | vs => (m, OVal true vs)
        end
      else (m, OPanic))
  | RList f g o =>
    with_field f (fun fd =>
      if negb (refl_is_list fd) then (m, OPanic)
      else if ro && negb g then (m, OPanic)           (* Mutable on the read-only message *)
      else let lro := g && negb (refl_has fs f) in
           let '(fs', out) := refl_list_op D tid md fd lro o fs in ((fs', unk), out))
  | RMap f g o =>
    with_field f (fun fd =>
      if negb (refl_is_map fd) then (m, OPanic)
      else if ro && negb g then (m, OPanic)
      else let mro := g && negb (refl_has fs f) in
           let '(fs', out) := refl_map_op md fd mro o fs in ((fs', unk), out))
  end.

(* ---------- navigation ---------- *)
Definition refl_val_of (m : msg_macc) : value := VMsg (fst m) (snd m).

Fixpoint refl_map_replace (es : list value) (k : scalar) (v : value) : list value :=
  match es with
  | [] => []
  | VEntry k0 v0 :: r => if refl_scalar_eqb k k0 then VEntry k0 v :: r else VEntry k0 v0 :: refl_map_replace r k v
  | e :: r => e :: refl_map_replace r k v
  end.

(* the operation applied below [path]; returns the new message and the result.
   w: navigate with Mutable (populates unpopulated message fields on the way) *)
Fixpoint refl_focus (S : schema) (D : rdefs) (w : bool) (path : list pstep) (tid : nat) (ro : bool)
    (op : rop) (m : msg_macc) {struct path} : msg_macc * rout :=
  match path with
  | [] => refl_step S D tid ro op m
  | st :: rest =>
    let md := nth tid S [] in
    let '(fs, unk) := m in
    let num := match st with PF f => f | PL f _ => f | PM f _ => f end in
    match msg_find_field md num with
    | None => (m, OPanic)
    | Some fd =>
      let sub_tid := refl_kind_tid (f_kind fd) in
      match st with
      | PF f =>
        if negb (refl_is_msg fd) then (m, OPanic)
        else match msg_fget fs f with
             | sub :: _ =>
               let '(sub', out) := refl_focus S D w rest sub_tid false op (msg_macc_of sub) in
               ((msg_fset fs f [refl_val_of sub'], unk), out)
             | [] =>
               if ro && w then (m, OPanic)
               else if w then
                 let '(sub', out) := refl_focus S D w rest sub_tid false op ([], []) in
                 ((refl_store md fd fs [refl_val_of sub'], unk), out)
               else
                 let '(_, out) := refl_focus S D w rest sub_tid true op ([], []) in (m, out)
             end
      | PL f i =>
        if ro && w then (m, OPanic) else
        if negb (refl_is_list fd) then (m, OPanic) else                (* Value.List() of a non-list *)
        if negb (refl_kind_is_msg (f_kind fd)) then (m, OPanic) else   (* Value.Message() of a scalar *)
        let vs := msg_fget fs f in
        match nth_error vs (N.to_nat i) with
        | Some sub =>
          let '(sub', out) := refl_focus S D w rest sub_tid false op (msg_macc_of sub) in
          ((msg_fset fs f (refl_replace_nth vs (N.to_nat i) (refl_val_of sub')), unk), out)
        | None => (m, OPanic)
        end
      | PM f k =>
        if ro && w then (m, OPanic) else
        if negb (refl_is_map fd) then (m, OPanic) else
        if negb (refl_kind_is_msg (f_kind fd)) then (m, OPanic) else
        let es := msg_fget fs f in
        match refl_map_get es k with
        | Some sub =>
          let '(sub', out) := refl_focus S D w rest sub_tid false op (msg_macc_of sub) in
          ((msg_fset fs f (refl_map_replace es k (refl_val_of sub')), unk), out)
        | None => (m, OPanic)
        end
      end
    end
  end.

Definition refl_apply (S : schema) (D : rdefs) (w : bool) (path : list pstep) (op : rop) (m : value)
    : value * rout :=
  let '(m', out) := refl_focus S D w path O false op (msg_macc_of m) in (refl_val_of m', out).

(* the operations after which the harness also dumps the whole message *)
Definition refl_dumps (op : rop) : bool :=
  match op with
  | RSet _ _ | RClear _ | RMutable _ | RSetUnknown _ => true
  | RList _ g o =>
    match o with
    | LSet _ _ | LAppend _ | LTruncate _ | LAppendMutable => true
    | _ => negb g
    end
  | RMap _ g o =>
    match o with
    | MSet _ _ | MClear _ | MMutable _ => true
    | _ => negb g
    end
  | _ => false
  end.

Record rstep := mkStep { rs_w : bool; rs_path : list pstep; rs_op : rop }.

(* a history: the state after it and the result of every operation *)
Fixpoint refl_run (S : schema) (D : rdefs) (m : value) (steps : list rstep) : value * list (rout * value) :=
  match steps with
  | [] => (m, [])
  | st :: r =>
    let '(m1, out) := refl_apply S D (rs_w st) (rs_path st) (rs_op st) m in
    let '(m2, outs) := refl_run S D m1 r in
    (m2, (out, m1) :: outs)
  end.

