(* MsgWireP — lemmas about Wire/WireModel.v needed by the message codec proofs
   (ported from the design-phase spikes; WP-A proves overlapping facts in Wire/*P.v,
   duplicates are deliberate so that this development is self-contained). *)
From Coq Require Import List Arith NArith ZArith Lia Bool.
From Coq Require Import ZifyBool ZifyNat ZifyN.
From PB Require Import Base.PBytes Wire.WireModel Wire.VarintP.
Ltac Zify.zify_post_hook ::= Z.div_mod_to_equations.
Import ListNotations.
Open Scope N_scope.

(* ---------- SizeVarint counts base-128 digits ---------- *)
Lemma msgw_size_varint_digits v k :
  0 < v -> (1 <= k <= 10) -> 128^(k-1) <= v < 128^k -> size_varint v = k.
Proof.
  intros Hv Hk [Hlo Hhi]. unfold size_varint.
  rewrite N.size_log2 by lia.
  assert (H7 : forall n, 128^n = 2^(7*n)) by (intros n; rewrite N.pow_mul_r; reflexivity).
  rewrite H7 in Hlo, Hhi.
  apply N.log2_le_pow2 in Hlo; [|exact Hv].
  apply N.log2_lt_pow2 in Hhi; [|exact Hv].
  lia.
Qed.

Lemma msgw_size_varint_small v : v < 128 -> size_varint v = 1.
Proof.
  intros H. destruct (N.eq_dec v 0) as [->|Hnz]; [reflexivity|].
  apply msgw_size_varint_digits; [lia|lia|]. cbn. lia.
Qed.

Lemma msgw_enc_len_aux : forall f v k,
  (k <= f)%nat -> (1 <= k)%nat -> 128^(N.of_nat k - 1) <= v < 128^(N.of_nat k) ->
  length (enc_varint_fuel f v) = k.
Proof.
  induction f as [|f IH]; intros v k Hkf Hk [Hlo Hhi]; [lia|].
  cbn [enc_varint_fuel]. destruct (v <? 128) eqn:Hlt.
  - destruct k as [|[|k']]; [lia|reflexivity|].
    exfalso. replace (N.of_nat (S (S k')) - 1) with (N.succ (N.of_nat k')) in Hlo by lia.
    rewrite N.pow_succ_r' in Hlo.
    assert (1 <= 128 ^ N.of_nat k') by (apply N.lt_pred_le, N.neq_0_lt_0, N.pow_nonzero; discriminate).
    lia.
  - destruct k as [|[|k']]; [lia| cbn in Hhi; lia |].
    cbn [length]. f_equal. apply IH; [lia|lia|].
    replace (N.of_nat (S (S k')) - 1) with (N.succ (N.of_nat (S k') - 1)) in Hlo by lia.
    replace (N.of_nat (S (S k'))) with (N.succ (N.of_nat (S k'))) in Hhi by lia.
    rewrite N.pow_succ_r' in Hlo, Hhi. split.
    + apply N.div_le_lower_bound; lia.
    + apply N.div_lt_upper_bound; lia.
Qed.

Theorem msgw_enc_varint_length v : v < 2^64 -> N.of_nat (length (enc_varint v)) = size_varint v.
Proof.
  intros Hv. destruct (N.ltb_spec v 128) as [Hs|Hb].
  - rewrite msgw_size_varint_small by exact Hs. unfold enc_varint. cbn [enc_varint_fuel].
    replace (v <? 128) with true by lia. reflexivity.
  - set (k := N.log2 v / 7 + 1).
    assert (Hv0 : 0 < v) by lia.
    destruct (N.log2_spec v Hv0) as [Hlo Hhi].
    assert (Hl64 : N.log2 v < 64) by (apply N.log2_lt_pow2; lia).
    assert (H7 : forall n, 128^n = 2^(7*n)) by (intros n; rewrite N.pow_mul_r; reflexivity).
    assert (Hk : 1 <= k <= 10) by (unfold k; lia).
    assert (Hrange : 128^(k-1) <= v < 128^k).
    { rewrite !H7. split.
      - eapply N.le_trans; [|exact Hlo]. apply N.pow_le_mono_r; [lia|]. unfold k. lia.
      - eapply N.lt_le_trans; [exact Hhi|]. apply N.pow_le_mono_r; [lia|]. unfold k. lia. }
    rewrite (msgw_size_varint_digits v k Hv0 Hk Hrange).
    unfold enc_varint.
    rewrite (msgw_enc_len_aux 10 v (N.to_nat k)); [lia|lia|lia|].
    rewrite Nnat.N2Nat.id. exact Hrange.
Qed.

Lemma msgw_size_shift3 num t : 1 <= num -> t < 8 -> N.size (num * 8 + t) = N.size num + 3.
Proof.
  intros Hn Ht. rewrite !N.size_log2 by lia.
  destruct (N.log2_spec num ltac:(lia)) as [Hlo Hhi].
  assert (N.log2 (num * 8 + t) = N.log2 num + 3); [|lia].
  apply N.log2_unique; [lia|].
  rewrite N.pow_succ_r' in Hhi.
  replace (N.succ (N.log2 num + 3)) with (N.log2 num + 4) by lia.
  rewrite !N.pow_add_r. change (2^3) with 8. change (2^4) with 16.
  remember (2 ^ N.log2 num) as P. lia.
Qed.

Lemma msgw_size_tag_eq num t : t < 8 -> size_varint (num * 8 + t) = size_tag num.
Proof.
  intros Ht. destruct (N.eq_dec num 0) as [->|Hn].
  - unfold size_tag, encode_tag. cbn [N.mul N.add]. rewrite !msgw_size_varint_small; [reflexivity|cbn; lia|lia].
  - unfold size_tag, encode_tag, size_varint.
    rewrite (msgw_size_shift3 num t) by lia. rewrite (msgw_size_shift3 num (0 mod 8)) by (cbn; lia). reflexivity.
Qed.

(* length of a tag: any wire type, any field number that keeps the tag a uint64 *)
Lemma msgw_enc_tag_length num t :
  num < 2^61 -> N.of_nat (length (enc_tag num t)) = size_tag num.
Proof.
  intros Hn. unfold enc_tag, encode_tag.
  pose proof (N.mod_lt t 8 ltac:(lia)) as Ht.
  rewrite msgw_enc_varint_length by (change (2^64) with (2^61 * 8); lia).
  apply msgw_size_tag_eq. exact Ht.
Qed.

Lemma msgw_enc_le_length k v : length (enc_le k v) = k.
Proof. revert v. induction k as [|k IH]; intros v; cbn [enc_le length]; [reflexivity|]. now rewrite IH. Qed.
