(* MsgWireP — lemmas about Wire/WireModel.v needed by the message codec proofs
   (ported from the design-phase spikes; WP-A proves overlapping facts in Wire/*P.v,
   duplicates are deliberate so that this development is self-contained). *)
From Coq Require Import List Arith NArith ZArith Lia Bool.
From Coq Require Import ZifyBool ZifyNat ZifyN.
From PB Require Import Base.PBytes Wire.WireModel Wire.VarintP.
Ltac Zify.zify_post_hook ::= Z.div_mod_to_equations.
Import ListNotations.
Open Scope N_scope.

(* ---------- SizeVarint counts base-128 digits ---------- *)
Lemma msgw_size_varint_digits v k :
  0 < v -> (1 <= k <= 10) -> 128^(k-1) <= v < 128^k -> size_varint v = k.
Proof.
  intros Hv Hk [Hlo Hhi]. unfold size_varint.
  rewrite N.size_log2 by lia.
  assert (H7 : forall n, 128^n = 2^(7*n)) by (intros n; rewrite N.pow_mul_r; reflexivity).
  rewrite H7 in Hlo, Hhi.
  apply N.log2_le_pow2 in Hlo; [|exact Hv].
  apply N.log2_lt_pow2 in Hhi; [|exact Hv].
  lia.
Qed.

Lemma msgw_size_varint_small v : v < 128 -> size_varint v = 1.
Proof.
  intros H. destruct (N.eq_dec v 0) as [->|Hnz]; [reflexivity|].
  apply msgw_size_varint_digits; [lia|lia|]. cbn. lia.
Qed.

Lemma msgw_enc_len_aux : forall f v k,
  (k <= f)%nat -> (1 <= k)%nat -> 128^(N.of_nat k - 1) <= v < 128^(N.of_nat k) ->
  length (enc_varint_fuel f v) = k.
Proof.
  induction f as [|f IH]; intros v k Hkf Hk [Hlo Hhi]; [lia|].
  cbn [enc_varint_fuel]. destruct (v <? 128) eqn:Hlt.
  - destruct k as [|[|k']]; [lia|reflexivity|].
    exfalso. replace (N.of_nat (S (S k')) - 1) with (N.succ (N.of_nat k')) in Hlo by lia.
    rewrite N.pow_succ_r' in Hlo.
    assert (1 <= 128 ^ N.of_nat k') by (apply N.lt_pred_le, N.neq_0_lt_0, N.pow_nonzero; discriminate).
    lia.
  - destruct k as [|[|k']]; [lia| cbn in Hhi; lia |].
    cbn [length]. f_equal. apply IH; [lia|lia|].
    replace (N.of_nat (S (S k')) - 1) with (N.succ (N.of_nat (S k') - 1)) in Hlo by lia.
    replace (N.of_nat (S (S k'))) with (N.succ (N.of_nat (S k'))) in Hhi by lia.
    rewrite N.pow_succ_r' in Hlo, Hhi. split.
    + apply N.div_le_lower_bound; lia.
    + apply N.div_lt_upper_bound; lia.
Qed.

Theorem msgw_enc_varint_length v : v < 2^64 -> N.of_nat (length (enc_varint v)) = size_varint v.
Proof.
  intros Hv. destruct (N.ltb_spec v 128) as [Hs|Hb].
  - rewrite msgw_size_varint_small by exact Hs. unfold enc_varint. cbn [enc_varint_fuel].
    replace (v <? 128) with true by lia. reflexivity.
  - set (k := N.log2 v / 7 + 1).
    assert (Hv0 : 0 < v) by lia.
    destruct (N.log2_spec v Hv0) as [Hlo Hhi].
    assert (Hl64 : N.log2 v < 64) by (apply N.log2_lt_pow2; lia).
    assert (H7 : forall n, 128^n = 2^(7*n)) by (intros n; rewrite N.pow_mul_r; reflexivity).
    assert (Hk : 1 <= k <= 10) by (unfold k; lia).
    assert (Hrange : 128^(k-1) <= v < 128^k).
    { rewrite !H7. split.
      - eapply N.le_trans; [|exact Hlo]. apply N.pow_le_mono_r; [lia|]. unfold k. lia.
      - eapply N.lt_le_trans; [exact Hhi|]. apply N.pow_le_mono_r; [lia|]. unfold k. lia. }
    rewrite (msgw_size_varint_digits v k Hv0 Hk Hrange).
    unfold enc_varint.
    rewrite (msgw_enc_len_aux 10 v (N.to_nat k)); [lia|lia|lia|].
    rewrite Nnat.N2Nat.id. exact Hrange.
Qed.

Lemma msgw_size_shift3 num t : 1 <= num -> t < 8 -> N.size (num * 8 + t) = N.size num + 3.
Proof.
  intros Hn Ht. rewrite !N.size_log2 by lia.
  destruct (N.log2_spec num ltac:(lia)) as [Hlo Hhi].
  assert (N.log2 (num * 8 + t) = N.log2 num + 3); [|lia].
  apply N.log2_unique; [lia|].
  rewrite N.pow_succ_r' in Hhi.
  replace (N.succ (N.log2 num + 3)) with (N.log2 num + 4) by lia.
  rewrite !N.pow_add_r. change (2^3) with 8. change (2^4) with 16.
  remember (2 ^ N.log2 num) as P. lia.
Qed.

Lemma msgw_size_tag_eq num t : t < 8 -> size_varint (num * 8 + t) = size_tag num.
Proof.
  intros Ht. destruct (N.eq_dec num 0) as [->|Hn].
  - unfold size_tag, encode_tag. cbn [N.mul N.add]. rewrite !msgw_size_varint_small; [reflexivity|cbn; lia|lia].
  - unfold size_tag, encode_tag, size_varint.
    rewrite (msgw_size_shift3 num t) by lia. rewrite (msgw_size_shift3 num (0 mod 8)) by (cbn; lia). reflexivity.
Qed.

(* length of a tag: any wire type, any field number that keeps the tag a uint64 *)
Lemma msgw_enc_tag_length num t :
  num < 2^61 -> N.of_nat (length (enc_tag num t)) = size_tag num.
Proof.
  intros Hn. unfold enc_tag, encode_tag.
  pose proof (N.mod_lt t 8 ltac:(lia)) as Ht.
  rewrite msgw_enc_varint_length by (change (2^64) with (2^61 * 8); lia).
  apply msgw_size_tag_eq. exact Ht.
Qed.

Lemma msgw_enc_le_length k v : length (enc_le k v) = k.
Proof. revert v. induction k as [|k IH]; intros v; cbn [enc_le length]; [reflexivity|]. now rewrite IH. Qed.

(* ---------- round trips of the primitives, with an arbitrary suffix ---------- *)
Lemma msgw_dec_enc_le : forall k v, v < 256 ^ N.of_nat k -> dec_le (enc_le k v) = v.
Proof.
  induction k as [|k IH]; intros v Hv.
  - cbn in *. lia.
  - cbn [enc_le dec_le]. rewrite Nnat.Nat2N.inj_succ, N.pow_succ_r' in Hv.
    rewrite b2n_n2b by (pose proof (N.mod_lt v 256); lia).
    rewrite IH by (apply N.div_lt_upper_bound; lia).
    pose proof (N.div_mod v 256). lia.
Qed.

Lemma msgw_zz_dec_enc x : zz_dec (zz_enc x) = x.
Proof.
  unfold zz_enc, zz_dec. destruct (x <? 0)%Z eqn:E.
  - replace (N.even (Z.to_N (-2 * x - 1))) with false.
    + lia.
    + symmetry. apply Bool.not_true_iff_false. intros H. apply N.even_spec in H. destruct H as [m Hm]. lia.
  - replace (N.even (Z.to_N (2 * x))) with true.
    + lia.
    + symmetry. apply N.even_spec. exists (Z.to_N x). lia.
Qed.

Lemma msgw_take_len k (b rest : list byte) : length b = k -> take k (b ++ rest) = Some (b, rest).
Proof. intros <-. apply take_app. Qed.

Lemma msgw_dec_tag_enc num typ rest :
  1 <= num -> num <= 2147483647 -> typ < 8 ->
  dec_tag (enc_tag num typ ++ rest) = Ok (num, typ, rest).
Proof.
  intros Hlo Hhi Ht. unfold dec_tag, enc_tag, encode_tag.
  rewrite (N.mod_small typ 8) by lia.
  rewrite varint_roundtrip by (change (2^64) with 18446744073709551616; lia).
  unfold decode_tag.
  replace ((num * 8 + typ) / 8) with num by lia.
  replace ((num * 8 + typ) mod 8) with typ by lia.
  replace (2147483647 <? num) with false by lia.
  replace (num <? 1) with false by lia. reflexivity.
Qed.

Lemma msgw_enc_tag_nonempty num typ : exists b r, enc_tag num typ = b :: r.
Proof.
  unfold enc_tag, enc_varint. cbn [enc_varint_fuel].
  destruct (encode_tag num typ <? 128); eexists; eexists; reflexivity.
Qed.

Lemma msgw_dec_bytes_enc b rest :
  N.of_nat (length b) < 2^64 -> dec_bytes (enc_bytes b ++ rest) = Ok (b, rest).
Proof.
  intros H. unfold dec_bytes, enc_bytes. rewrite <- app_assoc.
  rewrite varint_roundtrip by exact H.
  rewrite app_length. replace (N.of_nat (length b + length rest) <? N.of_nat (length b)) with false by lia.
  rewrite Nnat.Nat2N.id. rewrite take_app. reflexivity.
Qed.

(* ---------- the scanner reads a prefix: more bytes after a successful parse change nothing ---------- *)
Lemma msgw_dec_varint_aux_ext : forall k s a bs v r ext,
  dec_varint_aux k s a bs = Ok (v, r) ->
  dec_varint_aux k s a (bs ++ ext) = Ok (v, r ++ ext) /\ (length r < length bs)%nat.
Proof.
  induction k as [|k IH]; intros s a bs v r ext H; [discriminate|].
  destruct bs as [|b bs]; [discriminate|]. cbn [dec_varint_aux app length] in *.
  destruct k as [|k'].
  - destruct (b2n b <? 2); [|discriminate]. inversion H; subst. split; [reflexivity|lia].
  - destruct (b2n b <? 128).
    + inversion H; subst. split; [reflexivity|lia].
    + destruct (IH _ _ _ _ _ ext H) as [E L]. split; [exact E|lia].
Qed.

Lemma msgw_dec_tag_ext bs ext n t r :
  dec_tag bs = Ok (n, t, r) -> dec_tag (bs ++ ext) = Ok (n, t, r ++ ext) /\ (length r < length bs)%nat.
Proof.
  unfold dec_tag, dec_varint. intros H.
  destruct (dec_varint_aux 10 0 0 bs) as [[x r0]|e] eqn:E; [|discriminate].
  destruct (msgw_dec_varint_aux_ext _ _ _ _ _ _ ext E) as [E' L]. rewrite E'.
  destruct (decode_tag x) as [[n' t']|]; [|discriminate].
  destruct (n' <? 1); [discriminate|]. inversion H; subst. split; [reflexivity|exact L].
Qed.

Lemma msgw_take_ext n bs a r ext : take n bs = Some (a, r) -> take n (bs ++ ext) = Some (a, r ++ ext).
Proof.
  unfold take. destruct (Nat.leb n (length bs)) eqn:E; [|discriminate]. intros H. inversion H; subst.
  apply Nat.leb_le in E. rewrite app_length.
  replace (Nat.leb n (length bs + length ext)) with true by (symmetry; apply Nat.leb_le; lia).
  rewrite firstn_app, skipn_app. replace (n - length bs)%nat with 0%nat by lia.
  cbn [firstn skipn]. now rewrite app_nil_r.
Qed.

Lemma msgw_take_rest_len n bs a r : take n bs = Some (a, r) -> (length r <= length bs)%nat.
Proof.
  unfold take. destruct (Nat.leb n (length bs)); [|discriminate]. intros H. inversion H; subst.
  rewrite skipn_length. lia.
Qed.

Lemma msgw_dec_bytes_ext bs ext v r :
  dec_bytes bs = Ok (v, r) -> dec_bytes (bs ++ ext) = Ok (v, r ++ ext) /\ (length r <= length bs)%nat.
Proof.
  unfold dec_bytes, dec_varint. intros H.
  destruct (dec_varint_aux 10 0 0 bs) as [[n r0]|e] eqn:E; [|discriminate].
  destruct (msgw_dec_varint_aux_ext _ _ _ _ _ _ ext E) as [E' L]. rewrite E'.
  destruct (N.of_nat (length r0) <? n) eqn:El; [discriminate|].
  destruct (take (N.to_nat n) r0) as [[a b]|] eqn:Et; [|discriminate].
  inversion H; subst. rewrite app_length.
  replace (N.of_nat (length r0 + length ext) <? n) with false by lia.
  rewrite (msgw_take_ext _ _ _ _ ext Et). split; [reflexivity|].
  apply msgw_take_rest_len in Et. lia.
Qed.

Section LoopExt.
  Variable pv : pv_t.
  Variable num : N.
  Variable ext : list byte.
  Hypothesis pv_ext : forall n t bs v r, pv n t bs = Ok (v, r) ->
    pv n t (bs ++ ext) = Ok (v, r ++ ext) /\ (length r <= length bs)%nat.

  Lemma msgw_group_loop_ext : forall g bs acc g' v r,
    group_loop pv num g bs acc = Ok (v, r) -> (length (bs ++ ext) < length g')%nat ->
    group_loop pv num g' (bs ++ ext) acc = Ok (v, r ++ ext) /\ (length r <= length bs)%nat.
  Proof.
    induction g as [|x g IH]; intros bs acc g' v r H Hg'; [discriminate|].
    destruct g' as [|x' g']; [cbn in Hg'; lia|]. cbn [group_loop] in *.
    destruct (dec_tag bs) as [[[n2 t2] r0]|e] eqn:E; [|discriminate].
    destruct (msgw_dec_tag_ext _ ext _ _ _ E) as [E' L]. rewrite E'.
    destruct (t2 =? 4).
    - destruct (n2 =? num); [|discriminate]. inversion H; subst. split; [reflexivity|lia].
    - destruct (pv n2 t2 r0) as [[v' r']|e] eqn:Ep; [|discriminate].
      destruct (pv_ext _ _ _ _ _ Ep) as [Ep' Lp]. rewrite Ep'.
      destruct (IH r' ((n2, v') :: acc) g' v r H) as [E2 L2].
      + rewrite app_length in *. cbn [length] in Hg'. lia.
      + split; [exact E2|lia].
  Qed.
End LoopExt.

Ltac msgw_destruct_typ typ :=
  destruct typ as [|[[[?|?|]|[?|?|]|]|[[?|?|]|[?|?|]|]|]].

Theorem msgw_parse_val_ext : forall dep num typ bs ext v r,
  parse_val dep num typ bs = Ok (v, r) ->
  parse_val dep num typ (bs ++ ext) = Ok (v, r ++ ext) /\ (length r <= length bs)%nat.
Proof.
  induction dep as [|d IH]; intros num typ bs ext v r H.
  - msgw_destruct_typ typ; cbn [parse_val] in *; try discriminate.
    + destruct (dec_varint bs) as [[x r0]|e] eqn:E; [|discriminate]. inversion H; subst.
      unfold dec_varint in *. destruct (msgw_dec_varint_aux_ext _ _ _ _ _ _ ext E) as [E' L].
      rewrite E'. split; [reflexivity|lia].
    + destruct (take 4 bs) as [[a b]|] eqn:E; [|discriminate]. inversion H; subst.
      rewrite (msgw_take_ext _ _ _ _ ext E). split; [reflexivity|eapply msgw_take_rest_len; exact E].
    + destruct (dec_bytes bs) as [[a b]|e] eqn:E; [|discriminate]. inversion H; subst.
      destruct (msgw_dec_bytes_ext _ ext _ _ E) as [E' L]. rewrite E'. split; [reflexivity|exact L].
    + destruct (take 8 bs) as [[a b]|] eqn:E; [|discriminate]. inversion H; subst.
      rewrite (msgw_take_ext _ _ _ _ ext E). split; [reflexivity|eapply msgw_take_rest_len; exact E].
  - msgw_destruct_typ typ; cbn [parse_val] in *; try discriminate.
    + destruct (dec_varint bs) as [[x r0]|e] eqn:E; [|discriminate]. inversion H; subst.
      unfold dec_varint in *. destruct (msgw_dec_varint_aux_ext _ _ _ _ _ _ ext E) as [E' L].
      rewrite E'. split; [reflexivity|lia].
    + destruct (take 4 bs) as [[a b]|] eqn:E; [|discriminate]. inversion H; subst.
      rewrite (msgw_take_ext _ _ _ _ ext E). split; [reflexivity|eapply msgw_take_rest_len; exact E].
    + apply (msgw_group_loop_ext (parse_val d) num ext) with (g := x00 :: bs).
      * intros n t bs0 v0 r0 H0. apply IH. exact H0.
      * exact H.
      * cbn [length]. lia.
    + destruct (dec_bytes bs) as [[a b]|e] eqn:E; [|discriminate]. inversion H; subst.
      destruct (msgw_dec_bytes_ext _ ext _ _ E) as [E' L]. rewrite E'. split; [reflexivity|exact L].
    + destruct (take 8 bs) as [[a b]|] eqn:E; [|discriminate]. inversion H; subst.
      rewrite (msgw_take_ext _ _ _ _ ext E). split; [reflexivity|eapply msgw_take_rest_len; exact E].
Qed.

(* ---------- ConsumeGroup on a body followed by a minimal end tag ---------- *)
Lemma msgw_enc_fuel_last : forall k v,
  (0 < k)%nat -> 0 < v -> v < 2^(7 * (N.of_nat k - 1) + 1) ->
  exists i l, enc_varint_fuel k v = i ++ [l] /\ b2n l mod 128 <> 0.
Proof.
  induction k as [|k IH]; intros v Hk Hv Hcap; [lia|].
  cbn [enc_varint_fuel]. destruct (v <? 128) eqn:Hlt.
  - exists [], (n2b v). split; [reflexivity|]. rewrite b2n_n2b by lia. rewrite N.mod_small by lia. lia.
  - destruct k as [|k'].
    + replace (7 * (N.of_nat 1 - 1) + 1) with 1 in Hcap by lia. change (2^1) with 2 in Hcap. lia.
    + assert (Hq : v / 128 < 2 ^ (7 * (N.of_nat (S k') - 1) + 1)).
      { replace (7 * (N.of_nat (S (S k')) - 1) + 1) with (7 * (N.of_nat (S k') - 1) + 1 + 7) in Hcap by lia.
        rewrite N.pow_add_r in Hcap. change (2^7) with 128 in Hcap.
        apply N.div_lt_upper_bound; lia. }
      destruct (IH (v / 128) ltac:(lia) ltac:(lia) Hq) as (i & l & E & Hl).
      exists (n2b (v mod 128 + 128) :: i), l. rewrite E. split; [reflexivity|exact Hl].
Qed.

Lemma msgw_strip_zero7_last i l rest : b2n l mod 128 <> 0 -> strip_zero7 (rev (i ++ [l]) ++ rest) = rev (i ++ [l]) ++ rest.
Proof.
  intros H. rewrite rev_app_distr. cbn [rev app strip_zero7].
  replace (b2n l mod 128 =? 0) with false by lia. reflexivity.
Qed.

Lemma msgw_consume_group_enc num body tail w :
  1 <= num -> num <= 536870911 ->
  parse_val default_dep num 3 (body ++ enc_tag num 4) = Ok (w, []) ->
  consume_group num (body ++ enc_tag num 4 ++ tail) =
    Ok (Some body, N.of_nat (length (body ++ enc_tag num 4))) /\
  skipn (length (body ++ enc_tag num 4)) (body ++ enc_tag num 4 ++ tail) = tail.
Proof.
  intros Hlo Hhi Hp.
  destruct (msgw_parse_val_ext _ _ _ _ tail _ _ Hp) as [Hp' _]. cbn [app] in Hp'.
  rewrite <- app_assoc in Hp'.
  assert (Hskip : skipn (length (body ++ enc_tag num 4)) (body ++ enc_tag num 4 ++ tail) = tail).
  { rewrite app_assoc. rewrite skipn_app, Nat.sub_diag, skipn_all. reflexivity. }
  split; [|exact Hskip].
  unfold consume_group. rewrite Hp'.
  assert (Hn : (length (body ++ enc_tag num 4 ++ tail) - length tail)%nat = length (body ++ enc_tag num 4)).
  { rewrite !app_length. lia. }
  rewrite Hn.
  assert (Hfirst : firstn (length (body ++ enc_tag num 4)) (body ++ enc_tag num 4 ++ tail) = body ++ enc_tag num 4).
  { rewrite app_assoc. rewrite firstn_app, Nat.sub_diag, firstn_all. cbn [firstn]. apply app_nil_r. }
  rewrite Hfirst.
  (* the end tag is minimal: nothing is stripped *)
  assert (Hlast : exists i l, enc_tag num 4 = i ++ [l] /\ b2n l mod 128 <> 0).
  { unfold enc_tag, enc_varint. apply msgw_enc_fuel_last; [lia|unfold encode_tag; lia|].
    unfold encode_tag. change (4 mod 8) with 4. change (2 ^ (7 * (N.of_nat 10 - 1) + 1)) with 18446744073709551616. lia. }
  destruct Hlast as (i & l & El & Hl).
  assert (Hstrip : rev (strip_zero7 (rev (body ++ enc_tag num 4))) = body ++ enc_tag num 4).
  { rewrite rev_app_distr, El. rewrite msgw_strip_zero7_last by exact Hl.
    rewrite <- rev_app_distr. apply rev_involutive. }
  rewrite Hstrip.
  assert (Hk : N.to_nat (size_tag num) = length (enc_tag num 4)).
  { rewrite <- (msgw_enc_tag_length num 4) by (change (2^61) with 2305843009213693952; lia). lia. }
  rewrite Hk. rewrite app_length.
  replace (Nat.ltb (length body + length (enc_tag num 4)) (length (enc_tag num 4))) with false
    by (symmetry; apply Nat.ltb_ge; lia).
  replace (length body + length (enc_tag num 4) - length (enc_tag num 4))%nat with (length body) by lia.
  rewrite firstn_app, Nat.sub_diag, firstn_all. cbn [firstn]. rewrite app_nil_r. reflexivity.
Qed.
