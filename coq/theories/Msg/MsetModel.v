(* Model of the MessageSet wire format:
     internal/encoding/messageset/messageset.go  (item codec, Unmarshal loop, unknown-section re-framing)
     internal/impl/codec_messageset.go           (fast path: wantLen = true)
     proto/messageset.go                         (slow / reflection path: wantLen = false)
   Definitions only (no proofs).  The wire layer is Wire/WireModel.v (WP-A, read-only).

   Abstraction of a MessageSet *message*: the set extension fields are kept as
   an association list  type_id -> payload bytes  sorted by type_id (the payload
   stands for the extension message; merging two occurrences is concatenation of
   their payloads, which is what protobuf merge means on the wire), plus the raw
   unknown-field bytes exactly as GetUnknown() returns them.  Which type ids are
   resolvable ([kn]) and which payloads the extension's message type accepts
   ([pok]) are parameters: they belong to the registry and to the message codec
   (C03), not to the MessageSet format. *)
From Coq Require Import List NArith ZArith Bool.
From PB Require Import Base.PBytes Wire.WireModel.
Import ListNotations.
Open Scope N_scope.

Inductive merr :=
| MWire (e : werr)      (* protowire.ParseError(n) *)
| MTypeId               (* "invalid type_id in message set" *)
| MPayload              (* the extension message rejected its payload *)
| MUnknownData          (* "invalid data in message set unknown fields" *)
| MFuel                 (* loop fuel exhausted: shown unreachable *)
| MImpossible.          (* a state the Go code cannot be in (it would panic): shown unreachable *)
Inductive mres (A : Type) := MOk (a : A) | MErr (e : merr).
Arguments MOk {A}. Arguments MErr {A}.

(* FieldItem = 1, FieldTypeID = 2, FieldMessage = 3 *)
Definition field_item : N := 1.
Definition field_type_id : N := 2.
Definition field_message : N := 3.
Definition max_int32 : N := 2147483647.

(* ---------- writing items ---------- *)
(* SizeField *)
Definition size_field (num : N) : N :=
  2 * size_tag field_item + size_tag field_type_id + size_varint num.
(* AppendFieldStart / AppendFieldEnd *)
Definition append_field_start (num : N) : list byte :=
  enc_tag field_item 3 ++ enc_tag field_type_id 0 ++ enc_varint num.
Definition append_field_end : list byte := enc_tag field_item 4.
(* the message subfield as every marshal path writes it: tag 3/bytes, length, payload *)
Definition append_item (id : N) (payload : list byte) : list byte :=
  append_field_start id ++ enc_tag field_message 2 ++ enc_bytes payload ++ append_field_end.
Definition size_item (id : N) (plen : N) : N :=
  size_field id + size_tag field_message + size_bytes plen.

(* ---------- ConsumeFieldValue (one item, start tag already consumed) ----------
   [msg] is Go's [message] slice: None = nil.  With wantLen the slice holds
   length prefix + contents (the prefix bytes as they were on the wire for a
   single chunk, re-encoded minimally when chunks are merged). *)
Definition add_chunk (wl : bool) (msg : option (list byte)) (raw m : list byte) : mres (list byte) :=
  match msg with
  | None => MOk (if wl then raw else m)
  | Some old =>
      if wl then
        match dec_varint old with
        | Ok (_, m0) => MOk (enc_varint (N.of_nat (length m0 + length m)) ++ m0 ++ m)
        | Err _ => MErr MImpossible
        end
      else MOk (old ++ m)
  end.

Definition finish_msg (wl : bool) (msg : option (list byte)) : list byte :=
  match msg with
  | None => if wl then enc_varint 0 else []
  | Some m => if wl && (Nat.eqb (length m) 0) then enc_varint 0 else m
  end.

(* fuel [g]: a list used for its length only; [x00 :: bs] always suffices (proved) *)
Fixpoint item_loop (wl : bool) (g : list byte) (bs : list byte) (tid : N) (msg : option (list byte))
  : mres (N * list byte * list byte) :=
  match g with
  | [] => MErr MFuel
  | _ :: g' =>
    match dec_tag bs with
    | Err e => MErr (MWire e)
    | Ok (num, typ, r) =>
      if (num =? field_item) && (typ =? 4) then MOk (tid, finish_msg wl msg, r)
      else if (num =? field_type_id) && (typ =? 0) then
        match dec_varint r with
        | Err e => MErr (MWire e)
        | Ok (v, r') =>
            if (v <? 1) || (max_int32 <? v) then MErr MTypeId
            else item_loop wl g' r' v msg
        end
      else if (num =? field_message) && (typ =? 2) then
        match dec_bytes r with
        | Err e => MErr (MWire e)
        | Ok (m, r') =>
            match add_chunk wl msg (firstn (length r - length r') r) m with
            | MErr e => MErr e
            | MOk msg' => item_loop wl g' r' tid (Some msg')
            end
        end
      else
        match parse_val default_dep num typ r with
        | Err e => MErr (MWire e)
        | Ok (_, r') => item_loop wl g' r' tid msg
        end
    end
  end.

(* result: (type id or 0 when absent, message, rest of input) *)
Definition consume_item (wl : bool) (bs : list byte) : mres (N * list byte * list byte) :=
  item_loop wl (x00 :: bs) bs 0 None.

(* ---------- Unmarshal: the loop over a MessageSet's bytes, calling fn per item ---------- *)
Fixpoint unmarshal_loop {S : Type} (wl : bool) (fn : N -> list byte -> S -> mres S)
    (g : list byte) (bs : list byte) (s : S) : mres S :=
  match g with
  | [] => MErr MFuel
  | _ :: g' =>
    match bs with
    | [] => MOk s
    | _ =>
      match dec_tag bs with
      | Err e => MErr (MWire e)
      | Ok (num, typ, r) =>
        if (num =? field_item) && (typ =? 3) then
          match consume_item wl r with
          | MErr e => MErr e
          | MOk (tid, v, r') =>
              if tid =? 0 then unmarshal_loop wl fn g' r' s
              else match fn tid v s with
                   | MErr e => MErr e
                   | MOk s' => unmarshal_loop wl fn g' r' s'
                   end
          end
        else
          match parse_val default_dep num typ r with
          | Err e => MErr (MWire e)
          | Ok (_, r') => unmarshal_loop wl fn g' r' s
          end
      end
    end
  end.
Definition unmarshal {S : Type} (wl : bool) (fn : N -> list byte -> S -> mres S) (bs : list byte) (s : S) : mres S :=
  unmarshal_loop wl fn (x00 :: bs) bs s.

(* the sequence of callbacks *)
Definition events (wl : bool) (bs : list byte) : mres (list (N * list byte)) :=
  unmarshal wl (fun id v s => MOk (s ++ [(id, v)])) bs [].

(* ---------- unknown section: stored as ordinary fields (number = type id, bytes type) ---------- *)
(* SizeUnknown: 0 as soon as anything is not a bytes field *)
Fixpoint size_unknown_loop (g : list byte) (u : list byte) (acc : N) : N :=
  match g with
  | [] => 0
  | _ :: g' =>
    match u with
    | [] => acc
    | _ =>
      match dec_tag u with
      | Err _ => 0
      | Ok (num, typ, r) =>
        if negb (typ =? 2) then 0 else
        match dec_bytes r with
        | Err _ => 0
        | Ok (_, r') =>
            size_unknown_loop g' r' (acc + size_field num + size_tag field_message + N.of_nat (length r - length r'))
        end
      end
    end
  end.
Definition size_unknown (u : list byte) : N := size_unknown_loop (x00 :: u) u 0.

(* AppendUnknown *)
Fixpoint append_unknown_loop (g : list byte) (u : list byte) (acc : list byte) : mres (list byte) :=
  match g with
  | [] => MErr MFuel
  | _ :: g' =>
    match u with
    | [] => MOk acc
    | _ =>
      match dec_tag u with
      | Err _ => MErr MUnknownData
      | Ok (num, typ, r) =>
        if negb (typ =? 2) then MErr MUnknownData else
        match dec_bytes r with
        | Err _ => MErr MUnknownData
        | Ok (_, r') =>
            append_unknown_loop g' r'
              (acc ++ append_field_start num ++ enc_tag field_message 2
                   ++ firstn (length r - length r') r ++ append_field_end)
        end
      end
    end
  end.
Definition append_unknown (u : list byte) : mres (list byte) := append_unknown_loop (x00 :: u) u [].

(* how an unresolved item is filed in the unknown section *)
Definition unknown_entry (id : N) (payload : list byte) : list byte := enc_tag id 2 ++ enc_bytes payload.

(* ---------- MessageSet messages ---------- *)
Record mset := { m_ext : list (N * list byte); m_unknown : list byte }.
Definition mset_empty : mset := {| m_ext := []; m_unknown := [] |}.

(* extension map, kept sorted by type id; a second occurrence merges (concatenates) *)
Fixpoint ext_merge (id : N) (p : list byte) (l : list (N * list byte)) : list (N * list byte) :=
  match l with
  | [] => [(id, p)]
  | (i, q) :: r =>
      if id <? i then (id, p) :: l
      else if id =? i then (i, q ++ p) :: r
      else (i, q) :: ext_merge id p r
  end.

(* payload acceptance used by the executable model: a sequence of well-formed
   fields with top-level numbers <= MaxValidNumber = 2^29-1 (this is the
   acceptance condition of every message type without string/required/nested
   fields; the test extensions Ext1, Ext2, ExtRequired(partial), ExtLargeNumber
   and the harness's field-less extension types are of this kind) *)
Definition payload_ok (p : list byte) : bool :=
  match parse_fields (x00 :: p) default_dep p [] with
  | Ok fs => forallb (fun f => fst f <? 536870912) fs
  | Err _ => false
  end.

(* fast path callback (codec_messageset.go unmarshalMessageSet): v carries its length prefix *)
Definition fn_fast (kn : N -> bool) (pok : list byte -> bool) (id : N) (v : list byte) (s : mset) : mres mset :=
  if kn id then
    match dec_bytes v with
    | Ok (p, _) => if pok p then MOk {| m_ext := ext_merge id p (m_ext s); m_unknown := m_unknown s |}
                   else MErr MPayload
    | Err _ => MErr MImpossible
    end
  else MOk {| m_ext := m_ext s; m_unknown := m_unknown s ++ enc_tag id 2 ++ v |}.

(* slow path callback (proto/messageset.go unmarshalMessageSet): v is the bare payload *)
Definition fn_slow (kn : N -> bool) (pok : list byte -> bool) (id : N) (v : list byte) (s : mset) : mres mset :=
  if kn id then
    if pok v then MOk {| m_ext := ext_merge id v (m_ext s); m_unknown := m_unknown s |}
    else MErr MPayload
  else MOk {| m_ext := m_ext s; m_unknown := m_unknown s ++ unknown_entry id v |}.

Definition decode_fast (kn : N -> bool) (pok : list byte -> bool) (bs : list byte) (s : mset) : mres mset :=
  unmarshal true (fn_fast kn pok) bs s.
Definition decode_slow (kn : N -> bool) (pok : list byte -> bool) (bs : list byte) (s : mset) : mres mset :=
  unmarshal false (fn_slow kn pok) bs s.

(* marshal: extensions in type-id order (fast path: always when more than one;
   slow path: Deterministic), then the unknown section re-framed as items.
   Both paths write the same bytes for the same message. *)
Definition encode_exts (l : list (N * list byte)) : list byte :=
  flat_map (fun e => append_item (fst e) (snd e)) l.
Definition encode (m : mset) : mres (list byte) :=
  match append_unknown (m_unknown m) with
  | MErr e => MErr e
  | MOk u => MOk (encode_exts (m_ext m) ++ u)
  end.
(* the slow path writes the length itself (proto/messageset.go marshalMessageSetField):
   AppendFieldStart, tag 3/bytes, AppendVarint(Size(m)), the message bytes, AppendFieldEnd *)
Definition append_item_slow (id : N) (payload : list byte) : list byte :=
  append_field_start id ++ enc_tag field_message 2 ++ enc_varint (N.of_nat (length payload)) ++ payload ++ append_field_end.
Definition encode_slow (m : mset) : mres (list byte) :=
  match append_unknown (m_unknown m) with
  | MErr e => MErr e
  | MOk u => MOk (flat_map (fun e => append_item_slow (fst e) (snd e)) (m_ext m) ++ u)
  end.
(* sizeMessageSet of the slow path: SizeField + SizeTag(3) + SizeBytes(size of the message) *)
Definition size_slow (m : mset) : N :=
  fold_right (fun e acc => size_field (fst e) + size_tag field_message + size_bytes (N.of_nat (length (snd e))) + acc) 0 (m_ext m)
  + size_unknown (m_unknown m).
Definition size_exts (l : list (N * list byte)) : N :=
  fold_right (fun e acc => size_item (fst e) (N.of_nat (length (snd e))) + acc) 0 l.
Definition size (m : mset) : N := size_exts (m_ext m) + size_unknown (m_unknown m).

(* membership in a finite list of known type ids (how the driver instantiates [kn]) *)
Definition kn_of (ids : list N) (id : N) : bool := existsb (N.eqb id) ids.
