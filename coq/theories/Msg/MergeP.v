(* MergeP — proofs about Msg/MergeModel.v (C07).

   msg_mrg_stmt_all           decoding the encoding of a valid message b into ANY accumulator a, followed
                              by arbitrary further input, turns the accumulator into Merge(a, b) and
                              continues with that input (induction over values; the unknown section
                              is handled by msg_unknown_loop_k, every field by msg_mrg_field)
   msg_decode_into_merge      UnmarshalOptions{Merge:true}(Marshal b) into a = Merge(a, b)
   msg_merge_empty_l / _r     Clone; Merge with the empty message
   msg_merge_eq_decode_concat Merge(a, b) = Unmarshal(Marshal a || Marshal b)
   msg_decode_app_encoded     decode (Marshal a || y) continues with y from a
   msg_concat_eq_merge_refuted_FA6 *)
From Coq Require Import List Arith NArith ZArith Lia Bool Permutation.
From Coq Require Import ZifyBool ZifyNat ZifyN.
From PB Require Import Base.PBytes Wire.WireModel Wire.VarintP Wire.ScanP.
From PB Require Import Msg.MsgSchema Msg.MsgValue Msg.MsgUtf8 Msg.MsgEnc Msg.MsgDec Msg.MsgValid.
From PB Require Import Msg.MsgWireP Msg.MsgScalarP Msg.MsgAssocP Msg.MsgSizeP Msg.MsgRoundP Msg.MergeModel.
Ltac Zify.zify_post_hook ::= Z.div_mod_to_equations.
Import ListNotations.
Open Scope N_scope.

(* Merge(m, empty) = m *)
Lemma msg_merge_empty_r S d tid fs u : msg_merge S (Datatypes.S d) tid (VMsg fs u) msg_empty = Some (VMsg fs u).
Proof. cbn. rewrite app_nil_r. reflexivity. Qed.

(* ---------- parsers on extended input ---------- *)
Lemma msg_dec_tag_ext bs num typ r y :
  dec_tag bs = Ok (num, typ, r) -> dec_tag (bs ++ y) = Ok (num, typ, r ++ y).
Proof.
  intros H. apply dec_tag_iff in H. destruct H as (p & -> & Ht). rewrite <- app_assoc.
  apply dec_tag_complete. exact Ht.
Qed.
Lemma msg_parse_val_ext dep num typ bs v r y :
  parse_val dep num typ bs = Ok (v, r) -> exists v', parse_val dep num typ (bs ++ y) = Ok (v', r ++ y).
Proof.
  intros H. apply parse_val_sound in H. destruct H as (val & -> & Hw). rewrite <- app_assoc.
  apply parse_val_complete. exact Hw.
Qed.
Lemma msg_firstn_len {A} (a b : list A) : firstn (length a) (a ++ b) = a.
Proof. induction a as [|x a IH]; [reflexivity|]. cbn [length app firstn]. now rewrite IH. Qed.

(* ---------- the order of the fields in the encoding ---------- *)
Lemma msg_enc_body_order S tid fs unk :
  msg_enc_body S tid (VMsg fs unk) =
  flat_map (fun p => snd (msg_enc_chunk (msg_enc_body S) (nth tid S []) p)) (msg_field_order (nth tid S []) fs) ++ unk.
Proof.
  set (md := nth tid S []). set (h := fun p => snd (msg_enc_chunk (msg_enc_body S) md p)).
  unfold msg_field_order. fold md. set (K := map (fun p => (msg_field_key md p, p)) fs).
  cbn [msg_enc_body]. fold md. f_equal.
  assert (E : map (fun p => msg_enc_chunk (msg_enc_body S) md p) fs = map (fun x => (fst x, h (snd x))) K).
  { unfold K. rewrite map_map. apply map_ext. intros p. cbn [fst snd]. unfold h, msg_field_key, msg_enc_chunk.
    destruct (msg_find_field md (fst p)); reflexivity. }
  rewrite E, msg_chunk_sort_map. rewrite map_map. cbn [snd].
  rewrite flat_map_concat_map, map_map. reflexivity.
Qed.
Lemma msg_field_order_perm md fs : Permutation (msg_field_order md fs) fs.
Proof.
  unfold msg_field_order. rewrite (Permutation_map snd (msg_chunk_sort_perm _)). rewrite map_map. cbn [snd].
  rewrite map_id. reflexivity.
Qed.

(* ---------- small facts about the accumulator operations ---------- *)
Lemma msg_append_field_app fd v vs fs :
  msg_append_field fd vs (msg_append_field fd [v] fs) = msg_append_field fd (v :: vs) fs.
Proof.
  unfold msg_append_field. destruct vs as [|w vs]; [reflexivity|].
  rewrite msg_fget_fset_same, msg_fset_fset_same. rewrite <- app_assoc. reflexivity.
Qed.
Lemma msg_merge_fields_none mrg md P :
  fold_left (fun acc p => match acc with Some fs => msg_merge_one mrg md fs p | None => None end) P None = None.
Proof. induction P as [|p P IH]; [reflexivity|exact IH]. Qed.
Lemma msg_merge_fields_cons mrg md accf p P :
  msg_merge_fields mrg md accf (p :: P) =
  match msg_merge_one mrg md accf p with Some fs => msg_merge_fields mrg md fs P | None => None end.
Proof.
  unfold msg_merge_fields. cbn [fold_left]. destruct (msg_merge_one mrg md accf p); [reflexivity|apply msg_merge_fields_none].
Qed.

Section MergeDec.
  Variable slow : bool.
  Variable S : schema.
  Notation dm := (msg_decode_msg slow S).
  Notation eb := (msg_enc_body S).

  (* decoding the encoding of v into any accumulator, followed by [tail]: the accumulator becomes
     the merge, and the loop continues with [tail] *)
  Definition msg_mrg_stmt (v : value) : Prop :=
    forall dep tid, msg_typed slow S dep tid v = true -> msg_sizes_ok S tid v = true ->
    forall (acc0 : msg_macc) grp tail g,
      (length (eb tid v ++ tail) < length g)%nat ->
      exists (m : msg_macc) g2,
        msg_merge_d S dep tid (VMsg (fst acc0) (snd acc0)) v = Some (VMsg (fst m) (snd m)) /\
        (length tail < length g2)%nat /\
        dm dep tid grp g (eb tid v ++ tail) acc0 = dm dep tid grp g2 tail m.
  Definition msg_mrg_stmt_deep (v : value) : Prop :=
    msg_mrg_stmt v /\ match v with VEntry _ v' => msg_mrg_stmt v' | _ => True end.

  Section InMsg.
    Variables (d : nat) (tid : nat) (md : mdesc) (grp : N).
    Hypothesis Hmd : nth_error S tid = Some md.
    Notation has2 := (match d with O => false | _ => true end).
    Notation tv2 := (fun t x => match d with O => false | Datatypes.S d1 => msg_typed slow S d1 t x end).

    (* the unknown section, followed by more input *)
    Lemma msg_unknown_loop_k : forall gf u g accf pre tail,
      msg_unknown_ok slow md has2 gf u = true -> (length (u ++ tail) < length g)%nat ->
      exists g2, (length tail < length g2)%nat /\
        dm (Datatypes.S d) tid grp g (u ++ tail) (accf, pre) = dm (Datatypes.S d) tid grp g2 tail (accf, pre ++ u).
    Proof.
      induction gf as [|x0 gf IH]; intros u g accf pre tail Hok Hg; [discriminate|].
      destruct u as [|b0 u0].
      - exists g. cbn [app] in *. rewrite app_nil_r. split; [exact Hg|reflexivity].
      - cbn [msg_unknown_ok] in Hok.
        destruct (dec_tag (b0 :: u0)) as [[[num typ] r]|e] eqn:Hdt; [|discriminate].
        destruct (parse_val default_dep num typ r) as [[w r']|e] eqn:Hpv; [|discriminate].
        repeat (apply andb_true_iff in Hok; destruct Hok as [Hok ?]).
        rename H into Hrec. rename H0 into Hlt. rename H1 into Heq2. rename H2 into Heq1. rename H3 into Hrej.
        rename H4 into Ht4.
        apply msg_bytes_eqb_eq in Heq2.
        destruct g as [|x g]; [cbn in Hg; lia|].
        rewrite (msg_dm_unfold slow S d tid grp md x g ((b0 :: u0) ++ tail) (accf, pre) Hmd).
        cbn [app]. change (b0 :: u0 ++ tail) with ((b0 :: u0) ++ tail).
        rewrite (msg_dec_tag_ext _ _ _ _ tail Hdt).
        replace (msg_max_num <? num) with false by lia.
        apply negb_true_iff in Ht4. rewrite Ht4. cbv zeta.
        rewrite msg_rejects_step; [|exact Hrej].
        unfold msg_unknown. destruct (msg_parse_val_ext _ _ _ _ _ _ tail Hpv) as (w' & Hpv'). rewrite Hpv'.
        cbn [fst snd].
        assert (Hlr : (length r' <= length r)%nat).
        { pose proof (f_equal (@length byte) Heq2) as Hl. rewrite app_length in Hl. lia. }
        assert (Hq : firstn (length (r ++ tail) - length (r' ++ tail)) (r ++ tail) = firstn (length r - length r') r).
        { rewrite !app_length. replace (length r + length tail - (length r' + length tail))%nat with (length r - length r')%nat by lia.
          set (q := firstn (length r - length r') r) in *.
          assert (Hql : length q = (length r - length r')%nat).
          { pose proof (f_equal (@length byte) Heq2) as Hl. rewrite app_length in Hl. lia. }
          rewrite <- Heq2 at 2. rewrite <- app_assoc. rewrite <- Hql. apply msg_firstn_len. }
        rewrite Hq.
        assert (Hlen' : (length (r' ++ tail) < length g)%nat).
        { cbn [length app] in Hg. rewrite !app_length in *. 
          assert (length r < length (b0 :: u0))%nat by (apply Nat.ltb_lt; exact Hlt). cbn [length] in *. lia. }
        match goal with |- context [msg_decode_msg _ _ _ _ _ g (r' ++ tail) (accf, ?p)] =>
          destruct (IH r' g accf p tail Hrec Hlen') as (g2 & Hg2 & E) end.
        exists g2. split; [exact Hg2|]. rewrite E. f_equal. f_equal.
        rewrite <- !app_assoc. f_equal.
        destruct slow; apply msg_bytes_eqb_eq in Heq1.
        + (* raw tag *)
          set (t := firstn (length (b0 :: u0) - length r) (b0 :: u0)) in *.
          assert (Htl : length t = (length (b0 :: u0) - length r)%nat).
          { pose proof (f_equal (@length byte) Heq1) as Hl. rewrite app_length in Hl. lia. }
          assert (Ht : firstn (length ((b0 :: u0) ++ tail) - length (r ++ tail)) ((b0 :: u0) ++ tail) = t).
          { rewrite !app_length. replace (length (b0 :: u0) + length tail - (length r + length tail))%nat with (length t) by lia.
            rewrite <- Heq1. rewrite <- app_assoc. apply msg_firstn_len. }
          rewrite Ht, Heq2. exact Heq1.
        + rewrite Heq2. exact Heq1.
    Qed.

    (* ---------- one singular scalar ---------- *)
    Lemma msg_mrg_scalar fd sk s accf u tail g :
      msg_find_field md (f_num fd) = Some fd -> f_kind fd = KS sk -> msg_not_map fd ->
      1 <= f_num fd -> f_num fd <= msg_max_num ->
      sk_ok sk s = true -> msg_wval_ok (sk_enc sk s) = true -> msg_str_valid sk (msg_field_utf8 slow fd) s = true ->
      (length (msg_enc_elem eb (f_num fd) (f_kind fd) (VS s) ++ tail) < length g)%nat ->
      exists g2, (length tail < length g2)%nat /\
        dm (Datatypes.S d) tid grp g (msg_enc_elem eb (f_num fd) (f_kind fd) (VS s) ++ tail) (accf, u) =
        dm (Datatypes.S d) tid grp g2 tail
           ((if card_repeated (f_card fd) then msg_append_field fd [VS s] accf else msg_set_field md fd (VS s) accf), u).
    Proof.
      intros Hf Hk Hnm Hlo Hhi Hok Hw Hstr Hg. rewrite Hk in *. cbn [msg_enc_elem] in *. rewrite <- app_assoc in *.
      apply (msg_dm_field slow S d tid md grp g (f_num fd) (sk_wt sk) (msg_enc_scalar sk s) tail (accf, u));
        try assumption; [destruct sk; cbn; lia|destruct sk; cbn; lia|].
      intros tagraw. apply (msg_step_scalar slow md _ _ fd sk s tagraw tail (accf, u)); assumption.
    Qed.

    (* ---------- repeated, expanded: every element is decoded into a fresh message ---------- *)
    Lemma msg_mrg_elems fd u :
      msg_find_field md (f_num fd) = Some fd -> msg_not_map fd ->
      1 <= f_num fd -> f_num fd <= msg_max_num -> card_repeated (f_card fd) = true ->
      forall vs accf tail g, Forall (msg_elem_good slow S d fd) vs ->
        (length (flat_map (fun e => msg_enc_elem eb (f_num fd) (f_kind fd) e) vs ++ tail) < length g)%nat ->
        exists g2, (length tail < length g2)%nat /\
          dm (Datatypes.S d) tid grp g (flat_map (fun e => msg_enc_elem eb (f_num fd) (f_kind fd) e) vs ++ tail) (accf, u) =
          dm (Datatypes.S d) tid grp g2 tail (msg_append_field fd vs accf, u).
    Proof.
      intros Hf Hnm Hlo Hhi Hrep. induction vs as [|v vs IH]; intros accf tail g Hall Hg.
      - exists g. cbn [flat_map app] in *. split; [exact Hg|reflexivity].
      - inversion Hall as [|? ? (Hty & Hsz & Hst) Hvs]; subst.
        cbn [flat_map] in *. rewrite <- app_assoc in *.
        destruct (msg_elem_step slow S d tid md grp Hmd fd v accf u _ g Hf Hnm Hlo Hhi Hty Hsz Hst (or_introl Hrep) Hg)
          as (g1 & Hg1 & E1).
        rewrite E1, Hrep.
        destruct (IH (msg_append_field fd [v] accf) tail g1 Hvs Hg1) as (g2 & Hg2 & E2).
        exists g2. split; [exact Hg2|]. rewrite E2. rewrite msg_append_field_app. reflexivity.
    Qed.

    (* ---------- map entries: upserts ---------- *)
    Lemma msg_mrg_entries fd kk kutf8 vdef d1 u :
      d = Datatypes.S d1 ->
      msg_find_field md (f_num fd) = Some fd -> f_card fd = CMap kk kutf8 vdef ->
      1 <= f_num fd -> f_num fd <= msg_max_num ->
      forall es accf tail g,
        Forall (msg_entry_good slow S fd kk kutf8 d1) es ->
        (length (flat_map (fun e => msg_enc_entry eb (f_num fd) kk (f_kind fd) e) es ++ tail) < length g)%nat ->
        exists g2, (length tail < length g2)%nat /\
          dm (Datatypes.S d) tid grp g (flat_map (fun e => msg_enc_entry eb (f_num fd) kk (f_kind fd) e) es ++ tail) (accf, u) =
          dm (Datatypes.S d) tid grp g2 tail
             (match es with [] => accf | _ => msg_fset accf (f_num fd) (msg_merge_entries (msg_fget accf (f_num fd)) es) end, u).
    Proof.
      intros Hd Hf Hc Hlo Hhi. induction es as [|e es IH]; intros accf tail g Hall Hg.
      - exists g. cbn [flat_map app] in *. split; [exact Hg|reflexivity].
      - pose proof (Forall_inv Hall) as (Hty & Hsz & Hst). pose proof (Forall_inv_tail Hall) as Hes.
        destruct e as [s|fs' u'|key v]; try (cbn [msg_typed_entry] in Hty; discriminate).
        cbn [flat_map] in *. rewrite <- app_assoc in *.
        destruct Hst as [_ Hstv].
        destruct (msg_map_entry_step slow S d tid md grp Hmd fd kk kutf8 vdef d1 key v accf u _ g
                    Hd Hf Hc Hlo Hhi Hty Hsz Hstv Hg) as (g1 & Hg1 & E1).
        rewrite E1.
        destruct (IH (msg_fset accf (f_num fd) (msg_map_put (msg_fget accf (f_num fd)) key v)) tail g1 Hes Hg1)
          as (g2 & Hg2 & E2).
        exists g2. split; [exact Hg2|]. rewrite E2. f_equal. f_equal.
        destruct es as [|e2 es2]; [reflexivity|].
        rewrite msg_fget_fset_same, msg_fset_fset_same. reflexivity.
    Qed.
  End InMsg.
End MergeDec.

Section MergeDec2.
  Variable slow : bool.
  Variable S : schema.
  Notation dm := (msg_decode_msg slow S).
  Notation eb := (msg_enc_body S).

  Lemma msg_old_sub_value fd accf :
    card_repeated (f_card fd) = false ->
    msg_old_sub fd accf = msg_macc_of (msg_old_value accf (f_num fd)).
  Proof.
    intros Hr. unfold msg_old_sub, msg_old_value. rewrite Hr.
    destruct (msg_fget accf (f_num fd)) as [|[s|fs u|k v] r]; reflexivity.
  Qed.
  Lemma msg_old_value_vmsg accf num : exists fs u, msg_old_value accf num = VMsg fs u.
  Proof.
    unfold msg_old_value. destruct (msg_fget accf num) as [|[s|fs u|k v] r]; try (exists [], []; reflexivity).
    exists fs, u. reflexivity.
  Qed.

  Section InMsg2.
    Variables (d : nat) (tid : nat) (md : mdesc) (grp : N).
    Hypothesis Hmd : nth_error S tid = Some md.
    Notation has2 := (match d with O => false | _ => true end).
    Notation tv2 := (fun t x => match d with O => false | Datatypes.S d1 => msg_typed slow S d1 t x end).

    (* ---------- one singular message / group, merged into the value already there ---------- *)
    Lemma msg_mrg_sub fd v accf u tail g :
      msg_find_field md (f_num fd) = Some fd -> msg_not_map fd -> card_repeated (f_card fd) = false ->
      1 <= f_num fd -> f_num fd <= msg_max_num ->
      (exists t, f_kind fd = KMsg t \/ f_kind fd = KGrp t) ->
      msg_typed_elem slow (msg_typed slow S d) fd v = true ->
      msg_szok_elem (msg_size_body S) (msg_sizes_ok S) (f_kind fd) v = true ->
      msg_mrg_stmt slow S v ->
      (length (msg_enc_elem eb (f_num fd) (f_kind fd) v ++ tail) < length g)%nat ->
      exists m t g2, (f_kind fd = KMsg t \/ f_kind fd = KGrp t) /\
        msg_merge_d S d t (msg_old_value accf (f_num fd)) v = Some m /\
        (length tail < length g2)%nat /\
        dm (Datatypes.S d) tid grp g (msg_enc_elem eb (f_num fd) (f_kind fd) v ++ tail) (accf, u) =
        dm (Datatypes.S d) tid grp g2 tail (msg_set_field md fd m accf, u).
    Proof.
      intros Hf Hnm Hrep Hlo Hhi (t0 & Hkind) Hty Hsz Hstmt Hg.
      unfold msg_typed_elem in Hty. unfold msg_enc_elem, msg_szok_elem in *.
      destruct (msg_old_value_vmsg accf (f_num fd)) as (ofs & ou & Hold).
      destruct (f_kind fd) as [sk|t|t] eqn:Hk; destruct v as [s|fs' u'|k0 v0]; try discriminate;
        try (destruct Hkind as [Hkind|Hkind]; discriminate).
      - (* message *)
        apply andb_true_iff in Hsz. destruct Hsz as [Hsok Hslt].
        pose proof (msg_body_len S t _ Hsok Hslt) as Hlen.
        rewrite <- app_assoc in *.
        destruct (Hstmt d t Hty Hsok (msg_macc_of (msg_old_value accf (f_num fd))) 0 [] (x00 :: eb t (VMsg fs' u')))
          as (m & g1 & Hm & Hg1 & E1); [rewrite app_nil_r; cbn [length]; lia|].
        rewrite app_nil_r in E1.
        exists (VMsg (fst m) (snd m)), t.
        destruct (msg_dm_field slow S d tid md grp g (f_num fd) 2 (enc_bytes (eb t (VMsg fs' u'))) tail (accf, u)
                    (msg_set_field md fd (VMsg (fst m) (snd m)) accf, u) Hmd Hlo Hhi) as (g2 & Hg2 & E);
          [lia|lia| |exact Hg|].
        + intros tagraw.
          rewrite (msg_step_message slow md _ _ fd t (eb t (VMsg fs' u')) tail tagraw (accf, u) m); try assumption.
          * cbn [fst snd]. unfold msg_store_sub. rewrite Hrep. reflexivity.
          * cbn [fst]. rewrite (msg_old_sub_value fd accf Hrep). unfold msg_whole. rewrite E1.
            destruct d as [|d0].
            -- cbn [msg_typed] in Hty. discriminate.
            -- destruct (msg_typed_unfold slow S _ t fs' u' Hty) as (d' & md' & Hd' & Hmd' & _).
               rewrite (msg_dm_end0 slow S d0 t md' g1 m); [reflexivity| |lia].
               inversion Hd'; subst d'. exact Hmd'.
        + exists g2. split; [left; reflexivity|]. split; [|split; [exact Hg2|exact E]].
          rewrite Hold in *. cbn [msg_macc_of fst snd] in Hm. exact Hm.
      - (* group *)
        apply andb_true_iff in Hty. destruct Hty as [Hty Hunk].
        apply andb_true_iff in Hty. destruct Hty as [Hslow Hty].
        apply negb_true_iff in Hslow.
        replace ((enc_tag (f_num fd) 3 ++ eb t (VMsg fs' u') ++ enc_tag (f_num fd) 4) ++ tail)
          with (enc_tag (f_num fd) 3 ++ (eb t (VMsg fs' u') ++ enc_tag (f_num fd) 4) ++ tail) in *
          by (rewrite <- !app_assoc; reflexivity).
        destruct (Hstmt d t Hty Hsz (msg_macc_of (msg_old_value accf (f_num fd))) (f_num fd) (enc_tag (f_num fd) 4 ++ tail)
                         (x00 :: (eb t (VMsg fs' u') ++ enc_tag (f_num fd) 4) ++ tail))
          as (m & g1 & Hm & Hg1 & E1); [rewrite <- app_assoc; cbn [length]; lia|].
        exists (VMsg (fst m) (snd m)), t.
        destruct (msg_dm_field slow S d tid md grp g (f_num fd) 3 (eb t (VMsg fs' u') ++ enc_tag (f_num fd) 4) tail (accf, u)
                    (msg_set_field md fd (VMsg (fst m) (snd m)) accf, u) Hmd Hlo Hhi) as (g2 & Hg2 & E);
          [lia|lia| |exact Hg|].
        + intros tagraw.
          rewrite (msg_step_group slow md _ _ fd t (eb t (VMsg fs' u') ++ enc_tag (f_num fd) 4) tail tagraw (accf, u) m);
            try assumption.
          * cbn [fst snd]. unfold msg_store_sub. rewrite Hrep. reflexivity.
          * cbn [fst]. rewrite (msg_old_sub_value fd accf Hrep). rewrite <- app_assoc in E1 |- *. rewrite E1.
            destruct d as [|d0].
            -- cbn [msg_typed] in Hty. discriminate.
            -- destruct (msg_typed_unfold slow S _ t fs' u' Hty) as (d' & md' & Hd' & Hmd' & _).
               inversion Hd'; subst d'.
               apply (msg_dm_end_grp slow S d0 t md' (f_num fd) g1 tail m Hmd' Hlo Hhi). lia.
        + exists g2. split; [right; reflexivity|]. split; [|split; [exact Hg2|exact E]].
          rewrite Hold in *. cbn [msg_macc_of fst snd] in Hm. exact Hm.
    Qed.

    (* ---------- one field with all its values = msg_merge_one ---------- *)
    Lemma msg_mrg_field fd vs accf u tail g :
      msg_find_field md (f_num fd) = Some fd ->
      msg_typed_field slow (msg_typed slow S d) tv2 has2 fd vs = true ->
      msg_szok_field (msg_size_body S) (msg_sizes_ok S) fd vs = true ->
      Forall (msg_mrg_stmt_deep slow S) vs ->
      (length (msg_enc_field eb fd vs ++ tail) < length g)%nat ->
      exists accf' g2,
        msg_merge_one (msg_merge_d S d) md accf (f_num fd, vs) = Some accf' /\
        (length tail < length g2)%nat /\
        dm (Datatypes.S d) tid grp g (msg_enc_field eb fd vs ++ tail) (accf, u) =
        dm (Datatypes.S d) tid grp g2 tail (accf', u).
    Proof.
      intros Hf Hty Hsz Hdeep Hg.
      unfold msg_typed_field in Hty. unfold msg_szok_field in Hsz. unfold msg_enc_field in *.
      unfold msg_merge_one. cbn [fst snd]. rewrite Hf.
      apply andb_true_iff in Hty. destruct Hty as [Hnum Hty].
      apply andb_true_iff in Hnum. destruct Hnum as [Hlo Hhi].
      apply andb_true_iff in Hsz. destruct Hsz as [_ Hsz].
      assert (Hlo' : 1 <= f_num fd) by lia. assert (Hhi' : f_num fd <= msg_max_num) by lia.
      pose proof (msg_dec_stmt_all slow S) as Hfresh.
      (* singular *)
      assert (Hsingle : forall v c, vs = [v] -> f_card fd = c -> msg_not_map fd -> card_repeated c = false ->
                msg_typed_elem slow (msg_typed slow S d) fd v = true ->
                (match c, v with CImp, VS s => msg_scalar_is_zero s = false | _, _ => True end) ->
                forallb (msg_szok_elem (msg_size_body S) (msg_sizes_ok S) (f_kind fd)) vs = true ->
                (length (flat_map (fun e => msg_enc_elem eb (f_num fd) (f_kind fd) e) vs ++ tail) < length g)%nat ->
                exists accf' g2,
                  match f_kind fd, v with
                  | KMsg t, VMsg _ _ | KGrp t, VMsg _ _ =>
                    match msg_merge_d S d t (msg_old_value accf (f_num fd)) v with
                    | Some m => Some (msg_set_field md fd m accf)
                    | None => None
                    end
                  | _, VS s => Some (match c with
                                     | CImp => if msg_scalar_is_zero s then accf else msg_set_field md fd v accf
                                     | _ => msg_set_field md fd v accf
                                     end)
                  | _, _ => Some accf
                  end = Some accf' /\
                  (length tail < length g2)%nat /\
                  dm (Datatypes.S d) tid grp g (flat_map (fun e => msg_enc_elem eb (f_num fd) (f_kind fd) e) vs ++ tail) (accf, u) =
                  dm (Datatypes.S d) tid grp g2 tail (accf', u)).
      { clear Hg Hsz Hty. intros v c -> Hc Hnm Hrep Htyv Hz Hszv0 Hg. cbn [flat_map forallb] in *. rewrite app_nil_r in *.
        apply andb_true_iff in Hszv0. destruct Hszv0 as [Hszv _].
        pose proof (Forall_inv Hdeep) as [Hstv _].
        rewrite <- Hc in Hrep.
        destruct (f_kind fd) as [sk|t|t] eqn:Hk.
        - (* scalar *)
          destruct v as [s|fs' u'|k0 v0]; try (unfold msg_typed_elem in Htyv; rewrite Hk in Htyv; discriminate).
          unfold msg_typed_elem in Htyv. rewrite Hk in Htyv.
          apply andb_true_iff in Htyv. destruct Htyv as [Hok Hstr]. cbn [msg_szok_elem] in Hszv.
          destruct (msg_mrg_scalar slow S d tid md grp Hmd fd sk s accf u tail g Hf Hk Hnm Hlo' Hhi' Hok Hszv Hstr)
            as (g2 & Hg2 & E); [rewrite Hk; exact Hg|].
          rewrite Hk in E. rewrite Hrep in E.
          eexists. exists g2. split; [|split; [exact Hg2|exact E]].
          destruct c; try reflexivity. rewrite Hz. reflexivity.
        - destruct (msg_mrg_sub fd v accf u tail g Hf Hnm Hrep Hlo' Hhi') as (m & t' & g2 & Hk' & Hm & Hg2 & E);
            try assumption; [exists t; left; exact Hk|rewrite Hk; exact Hszv|rewrite Hk; exact Hg|].
          assert (t' = t) as -> by (destruct Hk' as [Hk'|Hk']; congruence).
          rewrite Hk in E.
          destruct v as [s|fs' u'|k0 v0]; try (unfold msg_typed_elem in Htyv; rewrite Hk in Htyv; discriminate).
          rewrite Hm. eexists. exists g2. split; [reflexivity|split; [exact Hg2|exact E]].
        - destruct (msg_mrg_sub fd v accf u tail g Hf Hnm Hrep Hlo' Hhi') as (m & t' & g2 & Hk' & Hm & Hg2 & E);
            try assumption; [exists t; right; exact Hk|rewrite Hk; exact Hszv|rewrite Hk; exact Hg|].
          assert (t' = t) as -> by (destruct Hk' as [Hk'|Hk']; congruence).
          rewrite Hk in E.
          destruct v as [s|fs' u'|k0 v0]; try (unfold msg_typed_elem in Htyv; rewrite Hk in Htyv; discriminate).
          rewrite Hm. eexists. exists g2. split; [reflexivity|split; [exact Hg2|exact E]]. }
      (* repeated, expanded *)
      assert (Hexp : msg_not_map fd -> card_repeated (f_card fd) = true ->
                forallb (msg_typed_elem slow (msg_typed slow S d) fd) vs = true ->
                forallb (msg_szok_elem (msg_size_body S) (msg_sizes_ok S) (f_kind fd)) vs = true ->
                (length (flat_map (fun e => msg_enc_elem eb (f_num fd) (f_kind fd) e) vs ++ tail) < length g)%nat ->
                exists g2, (length tail < length g2)%nat /\
                  dm (Datatypes.S d) tid grp g (flat_map (fun e => msg_enc_elem eb (f_num fd) (f_kind fd) e) vs ++ tail) (accf, u) =
                  dm (Datatypes.S d) tid grp g2 tail (msg_append_field fd vs accf, u)).
      { intros Hnm Hrep Htyv Hszv Hgv.
        apply (msg_mrg_elems slow S d tid md grp Hmd fd u Hf Hnm Hlo' Hhi' Hrep vs accf tail g); [|exact Hgv].
        rewrite forallb_forall in Htyv, Hszv. apply Forall_forall. intros v Hv.
        repeat split; [apply Htyv, Hv|apply Hszv, Hv|apply (proj1 (Hfresh v))]. }
      destruct (f_card fd) as [| | | | |kk kutf8 vdef] eqn:Hc.
      - destruct vs as [|v [|]]; try discriminate.
        apply (Hsingle v COpt eq_refl eq_refl); try assumption; try reflexivity; try exact I;
          intros ? ? ?; rewrite Hc; discriminate.
      - destruct vs as [|v [|]]; try discriminate.
        apply andb_true_iff in Hty. destruct Hty as [Hty Hnz].
        apply (Hsingle v CImp eq_refl eq_refl); try assumption; try reflexivity;
          try (intros ? ? ?; rewrite Hc; discriminate).
        destruct v as [s| |]; try exact I. destruct (f_kind fd); try discriminate.
        apply negb_true_iff in Hnz. exact Hnz.
      - destruct vs as [|v [|]]; try discriminate.
        apply (Hsingle v CReq eq_refl eq_refl); try assumption; try reflexivity; try exact I;
          intros ? ? ?; rewrite Hc; discriminate.
      - destruct (Hexp ltac:(intros ? ? ?; rewrite Hc; discriminate) ltac:(try rewrite Hc; reflexivity)) as (g2 & Hg2 & E);
          try assumption; [destruct vs; [discriminate|exact Hty]|].
        eexists. exists g2. split; [reflexivity|split; [exact Hg2|exact E]].
      - assert (Htyv : forallb (msg_typed_elem slow (msg_typed slow S d) fd) vs = true)
          by (destruct vs; [discriminate|exact Hty]).
        destruct (f_kind fd) as [sk|t|t] eqn:Hk.
        + destruct vs as [|v0 vs']; [discriminate|].
          destruct (msg_packable sk) eqn:Hp.
          * apply andb_true_iff in Hsz. destruct Hsz as [Hszv Hplen].
            pose proof (msg_packed_eq (msg_size_body S) (msg_sizes_ok S) sk (v0 :: vs') Hszv) as Hpe.
            assert (Hlen : N.of_nat (length (msg_enc_packed_payload sk (v0 :: vs'))) < 2^64)
              by (rewrite <- Hpe, <- msg_two64_eq; lia).
            rewrite <- app_assoc in *.
            destruct (msg_dm_field slow S d tid md grp g (f_num fd) 2
                        (enc_bytes (msg_enc_packed_payload sk (v0 :: vs'))) tail (accf, u)
                        ((msg_append_field fd (v0 :: vs') accf), u) Hmd Hlo' Hhi') as (g2 & Hg2 & E);
              [lia|lia| |exact Hg|].
            -- intros tagraw.
               apply (msg_step_packed slow md _ _ fd sk (v0 :: vs') tagraw tail (accf, u)); try assumption.
               ++ rewrite Hc. reflexivity.
               ++ rewrite forallb_forall in Htyv, Hszv. apply Forall_forall. intros v Hv.
                  specialize (Htyv v Hv). specialize (Hszv v Hv).
                  unfold msg_typed_elem in Htyv. rewrite Hk in Htyv.
                  destruct v as [s| |]; try discriminate. cbn [msg_szok_elem] in Hszv.
                  apply andb_true_iff in Htyv. destruct Htyv as [Hok _]. split; assumption.
            -- eexists. exists g2. split; [reflexivity|split; [exact Hg2|exact E]].
          * destruct (Hexp ltac:(intros ? ? ?; rewrite Hc; discriminate) ltac:(try rewrite Hc; reflexivity))
              as (g2 & Hg2 & E); try assumption.
            eexists. exists g2. split; [reflexivity|split; [exact Hg2|exact E]].
        + destruct (Hexp ltac:(intros ? ? ?; rewrite Hc; discriminate) ltac:(try rewrite Hc; reflexivity))
            as (g2 & Hg2 & E); try assumption.
          eexists. exists g2. split; [reflexivity|split; [exact Hg2|exact E]].
        + destruct (Hexp ltac:(intros ? ? ?; rewrite Hc; discriminate) ltac:(try rewrite Hc; reflexivity))
            as (g2 & Hg2 & E); try assumption.
          eexists. exists g2. split; [reflexivity|split; [exact Hg2|exact E]].
      - (* map *)
        apply andb_true_iff in Hty. destruct Hty as [Hty Hsorted].
        apply andb_true_iff in Hty. destruct Hty as [Hhas2 Hty].
        assert (Hd : exists d1, d = Datatypes.S d1) by (destruct d; [discriminate|eexists; reflexivity]).
        destruct Hd as (d1 & Hd).
        assert (Htye : forallb (msg_typed_entry (msg_typed slow S d1) fd kk kutf8) vs = true).
        { destruct vs; [discriminate|]. rewrite Hd in Hty. exact Hty. }
        destruct (msg_mrg_entries slow S d tid md grp Hmd fd kk kutf8 vdef d1 u Hd Hf Hc Hlo' Hhi' vs accf tail g)
          as (g2 & Hg2 & E); [|exact Hg|].
        + rewrite forallb_forall in Htye, Hsz. rewrite Forall_forall in *.
          intros e He. repeat split; [apply Htye, He|apply Hsz, He|apply (proj1 (Hfresh e))|apply (proj2 (Hfresh e))].
        + eexists. exists g2. split; [reflexivity|split; [exact Hg2|exact E]].
    Qed.
  End InMsg2.
End MergeDec2.

Section MergeDec3.
  Variable slow : bool.
  Variable S : schema.
  Notation dm := (msg_decode_msg slow S).
  Notation eb := (msg_enc_body S).

  Section InMsg3.
    Variables (d : nat) (tid : nat) (md : mdesc) (grp : N).
    Hypothesis Hmd : nth_error S tid = Some md.
    Notation has2 := (match d with O => false | _ => true end).
    Notation tv2 := (fun t x => match d with O => false | Datatypes.S d1 => msg_typed slow S d1 t x end).

    Definition msg_mchunk_good (p : N * list value) : Prop :=
      msg_typed_chunk slow (msg_typed slow S d) tv2 has2 md p = true /\
      msg_szok_chunk (msg_size_body S) (msg_sizes_ok S) md p = true /\
      Forall (msg_mrg_stmt_deep slow S) (snd p).

    Lemma msg_mrg_chunks : forall P accf u tail g,
      Forall msg_mchunk_good P ->
      (length (flat_map (fun p => snd (msg_enc_chunk eb md p)) P ++ tail) < length g)%nat ->
      exists accf' g2,
        msg_merge_fields (msg_merge_d S d) md accf P = Some accf' /\
        (length tail < length g2)%nat /\
        dm (Datatypes.S d) tid grp g (flat_map (fun p => snd (msg_enc_chunk eb md p)) P ++ tail) (accf, u) =
        dm (Datatypes.S d) tid grp g2 tail (accf', u).
    Proof.
      induction P as [|p P IH]; intros accf u tail g Hgood Hg.
      - exists accf, g. cbn [flat_map app] in *. split; [reflexivity|split; [exact Hg|reflexivity]].
      - pose proof (Forall_inv Hgood) as (Hty & Hsz & Hdeep). pose proof (Forall_inv_tail Hgood) as HgoodP.
        cbn [flat_map] in *. rewrite <- app_assoc in *.
        unfold msg_typed_chunk in Hty. unfold msg_szok_chunk in Hsz.
        destruct (msg_find_field md (fst p)) as [fd|] eqn:Hf; [|discriminate].
        assert (Hc : snd (msg_enc_chunk eb md p) = msg_enc_field eb fd (snd p))
          by (unfold msg_enc_chunk; rewrite Hf; reflexivity).
        rewrite Hc in *.
        pose proof (msg_find_field_num _ _ _ Hf) as Hnum.
        rewrite <- Hnum in Hf.
        destruct (msg_mrg_field slow S d tid md grp Hmd fd (snd p) accf u _ g Hf Hty Hsz Hdeep Hg)
          as (accf1 & g1 & Hm1 & Hg1 & E1).
        destruct (IH accf1 u tail g1 HgoodP Hg1) as (accf' & g2 & Hm2 & Hg2 & E2).
        exists accf', g2. split; [|split; [exact Hg2|rewrite E1; exact E2]].
        rewrite msg_merge_fields_cons.
        replace p with (f_num fd, snd p) by (destruct p; cbn [fst snd] in *; congruence).
        rewrite Hm1. exact Hm2.
    Qed.
  End InMsg3.

  (* ---------- the induction over values ---------- *)
  Lemma msg_mrg_stmt_all : forall v, msg_mrg_stmt_deep slow S v.
  Proof.
    induction v as [s|fs unk IH|k v IH] using msg_value_ind.
    - split; [|exact I]. intros dep tid Hty. discriminate.
    - split; [|exact I]. intros dep tid Hty Hsz acc0 grp tail g Hg.
      destruct (msg_typed_unfold slow S dep tid fs unk Hty) as (d & md & -> & Hmd & Hsorted & Hchunks & Hone & Hunk).
      pose proof (msg_sizes_ok_unfold S tid fs unk Hsz) as Hszc.
      rewrite (msg_nth_error_nth S tid md Hmd) in Hszc.
      rewrite msg_enc_body_order in *. rewrite (msg_nth_error_nth S tid md Hmd) in *. rewrite <- app_assoc in *.
      set (P := msg_field_order md fs) in *.
      assert (HinP : forall p, In p P -> In p fs)
        by (intros p Hp; eapply Permutation_in; [apply msg_field_order_perm|exact Hp]).
      rewrite forallb_forall in Hchunks, Hszc.
      assert (Hgood : Forall (msg_mchunk_good d md) P).
      { apply Forall_forall. intros p Hp. specialize (HinP p Hp). repeat split.
        - apply Hchunks, HinP.
        - apply Hszc, HinP.
        - rewrite Forall_forall in IH. apply IH, HinP. }
      destruct acc0 as [afs au].
      destruct (msg_mrg_chunks d tid md grp Hmd P afs au (unk ++ tail) g Hgood Hg) as (accf' & g1 & Hm & Hg1 & E1).
      destruct (msg_unknown_loop_k slow S d tid md grp Hmd (x00 :: unk) unk g1 accf' au tail Hunk Hg1) as (g2 & Hg2 & E2).
      exists (accf', au ++ unk), g2. split; [|split; [exact Hg2|rewrite E1; exact E2]].
      cbn [msg_merge_d fst snd]. rewrite (msg_nth_error_nth S tid md Hmd). fold P. rewrite Hm. reflexivity.
    - split; [intros dep tid Hty; discriminate|]. exact (proj1 IH).
  Qed.
End MergeDec3.

(* ---------- C07 ---------- *)

(* UnmarshalOptions{Merge: true}: decoding Marshal(b) into any message a gives Merge(a, b) *)
Theorem msg_decode_into_merge slow S limit tid b afs au :
  msg_valid slow S limit tid b = true ->
  exists m, msg_merge S limit tid (VMsg afs au) b = Some m /\
            msg_decode_into slow S limit tid (msg_encode S tid b) (VMsg afs au) = DOk m.
Proof.
  unfold msg_valid. intros H. apply andb_true_iff in H. destruct H as [Hsz Hty].
  destruct (proj1 (msg_mrg_stmt_all slow S b) limit tid Hty Hsz (afs, au) 0 [] (x00 :: msg_enc_body S tid b ++ []))
    as (m & g2 & Hm & Hg2 & E); [cbn [length]; lia|].
  exists (VMsg (fst m) (snd m)). split; [exact Hm|].
  unfold msg_decode_into, msg_encode. cbn [msg_macc_of]. rewrite app_nil_r in E. rewrite E.
  destruct b as [s|fs unk|k v]; try discriminate.
  destruct (msg_typed_unfold slow S limit tid fs unk Hty) as (d & md & -> & Hmd & _).
  rewrite (msg_dm_end0 slow S d tid md g2 m Hmd) by lia. reflexivity.
Qed.

(* Clone: merging into the empty message gives the message itself *)
Theorem msg_merge_empty_l slow S limit tid m :
  msg_valid slow S limit tid m = true -> msg_clone S limit tid m = Some m.
Proof.
  intros Hv. destruct (msg_decode_into_merge slow S limit tid m [] [] Hv) as (m' & Hm & Hd).
  pose proof (msg_roundtrip slow S limit tid m Hv) as Hr. unfold msg_decode in Hr.
  unfold msg_empty in Hr. rewrite Hd in Hr. inversion Hr; subst m'. exact Hm.
Qed.

(* Merge(a, b) is what decoding Marshal(a) || Marshal(b) gives *)
Theorem msg_merge_eq_decode_concat slow S limit tid a b :
  msg_valid slow S limit tid a = true -> msg_valid slow S limit tid b = true ->
  exists m, msg_merge S limit tid a b = Some m /\
            msg_decode slow S limit tid (msg_encode S tid a ++ msg_encode S tid b) = DOk m.
Proof.
  intros Ha Hb.
  pose proof (msg_merge_empty_l slow S limit tid a Ha) as Hcl. unfold msg_clone in Hcl.
  unfold msg_valid in Ha, Hb. apply andb_true_iff in Ha. destruct Ha as [Hsza Htya].
  apply andb_true_iff in Hb. destruct Hb as [Hszb Htyb].
  destruct a as [s|afs au|k v]; try discriminate.
  destruct b as [s|bfs bu|k v]; try discriminate.
  (* a, followed by the encoding of b *)
  destruct (proj1 (msg_mrg_stmt_all slow S (VMsg afs au)) limit tid Htya Hsza ([], []) 0 (msg_enc_body S tid (VMsg bfs bu))
                  (x00 :: msg_enc_body S tid (VMsg afs au) ++ msg_enc_body S tid (VMsg bfs bu)))
    as (m1 & g1 & Hm1 & Hg1 & E1); [cbn [length]; lia|].
  cbn [fst snd] in Hm1. unfold msg_empty in Hcl. rewrite Hcl in Hm1.
  destruct m1 as [mf mu]. cbn [fst snd] in Hm1.
  assert (Hfs : mf = afs /\ mu = au) by (inversion Hm1; split; reflexivity).
  destruct Hfs as [-> ->]. clear Hm1.
  (* then b *)
  destruct (proj1 (msg_mrg_stmt_all slow S (VMsg bfs bu)) limit tid Htyb Hszb (afs, au) 0 [] g1)
    as (m2 & g2 & Hm2 & Hg2 & E2); [rewrite app_nil_r; exact Hg1|].
  rewrite app_nil_r in E2.
  exists (VMsg (fst m2) (snd m2)). split.
  - unfold msg_merge. exact Hm2.
  - unfold msg_decode, msg_decode_into, msg_encode, msg_empty. cbn [msg_macc_of]. rewrite E1.
    match goal with |- match ?X with DOk _ => _ | DErr _ => _ end = _ =>
      replace X with (msg_decode_msg slow S limit tid 0 g2 [] m2) by (symmetry; exact E2) end.
    destruct (msg_typed_unfold slow S limit tid bfs bu Htyb) as (d & md & -> & Hmd & _).
    rewrite (msg_dm_end0 slow S d tid md g2 m2 Hmd) by lia. reflexivity.
Qed.

(* decoding the encoding of a valid message followed by more input: the rest is decoded into it *)
Theorem msg_decode_app_encoded slow S limit tid a y :
  msg_valid slow S limit tid a = true ->
  exists g, (length y < length g)%nat /\
    msg_decode_msg slow S limit tid 0 (x00 :: msg_encode S tid a ++ y) (msg_encode S tid a ++ y) ([], []) =
    msg_decode_msg slow S limit tid 0 g y (msg_macc_of a).
Proof.
  intros Ha. pose proof (msg_merge_empty_l slow S limit tid a Ha) as Hcl. unfold msg_clone in Hcl.
  unfold msg_valid in Ha. apply andb_true_iff in Ha. destruct Ha as [Hsza Htya].
  destruct (proj1 (msg_mrg_stmt_all slow S a) limit tid Htya Hsza ([], []) 0 y (x00 :: msg_enc_body S tid a ++ y))
    as (m1 & g1 & Hm1 & Hg1 & E1); [cbn [length]; lia|].
  exists g1. split; [exact Hg1|]. unfold msg_encode. rewrite E1.
  cbn [fst snd] in Hm1. unfold msg_empty in Hcl. rewrite Hcl in Hm1. inversion Hm1; subst a. destruct m1; reflexivity.
Qed.

(* the clause "Unmarshal(x || y) = Merge(Unmarshal x, Unmarshal y)" is false for non-canonical y:
   an explicit zero of an implicit-presence field clears the field on the wire (finding FA6) *)
Definition ex_fa6 : schema := [[mkF 1 (KS SkInt32) CImp None false false false]].
Lemma msg_concat_eq_merge_refuted_FA6 :
  exists S x y vx vy vxy m,
    msg_decode false S 100 0 x = DOk vx /\ msg_decode false S 100 0 y = DOk vy /\
    msg_decode false S 100 0 (x ++ y) = DOk vxy /\ msg_merge S 100 0 vx vy = Some m /\ m <> vxy.
Proof.
  exists ex_fa6, [n2b 8; n2b 3], [n2b 8; n2b 0]. do 4 eexists.
  split; [vm_compute; reflexivity|]. split; [vm_compute; reflexivity|].
  split; [vm_compute; reflexivity|]. split; [vm_compute; reflexivity|]. discriminate.
Qed.
