(* MergeP — proofs about Msg/MergeModel.v (C07). *)
From Coq Require Import List NArith ZArith Bool Lia.
From PB Require Import Base.PBytes Wire.WireModel Msg.MsgSchema Msg.MsgValue Msg.MsgDec Msg.MergeModel.
Import ListNotations.
Open Scope N_scope.

(* Merge(m, empty) = m *)
Lemma msg_merge_empty_r S tid fs u : msg_merge S tid (VMsg fs u) msg_empty = VMsg fs u.
Proof. cbn [msg_merge msg_empty fold_left]. rewrite app_nil_r. reflexivity. Qed.

(* unknown fields append *)
Lemma msg_merge_unknown S tid afs au bfs bu :
  exists fs, msg_merge S tid (VMsg afs au) (VMsg bfs bu) = VMsg fs (au ++ bu).
Proof. cbn [msg_merge]. eexists. reflexivity. Qed.
