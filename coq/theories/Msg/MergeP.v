(* MergeP — proofs about Msg/MergeModel.v (C07). *)
From Coq Require Import List NArith ZArith Bool Lia.
From PB Require Import Base.PBytes Wire.WireModel Msg.MsgSchema Msg.MsgValue Msg.MsgEnc Msg.MsgDec Msg.MergeModel.
Import ListNotations.
Open Scope N_scope.

(* Merge(m, empty) = m *)
Lemma msg_merge_empty_r S d tid fs u : msg_merge S (Datatypes.S d) tid (VMsg fs u) msg_empty = Some (VMsg fs u).
Proof. cbn. rewrite app_nil_r. reflexivity. Qed.
