(* MergeP — proofs about Msg/MergeModel.v (C07).

   msg_mrg_stmt_all           decoding the encoding of a valid message b into ANY accumulator a, followed
                              by arbitrary further input, turns the accumulator into Merge(a, b) and
                              continues with that input (induction over values; the unknown section
                              is handled by msg_unknown_loop_k, every field by msg_mrg_field)
   msg_decode_into_merge      UnmarshalOptions{Merge:true}(Marshal b) into a = Merge(a, b)
   msg_merge_empty_l / _r     Clone; Merge with the empty message
   msg_merge_eq_decode_concat Merge(a, b) = Unmarshal(Marshal a || Marshal b)
   msg_decode_app_encoded     decode (Marshal a || y) continues with y from a
   msg_concat_eq_merge_refuted_FA6
   msg_decode_app             decode (x || y) = decode y into (decode x) for EVERY decodable pair (parsers on
                              extended input, msg_step_ext, fuel monotonicity, msg_app_all)
   msg_concat_eq_merge        Unmarshal(x || Marshal b) = Merge(Unmarshal x, b), x any decodable bytes *)
From Coq Require Import List Arith NArith ZArith Lia Bool Permutation.
From Coq Require Import ZifyBool ZifyNat ZifyN.
From PB Require Import Base.PBytes Wire.WireModel Wire.VarintP Wire.ScanP.
From PB Require Import Msg.MsgSchema Msg.MsgValue Msg.MsgUtf8 Msg.MsgEnc Msg.MsgDec Msg.MsgValid.
From PB Require Import Msg.MsgWireP Msg.MsgScalarP Msg.MsgAssocP Msg.MsgSizeP Msg.MsgRoundP Msg.MergeModel.
Ltac Zify.zify_post_hook ::= Z.div_mod_to_equations.
Import ListNotations.
Open Scope N_scope.

(* Merge(m, empty) = m *)
Lemma msg_merge_empty_r S d tid fs u : msg_merge S (Datatypes.S d) tid (VMsg fs u) msg_empty = Some (VMsg fs u).
Proof. cbn. rewrite app_nil_r. reflexivity. Qed.

(* ---------- parsers on extended input ---------- *)
Lemma msg_dec_tag_ext bs num typ r y :
  dec_tag bs = Ok (num, typ, r) -> dec_tag (bs ++ y) = Ok (num, typ, r ++ y).
Proof.
  intros H. apply dec_tag_iff in H. destruct H as (p & -> & Ht). rewrite <- app_assoc.
  apply dec_tag_complete. exact Ht.
Qed.
Lemma msg_parse_val_ext dep num typ bs v r y :
  parse_val dep num typ bs = Ok (v, r) -> exists v', parse_val dep num typ (bs ++ y) = Ok (v', r ++ y).
Proof.
  intros H. apply parse_val_sound in H. destruct H as (val & -> & Hw). rewrite <- app_assoc.
  apply parse_val_complete. exact Hw.
Qed.
Lemma msg_firstn_len {A} (a b : list A) : firstn (length a) (a ++ b) = a.
Proof. induction a as [|x a IH]; [reflexivity|]. cbn [length app firstn]. now rewrite IH. Qed.

(* ---------- the order of the fields in the encoding ---------- *)
Lemma msg_enc_body_order S tid fs unk :
  msg_enc_body S tid (VMsg fs unk) =
  flat_map (fun p => snd (msg_enc_chunk (msg_enc_body S) (nth tid S []) p)) (msg_field_order (nth tid S []) fs) ++ unk.
Proof.
  set (md := nth tid S []). set (h := fun p => snd (msg_enc_chunk (msg_enc_body S) md p)).
  unfold msg_field_order. fold md. set (K := map (fun p => (msg_field_key md p, p)) fs).
  cbn [msg_enc_body]. fold md. f_equal.
  assert (E : map (fun p => msg_enc_chunk (msg_enc_body S) md p) fs = map (fun x => (fst x, h (snd x))) K).
  { unfold K. rewrite map_map. apply map_ext. intros p. cbn [fst snd]. unfold h, msg_field_key, msg_enc_chunk.
    destruct (msg_find_field md (fst p)); reflexivity. }
  rewrite E, msg_chunk_sort_map. rewrite map_map. cbn [snd].
  rewrite flat_map_concat_map, map_map. reflexivity.
Qed.
Lemma msg_field_order_perm md fs : Permutation (msg_field_order md fs) fs.
Proof.
  unfold msg_field_order. rewrite (Permutation_map snd (msg_chunk_sort_perm _)). rewrite map_map. cbn [snd].
  rewrite map_id. reflexivity.
Qed.

(* ---------- small facts about the accumulator operations ---------- *)
Lemma msg_append_field_app fd v vs fs :
  msg_append_field fd vs (msg_append_field fd [v] fs) = msg_append_field fd (v :: vs) fs.
Proof.
  unfold msg_append_field. destruct vs as [|w vs]; [reflexivity|].
  rewrite msg_fget_fset_same, msg_fset_fset_same. rewrite <- app_assoc. reflexivity.
Qed.
Lemma msg_merge_fields_none mrg md P :
  fold_left (fun acc p => match acc with Some fs => msg_merge_one mrg md fs p | None => None end) P None = None.
Proof. induction P as [|p P IH]; [reflexivity|exact IH]. Qed.
Lemma msg_merge_fields_cons mrg md accf p P :
  msg_merge_fields mrg md accf (p :: P) =
  match msg_merge_one mrg md accf p with Some fs => msg_merge_fields mrg md fs P | None => None end.
Proof.
  unfold msg_merge_fields. cbn [fold_left]. destruct (msg_merge_one mrg md accf p); [reflexivity|apply msg_merge_fields_none].
Qed.

Section MergeDec.
  Variable slow : bool.
  Variable S : schema.
  Notation dm := (msg_decode_msg slow S).
  Notation eb := (msg_enc_body S).

  (* decoding the encoding of v into any accumulator, followed by [tail]: the accumulator becomes
     the merge, and the loop continues with [tail] *)
  Definition msg_mrg_stmt (v : value) : Prop :=
    forall dep tid, msg_typed slow S dep tid v = true -> msg_sizes_ok S tid v = true ->
    forall (acc0 : msg_macc) grp tail g,
      (length (eb tid v ++ tail) < length g)%nat ->
      exists (m : msg_macc) g2,
        msg_merge_d S dep tid (VMsg (fst acc0) (snd acc0)) v = Some (VMsg (fst m) (snd m)) /\
        (length tail < length g2)%nat /\
        dm dep tid grp g (eb tid v ++ tail) acc0 = dm dep tid grp g2 tail m.
  Definition msg_mrg_stmt_deep (v : value) : Prop :=
    msg_mrg_stmt v /\ match v with VEntry _ v' => msg_mrg_stmt v' | _ => True end.

  Section InMsg.
    Variables (d : nat) (tid : nat) (md : mdesc) (grp : N).
    Hypothesis Hmd : nth_error S tid = Some md.
    Notation has2 := (match d with O => false | _ => true end).
    Notation tv2 := (fun t x => match d with O => false | Datatypes.S d1 => msg_typed slow S d1 t x end).

    (* the unknown section, followed by more input *)
    Lemma msg_unknown_loop_k : forall gf u g accf pre tail,
      msg_unknown_ok slow md has2 gf u = true -> (length (u ++ tail) < length g)%nat ->
      exists g2, (length tail < length g2)%nat /\
        dm (Datatypes.S d) tid grp g (u ++ tail) (accf, pre) = dm (Datatypes.S d) tid grp g2 tail (accf, pre ++ u).
    Proof. exact (msg_unknown_loop slow S d tid md grp Hmd). Qed.

    (* ---------- one singular scalar ---------- *)
    Lemma msg_mrg_scalar fd sk s accf u tail g :
      msg_find_field md (f_num fd) = Some fd -> f_kind fd = KS sk -> msg_not_map fd ->
      1 <= f_num fd -> f_num fd <= msg_max_num ->
      sk_ok sk s = true -> msg_wval_ok (sk_enc sk s) = true -> msg_str_valid sk (msg_field_utf8 slow fd) s = true ->
      (length (msg_enc_elem eb (f_num fd) (f_kind fd) (VS s) ++ tail) < length g)%nat ->
      exists g2, (length tail < length g2)%nat /\
        dm (Datatypes.S d) tid grp g (msg_enc_elem eb (f_num fd) (f_kind fd) (VS s) ++ tail) (accf, u) =
        dm (Datatypes.S d) tid grp g2 tail
           ((if card_repeated (f_card fd) then msg_append_field fd [VS s] accf else msg_set_field md fd (VS s) accf), u).
    Proof.
      intros Hf Hk Hnm Hlo Hhi Hok Hw Hstr Hg. rewrite Hk in *. cbn [msg_enc_elem] in *. rewrite <- app_assoc in *.
      apply (msg_dm_field slow S d tid md grp g (f_num fd) (sk_wt sk) (msg_enc_scalar sk s) tail (accf, u));
        try assumption; [destruct sk; cbn; lia|destruct sk; cbn; lia|].
      intros tagraw. apply (msg_step_scalar slow md _ _ fd sk s tagraw tail (accf, u)); assumption.
    Qed.

    (* ---------- repeated, expanded: every element is decoded into a fresh message ---------- *)
    Lemma msg_mrg_elems fd u :
      msg_find_field md (f_num fd) = Some fd -> msg_not_map fd ->
      1 <= f_num fd -> f_num fd <= msg_max_num -> card_repeated (f_card fd) = true ->
      forall vs accf tail g, Forall (msg_elem_good slow S d fd) vs ->
        (length (flat_map (fun e => msg_enc_elem eb (f_num fd) (f_kind fd) e) vs ++ tail) < length g)%nat ->
        exists g2, (length tail < length g2)%nat /\
          dm (Datatypes.S d) tid grp g (flat_map (fun e => msg_enc_elem eb (f_num fd) (f_kind fd) e) vs ++ tail) (accf, u) =
          dm (Datatypes.S d) tid grp g2 tail (msg_append_field fd vs accf, u).
    Proof.
      intros Hf Hnm Hlo Hhi Hrep. induction vs as [|v vs IH]; intros accf tail g Hall Hg.
      - exists g. cbn [flat_map app] in *. split; [exact Hg|reflexivity].
      - inversion Hall as [|? ? (Hty & Hsz & Hst) Hvs]; subst.
        cbn [flat_map] in *. rewrite <- app_assoc in *.
        destruct (msg_elem_step slow S d tid md grp Hmd fd v accf u _ g Hf Hnm Hlo Hhi Hty Hsz Hst (or_introl Hrep) Hg)
          as (g1 & Hg1 & E1).
        rewrite E1, Hrep.
        destruct (IH (msg_append_field fd [v] accf) tail g1 Hvs Hg1) as (g2 & Hg2 & E2).
        exists g2. split; [exact Hg2|]. rewrite E2. rewrite msg_append_field_app. reflexivity.
    Qed.

    (* ---------- map entries: upserts ---------- *)
    Lemma msg_mrg_entries fd kk kutf8 vdef d1 u :
      d = Datatypes.S d1 ->
      msg_find_field md (f_num fd) = Some fd -> f_card fd = CMap kk kutf8 vdef ->
      1 <= f_num fd -> f_num fd <= msg_max_num ->
      forall es accf tail g,
        Forall (msg_entry_good slow S fd kk kutf8 d1) es ->
        (length (flat_map (fun e => msg_enc_entry eb (f_num fd) kk (f_kind fd) e) es ++ tail) < length g)%nat ->
        exists g2, (length tail < length g2)%nat /\
          dm (Datatypes.S d) tid grp g (flat_map (fun e => msg_enc_entry eb (f_num fd) kk (f_kind fd) e) es ++ tail) (accf, u) =
          dm (Datatypes.S d) tid grp g2 tail
             (match es with [] => accf | _ => msg_fset accf (f_num fd) (msg_merge_entries (msg_fget accf (f_num fd)) es) end, u).
    Proof.
      intros Hd Hf Hc Hlo Hhi. induction es as [|e es IH]; intros accf tail g Hall Hg.
      - exists g. cbn [flat_map app] in *. split; [exact Hg|reflexivity].
      - pose proof (Forall_inv Hall) as (Hty & Hsz & Hst). pose proof (Forall_inv_tail Hall) as Hes.
        destruct e as [s|fs' u'|key v]; try (cbn [msg_typed_entry] in Hty; discriminate).
        cbn [flat_map] in *. rewrite <- app_assoc in *.
        destruct Hst as [_ Hstv].
        destruct (msg_map_entry_step slow S d tid md grp Hmd fd kk kutf8 vdef d1 key v accf u _ g
                    Hd Hf Hc Hlo Hhi Hty Hsz Hstv Hg) as (g1 & Hg1 & E1).
        rewrite E1.
        destruct (IH (msg_fset accf (f_num fd) (msg_map_put (msg_fget accf (f_num fd)) key v)) tail g1 Hes Hg1)
          as (g2 & Hg2 & E2).
        exists g2. split; [exact Hg2|]. rewrite E2. f_equal. f_equal.
        destruct es as [|e2 es2]; [reflexivity|].
        rewrite msg_fget_fset_same, msg_fset_fset_same. reflexivity.
    Qed.
  End InMsg.
End MergeDec.

Section MergeDec2.
  Variable slow : bool.
  Variable S : schema.
  Notation dm := (msg_decode_msg slow S).
  Notation eb := (msg_enc_body S).

  Lemma msg_old_sub_value fd accf :
    card_repeated (f_card fd) = false ->
    msg_old_sub fd accf = msg_macc_of (msg_old_value accf (f_num fd)).
  Proof.
    intros Hr. unfold msg_old_sub, msg_old_value. rewrite Hr.
    destruct (msg_fget accf (f_num fd)) as [|[s|fs u|k v] r]; reflexivity.
  Qed.
  Lemma msg_old_value_vmsg accf num : exists fs u, msg_old_value accf num = VMsg fs u.
  Proof.
    unfold msg_old_value. destruct (msg_fget accf num) as [|[s|fs u|k v] r]; try (exists [], []; reflexivity).
    exists fs, u. reflexivity.
  Qed.

  Section InMsg2.
    Variables (d : nat) (tid : nat) (md : mdesc) (grp : N).
    Hypothesis Hmd : nth_error S tid = Some md.
    Notation has2 := (match d with O => false | _ => true end).
    Notation tv2 := (fun t x => match d with O => false | Datatypes.S d1 => msg_typed slow S d1 t x end).

    (* ---------- one singular message / group, merged into the value already there ---------- *)
    Lemma msg_mrg_sub fd v accf u tail g :
      msg_find_field md (f_num fd) = Some fd -> msg_not_map fd -> card_repeated (f_card fd) = false ->
      1 <= f_num fd -> f_num fd <= msg_max_num ->
      (exists t, f_kind fd = KMsg t \/ f_kind fd = KGrp t) ->
      msg_typed_elem slow (msg_enc_body S) (msg_typed slow S d) fd v = true ->
      msg_szok_elem (msg_size_body S) (msg_sizes_ok S) (f_kind fd) v = true ->
      msg_mrg_stmt slow S v ->
      (length (msg_enc_elem eb (f_num fd) (f_kind fd) v ++ tail) < length g)%nat ->
      exists m t g2, (f_kind fd = KMsg t \/ f_kind fd = KGrp t) /\
        msg_merge_d S d t (msg_old_value accf (f_num fd)) v = Some m /\
        (length tail < length g2)%nat /\
        dm (Datatypes.S d) tid grp g (msg_enc_elem eb (f_num fd) (f_kind fd) v ++ tail) (accf, u) =
        dm (Datatypes.S d) tid grp g2 tail (msg_set_field md fd m accf, u).
    Proof.
      intros Hf Hnm Hrep Hlo Hhi (t0 & Hkind) Hty Hsz Hstmt Hg.
      unfold msg_typed_elem in Hty. unfold msg_enc_elem, msg_szok_elem in *.
      destruct (msg_old_value_vmsg accf (f_num fd)) as (ofs & ou & Hold).
      destruct (f_kind fd) as [sk|t|t] eqn:Hk; destruct v as [s|fs' u'|k0 v0]; try discriminate;
        try (destruct Hkind as [Hkind|Hkind]; discriminate).
      - (* message *)
        apply andb_true_iff in Hsz. destruct Hsz as [Hsok Hslt].
        pose proof (msg_body_len S t _ Hsok Hslt) as Hlen.
        rewrite <- app_assoc in *.
        destruct (Hstmt d t Hty Hsok (msg_macc_of (msg_old_value accf (f_num fd))) 0 [] (x00 :: eb t (VMsg fs' u')))
          as (m & g1 & Hm & Hg1 & E1); [rewrite app_nil_r; cbn [length]; lia|].
        rewrite app_nil_r in E1.
        exists (VMsg (fst m) (snd m)), t.
        destruct (msg_dm_field slow S d tid md grp g (f_num fd) 2 (enc_bytes (eb t (VMsg fs' u'))) tail (accf, u)
                    (msg_set_field md fd (VMsg (fst m) (snd m)) accf, u) Hmd Hlo Hhi) as (g2 & Hg2 & E);
          [lia|lia| |exact Hg|].
        + intros tagraw.
          rewrite (msg_step_message slow md _ _ fd t (eb t (VMsg fs' u')) tail tagraw (accf, u) m); try assumption.
          * cbn [fst snd]. unfold msg_store_sub. rewrite Hrep. reflexivity.
          * cbn [fst]. rewrite (msg_old_sub_value fd accf Hrep). unfold msg_whole. rewrite E1.
            destruct d as [|d0].
            -- cbn [msg_typed] in Hty. discriminate.
            -- destruct (msg_typed_unfold slow S _ t fs' u' Hty) as (d' & md' & Hd' & Hmd' & _).
               rewrite (msg_dm_end0 slow S d0 t md' g1 m); [reflexivity| |lia].
               inversion Hd'; subst d'. exact Hmd'.
        + exists g2. split; [left; reflexivity|]. split; [|split; [exact Hg2|exact E]].
          rewrite Hold in *. cbn [msg_macc_of fst snd] in Hm. exact Hm.
      - (* group *)
        apply andb_true_iff in Hty. destruct Hty as [Hty Hscan].
        destruct slow eqn:Hslow; cbn [negb orb] in Hscan.
        + (* reflection path: ConsumeGroup, then the content as a message *)
          unfold msg_group_scans in Hscan.
          destruct (parse_val default_dep (f_num fd) 3 (eb t (VMsg fs' u') ++ enc_tag (f_num fd) 4)) as [[w [|? ?]]|e] eqn:Hpv;
            try discriminate.
          replace ((enc_tag (f_num fd) 3 ++ eb t (VMsg fs' u') ++ enc_tag (f_num fd) 4) ++ tail)
            with (enc_tag (f_num fd) 3 ++ (eb t (VMsg fs' u') ++ enc_tag (f_num fd) 4 ++ tail)) in *
            by (rewrite <- !app_assoc; reflexivity).
          destruct (Hstmt d t Hty Hsz (msg_macc_of (msg_old_value accf (f_num fd))) 0 [] (x00 :: eb t (VMsg fs' u')))
            as (m & g1 & Hm & Hg1 & E1); [rewrite app_nil_r; cbn [length]; lia|].
          rewrite app_nil_r in E1.
          exists (VMsg (fst m) (snd m)), t.
          destruct (msg_dm_field true S d tid md grp g (f_num fd) 3 (eb t (VMsg fs' u') ++ enc_tag (f_num fd) 4) tail (accf, u)
                      (msg_set_field md fd (VMsg (fst m) (snd m)) accf, u) Hmd Hlo Hhi) as (g2 & Hg2 & E);
            [lia|lia| |rewrite <- app_assoc; exact Hg|].
          * intros tagraw. rewrite <- app_assoc.
            rewrite (msg_step_group_slow true md _ _ fd t (eb t (VMsg fs' u')) tail tagraw (accf, u) m w eq_refl);
              try assumption.
            -- cbn [fst snd]. unfold msg_store_sub. rewrite Hrep. reflexivity.
            -- cbn [fst]. rewrite (msg_old_sub_value fd accf Hrep). unfold msg_whole. rewrite E1.
               destruct d as [|d0].
               ++ cbn [msg_typed] in Hty. discriminate.
               ++ destruct (msg_typed_unfold true S _ t fs' u' Hty) as (d' & md' & Hd' & Hmd' & _).
                  rewrite (msg_dm_end0 true S d0 t md' g1 m); [reflexivity| |lia].
                  inversion Hd'; subst d'. exact Hmd'.
          * exists g2. split; [right; reflexivity|]. split; [|split; [exact Hg2|rewrite <- app_assoc in E; exact E]].
            rewrite Hold in *. cbn [msg_macc_of fst snd] in Hm. exact Hm.
        + (* table-driven path: the same tag loop with the group number *)
          replace ((enc_tag (f_num fd) 3 ++ eb t (VMsg fs' u') ++ enc_tag (f_num fd) 4) ++ tail)
            with (enc_tag (f_num fd) 3 ++ (eb t (VMsg fs' u') ++ enc_tag (f_num fd) 4) ++ tail) in *
            by (rewrite <- !app_assoc; reflexivity).
          destruct (Hstmt d t Hty Hsz (msg_macc_of (msg_old_value accf (f_num fd))) (f_num fd) (enc_tag (f_num fd) 4 ++ tail)
                           (x00 :: (eb t (VMsg fs' u') ++ enc_tag (f_num fd) 4) ++ tail))
            as (m & g1 & Hm & Hg1 & E1); [rewrite <- app_assoc; cbn [length]; lia|].
          exists (VMsg (fst m) (snd m)), t.
          destruct (msg_dm_field false S d tid md grp g (f_num fd) 3 (eb t (VMsg fs' u') ++ enc_tag (f_num fd) 4) tail (accf, u)
                      (msg_set_field md fd (VMsg (fst m) (snd m)) accf, u) Hmd Hlo Hhi) as (g2 & Hg2 & E);
            [lia|lia| |exact Hg|].
          * intros tagraw.
            rewrite (msg_step_group false md _ _ fd t (eb t (VMsg fs' u') ++ enc_tag (f_num fd) 4) tail tagraw (accf, u) m eq_refl);
              try assumption.
            -- cbn [fst snd]. unfold msg_store_sub. rewrite Hrep. reflexivity.
            -- cbn [fst]. rewrite (msg_old_sub_value fd accf Hrep). rewrite <- app_assoc in E1 |- *. rewrite E1.
               destruct d as [|d0].
               ++ cbn [msg_typed] in Hty. discriminate.
               ++ destruct (msg_typed_unfold false S _ t fs' u' Hty) as (d' & md' & Hd' & Hmd' & _).
                  inversion Hd'; subst d'.
                  apply (msg_dm_end_grp false S d0 t md' (f_num fd) g1 tail m eq_refl Hmd' Hlo Hhi). lia.
          * exists g2. split; [right; reflexivity|]. split; [|split; [exact Hg2|exact E]].
            rewrite Hold in *. cbn [msg_macc_of fst snd] in Hm. exact Hm.
    Qed.

    (* ---------- one field with all its values = msg_merge_one ---------- *)
    Lemma msg_mrg_field fd vs accf u tail g :
      msg_find_field md (f_num fd) = Some fd ->
      msg_typed_field slow (msg_enc_body S) (msg_typed slow S d) tv2 has2 fd vs = true ->
      msg_szok_field (msg_size_body S) (msg_sizes_ok S) fd vs = true ->
      Forall (msg_mrg_stmt_deep slow S) vs ->
      (length (msg_enc_field eb fd vs ++ tail) < length g)%nat ->
      exists accf' g2,
        msg_merge_one (msg_merge_d S d) md accf (f_num fd, vs) = Some accf' /\
        (length tail < length g2)%nat /\
        dm (Datatypes.S d) tid grp g (msg_enc_field eb fd vs ++ tail) (accf, u) =
        dm (Datatypes.S d) tid grp g2 tail (accf', u).
    Proof.
      intros Hf Hty Hsz Hdeep Hg.
      unfold msg_typed_field in Hty. unfold msg_szok_field in Hsz. unfold msg_enc_field in *.
      unfold msg_merge_one. cbn [fst snd]. rewrite Hf.
      apply andb_true_iff in Hty. destruct Hty as [Hnum Hty].
      apply andb_true_iff in Hnum. destruct Hnum as [Hlo Hhi].
      apply andb_true_iff in Hsz. destruct Hsz as [_ Hsz].
      assert (Hlo' : 1 <= f_num fd) by lia. assert (Hhi' : f_num fd <= msg_max_num) by lia.
      pose proof (msg_dec_stmt_all slow S) as Hfresh.
      (* singular *)
      assert (Hsingle : forall v c, vs = [v] -> f_card fd = c -> msg_not_map fd -> card_repeated c = false ->
                msg_typed_elem slow (msg_enc_body S) (msg_typed slow S d) fd v = true ->
                (match c, v with CImp, VS s => msg_scalar_is_zero s = false | _, _ => True end) ->
                forallb (msg_szok_elem (msg_size_body S) (msg_sizes_ok S) (f_kind fd)) vs = true ->
                (length (flat_map (fun e => msg_enc_elem eb (f_num fd) (f_kind fd) e) vs ++ tail) < length g)%nat ->
                exists accf' g2,
                  match f_kind fd, v with
                  | KMsg t, VMsg _ _ | KGrp t, VMsg _ _ =>
                    match msg_merge_d S d t (msg_old_value accf (f_num fd)) v with
                    | Some m => Some (msg_set_field md fd m accf)
                    | None => None
                    end
                  | _, VS s => Some (match c with
                                     | CImp => if msg_scalar_is_zero s then accf else msg_set_field md fd v accf
                                     | _ => msg_set_field md fd v accf
                                     end)
                  | _, _ => Some accf
                  end = Some accf' /\
                  (length tail < length g2)%nat /\
                  dm (Datatypes.S d) tid grp g (flat_map (fun e => msg_enc_elem eb (f_num fd) (f_kind fd) e) vs ++ tail) (accf, u) =
                  dm (Datatypes.S d) tid grp g2 tail (accf', u)).
      { clear Hg Hsz Hty. intros v c -> Hc Hnm Hrep Htyv Hz Hszv0 Hg. cbn [flat_map forallb] in *. rewrite app_nil_r in *.
        apply andb_true_iff in Hszv0. destruct Hszv0 as [Hszv _].
        pose proof (Forall_inv Hdeep) as [Hstv _].
        rewrite <- Hc in Hrep.
        destruct (f_kind fd) as [sk|t|t] eqn:Hk.
        - (* scalar *)
          destruct v as [s|fs' u'|k0 v0]; try (unfold msg_typed_elem in Htyv; rewrite Hk in Htyv; discriminate).
          unfold msg_typed_elem in Htyv. rewrite Hk in Htyv.
          apply andb_true_iff in Htyv. destruct Htyv as [Hok Hstr]. cbn [msg_szok_elem] in Hszv.
          destruct (msg_mrg_scalar slow S d tid md grp Hmd fd sk s accf u tail g Hf Hk Hnm Hlo' Hhi' Hok Hszv Hstr)
            as (g2 & Hg2 & E); [rewrite Hk; exact Hg|].
          rewrite Hk in E. rewrite Hrep in E.
          eexists. exists g2. split; [|split; [exact Hg2|exact E]].
          destruct c; try reflexivity. rewrite Hz. reflexivity.
        - destruct (msg_mrg_sub fd v accf u tail g Hf Hnm Hrep Hlo' Hhi') as (m & t' & g2 & Hk' & Hm & Hg2 & E);
            try assumption; [exists t; left; exact Hk|rewrite Hk; exact Hszv|rewrite Hk; exact Hg|].
          assert (t' = t) as -> by (destruct Hk' as [Hk'|Hk']; congruence).
          rewrite Hk in E.
          destruct v as [s|fs' u'|k0 v0]; try (unfold msg_typed_elem in Htyv; rewrite Hk in Htyv; discriminate).
          rewrite Hm. eexists. exists g2. split; [reflexivity|split; [exact Hg2|exact E]].
        - destruct (msg_mrg_sub fd v accf u tail g Hf Hnm Hrep Hlo' Hhi') as (m & t' & g2 & Hk' & Hm & Hg2 & E);
            try assumption; [exists t; right; exact Hk|rewrite Hk; exact Hszv|rewrite Hk; exact Hg|].
          assert (t' = t) as -> by (destruct Hk' as [Hk'|Hk']; congruence).
          rewrite Hk in E.
          destruct v as [s|fs' u'|k0 v0]; try (unfold msg_typed_elem in Htyv; rewrite Hk in Htyv; discriminate).
          rewrite Hm. eexists. exists g2. split; [reflexivity|split; [exact Hg2|exact E]]. }
      (* repeated, expanded *)
      assert (Hexp : msg_not_map fd -> card_repeated (f_card fd) = true ->
                forallb (msg_typed_elem slow (msg_enc_body S) (msg_typed slow S d) fd) vs = true ->
                forallb (msg_szok_elem (msg_size_body S) (msg_sizes_ok S) (f_kind fd)) vs = true ->
                (length (flat_map (fun e => msg_enc_elem eb (f_num fd) (f_kind fd) e) vs ++ tail) < length g)%nat ->
                exists g2, (length tail < length g2)%nat /\
                  dm (Datatypes.S d) tid grp g (flat_map (fun e => msg_enc_elem eb (f_num fd) (f_kind fd) e) vs ++ tail) (accf, u) =
                  dm (Datatypes.S d) tid grp g2 tail (msg_append_field fd vs accf, u)).
      { intros Hnm Hrep Htyv Hszv Hgv.
        apply (msg_mrg_elems slow S d tid md grp Hmd fd u Hf Hnm Hlo' Hhi' Hrep vs accf tail g); [|exact Hgv].
        rewrite forallb_forall in Htyv, Hszv. apply Forall_forall. intros v Hv.
        repeat split; [apply Htyv, Hv|apply Hszv, Hv|apply (proj1 (Hfresh v))]. }
      destruct (f_card fd) as [| | | | |kk kutf8 vdef] eqn:Hc.
      - destruct vs as [|v [|]]; try discriminate.
        apply (Hsingle v COpt eq_refl eq_refl); try assumption; try reflexivity; try exact I;
          intros ? ? ?; rewrite Hc; discriminate.
      - destruct vs as [|v [|]]; try discriminate.
        apply andb_true_iff in Hty. destruct Hty as [Hty Hnz].
        apply (Hsingle v CImp eq_refl eq_refl); try assumption; try reflexivity;
          try (intros ? ? ?; rewrite Hc; discriminate).
        destruct v as [s| |]; try exact I. destruct (f_kind fd); try discriminate.
        apply negb_true_iff in Hnz. exact Hnz.
      - destruct vs as [|v [|]]; try discriminate.
        apply (Hsingle v CReq eq_refl eq_refl); try assumption; try reflexivity; try exact I;
          intros ? ? ?; rewrite Hc; discriminate.
      - destruct (Hexp ltac:(intros ? ? ?; rewrite Hc; discriminate) ltac:(try rewrite Hc; reflexivity)) as (g2 & Hg2 & E);
          try assumption; [destruct vs; [discriminate|exact Hty]|].
        eexists. exists g2. split; [reflexivity|split; [exact Hg2|exact E]].
      - assert (Htyv : forallb (msg_typed_elem slow (msg_enc_body S) (msg_typed slow S d) fd) vs = true)
          by (destruct vs; [discriminate|exact Hty]).
        destruct (f_kind fd) as [sk|t|t] eqn:Hk.
        + destruct vs as [|v0 vs']; [discriminate|].
          destruct (msg_packable sk) eqn:Hp.
          * apply andb_true_iff in Hsz. destruct Hsz as [Hszv Hplen].
            pose proof (msg_packed_eq (msg_size_body S) (msg_sizes_ok S) sk (v0 :: vs') Hszv) as Hpe.
            assert (Hlen : N.of_nat (length (msg_enc_packed_payload sk (v0 :: vs'))) < 2^64)
              by (rewrite <- Hpe, <- msg_two64_eq; lia).
            rewrite <- app_assoc in *.
            destruct (msg_dm_field slow S d tid md grp g (f_num fd) 2
                        (enc_bytes (msg_enc_packed_payload sk (v0 :: vs'))) tail (accf, u)
                        ((msg_append_field fd (v0 :: vs') accf), u) Hmd Hlo' Hhi') as (g2 & Hg2 & E);
              [lia|lia| |exact Hg|].
            -- intros tagraw.
               apply (msg_step_packed slow md _ _ fd sk (v0 :: vs') tagraw tail (accf, u)); try assumption.
               ++ rewrite Hc. reflexivity.
               ++ rewrite forallb_forall in Htyv, Hszv. apply Forall_forall. intros v Hv.
                  specialize (Htyv v Hv). specialize (Hszv v Hv).
                  unfold msg_typed_elem in Htyv. rewrite Hk in Htyv.
                  destruct v as [s| |]; try discriminate. cbn [msg_szok_elem] in Hszv.
                  apply andb_true_iff in Htyv. destruct Htyv as [Hok _]. split; assumption.
            -- eexists. exists g2. split; [reflexivity|split; [exact Hg2|exact E]].
          * destruct (Hexp ltac:(intros ? ? ?; rewrite Hc; discriminate) ltac:(try rewrite Hc; reflexivity))
              as (g2 & Hg2 & E); try assumption.
            eexists. exists g2. split; [reflexivity|split; [exact Hg2|exact E]].
        + destruct (Hexp ltac:(intros ? ? ?; rewrite Hc; discriminate) ltac:(try rewrite Hc; reflexivity))
            as (g2 & Hg2 & E); try assumption.
          eexists. exists g2. split; [reflexivity|split; [exact Hg2|exact E]].
        + destruct (Hexp ltac:(intros ? ? ?; rewrite Hc; discriminate) ltac:(try rewrite Hc; reflexivity))
            as (g2 & Hg2 & E); try assumption.
          eexists. exists g2. split; [reflexivity|split; [exact Hg2|exact E]].
      - (* map *)
        apply andb_true_iff in Hty. destruct Hty as [Hty Hsorted].
        apply andb_true_iff in Hty. destruct Hty as [Hhas2 Hty].
        assert (Hd : exists d1, d = Datatypes.S d1) by (destruct d; [discriminate|eexists; reflexivity]).
        destruct Hd as (d1 & Hd).
        assert (Htye : forallb (msg_typed_entry (msg_typed slow S d1) fd kk kutf8) vs = true).
        { destruct vs; [discriminate|]. rewrite Hd in Hty. exact Hty. }
        destruct (msg_mrg_entries slow S d tid md grp Hmd fd kk kutf8 vdef d1 u Hd Hf Hc Hlo' Hhi' vs accf tail g)
          as (g2 & Hg2 & E); [|exact Hg|].
        + rewrite forallb_forall in Htye, Hsz. rewrite Forall_forall in *.
          intros e He. repeat split; [apply Htye, He|apply Hsz, He|apply (proj1 (Hfresh e))|apply (proj2 (Hfresh e))].
        + eexists. exists g2. split; [reflexivity|split; [exact Hg2|exact E]].
    Qed.
  End InMsg2.
End MergeDec2.

Section MergeDec3.
  Variable slow : bool.
  Variable S : schema.
  Notation dm := (msg_decode_msg slow S).
  Notation eb := (msg_enc_body S).

  Section InMsg3.
    Variables (d : nat) (tid : nat) (md : mdesc) (grp : N).
    Hypothesis Hmd : nth_error S tid = Some md.
    Notation has2 := (match d with O => false | _ => true end).
    Notation tv2 := (fun t x => match d with O => false | Datatypes.S d1 => msg_typed slow S d1 t x end).

    Definition msg_mchunk_good (p : N * list value) : Prop :=
      msg_typed_chunk slow (msg_enc_body S) (msg_typed slow S d) tv2 has2 md p = true /\
      msg_szok_chunk (msg_size_body S) (msg_sizes_ok S) md p = true /\
      Forall (msg_mrg_stmt_deep slow S) (snd p).

    Lemma msg_mrg_chunks : forall P accf u tail g,
      Forall msg_mchunk_good P ->
      (length (flat_map (fun p => snd (msg_enc_chunk eb md p)) P ++ tail) < length g)%nat ->
      exists accf' g2,
        msg_merge_fields (msg_merge_d S d) md accf P = Some accf' /\
        (length tail < length g2)%nat /\
        dm (Datatypes.S d) tid grp g (flat_map (fun p => snd (msg_enc_chunk eb md p)) P ++ tail) (accf, u) =
        dm (Datatypes.S d) tid grp g2 tail (accf', u).
    Proof.
      induction P as [|p P IH]; intros accf u tail g Hgood Hg.
      - exists accf, g. cbn [flat_map app] in *. split; [reflexivity|split; [exact Hg|reflexivity]].
      - pose proof (Forall_inv Hgood) as (Hty & Hsz & Hdeep). pose proof (Forall_inv_tail Hgood) as HgoodP.
        cbn [flat_map] in *. rewrite <- app_assoc in *.
        unfold msg_typed_chunk in Hty. unfold msg_szok_chunk in Hsz.
        destruct (msg_find_field md (fst p)) as [fd|] eqn:Hf; [|discriminate].
        assert (Hc : snd (msg_enc_chunk eb md p) = msg_enc_field eb fd (snd p))
          by (unfold msg_enc_chunk; rewrite Hf; reflexivity).
        rewrite Hc in *.
        pose proof (msg_find_field_num _ _ _ Hf) as Hnum.
        rewrite <- Hnum in Hf.
        destruct (msg_mrg_field slow S d tid md grp Hmd fd (snd p) accf u _ g Hf Hty Hsz Hdeep Hg)
          as (accf1 & g1 & Hm1 & Hg1 & E1).
        destruct (IH accf1 u tail g1 HgoodP Hg1) as (accf' & g2 & Hm2 & Hg2 & E2).
        exists accf', g2. split; [|split; [exact Hg2|rewrite E1; exact E2]].
        rewrite msg_merge_fields_cons.
        replace p with (f_num fd, snd p) by (destruct p; cbn [fst snd] in *; congruence).
        rewrite Hm1. exact Hm2.
    Qed.
  End InMsg3.

  (* ---------- the induction over values ---------- *)
  Lemma msg_mrg_stmt_all : forall v, msg_mrg_stmt_deep slow S v.
  Proof.
    induction v as [s|fs unk IH|k v IH] using msg_value_ind.
    - split; [|exact I]. intros dep tid Hty. discriminate.
    - split; [|exact I]. intros dep tid Hty Hsz acc0 grp tail g Hg.
      destruct (msg_typed_unfold slow S dep tid fs unk Hty) as (d & md & -> & Hmd & Hsorted & Hchunks & Hone & Hunk).
      pose proof (msg_sizes_ok_unfold S tid fs unk Hsz) as Hszc.
      rewrite (msg_nth_error_nth S tid md Hmd) in Hszc.
      rewrite msg_enc_body_order in *. rewrite (msg_nth_error_nth S tid md Hmd) in *. rewrite <- app_assoc in *.
      set (P := msg_field_order md fs) in *.
      assert (HinP : forall p, In p P -> In p fs)
        by (intros p Hp; eapply Permutation_in; [apply msg_field_order_perm|exact Hp]).
      rewrite forallb_forall in Hchunks, Hszc.
      assert (Hgood : Forall (msg_mchunk_good d md) P).
      { apply Forall_forall. intros p Hp. specialize (HinP p Hp). repeat split.
        - apply Hchunks, HinP.
        - apply Hszc, HinP.
        - rewrite Forall_forall in IH. apply IH, HinP. }
      destruct acc0 as [afs au].
      destruct (msg_mrg_chunks d tid md grp Hmd P afs au (unk ++ tail) g Hgood Hg) as (accf' & g1 & Hm & Hg1 & E1).
      destruct (msg_unknown_loop_k slow S d tid md grp Hmd (x00 :: unk) unk g1 accf' au tail Hunk Hg1) as (g2 & Hg2 & E2).
      exists (accf', au ++ unk), g2. split; [|split; [exact Hg2|rewrite E1; exact E2]].
      cbn [msg_merge_d fst snd]. rewrite (msg_nth_error_nth S tid md Hmd). fold P. rewrite Hm. reflexivity.
    - split; [intros dep tid Hty; discriminate|]. exact (proj1 IH).
  Qed.
End MergeDec3.

(* ---------- C07 ---------- *)

(* UnmarshalOptions{Merge: true}: decoding Marshal(b) into any message a gives Merge(a, b) *)
Theorem msg_decode_into_merge slow S limit tid b afs au :
  msg_valid slow S limit tid b = true ->
  exists m, msg_merge S limit tid (VMsg afs au) b = Some m /\
            msg_decode_into slow S limit tid (msg_encode S tid b) (VMsg afs au) = DOk m.
Proof.
  unfold msg_valid. intros H. apply andb_true_iff in H. destruct H as [Hsz Hty].
  destruct (proj1 (msg_mrg_stmt_all slow S b) limit tid Hty Hsz (afs, au) 0 [] (x00 :: msg_enc_body S tid b ++ []))
    as (m & g2 & Hm & Hg2 & E); [cbn [length]; lia|].
  exists (VMsg (fst m) (snd m)). split; [exact Hm|].
  unfold msg_decode_into, msg_encode. cbn [msg_macc_of]. rewrite app_nil_r in E. rewrite E.
  destruct b as [s|fs unk|k v]; try discriminate.
  destruct (msg_typed_unfold slow S limit tid fs unk Hty) as (d & md & -> & Hmd & _).
  rewrite (msg_dm_end0 slow S d tid md g2 m Hmd) by lia. reflexivity.
Qed.

(* Clone: merging into the empty message gives the message itself *)
Theorem msg_merge_empty_l slow S limit tid m :
  msg_valid slow S limit tid m = true -> msg_clone S limit tid m = Some m.
Proof.
  intros Hv. destruct (msg_decode_into_merge slow S limit tid m [] [] Hv) as (m' & Hm & Hd).
  pose proof (msg_roundtrip slow S limit tid m Hv) as Hr. unfold msg_decode in Hr.
  unfold msg_empty in Hr. rewrite Hd in Hr. inversion Hr; subst m'. exact Hm.
Qed.

(* Merge(a, b) is what decoding Marshal(a) || Marshal(b) gives *)
Theorem msg_merge_eq_decode_concat slow S limit tid a b :
  msg_valid slow S limit tid a = true -> msg_valid slow S limit tid b = true ->
  exists m, msg_merge S limit tid a b = Some m /\
            msg_decode slow S limit tid (msg_encode S tid a ++ msg_encode S tid b) = DOk m.
Proof.
  intros Ha Hb.
  pose proof (msg_merge_empty_l slow S limit tid a Ha) as Hcl. unfold msg_clone in Hcl.
  unfold msg_valid in Ha, Hb. apply andb_true_iff in Ha. destruct Ha as [Hsza Htya].
  apply andb_true_iff in Hb. destruct Hb as [Hszb Htyb].
  destruct a as [s|afs au|k v]; try discriminate.
  destruct b as [s|bfs bu|k v]; try discriminate.
  (* a, followed by the encoding of b *)
  destruct (proj1 (msg_mrg_stmt_all slow S (VMsg afs au)) limit tid Htya Hsza ([], []) 0 (msg_enc_body S tid (VMsg bfs bu))
                  (x00 :: msg_enc_body S tid (VMsg afs au) ++ msg_enc_body S tid (VMsg bfs bu)))
    as (m1 & g1 & Hm1 & Hg1 & E1); [cbn [length]; lia|].
  cbn [fst snd] in Hm1. unfold msg_empty in Hcl. rewrite Hcl in Hm1.
  destruct m1 as [mf mu]. cbn [fst snd] in Hm1.
  assert (Hfs : mf = afs /\ mu = au) by (inversion Hm1; split; reflexivity).
  destruct Hfs as [-> ->]. clear Hm1.
  (* then b *)
  destruct (proj1 (msg_mrg_stmt_all slow S (VMsg bfs bu)) limit tid Htyb Hszb (afs, au) 0 [] g1)
    as (m2 & g2 & Hm2 & Hg2 & E2); [rewrite app_nil_r; exact Hg1|].
  rewrite app_nil_r in E2.
  exists (VMsg (fst m2) (snd m2)). split.
  - unfold msg_merge. exact Hm2.
  - unfold msg_decode, msg_decode_into, msg_encode, msg_empty. cbn [msg_macc_of]. rewrite E1.
    match goal with |- match ?X with DOk _ => _ | DErr _ => _ end = _ =>
      replace X with (msg_decode_msg slow S limit tid 0 g2 [] m2) by (symmetry; exact E2) end.
    destruct (msg_typed_unfold slow S limit tid bfs bu Htyb) as (d & md & -> & Hmd & _).
    rewrite (msg_dm_end0 slow S d tid md g2 m2 Hmd) by lia. reflexivity.
Qed.

(* decoding the encoding of a valid message followed by more input: the rest is decoded into it *)
Theorem msg_decode_app_encoded slow S limit tid a y :
  msg_valid slow S limit tid a = true ->
  exists g, (length y < length g)%nat /\
    msg_decode_msg slow S limit tid 0 (x00 :: msg_encode S tid a ++ y) (msg_encode S tid a ++ y) ([], []) =
    msg_decode_msg slow S limit tid 0 g y (msg_macc_of a).
Proof.
  intros Ha. pose proof (msg_merge_empty_l slow S limit tid a Ha) as Hcl. unfold msg_clone in Hcl.
  unfold msg_valid in Ha. apply andb_true_iff in Ha. destruct Ha as [Hsza Htya].
  destruct (proj1 (msg_mrg_stmt_all slow S a) limit tid Htya Hsza ([], []) 0 y (x00 :: msg_enc_body S tid a ++ y))
    as (m1 & g1 & Hm1 & Hg1 & E1); [cbn [length]; lia|].
  exists g1. split; [exact Hg1|]. unfold msg_encode. rewrite E1.
  cbn [fst snd] in Hm1. unfold msg_empty in Hcl. rewrite Hcl in Hm1. inversion Hm1; subst a. destruct m1; reflexivity.
Qed.

(* the clause "Unmarshal(x || y) = Merge(Unmarshal x, Unmarshal y)" is false for non-canonical y:
   an explicit zero of an implicit-presence field clears the field on the wire (finding FA6) *)
Definition ex_fa6 : schema := [[mkF 1 (KS SkInt32) CImp None false false false]].
Lemma msg_concat_eq_merge_refuted_FA6 :
  exists S x y vx vy vxy m,
    msg_decode false S 100 0 x = DOk vx /\ msg_decode false S 100 0 y = DOk vy /\
    msg_decode false S 100 0 (x ++ y) = DOk vxy /\ msg_merge S 100 0 vx vy = Some m /\ m <> vxy.
Proof.
  exists ex_fa6, [n2b 8; n2b 3], [n2b 8; n2b 0]. do 4 eexists.
  split; [vm_compute; reflexivity|]. split; [vm_compute; reflexivity|].
  split; [vm_compute; reflexivity|]. split; [vm_compute; reflexivity|]. discriminate.
Qed.

(* ================= decode_app for arbitrary decodable input ================= *)
(* ---------- the parsers on extended input, same result ---------- *)
Lemma msg_dec_varint_ext bs v r y : dec_varint bs = Ok (v, r) -> dec_varint (bs ++ y) = Ok (v, r ++ y).
Proof.
  intros H. apply dec_varint_sound in H. destruct H as (p & -> & Hs & <-). rewrite <- app_assoc.
  apply dec_varint_complete. exact Hs.
Qed.
Lemma msg_dec_bytes_ext bs v r y : dec_bytes bs = Ok (v, r) -> dec_bytes (bs ++ y) = Ok (v, r ++ y).
Proof.
  intros H. apply dec_bytes_sound in H. destruct H as (p & -> & Hs & Hv). rewrite <- !app_assoc.
  apply dec_bytes_complete; assumption.
Qed.
Lemma msg_dec_tag_facts bs num typ r : dec_tag bs = Ok (num, typ, r) -> 1 <= num /\ exists p, bs = p ++ r.
Proof.
  intros H. split.
  - unfold dec_tag in H. destruct (dec_varint bs) as [[x r0]|e]; [|discriminate].
    destruct (decode_tag x) as [[n t]|]; [|discriminate]. destruct (N.ltb_spec n 1); [discriminate|].
    inversion H; subst. assumption.
  - apply dec_tag_iff in H. destruct H as (p & -> & _). exists p. reflexivity.
Qed.
Lemma msg_parse_val_ext_same dep num typ bs w r y :
  typ <> 3 -> parse_val dep num typ bs = Ok (w, r) -> parse_val dep num typ (bs ++ y) = Ok (w, r ++ y).
Proof.
  intros Ht. rewrite !parse_val_eq. destruct_typ typ; try discriminate; try congruence;
    first
      [ destruct (dec_varint bs) as [[v rr]|e] eqn:E; [|discriminate]; intros H; inversion H; subst;
        rewrite (msg_dec_varint_ext _ _ _ y E); reflexivity
      | destruct (take 8 bs) as [[b rr]|] eqn:E; [|discriminate]; intros H; inversion H; subst;
        rewrite (take_ext _ _ _ _ y E); reflexivity
      | destruct (dec_bytes bs) as [[b rr]|e] eqn:E; [|discriminate]; intros H; inversion H; subst;
        rewrite (msg_dec_bytes_ext _ _ _ y E); reflexivity
      | destruct (take 4 bs) as [[b rr]|] eqn:E; [|discriminate]; intros H; inversion H; subst;
        rewrite (take_ext _ _ _ _ y E); reflexivity ].
Qed.
Lemma msg_firstn_app_le' {A} n (a b : list A) : (n <= length a)%nat -> firstn n (a ++ b) = firstn n a.
Proof. intros H. rewrite firstn_app. replace (n - length a)%nat with 0%nat by lia. cbn [firstn]. apply app_nil_r. Qed.
Lemma msg_skipn_app_le {A} n (a b : list A) : (n <= length a)%nat -> skipn n (a ++ b) = skipn n a ++ b.
Proof. intros H. rewrite skipn_app. replace (n - length a)%nat with 0%nat by lia. reflexivity. Qed.
Lemma msg_consume_group_ext num r content n y :
  consume_group num r = Ok (Some content, n) ->
  consume_group num (r ++ y) = Ok (Some content, n) /\ skipn (N.to_nat n) (r ++ y) = skipn (N.to_nat n) r ++ y.
Proof.
  unfold consume_group. destruct (parse_val default_dep num 3 r) as [[w r']|e] eqn:E; [|discriminate].
  destruct (msg_parse_val_ext _ _ _ _ _ _ y E) as (w' & E'). rewrite E'.
  pose proof (parse_val_len _ _ _ _ _ _ E) as Hl.
  rewrite !app_length. replace (length r + length y - (length r' + length y))%nat with (length r - length r')%nat by lia.
  rewrite (msg_firstn_app_le' (length r - length r') r y) by lia.
  cbv zeta. destruct (Nat.ltb _ _); [discriminate|]. intros H. inversion H; subst. split; [reflexivity|].
  rewrite Nnat.Nat2N.id. apply msg_skipn_app_le. lia.
Qed.

Section DecApp.
  Variable slow : bool.
  Variable S : schema.
  Notation dm := (msg_decode_msg slow S).

  Lemma msg_unknown_ext tagraw num typ r acc acc' r' y :
    msg_unknown tagraw num typ r acc = DOk (acc', r') ->
    msg_unknown tagraw num typ (r ++ y) acc = DOk (acc', r' ++ y).
  Proof.
    unfold msg_unknown. destruct (parse_val default_dep num typ r) as [[w rr]|e] eqn:E; [|discriminate].
    destruct (msg_parse_val_ext _ _ _ _ _ _ y E) as (w' & E'). rewrite E'.
    pose proof (parse_val_len _ _ _ _ _ _ E) as Hl.
    intros H. inversion H; subst. f_equal. f_equal. f_equal. f_equal. f_equal.
    rewrite !app_length. replace (length r + length y - (length r' + length y))%nat with (length r - length r')%nat by lia.
    apply msg_firstn_app_le'. lia.
  Qed.

  Section Step.
    Variables (d : nat) (md : mdesc).

    (* the branches of msg_step for a field that is not a map, as a function of the input *)
    Definition msg_step_nmg (tagraw : list byte) (num typ : N) (acc : msg_macc) (fd : fdesc) (c : card) (r : list byte)
      : dres (msg_macc * list byte) :=
      match f_kind fd with
      | KMsg tid =>
        if typ =? 2 then
          match dec_bytes r with
          | Err _ => DErr DParse
          | Ok (payload, r') =>
            match msg_whole (dm d) tid payload (msg_old_sub fd (fst acc)) with
            | DErr e => DErr e
            | DOk m => DOk ((msg_store_sub md fd m (fst acc), snd acc), r')
            end
          end
        else msg_unknown tagraw num typ r acc
      | KGrp tid =>
        if typ =? 3 then
          if slow then
            match consume_group num r with
            | Err _ => DErr DParse
            | Ok (None, _) => DErr DFuel
            | Ok (Some content, n) =>
              match msg_whole (dm d) tid content (msg_old_sub fd (fst acc)) with
              | DErr e => DErr e
              | DOk m => DOk ((msg_store_sub md fd m (fst acc), snd acc), skipn (N.to_nat n) r)
              end
            end
          else
            match dm d tid num (x00 :: r) r (msg_old_sub fd (fst acc)) with
            | DErr e => DErr e
            | DOk (m, r') => DOk ((msg_store_sub md fd m (fst acc), snd acc), r')
            end
        else msg_unknown tagraw num typ r acc
      | KS sk =>
        if typ =? sk_wt sk then
          match parse_val 0 num typ r with
          | Err _ => DErr DParse
          | Ok (w, r') =>
            match msg_dec_scalar sk (msg_field_utf8 slow fd) w with
            | None => msg_unknown tagraw num typ r acc
            | Some (DErr e) => DErr e
            | Some (DOk s) =>
              DOk ((if card_repeated c then msg_append_field fd [VS s] (fst acc)
                    else msg_set_field md fd (VS s) (fst acc), snd acc), r')
            end
          end
        else if (typ =? 2) && msg_packable sk && card_repeated c then
          match dec_bytes r with
          | Err _ => DErr DParse
          | Ok (payload, r') =>
            match msg_dec_packed (x00 :: payload) sk payload [] with
            | DErr e => DErr e
            | DOk vs => DOk ((msg_append_field fd vs (fst acc), snd acc), r')
            end
          end
        else msg_unknown tagraw num typ r acc
      end.

    Lemma msg_step_nmg_eq tagraw num typ r acc fd :
      msg_find_field md num = Some fd -> (forall kk ku vd, f_card fd <> CMap kk ku vd) ->
      msg_step slow md (dm d) (msg_dsub2 slow S d) tagraw num typ r acc = msg_step_nmg tagraw num typ acc fd (f_card fd) r.
    Proof.
      intros Hf Hnm. unfold msg_step, msg_step_nmg. rewrite Hf.
      destruct (f_card fd) eqn:Hc; try reflexivity. exfalso. eapply Hnm. reflexivity.
    Qed.

    Lemma msg_step_ext tagraw num typ r acc acc' r' y :
      (forall t old m rr, dm d t num (x00 :: r) r old = DOk (m, rr) ->
                          dm d t num (x00 :: r ++ y) (r ++ y) old = DOk (m, rr ++ y)) ->
      msg_step slow md (dm d) (msg_dsub2 slow S d) tagraw num typ r acc = DOk (acc', r') ->
      msg_step slow md (dm d) (msg_dsub2 slow S d) tagraw num typ (r ++ y) acc = DOk (acc', r' ++ y).
    Proof.
      intros Hgrp H.
      destruct (msg_find_field md num) as [fd|] eqn:Hf.
      2:{ unfold msg_step in *. rewrite Hf in *. apply msg_unknown_ext. exact H. }
      destruct (f_card fd) as [| | | | |kk ku vd] eqn:Hc.
      6:{ unfold msg_step in *. rewrite Hf, Hc in *.
          destruct (msg_dsub2 slow S d) as [dm2|]; [|discriminate].
          destruct (typ =? 2); [|apply msg_unknown_ext; exact H].
          destruct (dec_bytes r) as [[payload rr]|e] eqn:E; [|discriminate].
          rewrite (msg_dec_bytes_ext _ _ _ y E).
          match type of H with context [msg_dec_entry ?a ?b ?c ?dd ?e ?f ?g ?h ?i] =>
            destruct (msg_dec_entry a b c dd e f g h i) as [[key v]|e0]; [|discriminate] end.
          inversion H; subst. reflexivity. }
      all: assert (Hnm : forall kk ku vd, f_card fd <> CMap kk ku vd) by (intros; rewrite Hc; discriminate).
      all: rewrite (msg_step_nmg_eq tagraw num typ r acc fd Hf Hnm) in H; rewrite (msg_step_nmg_eq tagraw num typ (r ++ y) acc fd Hf Hnm); clear Hc; unfold msg_step_nmg in *.
      all: destruct (f_kind fd) as [sk|t|t].
      all: try (destruct (typ =? sk_wt sk) eqn:Ewt;
                [ destruct (parse_val 0 num typ r) as [[w rr]|e] eqn:E; [|discriminate];
                  assert (Hn3 : typ <> 3) by (apply N.eqb_eq in Ewt; rewrite Ewt; destruct sk; discriminate);
                  rewrite (msg_parse_val_ext_same _ _ _ _ _ _ y Hn3 E);
                  destruct (msg_dec_scalar sk (msg_field_utf8 slow fd) w) as [[s|e]|];
                  [inversion H; subst; reflexivity|discriminate|apply msg_unknown_ext; exact H]
                | destruct ((typ =? 2) && msg_packable sk && card_repeated (f_card fd));
                  [|apply msg_unknown_ext; exact H];
                  destruct (dec_bytes r) as [[payload rr]|e] eqn:E; [|discriminate];
                  rewrite (msg_dec_bytes_ext _ _ _ y E);
                  destruct (msg_dec_packed (x00 :: payload) sk payload []) as [vs|e]; [|discriminate];
                  inversion H; subst; reflexivity ]).
      all: try (destruct (typ =? 2); [|apply msg_unknown_ext; exact H];
                destruct (dec_bytes r) as [[payload rr]|e] eqn:E; [|discriminate];
                rewrite (msg_dec_bytes_ext _ _ _ y E);
                destruct (msg_whole (dm d) t payload (msg_old_sub fd (fst acc))) as [m|e]; [|discriminate];
                inversion H; subst; reflexivity).
      all: destruct (typ =? 3); [|apply msg_unknown_ext; exact H].
      all: destruct slow.
      all: try (destruct (consume_group num r) as [[[content|] n]|e] eqn:E; try discriminate;
                destruct (msg_consume_group_ext _ _ _ _ y E) as [E' Hsk]; rewrite E';
                match type of H with context [msg_whole ?ff ?tt ?cc ?oo] =>
                  destruct (msg_whole ff tt cc oo) as [m|e]; [|discriminate] end;
                inversion H; subst; rewrite Hsk; reflexivity).
      all: match type of H with context [msg_decode_msg ?sl ?SS ?dd ?tt ?nn (?xx :: ?r0) ?r1 ?o] =>
             destruct (msg_decode_msg sl SS dd tt nn (xx :: r0) r1 o) as [[m rr]|e] eqn:E; [|discriminate] end;
           rewrite (Hgrp _ _ _ _ E); inversion H; subst; reflexivity.
    Qed.
  End Step.
End DecApp.

Section DecApp2.
  Variable slow : bool.
  Variable S : schema.
  Notation dm := (msg_decode_msg slow S).

  Lemma msg_dm_nofuel d tid grp bs acc : dm d tid grp [] bs acc <> DOk (acc, bs) /\ forall res, dm d tid grp [] bs acc <> DOk res.
  Proof.
    split; [|]; destruct d as [|d]; cbn [msg_decode_msg]; try discriminate;
      try (intros res); destruct (nth_error S tid); discriminate.
  Qed.

  (* a successful run succeeds with any longer fuel *)
  Lemma msg_dm_fuel_mono d tid grp : forall g g' bs acc res,
    dm d tid grp g bs acc = DOk res -> (length g <= length g')%nat -> dm d tid grp g' bs acc = DOk res.
  Proof.
    destruct d as [|d]; [intros g g' bs acc res H; cbn [msg_decode_msg] in H; discriminate|].
    destruct (nth_error S tid) as [md|] eqn:Hmd.
    2:{ intros g g' bs acc res H. cbn [msg_decode_msg] in H. rewrite Hmd in H. discriminate. }
    induction g as [|x g IH]; intros g' bs acc res H Hl.
    - exfalso. exact (proj2 (msg_dm_nofuel _ _ _ _ _) _ H).
    - destruct g' as [|x' g']; [cbn in Hl; lia|].
      rewrite (msg_dm_unfold slow S d tid grp md x g bs acc Hmd) in H.
      rewrite (msg_dm_unfold slow S d tid grp md x' g' bs acc Hmd).
      destruct bs as [|b0 bs0]; [exact H|].
      destruct (dec_tag (b0 :: bs0)) as [[[num typ] r]|e]; [|discriminate].
      destruct (msg_max_num <? num); [discriminate|].
      destruct ((typ =? 4) && negb slow); [exact H|]. cbv zeta in *.
      match type of H with context [msg_step ?p1 ?p2 ?p3 ?p4 ?p5 ?p6 ?p7 ?p8 ?p9] =>
        destruct (msg_step p1 p2 p3 p4 p5 p6 p7 p8 p9) as [[acc1 r1]|e] end; [|discriminate].
      apply (IH g' r1 acc1 res H). cbn [length] in Hl. lia.
  Qed.

  Definition msg_app_stmt (d : nat) : Prop :=
    forall tid grp g bs acc acc' rest y gy,
      dm d tid grp g bs acc = DOk (acc', rest) -> (length y < length gy)%nat ->
      (grp = 0 /\ rest = [] /\ exists g3, (length y < length g3)%nat /\
         dm d tid grp (tl g ++ gy) (bs ++ y) acc = dm d tid grp g3 y acc') \/
      (grp <> 0 /\ dm d tid grp (tl g ++ gy) (bs ++ y) acc = DOk (acc', rest ++ y)).

  (* what the field step needs from one level down: a directly decoded group ends at the same
     place when more input follows *)
  Lemma msg_app_group d : msg_app_stmt d ->
    forall num r y t old m rr, 1 <= num ->
      dm d t num (x00 :: r) r old = DOk (m, rr) ->
      dm d t num (x00 :: r ++ y) (r ++ y) old = DOk (m, rr ++ y).
  Proof.
    intros IHd num r y t old m rr Hnum H.
    destruct (IHd t num (x00 :: r) r old m rr y (x00 :: y) H) as [(Hz & _)|[_ E]]; [cbn [length]; lia|lia|].
    cbn [tl] in E. apply (msg_dm_fuel_mono d t num _ _ _ _ _ E). cbn [length]. rewrite !app_length. cbn [length]. lia.
  Qed.

  Lemma msg_app_loop d tid md grp :
    nth_error S tid = Some md -> msg_app_stmt d ->
    forall g bs acc acc' rest y gy,
      dm (Datatypes.S d) tid grp g bs acc = DOk (acc', rest) -> (length y < length gy)%nat ->
      (grp = 0 /\ rest = [] /\ exists g3, (length y < length g3)%nat /\
         dm (Datatypes.S d) tid grp (tl g ++ gy) (bs ++ y) acc = dm (Datatypes.S d) tid grp g3 y acc') \/
      (grp <> 0 /\ dm (Datatypes.S d) tid grp (tl g ++ gy) (bs ++ y) acc = DOk (acc', rest ++ y)).
  Proof.
    intros Hmd IHd. induction g as [|x g IH]; intros bs acc acc' rest y gy H Hy.
    - exfalso. exact (proj2 (msg_dm_nofuel _ _ _ _ _) _ H).
    - rewrite (msg_dm_unfold slow S d tid grp md x g bs acc Hmd) in H. cbn [tl].
      destruct bs as [|b0 bs0].
      + destruct (N.eqb_spec grp 0) as [Hg0|]; [|discriminate]. inversion H; subst acc' rest.
        left. split; [exact Hg0|]. split; [reflexivity|]. exists (g ++ gy). split; [rewrite app_length; lia|reflexivity].
      + destruct (dec_tag (b0 :: bs0)) as [[[num typ] r]|e] eqn:Hdt; [|discriminate].
        destruct (msg_dec_tag_facts _ _ _ _ Hdt) as [Hnum (p & Hp)].
        destruct (msg_max_num <? num) eqn:Hmax; [discriminate|].
        assert (Hfuel : exists x2 g2, g ++ gy = x2 :: g2 /\ (g = [] -> True)).
        { destruct (g ++ gy) as [|x2 g2] eqn:Eg; [|exists x2, g2; split; [reflexivity|exact (fun _ => I)]].
          apply (f_equal (@length byte)) in Eg. rewrite app_length in Eg. cbn [length] in Eg. lia. }
        destruct ((typ =? 4) && negb slow) eqn:Hend.
        * destruct (num =? grp) eqn:Hng; [|discriminate]. inversion H; subst acc' rest. right.
          split; [apply N.eqb_eq in Hng; lia|].
          destruct Hfuel as (x2 & g2 & Eg & _). rewrite Eg.
          rewrite (msg_dm_unfold slow S d tid grp md x2 g2 _ acc Hmd). cbn [app].
          change (b0 :: bs0 ++ y) with ((b0 :: bs0) ++ y). rewrite (msg_dec_tag_ext _ _ _ _ y Hdt).
          rewrite Hmax, Hend, Hng. reflexivity.
        * cbv zeta in H.
          match type of H with context [msg_step ?p1 ?p2 ?p3 ?p4 ?p5 ?p6 ?p7 ?p8 ?p9] =>
            destruct (msg_step p1 p2 p3 p4 p5 p6 p7 p8 p9) as [[acc1 r1]|e] eqn:E1 end; [|discriminate].
          destruct g as [|x1 g1]; [exfalso; exact (proj2 (msg_dm_nofuel _ _ _ _ _) _ H)|].
          cbn [app]. rewrite (msg_dm_unfold slow S d tid grp md x1 (g1 ++ gy) _ acc Hmd). cbn [app].
          change (b0 :: bs0 ++ y) with ((b0 :: bs0) ++ y). rewrite (msg_dec_tag_ext _ _ _ _ y Hdt).
          rewrite Hmax, Hend. cbv zeta.
          assert (Htag : (if slow then firstn (length ((b0 :: bs0) ++ y) - length (r ++ y)) ((b0 :: bs0) ++ y) else enc_tag num typ) =
                         (if slow then firstn (length (b0 :: bs0) - length r) (b0 :: bs0) else enc_tag num typ)).
          { destruct slow; [|reflexivity]. rewrite !app_length.
            replace (length (b0 :: bs0) + length y - (length r + length y))%nat with (length (b0 :: bs0) - length r)%nat by lia.
            apply msg_firstn_app_le'. lia. }
          rewrite Htag.
          rewrite (msg_step_ext slow S d md _ num typ r acc acc1 r1 y (fun t old m rr => msg_app_group d IHd num r y t old m rr Hnum) E1).
          exact (IH r1 acc1 acc' rest y gy H Hy).
  Qed.

  Theorem msg_app_all : forall d, msg_app_stmt d.
  Proof.
    induction d as [|d IHd]; intros tid grp g bs acc acc' rest y gy H Hy.
    - cbn [msg_decode_msg] in H. discriminate.
    - destruct (nth_error S tid) as [md|] eqn:Hmd.
      + exact (msg_app_loop d tid md grp Hmd IHd g bs acc acc' rest y gy H Hy).
      + cbn [msg_decode_msg] in H. rewrite Hmd in H. discriminate.
  Qed.
End DecApp2.

(* decode (x || y) = decode y into (decode x), for every decodable pair *)
Theorem msg_decode_app slow S limit tid x y vx v :
  msg_decode slow S limit tid x = DOk vx ->
  msg_decode_into slow S limit tid y vx = DOk v ->
  msg_decode slow S limit tid (x ++ y) = DOk v.
Proof.
  intros H1 H2. unfold msg_decode, msg_decode_into in *.
  match type of H1 with match ?X with DOk _ => _ | DErr _ => _ end = _ => destruct X as [[m1 r1]|e] eqn:E1; [|discriminate] end.
  inversion H1; subst vx. cbn [msg_macc_of] in H2.
  match type of H2 with match ?X with DOk _ => _ | DErr _ => _ end = _ => destruct X as [[m2 r2]|e] eqn:E2; [|discriminate] end.
  inversion H2; subst v.
  destruct (msg_app_all slow S limit tid 0 (x00 :: x) x _ m1 r1 y (x00 :: y) E1) as [(_ & _ & g3 & Hg3 & E)|[Hne _]];
    [cbn [length]; lia| |congruence].
  cbn [tl] in E.
  destruct m1 as [f1 u1]. cbn [fst snd] in *.
  pose proof (msg_dm_fuel_mono slow S limit tid 0 _ g3 _ _ _ E2) as E2'.
  assert (Hl3 : (length (x00 :: y) <= length g3)%nat) by (cbn [length]; lia).
  specialize (E2' Hl3). assert (E4 := eq_trans E E2'). clear E. rename E4 into E.
  pose proof (msg_dm_fuel_mono slow S limit tid 0 _ (x00 :: x ++ y) _ _ _ E) as E3.
  match goal with |- match ?X with DOk _ => _ | DErr _ => _ end = _ => replace X with (@DOk (msg_macc * list byte) (m2, r2)) end;
    [reflexivity|].
  symmetry. apply E3. cbn [length]. rewrite !app_length. cbn [length]. lia.
Qed.

(* Unmarshal(x || Marshal(b)) = Merge(Unmarshal(x), b): x any decodable byte string, b a canonical value *)
Theorem msg_concat_eq_merge slow S limit tid x vx b :
  msg_decode slow S limit tid x = DOk vx ->
  msg_valid slow S limit tid b = true ->
  exists m, msg_merge S limit tid vx b = Some m /\
            msg_decode slow S limit tid (x ++ msg_encode S tid b) = DOk m.
Proof.
  intros Hx Hb.
  assert (Hshape : exists afs au, vx = VMsg afs au).
  { unfold msg_decode, msg_decode_into in Hx.
    match type of Hx with match ?X with DOk _ => _ | DErr _ => _ end = _ => destruct X as [[m1 r1]|e]; [|discriminate] end.
    inversion Hx. eexists; eexists; reflexivity. }
  destruct Hshape as (afs & au & ->).
  destruct (msg_decode_into_merge slow S limit tid b afs au Hb) as (m & Hm & Hd).
  exists m. split; [exact Hm|]. exact (msg_decode_app slow S limit tid x _ _ m Hx Hd).
Qed.
