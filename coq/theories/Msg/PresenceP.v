(* Proofs about Msg/PresenceModel.v (C11). *)
From Coq Require Import List Arith NArith ZArith Lia Bool.
From Coq Require Import ZifyBool ZifyNat ZifyN.
From PB Require Import Base.PBytes Wire.WireModel Wire.VarintP Msg.PresenceModel.
Ltac Zify.zify_post_hook ::= Z.div_mod_to_equations.
Import ListNotations.
Open Scope N_scope.

(* ------------------------------------------------------------------ *)
(** * 1. HasPresence table *)

Definition table_ok (a : fattr) : bool :=
  implb (valid_attr a) (Bool.eqb (has_presence a) (presence_rule a)).

(* the finite table, checked by computation over the enumeration of all 432 combinations *)
Lemma table_ok_all : forallb table_ok all_attrs = true.
Proof. vm_compute. reflexivity. Qed.

(* ... and for every attribute record (case analysis on the seven finite components) *)
Theorem has_presence_spec : forall a, valid_attr a = true -> has_presence a = presence_rule a.
Proof.
  intros [[] [] [] [] [] [] []]; vm_compute; intros H; try reflexivity; discriminate H.
Qed.

(* Outside the well-formed combinations the code and the rule differ only in the cases listed
   here (all rejected by protoc; see the harness for which ones protodesc accepts). *)
Definition table_diff : list fattr :=
  filter (fun a => negb (Bool.eqb (has_presence a) (presence_rule a))) all_attrs.

Lemma has_presence_repeated_non_legacy : forall a,
  fa_label a = LRepeated -> fa_fp a <> FPLegacyRequired -> has_presence a = false.
Proof.
  intros [s l o p m e f] Hl Hf; cbn in *; subst. unfold has_presence, eff_card; cbn.
  destruct e; [reflexivity|]. destruct f; try reflexivity. congruence.
Qed.

Lemma resolve_fp_last_some d chain x : resolve_fp d (chain ++ [Some x]) = x.
Proof. unfold resolve_fp. now rewrite fold_left_app. Qed.
Lemma resolve_fp_last_none d chain : resolve_fp d (chain ++ [None]) = resolve_fp d chain.
Proof. unfold resolve_fp. now rewrite fold_left_app. Qed.
Lemma resolve_fp_all_none d chain : Forall (fun o => o = None) chain -> resolve_fp d chain = d.
Proof.
  unfold resolve_fp. revert d. induction chain as [|o r IH]; intros d H; [reflexivity|].
  inversion H; subst. cbn. now apply IH.
Qed.

Lemma use_presence_oneof a m l : fa_oneof a = true -> use_presence a m l = (false, false).
Proof. unfold use_presence. now intros ->. Qed.
Lemma use_presence_scalar a : fa_oneof a = false -> fa_msg a = false ->
  use_presence a false false = (has_presence a, false).
Proof. unfold use_presence. now intros -> ->. Qed.

(* ------------------------------------------------------------------ *)
(** * 2. Bitmap *)

Lemma pbit_eq num : pbit num = 2 ^ (num mod 32).
Proof.
  unfold pbit, u32. rewrite N.shiftl_1_l. apply N.mod_small.
  apply N.pow_lt_mono_r; [lia|]. pose proof (N.mod_lt num 32). lia.
Qed.

Lemma testbit_u32 x m : N.testbit (u32 x) m = N.testbit x m && (m <? 32).
Proof.
  unfold u32. destruct (m <? 32) eqn:E.
  - rewrite N.mod_pow2_bits_low by lia. now rewrite andb_true_r.
  - rewrite N.mod_pow2_bits_high by lia. now rewrite andb_false_r.
Qed.

Lemma land_pow2 w k : N.land w (2^k) = if N.testbit w k then 2^k else 0.
Proof.
  apply N.bits_inj. intros m. rewrite N.land_spec, N.pow2_bits_eqb.
  destruct (N.testbit w k) eqn:E.
  - rewrite N.pow2_bits_eqb. destruct (N.eqb_spec k m); subst; [now rewrite E|now rewrite andb_false_r].
  - rewrite N.bits_0. destruct (N.eqb_spec k m); subst; [now rewrite E|now rewrite andb_false_r].
Qed.

Lemma part_present_testbit w num : part_present w num = N.testbit w (num mod 32).
Proof.
  unfold part_present. rewrite pbit_eq, land_pow2.
  destruct (N.testbit w (num mod 32)); [|reflexivity].
  apply N.ltb_lt. apply N.neq_0_lt_0. apply N.pow_nonzero. lia.
Qed.

Lemma testbit_part_set w i m : m < 32 ->
  N.testbit (part_set w i) m = (i mod 32 =? m) || N.testbit w m.
Proof.
  intros Hm. unfold part_set. rewrite testbit_u32, N.lor_spec, pbit_eq, N.pow2_bits_eqb.
  replace (m <? 32) with true by lia. rewrite andb_true_r. apply orb_comm.
Qed.

Lemma testbit_part_clear w i m :
  N.testbit (part_clear w i) m = negb (i mod 32 =? m) && N.testbit w m.
Proof.
  unfold part_clear. rewrite N.ldiff_spec, pbit_eq, N.pow2_bits_eqb. apply andb_comm.
Qed.

Lemma part_set_lt w i : part_set w i < 2^32.
Proof. unfold part_set, u32. apply N.mod_lt. lia. Qed.

Lemma part_clear_lt w i : w < 2^32 -> part_clear w i < 2^32.
Proof.
  intros H. unfold part_clear.
  destruct (N.eq_dec (N.ldiff w (pbit i)) 0) as [->|Hz]; [lia|].
  apply N.log2_lt_pow2; [lia|].
  destruct (N.eq_dec w 0) as [->|Hw]; [rewrite N.ldiff_0_l in Hz; lia|].
  assert (N.log2 w < 32) by (apply N.log2_lt_pow2; lia).
  destruct (N.lt_ge_cases (N.log2 (N.ldiff w (pbit i))) 32) as [|Hge]; [assumption|].
  exfalso. pose proof (N.bit_log2 _ Hz) as Hb. rewrite N.ldiff_spec in Hb.
  rewrite (N.bits_above_log2 w) in Hb by lia. discriminate.
Qed.

(* word-level statement of the property (one uint32 word, two indices that live in it) *)
Lemma part_set_present w i j :
  part_present (part_set w i) j = (i mod 32 =? j mod 32) || part_present w j.
Proof.
  rewrite !part_present_testbit. apply testbit_part_set. pose proof (N.mod_lt j 32). lia.
Qed.
Lemma part_clear_present w i j :
  part_present (part_clear w i) j = negb (i mod 32 =? j mod 32) && part_present w j.
Proof. rewrite !part_present_testbit. apply testbit_part_clear. Qed.

Lemma upd_nth_length s k f : length (upd_nth s k f) = length s.
Proof. revert k; induction s as [|w r IH]; intros [|k]; cbn; auto. Qed.

Lemma upd_nth_same s k f : nth_error (upd_nth s k f) k = option_map f (nth_error s k).
Proof. revert k; induction s as [|w r IH]; intros [|k]; cbn; auto. Qed.

Lemma upd_nth_other s k k' f : k <> k' -> nth_error (upd_nth s k f) k' = nth_error s k'.
Proof.
  revert k k'; induction s as [|w r IH]; intros [|k] [|k'] H; cbn; auto; try congruence.
Qed.

Lemma index_split i j : (i =? j) = (pword i =? pword j) && (i mod 32 =? j mod 32).
Proof. unfold pword. lia. Qed.

Lemma pword_in_range (s : bitmap) i : i < 32 * N.of_nat (length s) -> (N.to_nat (pword i) < length s)%nat.
Proof. unfold pword. lia. Qed.

Theorem bm_set_present s i j :
  i < 32 * N.of_nat (length s) ->
  bm_present (bm_set s i) j = (i =? j) || bm_present s j.
Proof.
  intros Hi. unfold bm_present, bm_set.
  destruct (N.eq_dec (pword i) (pword j)) as [E|E].
  - rewrite <- E, upd_nth_same.
    destruct (nth_error s (N.to_nat (pword i))) eqn:Hn.
    + cbn [option_map]. rewrite part_set_present, (index_split i j), E, N.eqb_refl. reflexivity.
    + apply nth_error_None in Hn. apply pword_in_range in Hi. lia.
  - rewrite upd_nth_other by lia. rewrite index_split.
    replace (pword i =? pword j) with false by lia. reflexivity.
Qed.

Theorem bm_clear_present s i j :
  bm_present (bm_clear s i) j = negb (i =? j) && bm_present s j.
Proof.
  unfold bm_present, bm_clear.
  destruct (N.eq_dec (pword i) (pword j)) as [E|E].
  - rewrite <- E, upd_nth_same.
    destruct (nth_error s (N.to_nat (pword i))) eqn:Hn.
    + cbn [option_map]. rewrite part_clear_present, (index_split i j), E, N.eqb_refl. reflexivity.
    + cbn. now rewrite andb_false_r.
  - rewrite upd_nth_other by lia. rewrite index_split.
    replace (pword i =? pword j) with false by lia. reflexivity.
Qed.

Lemma bm_set_other_words s i k : k <> N.to_nat (pword i) -> nth_error (bm_set s i) k = nth_error s k.
Proof. intros H. unfold bm_set. apply upd_nth_other. congruence. Qed.
Lemma bm_clear_other_words s i k : k <> N.to_nat (pword i) -> nth_error (bm_clear s i) k = nth_error s k.
Proof. intros H. unfold bm_clear. apply upd_nth_other. congruence. Qed.
Lemma bm_set_length s i : length (bm_set s i) = length s.
Proof. apply upd_nth_length. Qed.
Lemma bm_clear_length s i : length (bm_clear s i) = length s.
Proof. apply upd_nth_length. Qed.

Definition bm_wf (s : bitmap) : Prop := Forall (fun w => w < 2^32) s.

Lemma upd_nth_wf s k f : bm_wf s -> (forall w, w < 2^32 -> f w < 2^32) -> bm_wf (upd_nth s k f).
Proof.
  unfold bm_wf. intros Hs Hf. revert k. induction Hs as [|w r Hw Hr IH]; intros [|k]; cbn; constructor; auto.
Qed.
Lemma bm_set_wf s i : bm_wf s -> bm_wf (bm_set s i).
Proof. intros H. apply upd_nth_wf; [assumption|]. intros; apply part_set_lt. Qed.
Lemma bm_clear_wf s i : bm_wf s -> bm_wf (bm_clear s i).
Proof. intros H. apply upd_nth_wf; [assumption|]. intros; now apply part_clear_lt. Qed.

Lemma bm_step_length s o : length (bm_step s o) = length s.
Proof. destruct o; cbn; auto using bm_set_length, bm_clear_length. Qed.
Lemma bm_step_wf s o : bm_wf s -> bm_wf (bm_step s o).
Proof. destruct o; cbn; auto using bm_set_wf, bm_clear_wf. Qed.

Definition bmop_index (o : bmop) : N := match o with BSet i | BSetNA i | BClear i => i end.

Theorem bm_run_refines : forall ops s j,
  Forall (fun o => bmop_index o < 32 * N.of_nat (length s)) ops ->
  bm_present (bm_run s ops) j = set_run (bm_present s) ops j.
Proof.
  unfold bm_run, set_run.
  assert (G : forall ops s P j,
    Forall (fun o => bmop_index o < 32 * N.of_nat (length s)) ops ->
    (forall j, bm_present s j = P j) ->
    bm_present (fold_left bm_step ops s) j = fold_left set_step ops P j).
  { induction ops as [|o r IH]; intros s P j Hops HP; cbn; [apply HP|].
    inversion Hops; subst. apply IH.
    - rewrite bm_step_length. assumption.
    - intros j'. destruct o; cbn in *; rewrite ?bm_set_present, ?bm_clear_present, ?HP by assumption; reflexivity. }
  intros. now apply G.
Qed.

Lemma bm_run_length ops s : length (bm_run s ops) = length s.
Proof.
  unfold bm_run. revert s; induction ops as [|o r IH]; intros s; cbn; [reflexivity|].
  now rewrite IH, bm_step_length.
Qed.
Lemma bm_run_wf ops s : bm_wf s -> bm_wf (bm_run s ops).
Proof.
  unfold bm_run. revert s; induction ops as [|o r IH]; intros s H; cbn; [assumption|].
  apply IH. now apply bm_step_wf.
Qed.

(* AnyPresent: true iff some bit of the scanned words is present *)
Lemma word_pos_bit w : w < 2^32 -> 0 < w -> exists b, b < 32 /\ N.testbit w b = true.
Proof.
  intros Hlt Hpos. exists (N.log2 w). split.
  - apply N.log2_lt_pow2; lia.
  - apply N.bit_log2. lia.
Qed.

Lemma any_words_spec : forall n s, bm_wf s -> (n <= length s)%nat ->
  (any_words s n = true <-> exists i, i < 32 * N.of_nat n /\ bm_present s i = true).
Proof.
  induction n as [|n IH]; intros s Hwf Hn.
  - cbn. split; [discriminate|]. intros [i [Hi _]]. lia.
  - destruct s as [|w r]; [cbn in Hn; lia|]. inversion Hwf; subst.
    cbn [any_words]. destruct (0 <? w) eqn:Ew.
    + split; [intros _|reflexivity].
      destruct (word_pos_bit w) as [b [Hb Ht]]; [assumption|lia|].
      exists b. split; [lia|]. unfold bm_present, pword.
      replace (N.to_nat (b / 32)) with O by lia. cbn [nth_error].
      rewrite part_present_testbit. replace (b mod 32) with b by lia. exact Ht.
    + assert (w = 0) by lia. subst w.
      rewrite IH by (assumption || (cbn in Hn; lia)). split.
      * intros [i [Hi Hp]]. exists (i + 32). split; [lia|].
        unfold bm_present, pword in *.
        replace (N.to_nat ((i + 32) / 32)) with (S (N.to_nat (i / 32))) by lia. cbn [nth_error].
        destruct (nth_error r (N.to_nat (i / 32))); [|discriminate].
        rewrite part_present_testbit in *. replace ((i + 32) mod 32) with (i mod 32) by lia. exact Hp.
      * intros [i [Hi Hp]]. unfold bm_present, pword in Hp.
        destruct (N.to_nat (i / 32)) as [|k] eqn:Ek.
        -- cbn [nth_error] in Hp. rewrite part_present_testbit, N.bits_0 in Hp. discriminate.
        -- cbn [nth_error] in Hp. exists (i - 32). split; [lia|].
           unfold bm_present, pword. replace (N.to_nat ((i - 32) / 32)) with k by lia.
           destruct (nth_error r k); [|discriminate].
           rewrite part_present_testbit in *. replace ((i - 32) mod 32) with (i mod 32) by lia. exact Hp.
Qed.

Theorem bm_any_spec s size :
  bm_wf s -> size + 31 < 2^32 -> (size + 31) / 32 <= N.of_nat (length s) ->
  (bm_any s size = true <-> exists i, i < 32 * ((size + 31) / 32) /\ bm_present s i = true).
Proof.
  intros Hwf Hsz Hlen. unfold bm_any, u32.
  rewrite (N.mod_small (size + 31)) by exact Hsz.
  rewrite N.mod_small by (pose proof (N.div_le_upper_bound (size+31) 32 (size+31)); lia).
  rewrite any_words_spec by (assumption || lia).
  rewrite N2Nat.id. reflexivity.
Qed.

(* ------------------------------------------------------------------ *)
(** * 3. Has over histories *)

Lemma nonzero_zero_like v : nonzero (zero_like v) = false.
Proof. destruct v; reflexivity. Qed.

(* -0.0 counts as non-zero; a float is "zero" only when all its bits are zero *)
Lemma float_has_iff_bits w bits : 0 < w -> bits < 2^w ->
  (float_ne0 w bits || float_signbit w bits = false <-> bits = 0).
Proof.
  intros Hw Hb. unfold float_ne0, float_signbit. split.
  - intros H. apply orb_false_iff in H. destruct H as [H1 H2].
    apply negb_false_iff, N.eqb_eq in H1.
    apply N.bits_inj. intros m. rewrite N.bits_0.
    destruct (N.lt_ge_cases m (w-1)) as [Hm|Hm].
    + assert (N.testbit (N.land bits (2^(w-1) - 1)) m = false) by (rewrite H1; apply N.bits_0).
      rewrite N.land_spec in H. replace (2^(w-1) - 1) with (N.ones (w-1)) in H
        by (rewrite N.ones_equiv; lia).
      rewrite N.ones_spec_low in H by lia. now rewrite andb_true_r in H.
    + destruct (N.eq_dec m (w-1)) as [->|Hne]; [exact H2|].
      destruct (N.eq_dec bits 0) as [->|Hnz]; [apply N.bits_0|].
      apply N.bits_above_log2. assert (N.log2 bits < w) by (apply N.log2_lt_pow2; lia). lia.
  - intros ->. rewrite N.land_0_l, N.bits_0. reflexivity.
Qed.

Lemma last_write_app ops o acc :
  last_write (ops ++ [o]) acc =
  match o with OpSet _ | OpClear | OpMutable => Some o | _ => last_write ops acc end.
Proof.
  revert acc; induction ops as [|x r IH]; intros acc; cbn; [destruct o; reflexivity|apply IH].
Qed.
Lemma last_setclear_app ops o acc :
  last_setclear (ops ++ [o]) acc =
  match o with OpSet _ | OpClear => Some o | _ => last_setclear ops acc end.
Proof.
  revert acc; induction ops as [|x r IH]; intros acc; cbn; [destruct o; reflexivity|apply IH].
Qed.

Lemma frun_app st ops o : frun st (ops ++ [o]) = fstep (frun st ops) o.
Proof. unfold frun. now rewrite fold_left_app. Qed.

Lemma frun_opt_shape ops : exists o, frun (StOpt None) ops = StOpt o.
Proof.
  induction ops as [|x r IH] using rev_ind; [now exists None|].
  destruct IH as [o Ho]. rewrite frun_app, Ho.
  destruct x, o; cbn; eauto.
Qed.

Theorem explicit_has_correct ops : fhas (frun (StOpt None) ops) = rule_explicit ops.
Proof.
  unfold rule_explicit.
  induction ops as [|x r IH] using rev_ind; [reflexivity|].
  rewrite frun_app, last_write_app.
  destruct (frun_opt_shape r) as [o Ho]. rewrite Ho in *.
  destruct o, x; cbn in *; try reflexivity; try exact IH.
Qed.

Lemma frun_val_shape z ops : exists v, frun (StVal z) ops = StVal v.
Proof.
  induction ops as [|x r IH] using rev_ind; [now exists z|].
  destruct IH as [v Hv]. rewrite frun_app, Hv. destruct x; cbn; eauto.
Qed.

Theorem implicit_has_correct z ops : fhas (frun (StVal z) ops) = rule_implicit z ops.
Proof.
  unfold rule_implicit.
  induction ops as [|x r IH] using rev_ind; [reflexivity|].
  rewrite frun_app, last_setclear_app.
  destruct (frun_val_shape z r) as [v Hv]. rewrite Hv in *.
  destruct x; cbn; try reflexivity; try exact IH.
  apply nonzero_zero_like.
Qed.

(* the immediate readings of the property text *)
Corollary explicit_has_after_set ops v : fhas (frun (StOpt None) (ops ++ [OpSet v])) = true.
Proof. rewrite explicit_has_correct. unfold rule_explicit. now rewrite last_write_app. Qed.
Corollary explicit_not_has_after_clear ops : fhas (frun (StOpt None) (ops ++ [OpClear])) = false.
Proof. rewrite explicit_has_correct. unfold rule_explicit. now rewrite last_write_app. Qed.
Corollary implicit_has_after_set z ops v : fhas (frun (StVal z) (ops ++ [OpSet v])) = nonzero v.
Proof. rewrite implicit_has_correct. unfold rule_implicit. now rewrite last_setclear_app. Qed.
Corollary implicit_not_has_after_clear z ops : fhas (frun (StVal z) (ops ++ [OpClear])) = false.
Proof. rewrite implicit_has_correct. unfold rule_implicit. now rewrite last_setclear_app. Qed.

(* lists and maps: Has iff non-empty, where the contents are what the history built *)
Fixpoint list_contents (l : list pval) (ops : list pop) : list pval :=
  match ops with
  | [] => l
  | o :: r => list_contents (match o with
                             | OpClear => [] | OpAppend v => l ++ [v] | OpTruncate n => firstn n l
                             | OpSetList vs => vs | _ => l end) r
  end.
Theorem list_has_correct : forall ops l,
  frun (StList l) ops = StList (list_contents l ops) /\
  fhas (frun (StList l) ops) = negb (Nat.eqb (length (list_contents l ops)) 0).
Proof.
  assert (G : forall ops l, frun (StList l) ops = StList (list_contents l ops)).
  { unfold frun. induction ops as [|o r IH]; intros l; [reflexivity|].
    cbn [fold_left list_contents]. destruct o; cbn [fstep]; apply IH. }
  intros ops l. split; [apply G|]. now rewrite G.
Qed.

Fixpoint map_contents (m : list (N * pval)) (ops : list pop) : list (N * pval) :=
  match ops with
  | [] => m
  | o :: r => map_contents (match o with
                            | OpClear => [] | OpMapSet k v => map_put m k v | OpMapClear k => map_del m k
                            | _ => m end) r
  end.
Theorem map_has_correct : forall ops m,
  frun (StMap m) ops = StMap (map_contents m ops) /\
  fhas (frun (StMap m) ops) = negb (Nat.eqb (length (map_contents m ops)) 0).
Proof.
  assert (G : forall ops m, frun (StMap m) ops = StMap (map_contents m ops)).
  { unfold frun. induction ops as [|o r IH]; intros m; [reflexivity|].
    cbn [fold_left map_contents]. destruct o; cbn [fstep]; apply IH. }
  intros ops m. split; [apply G|]. now rewrite G.
Qed.

Lemma map_del_not_in m k : ~ In k (map fst (map_del m k)).
Proof.
  induction m as [|[k' v] r IH]; cbn; [tauto|].
  destruct (N.eqb_spec k' k); [assumption|]. cbn. intros [H|H]; [congruence|tauto].
Qed.
Lemma map_del_nodup m k : NoDup (map fst m) -> NoDup (map fst (map_del m k)).
Proof.
  induction m as [|[k' v] r IH]; cbn; intros H; [constructor|].
  inversion H; subst. destruct (N.eqb_spec k' k); [auto|]. cbn. constructor; [|auto].
  intros Hin. apply H2. clear -Hin. induction r as [|[k2 v2] r IH]; cbn in *; [tauto|].
  destruct (N.eqb_spec k2 k); cbn in *; tauto.
Qed.
(* keys stay unique: the list really is a finite map *)
Lemma map_contents_nodup ops : forall m, NoDup (map fst m) -> NoDup (map fst (map_contents m ops)).
Proof.
  induction ops as [|o r IH]; intros m H; [assumption|]. cbn [map_contents]. apply IH.
  destruct o; try assumption; [constructor| |now apply map_del_nodup].
  unfold map_put. cbn. constructor; [apply map_del_not_in|now apply map_del_nodup].
Qed.

(* opaque representation: presence bit in the shared bitmap *)
Lemma ostep_length s io : length (o_bits (ostep s io)) = length (o_bits s).
Proof. destruct io as [i []]; cbn; auto using bm_set_length, bm_clear_length. Qed.

Lemma orun_app s h io : orun s (h ++ [io]) = ostep (orun s h) io.
Proof. unfold orun. now rewrite fold_left_app. Qed.
Lemma orun_length h : forall s, length (o_bits (orun s h)) = length (o_bits s).
Proof.
  unfold orun. induction h as [|io r IH]; intros s; [reflexivity|].
  cbn [fold_left]. now rewrite IH, ostep_length.
Qed.
Lemma ops_of_app i h k o : ops_of i (h ++ [(k, o)]) = ops_of i h ++ (if k =? i then [o] else []).
Proof.
  unfold ops_of. rewrite filter_app, map_app. cbn [filter fst]. now destruct (k =? i).
Qed.
Lemma frun_opt_shape' x ops : exists o, frun (StOpt x) ops = StOpt o.
Proof.
  induction ops as [|y r IH] using rev_ind; [now exists x|].
  destruct IH as [o Ho]. rewrite frun_app, Ho.
  destruct y, o; cbn; eauto.
Qed.

Lemma ostep_has_other s k o i : k <> i -> k < 32 * N.of_nat (length (o_bits s)) ->
  ohas (ostep s (k, o)) i = ohas s i.
Proof.
  intros Hne Hk. unfold ohas. destruct o; cbn [ostep o_bits]; try reflexivity.
  - rewrite bm_set_present by exact Hk. replace (k =? i) with false by lia. reflexivity.
  - rewrite bm_clear_present. replace (k =? i) with false by lia. reflexivity.
  - rewrite bm_set_present by exact Hk. replace (k =? i) with false by lia. reflexivity.
Qed.

Lemma ostep_has_same s o i : i < 32 * N.of_nat (length (o_bits s)) ->
  ohas (ostep s (i, o)) i =
  match o with OpSet _ | OpMutable => true | OpClear => false | _ => ohas s i end.
Proof.
  intros Hi. unfold ohas. destruct o; cbn [ostep o_bits]; try reflexivity.
  - rewrite bm_set_present, N.eqb_refl by exact Hi. reflexivity.
  - rewrite bm_clear_present, N.eqb_refl. reflexivity.
  - rewrite bm_set_present, N.eqb_refl by exact Hi. reflexivity.
Qed.

Theorem opaque_has_correct : forall h s i,
  Forall (fun io => fst io < 32 * N.of_nat (length (o_bits s))) h ->
  ohas (orun s h) i =
  fhas (frun (StOpt (if ohas s i then Some (o_vals s i) else None)) (ops_of i h)).
Proof.
  induction h as [|[k o] r IH] using rev_ind; intros s i Hh.
  - cbn. now destruct (ohas s i).
  - apply Forall_app in Hh. destruct Hh as [Hr Hk]. inversion Hk as [|? ? Hk' _]; subst. cbn [fst] in Hk'.
    rewrite orun_app, ops_of_app. specialize (IH s i Hr).
    destruct (N.eqb_spec k i) as [->|Hne].
    + rewrite ostep_has_same by (rewrite orun_length; exact Hk').
      rewrite frun_app.
      destruct (frun_opt_shape' (if ohas s i then Some (o_vals s i) else None) (ops_of i r)) as [a Ha].
      rewrite Ha in *. destruct a, o; cbn in *; try reflexivity; exact IH.
    + rewrite ostep_has_other by (try rewrite orun_length; assumption).
      rewrite app_nil_r. exact IH.
Qed.

Corollary opaque_has_rule : forall h nwords vals i,
  Forall (fun io => fst io < 32 * N.of_nat nwords) h ->
  ohas (orun (mkO (repeat 0 nwords) vals) h) i = rule_explicit (ops_of i h).
Proof.
  intros h nwords vals i Hh.
  rewrite opaque_has_correct by (cbn [o_bits]; rewrite repeat_length; exact Hh).
  assert (Hz : ohas (mkO (repeat 0 nwords) vals) i = false).
  { unfold ohas, bm_present. cbn [o_bits].
    destruct (nth_error (repeat 0 nwords) (N.to_nat (pword i))) eqn:E; [|reflexivity].
    apply nth_error_In, repeat_spec in E. subst. rewrite part_present_testbit. apply N.bits_0. }
  rewrite Hz. apply explicit_has_correct.
Qed.

(* ------------------------------------------------------------------ *)
(** * 4. Minimal single-field codec *)

Lemma enc_varint_nonempty v : enc_varint v <> [].
Proof. unfold enc_varint. cbn [enc_varint_fuel]. destruct (v <? 128); discriminate. Qed.

Theorem implicit_encoded_iff_has num v :
  (enc_implicit num v = [] <-> (v =? 0) = true).
Proof.
  unfold enc_implicit. destruct (v =? 0); split; try reflexivity; try discriminate.
  intros H. apply app_eq_nil in H. destruct H as [H _]. now apply enc_varint_nonempty in H.
Qed.

Theorem implicit_zero_not_encoded num st :
  (exists n, st = StVal (PVInt n)) \/ (exists b, st = StVal (PVBool b)) ->
  (enc_field FCImplicit num st = [] <-> fhas st = false).
Proof.
  intros [[n ->]|[b ->]]; cbn [enc_field fhas nonzero].
  - rewrite implicit_encoded_iff_has. destruct (n =? 0); cbn; split; congruence.
  - rewrite implicit_encoded_iff_has. destruct b; cbn; split; congruence.
Qed.

Lemma dec_fields_nil f num acc : dec_fields f num [] acc = Ok acc.
Proof. destruct f; reflexivity. Qed.

Theorem explicit_roundtrip num st :
  encode_tag num 0 < 2^64 ->
  match st with Some v => v < 2^64 | None => True end ->
  dec_explicit num (enc_explicit num st) = Ok st.
Proof.
  intros Ht Hv. unfold dec_explicit. destruct st as [v|]; [|reflexivity].
  cbn [enc_explicit].
  destruct (length (enc_varint (encode_tag num 0) ++ enc_varint v)) eqn:El.
  - apply length_zero_iff_nil, app_eq_nil in El. destruct El as [El _]. now apply enc_varint_nonempty in El.
  - cbn [dec_fields].
    destruct (enc_varint (encode_tag num 0) ++ enc_varint v) eqn:Eb.
    + apply app_eq_nil in Eb. destruct Eb as [Eb _]. now apply enc_varint_nonempty in Eb.
    + rewrite <- Eb. rewrite varint_roundtrip by exact Ht.
      rewrite <- (app_nil_r (enc_varint v)). rewrite varint_roundtrip by exact Hv.
      rewrite N.eqb_refl. apply dec_fields_nil.
Qed.

(* Explicit presence survives the binary round trip of this codec, also for the value 0;
   an implicit-presence zero is never encoded and decodes as "not present". *)
Corollary explicit_survives_roundtrip num ops v :
  encode_tag num 0 < 2^64 -> v < 2^64 ->
  frun (StOpt None) ops = StOpt (Some (PVInt v)) ->
  dec_explicit num (enc_field FCExplicit num (frun (StOpt None) ops)) = Ok (Some v).
Proof.
  intros Ht Hv ->. cbn [enc_field]. now apply explicit_roundtrip.
Qed.
Corollary explicit_unset_roundtrip num : dec_explicit num (enc_field FCExplicit num (StOpt None)) = Ok None.
Proof. reflexivity. Qed.

(* ------------------------------------------------------------------ *)
(** * 5. presenceIndex: fields that use the bitmap get distinct indices below presenceSize *)

Lemma count_indices_app a b : count_indices (a ++ b) = count_indices a + count_indices b.
Proof. induction a as [|[o l] r IH]; cbn [app count_indices]; [reflexivity|]. rewrite IH. lia. Qed.

Lemma presence_index_lt_size fs j b :
  nth_error fs j = Some (false, b) -> fst (presence_index fs j) < snd (presence_index fs j).
Proof.
  intros H. apply nth_error_split in H. destruct H as [l1 [l2 [-> Hlen]]].
  unfold presence_index. cbn [fst snd].
  rewrite firstn_app, <- Hlen, Nat.sub_diag, firstn_all. cbn [firstn]. rewrite app_nil_r.
  rewrite count_indices_app. cbn [count_indices negb orb]. lia.
Qed.

Lemma presence_index_strict fs i j bi :
  (i < j)%nat -> nth_error fs i = Some (false, bi) ->
  fst (presence_index fs i) < fst (presence_index fs j).
Proof.
  intros Hij H. apply nth_error_split in H. destruct H as [l1 [l2 [-> Hlen]]].
  unfold presence_index. cbn [fst].
  rewrite !firstn_app, <- Hlen, Nat.sub_diag, firstn_all. cbn [firstn]. rewrite app_nil_r.
  replace (firstn j l1) with l1 by (symmetry; apply firstn_all2; lia).
  destruct (j - length l1)%nat as [|k] eqn:E; [lia|]. cbn [firstn].
  rewrite count_indices_app. cbn [count_indices negb orb]. lia.
Qed.

Theorem presence_index_distinct fs i j bi bj :
  i <> j -> nth_error fs i = Some (false, bi) -> nth_error fs j = Some (false, bj) ->
  fst (presence_index fs i) <> fst (presence_index fs j).
Proof.
  intros Hne Hi Hj. destruct (Nat.lt_total i j) as [H|[H|H]]; [|congruence|].
  - pose proof (presence_index_strict fs i j bi H Hi). lia.
  - pose proof (presence_index_strict fs j i bj H Hj). lia.
Qed.
