(* LazyP — proofs about the lazy-decoding model Msg/LazyModel.v:
     - the Unmarshal verdict of lazy decoding refines the eager one (lockstep with the validator,
       which is in lockstep with the eager decoder: Msg/ValidateMsgP.v),
     - after a successful Unmarshal every still-lazy field has an index entry that lookupField
       finds (the index is sorted whenever lookupField's early exit needs it). *)
From Coq Require Import List Arith NArith ZArith Lia Bool.
From Coq Require Import ZifyBool ZifyNat ZifyN.
From PB Require Import Base.PBytes Wire.WireModel Wire.VarintP Wire.ScanP.
From PB Require Import Msg.MsgSchema Msg.MsgValue Msg.MsgUtf8 Msg.MsgEnc Msg.MsgDec.
From PB Require Import Msg.ValidateMsgModel Msg.ValidateMsgP Msg.LazyModel.
Ltac Zify.zify_post_hook ::= Z.div_mod_to_equations.
Import ListNotations.
Open Scope N_scope.

(* ---------- the quirk flag only grows ---------- *)
Lemma lzp_loop_q_mono reqof md vsub vsub2 grp : forall g bs seen i q0 i' q' r,
  vr_loop reqof md vsub vsub2 grp g bs seen i q0 = VOk i' q' r -> q0 = true -> q' = true.
Proof.
  induction g as [|x g IH]; intros bs seen i q0 i' q' r; cbn [vr_loop]; [discriminate|].
  destruct bs as [|b0 t0] eqn:Ebs.
  { destruct (grp =? 0); [|discriminate]. intros H; inversion H; subst; auto. }
  rewrite <- Ebs. clear Ebs.
  destruct (dec_tag bs) as [[[num typ] r0]|e]; [|discriminate].
  destruct (msg_max_num <? num); [discriminate|].
  destruct (typ =? 4).
  { destruct (num =? grp); [|discriminate]. intros H; inversion H; subst; auto. }
  destruct (vr_step reqof md vsub vsub2 num typ r0) as [i1 q1 r1| |]; try discriminate.
  intros H Hq. eapply IH; [exact H|]. subst q0. reflexivity.
Qed.

Lemma lzp_loop_q_false reqof md vsub vsub2 grp g bs seen i q0 i' r :
  vr_loop reqof md vsub vsub2 grp g bs seen i q0 = VOk i' false r -> q0 = false.
Proof.
  intros H. destruct q0; [|reflexivity]. apply lzp_loop_q_mono in H; [discriminate|reflexivity].
Qed.

(* ---------- lockstep of the lazy loop with the validator ---------- *)
Section Lockstep.
  Variable P : Prop.
  Variable S : schema.
  Hypothesis HflS : P -> vp_fl1_free S.
  Variable d : nat.
  Variable md : mdesc.
  Hypothesis Hmd : In md S.
  Variable total : nat.

  Let Hsub := vp_msg_agree P S HflS d.

  Lemma lzp_sub2 :
    match vp_vsub2 S d, lz_dsub2 S d with
    | None, None => True
    | Some vm2, Some dm2 => vp_sub_agree P vm2 dm2
    | _, _ => False
    end.
  Proof. destruct d as [|d1]; cbn; [exact I|]. apply vp_msg_agree. exact HflS. Qed.

  (* one field: validator step vs lazy step.  Either the lazy step succeeds with the same rest,
     or the quirk flag is raised (a map field at the limit, which is never lazy) and it fails *)
  Definition lzp_step_ok (st : lstate) (bs : list byte) (num typ : N) (r : list byte) : Prop :=
    match vr_step (vr_reqof S) md (vr_msg S d) (vp_vsub2 S d) num typ r with
    | VFuel => False
    | VBad => P -> exists e, lz_step S d md total st bs num typ r = DErr e
    | VOk i q r' => (length r' <= length r)%nat /\
                    ((exists st', lz_step S d md total st bs num typ r = DOk (st', r')) \/
                     (q = true /\ exists e, lz_step S d md total st bs num typ r = DErr e))
    end.

  Lemma lzp_step st bs num typ r : lzp_step_ok st bs num typ r.
  Proof.
    unfold lzp_step_ok.
    assert (Heager :
      match vr_step (vr_reqof S) md (vr_msg S d) (vp_vsub2 S d) num typ r with
      | VFuel => False
      | VBad => P -> exists e,
          match msg_step false md (msg_decode_msg false S d) (lz_dsub2 S d) (enc_tag num typ) num typ r (s_acc st) with
          | DErr e => DErr e
          | DOk (acc', r') => DOk (lz_note total st false num (total - length bs) r' acc' (s_present st), r')
          end = @DErr (lstate * list byte) e
      | VOk i q r' => (length r' <= length r)%nat /\
          ((exists st',
            match msg_step false md (msg_decode_msg false S d) (lz_dsub2 S d) (enc_tag num typ) num typ r (s_acc st) with
            | DErr e => DErr e
            | DOk (acc', r') => DOk (lz_note total st false num (total - length bs) r' acc' (s_present st), r')
            end = DOk (st', r')) \/
           (q = true /\ exists e,
            match msg_step false md (msg_decode_msg false S d) (lz_dsub2 S d) (enc_tag num typ) num typ r (s_acc st) with
            | DErr e => DErr e
            | DOk (acc', r') => DOk (lz_note total st false num (total - length bs) r' acc' (s_present st), r')
            end = @DErr (lstate * list byte) e))
      end).
    { pose proof (vp_step_agree P (vr_reqof S) md (vr_msg S d) (msg_decode_msg false S d) (vp_vsub2 S d) (lz_dsub2 S d)
                    Hsub lzp_sub2 (fun HP => HflS HP md Hmd) (enc_tag num typ) num typ r (s_acc st)) as A.
      unfold vp_agree in A.
      destruct (vr_step (vr_reqof S) md (vr_msg S d) (vp_vsub2 S d) num typ r) as [i q r'| |].
      - destruct A as [Hl A]. split; [exact Hl|]. destruct q.
        + right. split; [reflexivity|]. rewrite A. eauto.
        + left. destruct A as ([acc' r2] & -> & Hr). cbn [vp_rest2 snd] in Hr. subst r2. eauto.
      - intros HP. destruct (A HP) as (e & ->). eauto.
      - exact A. }
    unfold lz_step.
    destruct (msg_find_field md num) as [fd|] eqn:Ef; [|exact Heager].
    destruct (lz_is_lazy fd) eqn:El; [|exact Heager].
    (* a lazy field: the validator decides *)
    clear Heager. unfold vr_step. rewrite Ef.
    unfold lz_is_lazy in El. apply andb_prop in El. destruct El as [El Hone].
    apply andb_prop in El. destruct El as [El Hcard]. apply andb_prop in El. destruct El as [_ Hkind].
    assert (Hunk :
      match vr_plain num typ r with
      | VFuel => False
      | VBad => P -> exists e,
          match msg_unknown (enc_tag num typ) num typ r (s_acc st) with
          | DErr e => DErr e
          | DOk (acc', r') => DOk (lz_note total st true num (total - length bs) r' acc' (s_present st), r')
          end = @DErr (lstate * list byte) e
      | VOk i q r' => (length r' <= length r)%nat /\
          ((exists st',
            match msg_unknown (enc_tag num typ) num typ r (s_acc st) with
            | DErr e => DErr e
            | DOk (acc', r') => DOk (lz_note total st true num (total - length bs) r' acc' (s_present st), r')
            end = DOk (st', r')) \/
           (q = true /\ exists e,
            match msg_unknown (enc_tag num typ) num typ r (s_acc st) with
            | DErr e => DErr e
            | DOk (acc', r') => DOk (lz_note total st true num (total - length bs) r' acc' (s_present st), r')
            end = @DErr (lstate * list byte) e))
      end).
    { unfold vr_plain, vr_skip, msg_unknown.
      destruct (parse_val default_dep num typ r) as [[w r']|e] eqn:E; [|eauto].
      split; [eapply parse_val_len; eauto|]. left. eauto. }
    destruct (f_card fd) eqn:Ec; try discriminate Hcard;
      destruct (f_kind fd) as [sk|tid|tid] eqn:Ek; try discriminate Hkind.
    all: try (destruct (typ =? 2) eqn:Ht; [|exact Hunk];
              destruct (dec_bytes r) as [[payload r']|e] eqn:Eb; [|eauto];
              pose proof (vp_dec_bytes_len _ _ _ Eb) as Hb;
              pose proof (Hsub tid 0 (x00 :: payload) payload ([], []) ltac:(cbn [length]; lia)) as A;
              unfold vp_agree in A;
              destruct (vr_msg S d tid 0 (x00 :: payload) payload) as [i q r1| |];
              [split; [lia|]; left; eauto|eauto|exact A]).
    all: destruct (typ =? 3) eqn:Ht; [|exact Hunk];
         pose proof (Hsub tid num (x00 :: r) r ([], []) ltac:(cbn [length]; lia)) as A;
         unfold vp_agree in A;
         destruct (vr_msg S d tid num (x00 :: r) r) as [i q r1| |];
         [destruct A as [Hl _]; split; [exact Hl|]; left; eauto|eauto|exact A].
  Qed.

  Lemma lzp_loop : forall g bs st seen i q0, (length bs < length g)%nat ->
    match vr_loop (vr_reqof S) md (vr_msg S d) (vp_vsub2 S d) 0 g bs seen i q0 with
    | VFuel => False
    | VBad => P -> exists e, lz_loop S d md total g bs st = DErr e
    | VOk i' q' r => q' = false -> exists st', lz_loop S d md total g bs st = DOk st'
    end.
  Proof.
    induction g as [|x g IH]; intros bs st seen i q0 Hl; [cbn in Hl; lia|].
    cbn [vr_loop lz_loop]. destruct bs as [|b0 t0] eqn:Ebs.
    { cbn [N.eqb]. intros _. eauto. }
    rewrite <- Ebs in *. clear Ebs b0 t0.
    destruct (dec_tag bs) as [[[num typ] r]|e] eqn:Et; [|eauto].
    pose proof (vp_dec_tag_len _ _ _ _ Et) as Hr.
    destruct (msg_max_num <? num); [eauto|].
    destruct (typ =? 4).
    { replace (num =? 0) with false; [eauto|]. symmetry. apply N.eqb_neq. intros ->.
      apply dec_tag_sound in Et. destruct Et as (p & _ & (_ & _ & _ & Hlo & _)). lia. }
    pose proof (lzp_step st bs num typ r) as Hs. unfold lzp_step_ok in Hs.
    destruct (vr_step (vr_reqof S) md (vr_msg S d) (vp_vsub2 S d) num typ r) as [i1 q1 r'| |].
    - destruct Hs as [Hl' [(st' & ->)|(-> & e & ->)]].
      + apply IH. cbn [length] in Hl. lia.
      + specialize (IH r' st (if vr_marks md num typ then num :: seen else seen) (i && i1) (q0 || true)
                       ltac:(cbn [length] in Hl; lia)).
        destruct (vr_loop (vr_reqof S) md (vr_msg S d) (vp_vsub2 S d) 0 g r'
                    (if vr_marks md num typ then num :: seen else seen) (i && i1) (q0 || true)) as [i' q' r0| |] eqn:Ev.
        * intros ->. apply lzp_loop_q_false in Ev. rewrite orb_true_r in Ev. discriminate.
        * intros _. eauto.
        * exact IH.
    - intros HP. destruct (Hs HP) as (e & ->). eauto.
    - exact Hs.
  Qed.
End Lockstep.

(* ---------- the Unmarshal verdict ---------- *)
Theorem lzp_verdict_refines S limit tid bs :
  vp_fl1_free S ->
  ((exists v, msg_decode false S limit tid bs = DOk v) -> exists m, lz_unmarshal S limit tid bs = DOk m) /\
  ((exists m, lz_unmarshal S limit tid bs = DOk m) ->
   (exists v, msg_decode false S limit tid bs = DOk v) \/ msg_decode false S limit tid bs = DErr DDepth).
Proof.
  intros Hfl.
  pose proof (vp_validate_cases True S (fun _ => Hfl) limit tid bs) as Hv.
  destruct limit as [|d].
  { cbn [lz_unmarshal]. split; [|intros (m & E); discriminate].
    intros (v & E). unfold msg_decode, msg_decode_into in E. cbn [msg_decode_msg] in E. discriminate. }
  rewrite vp_vr_unfold in Hv. cbn [lz_unmarshal].
  destruct (nth_error S tid) as [md|] eqn:Hmd.
  2: { split; [|intros (m & E); discriminate]. intros (v & E). destruct (Hv I) as (e & E'). congruence. }
  assert (Hin : In md S) by (eapply nth_error_In; eauto).
  pose proof (lzp_loop True S (fun _ => Hfl) d md Hin (length bs) (x00 :: bs) bs
                (mkLS ([], []) [] [] 0 false) [] true false ltac:(cbn [length]; lia)) as Hl.
  destruct (vr_loop (vr_reqof S) md (vr_msg S d) (vp_vsub2 S d) 0 (x00 :: bs) bs [] true false) as [i q r| |].
  - destruct q.
    + split.
      * intros (v & E). congruence.
      * intros _. right. exact Hv.
    + destruct (Hl eq_refl) as (st' & ->). split; [eauto|]. intros _. left. exact Hv.
  - destruct (Hl I) as (e & ->). split.
    + intros (v & E). destruct (Hv I) as (e' & E'). congruence.
    + intros (m & E). discriminate.
  - contradiction.
Qed.

(* ---------- lookupField finds every still-lazy field ---------- *)
Definition lzp_nums_sorted (idx : list ientry) : Prop :=
  forall i j x y, nth_error idx i = Some x -> nth_error idx j = Some y -> (i <= j)%nat -> ie_num x <= ie_num y.

Lemma lzp_sorted_cons x l :
  lzp_nums_sorted (x :: l) <-> (forall y, In y l -> ie_num x <= ie_num y) /\ lzp_nums_sorted l.
Proof.
  split.
  - intros H. split.
    + intros y Hy. apply In_nth_error in Hy. destruct Hy as (j & Hj).
      apply (H 0%nat (Datatypes.S j) x y); [reflexivity|exact Hj|lia].
    + intros i j a b Ha Hb Hij. apply (H (Datatypes.S i) (Datatypes.S j) a b); auto. lia.
  - intros [H1 H2] i j a b Ha Hb Hij. destruct i as [|i], j as [|j]; cbn in Ha, Hb.
    + inversion Ha; inversion Hb; subst. lia.
    + inversion Ha; subst. apply H1. eapply nth_error_In; eauto.
    + lia.
    + apply (H2 i j); auto. lia.
Qed.

Lemma lzp_lookup_found : forall idx num,
  lzp_nums_sorted idx -> (exists e, In e idx /\ ie_num e = num) -> lz_lookup idx num <> [].
Proof.
  induction idx as [|x r IH]; intros num Hs (e & Hin & He); [contradiction|].
  cbn [lz_lookup]. destruct (ie_num x =? num) eqn:E1.
  - cbn [lz_take_run]. rewrite E1. discriminate.
  - apply lzp_sorted_cons in Hs. destruct Hs as [Hle Hs].
    destruct Hin as [->|Hin]; [apply N.eqb_neq in E1; congruence|].
    destruct (num <? ie_num x) eqn:E2.
    + specialize (Hle e Hin). lia.
    + apply IH; eauto.
Qed.

(* insertion sort: a permutation whose numbers are sorted *)
Lemma lzp_insert_in x l y : In y (lz_ie_insert x l) <-> y = x \/ In y l.
Proof.
  induction l as [|a r IH]; cbn [lz_ie_insert]; [cbn; intuition|].
  destruct (lz_ie_le x a); cbn [In]; [intuition|]. rewrite IH. intuition.
Qed.
Lemma lzp_sort_in l y : In y (lz_ie_sort l) <-> In y l.
Proof.
  induction l as [|a r IH]; cbn [lz_ie_sort]; [reflexivity|]. rewrite lzp_insert_in, IH. cbn [In]. intuition.
Qed.
Lemma lzp_insert_sorted x l : lzp_nums_sorted l -> lzp_nums_sorted (lz_ie_insert x l).
Proof.
  induction l as [|a r IH]; intros Hs; cbn [lz_ie_insert].
  - apply lzp_sorted_cons. split; [intros y []|intros i j u v Hu; destruct i; discriminate].
  - destruct (lz_ie_le x a) eqn:E.
    + apply lzp_sorted_cons. split; [|exact Hs].
      apply lzp_sorted_cons in Hs. destruct Hs as [Hle _].
      assert (Hxa : ie_num x <= ie_num a) by (unfold lz_ie_le in E; lia).
      intros y [<-|Hy]; [exact Hxa|]. specialize (Hle y Hy). lia.
    + apply lzp_sorted_cons in Hs. destruct Hs as [Hle Hs]. apply lzp_sorted_cons. split; [|apply IH; exact Hs].
      intros y Hy. apply lzp_insert_in in Hy. destruct Hy as [->|Hy]; [|apply Hle; exact Hy].
      unfold lz_ie_le in E. lia.
Qed.
Lemma lzp_sort_sorted l : lzp_nums_sorted (lz_ie_sort l).
Proof.
  induction l as [|a r IH]; cbn [lz_ie_sort].
  - intros i j u v Hu. destruct i; discriminate.
  - apply lzp_insert_sorted. exact IH.
Qed.

(* the index as built by the loop *)
Lemma lzp_extend_last_in idx e y :
  In y (lz_extend_last idx e) -> exists z, In z idx /\ ie_num z = ie_num y.
Proof.
  induction idx as [|x r IH]; cbn [lz_extend_last]; [intros []|].
  destruct r as [|x2 r2].
  - intros [<-|[]]. exists x. split; [left; reflexivity|reflexivity].
  - intros [<-|Hy]; [exists x; split; [left; reflexivity|reflexivity]|].
    destruct (IH Hy) as (z & Hz & En). exists z. split; [right; exact Hz|exact En].
Qed.
Lemma lzp_extend_last_keeps idx e z :
  In z idx -> exists y, In y (lz_extend_last idx e) /\ ie_num y = ie_num z.
Proof.
  induction idx as [|x r IH]; [intros []|]. cbn [lz_extend_last]. destruct r as [|x2 r2].
  - intros [<-|[]]. eexists. split; [left; reflexivity|reflexivity].
  - intros [<-|Hz]; [exists x; split; [left; reflexivity|reflexivity]|].
    destruct (IH Hz) as (y & Hy & En). exists y. split; [right; exact Hy|exact En].
Qed.
Lemma lzp_extend_last_nums idx e : map ie_num (lz_extend_last idx e) = map ie_num idx.
Proof.
  induction idx as [|x r IH]; [reflexivity|]. cbn [lz_extend_last]. destruct r as [|x2 r2]; [reflexivity|].
  cbn [map] in IH |- *. f_equal. exact IH.
Qed.

(* sortedness depends on the numbers only *)
Definition lzp_sorted_nums (l : list N) : Prop :=
  forall i j a b, nth_error l i = Some a -> nth_error l j = Some b -> (i <= j)%nat -> a <= b.

Lemma lzp_sorted_bridge idx : lzp_nums_sorted idx <-> lzp_sorted_nums (map ie_num idx).
Proof.
  unfold lzp_nums_sorted, lzp_sorted_nums. split; intros H i j a b Ha Hb Hij.
  - rewrite nth_error_map in Ha, Hb.
    destruct (nth_error idx i) as [x|] eqn:Ex; [|discriminate].
    destruct (nth_error idx j) as [y|] eqn:Ey; [|discriminate].
    cbn in Ha, Hb. inversion Ha; inversion Hb; subst. eapply H; eauto.
  - apply (H i j); [rewrite nth_error_map, Ha|rewrite nth_error_map, Hb|exact Hij]; reflexivity.
Qed.

Lemma lzp_sorted_nums_snoc l x :
  lzp_sorted_nums l -> (forall a, In a l -> a <= x) -> lzp_sorted_nums (l ++ [x]).
Proof.
  intros Hs Hb i j a b Ha Hb' Hij.
  destruct (Nat.lt_ge_cases j (length l)) as [Hj|Hj].
  - rewrite nth_error_app1 in Ha, Hb' by lia. eapply Hs; eauto.
  - rewrite (nth_error_app2 _ _ Hj) in Hb'.
    destruct (j - length l)%nat as [|k] eqn:Ek; [|destruct k; discriminate].
    cbn in Hb'. inversion Hb'; subst b.
    destruct (Nat.lt_ge_cases i (length l)) as [Hi|Hi].
    + rewrite nth_error_app1 in Ha by lia. apply Hb. eapply nth_error_In; eauto.
    + rewrite (nth_error_app2 _ _ Hi) in Ha.
      destruct (i - length l)%nat as [|k] eqn:Ek2; [|destruct k; discriminate].
      cbn in Ha. inversion Ha; subst. lia.
Qed.

Definition lzp_last_num (idx : list ientry) : N := last (map ie_num idx) 0.

Lemma lzp_last_num_in idx : idx <> [] -> exists e, In e idx /\ ie_num e = lzp_last_num idx.
Proof.
  unfold lzp_last_num. induction idx as [|x r IH]; [congruence|]. intros _.
  destruct r as [|y r'].
  - exists x. split; [left; reflexivity|reflexivity].
  - destruct (IH ltac:(discriminate)) as (e & He & En). exists e. split; [right; exact He|].
    rewrite En. reflexivity.
Qed.

(* invariant of the loop state:
     every lazy field with its presence bit set has an index entry;
     if the last field was a lazy one, the last index entry is its entry;
     while nothing came out of order, the index numbers are sorted and bounded by the last number *)
Record lzp_inv (md : mdesc) (st : lstate) : Prop := {
  inv_present : forall n, In n (s_present st) -> exists e, In e (s_idx st) /\ ie_num e = n;
  inv_last : s_last st <> 0 -> forall fd, msg_find_field md (s_last st) = Some fd -> lz_is_lazy fd = true ->
                        s_idx st <> [] /\ lzp_last_num (s_idx st) = s_last st;
  inv_sorted : s_ooo st = false ->
               lzp_nums_sorted (s_idx st) /\ forall e, In e (s_idx st) -> ie_num e <= s_last st
}.

Section Inv.
  Variable md : mdesc.
  Variable total : nat.

  (* a field that is not a lazy one: the index is untouched *)
  Lemma lzp_note_eager st num pos r' acc :
    (forall fd, msg_find_field md num = Some fd -> lz_is_lazy fd = false) ->
    lzp_inv md st -> lzp_inv md (lz_note total st false num pos r' acc (s_present st)).
  Proof.
    intros Hnl [Hp Hlast Hs]. constructor; cbn [lz_note s_present s_idx s_last s_ooo].
    - exact Hp.
    - intros _ fd Hf Hl. rewrite (Hnl fd Hf) in Hl. discriminate.
    - intros Ho. apply orb_false_iff in Ho. destruct Ho as [Ho Hlt]. destruct (Hs Ho) as [H1 H2].
      split; [exact H1|]. intros e He. specialize (H2 e He). lia.
  Qed.

  (* an occurrence of a lazy field: a new entry, or the last entry grows *)
  Lemma lzp_note_lazy st num pos r' acc present' fd :
    num <> 0 -> msg_find_field md num = Some fd -> lz_is_lazy fd = true ->
    (forall n, In n present' -> n = num \/ In n (s_present st)) ->
    lzp_inv md st -> lzp_inv md (lz_note total st true num pos r' acc present').
  Proof.
    intros Hnum Hf Hl Hpres [Hp Hlast Hs].
    assert (Hidx : forall e, In e (s_idx st) -> exists y,
               In y (lz_index_add (s_idx st) num (s_last st) pos (total - length r')) /\ ie_num y = ie_num e).
    { intros e He. unfold lz_index_add. destruct (num =? s_last st).
      - apply lzp_extend_last_keeps. exact He.
      - exists e. split; [apply in_or_app; left; exact He|reflexivity]. }
    assert (Hnew : exists y, In y (lz_index_add (s_idx st) num (s_last st) pos (total - length r')) /\ ie_num y = num).
    { unfold lz_index_add. destruct (num =? s_last st) eqn:E.
      - apply N.eqb_eq in E. rewrite <- E in Hlast. destruct (Hlast Hnum fd Hf Hl) as [Hne Hln].
        destruct (lzp_last_num_in _ Hne) as (e & He & En).
        destruct (lzp_extend_last_keeps _ (total - length r')%nat _ He) as (y & Hy & Eny).
        exists y. split; [exact Hy|]. congruence.
      - eexists. split; [apply in_or_app; right; left; reflexivity|reflexivity]. }
    constructor; cbn [lz_note s_present s_idx s_last s_ooo].
    - intros n Hn. destruct (Hpres n Hn) as [->|Hn'].
      + exact Hnew.
      + destruct (Hp n Hn') as (e & He & En). destruct (Hidx e He) as (y & Hy & Eny). exists y. split; [exact Hy|congruence].
    - intros _ fd' _ _. unfold lz_index_add. destruct (num =? s_last st) eqn:E.
      + apply N.eqb_eq in E. rewrite <- E in Hlast. destruct (Hlast Hnum fd Hf Hl) as [Hne Hln]. split.
        * destruct (s_idx st) as [|x r]; [congruence|]. cbn [lz_extend_last]. destruct r; discriminate.
        * unfold lzp_last_num. rewrite lzp_extend_last_nums. exact Hln.
      + split; [destruct (s_idx st); discriminate|].
        unfold lzp_last_num. rewrite map_app. cbn [map]. apply last_last.
    - intros Ho. apply orb_false_iff in Ho. destruct Ho as [Ho Hlt]. destruct (Hs Ho) as [H1 H2].
      unfold lz_index_add. destruct (num =? s_last st) eqn:E.
      + apply N.eqb_eq in E. split.
        * apply lzp_sorted_bridge. rewrite lzp_extend_last_nums. apply lzp_sorted_bridge. exact H1.
        * intros e He. apply lzp_extend_last_in in He. destruct He as (z & Hz & En). specialize (H2 z Hz). lia.
      + split.
        * apply lzp_sorted_bridge. rewrite map_app. cbn [map]. apply lzp_sorted_nums_snoc.
          -- apply lzp_sorted_bridge. exact H1.
          -- intros a Ha. apply in_map_iff in Ha. destruct Ha as (z & <- & Hz). specialize (H2 z Hz). cbn [ie_num]. lia.
        * intros e He. apply in_app_or in He. destruct He as [He|[<-|[]]]; [specialize (H2 e He); lia|cbn [ie_num]; lia].
  Qed.
End Inv.

Lemma lzp_step_inv S d md total st bs num typ r st' r' :
  num <> 0 ->
  lz_step S d md total st bs num typ r = DOk (st', r') -> lzp_inv md st -> lzp_inv md st'.
Proof.
  unfold lz_step. intros Hnum E Hinv.
  assert (Heager : forall (Hnl : forall fd, msg_find_field md num = Some fd -> lz_is_lazy fd = false),
    match msg_step false md (msg_decode_msg false S d) (lz_dsub2 S d) (enc_tag num typ) num typ r (s_acc st) with
    | DErr e => DErr e
    | DOk (acc', r'0) => DOk (lz_note total st false num (total - length bs) r'0 acc' (s_present st), r'0)
    end = DOk (st', r') -> lzp_inv md st').
  { intros Hnl H. destruct (msg_step _ _ _ _ _ _ _ _ _) as [[acc' r0]|e]; [|discriminate].
    inversion H; subst. apply lzp_note_eager; assumption. }
  destruct (msg_find_field md num) as [fd|] eqn:Ef.
  2: { apply Heager; [|exact E]. intros fd H. discriminate. }
  destruct (lz_is_lazy fd) eqn:El.
  2: { apply Heager; [|exact E]. intros fd' H. inversion H; subst. exact El. }
  assert (Hunk :
    match msg_unknown (enc_tag num typ) num typ r (s_acc st) with
    | DErr e => DErr e
    | DOk (acc', r'0) => DOk (lz_note total st true num (total - length bs) r'0 acc' (s_present st), r'0)
    end = DOk (st', r') -> lzp_inv md st').
  { intros H. destruct (msg_unknown _ _ _ _ _) as [[acc' r0]|e]; [|discriminate].
    inversion H; subst. eapply lzp_note_lazy; eauto. }
  destruct (f_kind fd) as [sk|tid|tid] eqn:Ek.
  - unfold lz_is_lazy in El. rewrite Ek in El. rewrite andb_false_r in El. cbn in El. discriminate.
  - destruct (typ =? 2); [|exact (Hunk E)].
    destruct (dec_bytes r) as [[payload r0]|e]; [|discriminate].
    destruct (vr_msg S d tid 0 (x00 :: payload) payload); try discriminate.
    inversion E; subst. eapply lzp_note_lazy; eauto. intros n [<-|Hn]; auto.
  - destruct (typ =? 3); [|exact (Hunk E)].
    destruct (vr_msg S d tid num (x00 :: r) r); try discriminate.
    inversion E; subst. eapply lzp_note_lazy; eauto. intros n [<-|Hn]; auto.
Qed.

Lemma lzp_loop_inv S d md total : forall g bs st st',
  lz_loop S d md total g bs st = DOk st' -> lzp_inv md st -> lzp_inv md st'.
Proof.
  induction g as [|x g IH]; intros bs st st'; cbn [lz_loop]; [discriminate|].
  destruct bs as [|b0 t0] eqn:Ebs; [intros H; inversion H; subst; auto|].
  rewrite <- Ebs. clear Ebs.
  destruct (dec_tag bs) as [[[num typ] r]|e] eqn:Et; [|discriminate].
  destruct (msg_max_num <? num); [discriminate|]. destruct (typ =? 4); [discriminate|].
  destruct (lz_step S d md total st bs num typ r) as [[st1 r1]|e] eqn:Es; [|discriminate].
  intros H Hinv. eapply IH; [exact H|]. eapply lzp_step_inv; [|exact Es|exact Hinv].
  apply dec_tag_sound in Et. destruct Et as (p & _ & (_ & _ & _ & Hlo & _)). lia.
Qed.

Lemma lzp_dedup_in l n : In n (lz_dedup l) -> In n l.
Proof.
  induction l as [|x r IH]; cbn [lz_dedup]; [intros []|].
  destruct (existsb (N.eqb x) r); [intros H; right; auto|intros [<-|H]; [left; reflexivity|right; auto]].
Qed.

(* lazy_access_total, index part: lookupField finds every field whose presence bit was set *)
Theorem lzp_lookup_total S limit tid bs m :
  lz_unmarshal S limit tid bs = DOk m ->
  forall n, In n (l_lazy m) -> lz_lookup (l_index m) n <> [].
Proof.
  unfold lz_unmarshal. destruct limit as [|d]; [discriminate|].
  destruct (nth_error S tid) as [md|]; [|discriminate].
  destruct (lz_loop S d md (length bs) (x00 :: bs) bs (mkLS ([], []) [] [] 0 false)) as [st|e] eqn:El; [|discriminate].
  intros H; inversion H; subst; clear H. cbn [l_lazy l_index]. intros n Hn.
  apply lzp_dedup_in in Hn.
  assert (Hinv : lzp_inv md st).
  { eapply lzp_loop_inv; [exact El|]. constructor; cbn.
    - intros ? [].
    - intros H0. congruence.
    - intros _. split; [intros i j x y Hx; destruct i; discriminate|intros e []]. }
  destruct Hinv as [Hp _ Hs]. destruct (Hp n Hn) as (e & He & En).
  apply lzp_lookup_found.
  - destruct (s_ooo st) eqn:Eo; [apply lzp_sort_sorted|apply (Hs eq_refl)].
  - exists e. split; [|exact En]. destruct (s_ooo st); [apply lzp_sort_in|]; exact He.
Qed.
