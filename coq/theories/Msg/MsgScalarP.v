(* MsgScalarP — the scalar codec laws: dec (enc v) = Some v on the kind's range, and the
   wire scanner reads back exactly what the encoder wrote (any suffix). *)
From Coq Require Import List Arith NArith ZArith Lia Bool.
From Coq Require Import ZifyBool ZifyNat ZifyN.
From PB Require Import Base.PBytes Wire.WireModel Wire.VarintP.
From PB Require Import Msg.MsgSchema Msg.MsgValue Msg.MsgEnc Msg.MsgValid Msg.MsgWireP.
Ltac Zify.zify_post_hook ::= Z.div_mod_to_equations.
Import ListNotations.
Open Scope N_scope.

Lemma msg_s32_u64 z : (-2147483648 <= z < 2147483648)%Z -> msg_s32 (msg_u64 z) = z.
Proof. intros H. unfold msg_s32, msg_u64. destruct (_ <? _)%Z eqn:E; lia. Qed.
Lemma msg_s64_u64 z : (-9223372036854775808 <= z < 9223372036854775808)%Z -> msg_s64 (msg_u64 z) = z.
Proof. intros H. unfold msg_s64, msg_u64. destruct (_ <? _)%Z eqn:E; lia. Qed.
Lemma msg_s32_u32 z : (-2147483648 <= z < 2147483648)%Z -> msg_s32 (msg_u32 z) = z.
Proof. intros H. unfold msg_s32, msg_u32. destruct (_ <? _)%Z eqn:E; lia. Qed.
Lemma msg_u64_lt z : msg_u64 z < 18446744073709551616.
Proof. unfold msg_u64. lia. Qed.
Lemma msg_u32_lt z : msg_u32 z < 4294967296.
Proof. unfold msg_u32. lia. Qed.
Lemma msg_zz32_small z : (-2147483648 <= z < 2147483648)%Z -> zz_enc z < 4294967296.
Proof. intros H. unfold zz_enc. destruct (z <? 0)%Z; lia. Qed.
Lemma msg_zz64_small z : (-9223372036854775808 <= z < 9223372036854775808)%Z -> zz_enc z < 18446744073709551616.
Proof. intros H. unfold zz_enc. destruct (z <? 0)%Z; lia. Qed.

Lemma msg_dec_le4 n : n < 4294967296 -> dec_le (enc_fixed32 n) = n.
Proof. intros H. apply msgw_dec_enc_le. exact H. Qed.
Lemma msg_dec_le8 n : n < 18446744073709551616 -> dec_le (enc_fixed64 n) = n.
Proof. intros H. apply msgw_dec_enc_le. exact H. Qed.

Theorem msg_sk_dec_enc sk s : sk_ok sk s = true -> sk_dec sk (sk_enc sk s) = Some s.
Proof.
  destruct sk, s; cbn [sk_ok sk_enc sk_dec]; intros H; try discriminate; f_equal; f_equal;
    try first [ apply msg_dec_le8; lia
          | apply msg_dec_le4; lia
          | apply msg_s64_u64; lia
          | apply msg_s32_u64; lia
          | (destruct b; reflexivity)
          | apply N.mod_small; lia
          | (rewrite msg_dec_le4 by apply msg_u32_lt; apply msg_s32_u32; lia)
          | (rewrite msg_dec_le8 by apply msg_u64_lt; apply msg_s64_u64; lia)
          | (rewrite N.mod_small by (apply msg_zz32_small; lia); apply msgw_zz_dec_enc)
          | apply msgw_zz_dec_enc ].
Qed.

(* every in-range scalar encodes to a wire value whose varint/length fits uint64, except for
   the length of byte strings, which is a separate hypothesis *)
Lemma msg_sk_ok_wval sk s :
  sk_ok sk s = true -> (match s with SBy b => N.of_nat (length b) < 2^64 | _ => True end) ->
  msg_wval_ok (sk_enc sk s) = true.
Proof.
  unfold msg_wval_ok, msg_two64. change (2^64) with 18446744073709551616.
  destruct sk, s; cbn [sk_ok sk_enc]; intros H Hb; try discriminate; try reflexivity;
    try (pose proof (msg_u64_lt z); pose proof (msg_zz32_small z); pose proof (msg_zz64_small z); lia);
    try (destruct b; reflexivity).
  all: try exact H; lia.
Qed.

(* the scanner on an encoded scalar *)
Theorem msg_parse_scalar sk s dep num rest :
  sk_ok sk s = true -> msg_wval_ok (sk_enc sk s) = true ->
  parse_val dep num (sk_wt sk) (msg_enc_scalar sk s ++ rest) = Ok (sk_enc sk s, rest).
Proof.
  unfold msg_enc_scalar, msg_wval_ok, msg_two64.
  destruct sk, s; cbn [sk_ok sk_enc sk_wt render_val]; intros H Hw; try discriminate;
    destruct dep; cbn [parse_val];
    try (rewrite varint_roundtrip by (change (2^64) with 18446744073709551616; lia); reflexivity);
    try (rewrite msgw_take_len by (apply msgw_enc_le_length); reflexivity);
    try (fold (enc_bytes bs); rewrite msgw_dec_bytes_enc by (change (2^64) with 18446744073709551616; lia); reflexivity).
Qed.
