(* C11 over the full binary codec (Msg/MsgSchema, MsgValue, MsgEnc, MsgDec, MsgValid of C03):
   [has] on canonical message values according to the presence rule of every cardinality, and
   the wire fields (as the wire-tree scanner of Wire/WireModel.v reads them) that the encoder
   emits for a canonical value.  Definitions only; proofs in PresenceCodecP.v. *)
From Coq Require Import List NArith ZArith Bool.
From PB Require Import Base.PBytes Wire.WireModel.
From PB Require Import Msg.MsgSchema Msg.MsgValue Msg.MsgEnc Msg.MsgValid Msg.PresenceModel.
Import ListNotations.
Open Scope N_scope.

(** * has on canonical values *)

(* the values stored for field [num] in a message value *)
Definition pc_stored (v : value) (num : N) : list value :=
  match v with VMsg fs _ => msg_fget fs num | _ => [] end.
Definition pc_unknown (v : value) : list byte :=
  match v with VMsg _ unk => unk | _ => [] end.

(* The presence rule of the property text, per cardinality class of the schema table:
   explicit presence (optional, required, oneof members, messages): set -- whatever the value,
   also the default;  implicit presence: the stored scalar is non-zero;
   repeated / map: non-empty. *)
Definition pc_rule_has (c : card) (vs : list value) : bool :=
  match c with
  | COpt | CReq => match vs with [] => false | _ => true end
  | CImp => match vs with [VS s] => negb (msg_scalar_is_zero s) | _ => false end
  | CRep | CPacked | CMap _ _ _ => match vs with [] => false | _ => true end
  end.

Definition pc_has (S : schema) (tid : nat) (v : value) (num : N) : bool :=
  match msg_find_field (nth tid S []) num with
  | Some fd => pc_rule_has (f_card fd) (pc_stored v num)
  | None => false
  end.

(* is there an entry for the field in the canonical value at all? *)
Definition pc_present (v : value) (num : N) : bool :=
  match v with VMsg fs _ => existsb (N.eqb num) (map fst fs) | _ => false end.

(** * the wire fields the encoder emits (what the scanner reads back) *)
Section FieldWire.
  Variable eb : nat -> value -> list byte.

  Definition pc_elem_w (num : N) (k : kind) (v : value) : list wfield :=
    match k, v with
    | KS sk, VS s => [(num, sk_enc sk s)]
    | KMsg tid, VMsg _ _ => [(num, WLen (eb tid v))]
    | KGrp tid, VMsg _ _ =>
        match parse_val default_dep num 3 (eb tid v ++ enc_tag num 4) with
        | Ok (w, _) => [(num, w)]
        | Err _ => []
        end
    | _, _ => []
    end.

  Definition pc_entry_w (num : N) (kk : skind) (vk : kind) (e : value) : list wfield :=
    match e with
    | VEntry key v => [(num, WLen (msg_enc_key kk key ++ msg_enc_elem eb 2 vk v))]
    | _ => []
    end.

  Definition pc_field_w (fd : fdesc) (vs : list value) : list wfield :=
    match f_card fd with
    | CMap kk _ _ => flat_map (fun e => pc_entry_w (f_num fd) kk (f_kind fd) e) vs
    | CPacked =>
      match f_kind fd, vs with
      | KS sk, _ :: _ =>
        if msg_packable sk then [(f_num fd, WLen (msg_enc_packed_payload sk vs))]
        else flat_map (fun e => pc_elem_w (f_num fd) (f_kind fd) e) vs
      | _, _ => flat_map (fun e => pc_elem_w (f_num fd) (f_kind fd) e) vs
      end
    | _ => flat_map (fun e => pc_elem_w (f_num fd) (f_kind fd) e) vs
    end.

  (* (sort key, (bytes, wire fields)) of one entry of the canonical value *)
  Definition pc_chunk (md : mdesc) (p : N * list value) : N * (list byte * list wfield) :=
    match msg_find_field md (fst p) with
    | Some fd => (msg_legacy_key fd, (msg_enc_field eb fd (snd p), pc_field_w fd (snd p)))
    | None => (0, ([], []))
    end.

  (* top-level group values pass the wire scanner (on the reflection path this is part of
     msg_valid; on the table-driven path it is the exclusion of finding FB3) *)
  Definition pc_scan_chunk (md : mdesc) (p : N * list value) : bool :=
    match msg_find_field md (fst p) with
    | Some fd =>
      match f_card fd, f_kind fd with
      | CMap _ _ _, _ => true
      | _, KGrp tid => forallb (fun v => msg_group_scans (f_num fd) (eb tid v)) (snd p)
      | _, _ => true
      end
    | None => true
    end.
End FieldWire.

(* the wire fields of the known part, in the order the encoder emits them *)
Definition pc_wire (S : schema) (tid : nat) (v : value) : list wfield :=
  match v with
  | VMsg fs _ =>
    concat (map (fun c => snd (snd c))
                (msg_chunk_sort (map (pc_chunk (msg_enc_body S) (nth tid S [])) fs)))
  | _ => []
  end.

Definition pc_groups_scan (S : schema) (tid : nat) (v : value) : bool :=
  match v with
  | VMsg fs _ => forallb (pc_scan_chunk (msg_enc_body S) (nth tid S [])) fs
  | _ => true
  end.

(** * the cardinality class of the schema table, from the declared attributes (C11 table) *)
(* harness/cmd/h/common_msg.go msgFieldToken: map, list (packed or not), Cardinality() == Required,
   HasPresence(), otherwise implicit.  [pc_card] computes the same class from the attribute record
   of the HasPresence decision table; the numbers are the tokens of msgFieldToken. *)
Definition pc_eff_card (a : fattr) : plabel := if fa_ext a then fa_label a else eff_card a.
Definition pc_card (a : fattr) (is_map packed : bool) : N :=
  if is_map then 5
  else if is_repeated (pc_eff_card a) then (if packed then 4 else 3)
  else match pc_eff_card a with
       | LRequired => 2
       | _ => if has_presence a then 0 else 1
       end.
Definition pc_card_explicit (c : N) : bool := (c =? 0) || (c =? 2).
