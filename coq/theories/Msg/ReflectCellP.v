(* ReflectCellP — the concrete representations refine the protoreflect contract model (C28).

   Part 1: a message-level machine over representation cells ([cm_focus], Msg/ReflectCellModel.v)
   simulates the abstract model step by step through the abstraction function [cm_abs], for
   every operation at every path, given the CELL LAWS [celllaws] (what Set / Clear / Mutable /
   reads / writes through a composite do to the values the accessors read).
   Part 2: the dynamicpb cells and the opaque cells satisfy the cell laws. *)
From Coq Require Import List NArith ZArith Bool Lia.
From Coq Require Import ZifyBool ZifyNat ZifyN.
From PB Require Import Base.PBytes Wire.WireModel Msg.MsgSchema Msg.MsgValue Msg.ReflectModel Msg.ReflectP
  Msg.ReflectCellModel.
Import ListNotations.
Open Scope N_scope.

Lemma refl_get_eq : forall D tid fd fs,
  refl_get D tid fd fs = refl_get_of D tid fd (msg_fget fs (f_num fd)).
Proof. intros. unfold refl_get, refl_get_of. destruct (msg_fget fs (f_num fd)); reflexivity. Qed.

(* update of the abstract field list by the values of one cell *)
Definition upd (fs : fields) (n : N) (vs : list value) : fields :=
  match vs with [] => msg_fdel fs n | _ => msg_fset fs n vs end.

Lemma fset_lt_all : forall fs n vs lo,
  refl_keys_sorted (Some lo) fs = true -> n <= lo -> msg_fset fs n vs = (n, vs) :: fs.
Proof.
  destruct fs as [|[k x] r]; intros n vs lo Hs Hle; cbn [msg_fset]; auto.
  apply ks_cons in Hs. destruct Hs as [H1 _]. cbn in H1.
  destruct (N.ltb_spec n k); [auto|lia].
Qed.

Lemma fdel_lt_all : forall fs n lo,
  refl_keys_sorted (Some lo) fs = true -> n <= lo -> msg_fdel fs n = fs.
Proof.
  induction fs as [|[k x] r IH]; intros n lo Hs Hle; cbn [msg_fdel]; auto.
  apply ks_cons in Hs. destruct Hs as [H1 [_ H3]]. cbn in H1.
  destruct (N.eqb_spec n k); [lia|]. f_equal. eapply IH; eauto. lia.
Qed.

Lemma fget_lt_all : forall fs n lo,
  refl_keys_sorted (Some lo) fs = true -> n <= lo -> msg_fget fs n = [].
Proof.
  induction fs as [|[k x] r IH]; intros n lo Hs Hle; cbn [msg_fget]; auto.
  apply ks_cons in Hs. destruct Hs as [H1 [_ H3]]. cbn in H1.
  destruct (N.eqb_spec n k); [lia|]. eapply IH; eauto. lia.
Qed.

Lemma fset_same : forall fs lo n,
  refl_keys_sorted lo fs = true -> msg_fget fs n <> [] -> msg_fset fs n (msg_fget fs n) = fs.
Proof.
  induction fs as [|[k x] r IH]; intros lo n Hs Hne; cbn [msg_fget msg_fset] in *; [congruence|].
  apply ks_cons in Hs. destruct Hs as [H1 [H2 H3]].
  destruct (N.eqb_spec n k).
  - subst. rewrite N.ltb_irrefl. reflexivity.
  - destruct (N.ltb_spec n k).
    + exfalso. apply Hne. eapply fget_lt_all; eauto; lia.
    + f_equal. eapply IH; eauto.
Qed.

Lemma fdel_absent : forall fs lo n,
  refl_keys_sorted lo fs = true -> msg_fget fs n = [] -> msg_fdel fs n = fs.
Proof.
  induction fs as [|[k x] r IH]; intros lo n Hs He; cbn [msg_fget msg_fdel] in *; auto.
  apply ks_cons in Hs. destruct Hs as [H1 [H2 H3]].
  destruct (N.eqb_spec n k); [congruence|]. f_equal. eapply IH; eauto.
Qed.

Lemma upd_same : forall fs lo n,
  refl_keys_sorted lo fs = true -> upd fs n (msg_fget fs n) = fs.
Proof.
  intros. unfold upd. destruct (msg_fget fs n) eqn:E.
  - eapply fdel_absent; eauto.
  - rewrite <- E. eapply fset_same; eauto. rewrite E. discriminate.
Qed.

Section Generic.
  Variable cell : Type.
  Variable ops : cellops cell.
  Variable inv : fdesc -> cell -> Prop.

  Record celllaws : Prop := mkLaws {
    l_zero_inv : forall fd, inv fd (c_zero ops);
    l_zero : forall fd, c_vals ops fd (c_zero ops) = [];
    l_has : forall fd c, inv fd c -> c_has ops fd c = negb (refl_is_nil (c_vals ops fd c));
    l_set : forall fd vs c, refl_fd_ok fd = true -> inv fd c -> refl_set_shape fd vs = true ->
              c_vals ops fd (c_set ops fd vs c) = refl_norm fd vs /\ inv fd (c_set ops fd vs c);
    l_clear : forall fd c, inv fd c -> c_vals ops fd (c_clear ops fd c) = [] /\ inv fd (c_clear ops fd c);
    l_mutable : forall fd c, refl_fd_ok fd = true -> inv fd c ->
              c_vals ops fd (c_mutable ops fd c) =
                match c_vals ops fd c with [] => if refl_is_msg fd then [msg_empty] else [] | vs => vs end
              /\ inv fd (c_mutable ops fd c);
    l_touch : forall fd c, inv fd c ->
              c_vals ops fd (c_touch ops fd c) = c_vals ops fd c /\ inv fd (c_touch ops fd c);
    l_update_list : forall fd vs c, refl_fd_ok fd = true -> inv fd c -> refl_is_map fd || refl_is_list fd = true ->
              c_vals ops fd (c_update ops fd vs c) = vs /\ inv fd (c_update ops fd vs c);
    l_update_msg : forall fd (m : msg_macc) c, refl_fd_ok fd = true -> inv fd c -> refl_is_msg fd = true ->
              c_vals ops fd (c_update ops fd [refl_val_of m] c) = [refl_val_of m] /\
              inv fd (c_update ops fd [refl_val_of m] c)
  }.
  Hypothesis L : celllaws.

  Notation cells := (list (N * cell)).
  Notation absf := (cm_abs_fields cell ops).

  (* ---------- sorted cell lists ---------- *)
  Fixpoint cs_sorted (lo : option N) (cs : cells) : Prop :=
    match cs with
    | [] => True
    | (k, _) :: r => lo_lt lo k /\ cs_sorted (Some k) r
    end.

  Lemma cs_sorted_weaken : forall cs lo lo',
    (forall k, lo_lt lo k -> lo_lt lo' k) -> cs_sorted lo cs -> cs_sorted lo' cs.
  Proof. destruct cs as [|[k c] r]; cbn; intuition. Qed.

  Lemma cs_sorted_in : forall cs lo k c, cs_sorted lo cs -> In (k, c) cs -> lo_lt lo k.
  Proof.
    induction cs as [|[k0 c0] r IH]; intros lo k c Hs Hin; [destruct Hin|].
    cbn in Hs. destruct Hs as [H1 H2]. destruct Hin as [E|Hin].
    - inversion E; subst; auto.
    - pose proof (IH _ _ _ H2 Hin) as Hlt. cbn in Hlt. destruct lo; cbn in *; auto. lia.
  Qed.

  Lemma cs_put_sorted : forall cs lo n c, cs_sorted lo cs -> lo_lt lo n -> cs_sorted lo (cs_put cell cs n c).
  Proof.
    induction cs as [|[k0 c0] r IH]; intros lo n c Hs Hlo; cbn [cs_put].
    - cbn. auto.
    - cbn in Hs. destruct Hs as [H1 H2].
      destruct (N.ltb_spec n k0); [cbn; auto|].
      destruct (N.eqb_spec n k0); [cbn; auto|].
      cbn. split; auto. apply IH; auto. cbn. lia.
  Qed.

  Lemma cs_filter_sorted : forall (P : N * cell -> bool) cs lo, cs_sorted lo cs -> cs_sorted lo (filter P cs).
  Proof.
    induction cs as [|[k0 c0] r IH]; intros lo Hs; cbn [filter]; auto.
    cbn in Hs. destruct Hs as [H1 H2]. destruct (P (k0, c0)).
    - cbn. auto.
    - eapply cs_sorted_weaken; [|apply IH; exact H2]. intros k Hk. cbn in Hk. destruct lo; cbn in *; auto. lia.
  Qed.

  Lemma cs_get_put : forall cs n c m, cs_get cell ops (cs_put cell cs n c) m = if m =? n then c else cs_get cell ops cs m.
  Proof.
    induction cs as [|[k0 c0] r IH]; intros n c m; cbn [cs_put cs_get].
    - reflexivity.
    - destruct (N.ltb_spec n k0); [reflexivity|].
      destruct (N.eqb_spec n k0).
      + subst. cbn [cs_get]. destruct (N.eqb_spec m k0); reflexivity.
      + cbn [cs_get]. rewrite IH. destruct (N.eqb_spec m k0); auto.
        subst. destruct (N.eqb_spec k0 n); [congruence|reflexivity].
  Qed.

  Lemma cs_get_in : forall cs n, (exists c, In (n, c) cs /\ cs_get cell ops cs n = c) \/
                                 (cs_get cell ops cs n = c_zero ops /\ forall c, ~ In (n, c) cs).
  Proof.
    induction cs as [|[k0 c0] r IH]; intros n; cbn [cs_get].
    - right. split; auto.
    - destruct (N.eqb_spec n k0).
      + subst. left. exists c0. split; auto. left; auto.
      + destruct (IH n) as [[c [A B]]|[A B]].
        * left. exists c. split; auto. right; auto.
        * right. split; auto. intros c [E|Hin]; [inversion E; congruence|]. eapply B; eauto.
  Qed.

  Lemma in_cs_put : forall cs lo n c k x, cs_sorted lo cs ->
    In (k, x) (cs_put cell cs n c) -> (k = n /\ x = c) \/ (k <> n /\ In (k, x) cs).
  Proof.
    induction cs as [|[k0 c0] r IH]; intros lo n c k x Hs Hin; cbn [cs_put] in Hin.
    - destruct Hin as [E|[]]. inversion E; auto.
    - cbn in Hs. destruct Hs as [H1 H2].
      destruct (N.ltb_spec n k0).
      + destruct Hin as [E|[E|Hin]].
        * inversion E; auto.
        * inversion E; subst. right. split; [lia|left; auto].
        * right. pose proof (cs_sorted_in _ _ _ _ H2 Hin) as Hlt. cbn in Hlt. split; [lia|right; auto].
      + destruct (N.eqb_spec n k0).
        * subst. destruct Hin as [E|Hin]; [inversion E; auto|].
          right. pose proof (cs_sorted_in _ _ _ _ H2 Hin) as Hlt. cbn in Hlt. split; [lia|right; auto].
        * destruct Hin as [E|Hin].
          -- inversion E; subst. right. split; auto. left; auto.
          -- destruct (IH _ _ _ _ _ H2 Hin) as [A|[A B]]; auto. right. split; auto. right; auto.
  Qed.

  (* ---------- the abstraction of a cell list ---------- *)
  Variable md : mdesc.

  Lemma abs_entry_key : forall p q, In q (cm_abs_entry cell ops md p) -> fst q = fst p /\ snd q <> [].
  Proof.
    intros [k c] q Hin. unfold cm_abs_entry in Hin. cbn [fst snd] in *.
    destruct (msg_find_field md k); [|destruct Hin].
    destruct (c_vals ops f c) eqn:E; [destruct Hin|].
    destruct Hin as [<-|[]]. cbn. split; auto. discriminate.
  Qed.

  Lemma abs_sorted : forall cs lo, cs_sorted lo cs -> refl_keys_sorted lo (absf md cs) = true.
  Proof.
    induction cs as [|[k c] r IH]; intros lo Hs; cbn; auto.
    cbn in Hs. destruct Hs as [H1 H2]. specialize (IH _ H2).
    unfold cm_abs_entry. cbn [fst snd].
    destruct (msg_find_field md k).
    - destruct (c_vals ops f c) eqn:E; cbn [app].
      + eapply ks_weaken; [|exact IH]. intros k' Hk'. cbn in Hk'. destruct lo; cbn in *; auto. lia.
      + apply ks_cons. repeat split; auto. discriminate.
    - cbn [app]. eapply ks_weaken; [|exact IH]. intros k' Hk'. cbn in Hk'. destruct lo; cbn in *; auto. lia.
  Qed.

  Lemma abs_get : forall cs lo n fd, cs_sorted lo cs -> msg_find_field md n = Some fd ->
    msg_fget (absf md cs) n = c_vals ops fd (cs_get cell ops cs n).
  Proof.
    induction cs as [|[k c] r IH]; intros lo n fd Hs Hf; cbn [cm_abs_fields flat_map cs_get].
    - cbn. rewrite (l_zero L). reflexivity.
    - cbn in Hs. destruct Hs as [H1 H2]. fold (cm_abs_fields cell ops md r).
      pose proof (abs_sorted r _ H2) as Hsr.
      unfold cm_abs_entry. cbn [fst snd].
      destruct (N.eqb_spec n k).
      + subst k. rewrite Hf. destruct (c_vals ops fd c) eqn:E; cbn [app].
        * eapply fget_lt_all; eauto; lia.
        * cbn [msg_fget]. rewrite N.eqb_refl. reflexivity.
      + destruct (msg_find_field md k) as [fdk|].
        * destruct (c_vals ops fdk c); cbn [app]; [eapply IH; eauto|].
          cbn [msg_fget]. destruct (N.eqb_spec n k); [congruence|]. eapply IH; eauto.
        * cbn [app]. eapply IH; eauto.
  Qed.

  Lemma abs_put : forall cs lo n fd c', cs_sorted lo cs -> msg_find_field md n = Some fd ->
    absf md (cs_put cell cs n c') = upd (absf md cs) n (c_vals ops fd c').
  Proof.
    induction cs as [|[k c] r IH]; intros lo n fd c' Hs Hf; cbn [cs_put].
    - cbn. unfold cm_abs_entry. cbn [fst snd]. rewrite Hf. unfold upd.
      destruct (c_vals ops fd c'); reflexivity.
    - cbn in Hs. destruct Hs as [H1 H2].
      pose proof (abs_sorted r _ H2) as Hsr.
      assert (Hsc : refl_keys_sorted (Some k) (absf md ((k, c) :: r)) = true \/ True) by auto.
      destruct (N.ltb_spec n k).
      + (* inserted in front *)
        change (absf md ((n, c') :: (k, c) :: r)) with (cm_abs_entry cell ops md (n, c') ++ absf md ((k, c) :: r)).
        assert (Hall : refl_keys_sorted (Some n) (absf md ((k, c) :: r)) = true).
        { apply (abs_sorted ((k, c) :: r) (Some n)). cbn. auto. }
        unfold cm_abs_entry at 1. cbn [fst snd]. rewrite Hf. unfold upd.
        destruct (c_vals ops fd c') eqn:E; cbn [app].
        * symmetry. eapply fdel_lt_all; eauto; lia.
        * symmetry. eapply fset_lt_all; eauto; lia.
      + destruct (N.eqb_spec n k).
        * subst k. cbn [cm_abs_fields flat_map]. fold (cm_abs_fields cell ops md r).
          unfold cm_abs_entry. cbn [fst snd]. rewrite Hf. unfold upd.
          destruct (c_vals ops fd c') eqn:E; destruct (c_vals ops fd c) eqn:E0; cbn [app].
          -- symmetry. eapply fdel_lt_all; eauto; lia.
          -- cbn [msg_fdel]. rewrite N.eqb_refl. reflexivity.
          -- symmetry. eapply fset_lt_all; eauto; lia.
          -- cbn [msg_fset]. rewrite N.ltb_irrefl, N.eqb_refl. reflexivity.
        * cbn [cm_abs_fields flat_map]. fold (cm_abs_fields cell ops md r).
          fold (cm_abs_fields cell ops md (cs_put cell r n c')).
          rewrite (IH (Some k) n fd c' H2 Hf).
          unfold cm_abs_entry. cbn [fst snd].
          destruct (msg_find_field md k) as [fdk|]; [|reflexivity].
          destruct (c_vals ops fdk c); [reflexivity|]. cbn [app]. unfold upd.
          destruct (c_vals ops fd c'); cbn [msg_fdel msg_fset].
          -- destruct (N.eqb_spec n k); [congruence|reflexivity].
          -- destruct (N.ltb_spec n k); [lia|]. destruct (N.eqb_spec n k); [congruence|reflexivity].
  Qed.

  Lemma abs_put_same : forall cs lo n fd c', cs_sorted lo cs -> msg_find_field md n = Some fd ->
    c_vals ops fd c' = c_vals ops fd (cs_get cell ops cs n) ->
    absf md (cs_put cell cs n c') = absf md cs.
  Proof.
    intros cs lo n fd c' Hs Hf E. rewrite (abs_put cs lo n fd c' Hs Hf), E.
    rewrite <- (abs_get cs lo n fd Hs Hf). eapply upd_same. eapply abs_sorted; eauto.
  Qed.

  Lemma abs_clear_others : forall fd cs,
    absf md (cs_clear_others cell md fd cs) = refl_oneof_clear md fd (absf md cs).
  Proof.
    intros fd cs. unfold cs_clear_others, refl_oneof_clear. destruct (f_oneof fd) as [i|]; auto.
    induction cs as [|[k c] r IH]; cbn [filter cm_abs_fields flat_map]; auto.
    fold (cm_abs_fields cell ops md r). rewrite filter_app, <- IH. cbn [fst].
    destruct (negb (refl_in_oneof md i k) || (k =? f_num fd)) eqn:P.
    - cbn [cm_abs_fields flat_map]. f_equal.
      unfold cm_abs_entry. cbn [fst snd]. destruct (msg_find_field md k); auto.
      destruct (c_vals ops f c); auto. cbn [filter fst]. rewrite P. reflexivity.
    - unfold cm_abs_entry. cbn [fst snd]. destruct (msg_find_field md k); auto.
      destruct (c_vals ops f c); auto. cbn [filter fst]. rewrite P. reflexivity.
  Qed.

  (* ---------- the invariant of concrete messages ---------- *)
  Definition md_ok : Prop := NoDup (map f_num md) /\ forall fd, In fd md -> refl_fd_ok fd = true.
  Definition CInv (cs : cells) : Prop :=
    cs_sorted None cs /\ forall k c fd, In (k, c) cs -> msg_find_field md k = Some fd -> inv fd c.

  Lemma cinv_get : forall cs n fd, CInv cs -> msg_find_field md n = Some fd -> inv fd (cs_get cell ops cs n).
  Proof.
    intros cs n fd [_ Hi] Hf. destruct (cs_get_in cs n) as [[c [A B]]|[A _]].
    - rewrite B. eapply Hi; eauto.
    - rewrite A. apply (l_zero_inv L).
  Qed.

  Lemma cinv_put : forall cs n fd c', CInv cs -> msg_find_field md n = Some fd -> inv fd c' ->
    CInv (cs_put cell cs n c').
  Proof.
    intros cs n fd c' [Hs Hi] Hf Hc. split.
    - apply cs_put_sorted; cbn; auto.
    - intros k c fd' Hin Hf'. destruct (in_cs_put _ _ _ _ _ _ Hs Hin) as [[-> ->]|[_ Hin']].
      + rewrite Hf in Hf'. inversion Hf'; subst; auto.
      + eapply Hi; eauto.
  Qed.

  Lemma cinv_clear_others : forall cs fd, CInv cs -> CInv (cs_clear_others cell md fd cs).
  Proof.
    intros cs fd [Hs Hi]. unfold cs_clear_others. destruct (f_oneof fd); [|split; auto]. split.
    - apply cs_filter_sorted; auto.
    - intros k c fd' Hin Hf'. apply filter_In in Hin. destruct Hin as [Hin _]. eapply Hi; eauto.
  Qed.

  Lemma fd_ok_of_find : forall n fd, md_ok -> msg_find_field md n = Some fd -> refl_fd_ok fd = true.
  Proof. intros n fd [_ H] Hf. apply H. eapply find_some_in; eauto. Qed.

  Lemma refl_has_eq : forall fs n, refl_has fs n = negb (refl_is_nil (msg_fget fs n)).
  Proof. intros. unfold refl_has. destruct (msg_fget fs n); reflexivity. Qed.

  Lemma has_abs : forall cs n fd, CInv cs -> msg_find_field md n = Some fd ->
    c_has ops fd (cs_get cell ops cs n) = refl_has (absf md cs) n.
  Proof.
    intros cs n fd Hc Hf. rewrite (l_has L) by (eapply cinv_get; eauto).
    rewrite refl_has_eq. destruct Hc as [Hs _]. rewrite (abs_get cs None n fd Hs Hf). reflexivity.
  Qed.

  Lemma range_abs : forall cs, CInv cs -> cm_range cell ops md cs = absf md cs.
  Proof.
    intros cs [_ Hi]. induction cs as [|[k c] r IH]; cbn [cm_range cm_abs_fields flat_map]; auto.
    fold (cm_range cell ops md r). fold (cm_abs_fields cell ops md r).
    rewrite IH by (intros; eapply Hi; eauto; right; eauto). f_equal.
    unfold cm_abs_entry. cbn [fst snd]. destruct (msg_find_field md k) as [fd|] eqn:Hf; auto.
    rewrite (l_has L) by (eapply Hi; eauto; left; auto).
    destruct (c_vals ops fd c); reflexivity.
  Qed.

  Lemma which_abs : forall cs o, md_ok -> CInv cs ->
    forall md', (forall fd, In fd md' -> In fd md) ->
    cm_which cell ops md' o cs = refl_which md' o (absf md cs).
  Proof.
    intros cs o [Hnd _] Hc. induction md' as [|fd r IH]; intros Hsub; cbn [cm_which refl_which]; auto.
    assert (Hf : msg_find_field md (f_num fd) = Some fd) by (apply find_in; auto; apply Hsub; left; auto).
    rewrite (has_abs cs (f_num fd) fd Hc Hf). rewrite IH by (intros; apply Hsub; right; auto). reflexivity.
  Qed.

  Lemma oneof_none_of_list : forall fd, refl_fd_ok fd = true -> refl_is_map fd || refl_is_list fd = true ->
    f_oneof fd = None.
  Proof.
    intros fd Hok Hl. unfold refl_fd_ok in Hok. destruct (f_oneof fd); auto.
    rewrite Hl in Hok. cbn in Hok. discriminate.
  Qed.

  Lemma oneof_clear_none : forall fd fs, f_oneof fd = None -> refl_oneof_clear md fd fs = fs.
  Proof. intros. unfold refl_oneof_clear. rewrite H. reflexivity. Qed.

  Lemma store_eq_upd : forall fd fs vs, f_oneof fd = None -> refl_store md fd fs vs = upd fs (f_num fd) vs.
  Proof. intros. unfold refl_store, upd. rewrite oneof_clear_none; auto. Qed.

  Lemma set_eq : forall fd fs vs, refl_fd_ok fd = true -> refl_set_shape fd vs = true ->
    refl_set md fd fs vs = upd (refl_oneof_clear md fd fs) (f_num fd) (refl_norm fd vs).
  Proof.
    intros fd fs vs Hok Hsh. unfold refl_set, refl_norm.
    assert (Hnil : vs = [] -> refl_oneof_clear md fd fs = fs).
    { intros ->. apply oneof_clear_none. apply oneof_none_of_list; auto.
      unfold refl_set_shape in Hsh. rewrite orb_false_r in Hsh. auto. }
    destruct (f_card fd) eqn:Hc;
      try (unfold refl_store, upd; destruct vs; [rewrite Hnil; auto|reflexivity]).
    (* implicit presence: not a oneof member *)
    assert (Hn : f_oneof fd = None).
    { unfold refl_fd_ok in Hok. rewrite Hc in Hok. destruct (f_oneof fd); auto.
      rewrite andb_false_r in Hok. discriminate. }
    rewrite (oneof_clear_none fd fs Hn).
    destruct vs as [|[s| |] [|]]; try (apply store_eq_upd; auto).
    destruct (msg_scalar_is_zero s); [reflexivity|apply store_eq_upd; auto].
  Qed.

  (* ---------- one operation ---------- *)
  Variable S : schema.
  Variable D : rdefs.

  Notation cabs := (cm_abs cell ops md).

  Lemma cm_step_sim : forall tid op st st' out,
    md = nth tid S [] -> md_ok -> CInv (cm_cells st) ->
    cm_step cell ops S D tid op st = (st', out) ->
    refl_step S D tid false op (cabs st) = (cabs st', out) /\ CInv (cm_cells st').
  Proof.
    intros tid op [cs unk] st' out Hmd Hok Hc E. cbn [cm_cells] in Hc.
    unfold cm_step in E. unfold refl_step, cm_abs. cbn [cm_cells cm_unk] in *. rewrite <- Hmd in *.
    destruct (refl_op_wf S md op) eqn:Hop; cbn [negb] in *; [|inversion E; subst; auto].
    pose proof Hc as [Hs Hi].
    destruct op; cbn beta iota zeta in *;
      try (destruct (msg_find_field md f) as [fd|] eqn:Hf; [|inversion E; subst; auto];
           pose proof (find_field_num _ _ _ Hf) as Hn;
           pose proof (fd_ok_of_find _ _ Hok Hf) as Hfdok;
           pose proof (cinv_get cs f fd Hc Hf) as Hcell; subst f).
    - (* Has *)
      destruct (l_touch L fd _ Hcell) as [Tv Ti]. inversion E; subst st' out. cbn [cm_cells cm_unk]. split.
      + rewrite (abs_put_same cs None (f_num fd) fd _ Hs Hf Tv).
        rewrite (l_has L) by auto. rewrite Tv, refl_has_eq, (abs_get cs None (f_num fd) fd Hs Hf). reflexivity.
      + eapply cinv_put; eauto.
    - (* Get *)
      destruct (l_touch L fd _ Hcell) as [Tv Ti]. inversion E; subst st' out. cbn [cm_cells cm_unk]. split.
      + rewrite (abs_put_same cs None (f_num fd) fd _ Hs Hf Tv). f_equal.
        rewrite refl_get_eq, (abs_get cs None (f_num fd) fd Hs Hf).
        rewrite (l_has L) by auto. rewrite Tv. unfold refl_get_of.
        destruct (c_vals ops fd (cs_get cell ops cs (f_num fd))); reflexivity.
      + eapply cinv_put; eauto.
    - (* Set *)
      cbn in Hop. rewrite Hf in Hop. apply andb_true_iff in Hop. destruct Hop as [_ Hsh].
      destruct (l_set L fd vs _ Hfdok Hcell Hsh) as [Sv Si]. inversion E; subst st' out. cbn [cm_cells cm_unk].
      pose proof (cinv_clear_others cs fd Hc) as [Hs' Hi']. split.
      + rewrite (abs_put _ None (f_num fd) fd _ Hs' Hf), Sv, abs_clear_others. f_equal. f_equal.
        rewrite set_eq; auto.
      + eapply cinv_put; eauto. split; auto.
    - (* Clear *)
      destruct (l_clear L fd _ Hcell) as [Cv Ci]. inversion E; subst st' out. cbn [cm_cells cm_unk]. split.
      + rewrite (abs_put _ None (f_num fd) fd _ Hs Hf), Cv. reflexivity.
      + eapply cinv_put; eauto.
    - (* Mutable *)
      destruct (l_mutable L fd _ Hfdok Hcell) as [Mv Mi].
      destruct (refl_is_map fd || refl_is_list fd) eqn:Hl.
      + assert (Hm : refl_is_msg fd = false).
        { unfold refl_is_msg. apply orb_true_iff in Hl. destruct Hl as [->| ->]; cbn;
            rewrite ?andb_false_r; auto. }
        rewrite Hm in Mv.
        assert (Mv' : c_vals ops fd (c_mutable ops fd (cs_get cell ops cs (f_num fd))) = c_vals ops fd (cs_get cell ops cs (f_num fd)))
          by (rewrite Mv; destruct (c_vals ops fd (cs_get cell ops cs (f_num fd))); auto).
        inversion E; subst st' out. cbn [cm_cells cm_unk]. split.
        * rewrite (abs_put_same cs None (f_num fd) fd _ Hs Hf Mv'), Mv', (abs_get cs None (f_num fd) fd Hs Hf). reflexivity.
        * eapply cinv_put; eauto.
      + destruct (refl_kind_is_msg (f_kind fd)) eqn:Hk; [|inversion E; subst; auto].
        assert (Hm : refl_is_msg fd = true).
        { unfold refl_is_msg. apply orb_false_iff in Hl. destruct Hl as [-> ->]. rewrite Hk. reflexivity. }
        rewrite Hm in Mv. rewrite (abs_get cs None (f_num fd) fd Hs Hf).
        rewrite (l_has L) in E by auto.
        destruct (c_vals ops fd (cs_get cell ops cs (f_num fd))) as [|v0 vr] eqn:Ev; cbn [refl_is_nil negb] in E.
        * inversion E; subst st' out. cbn [cm_cells cm_unk].
          pose proof (cinv_clear_others cs fd Hc) as [Hs' Hi']. split.
          -- rewrite (abs_put _ None (f_num fd) fd _ Hs' Hf), Mv, abs_clear_others. unfold upd, refl_store.
             reflexivity.
          -- eapply cinv_put; eauto. split; auto.
        * inversion E; subst st' out. cbn [cm_cells cm_unk]. split.
          -- rewrite (abs_put_same cs None (f_num fd) fd _ Hs Hf) by (rewrite Mv, Ev; auto). rewrite Mv. reflexivity.
          -- eapply cinv_put; eauto.
    - (* NewField *) inversion E; subst; auto.
    - (* Which *) inversion E; subst. split; auto. rewrite (which_abs cs o Hok Hc md); auto.
    - (* Range *) inversion E; subst. split; auto. rewrite range_abs; auto.
    - (* GetUnknown *) inversion E; subst; auto.
    - (* SetUnknown *) inversion E; subst; auto.
    - (* list operations *)
      destruct (refl_is_list fd) eqn:Hl; cbn [negb] in *; [|inversion E; subst; auto].
      assert (Hml : refl_is_map fd || refl_is_list fd = true) by (rewrite Hl; apply orb_true_r).
      assert (Hm : refl_is_msg fd = false) by (unfold refl_is_msg; rewrite Hl; cbn; apply andb_false_r).
      pose proof (oneof_none_of_list fd Hfdok Hml) as Hno.
      set (c := cs_get cell ops cs (f_num fd)) in *.
      set (c1 := if viaget then c_touch ops fd c else c_mutable ops fd c) in *.
      assert (H1 : c_vals ops fd c1 = c_vals ops fd c /\ inv fd c1).
      { subst c1. destruct viaget.
        - apply (l_touch L); auto.
        - destruct (l_mutable L fd c Hfdok Hcell) as [Mv Mi]. split; auto.
          rewrite Mv, Hm. destruct (c_vals ops fd c); auto. }
      destruct H1 as [V1 I1].
      rewrite (l_has L) in E by auto. rewrite V1 in E.
      rewrite andb_false_l. rewrite refl_has_eq, (abs_get cs None (f_num fd) fd Hs Hf). fold c.
      unfold refl_list_op. rewrite (abs_get cs None (f_num fd) fd Hs Hf). fold c.
      destruct (refl_list_edit D tid fd (viaget && negb (negb (refl_is_nil (c_vals ops fd c)))) o (c_vals ops fd c))
        as [[vs'|] o'] eqn:Ee; inversion E; subst st' out; cbn [cm_cells cm_unk].
      + destruct (l_update_list L fd vs' c1 Hfdok I1 Hml) as [Uv Ui]. split.
        * rewrite (abs_put _ None (f_num fd) fd _ Hs Hf), Uv, store_eq_upd; auto.
        * eapply cinv_put; eauto.
      + split.
        * rewrite (abs_put_same cs None (f_num fd) fd _ Hs Hf V1). reflexivity.
        * eapply cinv_put; eauto.
    - (* map operations *)
      destruct (refl_is_map fd) eqn:Hl; cbn [negb] in *; [|inversion E; subst; auto].
      assert (Hml : refl_is_map fd || refl_is_list fd = true) by (rewrite Hl; reflexivity).
      assert (Hm : refl_is_msg fd = false)
        by (unfold refl_is_msg; rewrite Hl; destruct (refl_kind_is_msg (f_kind fd)), (refl_is_list fd); reflexivity).
      pose proof (oneof_none_of_list fd Hfdok Hml) as Hno.
      set (c := cs_get cell ops cs (f_num fd)) in *.
      set (c1 := if viaget then c_touch ops fd c else c_mutable ops fd c) in *.
      assert (H1 : c_vals ops fd c1 = c_vals ops fd c /\ inv fd c1).
      { subst c1. destruct viaget.
        - apply (l_touch L); auto.
        - destruct (l_mutable L fd c Hfdok Hcell) as [Mv Mi]. split; auto.
          rewrite Mv, Hm. destruct (c_vals ops fd c); auto. }
      destruct H1 as [V1 I1].
      rewrite (l_has L) in E by auto. rewrite V1 in E.
      rewrite andb_false_l. rewrite refl_has_eq, (abs_get cs None (f_num fd) fd Hs Hf). fold c.
      unfold refl_map_op. rewrite (abs_get cs None (f_num fd) fd Hs Hf). fold c.
      destruct (refl_map_edit fd (viaget && negb (negb (refl_is_nil (c_vals ops fd c)))) o (c_vals ops fd c))
        as [[vs'|] o'] eqn:Ee; inversion E; subst st' out; cbn [cm_cells cm_unk].
      + destruct (l_update_list L fd vs' c1 Hfdok I1 Hml) as [Uv Ui]. split.
        * rewrite (abs_put _ None (f_num fd) fd _ Hs Hf), Uv, store_eq_upd; auto.
        * eapply cinv_put; eauto.
      + split.
        * rewrite (abs_put_same cs None (f_num fd) fd _ Hs Hf V1). reflexivity.
        * eapply cinv_put; eauto.
  Qed.

  (* ---------- navigation: the first step is concrete, the rest abstract ---------- *)
  Lemma hd_vals : forall (vs : list value), vs <> [] -> exists v r, vs = v :: r /\ hd msg_empty vs = v.
  Proof. destruct vs; intros; [congruence|]. eauto. Qed.

  Lemma cm_focus_sim : forall w path tid op st st' out,
    md = nth tid S [] -> md_ok -> CInv (cm_cells st) ->
    cm_focus cell ops S D w path tid op st = (st', out) ->
    refl_focus S D w path tid false op (cabs st) = (cabs st', out) /\ CInv (cm_cells st').
  Proof.
    intros w path tid op st st' out Hmd Hok Hc E.
    destruct path as [|stp rest]; [eapply cm_step_sim; eauto|].
    destruct st as [cs unk]. cbn [cm_cells] in Hc. pose proof Hc as [Hs Hi].
    cbn [cm_focus] in E. cbn [refl_focus]. unfold cm_abs at 1. cbn [cm_cells cm_unk] in *.
    cbv zeta in *. rewrite <- Hmd in *.
    destruct (msg_find_field md match stp with PF f => f | PL f _ => f | PM f _ => f end) as [fd|] eqn:Hf;
      [|inversion E; subst; auto].
    pose proof (fd_ok_of_find _ _ Hok Hf) as Hfdok.
    destruct stp as [f|f i|f k].
    - (* PF *)
      pose proof (cinv_get cs f fd Hc Hf) as Hcell.
      destruct (refl_is_msg fd) eqn:Hm; cbn [negb] in *; [|inversion E; subst; auto].
      rewrite (abs_get cs None f fd Hs Hf).
      destruct w.
      + destruct (l_mutable L fd _ Hfdok Hcell) as [Mv Mi]. rewrite Hm in Mv.
        rewrite (l_has L) in E by auto. rewrite Mv in E.
        destruct (c_vals ops fd (cs_get cell ops cs f)) as [|v0 vr] eqn:Ev; cbn [refl_is_nil negb hd] in E.
        * cbn [andb]. cbn [msg_macc_of msg_empty] in E.
          destruct (refl_focus S D true rest (refl_kind_tid (f_kind fd)) false op ([], [])) as [sub' o'] eqn:Es.
          inversion E; subst st' out. cbn [cm_cells cm_unk].
          destruct (l_update_msg L fd sub' _ Hfdok Mi Hm) as [Uv Ui].
          pose proof (cinv_clear_others cs fd Hc) as [Hs' Hi']. split.
          -- unfold cm_abs. cbn [cm_cells cm_unk].
             rewrite (abs_put _ None f fd _ Hs' Hf), Uv, abs_clear_others. unfold upd, refl_store.
             rewrite (find_field_num _ _ _ Hf). reflexivity.
          -- eapply cinv_put; eauto. split; auto.
        * destruct (refl_focus S D true rest (refl_kind_tid (f_kind fd)) false op (msg_macc_of v0)) as [sub' o'] eqn:Es.
          inversion E; subst st' out. cbn [cm_cells cm_unk].
          destruct (l_update_msg L fd sub' _ Hfdok Mi Hm) as [Uv Ui]. split.
          -- unfold cm_abs. cbn [cm_cells cm_unk].
             rewrite (abs_put _ None f fd _ Hs Hf), Uv. reflexivity.
          -- eapply cinv_put; eauto.
      + destruct (l_touch L fd _ Hcell) as [Tv Ti].
        rewrite (l_has L) in E by auto. rewrite Tv in E.
        destruct (c_vals ops fd (cs_get cell ops cs f)) as [|v0 vr] eqn:Ev; cbn [refl_is_nil negb hd] in E.
        * rewrite andb_false_r.
          destruct (refl_focus S D false rest (refl_kind_tid (f_kind fd)) true op ([], [])) as [sub' o'] eqn:Es.
          inversion E; subst st' out. cbn [cm_cells cm_unk]. split.
          -- unfold cm_abs. cbn [cm_cells cm_unk].
             rewrite (abs_put_same cs None f fd _ Hs Hf) by (rewrite Tv; auto). reflexivity.
          -- eapply cinv_put; eauto.
        * destruct (refl_focus S D false rest (refl_kind_tid (f_kind fd)) false op (msg_macc_of v0)) as [sub' o'] eqn:Es.
          inversion E; subst st' out. cbn [cm_cells cm_unk].
          destruct (l_update_msg L fd sub' _ Hfdok Ti Hm) as [Uv Ui]. split.
          -- unfold cm_abs. cbn [cm_cells cm_unk].
             rewrite (abs_put _ None f fd _ Hs Hf), Uv. reflexivity.
          -- eapply cinv_put; eauto.
    - (* PL *)
      pose proof (cinv_get cs f fd Hc Hf) as Hcell.
      rewrite andb_false_l.
      destruct (refl_is_list fd) eqn:Hl; cbn [negb] in *; [|inversion E; subst; auto].
      destruct (refl_kind_is_msg (f_kind fd)) eqn:Hk; cbn [negb] in *; [|inversion E; subst; auto].
      assert (Hml : refl_is_map fd || refl_is_list fd = true) by (rewrite Hl; apply orb_true_r).
      assert (Hm : refl_is_msg fd = false) by (unfold refl_is_msg; rewrite Hl; cbn; apply andb_false_r).
      rewrite (abs_get cs None f fd Hs Hf).
      set (c := cs_get cell ops cs f) in *.
      set (c1 := if w then c_mutable ops fd c else c_touch ops fd c) in *.
      assert (H1 : c_vals ops fd c1 = c_vals ops fd c /\ inv fd c1).
      { subst c1. destruct w.
        - destruct (l_mutable L fd c Hfdok Hcell) as [Mv Mi]. split; auto.
          rewrite Mv, Hm. destruct (c_vals ops fd c); auto.
        - apply (l_touch L); auto. }
      destruct H1 as [V1 I1]. rewrite V1 in E.
      destruct (nth_error (c_vals ops fd c) (N.to_nat i)) as [sub|] eqn:En.
      + destruct (refl_focus S D w rest (refl_kind_tid (f_kind fd)) false op (msg_macc_of sub)) as [sub' o'] eqn:Es.
        inversion E; subst st' out. cbn [cm_cells cm_unk].
        assert (Hne : refl_replace_nth (c_vals ops fd c) (N.to_nat i) (refl_val_of sub') <> []).
        { apply replace_nth_nonnil. intros Z. rewrite Z in En. destruct (N.to_nat i); discriminate. }
        destruct (l_update_list L fd (refl_replace_nth (c_vals ops fd c) (N.to_nat i) (refl_val_of sub')) c1 Hfdok I1 Hml) as [Uv Ui].
        split.
        * unfold cm_abs. cbn [cm_cells cm_unk]. rewrite (abs_put _ None f fd _ Hs Hf), Uv. unfold upd.
          destruct (refl_replace_nth (c_vals ops fd c) (N.to_nat i) (refl_val_of sub')); [congruence|reflexivity].
        * eapply cinv_put; eauto.
      + inversion E; subst st' out. cbn [cm_cells cm_unk]. split.
        * unfold cm_abs. cbn [cm_cells cm_unk].
          rewrite (abs_put_same cs None f fd _ Hs Hf V1). reflexivity.
        * eapply cinv_put; eauto.
    - (* PM *)
      pose proof (cinv_get cs f fd Hc Hf) as Hcell.
      rewrite andb_false_l.
      destruct (refl_is_map fd) eqn:Hl; cbn [negb] in *; [|inversion E; subst; auto].
      destruct (refl_kind_is_msg (f_kind fd)) eqn:Hk; cbn [negb] in *; [|inversion E; subst; auto].
      assert (Hml : refl_is_map fd || refl_is_list fd = true) by (rewrite Hl; reflexivity).
      assert (Hm : refl_is_msg fd = false)
        by (unfold refl_is_msg; rewrite Hl; destruct (refl_kind_is_msg (f_kind fd)), (refl_is_list fd); reflexivity).
      rewrite (abs_get cs None f fd Hs Hf).
      set (c := cs_get cell ops cs f) in *.
      set (c1 := if w then c_mutable ops fd c else c_touch ops fd c) in *.
      assert (H1 : c_vals ops fd c1 = c_vals ops fd c /\ inv fd c1).
      { subst c1. destruct w.
        - destruct (l_mutable L fd c Hfdok Hcell) as [Mv Mi]. split; auto.
          rewrite Mv, Hm. destruct (c_vals ops fd c); auto.
        - apply (l_touch L); auto. }
      destruct H1 as [V1 I1]. rewrite V1 in E.
      destruct (refl_map_get (c_vals ops fd c) k) as [sub|] eqn:En.
      + destruct (refl_focus S D w rest (refl_kind_tid (f_kind fd)) false op (msg_macc_of sub)) as [sub' o'] eqn:Es.
        inversion E; subst st' out. cbn [cm_cells cm_unk].
        assert (Hne : refl_map_replace (c_vals ops fd c) k (refl_val_of sub') <> []).
        { apply map_replace_nonnil. intros Z. rewrite Z in En. discriminate. }
        destruct (l_update_list L fd (refl_map_replace (c_vals ops fd c) k (refl_val_of sub')) c1 Hfdok I1 Hml) as [Uv Ui].
        split.
        * unfold cm_abs. cbn [cm_cells cm_unk]. rewrite (abs_put _ None f fd _ Hs Hf), Uv. unfold upd.
          destruct (refl_map_replace (c_vals ops fd c) k (refl_val_of sub')); [congruence|reflexivity].
        * eapply cinv_put; eauto.
      + inversion E; subst st' out. cbn [cm_cells cm_unk]. split.
        * unfold cm_abs. cbn [cm_cells cm_unk].
          rewrite (abs_put_same cs None f fd _ Hs Hf V1). reflexivity.
        * eapply cinv_put; eauto.
  Qed.

  (* ---------- histories ---------- *)
  Theorem cm_run_refines : forall steps st,
    md = nth O S [] -> md_ok -> CInv (cm_cells st) ->
    refl_val_of (cabs (fst (cm_run cell ops S D st steps))) =
      fst (refl_run S D (refl_val_of (cabs st)) steps) /\
    snd (cm_run cell ops S D st steps) = map fst (snd (refl_run S D (refl_val_of (cabs st)) steps)) /\
    CInv (cm_cells (fst (cm_run cell ops S D st steps))).
  Proof.
    induction steps as [|s r IH]; intros st Hmd Hok Hc; cbn [cm_run refl_run].
    - cbn. auto.
    - destruct (cm_focus cell ops S D (rs_w s) (rs_path s) O (rs_op s) st) as [st1 out] eqn:E.
      destruct (cm_focus_sim _ _ _ _ _ _ _ Hmd Hok Hc E) as [Hsim Hc1].
      unfold refl_apply.
      replace (msg_macc_of (refl_val_of (cabs st))) with (cabs st) by (destruct (cabs st); reflexivity).
      rewrite Hsim. destruct (IH st1 Hmd Hok Hc1) as [A [B C]].
      destruct (cm_run cell ops S D st1 r) as [st2 outs]. cbn [fst snd] in *.
      destruct (refl_run S D (refl_val_of (cabs st1)) r) as [m2 outs'] eqn:Er. cbn [fst snd] in *.
      split; [auto|]. split; [cbn; f_equal; auto|exact C].
  Qed.
End Generic.

(* ================================================================ Part 2: dynamicpb cells *)
(* invariant of a dynamicpb cell: an extension registered in [ext] has an entry in [known]; a
   singular field holds a singular value *)
Definition dyn_inv (fd : fdesc) (c : dyncell) : Prop :=
  (f_ext fd = true -> dc_ext c = true -> dc_known c <> None) /\
  (refl_is_map fd || refl_is_list fd = false ->
     match dc_known c with Some (DList _) | Some (DMap _) => False | _ => True end) /\
  (refl_is_msg fd = true -> match dc_known c with Some (DOne (VS _)) => False | _ => True end).

Lemma is_msg_not_list : forall fd, refl_is_msg fd = true -> refl_is_map fd = false /\ refl_is_list fd = false /\ refl_kind_is_msg (f_kind fd) = true.
Proof.
  intros fd H. unfold refl_is_msg in H. apply andb_true_iff in H. destruct H as [H H2].
  apply andb_true_iff in H. destruct H as [H0 H1].
  apply negb_true_iff in H1. apply negb_true_iff in H2. auto.
Qed.

Lemma fd_ok_ext_card : forall fd, refl_fd_ok fd = true -> f_ext fd = true ->
  f_oneof fd = None /\ f_card fd <> CImp /\ refl_is_map fd = false.
Proof.
  intros fd H He. unfold refl_fd_ok in H. rewrite He in H. apply andb_true_iff in H. destruct H as [H1 H2].
  cbn in H2. repeat split.
  - destruct (f_oneof fd); auto. rewrite andb_false_r in H1. cbn in H1. discriminate.
  - intros Z. rewrite Z in H2. discriminate.
  - unfold refl_is_map. destruct (f_card fd); auto; discriminate.
Qed.

Lemma fd_ok_oneof_card : forall fd i, refl_fd_ok fd = true -> f_oneof fd = Some i ->
  f_card fd <> CImp /\ refl_is_map fd || refl_is_list fd = false /\ f_ext fd = false.
Proof.
  intros fd i H Ho. unfold refl_fd_ok in H. rewrite Ho in H. apply andb_true_iff in H. destruct H as [H1 _].
  apply andb_true_iff in H1. destruct H1 as [H1 H3]. apply andb_true_iff in H1. destruct H1 as [H1 H2].
  apply negb_true_iff in H1. apply negb_true_iff in H2. repeat split; auto.
  intros Z. rewrite Z in H3. discriminate.
Qed.

Lemma dyn_isset_singular : forall fd v,
  refl_fd_ok fd = true -> refl_is_map fd || refl_is_list fd = false ->
  dyn_isset fd (DOne v) =
    match f_card fd, v with CImp, VS s => negb (msg_scalar_is_zero s) | _, _ => true end.
Proof.
  intros fd v Hok Hl. apply orb_false_iff in Hl. destruct Hl as [Hm Hl].
  unfold dyn_isset. rewrite Hm, Hl.
  destruct (f_oneof fd) as [i|] eqn:Ho.
  - destruct (fd_ok_oneof_card fd i Hok Ho) as [Hc _]. destruct (f_card fd); try reflexivity; congruence.
  - destruct (f_card fd) eqn:Hc; try reflexivity.
    destruct (f_ext fd) eqn:He.
    + destruct (fd_ok_ext_card fd Hok He) as [_ [Hc' _]]. congruence.
    + destruct v; reflexivity.
Qed.

Lemma card_of_list : forall fd, refl_is_map fd || refl_is_list fd = true -> f_card fd <> CImp.
Proof.
  intros fd H Z. unfold refl_is_map, refl_is_list in H. rewrite Z in H. discriminate.
Qed.

Theorem dyn_laws : celllaws dyncell dyn_ops dyn_inv.
Proof.
  constructor; cbn [c_zero c_vals c_has c_set c_clear c_mutable c_touch c_update dyn_ops].
  - (* zero inv *) intros fd. repeat split; cbn; auto. intros; discriminate.
  - (* zero *) intros fd. unfold dyn_vals, dyn_has. cbn. destruct (f_ext fd && true); reflexivity.
  - (* has *)
    intros fd c [_ [Hsh _]]. unfold dyn_vals. destruct (dyn_has fd c) eqn:Hh; [|reflexivity].
    unfold dyn_has in Hh. destruct (f_ext fd && negb (dc_ext c)); [discriminate|].
    destruct (dc_known c) as [k|]; [|discriminate].
    unfold dyn_isset in Hh.
    destruct (refl_is_map fd) eqn:Hm; [destruct (dcell_vals k); [discriminate|reflexivity]|].
    destruct (refl_is_list fd) eqn:Hl; [destruct (dcell_vals k); [discriminate|reflexivity]|].
    specialize (Hsh eq_refl). destruct k; try contradiction. reflexivity.
  - (* set *)
    intros fd vs c Hok [Hx [Hsh Hty]] Hshape. unfold dyn_set. split.
    + unfold dyn_vals, dyn_has. cbn [dc_known dc_ext].
      replace (f_ext fd && negb (f_ext fd || dc_ext c)) with false by (destruct (f_ext fd), (dc_ext c); reflexivity).
      unfold dyn_cell_of, refl_norm.
      destruct (refl_is_map fd || refl_is_list fd) eqn:Hl.
      * pose proof (card_of_list fd Hl) as Hc.
        assert (Hn : match f_card fd, vs with CImp, [VS s] => if msg_scalar_is_zero s then [] else vs | _, _ => vs end = vs)
          by (destruct (f_card fd); try reflexivity; congruence).
        rewrite Hn. unfold dyn_isset.
        destruct (refl_is_map fd); [cbn; destruct vs; reflexivity|].
        cbn in Hl. rewrite Hl. cbn. destruct vs; reflexivity.
      * pose proof Hl as Hl'. apply orb_false_iff in Hl'. destruct Hl' as [Hm Hli]. rewrite Hm, Hli.
        unfold refl_set_shape in Hshape. rewrite Hl in Hshape. cbn [orb] in Hshape.
        destruct vs as [|v [|]]; try discriminate. cbn [hd].
        rewrite (dyn_isset_singular fd v Hok Hl). cbn [dcell_vals].
        destruct (f_card fd); try reflexivity. destruct v; try reflexivity.
        destruct (msg_scalar_is_zero s); reflexivity.
    + repeat split; cbn [dc_known dc_ext]; [intros; discriminate| |].
      * intros Hl. unfold dyn_cell_of. apply orb_false_iff in Hl. destruct Hl as [-> ->]. auto.
      * intros Hm. destruct (is_msg_not_list fd Hm) as [Hmap [Hlist Hk]]. unfold dyn_cell_of. rewrite Hmap, Hlist.
        unfold refl_set_shape in Hshape. rewrite Hmap, Hlist in Hshape. cbn [orb] in Hshape.
        destruct vs as [|v [|]]; try discriminate. cbn [hd].
        destruct (f_kind fd); [discriminate| |]; destruct v; auto; discriminate.
  - (* clear *)
    intros fd c _. unfold dyn_clear. split.
    + unfold dyn_vals, dyn_has. cbn. destruct (f_ext fd && true); reflexivity.
    + repeat split; cbn; auto. intros; discriminate.
  - (* mutable *)
    intros fd c Hok [Hx [Hsh Hty]]. unfold dyn_mutable.
    assert (Hinv : dyn_inv fd c) by (repeat split; auto).
    destruct (refl_is_map fd || refl_is_list fd || refl_is_msg fd) eqn:Hcomp; cbn [negb].
    2:{ split; [|exact Hinv]. apply orb_false_iff in Hcomp. destruct Hcomp as [_ Hm]. rewrite Hm.
        destruct (dyn_vals fd c); reflexivity. }
    assert (Hnew : forall x, dyn_vals fd (mkDC (Some (dyn_new fd)) x) =
                   if f_ext fd && negb x then [] else if refl_is_msg fd then [msg_empty] else []).
    { intros x. unfold dyn_vals, dyn_has. cbn [dc_known dc_ext].
      destruct (f_ext fd && negb x); [reflexivity|].
      unfold dyn_new, dyn_cell_of. destruct (refl_is_msg fd) eqn:Hm.
      - destruct (is_msg_not_list fd Hm) as [Hmap [Hlist _]]. rewrite Hmap, Hlist. cbn [hd].
        rewrite dyn_isset_singular by (auto; rewrite Hmap, Hlist; reflexivity).
        destruct (f_card fd); reflexivity.
      - rewrite orb_false_r in Hcomp.
        unfold dyn_isset. destruct (refl_is_map fd); [reflexivity|]. cbn in Hcomp. rewrite Hcomp. reflexivity. }
    destruct (f_ext fd) eqn:He.
    + destruct (dc_ext c) eqn:Hx'.
      * split; [|exact Hinv].
        (* registered extension: the entry exists; a message entry is populated *)
        destruct (dyn_vals fd c) eqn:Ev; [|reflexivity].
        destruct (refl_is_msg fd) eqn:Hm; [|reflexivity]. exfalso.
        destruct (is_msg_not_list fd Hm) as [Hmap [Hlist _]].
        specialize (Hx eq_refl eq_refl). unfold dyn_vals, dyn_has in Ev. rewrite ?He, ?Hx' in Ev. cbn in Ev.
        destruct (dc_known c) as [k|] eqn:Ek; [|congruence].
        assert (Hl : refl_is_map fd || refl_is_list fd = false) by (rewrite Hmap, Hlist; reflexivity).
        specialize (Hsh Hl). destruct k; try contradiction.
        rewrite (dyn_isset_singular fd v Hok Hl) in Ev.
        destruct (fd_ok_ext_card fd Hok He) as [_ [Hc _]].
        rewrite ?He in Ev. cbn in Ev.
        destruct (f_card fd); try discriminate; congruence.
      * split.
        -- rewrite Hnew. cbn.
           assert (Ev : dyn_vals fd c = []) by (unfold dyn_vals, dyn_has; rewrite ?He, ?Hx'; reflexivity).
           rewrite Ev. reflexivity.
        -- repeat split; cbn [dc_known dc_ext]; [intros; discriminate| |].
           ++ intros Hl. unfold dyn_new, dyn_cell_of. apply orb_false_iff in Hl. destruct Hl as [-> ->]. auto.
           ++ intros Hm. destruct (is_msg_not_list fd Hm) as [Hmap [Hlist Hk]]. unfold dyn_new, dyn_cell_of.
              rewrite Hmap, Hlist, Hm. cbn. auto.
    + destruct (dc_known c) as [k|] eqn:Ek.
      * split; [|exact Hinv].
        destruct (dyn_vals fd c) eqn:Ev; [|reflexivity].
        destruct (refl_is_msg fd) eqn:Hm; [|reflexivity]. exfalso.
        destruct (is_msg_not_list fd Hm) as [Hmap [Hlist _]].
        assert (Hl : refl_is_map fd || refl_is_list fd = false) by (rewrite Hmap, Hlist; reflexivity).
        specialize (Hsh Hl). unfold dyn_vals, dyn_has in Ev. rewrite ?He, ?Ek in Ev. cbn in Ev.
        destruct k; try contradiction.
        rewrite (dyn_isset_singular fd v Hok Hl) in Ev.
        specialize (Hty eq_refl). rewrite ?Ek in Hty.
        destruct (f_card fd), v; try discriminate; try contradiction.
      * split.
        -- rewrite Hnew. cbn.
           assert (Ev : dyn_vals fd c = []) by (unfold dyn_vals, dyn_has; rewrite ?He, ?Ek; reflexivity).
           rewrite Ev. reflexivity.
        -- repeat split; cbn [dc_known dc_ext]; [intros; congruence| |].
           ++ intros Hl. unfold dyn_new, dyn_cell_of. apply orb_false_iff in Hl. destruct Hl as [-> ->]. auto.
           ++ intros Hm. destruct (is_msg_not_list fd Hm) as [Hmap [Hlist Hk]]. unfold dyn_new, dyn_cell_of.
              rewrite Hmap, Hlist, Hm. cbn. auto.
  - (* touch *) intros; auto.
  - (* update list *)
    intros fd vs c Hok [Hx [Hsh Hty]] Hl. unfold dyn_update. split.
    + unfold dyn_vals, dyn_has. cbn [dc_known dc_ext].
      replace (f_ext fd && negb (f_ext fd || dc_ext c)) with false by (destruct (f_ext fd), (dc_ext c); reflexivity).
      unfold dyn_cell_of, dyn_isset.
      destruct (refl_is_map fd); [cbn; destruct vs; reflexivity|].
      cbn in Hl. rewrite Hl. cbn. destruct vs; reflexivity.
    + repeat split; cbn [dc_known dc_ext]; [intros; discriminate| |].
      * intros Z. rewrite Z in Hl. discriminate.
      * intros Hm. destruct (is_msg_not_list fd Hm) as [Hmap [Hlist _]]. rewrite Hmap, Hlist in Hl. discriminate.
  - (* update message *)
    intros fd m c Hok [Hx [Hsh Hty]] Hm. unfold dyn_update. destruct (is_msg_not_list fd Hm) as [Hmap [Hlist _]].
    assert (Hl : refl_is_map fd || refl_is_list fd = false) by (rewrite Hmap, Hlist; reflexivity).
    split.
    + unfold dyn_vals, dyn_has. cbn [dc_known dc_ext].
      replace (f_ext fd && negb (f_ext fd || dc_ext c)) with false by (destruct (f_ext fd), (dc_ext c); reflexivity).
      unfold dyn_cell_of. rewrite Hmap, Hlist. cbn [hd].
      rewrite (dyn_isset_singular fd _ Hok Hl). destruct m as [fs u]. cbn.
      destruct (f_card fd); reflexivity.
    + repeat split; cbn [dc_known dc_ext]; [intros; discriminate| |].
      * intros _. unfold dyn_cell_of. rewrite Hmap, Hlist. auto.
      * intros _. unfold dyn_cell_of. rewrite Hmap, Hlist. destruct m. cbn. auto.
Qed.

(* ================================================================ Part 2b: opaque cells *)
(* a cleared presence bit goes with a nil pointer (lazy message); a non-nil slice pointer goes
   with a set presence bit (lazy message list) *)
Definition opq_inv (fd : fdesc) (c : ocell) : Prop :=
  match opq_coerce fd c with
  | OCMsgLazy p ptr _ => p = false -> ptr = None
  | OCMsgListLazy p ptr _ => ptr <> None -> p = true
  | _ => True
  end.

Definition opq_class_spec (fd : fdesc) : Prop :=
  match opq_class fd with
  | KExt => f_ext fd = true
  | KOneof => f_ext fd = false /\ f_oneof fd <> None
  | KMap => f_ext fd = false /\ f_oneof fd = None /\ refl_is_map fd = true
  | KList => f_ext fd = false /\ f_oneof fd = None /\ refl_is_map fd = false /\ refl_is_list fd = true /\
             refl_kind_is_msg (f_kind fd) = false
  | KMsgListLazy | KMsgListPtr =>
             f_ext fd = false /\ f_oneof fd = None /\ refl_is_map fd = false /\ refl_is_list fd = true /\
             refl_kind_is_msg (f_kind fd) = true
  | KMsgLazy | KMsgPtr =>
             f_ext fd = false /\ f_oneof fd = None /\ refl_is_map fd = false /\ refl_is_list fd = false /\
             refl_kind_is_msg (f_kind fd) = true
  | KDirect => f_ext fd = false /\ f_oneof fd = None /\ refl_is_map fd = false /\ refl_is_list fd = false /\
             refl_kind_is_msg (f_kind fd) = false /\ f_card fd = CImp
  | KNullable => f_ext fd = false /\ f_oneof fd = None /\ refl_is_map fd = false /\ refl_is_list fd = false /\
             refl_kind_is_msg (f_kind fd) = false /\ f_card fd <> CImp
  end.

Lemma opq_class_facts : forall fd, opq_class_spec fd.
Proof.
  intros fd. unfold opq_class_spec, opq_class.
  destruct (f_ext fd); auto.
  destruct (f_oneof fd) eqn:Ho; [split; auto; discriminate|].
  destruct (refl_is_map fd) eqn:Hm; auto.
  destruct (refl_is_list fd) eqn:Hl.
  - destruct (refl_kind_is_msg (f_kind fd)); [destruct (f_lazy fd)|]; repeat split; auto.
  - destruct (refl_kind_is_msg (f_kind fd)) eqn:Hk; [destruct (f_lazy fd); repeat split; auto|].
    destruct (f_card fd) eqn:Hc; repeat split; auto; discriminate.
Qed.

Lemma is_msg_eq : forall fd, refl_is_msg fd = refl_kind_is_msg (f_kind fd) && negb (refl_is_map fd) && negb (refl_is_list fd).
Proof. reflexivity. Qed.

Ltac opq_unfold :=
  unfold opq_inv, opq_vals, opq_has, opq_set, opq_clear, opq_mutable, opq_touch, opq_update, opq_coerce in *.

Lemma opq_has_vals : forall fd c, opq_has fd c = negb (refl_is_nil (opq_vals fd c)).
Proof.
  intros fd c. unfold opq_vals. destruct (opq_has fd c) eqn:H; [|reflexivity].
  opq_unfold. destruct (opq_class fd); destruct c; cbn in *; try discriminate; try reflexivity;
    repeat match goal with
           | |- context [match ?x with _ => _ end] => destruct x; cbn in *; try discriminate; try reflexivity
           end.
  all: try (symmetry; assumption).
  all: try (rewrite andb_true_iff in *; intuition; symmetry; assumption).
  all: try (destruct x; cbn in *; [symmetry; assumption|discriminate]).
Qed.

Inductive shape_of : ocls -> ocell -> Prop :=
| ShNullable p v : shape_of KNullable (OCNullable p v)
| ShDirect v : shape_of KDirect (OCDirect v)
| ShMsgLazy p ptr lz : shape_of KMsgLazy (OCMsgLazy p ptr lz)
| ShMsgPtr ptr : shape_of KMsgPtr (OCMsgPtr ptr)
| ShList vs : shape_of KList (OCList vs)
| ShMsgListLazy p ptr lz : shape_of KMsgListLazy (OCMsgListLazy p ptr lz)
| ShMsgListPtr ptr : shape_of KMsgListPtr (OCMsgListPtr ptr)
| ShMap m : shape_of KMap (OCMap m)
| ShOneof v : shape_of KOneof (OCOneof v)
| ShExt x : shape_of KExt (OCExt x).

Lemma coerce_shape : forall fd c, shape_of (opq_class fd) (opq_coerce fd c).
Proof. intros. unfold opq_coerce. destruct (opq_class fd); destruct c; constructor. Qed.

Lemma coerce_id : forall fd x, shape_of (opq_class fd) x -> opq_coerce fd x = x.
Proof. intros fd x H. unfold opq_coerce. destruct (opq_class fd); inversion H; subst; reflexivity. Qed.

(* every law is proved on the coerced cell: one constructor per class *)
Ltac opq_case fd c :=
  let Sh := fresh "Sh" in let F := fresh "F" in let x := fresh "x" in let Ex := fresh "Ex" in
  pose proof (coerce_shape fd c) as Sh;
  pose proof (opq_class_facts fd) as F; unfold opq_class_spec in F;
  unfold opq_inv, opq_vals, opq_has, opq_set, opq_clear, opq_mutable, opq_touch, opq_update in *;
  remember (opq_coerce fd c) as x eqn:Ex in *; clear Ex;
  destruct (opq_class fd) eqn:K; inversion Sh; subst x; clear Sh;
  repeat match goal with |- context [opq_coerce fd ?y] =>
    rewrite (coerce_id fd y) by (rewrite K; constructor) end;
  cbn [refl_is_nil negb] in *.

Ltac fin :=
  repeat match goal with H : _ /\ _ |- _ => destruct H end;
  repeat match goal with
  | H : refl_is_map _ = _ |- _ => rewrite H in *; clear H
  | H : refl_is_list _ = _ |- _ => rewrite H in *; clear H
  | H : f_ext _ = _ |- _ => rewrite H in *; clear H
  end; cbn [orb andb negb] in *.

Lemma kind_ks : forall fd, refl_kind_is_msg (f_kind fd) = false -> exists sk, f_kind fd = KS sk.
Proof. intros fd H. destruct (f_kind fd); try discriminate. eauto. Qed.
Lemma kind_msg : forall fd, refl_kind_is_msg (f_kind fd) = true -> forall sk, f_kind fd <> KS sk.
Proof. intros fd H sk Z. rewrite Z in H. discriminate. Qed.

Lemma shape_singular_scalar : forall fd vs,
  refl_kind_is_msg (f_kind fd) = false ->
  match vs with
  | [v] => match f_kind fd, v with KS _, VS _ => true | KS _, _ => false | _, VS _ => false | _, _ => true end
  | _ => false end = true ->
  exists s, vs = [VS s].
Proof.
  intros fd vs Hk H. destruct (kind_ks fd Hk) as [sk E]. rewrite E in H.
  destruct vs as [|v [|]]; try discriminate. destruct v; try discriminate. eauto.
Qed.
Lemma shape_singular_msg : forall fd vs,
  refl_kind_is_msg (f_kind fd) = true ->
  match vs with
  | [v] => match f_kind fd, v with KS _, VS _ => true | KS _, _ => false | _, VS _ => false | _, _ => true end
  | _ => false end = true ->
  exists v, vs = [v] /\ (forall s, v <> VS s).
Proof.
  intros fd vs Hk H. destruct vs as [|v [|]]; try discriminate. exists v. split; auto.
  intros s ->. destruct (f_kind fd); discriminate.
Qed.
Lemma norm_not_imp : forall fd vs, f_card fd <> CImp -> refl_norm fd vs = vs.
Proof. intros fd vs H. unfold refl_norm. destruct (f_card fd); try reflexivity; congruence. Qed.
Lemma norm_msg : forall fd v, (forall s, v <> VS s) -> refl_norm fd [v] = [v].
Proof. intros fd v H. unfold refl_norm. destruct (f_card fd); try reflexivity. destruct v; try reflexivity. exfalso; eapply H; eauto. Qed.

Lemma card_list : forall fd, refl_is_list fd = true -> f_card fd <> CImp.
Proof. intros fd H Z. unfold refl_is_list in H. rewrite Z in H. discriminate. Qed.
Lemma card_map : forall fd, refl_is_map fd = true -> f_card fd <> CImp.
Proof. intros fd H Z. unfold refl_is_map in H. rewrite Z in H. discriminate. Qed.

Lemma opq_set_law : forall fd vs c, refl_fd_ok fd = true -> opq_inv fd c -> refl_set_shape fd vs = true ->
  opq_vals fd (opq_set fd vs c) = refl_norm fd vs /\ opq_inv fd (opq_set fd vs c).
Proof.
  intros fd vs c Hok Hinv Hsh. unfold refl_set_shape in Hsh. opq_case fd c.
  - (* nullable *) fin.
    destruct (shape_singular_scalar fd vs H3 Hsh) as [s ->]. rewrite norm_not_imp by auto. cbn. auto.
  - (* direct *) fin.
    destruct (shape_singular_scalar fd vs H3 Hsh) as [s ->]. unfold refl_norm. rewrite H4. cbn.
    destruct (msg_scalar_is_zero s); auto.
  - fin. destruct (shape_singular_msg fd vs H3 Hsh) as [v [-> Hv]]. rewrite norm_msg by auto. cbn. split; auto. discriminate.
  - fin. destruct (shape_singular_msg fd vs H3 Hsh) as [v [-> Hv]]. rewrite norm_msg by auto. cbn. auto.
  - (* list *) destruct F as [_ [_ [_ [Hl _]]]]. rewrite norm_not_imp by (apply card_list; auto).
    split; auto. destruct vs; reflexivity.
  - (* lazy message list *) destruct F as [_ [_ [_ [Hl _]]]]. rewrite norm_not_imp by (apply card_list; auto).
    destruct ptr.
    + rewrite coerce_id by (rewrite K; constructor). cbn.
      rewrite (Hinv ltac:(discriminate)). cbn. split; [destruct vs; reflexivity|auto].
    + rewrite coerce_id by (rewrite K; constructor). cbn. split; [destruct vs; reflexivity|auto].
  - destruct F as [_ [_ [_ [Hl _]]]]. rewrite norm_not_imp by (apply card_list; auto).
    split; auto. cbn. destruct vs; reflexivity.
  - destruct F as [_ [_ Hm]]. rewrite norm_not_imp by (apply card_map; auto).
    split; auto. cbn. destruct vs; reflexivity.
  - (* oneof *)
    destruct F as [He Ho]. destruct (f_oneof fd) as [i|] eqn:Hoi; [|congruence].
    destruct (fd_ok_oneof_card fd i Hok Hoi) as [Hc [Hl _]]. rewrite Hl in Hsh. cbn [orb] in Hsh.
    rewrite norm_not_imp by auto.
    destruct vs as [|v0 [|]]; try discriminate. cbn. auto.
  - (* extension *)
    destruct (fd_ok_ext_card fd Hok F) as [_ [Hc Hm]]. rewrite norm_not_imp by auto. rewrite Hm in *.
    rewrite orb_false_r. cbn [orb] in Hsh.
    destruct (refl_is_list fd) eqn:Hl.
    + split; auto. cbn. destruct vs; reflexivity.
    + cbn [orb] in Hsh. destruct vs as [|v0 [|]]; try discriminate. cbn. auto.
Qed.

Lemma kind_zero_is_zero : forall fd, msg_scalar_is_zero (opq_kind_zero fd) = true.
Proof. intros fd. unfold opq_kind_zero. destruct (f_kind fd) as [[]| |]; reflexivity. Qed.

Lemma opq_clear_law : forall fd c, opq_inv fd c ->
  opq_vals fd (opq_clear fd c) = [] /\ opq_inv fd (opq_clear fd c).
Proof.
  intros fd c Hinv. opq_case fd c; try (cbn; auto; fail).
  - cbn. rewrite kind_zero_is_zero. auto.
  - destruct ptr; rewrite coerce_id by (rewrite K; constructor); cbn; auto.
Qed.

Lemma opq_touch_law : forall fd c, opq_inv fd c ->
  opq_vals fd (opq_touch fd c) = opq_vals fd c /\ opq_inv fd (opq_touch fd c).
Proof.
  intros fd c Hinv. opq_case fd c; try (cbn; auto; fail).
  - destruct p, ptr; rewrite coerce_id by (rewrite K; constructor); cbn; auto. split; auto. discriminate.
  - destruct p, ptr; rewrite coerce_id by (rewrite K; constructor); cbn; auto.
Qed.

Lemma opq_mutable_law : forall fd c, refl_fd_ok fd = true -> opq_inv fd c ->
  opq_vals fd (opq_mutable fd c) =
    match opq_vals fd c with [] => if refl_is_msg fd then [msg_empty] else [] | vs => vs end
  /\ opq_inv fd (opq_mutable fd c).
Proof.
  intros fd c Hok Hinv. rewrite is_msg_eq. opq_case fd c.
  - (* nullable *) fin. rewrite H3. cbn. destruct p; auto.
  - fin. rewrite H3. cbn. destruct (msg_scalar_is_zero v); auto.
  - (* lazy message *) fin. rewrite H3. cbn.
    destruct ptr; [|destruct p]; rewrite coerce_id by (rewrite K; constructor); cbn.
    + destruct p; auto. specialize (Hinv eq_refl). discriminate.
    + split; auto; discriminate.
    + split; auto; discriminate.
  - fin. rewrite H3. cbn. destruct ptr; rewrite coerce_id by (rewrite K; constructor); cbn; auto.
  - fin. rewrite H3. cbn. destruct vs; auto.
  - (* lazy message list *) fin. rewrite H3. cbn.
    destruct ptr; [|destruct p]; rewrite coerce_id by (rewrite K; constructor); cbn.
    + rewrite (Hinv ltac:(discriminate)). cbn. destruct l; auto.
    + destruct lz; auto.
    + auto.
  - fin. rewrite H3. cbn. destruct ptr as [[|]|]; rewrite coerce_id by (rewrite K; constructor); cbn; auto.
  - fin. cbn. rewrite andb_false_r. cbn. destruct m as [[|]|]; rewrite coerce_id by (rewrite K; constructor); cbn; auto.
  - (* oneof *)
    destruct F as [He Ho]. destruct (f_oneof fd) as [i|] eqn:Hoi; [|congruence].
    destruct (fd_ok_oneof_card fd i Hok Hoi) as [Hc [Hl _]]. apply orb_false_iff in Hl. destruct Hl as [Hm Hl].
    rewrite Hm, Hl. cbn [negb andb]. rewrite !andb_true_r.
    destruct v.
    + rewrite coerce_id by (rewrite K; constructor). cbn. auto.
    + unfold refl_is_msg. rewrite Hm, Hl. cbn [negb andb]. rewrite !andb_true_r.
      destruct (refl_kind_is_msg (f_kind fd)); rewrite coerce_id by (rewrite K; constructor); cbn; auto.
  - (* extension *)
    destruct (fd_ok_ext_card fd Hok F) as [_ [Hc Hm]]. rewrite Hm in *. cbn [negb andb orb]. rewrite !andb_true_r, !orb_false_r.
    match goal with |- context [OCExt ?y] => destruct y as [l|] end.
    + rewrite coerce_id by (rewrite K; constructor). cbn. rewrite ?Hm, ?orb_false_r.
      destruct (refl_is_list fd); cbn; [destruct l; cbn; rewrite ?andb_false_r|]; auto.
    + unfold refl_is_msg. rewrite Hm. cbn [negb andb]. rewrite andb_true_r.
      destruct (refl_kind_is_msg (f_kind fd)) eqn:Hk, (refl_is_list fd) eqn:Hl; cbn [negb andb orb];
        rewrite coerce_id by (rewrite K; constructor); cbn; rewrite ?Hm, ?Hl; cbn; auto.
Qed.

Lemma opq_update_list_law : forall fd vs c, refl_fd_ok fd = true -> opq_inv fd c ->
  refl_is_map fd || refl_is_list fd = true ->
  opq_vals fd (opq_update fd vs c) = vs /\ opq_inv fd (opq_update fd vs c).
Proof.
  intros fd vs c Hok Hinv Hl. opq_case fd c.
  - fin. discriminate.
  - fin. discriminate.
  - fin. discriminate.
  - fin. discriminate.
  - cbn. split; auto. destruct vs; reflexivity.
  - cbn. split; auto. destruct vs; reflexivity.
  - cbn. split; auto. destruct vs; reflexivity.
  - cbn. split; auto. destruct vs; reflexivity.
  - destruct F as [He Ho]. destruct (f_oneof fd) as [i|] eqn:Hoi; [|congruence].
    destruct (fd_ok_oneof_card fd i Hok Hoi) as [Hc [Hl' _]]. rewrite Hl' in Hl. discriminate.
  - destruct (fd_ok_ext_card fd Hok F) as [_ [Hc Hm]]. rewrite Hm in *. cbn [orb] in Hl. rewrite Hl. cbn.
    split; auto. destruct vs; reflexivity.
Qed.

Lemma opq_update_msg_law : forall fd (m : msg_macc) c, refl_fd_ok fd = true -> opq_inv fd c ->
  refl_is_msg fd = true ->
  opq_vals fd (opq_update fd [refl_val_of m] c) = [refl_val_of m] /\ opq_inv fd (opq_update fd [refl_val_of m] c).
Proof.
  intros fd m c Hok Hinv Hm. destruct (is_msg_not_list fd Hm) as [Hmap [Hlist Hk]]. opq_case fd c;
    try (cbn; rewrite ?Hmap, ?Hlist; cbn; split; auto; try discriminate; fail);
    try (exfalso; fin; congruence).
Qed.

Theorem opq_laws : celllaws ocell opq_ops opq_inv.
Proof.
  constructor; cbn [c_zero c_vals c_has c_set c_clear c_mutable c_touch c_update opq_ops].
  - intros fd. unfold opq_inv, opq_coerce. destruct (opq_class fd); auto; discriminate.
  - intros fd. unfold opq_vals, opq_has, opq_coerce. destruct (opq_class fd); cbn; auto.
    rewrite kind_zero_is_zero. reflexivity.
  - intros. apply opq_has_vals.
  - apply opq_set_law.
  - apply opq_clear_law.
  - apply opq_mutable_law.
  - apply opq_touch_law.
  - apply opq_update_list_law.
  - apply opq_update_msg_law.
Qed.

(* ================================================================ the two refinement theorems *)
Section Refinement.
  Variable S : schema.
  Variable D : rdefs.
  Let md := nth O S [].

  (* dynamicpb: every history on a dynamicpb message is a history of the abstract model *)
  Theorem dynamic_refines_abstract : forall steps (st : cmsg dyncell),
    md_ok md -> CInv dyncell dyn_inv md (cm_cells st) ->
    refl_val_of (cm_abs dyncell dyn_ops md (fst (cm_run dyncell dyn_ops S D st steps))) =
      fst (refl_run S D (refl_val_of (cm_abs dyncell dyn_ops md st)) steps) /\
    snd (cm_run dyncell dyn_ops S D st steps) =
      map fst (snd (refl_run S D (refl_val_of (cm_abs dyncell dyn_ops md st)) steps)) /\
    CInv dyncell dyn_inv md (cm_cells (fst (cm_run dyncell dyn_ops S D st steps))).
  Proof. intros. apply (cm_run_refines dyncell dyn_ops dyn_inv dyn_laws md S D); auto. Qed.

  (* opaque generated messages (presence bits, lazy pointers) *)
  Theorem opaque_refines_abstract : forall steps (st : cmsg ocell),
    md_ok md -> CInv ocell opq_inv md (cm_cells st) ->
    refl_val_of (cm_abs ocell opq_ops md (fst (cm_run ocell opq_ops S D st steps))) =
      fst (refl_run S D (refl_val_of (cm_abs ocell opq_ops md st)) steps) /\
    snd (cm_run ocell opq_ops S D st steps) =
      map fst (snd (refl_run S D (refl_val_of (cm_abs ocell opq_ops md st)) steps)) /\
    CInv ocell opq_inv md (cm_cells (fst (cm_run ocell opq_ops S D st steps))).
  Proof. intros. apply (cm_run_refines ocell opq_ops opq_inv opq_laws md S D); auto. Qed.

  (* the empty concrete message is a legal start and abstracts to the empty message *)
  Lemma cinv_empty : forall cell (inv : fdesc -> cell -> Prop), CInv cell inv md [].
  Proof. intros. split; cbn; auto. intros ? ? ? []. Qed.
End Refinement.

(* WhichOneof of a synthetic oneof (repaired code) reports the member exactly when it is populated *)
Theorem opq_which_synthetic_correct : forall (fd : fdesc) (c : ocell),
  opq_which_synthetic fd c = negb (refl_is_nil (opq_vals fd c)).
Proof. intros. unfold opq_which_synthetic. apply opq_has_vals. Qed.
