(* MsgRoundP — proof of C03: decode (encode v) = v for canonical values of the message codec model. *)
From Coq Require Import List Arith NArith ZArith Lia Bool Permutation.
From Coq Require Import ZifyBool ZifyNat ZifyN.
From PB Require Import Base.PBytes Wire.WireModel Wire.VarintP.
From PB Require Import Msg.MsgSchema Msg.MsgValue Msg.MsgUtf8 Msg.MsgEnc Msg.MsgDec Msg.MsgValid.
From PB Require Import Msg.MsgWireP Msg.MsgScalarP Msg.MsgAssocP Msg.MsgSizeP Msg.MsgExample.
Ltac Zify.zify_post_hook ::= Z.div_mod_to_equations.
Import ListNotations.
Open Scope N_scope.

Lemma msg_max_num_eq : msg_max_num = 536870911. Proof. reflexivity. Qed.
Global Opaque msg_max_num.

Section Loop.
  Variable slow : bool.
  Variable S : schema.
  Notation dm := (msg_decode_msg slow S).

  Definition msg_dsub2 (d : nat) : option msg_dec_t :=
    match d with O => None | Datatypes.S d1 => Some (dm d1) end.

  Lemma msg_dm_unfold d tid grp md x g bs acc :
    nth_error S tid = Some md ->
    dm (Datatypes.S d) tid grp (x :: g) bs acc =
    match bs with
    | [] => if grp =? 0 then DOk (acc, []) else DErr DParse
    | _ =>
      match dec_tag bs with
      | Err _ => DErr DParse
      | Ok (num, typ, r) =>
        if msg_max_num <? num then DErr DParse
        else if (typ =? 4) && negb slow then (if num =? grp then DOk (acc, r) else DErr DParse)
        else
          let tagraw := if slow then firstn (length bs - length r) bs else enc_tag num typ in
          match msg_step slow md (dm d) (msg_dsub2 d) tagraw num typ r acc with
          | DErr e => DErr e
          | DOk (acc', r') => dm (Datatypes.S d) tid grp g r' acc'
          end
      end
    end.
  Proof.
    intros H. cbn [msg_decode_msg]. rewrite H. reflexivity.
  Qed.

  Lemma msg_dm_end0 d tid md g acc :
    nth_error S tid = Some md -> (0 < length g)%nat ->
    dm (Datatypes.S d) tid 0 g [] acc = DOk (acc, []).
  Proof.
    intros H Hg. destruct g as [|x g]; [cbn in Hg; lia|].
    rewrite (msg_dm_unfold _ _ _ _ _ _ _ _ H). reflexivity.
  Qed.

  Lemma msg_dm_end_grp d tid md grp g rest acc :
    slow = false ->
    nth_error S tid = Some md -> 1 <= grp -> grp <= msg_max_num -> (0 < length g)%nat ->
    dm (Datatypes.S d) tid grp g (enc_tag grp 4 ++ rest) acc = DOk (acc, rest).
  Proof.
    intros Hslow H Hlo Hhi Hg. destruct g as [|x g]; [cbn in Hg; lia|].
    rewrite (msg_dm_unfold _ _ _ _ _ _ _ _ H). rewrite Hslow.
    destruct (msgw_enc_tag_nonempty grp 4) as (b & r & E).
    assert (Hne : exists b0 r0, enc_tag grp 4 ++ rest = b0 :: r0)
      by (rewrite E; eexists; eexists; reflexivity).
    destruct Hne as (b0 & r0 & E0). rewrite E0. cbv iota. rewrite <- E0.
    rewrite msg_max_num_eq in Hhi.
    rewrite msgw_dec_tag_enc by lia.
    replace (msg_max_num <? grp) with false by (rewrite msg_max_num_eq; lia).
    cbn [N.eqb Pos.eqb negb andb]. rewrite N.eqb_refl. reflexivity.
  Qed.

  (* one field whose step is known *)
  Lemma msg_dm_field d tid md grp g num typ val tail acc acc' :
    nth_error S tid = Some md -> 1 <= num -> num <= msg_max_num -> typ < 8 -> typ <> 4 ->
    (forall tagraw, msg_step slow md (dm d) (msg_dsub2 d) tagraw num typ (val ++ tail) acc = DOk (acc', tail)) ->
    (length (enc_tag num typ ++ val ++ tail) < length g)%nat ->
    exists g2, (length tail < length g2)%nat /\
      dm (Datatypes.S d) tid grp g (enc_tag num typ ++ val ++ tail) acc = dm (Datatypes.S d) tid grp g2 tail acc'.
  Proof.
    intros H Hlo Hhi Ht Ht4 Hstep Hg. destruct g as [|x g]; [cbn in Hg; lia|].
    exists g. split.
    - destruct (msgw_enc_tag_nonempty num typ) as (b & r & E). rewrite E in Hg.
      cbn [length app] in Hg. rewrite !app_length in Hg. lia.
    - rewrite (msg_dm_unfold _ _ _ _ _ _ _ _ H).
      destruct (msgw_enc_tag_nonempty num typ) as (b & r & E).
      assert (Hne : exists b0 r0, enc_tag num typ ++ val ++ tail = b0 :: r0)
        by (rewrite E; eexists; eexists; reflexivity).
      destruct Hne as (b0 & r0 & E0). rewrite E0. cbv iota. rewrite <- E0.
      rewrite msg_max_num_eq in Hhi.
      rewrite msgw_dec_tag_enc by lia.
      replace (msg_max_num <? num) with false by (rewrite msg_max_num_eq; lia).
      replace (typ =? 4) with false by lia. cbn [andb].
      cbv zeta. rewrite Hstep. reflexivity.
  Qed.
End Loop.

(* ---------- one scalar, one packed payload ---------- *)
Lemma msg_dec_scalar_ok sk utf8 s :
  sk_ok sk s = true -> msg_str_valid sk utf8 s = true ->
  msg_dec_scalar sk utf8 (sk_enc sk s) = Some (DOk s).
Proof.
  intros Hok Hstr. unfold msg_dec_scalar. rewrite (msg_sk_dec_enc sk s Hok).
  destruct sk, s; try reflexivity. cbn [msg_str_valid] in Hstr.
  destruct utf8; [|reflexivity]. cbn [orb negb andb] in *. rewrite Hstr. reflexivity.
Qed.

Definition msg_scalar_good (sk : skind) (v : value) : Prop :=
  match v with VS s => sk_ok sk s = true /\ msg_wval_ok (sk_enc sk s) = true | _ => False end.

Lemma msg_dec_packed_ok sk : forall vs acc g,
  msg_packable sk = true -> Forall (msg_scalar_good sk) vs ->
  (length (msg_enc_packed_payload sk vs) < length g)%nat ->
  msg_dec_packed g sk (msg_enc_packed_payload sk vs) acc = DOk (rev acc ++ vs).
Proof.
  induction vs as [|v vs IH]; intros acc g Hp Hall Hg.
  - destruct g; [cbn in Hg; lia|]. cbn. now rewrite app_nil_r.
  - inversion Hall as [|? ? Hv Hvs]; subst. destruct v as [s| |]; try contradiction.
    destruct Hv as [Hok Hw].
    destruct g as [|x g]; [cbn in Hg; lia|].
    unfold msg_enc_packed_payload in *. cbn [flat_map] in *.
    cbn [msg_dec_packed].
    (* the encoding of a packable scalar is non-empty *)
    assert (Hne : exists b0 r0, msg_enc_scalar sk s ++ flat_map (fun v => match v with VS s0 => msg_enc_scalar sk s0 | _ => [] end) vs = b0 :: r0).
    { pose proof (msg_size_scalar_eq sk s Hw) as Hsz.
      destruct (msg_enc_scalar sk s) as [|b0 r0] eqn:E.
      - exfalso. cbn [length] in Hsz. unfold msg_size_scalar in Hsz.
        destruct (sk_enc sk s) as [x'|b'|b'|b'|f'] eqn:E2; try lia.
        + destruct (N.ltb_spec x' 128).
          * rewrite msgw_size_varint_small in Hsz by assumption. lia.
          * assert (0 < x') by lia. unfold size_varint in Hsz. rewrite N.size_log2 in Hsz by lia. lia.
        + unfold size_bytes in Hsz. unfold msg_packable in Hp. destruct sk, s; cbn in E2, Hp; discriminate.
        + unfold msg_packable in Hp. destruct sk, s; cbn in E2; discriminate.
      - eexists; eexists; reflexivity. }
    destruct Hne as (b0 & r0 & E0). rewrite E0. cbv iota. rewrite <- E0.
    rewrite (msg_parse_scalar sk s 0 1 _ Hok Hw).
    rewrite (msg_sk_dec_enc sk s Hok).
    rewrite IH; [cbn [rev]; rewrite <- app_assoc; reflexivity|exact Hp|exact Hvs|].
    rewrite app_length in Hg. cbn [length] in Hg.
    assert (1 <= length (msg_enc_scalar sk s))%nat.
    { destruct (msg_enc_scalar sk s) eqn:E; [|cbn; lia]. cbn [app] in E0.
      (* payload of the rest starts with b0 but our element is empty: impossible, shown above *)
      exfalso. pose proof (msg_size_scalar_eq sk s Hw) as Hsz. rewrite E in Hsz. cbn [length] in Hsz.
      unfold msg_size_scalar in Hsz.
      destruct (sk_enc sk s) as [x'|b'|b'|b'|f'] eqn:E2; try lia.
      + destruct (N.ltb_spec x' 128).
        * rewrite msgw_size_varint_small in Hsz by assumption. lia.
        * unfold size_varint in Hsz. rewrite N.size_log2 in Hsz by lia. lia.
      + unfold msg_packable in Hp. destruct sk, s; cbn in E2, Hp; discriminate.
      + unfold msg_packable in Hp. destruct sk, s; cbn in E2; discriminate. }
    lia.
Qed.

(* ---------- msg_step on each shape of encoded field ---------- *)
Section StepLemmas.
  Variable slow : bool.
  Variable md : mdesc.
  Variable dsub : msg_dec_t.
  Variable dsub2 : option msg_dec_t.

  Definition msg_not_map (fd : fdesc) : Prop := forall kk ku vd, f_card fd <> CMap kk ku vd.

  Lemma msg_step_scalar fd sk s tagraw tail acc :
    msg_find_field md (f_num fd) = Some fd -> f_kind fd = KS sk -> msg_not_map fd ->
    sk_ok sk s = true -> msg_wval_ok (sk_enc sk s) = true ->
    msg_str_valid sk (msg_field_utf8 slow fd) s = true ->
    msg_step slow md dsub dsub2 tagraw (f_num fd) (sk_wt sk) (msg_enc_scalar sk s ++ tail) acc =
    DOk ((if card_repeated (f_card fd) then msg_append_field fd [VS s] (fst acc)
          else msg_set_field md fd (VS s) (fst acc), snd acc), tail).
  Proof.
    intros Hf Hk Hnm Hok Hw Hstr. unfold msg_step. rewrite Hf.
    destruct (f_card fd) eqn:Hc; try (exfalso; eapply Hnm; exact Hc);
      rewrite Hk, N.eqb_refl, (msg_parse_scalar sk s 0 _ _ Hok Hw),
              (msg_dec_scalar_ok sk _ s Hok Hstr); reflexivity.
  Qed.

  Lemma msg_step_packed fd sk vs tagraw tail acc :
    msg_find_field md (f_num fd) = Some fd -> f_kind fd = KS sk -> card_repeated (f_card fd) = true ->
    msg_packable sk = true -> Forall (msg_scalar_good sk) vs ->
    N.of_nat (length (msg_enc_packed_payload sk vs)) < 2^64 ->
    msg_step slow md dsub dsub2 tagraw (f_num fd) 2 (enc_bytes (msg_enc_packed_payload sk vs) ++ tail) acc =
    DOk ((msg_append_field fd vs (fst acc), snd acc), tail).
  Proof.
    intros Hf Hk Hrep Hp Hall Hlen. unfold msg_step. rewrite Hf.
    assert (Hwt : (2 =? sk_wt sk) = false).
    { unfold msg_packable in Hp. destruct (sk_wt sk =? 2) eqn:E; [discriminate|]. lia. }
    destruct (f_card fd) eqn:Hc; try discriminate;
      rewrite Hk, Hwt, Hp; cbn [N.eqb Pos.eqb andb card_repeated];
      rewrite (msgw_dec_bytes_enc _ _ Hlen);
      rewrite msg_dec_packed_ok by (try assumption; cbn [length]; lia); reflexivity.
  Qed.

  Lemma msg_step_message fd tid body tail tagraw acc m :
    msg_find_field md (f_num fd) = Some fd -> f_kind fd = KMsg tid -> msg_not_map fd ->
    N.of_nat (length body) < 2^64 ->
    msg_whole dsub tid body (msg_old_sub fd (fst acc)) = DOk m ->
    msg_step slow md dsub dsub2 tagraw (f_num fd) 2 (enc_bytes body ++ tail) acc =
    DOk ((msg_store_sub md fd m (fst acc), snd acc), tail).
  Proof.
    intros Hf Hk Hnm Hlen Hsub. unfold msg_step. rewrite Hf.
    destruct (f_card fd) eqn:Hc; try (exfalso; eapply Hnm; exact Hc);
      rewrite Hk; cbn [N.eqb Pos.eqb]; rewrite (msgw_dec_bytes_enc _ _ Hlen), Hsub; reflexivity.
  Qed.

  Lemma msg_step_group fd tid bytes tail tagraw acc m :
    slow = false ->
    msg_find_field md (f_num fd) = Some fd -> f_kind fd = KGrp tid -> msg_not_map fd ->
    dsub tid (f_num fd) (x00 :: bytes ++ tail) (bytes ++ tail) (msg_old_sub fd (fst acc)) = DOk (m, tail) ->
    msg_step slow md dsub dsub2 tagraw (f_num fd) 3 (bytes ++ tail) acc =
    DOk ((msg_store_sub md fd m (fst acc), snd acc), tail).
  Proof.
    intros Hs Hf Hk Hnm Hsub. unfold msg_step. rewrite Hf. subst slow.
    destruct (f_card fd) eqn:Hc; try (exfalso; eapply Hnm; exact Hc);
      rewrite Hk; cbn [N.eqb Pos.eqb]; rewrite Hsub; reflexivity.
  Qed.

  Lemma msg_step_group_slow fd tid body tail tagraw acc m w :
    slow = true ->
    msg_find_field md (f_num fd) = Some fd -> f_kind fd = KGrp tid -> msg_not_map fd ->
    1 <= f_num fd -> f_num fd <= msg_max_num ->
    parse_val default_dep (f_num fd) 3 (body ++ enc_tag (f_num fd) 4) = Ok (w, []) ->
    msg_whole dsub tid body (msg_old_sub fd (fst acc)) = DOk m ->
    msg_step slow md dsub dsub2 tagraw (f_num fd) 3 (body ++ enc_tag (f_num fd) 4 ++ tail) acc =
    DOk ((msg_store_sub md fd m (fst acc), snd acc), tail).
  Proof.
    intros Hs Hf Hk Hnm Hlo Hhi Hscan Hsub. unfold msg_step. rewrite Hf. subst slow.
    rewrite msg_max_num_eq in Hhi.
    destruct (msgw_consume_group_enc (f_num fd) body tail w Hlo Hhi Hscan) as [Hcg Hskip].
    destruct (f_card fd) eqn:Hc; try (exfalso; eapply Hnm; exact Hc);
      rewrite Hk; cbn [N.eqb Pos.eqb]; rewrite Hcg, Hsub, Nnat.Nat2N.id, Hskip; reflexivity.
  Qed.
End StepLemmas.

(* ---------- map entries ---------- *)
Lemma msg_parse_val_len dep num bs : parse_val dep num 2 bs =
  match dec_bytes bs with Ok (b, r) => Ok (WLen b, r) | Err e => Err e end.
Proof. destruct dep; reflexivity. Qed.

Section Entry.
  Variables (kk : skind) (kutf8 : bool) (vk : kind) (vutf8 : bool).
  Variable dmf : list byte -> value -> dres value.

  Lemma msg_entry_key_step x g key tail k0 v0 :
    sk_ok kk key = true -> msg_wval_ok (sk_enc kk key) = true -> msg_str_valid kk kutf8 key = true ->
    msg_dec_entry (x :: g) kk kutf8 vk vutf8 dmf (msg_enc_key kk key ++ tail) k0 v0 =
    msg_dec_entry g kk kutf8 vk vutf8 dmf tail key v0.
  Proof.
    intros Hok Hw Hstr. unfold msg_enc_key. rewrite <- app_assoc.
    cbn [msg_dec_entry].
    destruct (msgw_enc_tag_nonempty 1 (sk_wt kk)) as (b & r & E).
    assert (Hne : exists b0 r0, enc_tag 1 (sk_wt kk) ++ msg_enc_scalar kk key ++ tail = b0 :: r0)
      by (rewrite E; eexists; eexists; reflexivity).
    destruct Hne as (b0 & r0 & E0). rewrite E0. cbv iota. rewrite <- E0.
    assert (Hwt : sk_wt kk < 8) by (destruct kk; cbn; lia).
    rewrite msgw_dec_tag_enc by lia.
    replace (msg_max_num <? 1) with false by (rewrite msg_max_num_eq; lia).
    rewrite (msg_parse_scalar kk key _ _ _ Hok Hw).
    cbn [N.eqb Pos.eqb]. rewrite (msg_dec_scalar_ok kk kutf8 key Hok Hstr). reflexivity.
  Qed.

  Lemma msg_entry_val_scalar_step x g sk s tail k0 v0 :
    vk = KS sk ->
    sk_ok sk s = true -> msg_wval_ok (sk_enc sk s) = true -> msg_str_valid sk vutf8 s = true ->
    msg_dec_entry (x :: g) kk kutf8 vk vutf8 dmf (enc_tag 2 (sk_wt sk) ++ msg_enc_scalar sk s ++ tail) k0 v0 =
    msg_dec_entry g kk kutf8 vk vutf8 dmf tail k0 (VS s).
  Proof.
    intros Hvk Hok Hw Hstr. subst vk. cbn [msg_dec_entry].
    destruct (msgw_enc_tag_nonempty 2 (sk_wt sk)) as (b & r & E).
    assert (Hne : exists b0 r0, enc_tag 2 (sk_wt sk) ++ msg_enc_scalar sk s ++ tail = b0 :: r0)
      by (rewrite E; eexists; eexists; reflexivity).
    destruct Hne as (b0 & r0 & E0). rewrite E0. cbv iota. rewrite <- E0.
    assert (Hwt : sk_wt sk < 8) by (destruct sk; cbn; lia).
    rewrite msgw_dec_tag_enc by lia.
    replace (msg_max_num <? 2) with false by (rewrite msg_max_num_eq; lia).
    rewrite (msg_parse_scalar sk s _ _ _ Hok Hw).
    cbn [N.eqb Pos.eqb]. rewrite (msg_dec_scalar_ok sk vutf8 s Hok Hstr). reflexivity.
  Qed.

  Lemma msg_entry_val_msg_step x g tid body tail k0 v0 v :
    vk = KMsg tid -> N.of_nat (length body) < 2^64 -> dmf body v0 = DOk v ->
    msg_dec_entry (x :: g) kk kutf8 vk vutf8 dmf (enc_tag 2 2 ++ enc_bytes body ++ tail) k0 v0 =
    msg_dec_entry g kk kutf8 vk vutf8 dmf tail k0 v.
  Proof.
    intros Hvk Hlen Hdm. subst vk. cbn [msg_dec_entry].
    destruct (msgw_enc_tag_nonempty 2 2) as (b & r & E).
    assert (Hne : exists b0 r0, enc_tag 2 2 ++ enc_bytes body ++ tail = b0 :: r0)
      by (rewrite E; eexists; eexists; reflexivity).
    destruct Hne as (b0 & r0 & E0). rewrite E0. cbv iota. rewrite <- E0.
    rewrite msgw_dec_tag_enc by lia.
    replace (msg_max_num <? 2) with false by (rewrite msg_max_num_eq; lia).
    rewrite msg_parse_val_len, (msgw_dec_bytes_enc _ _ Hlen).
    cbn [N.eqb Pos.eqb]. rewrite Hdm. reflexivity.
  Qed.

  Lemma msg_entry_end x g k0 v0 : msg_dec_entry (x :: g) kk kutf8 vk vutf8 dmf [] k0 v0 = DOk (k0, v0).
  Proof. reflexivity. Qed.
End Entry.


(* a whole entry: key then value *)
Lemma msg_dec_entry_ok kk kutf8 vk vutf8 dmf key v encv k0 v0 g :
  sk_ok kk key = true -> msg_wval_ok (sk_enc kk key) = true -> msg_str_valid kk kutf8 key = true ->
  ((exists sk s, vk = KS sk /\ v = VS s /\ sk_ok sk s = true /\ msg_wval_ok (sk_enc sk s) = true /\
                 msg_str_valid sk vutf8 s = true /\ encv = enc_tag 2 (sk_wt sk) ++ msg_enc_scalar sk s) \/
   (exists tid body, vk = KMsg tid /\ N.of_nat (length body) < 2^64 /\ dmf body v0 = DOk v /\
                     encv = enc_tag 2 2 ++ enc_bytes body)) ->
  (length (msg_enc_key kk key ++ encv) < length g)%nat ->
  msg_dec_entry g kk kutf8 vk vutf8 dmf (msg_enc_key kk key ++ encv) k0 v0 = DOk (key, v).
Proof.
  intros Hok Hw Hstr Hval Hg.
  assert (Hk1 : (1 <= length (msg_enc_key kk key))%nat).
  { unfold msg_enc_key. destruct (msgw_enc_tag_nonempty 1 (sk_wt kk)) as (b & r & E). rewrite E. cbn. lia. }
  assert (Hv1 : (1 <= length encv)%nat).
  { destruct Hval as [(sk & s & _ & _ & _ & _ & _ & ->)|(t & body & _ & _ & _ & ->)].
    - destruct (msgw_enc_tag_nonempty 2 (sk_wt sk)) as (b & r & E). rewrite E. cbn. lia.
    - destruct (msgw_enc_tag_nonempty 2 2) as (b & r & E). rewrite E. cbn. lia. }
  rewrite app_length in Hg.
  destruct g as [|x1 [|x2 [|x3 g]]]; cbn [length] in Hg; try lia.
  rewrite (msg_entry_key_step kk kutf8 vk vutf8 dmf x1 _ key encv k0 v0 Hok Hw Hstr).
  destruct Hval as [(sk & s & Hvk & -> & Hsok & Hsw & Hsstr & ->)|(t & body & Hvk & Hlen & Hdm & ->)].
  - rewrite <- (app_nil_r (msg_enc_scalar sk s)).
    rewrite (msg_entry_val_scalar_step kk kutf8 vk vutf8 dmf x2 _ sk s [] key v0 Hvk Hsok Hsw Hsstr).
    reflexivity.
  - rewrite <- (app_nil_r (enc_bytes body)).
    rewrite (msg_entry_val_msg_step kk kutf8 vk vutf8 dmf x2 _ t body [] key v0 v Hvk Hlen Hdm).
    reflexivity.
Qed.

Lemma msg_map_put_last : forall pre key v,
  Forall (fun e' => match e' with VEntry k' _ => msg_scmp key k' = Gt | _ => False end) pre ->
  msg_map_put pre key v = pre ++ [VEntry key v].
Proof.
  induction pre as [|e pre IH]; intros key v H; [reflexivity|].
  inversion H as [|? ? He Hpre]; subst. cbn [msg_map_put app].
  destruct e as [|?|k' v']; try contradiction. rewrite He. f_equal. apply IH. exact Hpre.
Qed.

(* ---------- storing into the accumulator ---------- *)
Lemma msg_find_field_num md n fd : msg_find_field md n = Some fd -> f_num fd = n.
Proof.
  induction md as [|f r IH]; cbn [msg_find_field]; [discriminate|].
  destruct (f_num f =? n) eqn:E; [intros H; inversion H; subst; lia|exact IH].
Qed.

Lemma msg_find_field_in md n fd : msg_find_field md n = Some fd -> In fd md.
Proof.
  induction md as [|f r IH]; cbn [msg_find_field]; [discriminate|].
  destruct (f_num f =? n); [intros H; inversion H; subst; left; reflexivity|intros H; right; auto].
Qed.

Lemma msg_clear_oneof_noop md oi num fs :
  (forall fd', In fd' md -> f_oneof fd' = Some oi -> f_num fd' <> num -> ~ In (f_num fd') (msg_keys fs)) ->
  msg_clear_oneof md oi num fs = fs.
Proof.
  induction md as [|f r IH]; intros H; cbn [msg_clear_oneof]; [reflexivity|].
  assert (Hr : forall fd', In fd' r -> f_oneof fd' = Some oi -> f_num fd' <> num -> ~ In (f_num fd') (msg_keys fs))
    by (intros fd' Hin; apply H; right; exact Hin).
  destruct (f_oneof f) as [j|] eqn:Ej; [|apply IH; exact Hr].
  destruct ((j =? oi) && negb (f_num f =? num)) eqn:E; [|apply IH; exact Hr].
  apply andb_true_iff in E. destruct E as [E1 E2].
  rewrite msg_fdel_notin; [apply IH; exact Hr|].
  apply H; [left; reflexivity| rewrite Ej; f_equal; lia | lia].
Qed.

(* the oneof condition of [msg_typed], as a statement about keys *)
Definition msg_oneof_free (md : mdesc) (fd : fdesc) (keys : list N) : Prop :=
  forall oi, f_oneof fd = Some oi ->
  forall fd', In fd' md -> f_oneof fd' = Some oi -> f_num fd' <> f_num fd -> ~ In (f_num fd') keys.

Lemma msg_oneofs_ok_free md fs p fd :
  msg_oneofs_ok md fs = true -> In p fs -> msg_find_field md (fst p) = Some fd ->
  msg_oneof_free md fd (msg_keys fs).
Proof.
  intros Hok Hin Hf oi Hoi fd' Hin' Hoi' Hne Hk.
  unfold msg_oneofs_ok in Hok. rewrite forallb_forall in Hok. specialize (Hok p Hin).
  unfold msg_oneof_of in Hok. rewrite Hf, Hoi in Hok.
  rewrite forallb_forall in Hok. specialize (Hok fd' Hin'). rewrite Hoi' in Hok.
  rewrite (msg_find_field_num _ _ _ Hf) in Hne.
  apply orb_true_iff in Hok. destruct Hok as [Hok|Hok].
  - apply orb_true_iff in Hok. destruct Hok as [Hok|Hok]; [rewrite N.eqb_refl in Hok; discriminate|lia].
  - apply negb_true_iff in Hok.
    assert (existsb (N.eqb (f_num fd')) (map fst fs) = true); [|congruence].
    apply existsb_exists. exists (f_num fd'). split; [exact Hk|apply N.eqb_refl].
Qed.

Lemma msg_set_field_fresh md fd v fs :
  (match f_card fd, v with CImp, VS s => msg_scalar_is_zero s = false | _, _ => True end) ->
  msg_oneof_free md fd (f_num fd :: msg_keys fs) ->
  msg_set_field md fd v fs = msg_fset fs (f_num fd) [v].
Proof.
  intros Hz Hfree. unfold msg_set_field.
  assert (Hdrop : (match f_card fd, v with CImp, VS s => msg_scalar_is_zero s | _, _ => false end) = false).
  { destruct (f_card fd); try reflexivity. destruct v; try reflexivity. exact Hz. }
  rewrite Hdrop. destruct (f_oneof fd) as [oi|] eqn:Eo; [|reflexivity].
  apply msg_clear_oneof_noop. intros fd' Hin Hoi Hne Hk.
  apply (Hfree oi Eo fd' Hin Hoi Hne).
  apply msg_keys_fset in Hk. destruct Hk as [->|Hk]; [left; reflexivity|right; exact Hk].
Qed.

(* ---------- unfolding the validity predicates ---------- *)
Lemma msg_typed_unfold slow S dep tid fs unk :
  msg_typed slow S dep tid (VMsg fs unk) = true ->
  exists d md, dep = Datatypes.S d /\ nth_error S tid = Some md /\
    msg_keys_sorted 0 fs = true /\
    forallb (fun p => msg_typed_chunk slow (msg_enc_body S) (msg_typed slow S d)
                        (fun t x => match d with O => false | Datatypes.S d1 => msg_typed slow S d1 t x end)
                        (match d with O => false | _ => true end) md p) fs = true /\
    msg_oneofs_ok md fs = true /\
    msg_unknown_ok slow md (match d with O => false | _ => true end) (x00 :: unk) unk = true.
Proof.
  cbn [msg_typed]. destruct dep as [|d]; [discriminate|].
  destruct (nth_error S tid) as [md|] eqn:E; [|discriminate].
  intros H. repeat (apply andb_true_iff in H; destruct H as [H ?]).
  exists d, md. repeat split; assumption.
Qed.

Lemma msg_sizes_ok_unfold S tid fs unk :
  msg_sizes_ok S tid (VMsg fs unk) = true ->
  forallb (fun p => msg_szok_chunk (msg_size_body S) (msg_sizes_ok S) (nth tid S []) p) fs = true.
Proof. cbn [msg_sizes_ok]. trivial. Qed.

Lemma msg_nth_error_nth (S : schema) tid md : nth_error S tid = Some md -> nth tid S [] = md.
Proof. intros H. apply nth_error_nth with (d := []) in H. exact H. Qed.

(* ---------- the field order is a permutation ---------- *)
Lemma msg_chunk_insert_perm {A} (c : N * A) l : Permutation (msg_chunk_insert c l) (c :: l).
Proof.
  induction l as [|x l IH]; [reflexivity|]. cbn [msg_chunk_insert].
  destruct (fst x <=? fst c); [|reflexivity].
  rewrite IH. apply perm_swap.
Qed.

Lemma msg_chunk_sort_perm {A} (l : list (N * A)) : Permutation (msg_chunk_sort l) l.
Proof.
  induction l as [|c l IH]; [reflexivity|]. cbn [msg_chunk_sort].
  rewrite msg_chunk_insert_perm. now rewrite IH.
Qed.

Lemma msg_chunk_insert_map {A B} (f : A -> B) (c : N * A) l :
  msg_chunk_insert (fst c, f (snd c)) (map (fun x => (fst x, f (snd x))) l) =
  map (fun x => (fst x, f (snd x))) (msg_chunk_insert c l).
Proof.
  induction l as [|x l IH]; [reflexivity|]. cbn [msg_chunk_insert map fst].
  destruct (fst x <=? fst c); [|reflexivity]. cbn [map]. now rewrite IH.
Qed.

Lemma msg_chunk_sort_map {A B} (f : A -> B) (l : list (N * A)) :
  msg_chunk_sort (map (fun x => (fst x, f (snd x))) l) = map (fun x => (fst x, f (snd x))) (msg_chunk_sort l).
Proof.
  induction l as [|c l IH]; [reflexivity|]. cbn [msg_chunk_sort map].
  rewrite IH. apply msg_chunk_insert_map.
Qed.

(* the body of a message is the concatenation of its fields in some order, then the unknown bytes *)
Lemma msg_enc_body_perm S tid fs unk :
  exists P, Permutation P fs /\
    msg_enc_body S tid (VMsg fs unk) =
    flat_map (fun p => snd (msg_enc_chunk (msg_enc_body S) (nth tid S []) p)) P ++ unk.
Proof.
  set (md := nth tid S []). set (h := fun p => snd (msg_enc_chunk (msg_enc_body S) md p)).
  set (K := map (fun p => (fst (msg_enc_chunk (msg_enc_body S) md p), p)) fs).
  exists (map snd (msg_chunk_sort K)). split.
  - rewrite (Permutation_map snd (msg_chunk_sort_perm K)). unfold K. rewrite map_map. cbn [snd].
    rewrite map_id. reflexivity.
  - cbn [msg_enc_body]. fold md. f_equal.
    assert (E : map (fun p => msg_enc_chunk (msg_enc_body S) md p) fs = map (fun x => (fst x, h (snd x))) K).
    { unfold K. rewrite map_map. apply map_ext. intros p. cbn [fst snd]. unfold h. apply surjective_pairing. }
    rewrite E, msg_chunk_sort_map. rewrite map_map. cbn [snd].
    rewrite flat_map_concat_map, map_map. reflexivity.
Qed.

Lemma msg_bytes_cmp_eq : forall a b, msg_bytes_cmp a b = Eq -> a = b.
Proof.
  induction a as [|x a IH]; destruct b as [|y b]; cbn [msg_bytes_cmp]; try discriminate; [reflexivity|].
  destruct (b2n x ?= b2n y) eqn:E; try discriminate. intros H.
  apply N.compare_eq in E. f_equal; [|apply IH; exact H].
  rewrite <- (n2b_b2n x), <- (n2b_b2n y), E. reflexivity.
Qed.
Lemma msg_bytes_eqb_eq a b : msg_bytes_eqb a b = true -> a = b.
Proof. unfold msg_bytes_eqb. destruct (msg_bytes_cmp a b) eqn:E; try discriminate. intros _. now apply msg_bytes_cmp_eq. Qed.

(* ---------- the statement proved by induction on values ---------- *)
Section Main.
  Variable slow : bool.
  Variable S : schema.
  Notation dm := (msg_decode_msg slow S).
  Notation eb := (msg_enc_body S).

  (* what follows the body: nothing (top level, length-delimited), or the end-group tag *)
  Definition msg_term_ok (grp : N) (term rest : list byte) : Prop :=
    (grp = 0 /\ term = [] /\ rest = []) \/
    (slow = false /\ 1 <= grp /\ grp <= msg_max_num /\ term = enc_tag grp 4 ++ rest).

  Definition msg_dec_stmt (v : value) : Prop :=
    forall dep tid, msg_typed slow S dep tid v = true -> msg_sizes_ok S tid v = true ->
    forall grp term rest g, msg_term_ok grp term rest ->
      (length (eb tid v ++ term) < length g)%nat ->
      dm dep tid grp g (eb tid v ++ term) ([], []) = DOk (msg_macc_of v, rest).

  Definition msg_dec_stmt_deep (v : value) : Prop :=
    msg_dec_stmt v /\ match v with VEntry _ v' => msg_dec_stmt v' | _ => True end.

  Lemma msg_old_sub_fresh fd accf :
    card_repeated (f_card fd) = true \/ msg_fget accf (f_num fd) = [] ->
    msg_old_sub fd accf = ([], []).
  Proof.
    unfold msg_old_sub. intros [H|H]; [rewrite H; reflexivity|].
    destruct (card_repeated (f_card fd)); [reflexivity|]. rewrite H. reflexivity.
  Qed.

  Lemma msg_body_len tid v :
    msg_sizes_ok S tid v = true -> msg_size_body S tid v <? msg_two64 = true ->
    N.of_nat (length (eb tid v)) < 2^64.
  Proof.
    intros Hok Hlt. pose proof (msg_size_eq_length S tid v Hok) as E. unfold msg_encode in E.
    rewrite <- E. rewrite <- msg_two64_eq. lia.
  Qed.

  Section InMessage.
    Variables (d : nat) (tid : nat) (md : mdesc) (grp : N).
    Hypothesis Hmd : nth_error S tid = Some md.

    Lemma msg_elem_step fd v accf u tail g :
      msg_find_field md (f_num fd) = Some fd -> msg_not_map fd ->
      1 <= f_num fd -> f_num fd <= msg_max_num ->
      msg_typed_elem slow (msg_enc_body S) (msg_typed slow S d) fd v = true ->
      msg_szok_elem (msg_size_body S) (msg_sizes_ok S) (f_kind fd) v = true ->
      msg_dec_stmt v ->
      (card_repeated (f_card fd) = true \/ msg_fget accf (f_num fd) = []) ->
      (length (msg_enc_elem eb (f_num fd) (f_kind fd) v ++ tail) < length g)%nat ->
      exists g2, (length tail < length g2)%nat /\
        dm (Datatypes.S d) tid grp g (msg_enc_elem eb (f_num fd) (f_kind fd) v ++ tail) (accf, u) =
        dm (Datatypes.S d) tid grp g2 tail
           ((if card_repeated (f_card fd) then msg_append_field fd [v] accf else msg_set_field md fd v accf), u).
    Proof.
      intros Hf Hnm Hlo Hhi Hty Hsz Hstmt Hold Hg.
      unfold msg_typed_elem in Hty. unfold msg_enc_elem, msg_szok_elem in *.
      destruct (f_kind fd) as [sk|t|t] eqn:Hk; destruct v as [s|fs' u'|k0 v0]; try discriminate.
      - (* scalar *)
        apply andb_true_iff in Hty. destruct Hty as [Hok Hstr].
        rewrite <- app_assoc in *.
        apply (msg_dm_field slow S d tid md grp g (f_num fd) (sk_wt sk) (msg_enc_scalar sk s) tail (accf, u));
          try assumption; [destruct sk; cbn; lia|destruct sk; cbn; lia|].
        intros tagraw. apply (msg_step_scalar slow md _ _ fd sk s tagraw tail (accf, u)); assumption.
      - (* message *)
        apply andb_true_iff in Hsz. destruct Hsz as [Hsok Hslt].
        pose proof (msg_body_len t _ Hsok Hslt) as Hlen.
        rewrite <- app_assoc in *.
        apply (msg_dm_field slow S d tid md grp g (f_num fd) 2 (enc_bytes (eb t (VMsg fs' u'))) tail (accf, u));
          try assumption; [lia|lia|].
        intros tagraw.
        rewrite (msg_step_message slow md _ _ fd t (eb t (VMsg fs' u')) tail tagraw (accf, u) (fs', u')); try assumption.
        + reflexivity.
        + cbn [fst]. rewrite (msg_old_sub_fresh fd accf Hold). unfold msg_whole.
          pose proof (Hstmt d t Hty Hsok 0 [] [] (x00 :: eb t (VMsg fs' u'))) as H.
          rewrite app_nil_r in H. rewrite H; [reflexivity|left; auto|cbn [length]; lia].
      - (* group *)
        apply andb_true_iff in Hty. destruct Hty as [Hty Hmode].
        replace ((enc_tag (f_num fd) 3 ++ eb t (VMsg fs' u') ++ enc_tag (f_num fd) 4) ++ tail)
          with (enc_tag (f_num fd) 3 ++ (eb t (VMsg fs' u') ++ enc_tag (f_num fd) 4) ++ tail) in *
          by (rewrite <- !app_assoc; reflexivity).
        apply (msg_dm_field slow S d tid md grp g (f_num fd) 3 (eb t (VMsg fs' u') ++ enc_tag (f_num fd) 4) tail (accf, u));
          try assumption; [lia|lia|].
        intros tagraw.
        assert (Hcase : slow = true \/ slow = false) by (destruct slow; auto).
        destruct Hcase as [Hslow|Hslow].
        + (* reflection path: ConsumeGroup, then the content as a message *)
          rewrite Hslow in Hmode. cbn [negb orb] in Hmode. unfold msg_group_scans in Hmode.
          destruct (parse_val default_dep (f_num fd) 3 (eb t (VMsg fs' u') ++ enc_tag (f_num fd) 4))
            as [[w [|? ?]]|e] eqn:Hscan; try discriminate.
          rewrite <- app_assoc.
          rewrite (msg_step_group_slow slow md _ _ fd t (eb t (VMsg fs' u')) tail tagraw (accf, u) (fs', u') w);
            try assumption; try reflexivity.
          cbn [fst]. rewrite (msg_old_sub_fresh fd accf Hold). unfold msg_whole.
          pose proof (Hstmt d t Hty Hsz 0 [] [] (x00 :: eb t (VMsg fs' u'))) as H.
          rewrite app_nil_r in H. rewrite H; [reflexivity|left; auto|cbn [length]; lia].
        + rewrite (msg_step_group slow md _ _ fd t (eb t (VMsg fs' u') ++ enc_tag (f_num fd) 4) tail tagraw (accf, u) (fs', u'));
            try assumption; try reflexivity.
          cbn [fst]. rewrite (msg_old_sub_fresh fd accf Hold).
          rewrite <- !app_assoc.
          apply (Hstmt d t Hty Hsz (f_num fd) (enc_tag (f_num fd) 4 ++ tail) tail).
          * right. auto.
          * cbn [length]. lia.
    Qed.
  

    (* ---------- all values of one field ---------- *)
    Definition msg_acc_with (accf : fields) (num : N) (pre : list value) : fields :=
      match pre with [] => accf | _ => msg_fset accf num pre end.

    Lemma msg_acc_with_append accf num pre vs :
      ~ In num (msg_keys accf) -> vs <> [] ->
      msg_fset (msg_acc_with accf num pre) num (msg_fget (msg_acc_with accf num pre) num ++ vs)
      = msg_acc_with accf num (pre ++ vs).
    Proof.
      intros Hnot Hne. unfold msg_acc_with. destruct pre as [|p0 pre].
      - rewrite (msg_fget_notin _ _ Hnot). cbn [app]. destruct vs; [congruence|reflexivity].
      - rewrite msg_fget_fset_same, msg_fset_fset_same. reflexivity.
    Qed.

    Definition msg_elem_good (fd : fdesc) (v : value) : Prop :=
      msg_typed_elem slow (msg_enc_body S) (msg_typed slow S d) fd v = true /\
      msg_szok_elem (msg_size_body S) (msg_sizes_ok S) (f_kind fd) v = true /\
      msg_dec_stmt v.

    (* repeated, expanded *)
    Lemma msg_elems_step fd accf u :
      msg_find_field md (f_num fd) = Some fd -> msg_not_map fd ->
      1 <= f_num fd -> f_num fd <= msg_max_num ->
      card_repeated (f_card fd) = true -> ~ In (f_num fd) (msg_keys accf) ->
      forall vs pre tail g, Forall (msg_elem_good fd) vs ->
        (length (flat_map (fun e => msg_enc_elem eb (f_num fd) (f_kind fd) e) vs ++ tail) < length g)%nat ->
        exists g2, (length tail < length g2)%nat /\
          dm (Datatypes.S d) tid grp g (flat_map (fun e => msg_enc_elem eb (f_num fd) (f_kind fd) e) vs ++ tail)
             (msg_acc_with accf (f_num fd) pre, u) =
          dm (Datatypes.S d) tid grp g2 tail (msg_acc_with accf (f_num fd) (pre ++ vs), u).
    Proof.
      intros Hf Hnm Hlo Hhi Hrep Hnot. induction vs as [|v vs IH]; intros pre tail g Hall Hg.
      - exists g. cbn [flat_map app] in *. rewrite app_nil_r. split; [exact Hg|reflexivity].
      - inversion Hall as [|? ? (Hty & Hsz & Hst) Hvs]; subst.
        cbn [flat_map] in *. rewrite <- app_assoc in *.
        destruct (msg_elem_step fd v (msg_acc_with accf (f_num fd) pre) u
                    (flat_map (fun e => msg_enc_elem eb (f_num fd) (f_kind fd) e) vs ++ tail) g
                    Hf Hnm Hlo Hhi Hty Hsz Hst (or_introl Hrep) Hg) as (g1 & Hg1 & E1).
        rewrite E1, Hrep. unfold msg_append_field.
        rewrite (msg_acc_with_append accf (f_num fd) pre [v] Hnot) by discriminate.
        destruct (IH (pre ++ [v]) tail g1 Hvs Hg1) as (g2 & Hg2 & E2).
        exists g2. split; [exact Hg2|]. rewrite E2. rewrite <- app_assoc. reflexivity.
    Qed.

    (* ---------- map fields ---------- *)
    Lemma msg_map_entry_step fd kk kutf8 vdef d1 key v accf u tail g :
      d = Datatypes.S d1 ->
      msg_find_field md (f_num fd) = Some fd -> f_card fd = CMap kk kutf8 vdef ->
      1 <= f_num fd -> f_num fd <= msg_max_num ->
      msg_typed_entry (msg_typed slow S d1) fd kk kutf8 (VEntry key v) = true ->
      msg_szok_entry (msg_size_body S) (msg_sizes_ok S) kk (f_kind fd) (VEntry key v) = true ->
      msg_dec_stmt v ->
      (length (msg_enc_entry eb (f_num fd) kk (f_kind fd) (VEntry key v) ++ tail) < length g)%nat ->
      exists g2, (length tail < length g2)%nat /\
        dm (Datatypes.S d) tid grp g (msg_enc_entry eb (f_num fd) kk (f_kind fd) (VEntry key v) ++ tail) (accf, u) =
        dm (Datatypes.S d) tid grp g2 tail
           (msg_fset accf (f_num fd) (msg_map_put (msg_fget accf (f_num fd)) key v), u).
    Proof.
      intros Hd Hf Hc Hlo Hhi Hty Hsz Hst Hg.
      cbn [msg_enc_entry] in *. rewrite <- app_assoc in *.
      cbn [msg_typed_entry] in Hty. cbn [msg_szok_entry] in Hsz.
      apply andb_true_iff in Hty. destruct Hty as [Hkey Hval].
      apply andb_true_iff in Hkey. destruct Hkey as [Hkok Hkstr].
      apply andb_true_iff in Hsz. destruct Hsz as [Hsz Hblen].
      apply andb_true_iff in Hsz. destruct Hsz as [Hkw Hvsz].
      (* length of the entry body *)
      assert (Hbody : N.of_nat (length (msg_enc_key kk key ++ msg_enc_elem eb 2 (f_kind fd) v)) < 2^64).
      { rewrite app_length, Nnat.Nat2N.inj_add.
        rewrite <- (msg_size_key_eq kk key Hkw).
        rewrite <- (msg_size_elem_eq (msg_size_body S) eb (msg_sizes_ok S) 2 (f_kind fd) v);
          [rewrite <- msg_two64_eq; lia|cbn; lia|apply (proj1 (msg_size_eq_deep S v))|exact Hvsz]. }
      apply (msg_dm_field slow S d tid md grp g (f_num fd) 2
               (enc_bytes (msg_enc_key kk key ++ msg_enc_elem eb 2 (f_kind fd) v)) tail (accf, u));
        try assumption; [lia|lia|].
      intros tagraw. unfold msg_step. rewrite Hf, Hc. rewrite Hd. cbn [msg_dsub2 N.eqb Pos.eqb].
      rewrite (msgw_dec_bytes_enc _ _ Hbody).
      rewrite msg_dec_entry_ok with (key := key) (v := v); [reflexivity|assumption|assumption|assumption| |cbn [length]; lia].
      destruct (f_kind fd) as [sk|t|t] eqn:Hk; destruct v as [s|fs' u'|k0 v0]; try discriminate.
      - left. exists sk, s. apply andb_true_iff in Hval. destruct Hval as [Hsok Hsstr].
        cbn [msg_szok_elem] in Hvsz. repeat split; try assumption; reflexivity.
      - right. exists t, (eb t (VMsg fs' u')).
        cbn [msg_szok_elem] in Hvsz. apply andb_true_iff in Hvsz. destruct Hvsz as [Hsok Hslt].
        repeat split; [apply (msg_body_len t _ Hsok Hslt)|].
        cbn [msg_entry_default msg_empty msg_macc_of]. unfold msg_whole.
        pose proof (Hst d1 t Hval Hsok 0 [] [] (x00 :: eb t (VMsg fs' u'))) as H.
        rewrite app_nil_r in H. rewrite H; [reflexivity|left; auto|cbn [length]; lia].
    Qed.

    Lemma msg_fget_acc_with accf num pre :
      ~ In num (msg_keys accf) -> msg_fget (msg_acc_with accf num pre) num = pre.
    Proof.
      intros H. unfold msg_acc_with. destruct pre; [apply msg_fget_notin; exact H|apply msg_fget_fset_same].
    Qed.

    Lemma msg_fset_acc_with accf num pre x :
      x <> [] -> msg_fset (msg_acc_with accf num pre) num x = msg_acc_with accf num x.
    Proof.
      intros H. unfold msg_acc_with. destruct pre; destruct x; try congruence; try reflexivity.
      apply msg_fset_fset_same.
    Qed.

    Definition msg_entry_good (fd : fdesc) (kk : skind) (kutf8 : bool) (d1 : nat) (e : value) : Prop :=
      msg_typed_entry (msg_typed slow S d1) fd kk kutf8 e = true /\
      msg_szok_entry (msg_size_body S) (msg_sizes_ok S) kk (f_kind fd) e = true /\
      msg_dec_stmt_deep e.

    Definition msg_before (pre es : list value) : Prop :=
      Forall (fun e' => match e' with VEntry k' _ => msg_keys_after k' es = true | _ => False end) pre.

    Lemma msg_entries_step fd kk kutf8 vdef d1 accf u :
      d = Datatypes.S d1 ->
      msg_find_field md (f_num fd) = Some fd -> f_card fd = CMap kk kutf8 vdef ->
      1 <= f_num fd -> f_num fd <= msg_max_num -> ~ In (f_num fd) (msg_keys accf) ->
      forall es pre tail g,
        Forall (msg_entry_good fd kk kutf8 d1) es -> msg_entries_sorted es = true -> msg_before pre es ->
        (length (flat_map (fun e => msg_enc_entry eb (f_num fd) kk (f_kind fd) e) es ++ tail) < length g)%nat ->
        exists g2, (length tail < length g2)%nat /\
          dm (Datatypes.S d) tid grp g (flat_map (fun e => msg_enc_entry eb (f_num fd) kk (f_kind fd) e) es ++ tail)
             (msg_acc_with accf (f_num fd) pre, u) =
          dm (Datatypes.S d) tid grp g2 tail (msg_acc_with accf (f_num fd) (pre ++ es), u).
    Proof.
      intros Hd Hf Hc Hlo Hhi Hnot. induction es as [|e es IH]; intros pre tail g Hall Hsorted Hpre Hg.
      - exists g. cbn [flat_map app] in *. rewrite app_nil_r. split; [exact Hg|reflexivity].
      - pose proof (Forall_inv Hall) as (Hty & Hsz & Hst). pose proof (Forall_inv_tail Hall) as Hes.
        destruct e as [s|fs' u'|key v]; try (cbn [msg_typed_entry] in Hty; discriminate).
        cbn [msg_entries_sorted] in Hsorted. apply andb_true_iff in Hsorted. destruct Hsorted as [Hafter Hsorted].
        cbn [flat_map] in *. rewrite <- app_assoc in *.
        destruct Hst as [_ Hstv].
        destruct (msg_map_entry_step fd kk kutf8 vdef d1 key v (msg_acc_with accf (f_num fd) pre) u
                    (flat_map (fun e => msg_enc_entry eb (f_num fd) kk (f_kind fd) e) es ++ tail) g
                    Hd Hf Hc Hlo Hhi Hty Hsz Hstv Hg) as (g1 & Hg1 & E1).
        rewrite E1. rewrite (msg_fget_acc_with accf (f_num fd) pre Hnot).
        rewrite msg_map_put_last.
        2:{ unfold msg_before in Hpre. eapply Forall_impl; [|exact Hpre].
            intros e' He'. destruct e' as [|?|k' v']; try contradiction.
            cbn [msg_keys_after forallb] in He'. apply andb_true_iff in He'. destruct He' as [He' _].
            destruct (msg_scmp key k'); try discriminate. reflexivity. }
        rewrite msg_fset_acc_with by (destruct pre; discriminate).
        destruct (IH (pre ++ [VEntry key v]) tail g1 Hes Hsorted) as (g2 & Hg2 & E2); [|exact Hg1|].
        + unfold msg_before in *. apply Forall_app. split.
          * eapply Forall_impl; [|exact Hpre]. intros e' He'. destruct e' as [|?|k' v']; try contradiction.
            cbn [msg_keys_after forallb] in He'. apply andb_true_iff in He'. destruct He' as [_ He']. exact He'.
          * constructor; [exact Hafter|constructor].
        + exists g2. split; [exact Hg2|]. rewrite E2. rewrite <- app_assoc. reflexivity.
    Qed.

    (* ---------- one field with all its values ---------- *)
    Notation tv2 := (fun t x => match d with O => false | Datatypes.S d1 => msg_typed slow S d1 t x end).
    Notation has2 := (match d with O => false | _ => true end).

    Lemma msg_elem_good_of fd vs :
      forallb (msg_typed_elem slow (msg_enc_body S) (msg_typed slow S d) fd) vs = true ->
      forallb (msg_szok_elem (msg_size_body S) (msg_sizes_ok S) (f_kind fd)) vs = true ->
      Forall msg_dec_stmt_deep vs ->
      Forall (msg_elem_good fd) vs.
    Proof.
      intros H1 H2 H3. rewrite forallb_forall in H1, H2. rewrite Forall_forall in *.
      intros v Hv. repeat split; [apply H1, Hv|apply H2, Hv|apply (proj1 (H3 v Hv))].
    Qed.

    Lemma msg_field_step fd vs accf u tail g :
      msg_find_field md (f_num fd) = Some fd ->
      msg_typed_field slow (msg_enc_body S) (msg_typed slow S d) tv2 has2 fd vs = true ->
      msg_szok_field (msg_size_body S) (msg_sizes_ok S) fd vs = true ->
      Forall msg_dec_stmt_deep vs ->
      ~ In (f_num fd) (msg_keys accf) ->
      msg_oneof_free md fd (f_num fd :: msg_keys accf) ->
      (length (msg_enc_field eb fd vs ++ tail) < length g)%nat ->
      exists g2, (length tail < length g2)%nat /\
        dm (Datatypes.S d) tid grp g (msg_enc_field eb fd vs ++ tail) (accf, u) =
        dm (Datatypes.S d) tid grp g2 tail (msg_fset accf (f_num fd) vs, u).
    Proof.
      intros Hf Hty Hsz Hdeep Hnot Hfree Hg.
      unfold msg_typed_field in Hty. unfold msg_szok_field in Hsz. unfold msg_enc_field in *.
      apply andb_true_iff in Hty. destruct Hty as [Hnum Hty].
      apply andb_true_iff in Hnum. destruct Hnum as [Hlo Hhi].
      apply andb_true_iff in Hsz. destruct Hsz as [_ Hsz].
      assert (Hlo' : 1 <= f_num fd) by lia. assert (Hhi' : f_num fd <= msg_max_num) by lia.
      assert (Hfget : msg_fget accf (f_num fd) = []) by (apply msg_fget_notin; exact Hnot).
      (* singular fields *)
      assert (Hsingle : forall v, vs = [v] -> msg_not_map fd -> card_repeated (f_card fd) = false ->
                msg_typed_elem slow (msg_enc_body S) (msg_typed slow S d) fd v = true ->
                (match f_card fd, v with CImp, VS s => msg_scalar_is_zero s = false | _, _ => True end) ->
                forallb (msg_szok_elem (msg_size_body S) (msg_sizes_ok S) (f_kind fd)) vs = true ->
                (length (flat_map (fun e => msg_enc_elem eb (f_num fd) (f_kind fd) e) vs ++ tail) < length g)%nat ->
                exists g2, (length tail < length g2)%nat /\
                  dm (Datatypes.S d) tid grp g (flat_map (fun e => msg_enc_elem eb (f_num fd) (f_kind fd) e) vs ++ tail) (accf, u) =
                  dm (Datatypes.S d) tid grp g2 tail (msg_fset accf (f_num fd) vs, u)).
      { intros v -> Hnm Hrep Htyv Hz Hszv Hgv. cbn [flat_map forallb] in *. rewrite app_nil_r in *.
        apply andb_true_iff in Hszv. destruct Hszv as [Hszv _].
        pose proof (Forall_inv Hdeep) as [Hstv _].
        destruct (msg_elem_step fd v accf u tail g Hf Hnm Hlo' Hhi' Htyv Hszv Hstv (or_intror Hfget) Hgv)
          as (g2 & Hg2 & E).
        exists g2. split; [exact Hg2|]. rewrite E, Hrep.
        rewrite (msg_set_field_fresh md fd v accf Hz Hfree). reflexivity. }
      (* repeated, expanded *)
      assert (Hexp : msg_not_map fd -> card_repeated (f_card fd) = true -> vs <> [] ->
                forallb (msg_typed_elem slow (msg_enc_body S) (msg_typed slow S d) fd) vs = true ->
                forallb (msg_szok_elem (msg_size_body S) (msg_sizes_ok S) (f_kind fd)) vs = true ->
                (length (flat_map (fun e => msg_enc_elem eb (f_num fd) (f_kind fd) e) vs ++ tail) < length g)%nat ->
                exists g2, (length tail < length g2)%nat /\
                  dm (Datatypes.S d) tid grp g (flat_map (fun e => msg_enc_elem eb (f_num fd) (f_kind fd) e) vs ++ tail) (accf, u) =
                  dm (Datatypes.S d) tid grp g2 tail (msg_fset accf (f_num fd) vs, u)).
      { intros Hnm Hrep Hne Htyv Hszv Hgv.
        destruct (msg_elems_step fd accf u Hf Hnm Hlo' Hhi' Hrep Hnot vs [] tail g
                    (msg_elem_good_of fd vs Htyv Hszv Hdeep) Hgv) as (g2 & Hg2 & E).
        exists g2. split; [exact Hg2|]. cbn [msg_acc_with app] in E. rewrite E.
        destruct vs; [congruence|reflexivity]. }
      destruct (f_card fd) as [| | | | |kk kutf8 vdef] eqn:Hc.
      - (* optional *)
        destruct vs as [|v [|]]; try discriminate.
        apply (Hsingle v eq_refl); try assumption; try reflexivity; try (rewrite Hc; reflexivity);
          try (intros ? ? ?; try rewrite Hc; discriminate); try exact I; try (rewrite Hc; exact I).
      - (* implicit *)
        destruct vs as [|v [|]]; try discriminate.
        apply andb_true_iff in Hty. destruct Hty as [Hty Hnz].
        apply (Hsingle v eq_refl); try assumption; try reflexivity; try (rewrite Hc; reflexivity);
          try (intros ? ? ?; try rewrite Hc; discriminate).
        try rewrite Hc. destruct v as [s| |]; try exact I. destruct (f_kind fd); try discriminate.
        apply negb_true_iff in Hnz. exact Hnz.
      - (* required *)
        destruct vs as [|v [|]]; try discriminate.
        apply (Hsingle v eq_refl); try assumption; try reflexivity; try (rewrite Hc; reflexivity);
          try (intros ? ? ?; try rewrite Hc; discriminate); try exact I; try (rewrite Hc; exact I).
      - (* repeated *)
        apply Hexp; try assumption; try reflexivity; try (rewrite Hc; reflexivity);
          try (intros ? ? ?; try rewrite Hc; discriminate);
          destruct vs; try discriminate; assumption.
      - (* packed *)
        assert (Hne : vs <> []) by (destruct vs; [discriminate|discriminate]).
        assert (Htyv : forallb (msg_typed_elem slow (msg_enc_body S) (msg_typed slow S d) fd) vs = true)
          by (destruct vs; [discriminate|exact Hty]).
        destruct (f_kind fd) as [sk|t|t] eqn:Hk.
        + destruct vs as [|v0 vs']; [congruence|].
          destruct (msg_packable sk) eqn:Hp.
          * apply andb_true_iff in Hsz. destruct Hsz as [Hszv Hplen].
            pose proof (msg_packed_eq (msg_size_body S) (msg_sizes_ok S) sk (v0 :: vs')) as Hpe.
            specialize (Hpe Hszv).
            assert (Hlen : N.of_nat (length (msg_enc_packed_payload sk (v0 :: vs'))) < 2^64)
              by (rewrite <- Hpe, <- msg_two64_eq; lia).
            rewrite <- app_assoc in *.
            destruct (msg_dm_field slow S d tid md grp g (f_num fd) 2
                        (enc_bytes (msg_enc_packed_payload sk (v0 :: vs'))) tail (accf, u)
                        ((msg_append_field fd (v0 :: vs') accf), u) Hmd Hlo' Hhi') as (g2 & Hg2 & E);
              [lia|lia| |exact Hg|].
            -- intros tagraw.
               apply (msg_step_packed slow md _ _ fd sk (v0 :: vs') tagraw tail (accf, u)); try assumption.
               ++ rewrite Hc. reflexivity.
               ++ rewrite forallb_forall in Htyv, Hszv. apply Forall_forall. intros v Hv.
                  specialize (Htyv v Hv). specialize (Hszv v Hv).
                  unfold msg_typed_elem in Htyv. try rewrite Hk in Htyv.
                  destruct v as [s| |]; try discriminate. cbn [msg_szok_elem] in Hszv.
                  apply andb_true_iff in Htyv. destruct Htyv as [Hok _]. split; assumption.
            -- exists g2. split; [exact Hg2|]. rewrite E. unfold msg_append_field. rewrite Hfget. reflexivity.
          * apply Hexp; try assumption; try reflexivity; try (rewrite Hc; reflexivity);
              try (intros ? ? ?; try rewrite Hc; discriminate).
        + apply Hexp; try assumption; try reflexivity; try (rewrite Hc; reflexivity);
            try (intros ? ? ?; try rewrite Hc; discriminate).
        + apply Hexp; try assumption; try reflexivity; try (rewrite Hc; reflexivity);
            try (intros ? ? ?; try rewrite Hc; discriminate).
      - (* map *)
        apply andb_true_iff in Hty. destruct Hty as [Hty Hsorted].
        apply andb_true_iff in Hty. destruct Hty as [Hhas2 Hty].
        assert (Hd : exists d1, d = Datatypes.S d1) by (destruct d; [discriminate|eexists; reflexivity]).
        destruct Hd as (d1 & Hd).
        assert (Htye : forallb (msg_typed_entry (msg_typed slow S d1) fd kk kutf8) vs = true).
        { destruct vs; [discriminate|]. rewrite Hd in Hty. exact Hty. }
        destruct (msg_entries_step fd kk kutf8 vdef d1 accf u Hd Hf Hc Hlo' Hhi' Hnot vs [] tail g) as (g2 & Hg2 & E);
          [ |exact Hsorted|constructor|exact Hg|].
        + rewrite forallb_forall in Htye, Hsz. rewrite Forall_forall in *.
          intros e He. repeat split; [apply Htye, He|apply Hsz, He|apply (proj1 (Hdeep e He))|apply (proj2 (Hdeep e He))].
        + exists g2. split; [exact Hg2|]. cbn [msg_acc_with app] in E. rewrite E.
          destruct vs; [discriminate|reflexivity].
    Qed.

    (* ---------- all fields, in any order ---------- *)
    Definition msg_chunk_good (p : N * list value) : Prop :=
      msg_typed_chunk slow (msg_enc_body S) (msg_typed slow S d) tv2 has2 md p = true /\
      msg_szok_chunk (msg_size_body S) (msg_sizes_ok S) md p = true /\
      Forall msg_dec_stmt_deep (snd p).

    Lemma msg_nodup_step k (P : fields) accf vs :
      NoDup (k :: msg_keys P ++ msg_keys accf) -> NoDup (msg_keys P ++ msg_keys (msg_fset accf k vs)).
    Proof.
      intros Hnd. inversion Hnd as [|? ? Hnotin Hnd']; subst.
      assert (Hk : ~ In k (msg_keys accf)) by (intros Hin; apply Hnotin, in_or_app; right; exact Hin).
      eapply Permutation_NoDup; [|exact Hnd].
      etransitivity; [apply Permutation_middle|].
      apply Permutation_app_head. unfold msg_keys.
      rewrite (Permutation_map fst (msg_fset_perm accf k vs Hk)). reflexivity.
    Qed.

    Lemma msg_chunks_step fs :
      msg_oneofs_ok md fs = true ->
      forall P accf u tail g,
        Forall msg_chunk_good P -> (forall p, In p P -> In p fs) ->
        NoDup (msg_keys P ++ msg_keys accf) ->
        (forall k, In k (msg_keys accf) -> In k (msg_keys fs)) ->
        (length (flat_map (fun p => snd (msg_enc_chunk eb md p)) P ++ tail) < length g)%nat ->
        exists g2, (length tail < length g2)%nat /\
          dm (Datatypes.S d) tid grp g (flat_map (fun p => snd (msg_enc_chunk eb md p)) P ++ tail) (accf, u) =
          dm (Datatypes.S d) tid grp g2 tail (msg_ins_all P accf, u).
    Proof.
      intros Hone. induction P as [|p P IH]; intros accf u tail g Hgood Hin Hnd Hsub Hg.
      - exists g. cbn [flat_map app] in *. split; [exact Hg|reflexivity].
      - pose proof (Forall_inv Hgood) as (Hty & Hsz & Hdeep). pose proof (Forall_inv_tail Hgood) as HgoodP.
        cbn [flat_map] in *. rewrite <- app_assoc in *.
        unfold msg_typed_chunk in Hty. unfold msg_szok_chunk in Hsz. unfold msg_enc_chunk in *.
        destruct (msg_find_field md (fst p)) as [fd|] eqn:Hf; [|discriminate].
        pose proof (msg_find_field_num _ _ _ Hf) as Hnum.
        cbn [snd] in *.
        cbn [msg_keys map app] in Hnd. fold (msg_keys P) in Hnd.
        assert (Hnot : ~ In (f_num fd) (msg_keys accf)).
        { rewrite Hnum. inversion Hnd as [|? ? Hn _]; subst. intros Hk. apply Hn, in_or_app. right. exact Hk. }
        assert (Hfree : msg_oneof_free md fd (f_num fd :: msg_keys accf)).
        { pose proof (msg_oneofs_ok_free md fs p fd Hone (Hin p (or_introl eq_refl)) Hf) as Hfr.
          intros oi Hoi fd' Hin' Hoi' Hne Hk. apply (Hfr oi Hoi fd' Hin' Hoi' Hne).
          destruct Hk as [Hk|Hk]; [congruence|apply Hsub; exact Hk]. }
        rewrite <- Hnum in Hf.
        destruct (msg_field_step fd (snd p) accf u
                    (flat_map (fun p0 => snd (match msg_find_field md (fst p0) with
                                              | Some fd0 => (msg_legacy_key fd0, msg_enc_field eb fd0 (snd p0))
                                              | None => (0, []) end)) P ++ tail) g
                    Hf Hty Hsz Hdeep Hnot Hfree Hg) as (g1 & Hg1 & E1).
        rewrite E1.
        destruct (IH (msg_fset accf (f_num fd) (snd p)) u tail g1 HgoodP) as (g2 & Hg2 & E2).
        + intros q Hq. apply Hin. right. exact Hq.
        + rewrite Hnum. apply msg_nodup_step. exact Hnd.
        + intros k Hk. apply msg_keys_fset in Hk. destruct Hk as [->|Hk]; [|apply Hsub; exact Hk].
          rewrite Hnum. apply (in_map fst fs p). apply Hin. left. reflexivity.
        + exact Hg1.
        + exists g2. split; [exact Hg2|]. rewrite E2. rewrite Hnum. reflexivity.
    Qed.

    (* ---------- the unknown section (not inside a group) ---------- *)
    Lemma msg_rejects_step tagraw num typ r acc :
      msg_rejects md has2 num typ = true ->
      msg_step slow md (dm d) (msg_dsub2 slow S d) tagraw num typ r acc = msg_unknown tagraw num typ r acc.
    Proof.
      unfold msg_rejects, msg_step. destruct (msg_find_field md num) as [fd|]; [|reflexivity].
      destruct (f_card fd) as [| | | | |kk ku vd];
        try (destruct (f_kind fd) as [sk|t|t]; intros H;
             [ apply andb_true_iff in H; destruct H as [H1 H2];
               apply negb_true_iff in H1; apply negb_true_iff in H2; rewrite H1;
               try rewrite H2;
               repeat match goal with
                      | H : (?a && ?b && ?c) = false |- context [?a && ?b && ?c] => rewrite H
                      end; try reflexivity
             | apply negb_true_iff in H; rewrite H; reflexivity
             | apply negb_true_iff in H; rewrite H; reflexivity ]).
      - (* CImp etc. handled above; this is the map case *)
        intros H. apply andb_true_iff in H. destruct H as [H1 H2]. apply negb_true_iff in H2.
        destruct d; [discriminate|]. cbn [msg_dsub2]. rewrite H2. reflexivity.
    Qed.

    Lemma msg_firstn_app_le (n : nat) (a b : list byte) : (n <= length a)%nat -> firstn n (a ++ b) = firstn n a.
    Proof. intros H. rewrite firstn_app. replace (n - length a)%nat with 0%nat by lia. cbn [firstn]. apply app_nil_r. Qed.

    Lemma msg_unknown_loop : forall gf u g accf pre tail,
      msg_unknown_ok slow md has2 gf u = true -> (length (u ++ tail) < length g)%nat ->
      exists g2, (length tail < length g2)%nat /\
        dm (Datatypes.S d) tid grp g (u ++ tail) (accf, pre) = dm (Datatypes.S d) tid grp g2 tail (accf, pre ++ u).
    Proof.
      induction gf as [|x0 gf IH]; intros u g accf pre tail Hok Hg; [discriminate|].
      destruct u as [|b0 u0].
      - exists g. cbn [app] in *. rewrite app_nil_r. split; [exact Hg|reflexivity].
      - destruct g as [|x g]; [cbn in Hg; lia|].
        cbn [msg_unknown_ok] in Hok.
        destruct (dec_tag (b0 :: u0)) as [[[num typ] r]|e] eqn:Hdt; [|discriminate].
        destruct (parse_val default_dep num typ r) as [[w r']|e] eqn:Hpv; [|discriminate].
        repeat (apply andb_true_iff in Hok; destruct Hok as [Hok ?]).
        rename H into Hrec. rename H0 into Hlt. rename H1 into Heq2. rename H2 into Heq1. rename H3 into Hrej.
        rename H4 into Ht4.
        apply msg_bytes_eqb_eq in Heq2.
        destruct (msgw_dec_tag_ext _ tail _ _ _ Hdt) as [Hdt' Hlr].
        destruct (msgw_parse_val_ext _ _ _ _ tail _ _ Hpv) as [Hpv' Hlr'].
        rewrite (msg_dm_unfold slow S d tid grp md x g ((b0 :: u0) ++ tail) (accf, pre) Hmd).
        cbn [app]. change (b0 :: u0 ++ tail) with ((b0 :: u0) ++ tail).
        rewrite Hdt'.
        replace (msg_max_num <? num) with false by lia.
        apply negb_true_iff in Ht4. rewrite Ht4. cbn [andb]. cbv zeta.
        rewrite (msg_rejects_step _ num typ (r ++ tail) (accf, pre) Hrej).
        unfold msg_unknown. rewrite Hpv'. cbn [fst snd].
        destruct (IH r' g accf (pre ++ (if slow then firstn (length ((b0 :: u0) ++ tail) - length (r ++ tail)) ((b0 :: u0) ++ tail)
                                        else enc_tag num typ)
                                 ++ firstn (length (r ++ tail) - length (r' ++ tail)) (r ++ tail)) tail Hrec)
          as (g2 & Hg2 & E).
        + rewrite app_length in *. cbn [length] in *. lia.
        + exists g2. split; [exact Hg2|]. rewrite E. f_equal. f_equal.
          rewrite <- !app_assoc. f_equal.
          rewrite !app_length.
          replace (length r + length tail - (length r' + length tail))%nat with (length r - length r')%nat by lia.
          rewrite (msg_firstn_app_le (length r - length r') r tail) by lia.
          destruct slow.
          * replace (length (b0 :: u0) + length tail - (length r + length tail))%nat
              with (length (b0 :: u0) - length r)%nat by lia.
            rewrite (msg_firstn_app_le (length (b0 :: u0) - length r) (b0 :: u0) tail) by lia.
            apply msg_bytes_eqb_eq in Heq1. rewrite Heq2. exact Heq1.
          * apply msg_bytes_eqb_eq in Heq1. rewrite Heq2. exact Heq1.
    Qed.
  End InMessage.

  (* ---------- the induction over values ---------- *)
  Lemma msg_dec_stmt_all : forall v, msg_dec_stmt_deep v.
  Proof.
    induction v as [s|fs unk IH|k v IH] using msg_value_ind.
    - split; [|exact I]. intros dep tid Hty. discriminate.
    - split; [|exact I]. intros dep tid Hty Hsz grp term rest g Hterm Hg.
      destruct (msg_typed_unfold slow S dep tid fs unk Hty) as (d & md & -> & Hmd & Hsorted & Hchunks & Hone & Hunk).
      pose proof (msg_sizes_ok_unfold S tid fs unk Hsz) as Hszc.
      rewrite (msg_nth_error_nth S tid md Hmd) in Hszc.
      destruct (msg_enc_body_perm S tid fs unk) as (P & Hperm & Ebody).
      rewrite Ebody in *. rewrite (msg_nth_error_nth S tid md Hmd) in *. rewrite <- app_assoc in *.
      apply msg_keys_sorted_spec in Hsorted.
      assert (HinP : forall p, In p P -> In p fs) by (intros p Hp; eapply Permutation_in; [exact Hperm|exact Hp]).
      rewrite forallb_forall in Hchunks, Hszc.
      assert (Hgood : Forall (msg_chunk_good d md) P).
      { apply Forall_forall. intros p Hp. specialize (HinP p Hp). repeat split.
        - apply Hchunks, HinP.
        - apply Hszc, HinP.
        - rewrite Forall_forall in IH. apply IH, HinP. }
      assert (Hnd : NoDup (msg_keys P ++ msg_keys [])).
      { cbn [msg_keys map]. rewrite app_nil_r. eapply Permutation_NoDup.
        - apply Permutation_sym. apply (Permutation_map fst). exact Hperm.
        - eapply msg_sorted_nodup. exact Hsorted. }
      destruct (msg_chunks_step d tid md grp Hmd fs Hone P [] [] (unk ++ term) g Hgood HinP Hnd) as (g2 & Hg2 & E);
        [intros k []|exact Hg|].
      etransitivity; [exact E|]. clear E.
      assert (Hins : msg_ins_all P [] = fs).
      { destruct (msg_ins_all_props P [] 0) as [Hs Hp]; [exact Hnd|exact I| |].
        - intros k Hk. apply (msg_sorted_keys_gt 0 fs Hsorted).
          eapply Permutation_in; [apply (Permutation_map fst); exact Hperm|exact Hk].
        - rewrite app_nil_r in Hp.
          eapply msg_sorted_perm_eq; [exact Hs|exact Hsorted|]. rewrite Hp. exact Hperm. }
      rewrite Hins. cbn [msg_macc_of].
      destruct (msg_unknown_loop d tid md grp Hmd (x00 :: unk) unk g2 fs [] term Hunk Hg2) as (g3 & Hg3 & E3).
      etransitivity; [exact E3|]. clear E3. cbn [app].
      destruct Hterm as [(-> & -> & ->)|(Hsl & Hlo & Hhi & ->)].
      + apply (msg_dm_end0 slow S d tid md g3 (fs, unk) Hmd). lia.
      + apply (msg_dm_end_grp slow S d tid md grp g3 rest (fs, unk) Hsl Hmd Hlo Hhi). lia.
    - split; [intros dep tid Hty; discriminate|]. exact (proj1 IH).
  Qed.
End Main.

(* ---------- C03 ---------- *)
Theorem msg_roundtrip slow S limit tid v :
  msg_valid slow S limit tid v = true ->
  msg_decode slow S limit tid (msg_encode S tid v) = DOk v.
Proof.
  unfold msg_valid. intros H. apply andb_true_iff in H. destruct H as [Hsz Hty].
  unfold msg_decode, msg_decode_into, msg_encode. cbn [msg_empty msg_macc_of].
  pose proof (proj1 (msg_dec_stmt_all slow S v) limit tid Hty Hsz 0 [] [] (x00 :: msg_enc_body S tid v)) as H.
  rewrite app_nil_r in H. rewrite H; [|left; auto|cbn [length]; lia].
  destruct v; try discriminate. reflexivity.
Qed.

(* encoding is injective on canonical values (used by the determinism properties) *)
Corollary msg_encode_injective slow S limit tid v1 v2 :
  msg_valid slow S limit tid v1 = true -> msg_valid slow S limit tid v2 = true ->
  msg_encode S tid v1 = msg_encode S tid v2 -> v1 = v2.
Proof.
  intros H1 H2 E. pose proof (msg_roundtrip slow S limit tid v1 H1) as R1.
  pose proof (msg_roundtrip slow S limit tid v2 H2) as R2. rewrite E in R1. rewrite R1 in R2.
  now inversion R2.
Qed.

(* FB3: the reflection path rejects what the table-driven path round-trips *)
Theorem msg_fb3_witness :
  exists (S : schema) (v : value),
    msg_valid false S 2 0 v = true /\
    msg_decode false S 2 0 (msg_encode S 0 v) = DOk v /\
    msg_decode true S 2 0 (msg_encode S 0 v) = DErr DParse.
Proof.
  exists MsgExample.fb3_schema, (MsgExample.fb3_msg (N.to_nat 10001)).
  assert (Hv : msg_valid false MsgExample.fb3_schema 2 0 (MsgExample.fb3_msg (N.to_nat 10001)) = true)
    by (vm_compute; reflexivity).
  split; [exact Hv|]. split; [apply msg_roundtrip; exact Hv|]. vm_compute. reflexivity.
Qed.
