(* ValidateMsgModel — model of the wire-format validator internal/impl/validate.go
   (MessageInfo.validate, the fast-path validator that lazy decoding relies on), of
   proto.CheckInitialized on decoded values, and of the error class of proto.Unmarshal.
   Definitions only.

   Two presentations of the validator:

   (B) [vr_msg] -- recursive descent, same shape as the decoder [msg_decode_msg] of Msg/MsgDec.v
       (table-driven path, slow = false): one tag loop per message / group / map entry, the
       recursion limit counted exactly as in the Go code (one level per message, group and map
       entry; depth exhausted = Invalid).  This is the presentation the theorems of
       Msg/ValidateMsgP.v relate to the decoder.

   (A) [vm_run] -- the explicit-stack state machine of the Go code: a stack of states
       (message / group / map entry, with endGroup, tail, requiredMask as the list of required
       numbers seen), the unrolled 10-byte varint skip and the one/two-byte fast paths for tags
       and lengths, depth ++/-- on push and pop.  (A) = (B) is proved for whole runs on schema
       tables without dangling type indices (Msg/ValidateStackRunP.v, vs_stack_eq_recursive) and
       also checked by execution on every case of family dectot (both are computed, a
       difference fails the case).

   Results: [VOk init quirk rest]
     init   the [initialized] output (every message state closed with all its required fields
            seen with a compatible wire type; map entries whose value type has required fields
            of its own must contain the value field)
     quirk  a map-typed field occurred with a wire type other than LEN in a message that sits
            exactly at the recursion limit: the Go validator skips it as an unknown field, the
            decoder (consumeMap decrements the depth before it looks at the wire type) fails
            with the recursion-depth error (finding FWB4)
     rest   bytes after the end-group tag (group states); [] otherwise
   [VBad] = ValidationInvalid, [VFuel] = out of fuel (unreachable, proved).
   ValidationUnknown is not modelled: it needs an aberrant (non-MessageInfo) message type or a
   failing extension resolver, neither of which a schema table can express.

   Deliberate faithfulness: string payloads are UTF-8-checked iff [f_utf8] (strs.EnforceUTF8),
   also for repeated string extensions, where the table-driven decoder does not check
   ([msg_field_utf8], finding FL1). *)
From Coq Require Import List NArith ZArith Bool.
From PB Require Import Base.PBytes Wire.WireModel Msg.MsgSchema Msg.MsgValue Msg.MsgUtf8 Msg.MsgDec.
Import ListNotations.
Open Scope N_scope.

Inductive vres := VOk (init quirk : bool) (rest : list byte) | VBad | VFuel.
Definition vr_t := nat -> N -> list byte -> list byte -> vres.

(* an uninterpreted field: protowire.ConsumeFieldValue *)
Definition vr_skip (num typ : N) (r : list byte) : option (list byte) :=
  match parse_val default_dep num typ r with Ok (_, r') => Some r' | Err _ => None end.

(* packed payloads: validationTypeRepeatedVarint / Fixed32 / Fixed64 *)
Fixpoint vr_varints (g bs : list byte) : bool :=
  match g with
  | [] => false
  | _ :: g' =>
    match bs with
    | [] => true
    | _ => match dec_varint bs with Ok (_, r) => vr_varints g' r | Err _ => false end
    end
  end.
Definition vr_packed_ok (sk : skind) (payload : list byte) : bool :=
  match sk_wt sk with
  | 0 => vr_varints (x00 :: payload) payload
  | 5 => N.of_nat (length payload) mod 4 =? 0
  | 1 => N.of_nat (length payload) mod 8 =? 0
  | _ => true
  end.

Definition vr_is_string (sk : skind) : bool := match sk with SkString => true | _ => false end.

(* required fields: requiredBit / numRequiredFields / requiredMask *)
Definition vr_is_req (fd : fdesc) : bool :=
  match f_card fd with CReq => negb (f_ext fd) | _ => false end.
Definition vr_req_count (md : mdesc) : nat := length (filter vr_is_req md).
Definition vr_seen (seen : list N) (n : N) : bool := existsb (N.eqb n) seen.
(* bits.OnesCount64(requiredMask) == numRequiredFields; only the first 64 required fields have
   a bit, so a type with more of them is never reported initialized *)
Definition vr_req_ok (md : mdesc) (seen : list N) : bool :=
  Nat.leb (vr_req_count md) 64 &&
  forallb (fun fd => negb (vr_is_req fd) || vr_seen seen (f_num fd)) md.
(* does this occurrence set the field's required bit?  (compatible wire type) *)
Definition vr_marks (md : mdesc) (num typ : N) : bool :=
  match msg_find_field md num with
  | Some fd => vr_is_req fd && (typ =? kind_wt (f_kind fd))
  | None => false
  end.

Section VStep.
  Variable reqof : nat -> bool.        (* the message type has required fields of its own *)

  (* the map-entry state: fields 1 (key) and 2 (value) *)
  Fixpoint vr_entry (g : list byte) (kk : skind) (kutf8 : bool) (vk : kind) (vutf8 : bool) (vm : vr_t)
           (bs : list byte) (seenval i q : bool) {struct g} : vres :=
    match g with
    | [] => VFuel
    | _ :: g' =>
      match bs with
      | [] =>
        let need := match vk with KMsg tid => reqof tid | _ => false end in
        VOk (i && (negb need || seenval)) q []
      | _ =>
        match dec_tag bs with
        | Err _ => VBad
        | Ok (num, typ, r) =>
          if msg_max_num <? num then VBad
          else if (num =? 1) && (typ =? 2) && vr_is_string kk && kutf8 then
            match dec_bytes r with
            | Err _ => VBad
            | Ok (p, r') => if msg_utf8_valid p then vr_entry g' kk kutf8 vk vutf8 vm r' seenval i q else VBad
            end
          else if (num =? 2) && (typ =? 2) then
            match vk with
            | KMsg tid =>
              match dec_bytes r with
              | Err _ => VBad
              | Ok (p, r') =>
                match vm tid 0 (x00 :: p) p with
                | VOk i1 q1 _ => vr_entry g' kk kutf8 vk vutf8 vm r' true (i && i1) (q || q1)
                | e => e
                end
              end
            | KS sk =>
              match dec_bytes r with
              | Err _ => VBad
              | Ok (p, r') =>
                if vr_is_string sk && vutf8 && negb (msg_utf8_valid p) then VBad
                else vr_entry g' kk kutf8 vk vutf8 vm r' seenval i q
              end
            | KGrp _ =>
              match vr_skip num typ r with
              | Some r' => vr_entry g' kk kutf8 vk vutf8 vm r' seenval i q
              | None => VBad
              end
            end
          else
            match vr_skip num typ r with
            | Some r' => vr_entry g' kk kutf8 vk vutf8 vm r' seenval i q
            | None => VBad
            end
        end
      end
    end.

  Variable md : mdesc.
  Variable vsub : vr_t.            (* messages one level down *)
  Variable vsub2 : option vr_t.    (* values of map entries (two levels down); None: no depth left for the entry *)

  Definition vr_plain (num typ : N) (r : list byte) : vres :=
    match vr_skip num typ r with Some r' => VOk true false r' | None => VBad end.

  (* one field of a message / group state *)
  Definition vr_step (num typ : N) (r : list byte) : vres :=
    match msg_find_field md num with
    | None => vr_plain num typ r
    | Some fd =>
      match f_card fd with
      | CMap kk kutf8 _ =>
        if typ =? 2 then
          match vsub2 with
          | None => VBad
          | Some vm2 =>
            match dec_bytes r with
            | Err _ => VBad
            | Ok (payload, r') =>
              match vr_entry (x00 :: payload) kk kutf8 (f_kind fd) (f_utf8 fd) vm2 payload false true false with
              | VOk i q _ => VOk i q r'
              | e => e
              end
            end
          end
        else
          match vr_skip num typ r with
          | Some r' => VOk true (match vsub2 with None => true | Some _ => false end) r'
          | None => VBad
          end
      | c =>
        match f_kind fd with
        | KMsg tid =>
          if typ =? 2 then
            match dec_bytes r with
            | Err _ => VBad
            | Ok (payload, r') =>
              match vsub tid 0 (x00 :: payload) payload with
              | VOk i q _ => VOk i q r'
              | e => e
              end
            end
          else vr_plain num typ r
        | KGrp tid =>
          if typ =? 3 then vsub tid num (x00 :: r) r else vr_plain num typ r
        | KS sk =>
          if typ =? 2 then
            match dec_bytes r with
            | Err _ => VBad
            | Ok (payload, r') =>
              if vr_is_string sk && f_utf8 fd then
                (if msg_utf8_valid payload then VOk true false r' else VBad)
              else if msg_packable sk && card_repeated c then
                (if vr_packed_ok sk payload then VOk true false r' else VBad)
              else VOk true false r'
            end
          else vr_plain num typ r
        end
      end
    end.

  Variable grp : N.

  (* the tag loop of one message / group state *)
  Fixpoint vr_loop (g bs : list byte) (seen : list N) (i q : bool) {struct g} : vres :=
    match g with
    | [] => VFuel
    | _ :: g' =>
      match bs with
      | [] => if grp =? 0 then VOk (i && vr_req_ok md seen) q [] else VBad
      | _ =>
        match dec_tag bs with
        | Err _ => VBad
        | Ok (num, typ, r) =>
          if msg_max_num <? num then VBad
          else if typ =? 4 then (if num =? grp then VOk (i && vr_req_ok md seen) q r else VBad)
          else
            match vr_step num typ r with
            | VOk i1 q1 r' =>
              vr_loop g' r' (if vr_marks md num typ then num :: seen else seen) (i && i1) (q || q1)
            | e => e
            end
        end
      end
    end.
End VStep.

Definition vr_reqof (S : schema) (tid : nat) : bool :=
  match vr_req_count (nth tid S []) with O => false | _ => true end.

Fixpoint vr_msg (S : schema) (dep : nat) {struct dep} : vr_t :=
  match dep with
  | O => fun _ _ _ _ => VBad
  | Datatypes.S d => fun tid grp g bs =>
    match nth_error S tid with
    | None => VBad
    | Some md =>
      vr_loop (vr_reqof S) md (vr_msg S d)
              (match d with O => None | Datatypes.S d1 => Some (vr_msg S d1) end)
              grp g bs [] true false
    end
  end.

(* impl.Validate(mt, UnmarshalInput{Buf: bs, Depth: limit}): status (2 invalid, 3 valid; 0 = out
   of fuel), the initialized flag, the quirk flag *)
Definition vm_validate (S : schema) (limit : nat) (tid : nat) (bs : list byte) : N * bool * bool :=
  match vr_msg S limit tid 0 (x00 :: bs) bs with
  | VOk i q _ => (3, i, q)
  | VBad => (2, false, false)
  | VFuel => (0, false, false)
  end.

(* ---------- proto.CheckInitialized on canonical values ---------- *)
Section CheckInit.
  Variable ci : nat -> value -> bool.
  Definition vm_ci_chunk (md : mdesc) (p : N * list value) : bool :=
    match msg_find_field md (fst p) with
    | Some fd =>
      match f_kind fd with
      | KMsg t | KGrp t => forallb (ci t) (snd p)
      | KS _ => true
      end
    | None => true
    end.
End CheckInit.

Definition vm_req_present (md : mdesc) (fs : fields) : bool :=
  forallb (fun fd => negb (vr_is_req fd) ||
                     match msg_fget fs (f_num fd) with [] => false | _ => true end) md.

Fixpoint msg_check_init (S : schema) (tid : nat) (v : value) {struct v} : bool :=
  match v with
  | VMsg fs _ =>
    vm_req_present (nth tid S []) fs &&
    forallb (fun p => vm_ci_chunk (msg_check_init S) (nth tid S []) p) fs
  | VEntry _ v' => msg_check_init S tid v'
  | VS _ => true
  end.

(* error class of proto.Unmarshal (AllowPartial = false): 0 ok, 1 parse, 2 depth, 3 utf8,
   4 out of fuel, 5 schema, 6 required field missing *)
Definition vm_dec_class (slow : bool) (S : schema) (limit : nat) (tid : nat) (bs : list byte) : N :=
  match msg_decode slow S limit tid bs with
  | DErr e => derr_code e
  | DOk v => if msg_check_init S tid v then 0 else 6
  end.

(* ====================================================================================
   (A) the explicit-stack state machine, as written in validate.go.
   Executed next to (B) on every case of family dectot (ocaml/fam_dectot.ml fails the case when
   the two disagree); the equality (A) = (B) on whole runs is proved in Msg/ValidateStackRunP.v. *)

(* validationType *)
Inductive vm_vtype :=
| VtOther | VtMessage (tid : nat) | VtGroup (tid : nat)
| VtMap (kt : vm_vtype) (vt : vm_vtype) (vmi : option nat)
| VtRepVarint | VtRepFixed32 | VtRepFixed64 | VtVarint | VtFixed32 | VtFixed64 | VtBytes | VtUTF8.

(* newValidationInfo / newFieldValidationInfo *)
Definition vm_scalar_vtype (sk : skind) (utf8 repeated : bool) : vm_vtype :=
  match sk with
  | SkString => if utf8 then VtUTF8 else VtBytes
  | SkBytes => if repeated then VtOther else VtBytes
  | _ => match sk_wt sk with
         | 0 => if repeated then VtRepVarint else VtVarint
         | 5 => if repeated then VtRepFixed32 else VtFixed32
         | _ => if repeated then VtRepFixed64 else VtFixed64
         end
  end.
Definition vm_field_vtype (fd : fdesc) : vm_vtype :=
  match f_card fd with
  | CMap kk kutf8 _ =>
    VtMap (match kk with SkString => if kutf8 then VtUTF8 else VtOther | _ => VtOther end)
          (match f_kind fd with
           | KMsg t => VtMessage t
           | KS SkString => if f_utf8 fd then VtUTF8 else VtOther
           | _ => VtOther end)
          (match f_kind fd with KMsg t => Some t | _ => None end)
  | c =>
    match f_kind fd with
    | KMsg t => VtMessage t
    | KGrp t => VtGroup t
    | KS sk => vm_scalar_vtype sk (f_utf8 fd) (card_repeated c)
    end
  end.

(* one entry of the [states] slice *)
Record vm_state := mkVS {
  vs_typ : vm_vtype;            (* VtMessage / VtGroup / VtMap *)
  vs_end : N;                   (* endGroup *)
  vs_tail : list byte;
  vs_mask : list N              (* requiredMask: numbers (map state: 2) whose bit is set *)
}.

(* the unrolled varint skip: the first byte below 0x80 among the first ten, the tenth below 2 *)
Fixpoint vm_skip_varint_k (k : nat) (b : list byte) : option (list byte) :=
  match k with
  | O => None
  | Datatypes.S k' =>
    match b with
    | [] => None
    | x :: r =>
      match k' with
      | O => if b2n x <? 2 then Some r else None
      | _ => if b2n x <? 128 then Some r else vm_skip_varint_k k' r
      end
    end
  end.
Definition vm_skip_varint (b : list byte) := vm_skip_varint_k 10 b.

(* tags and lengths: one byte, two bytes, else protowire.ConsumeVarint *)
Definition vm_fast_varint (b : list byte) : option (N * list byte) :=
  match b with
  | [] => None
  | b0 :: r =>
    if b2n b0 <? 128 then Some (b2n b0, r)
    else match r with
         | b1 :: r' =>
           if b2n b1 <? 128 then Some (b2n b0 mod 128 + b2n b1 * 128, r')
           else match dec_varint b with Ok (v, r2) => Some (v, r2) | Err _ => None end
         | [] => match dec_varint b with Ok (v, r2) => Some (v, r2) | Err _ => None end
         end
  end.

Inductive vm_out := VmValid (init : bool) | VmInvalid | VmFuel.

Definition vm_compat (t : vm_vtype) (wtyp : N) : bool :=
  match t with
  | VtVarint => wtyp =? 0
  | VtFixed32 => wtyp =? 5
  | VtFixed64 => wtyp =? 1
  | VtBytes | VtUTF8 | VtMessage _ => wtyp =? 2
  | VtGroup _ => wtyp =? 3
  | _ => false
  end.

(* what one field does to the machine: skip to b', push a new state, or fail *)
Inductive vm_action :=
| AInvalid
| ACont (b' : list byte)
| APush (nt : vm_vtype) (e : N) (tail content : list byte).

(* the switch on the wire type (and, for LEN and SGROUP, on the validation type) *)
Definition vm_field_action (vt : vm_vtype) (num wtyp : N) (b1 : list byte) : vm_action :=
  match wtyp with
  | 0 => match vm_skip_varint b1 with Some b2 => ACont b2 | None => AInvalid end
  | 2 =>
    match vm_fast_varint b1 with
    | None => AInvalid
    | Some (size, b2) =>
      if N.of_nat (length b2) <? size then AInvalid
      else
        let v := firstn (N.to_nat size) b2 in
        let b3 := skipn (N.to_nat size) b2 in
        match vt with
        | VtMessage _ | VtMap _ _ _ => APush vt 0 b3 v
        | VtRepVarint => if vr_varints (x00 :: v) v then ACont b3 else AInvalid
        | VtRepFixed32 => if N.of_nat (length v) mod 4 =? 0 then ACont b3 else AInvalid
        | VtRepFixed64 => if N.of_nat (length v) mod 8 =? 0 then ACont b3 else AInvalid
        | VtUTF8 => if msg_utf8_valid v then ACont b3 else AInvalid
        | _ => ACont b3
        end
    end
  | 5 => match take 4 b1 with Some (_, b2) => ACont b2 | None => AInvalid end
  | 1 => match take 8 b1 with Some (_, b2) => ACont b2 | None => AInvalid end
  | 3 =>
    match vt with
    | VtGroup _ => APush vt num [] b1
    | _ => match vr_skip num 3 b1 with Some b2 => ACont b2 | None => AInvalid end
    end
  | _ => AInvalid
  end.

Section VmRun.
  Variable S : schema.

  Definition vm_md (t : vm_vtype) : mdesc :=
    match t with VtMessage tid | VtGroup tid => nth tid S [] | _ => [] end.

  (* validationInfo of field [num] in state [st]: type, required bit *)
  Definition vm_info (st : vm_state) (num : N) : vm_vtype * bool :=
    match vs_typ st with
    | VtMap kt vt _ =>
      if num =? 1 then (kt, false) else if num =? 2 then (vt, true) else (VtOther, false)
    | t =>
      match msg_find_field (vm_md t) num with
      | Some fd => (vm_field_vtype fd, vr_is_req fd)
      | None => (VtOther, false)
      end
    end.

  (* PopState: the required-field check of the state that is closed *)
  Definition vm_pop_ok (st : vm_state) : bool :=
    match vs_typ st with
    | VtMessage tid | VtGroup tid => vr_req_ok (nth tid S []) (vs_mask st)
    | VtMap _ _ (Some tid) => negb (vr_reqof S tid) || vr_seen (vs_mask st) 2
    | _ => true
    end.

  Definition vm_mark (st : vm_state) (num wtyp : N) : vm_state :=
    let '(vt, req) := vm_info st num in
    if req && vm_compat vt wtyp
    then mkVS (vs_typ st) (vs_end st) (vs_tail st) (num :: vs_mask st) else st.

  (* fuel: every iteration consumes a byte or pops a state *)
  Fixpoint vm_run (fuel : nat) (states : list vm_state) (b : list byte) (depth : nat) (init : bool) : vm_out :=
    match fuel with
    | O => VmFuel
    | Datatypes.S fuel' =>
      match states with
      | [] => VmValid init
      | st :: below =>
        let pop (b' : list byte) := vm_run fuel' below b' (Datatypes.S depth) (init && vm_pop_ok st) in
        match b with
        | [] => if vs_end st =? 0 then pop (vs_tail st) else VmInvalid
        | _ =>
          match vm_fast_varint b with
          | None => VmInvalid
          | Some (tag, b1) =>
            let num := tag / 8 in
            let wtyp := tag mod 8 in
            if (num <? 1) || (msg_max_num <? num) then VmInvalid
            else if wtyp =? 4 then (if vs_end st =? num then pop b1 else VmInvalid)
            else
              let st' := vm_mark st num wtyp in
              match vm_field_action (fst (vm_info st num)) num wtyp b1 with
              | AInvalid => VmInvalid
              | ACont b' => vm_run fuel' (st' :: below) b' depth init
              | APush nt e tail content =>
                match depth with
                | O => VmInvalid
                | Datatypes.S d' => vm_run fuel' (mkVS nt e tail [] :: st' :: below) content d' init
                end
              end
          end
        end
      end
    end.
End VmRun.

(* MessageInfo.validate(b, groupTag = 0, depth = limit) *)
Definition vm_validate_stack (S : schema) (limit : nat) (tid : nat) (bs : list byte) : N * bool :=
  match limit with
  | O => (2, false)
  | Datatypes.S d =>
    match nth_error S tid with
    | None => (2, false)
    | Some _ =>
      match vm_run S (2 * length bs + 2) [mkVS (VtMessage tid) 0 [] []] bs d true with
      | VmValid i => (3, i)
      | VmInvalid => (2, false)
      | VmFuel => (0, false)
      end
    end
  end.
