(* ValidateMsgP — the validator [vr_msg] (Msg/ValidateMsgModel.v) and the table-driven decoder
   [msg_decode_msg false] (Msg/MsgDec.v) walk every input in lockstep: same tags, same
   consumption, and
     validator Valid, no quirk   ->  decoder succeeds
     validator Valid, quirk      ->  decoder fails with the recursion-depth error (FWB4)
     validator Invalid           ->  decoder fails (for schemas without the FL1 field shape)
   The validator never runs out of fuel. *)
From Coq Require Import List Arith NArith ZArith Lia Bool.
From Coq Require Import ZifyBool ZifyNat ZifyN.
From PB Require Import Base.PBytes Wire.WireModel Wire.VarintP Wire.ScanP.
From PB Require Import Msg.MsgSchema Msg.MsgValue Msg.MsgUtf8 Msg.MsgDec Msg.ValidateMsgModel.
Ltac Zify.zify_post_hook ::= Z.div_mod_to_equations.
Import ListNotations.
Open Scope N_scope.

(* ---------- lengths ---------- *)
Lemma vp_dec_tag_len bs num typ r : dec_tag bs = Ok (num, typ, r) -> (length r < length bs)%nat.
Proof.
  intros H. apply dec_tag_sound in H. destruct H as (p & -> & Ht). apply is_tag_len in Ht.
  rewrite app_length. lia.
Qed.

Lemma vp_dec_bytes_len bs v r : dec_bytes bs = Ok (v, r) -> (length v + length r < length bs)%nat.
Proof.
  intros H. apply dec_bytes_sound in H. destruct H as (p & -> & Hs & _).
  apply varint_shape_len in Hs. rewrite !app_length. lia.
Qed.

Lemma vp_dec_varint_len bs v r : dec_varint bs = Ok (v, r) -> (length r < length bs)%nat.
Proof. intros H. apply dec_varint_suffix in H. destruct H as (p & -> & Hl). rewrite app_length. lia. Qed.

Lemma vp_parse_val_len2 dep num bs :
  parse_val dep num 2 bs = match dec_bytes bs with Ok (b, r) => Ok (WLen b, r) | Err e => Err e end.
Proof. rewrite parse_val_eq. reflexivity. Qed.

Lemma vp_skip_len num typ r r' : vr_skip num typ r = Some r' -> (length r' <= length r)%nat.
Proof.
  unfold vr_skip. destruct (parse_val default_dep num typ r) as [[v r0]|e] eqn:E; [|discriminate].
  intros H; inversion H; subst. eapply parse_val_len; eauto.
Qed.

(* ---------- the decoder's loop, unfolded ---------- *)
Definition vp_dsub2 (S : schema) (d : nat) : option msg_dec_t :=
  match d with O => None | Datatypes.S d1 => Some (msg_decode_msg false S d1) end.
Definition vp_vsub2 (S : schema) (d : nat) : option vr_t :=
  match d with O => None | Datatypes.S d1 => Some (vr_msg S d1) end.

Lemma vp_dm_unfold S d tid grp md x g bs acc :
  nth_error S tid = Some md ->
  msg_decode_msg false S (Datatypes.S d) tid grp (x :: g) bs acc =
  match bs with
  | [] => if grp =? 0 then DOk (acc, []) else DErr DParse
  | _ =>
    match dec_tag bs with
    | Err _ => DErr DParse
    | Ok (num, typ, r) =>
      if msg_max_num <? num then DErr DParse
      else if typ =? 4 then (if num =? grp then DOk (acc, r) else DErr DParse)
      else
        match msg_step false md (msg_decode_msg false S d) (vp_dsub2 S d) (enc_tag num typ) num typ r acc with
        | DErr e => DErr e
        | DOk (acc', r') => msg_decode_msg false S (Datatypes.S d) tid grp g r' acc'
        end
    end
  end.
Proof. intros H. cbn [msg_decode_msg]. rewrite H. reflexivity. Qed.

Lemma vp_dm_none S d tid grp g bs acc :
  nth_error S tid = None -> msg_decode_msg false S (Datatypes.S d) tid grp g bs acc = DErr DSchema.
Proof. intros H. cbn [msg_decode_msg]. rewrite H. reflexivity. Qed.

Lemma vp_vr_unfold S d tid grp g bs :
  vr_msg S (Datatypes.S d) tid grp g bs =
  match nth_error S tid with
  | None => VBad
  | Some md => vr_loop (vr_reqof S) md (vr_msg S d) (vp_vsub2 S d) grp g bs [] true false
  end.
Proof. reflexivity. Qed.

(* ---------- the agreement relation ---------- *)
(* P: the hypothesis under which "Invalid -> the decoder fails" holds (no FL1 field shape) *)
Definition vp_agree (P : Prop) (v : vres) (A : Type) (d : dres A) (rest : A -> list byte) (bs : list byte) : Prop :=
  match v with
  | VFuel => False
  | VBad => P -> exists e, d = DErr e
  | VOk i q r => (length r <= length bs)%nat /\
                 (if q then d = DErr DDepth else exists m, d = DOk m /\ rest m = r)
  end.

Definition vp_rest2 (m : msg_macc * list byte) : list byte := snd m.

(* ---------- packed payloads ---------- *)
Lemma vp_sk_dec_some sk dep num bs w r :
  parse_val dep num (sk_wt sk) bs = Ok (w, r) -> exists s, sk_dec sk w = Some s.
Proof.
  rewrite parse_val_eq. destruct sk; cbn [sk_wt]; cbv iota;
    try (destruct (dec_varint bs) as [[v r0]|e]; [|discriminate]; intros H; inversion H; subst; cbn; eauto);
    try (destruct (take _ bs) as [[b r0]|]; [|discriminate]; intros H; inversion H; subst; cbn; eauto);
    try (destruct (dec_bytes bs) as [[b r0]|e]; [|discriminate]; intros H; inversion H; subst; cbn; eauto).
Qed.

Lemma vp_packed_varint sk : sk_wt sk = 0 ->
  forall g bs acc, (length bs < length g)%nat ->
  if vr_varints g bs then exists vs, msg_dec_packed g sk bs acc = DOk vs
  else msg_dec_packed g sk bs acc = DErr DParse.
Proof.
  intros Hwt. induction g as [|x g IH]; intros bs acc Hl; [cbn in Hl; lia|].
  cbn [vr_varints msg_dec_packed]. destruct bs as [|b t]; [eauto|].
  rewrite Hwt. rewrite parse_val_eq. cbv iota.
  destruct (dec_varint (b :: t)) as [[v r]|e] eqn:E; [|reflexivity].
  pose proof (vp_dec_varint_len _ _ _ E) as Hr.
  assert (Hs : exists s, sk_dec sk (WVarint v) = Some s).
  { apply (vp_sk_dec_some sk 0%nat 1 (b :: t) (WVarint v) r). rewrite Hwt, parse_val_eq. cbv iota. rewrite E. reflexivity. }
  destruct Hs as (s & ->). apply IH. cbn [length] in Hl, Hr. lia.
Qed.

Lemma vp_packed_fixed sk k : (k = 4 \/ k = 8)%nat ->
  (forall dep num bs, parse_val dep num (sk_wt sk) bs =
     match take k bs with Some (b, r) => Ok ((if Nat.eqb k 4 then WFixed32 b else WFixed64 b), r) | None => Err Truncated end) ->
  forall n g bs acc, (length bs <= n)%nat -> (length bs < length g)%nat ->
  if N.of_nat (length bs) mod N.of_nat k =? 0 then exists vs, msg_dec_packed g sk bs acc = DOk vs
  else msg_dec_packed g sk bs acc = DErr DParse.
Proof.
  intros Hk Hpv. induction n as [|n IH]; intros g bs acc Hn Hl.
  - destruct bs; [|cbn in Hn; lia]. destruct g; [cbn in Hl; lia|]. cbn. destruct Hk; subst; cbn; eauto.
  - destruct g as [|x g]; [cbn in Hl; lia|]. cbn [msg_dec_packed].
    destruct bs as [|b t] eqn:Ebs.
    { replace (N.of_nat (length (@nil byte)) mod N.of_nat k =? 0) with true by (cbn [length]; destruct Hk; subst; reflexivity). eauto. }
    rewrite <- Ebs in *. rewrite Hpv. destruct (take k bs) as [[a r]|] eqn:Et.
    + apply take_some in Et. destruct Et as [Eb Ha].
      assert (Hs : exists s, sk_dec sk (if Nat.eqb k 4 then WFixed32 a else WFixed64 a) = Some s).
      { apply (vp_sk_dec_some sk 0%nat 1 bs _ r). rewrite Hpv.
        replace (take k bs) with (Some (a, r)); [reflexivity|].
        rewrite Eb, <- Ha. symmetry. apply take_app. }
      destruct Hs as (s & ->).
      assert (Hlen : length bs = (k + length r)%nat) by (rewrite Eb, app_length; lia).
      replace (N.of_nat (length bs) mod N.of_nat k =? 0) with (N.of_nat (length r) mod N.of_nat k =? 0).
      * apply IH; cbn [length] in Hl; lia.
      * rewrite Hlen. destruct Hk; subst k; lia.
    + apply take_none in Et.
      replace (N.of_nat (length bs) mod N.of_nat k =? 0) with false; [reflexivity|].
      assert (0 < length bs)%nat by (rewrite Ebs; cbn; lia).
      symmetry. apply N.eqb_neq. destruct Hk; subst k; lia.
Qed.

Lemma vp_packed sk payload : msg_packable sk = true ->
  if vr_packed_ok sk payload then exists vs, msg_dec_packed (x00 :: payload) sk payload [] = DOk vs
  else msg_dec_packed (x00 :: payload) sk payload [] = DErr DParse.
Proof.
  intros Hp. unfold vr_packed_ok.
  destruct sk; cbn [sk_wt]; cbv iota; try (cbn in Hp; discriminate);
    first [ apply vp_packed_varint; [reflexivity|cbn [length]; lia]
          | apply (vp_packed_fixed _ 4%nat (or_introl eq_refl)) with (n := length payload);
            [intros dep num bs; rewrite parse_val_eq; reflexivity|lia|cbn [length]; lia]
          | apply (vp_packed_fixed _ 8%nat (or_intror eq_refl)) with (n := length payload);
            [intros dep num bs; rewrite parse_val_eq; reflexivity|lia|cbn [length]; lia] ].
Qed.

(* ---------- scalars ---------- *)
Lemma vp_dec_scalar_cases sk u w :
  msg_dec_scalar sk u w =
  match sk_dec sk w with
  | None => None
  | Some s =>
    if vr_is_string sk && u && match w with WLen b => negb (msg_utf8_valid b) | _ => false end
    then Some (DErr DUtf8) else Some (DOk s)
  end.
Proof.
  unfold msg_dec_scalar. destruct sk, w; cbn; reflexivity.
Qed.

Lemma vp_group_loop_shape pv num : forall g bs acc w r,
  group_loop pv num g bs acc = Ok (w, r) -> exists fs, w = WGroup fs.
Proof.
  induction g as [|x g IH]; intros bs acc w r; cbn [group_loop]; [discriminate|].
  destruct (dec_tag bs) as [[[n2 t2] r0]|e]; [|discriminate].
  destruct (t2 =? 4).
  - destruct (n2 =? num); [|discriminate]. intros H; inversion H; eauto.
  - destruct (pv n2 t2 r0) as [[v r1]|e]; [|discriminate]. apply IH.
Qed.

Lemma vp_parse_val_wlen dep num typ bs b r : parse_val dep num typ bs = Ok (WLen b, r) -> typ = 2.
Proof.
  rewrite parse_val_eq. destruct_typ typ; cbv iota; intros H; try discriminate H; try reflexivity.
  all: try (destruct (dec_varint bs) as [[? ?]|?]; discriminate H).
  all: try (destruct (take _ bs) as [[? ?]|]; discriminate H).
  all: try (destruct dep; [discriminate H|]; apply vp_group_loop_shape in H; destruct H as (fs & H); discriminate H).
Qed.

(* no UTF-8 error unless the value is a LEN payload *)
Lemma vp_dec_scalar_nolen sk u w :
  (forall b, w <> WLen b) ->
  msg_dec_scalar sk u w = match sk_dec sk w with None => None | Some s => Some (DOk s) end.
Proof.
  intros H. rewrite vp_dec_scalar_cases. destruct (sk_dec sk w); [|reflexivity].
  destruct w; try (rewrite andb_false_r; reflexivity). exfalso. eapply H. reflexivity.
Qed.

(* ---------- map entries ---------- *)
Section EntryAgree.
  Variable P : Prop.
  Variable reqof : nat -> bool.
  Variables (kk : skind) (kutf8 : bool) (vk : kind) (vutf8 : bool).
  Variable vm : vr_t.
  Variable dm : list byte -> value -> dres value.
  Hypothesis Hvm : forall tid p v, vk = KMsg tid ->
    match vm tid 0 (x00 :: p) p with
    | VFuel => False
    | VBad => P -> exists e, dm p v = DErr e
    | VOk _ q _ => if q then dm p v = DErr DDepth else exists m, dm p v = DOk m
    end.

  Lemma vp_entry_agree : forall g bs seenval i q0 key val, (length bs < length g)%nat ->
    match vr_entry reqof g kk kutf8 vk vutf8 vm bs seenval i q0 with
    | VFuel => False
    | VBad => P -> exists e, msg_dec_entry g kk kutf8 vk vutf8 dm bs key val = DErr e
    | VOk i' q' r => exists qd, q' = q0 || qd /\
        (if qd then msg_dec_entry g kk kutf8 vk vutf8 dm bs key val = DErr DDepth
         else exists kv, msg_dec_entry g kk kutf8 vk vutf8 dm bs key val = DOk kv)
    end.
  Proof.
    induction g as [|x g IH]; intros bs seenval i q0 key val Hl; [cbn in Hl; lia|].
    cbn [vr_entry msg_dec_entry]. destruct bs as [|b0 t0] eqn:Ebs.
    { exists false. rewrite orb_false_r. split; [reflexivity|]. eauto. }
    rewrite <- Ebs in *. clear Ebs b0 t0.
    destruct (dec_tag bs) as [[[num typ] r]|e] eqn:Et; [|eauto].
    pose proof (vp_dec_tag_len _ _ _ _ Et) as Hr.
    destruct (msg_max_num <? num); [eauto|].
    (* a recursive call on a shorter rest *)
    assert (Hrec : forall r' sv i1 q1 key' val', (length r' <= length r)%nat ->
      match vr_entry reqof g kk kutf8 vk vutf8 vm r' sv i1 q1 with
      | VFuel => False
      | VBad => P -> exists e, msg_dec_entry g kk kutf8 vk vutf8 dm r' key' val' = DErr e
      | VOk i' q' r0 => exists qd, q' = q1 || qd /\
          (if qd then msg_dec_entry g kk kutf8 vk vutf8 dm r' key' val' = DErr DDepth
           else exists kv, msg_dec_entry g kk kutf8 vk vutf8 dm r' key' val' = DOk kv)
      end).
    { intros r' sv i1 q1 key' val' Hle. apply IH. cbn [length] in Hl. lia. }
    destruct ((num =? 1) && (typ =? 2) && vr_is_string kk && kutf8) eqn:C1.
    - (* the key, a string with enforced UTF-8 *)
      apply andb_prop in C1. destruct C1 as [C1 Hku]. apply andb_prop in C1. destruct C1 as [C1 Hks].
      apply andb_prop in C1. destruct C1 as [Hn1 Ht2].
      apply N.eqb_eq in Hn1. apply N.eqb_eq in Ht2. subst num typ. destruct kk; try discriminate. subst kutf8.
      rewrite vp_parse_val_len2.
      destruct (dec_bytes r) as [[p r']|e] eqn:Eb; [|eauto].
      pose proof (vp_dec_bytes_len _ _ _ Eb) as Hb.
      cbn [N.eqb Pos.eqb]. rewrite vp_dec_scalar_cases. cbn [sk_dec vr_is_string andb].
      destruct (msg_utf8_valid p); cbn [negb]; [|eauto].
      apply Hrec. lia.
    - destruct ((num =? 2) && (typ =? 2)) eqn:C2.
      + apply andb_prop in C2. destruct C2 as [Hn2 Ht2].
        apply N.eqb_eq in Hn2. apply N.eqb_eq in Ht2. subst num typ.
        cbn [N.eqb Pos.eqb]. rewrite vp_parse_val_len2.
        destruct vk as [sk|tid|tid] eqn:Evk.
        * (* scalar value *)
          destruct (dec_bytes r) as [[p r']|e] eqn:Eb; [|eauto].
          pose proof (vp_dec_bytes_len _ _ _ Eb) as Hb.
          rewrite vp_dec_scalar_cases.
          destruct (sk_dec sk (WLen p)) as [s|] eqn:Es.
          -- destruct (vr_is_string sk && vutf8 && negb (msg_utf8_valid p)); [eauto|]. apply Hrec. lia.
          -- replace (vr_is_string sk) with false by (destruct sk; cbn in Es; try discriminate; reflexivity).
             cbn [andb]. apply Hrec. lia.
        * (* message value *)
          destruct (dec_bytes r) as [[p r']|e] eqn:Eb; [|eauto].
          pose proof (vp_dec_bytes_len _ _ _ Eb) as Hb.
          pose proof (Hvm tid p val eq_refl) as Hm.
          destruct (vm tid 0 (x00 :: p) p) as [i1 q1 r1| |]; [|intros HP; destruct (Hm HP) as (e & ->); eauto|exact Hm].
          destruct q1.
          -- rewrite Hm.
             specialize (Hrec r' true (i && i1) (q0 || true) key val ltac:(lia)).
             destruct (vr_entry reqof g kk kutf8 (KMsg tid) vutf8 vm r' true (i && i1) (q0 || true)) as [i' q' r0| |].
             ++ destruct Hrec as (qd & -> & _). exists true. rewrite !orb_true_r. split; reflexivity.
             ++ intros _. eauto.
             ++ exact Hrec.
          -- destruct Hm as (m & ->). rewrite orb_false_r. apply Hrec. lia.
        * (* group-typed values do not exist; both sides skip *)
          unfold vr_skip. rewrite vp_parse_val_len2.
          destruct (dec_bytes r) as [[p r']|e] eqn:Eb; [|eauto].
          pose proof (vp_dec_bytes_len _ _ _ Eb) as Hb. apply Hrec. lia.
      + (* anything else: skipped by both *)
        unfold vr_skip.
        destruct (parse_val default_dep num typ r) as [[w r']|e] eqn:Ep; [|eauto].
        pose proof (parse_val_len _ _ _ _ _ _ Ep) as Hp.
        assert (Hnl : typ <> 2 -> forall b, w <> WLen b).
        { intros Hne b ->. apply vp_parse_val_wlen in Ep. congruence. }
        destruct (num =? 1) eqn:Hn1.
        * (* key with another wire type, or a key kind without UTF-8 enforcement *)
          rewrite vp_dec_scalar_cases.
          destruct (sk_dec kk w) as [s|] eqn:Es; [|apply Hrec; lia].
          replace (vr_is_string kk && kutf8 && match w with WLen b => negb (msg_utf8_valid b) | _ => false end) with false.
          { apply Hrec. lia. }
          symmetry. destruct (typ =? 2) eqn:Ht2.
          -- rewrite ?Hn1, ?Ht2 in C1. cbn [andb] in C1. rewrite C1. reflexivity.
          -- apply N.eqb_neq in Ht2. specialize (Hnl Ht2). destruct w; try (rewrite andb_false_r; reflexivity).
             exfalso. eapply Hnl. reflexivity.
        * destruct (num =? 2) eqn:Hn2; [|apply Hrec; lia].
          cbn [andb] in C2. apply N.eqb_neq in C2. specialize (Hnl C2).
          destruct vk as [sk|tid|tid].
          -- rewrite vp_dec_scalar_nolen by exact Hnl. destruct (sk_dec sk w); apply Hrec; lia.
          -- destruct w; try (apply Hrec; lia). exfalso. eapply Hnl. reflexivity.
          -- apply Hrec. lia.
  Qed.
End EntryAgree.

(* ---------- one field ---------- *)
Definition vp_is_string_kind (k : kind) : bool := match k with KS SkString => true | _ => false end.
(* the FL1 field shape: a repeated string extension with enforced UTF-8 *)
Definition vp_fl1_bad (fd : fdesc) : bool :=
  f_ext fd && card_repeated (f_card fd) && f_utf8 fd && vp_is_string_kind (f_kind fd).
Definition vp_md_fl1_free (md : mdesc) : Prop := forall fd, In fd md -> vp_fl1_bad fd = false.
Definition vp_fl1_free (S : schema) : Prop := forall md, In md S -> vp_md_fl1_free md.

Lemma vp_find_field_in md n fd : msg_find_field md n = Some fd -> In fd md.
Proof.
  induction md as [|f r IH]; cbn [msg_find_field]; [discriminate|].
  destruct (f_num f =? n); [intros H; inversion H; left; reflexivity|intros H; right; auto].
Qed.

Definition vp_sub_agree (P : Prop) (vm : vr_t) (dm : msg_dec_t) : Prop :=
  forall tid grp g bs acc, (length bs < length g)%nat ->
    vp_agree P (vm tid grp g bs) _ (dm tid grp g bs acc) vp_rest2 bs.

Lemma vp_unknown_agree P tagraw num typ r acc :
  vp_agree P (vr_plain num typ r) _ (msg_unknown tagraw num typ r acc) vp_rest2 r.
Proof.
  unfold vr_plain, vr_skip, msg_unknown.
  destruct (parse_val default_dep num typ r) as [[w r']|e] eqn:E; cbn [vp_agree]; [|eauto].
  split; [eapply parse_val_len; eauto|]. eexists. split; reflexivity.
Qed.

Section StepAgree.
  Variable P : Prop.
  Variable reqof : nat -> bool.
  Variable md : mdesc.
  Variable vsub : vr_t.
  Variable dsub : msg_dec_t.
  Variable vsub2 : option vr_t.
  Variable dsub2 : option msg_dec_t.
  Hypothesis Hsub : vp_sub_agree P vsub dsub.
  Hypothesis Hsub2 : match vsub2, dsub2 with
                     | None, None => True
                     | Some vm2, Some dm2 => vp_sub_agree P vm2 dm2
                     | _, _ => False
                     end.
  Hypothesis Hfl : P -> vp_md_fl1_free md.

  (* a sub-message given as a LEN payload *)
  Lemma vp_whole_agree tid r old (F : msg_macc -> msg_macc) :
    vp_agree P
      (match dec_bytes r with
       | Err _ => VBad
       | Ok (payload, r') =>
         match vsub tid 0 (x00 :: payload) payload with
         | VOk i q _ => VOk i q r'
         | e => e
         end
       end) _
      (match dec_bytes r with
       | Err _ => DErr DParse
       | Ok (payload, r') =>
         match msg_whole dsub tid payload old with
         | DErr e => DErr e
         | DOk m => DOk (F m, r')
         end
       end) vp_rest2 r.
  Proof.
    destruct (dec_bytes r) as [[payload r']|e] eqn:Eb; cbn [vp_agree]; [|eauto].
    pose proof (vp_dec_bytes_len _ _ _ Eb) as Hb.
    unfold msg_whole.
    pose proof (Hsub tid 0 (x00 :: payload) payload old ltac:(cbn [length]; lia)) as H.
    unfold vp_agree in H.
    destruct (vsub tid 0 (x00 :: payload) payload) as [i q r1| |]; cbn [vp_agree].
    - destruct H as [_ H]. split; [lia|]. destruct q.
      + rewrite H. reflexivity.
      + destruct H as ([m r2] & -> & _). eexists. split; reflexivity.
    - intros HP. destruct (H HP) as (e & ->). eauto.
    - exact H.
  Qed.

  Lemma vp_parse_val_dep d1 d2 num typ r : typ <> 3 -> parse_val d1 num typ r = parse_val d2 num typ r.
  Proof. intros H. rewrite !parse_val_eq. destruct_typ typ; try reflexivity. congruence. Qed.

  Lemma vp_scalar_agree fd sk c tagraw num typ r acc :
    In fd md -> f_kind fd = KS sk -> f_card fd = c ->
    vp_agree P
      (if typ =? 2 then
         match dec_bytes r with
         | Err _ => VBad
         | Ok (payload, r') =>
           if vr_is_string sk && f_utf8 fd then (if msg_utf8_valid payload then VOk true false r' else VBad)
           else if msg_packable sk && card_repeated c then (if vr_packed_ok sk payload then VOk true false r' else VBad)
           else VOk true false r'
         end
       else vr_plain num typ r) _
      (if typ =? sk_wt sk then
         match parse_val 0 num typ r with
         | Err _ => DErr DParse
         | Ok (w, r') =>
           match msg_dec_scalar sk (msg_field_utf8 false fd) w with
           | None => msg_unknown tagraw num typ r acc
           | Some (DErr e) => DErr e
           | Some (DOk s) =>
             DOk ((if card_repeated c then msg_append_field fd [VS s] (fst acc)
                   else msg_set_field md fd (VS s) (fst acc), snd acc), r')
           end
         end
       else if (typ =? 2) && msg_packable sk && card_repeated c then
         match dec_bytes r with
         | Err _ => DErr DParse
         | Ok (payload, r') =>
           match msg_dec_packed (x00 :: payload) sk payload [] with
           | DErr e => DErr e
           | DOk vs => DOk ((msg_append_field fd vs (fst acc), snd acc), r')
           end
         end
       else msg_unknown tagraw num typ r acc) vp_rest2 r.
  Proof.
    intros Hin Ek Ec. destruct (typ =? 2) eqn:Ht.
    - apply N.eqb_eq in Ht. subst typ.
      destruct (dec_bytes r) as [[payload r']|e] eqn:Eb.
      + pose proof (vp_dec_bytes_len _ _ _ Eb) as Hb.
        destruct (2 =? sk_wt sk) eqn:Hw.
        * (* string / bytes *)
          rewrite vp_parse_val_len2, ?Eb. rewrite vp_dec_scalar_cases.
          assert (Hs : sk = SkString \/ sk = SkBytes) by (destruct sk; cbn in Hw; try discriminate; auto).
          replace (msg_packable sk && card_repeated c) with false
            by (destruct Hs; subst sk; reflexivity).
          destruct Hs; subst sk; cbn [sk_dec vr_is_string andb].
          -- destruct (f_utf8 fd) eqn:Hu.
             ++ destruct (msg_utf8_valid payload) eqn:Hv; cbn [negb vp_agree].
                ** rewrite andb_false_r. split; [lia|]. eexists. split; reflexivity.
                ** intros HP. specialize (Hfl HP fd Hin). unfold vp_fl1_bad in Hfl.
                   rewrite Hu, Ek in Hfl. cbn [vp_is_string_kind] in Hfl. rewrite !andb_true_r in Hfl.
                   unfold msg_field_utf8. rewrite Hu. cbn [andb orb]. rewrite Hfl. cbn [negb andb]. eauto.
             ++ unfold msg_field_utf8. rewrite Hu. cbn [andb vp_agree]. split; [lia|]. eexists. split; reflexivity.
          -- cbn [vp_agree]. split; [lia|]. eexists. split; reflexivity.
        * (* a LEN occurrence of a varint / fixed kind *)
          replace (vr_is_string sk) with false by (destruct sk; cbn in Hw; try discriminate; reflexivity).
          assert (Hp : msg_packable sk = true) by (destruct sk; cbn in Hw; try discriminate; reflexivity).
          rewrite Hp. cbn [andb N.eqb Pos.eqb]. destruct (card_repeated c).
          -- rewrite ?Eb. pose proof (vp_packed sk payload Hp) as Hpk.
             destruct (vr_packed_ok sk payload); cbn [vp_agree].
             ++ destruct Hpk as (vs & ->). split; [lia|]. eexists. split; reflexivity.
             ++ rewrite Hpk. eauto.
          -- unfold msg_unknown. rewrite vp_parse_val_len2, ?Eb. cbn [vp_agree]. split; [lia|]. eexists. split; reflexivity.
      + cbn [vp_agree]. intros _. destruct (2 =? sk_wt sk).
        * rewrite vp_parse_val_len2, ?Eb. eauto.
        * cbn [N.eqb Pos.eqb andb]. destruct (msg_packable sk && card_repeated c).
          -- rewrite ?Eb. eauto.
          -- unfold msg_unknown. rewrite vp_parse_val_len2, ?Eb. eauto.
    - destruct (typ =? sk_wt sk) eqn:Hw; [|cbn [andb]; apply vp_unknown_agree].
      apply N.eqb_eq in Hw. apply N.eqb_neq in Ht.
      assert (H3 : typ <> 3) by (rewrite Hw; destruct sk; cbn; discriminate).
      unfold vr_plain, vr_skip. rewrite (vp_parse_val_dep 0 default_dep) by exact H3.
      destruct (parse_val default_dep num typ r) as [[w r']|e] eqn:Ep; cbn [vp_agree]; [|eauto].
      pose proof (parse_val_len _ _ _ _ _ _ Ep) as Hl.
      rewrite vp_dec_scalar_nolen.
      + rewrite Hw in Ep. destruct (vp_sk_dec_some _ _ _ _ _ _ Ep) as (s & ->).
        split; [exact Hl|]. eexists. split; reflexivity.
      + intros b ->. apply vp_parse_val_wlen in Ep. congruence.
  Qed.

  Lemma vp_step_agree tagraw num typ r acc :
    vp_agree P (vr_step reqof md vsub vsub2 num typ r) _
             (msg_step false md dsub dsub2 tagraw num typ r acc) vp_rest2 r.
  Proof.
    unfold vr_step, msg_step.
    destruct (msg_find_field md num) as [fd|] eqn:Ef; [|apply vp_unknown_agree].
    pose proof (vp_find_field_in _ _ _ Ef) as Hin.
    destruct (f_card fd) as [| | | | |kk kutf8 vdef] eqn:Ec.
    6: {
      (* map field *)
      destruct (typ =? 2) eqn:Ht.
      - destruct vsub2 as [vm2|], dsub2 as [dm2|]; try contradiction; cbn [vp_agree]; [|eauto].
        destruct (dec_bytes r) as [[payload r']|e] eqn:Eb; cbn [vp_agree]; [|eauto].
        pose proof (vp_dec_bytes_len _ _ _ Eb) as Hb.
        set (dm := fun (p : list byte) (v : value) =>
                     match f_kind fd with
                     | KMsg tid => match msg_whole dm2 tid p (msg_macc_of v) with
                                   | DOk m => DOk (VMsg (fst m) (snd m)) | DErr e => DErr e end
                     | _ => DErr DSchema
                     end).
        assert (Hvm : forall tid p v, f_kind fd = KMsg tid ->
                  match vm2 tid 0 (x00 :: p) p with
                  | VFuel => False
                  | VBad => P -> exists e, dm p v = DErr e
                  | VOk _ q _ => if q then dm p v = DErr DDepth else exists m, dm p v = DOk m
                  end).
        { intros tid p v Ek. unfold dm. rewrite Ek. unfold msg_whole.
          pose proof (Hsub2 tid 0 (x00 :: p) p (msg_macc_of v) ltac:(cbn [length]; lia)) as H.
          unfold vp_agree in H.
          destruct (vm2 tid 0 (x00 :: p) p) as [i q r1| |].
          - destruct H as [Hl H]. destruct q.
            + rewrite H. reflexivity.
            + destruct H as ([m r2] & -> & Hr). eexists. reflexivity.
          - intros HP. destruct (H HP) as (e & ->). eauto.
          - exact H. }
        pose proof (vp_entry_agree P reqof kk kutf8 (f_kind fd) (f_utf8 fd) vm2 dm Hvm
                      (x00 :: payload) payload false true false (sk_zero kk)
                      (msg_entry_default (f_kind fd) vdef) ltac:(cbn [length]; lia)) as He.
        fold dm.
        destruct (vr_entry reqof (x00 :: payload) kk kutf8 (f_kind fd) (f_utf8 fd) vm2 payload false true false)
          as [i q r1| |]; cbn [vp_agree].
        + destruct He as (qd & -> & He). cbn [orb]. split; [lia|]. destruct qd.
          * rewrite He. reflexivity.
          * destruct He as ([key v] & ->). eexists. split; reflexivity.
        + intros HP. destruct (He HP) as (e & ->). eauto.
        + exact He.
      - destruct vsub2 as [vm2|], dsub2 as [dm2|]; try contradiction.
        + apply vp_unknown_agree.
        + unfold vr_skip. destruct (parse_val default_dep num typ r) as [[w r']|e] eqn:E; cbn [vp_agree]; [|eauto].
          split; [eapply parse_val_len; eauto|reflexivity].
    }
    all: destruct (f_kind fd) as [sk|tid|tid] eqn:Ek.
    all: try (destruct (typ =? 2) eqn:Ht; [apply vp_whole_agree|apply vp_unknown_agree]).
    all: try (destruct (typ =? 3) eqn:Ht; [|apply vp_unknown_agree];
              pose proof (Hsub tid num (x00 :: r) r (msg_old_sub fd (fst acc)) ltac:(cbn [length]; lia)) as H;
              unfold vp_agree in H |- *;
              destruct (vsub tid num (x00 :: r) r) as [i q r1| |];
              [destruct H as [Hl H]; split; [exact Hl|]; destruct q;
               [rewrite H; reflexivity|destruct H as ([m r2] & -> & Hr); cbn [vp_rest2 snd] in Hr; subst r2; eexists; split; reflexivity]
              |intros HP; destruct (H HP) as (e & ->); eauto
              |exact H]).
    (* scalar kinds *)
    all: eapply vp_scalar_agree; eauto.
  Qed.
End StepAgree.

(* ---------- the tag loop and the whole validator ---------- *)
Section LoopAgree.
  Variable P : Prop.
  Variable S : schema.
  Hypothesis HflS : P -> vp_fl1_free S.

  Lemma vp_sub2_agree d :
    vp_sub_agree P (vr_msg S d) (msg_decode_msg false S d) ->
    (forall d1, d = Datatypes.S d1 -> vp_sub_agree P (vr_msg S d1) (msg_decode_msg false S d1)) ->
    match vp_vsub2 S d, vp_dsub2 S d with
    | None, None => True
    | Some vm2, Some dm2 => vp_sub_agree P vm2 dm2
    | _, _ => False
    end.
  Proof. intros _ H. destruct d as [|d1]; cbn; [exact I|]. apply H. reflexivity. Qed.

  Lemma vp_loop_agree d tid grp md :
    nth_error S tid = Some md ->
    vp_sub_agree P (vr_msg S d) (msg_decode_msg false S d) ->
    (forall d1, d = Datatypes.S d1 -> vp_sub_agree P (vr_msg S d1) (msg_decode_msg false S d1)) ->
    forall g bs seen i q0 acc, (length bs < length g)%nat ->
    match vr_loop (vr_reqof S) md (vr_msg S d) (vp_vsub2 S d) grp g bs seen i q0 with
    | VFuel => False
    | VBad => P -> exists e, msg_decode_msg false S (Datatypes.S d) tid grp g bs acc = DErr e
    | VOk i' q' r => (length r <= length bs)%nat /\ exists qd, q' = q0 || qd /\
        (if qd then msg_decode_msg false S (Datatypes.S d) tid grp g bs acc = DErr DDepth
         else exists m, msg_decode_msg false S (Datatypes.S d) tid grp g bs acc = DOk (m, r))
    end.
  Proof.
    intros Hmd Hsub Hsub2. induction g as [|x g IH]; intros bs seen i q0 acc Hl; [cbn in Hl; lia|].
    rewrite (vp_dm_unfold _ _ _ _ _ _ _ _ _ Hmd). cbn [vr_loop].
    destruct bs as [|b0 t0] eqn:Ebs.
    { destruct (grp =? 0); [|eauto]. split; [lia|]. exists false. rewrite orb_false_r. split; [reflexivity|]. eauto. }
    rewrite <- Ebs in *. clear Ebs b0 t0.
    destruct (dec_tag bs) as [[[num typ] r]|e] eqn:Et; [|eauto].
    pose proof (vp_dec_tag_len _ _ _ _ Et) as Hr.
    destruct (msg_max_num <? num); [eauto|].
    destruct (typ =? 4).
    { destruct (num =? grp); [|eauto]. split; [lia|]. exists false. rewrite orb_false_r. split; [reflexivity|]. eauto. }
    assert (Hmdfl : P -> vp_md_fl1_free md).
    { intros HP. apply (HflS HP). eapply nth_error_In; eauto. }
    pose proof (vp_step_agree P (vr_reqof S) md (vr_msg S d) (msg_decode_msg false S d) (vp_vsub2 S d) (vp_dsub2 S d)
                  Hsub (vp_sub2_agree d Hsub Hsub2) Hmdfl (enc_tag num typ) num typ r acc) as Hs.
    unfold vp_agree in Hs.
    destruct (vr_step (vr_reqof S) md (vr_msg S d) (vp_vsub2 S d) num typ r) as [i1 q1 r'| |].
    - destruct Hs as [Hl' Hs]. destruct q1.
      + rewrite Hs.
        specialize (IH r' (if vr_marks md num typ then num :: seen else seen) (i && i1) (q0 || true) acc
                       ltac:(cbn [length] in Hl; lia)).
        destruct (vr_loop (vr_reqof S) md (vr_msg S d) (vp_vsub2 S d) grp g r'
                    (if vr_marks md num typ then num :: seen else seen) (i && i1) (q0 || true)) as [i' q' r0| |].
        * destruct IH as [Hl0 (qd & -> & _)]. split; [lia|]. exists true. rewrite !orb_true_r. split; reflexivity.
        * intros _. eauto.
        * exact IH.
      + destruct Hs as ([acc' r2] & -> & Hr2). cbn [vp_rest2 snd] in Hr2. subst r2.
        rewrite orb_false_r.
        specialize (IH r' (if vr_marks md num typ then num :: seen else seen) (i && i1) q0 acc'
                       ltac:(cbn [length] in Hl; lia)).
        destruct (vr_loop (vr_reqof S) md (vr_msg S d) (vp_vsub2 S d) grp g r'
                    (if vr_marks md num typ then num :: seen else seen) (i && i1) q0) as [i' q' r0| |].
        * destruct IH as [Hl0 IH]. split; [lia|exact IH].
        * exact IH.
        * exact IH.
    - intros HP. destruct (Hs HP) as (e & ->). eauto.
    - exact Hs.
  Qed.

  Theorem vp_msg_agree : forall d, vp_sub_agree P (vr_msg S d) (msg_decode_msg false S d).
  Proof.
    induction d as [d IHd] using (well_founded_induction lt_wf).
    intros tid grp g bs acc Hl. destruct d as [|d].
    - cbn [vr_msg msg_decode_msg vp_agree]. eauto.
    - rewrite vp_vr_unfold. destruct (nth_error S tid) as [md|] eqn:Hmd.
      + pose proof (vp_loop_agree d tid grp md Hmd (IHd d ltac:(lia))
                      (fun d1 E => IHd d1 ltac:(lia)) g bs [] true false acc Hl) as H.
        unfold vp_agree.
        destruct (vr_loop (vr_reqof S) md (vr_msg S d) (vp_vsub2 S d) grp g bs [] true false) as [i q r| |].
        * destruct H as [Hl0 (qd & -> & H)]. cbn [orb]. split; [exact Hl0|]. destruct qd; [exact H|].
          destruct H as (m & ->). eexists. split; reflexivity.
        * exact H.
        * exact H.
      + cbn [vp_agree]. rewrite vp_dm_none by exact Hmd. eauto.
  Qed.
End LoopAgree.

(* ---------- the statements used by Props/C06.v ---------- *)
(* well-formed for the schema, within the recursion limit, valid UTF-8 where enforced: what the
   validator accepts without the FWB4 quirk *)
Definition vp_wellformed (S : schema) (limit tid : nat) (bs : list byte) : bool :=
  match vm_validate S limit tid bs with
  | (3, _, false) => true
  | _ => false
  end.

Lemma vp_validate_cases (P : Prop) S (H : P -> vp_fl1_free S) limit tid bs :
  match vr_msg S limit tid 0 (x00 :: bs) bs with
  | VFuel => False
  | VBad => P -> exists e, msg_decode false S limit tid bs = DErr e
  | VOk i q r => if q then msg_decode false S limit tid bs = DErr DDepth
                 else exists v, msg_decode false S limit tid bs = DOk v
  end.
Proof.
  pose proof (vp_msg_agree P S H limit tid 0 (x00 :: bs) bs (msg_macc_of msg_empty) ltac:(cbn [length]; lia)) as A.
  unfold vp_agree in A. unfold msg_decode, msg_decode_into.
  destruct (vr_msg S limit tid 0 (x00 :: bs) bs) as [i q r| |].
  - destruct A as [_ A]. destruct q.
    + rewrite A. reflexivity.
    + destruct A as ([m r2] & -> & _). eexists. reflexivity.
  - intros HP. destruct (A HP) as (e & ->). eauto.
  - exact A.
Qed.

Theorem vp_validate_total S limit tid bs : fst (fst (vm_validate S limit tid bs)) <> 0.
Proof.
  pose proof (vp_validate_cases False S (fun f => match f with end) limit tid bs) as H.
  unfold vm_validate. destruct (vr_msg S limit tid 0 (x00 :: bs) bs); cbn [fst]; [discriminate|discriminate|contradiction].
Qed.

Theorem vp_valid_sound S limit tid bs i :
  vm_validate S limit tid bs = (3, i, false) -> exists v, msg_decode false S limit tid bs = DOk v.
Proof.
  pose proof (vp_validate_cases False S (fun f => match f with end) limit tid bs) as H.
  unfold vm_validate. destruct (vr_msg S limit tid 0 (x00 :: bs) bs) as [i0 q r| |]; try discriminate.
  intros E. inversion E; subst. exact H.
Qed.

Theorem vp_valid_quirk S limit tid bs i :
  vm_validate S limit tid bs = (3, i, true) -> msg_decode false S limit tid bs = DErr DDepth.
Proof.
  pose proof (vp_validate_cases False S (fun f => match f with end) limit tid bs) as H.
  unfold vm_validate. destruct (vr_msg S limit tid 0 (x00 :: bs) bs) as [i0 q r| |]; try discriminate.
  intros E. inversion E; subst. exact H.
Qed.

Theorem vp_invalid_sound S limit tid bs :
  vp_fl1_free S -> fst (fst (vm_validate S limit tid bs)) = 2 ->
  exists e, msg_decode false S limit tid bs = DErr e.
Proof.
  intros Hfl. pose proof (vp_validate_cases True S (fun _ => Hfl) limit tid bs) as H.
  unfold vm_validate. destruct (vr_msg S limit tid 0 (x00 :: bs) bs) as [i0 q r| |]; cbn [fst]; try discriminate.
  intros _. apply H. exact I.
Qed.

Theorem vp_fails_iff S limit tid bs :
  vp_fl1_free S ->
  ((exists e, msg_decode false S limit tid bs = DErr e) <-> vp_wellformed S limit tid bs = false).
Proof.
  intros Hfl. pose proof (vp_validate_cases True S (fun _ => Hfl) limit tid bs) as H.
  unfold vp_wellformed, vm_validate.
  destruct (vr_msg S limit tid 0 (x00 :: bs) bs) as [i0 q r| |].
  - destruct q.
    + split; [reflexivity|]. intros _. rewrite H. eauto.
    + destruct H as (v & ->). split; [intros (e & E); discriminate|discriminate].
  - split; [reflexivity|]. intros _. apply H. exact I.
  - contradiction.
Qed.

(* decidable version of the FL1-freeness hypothesis *)
Definition vp_fl1_freeb (S : schema) : bool := forallb (fun md => forallb (fun fd => negb (vp_fl1_bad fd)) md) S.
Lemma vp_fl1_freeb_spec S : vp_fl1_freeb S = true -> vp_fl1_free S.
Proof.
  unfold vp_fl1_freeb. intros H md Hmd fd Hfd. rewrite forallb_forall in H. specialize (H md Hmd).
  rewrite forallb_forall in H. specialize (H fd Hfd). destruct (vp_fl1_bad fd); [discriminate|reflexivity].
Qed.
