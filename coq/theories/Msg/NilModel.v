(* Model of typed nil messages (C31).  Definitions only.

   A generated message value is either a typed nil pointer ([None]: the
   "invalid", empty, read-only message) or a valid message.  The content of a
   valid message is abstract: populated fields by number with a summary of the
   value, plus unknown bytes.  Every read-only entry point is given with the nil
   checks the code has (proto/encode.go, size.go, equal.go, merge.go,
   checkinit.go, internal/impl/message_reflect.go, encode.go, checkinit.go). *)
From Coq Require Import List NArith Bool.
From PB Require Import Base.PBytes.
Import ListNotations.
Open Scope N_scope.

Inductive fkind := KScalar | KMessage | KList | KMap.
Record fdesc := {
  fnum : N;
  fkind_of : fkind;
  fdefault : list byte;      (* canonical token of the scalar default *)
  frequired : bool;
  foneof : option N          (* index of the containing oneof *)
}.
Definition schema := list fdesc.   (* in field-number order *)

Inductive value :=
| VScalar (tok : list byte)
| VMessage (valid : bool)          (* a message value; false = typed nil *)
| VList (len : N)
| VMap (len : N).

Record msg := { present : list (N * value); unknown : list byte }.
Definition empty_msg : msg := {| present := []; unknown := [] |}.
Definition mstate := option msg.   (* None = typed nil pointer *)

Definition is_valid (s : mstate) : bool := match s with None => false | Some _ => true end.

Fixpoint lookup (l : list (N * value)) (n : N) : option value :=
  match l with
  | [] => None
  | (k, v) :: r => if k =? n then Some v else lookup r n
  end.

(* messageState.Has: a nil pointer has nothing *)
Definition has (s : mstate) (f : fdesc) : bool :=
  match s with
  | None => false
  | Some m => match lookup (present m) (fnum f) with Some _ => true | None => false end
  end.

(* the value Get returns for an unpopulated field: the default, an invalid
   message, an empty read-only list or map *)
Definition zero_value (f : fdesc) : value :=
  match fkind_of f with
  | KScalar => VScalar (fdefault f)
  | KMessage => VMessage false
  | KList => VList 0
  | KMap => VMap 0
  end.

Definition get (s : mstate) (f : fdesc) : value :=
  match s with
  | None => zero_value f
  | Some m => match lookup (present m) (fnum f) with Some v => v | None => zero_value f end
  end.

Definition range (s : mstate) : list (N * value) :=
  match s with None => [] | Some m => present m end.

Definition in_oneof (o : N) (f : fdesc) : bool :=
  match foneof f with Some k => k =? o | None => false end.

Definition which_oneof (sch : schema) (s : mstate) (o : N) : option N :=
  match s with
  | None => None
  | Some _ => match find (fun f => in_oneof o f && has s f) sch with
              | Some f => Some (fnum f) | None => None end
  end.

Definition get_unknown (s : mstate) : list byte :=
  match s with None => [] | Some m => unknown m end.

(* CheckInitialized: number of the first required field that is not set.
   impl.checkInitializedPointer: "if p.IsNil() { for f in orderedCoderFields
   { if f.isRequired { return RequiredNotSet } } }" *)
Definition check_init (sch : schema) (s : mstate) : option N :=
  match s with
  | None => match find frequired sch with Some f => Some (fnum f) | None => None end
  | Some _ => match find (fun f => frequired f && negb (has s f)) sch with
              | Some f => Some (fnum f) | None => None end
  end.

Definition equal (eqm : msg -> msg -> bool) (a b : mstate) : bool :=
  match a, b with
  | None, None => true
  | Some x, Some y => eqm x y
  | _, _ => false       (* mx.IsValid() != my.IsValid() *)
  end.

(* proto.Clone: an invalid message clones to an invalid message *)
Definition clone (s : mstate) : mstate := s.

(* proto.Merge(dst, src) with a valid dst *)
Definition merge_msg (dst src : msg) : msg :=
  {| present := present dst ++ present src; unknown := unknown dst ++ unknown src |}.
Definition merge (dst : msg) (src : mstate) : msg :=
  match src with None => dst | Some m => merge_msg dst m end.

Section Codec.
(* the wire / JSON / text encoders are opaque functions of the abstract content *)
Variable enc_field : N -> value -> list byte.
Variable render : msg -> list byte.

Definition encode (m : msg) : list byte :=
  flat_map (fun p => enc_field (fst p) (snd p)) (present m) ++ unknown m.

Definition size (s : mstate) : N :=
  match s with None => 0 | Some m => N.of_nat (length (encode m)) end.

Inductive mres := MErr (missing : N) | MBuf (nilbuf : bool) (b : list byte).

(* proto.MarshalOptions{AllowPartial}.Marshal: the buffer returned for an
   empty encoding is nil iff the message is invalid (emptyBytesForMessage) *)
Definition marshal (allow_partial : bool) (sch : schema) (s : mstate) : mres :=
  let b := match s with None => [] | Some m => encode m end in
  match (if allow_partial then None else check_init sch s) with
  | Some n => MErr n
  | None => MBuf (match b with [] => negb (is_valid s) | _ => false end) b
  end.

(* MarshalAppend(prefix, m) *)
Definition marshal_append (prefix : list byte) (sch : schema) (s : mstate) : option (list byte) :=
  match marshal true sch s with MBuf _ b => Some (prefix ++ b) | MErr _ => None end.

(* protojson / prototext: an invalid message is formatted as the empty message *)
Definition format (s : mstate) : list byte :=
  render (match s with None => empty_msg | Some m => m end).

(* protojson.Format / prototext.Format (debugging output):
   "if m == nil || !m.ProtoReflect().IsValid() { return "<nil>" }" *)
Definition nil_marker : list byte := [x3c; x6e; x69; x6c; x3e].
Definition debug_format (s : mstate) : list byte :=
  match s with None => nil_marker | Some m => render m end.
End Codec.
