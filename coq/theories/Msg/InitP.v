(* InitP — proofs about Msg/InitModel.v (C10).

   msg_checkinit_exact        check_init = false  <->  some message of the tree lacks a required field
   msg_mask_sound(_gen)       requiredMask accounting: popcount(mask) = numRequiredFields implies that
                              every required field was decoded -- for EVERY number of required
                              fields (more than 64: the equality never holds)
   msg_fast_flag_sound        flag set -> the decoded message is initialized, for schemas satisfying
                              msg_init_wf; maps are covered when the value type needs no init check or
                              is a leaf type (all fields of scalar kind, e.g. map<int32, TestRequired>:
                              msg_entry_sync, using that decoding never removes a required field,
                              msg_dm_keeps); finding FA5 lives in map values with sub-messages
   msg_unmarshal_exact, msg_unmarshal_slow_exact, msg_marshal_exact, msg_allow_partial_*
   msg_fast_flag_sound_refuted_FA5, msg_unmarshal_lazy_exact_refuted_FA1   witnesses;
   msg_flag_oneof_member_FA2_repaired   the witness of the repaired finding FA2 now clears the flag *)
From Coq Require Import List NArith ZArith Bool Lia.
From Coq Require Import ZifyBool ZifyNat ZifyN.
From PB Require Import Base.PBytes Wire.WireModel Msg.MsgSchema Msg.MsgValue Msg.MsgEnc Msg.MsgDec Msg.MsgValid
  Msg.MsgAssocP Msg.MsgSizeP Msg.MsgRoundP Msg.InitModel.
Import ListNotations.
Open Scope N_scope.

(* AllowPartial: never a required-field error *)
Lemma msg_allow_partial_unmarshal S ni limit tid bs : msg_unmarshal S ni limit tid true bs <> URequired.
Proof. unfold msg_unmarshal. destruct (msg_decode false S limit tid bs); discriminate. Qed.
Lemma msg_allow_partial_unmarshal_slow S limit tid bs : msg_unmarshal_slow S limit tid true bs <> URequired.
Proof. unfold msg_unmarshal_slow. destruct (msg_decode true S limit tid bs); cbn [orb]; discriminate. Qed.
Lemma msg_allow_partial_marshal S tid v : msg_marshal_checked S tid true v = Some (msg_encode S tid v).
Proof. reflexivity. Qed.


(* ================= the tree walk is exact ================= *)

Lemma msg_forallb_false {A} (f : A -> bool) l : forallb f l = false -> exists x, In x l /\ f x = false.
Proof.
  induction l as [|a l IH]; [discriminate|]. cbn [forallb]. destruct (f a) eqn:E.
  - cbn [andb]. intros H. destruct (IH H) as (x & Hx & Hf). exists x. split; [right; exact Hx|exact Hf].
  - intros _. exists a. split; [left; reflexivity|exact E].
Qed.
Lemma msg_forallb_in_false {A} (f : A -> bool) l x : In x l -> f x = false -> forallb f l = false.
Proof.
  intros Hin Hf. destruct (forallb f l) eqn:E; [|reflexivity].
  rewrite forallb_forall in E. rewrite (E x Hin) in Hf. discriminate.
Qed.

Definition msg_unentry (x : value) : value := match x with VEntry _ x' => x' | _ => x end.

(* some message of the tree lacks a required field *)
Inductive msg_missing (S : schema) : nat -> value -> Prop :=
| MissHere tid fs u fd :
    In fd (nth tid S []) -> msg_is_req fd = true -> msg_present fs (f_num fd) = false ->
    msg_missing S tid (VMsg fs u)
| MissBelow tid fs u p fd t x :
    In p fs -> msg_find_field (nth tid S []) (fst p) = Some fd ->
    (f_kind fd = KMsg t \/ f_kind fd = KGrp t) -> In x (snd p) ->
    msg_missing S t (msg_unentry x) ->
    msg_missing S tid (VMsg fs u).

Lemma msg_check_elem_unentry S t x : msg_check_elem (msg_check_init S) t x = msg_check_init S t (msg_unentry x).
Proof. destruct x; reflexivity. Qed.

Lemma msg_missing_check S tid v : msg_missing S tid v -> msg_check_init S tid v = false.
Proof.
  induction 1 as [tid fs u fd Hin Hreq Hp|tid fs u p fd t x Hin Hf Hk Hx _ IH].
  - cbn [msg_check_init]. apply andb_false_iff. left. unfold msg_required_present.
    apply (msg_forallb_in_false _ _ fd Hin). rewrite Hreq, Hp. reflexivity.
  - cbn [msg_check_init]. apply andb_false_iff. right.
    apply (msg_forallb_in_false _ _ p Hin). unfold msg_check_chunk. rewrite Hf.
    assert (forallb (msg_check_elem (msg_check_init S) t) (snd p) = false) as E.
    { apply (msg_forallb_in_false _ _ x Hx). rewrite msg_check_elem_unentry. exact IH. }
    destruct Hk as [-> | ->]; exact E.
Qed.

Definition msg_check_stmt (S : schema) (v : value) : Prop :=
  forall tid, msg_check_init S tid v = false -> msg_missing S tid v.

Lemma msg_check_missing_all S : forall v,
  msg_check_stmt S v /\ match v with VEntry _ v' => msg_check_stmt S v' | _ => True end.
Proof.
  induction v as [s|fs unk IH|k v IH] using msg_value_ind.
  - split; [|exact I]. intros tid H. discriminate.
  - split; [|exact I]. intros tid H. cbn [msg_check_init] in H.
    apply andb_false_iff in H. destruct H as [H|H].
    + unfold msg_required_present in H. apply msg_forallb_false in H. destruct H as (fd & Hin & Hf).
      apply orb_false_iff in Hf. destruct Hf as [Hr Hp]. apply negb_false_iff in Hr.
      eapply MissHere; eassumption.
    + apply msg_forallb_false in H. destruct H as (p & Hin & Hc).
      unfold msg_check_chunk in Hc. destruct (msg_find_field (nth tid S []) (fst p)) as [fd|] eqn:Hf; [|discriminate].
      rewrite Forall_forall in IH. specialize (IH p Hin). rewrite Forall_forall in IH.
      assert (Hgo : forall t, (f_kind fd = KMsg t \/ f_kind fd = KGrp t) ->
                forallb (msg_check_elem (msg_check_init S) t) (snd p) = false -> msg_missing S tid (VMsg fs unk)).
      { intros t Hk Hall. apply msg_forallb_false in Hall. destruct Hall as (x & Hx & Hxe).
        rewrite msg_check_elem_unentry in Hxe.
        eapply MissBelow; try eassumption.
        destruct (IH x Hx) as [Hs Hd]. destruct x as [s|fs' u'|k' x']; cbn [msg_unentry] in *.
        - apply Hs. exact Hxe.
        - apply Hs. exact Hxe.
        - apply Hd. exact Hxe. }
      destruct (f_kind fd) as [sk|t|t] eqn:Hk; [discriminate| |].
      * apply (Hgo t); [left; reflexivity|exact Hc].
      * apply (Hgo t); [right; reflexivity|exact Hc].
  - split; [intros tid H; discriminate|]. exact (proj1 IH).
Qed.

Theorem msg_checkinit_exact S tid v : msg_check_init S tid v = false <-> msg_missing S tid v.
Proof. split; [apply (proj1 (msg_check_missing_all S v))|apply msg_missing_check]. Qed.

(* ================= requiredMask accounting ================= *)

(* ---------- popcount ---------- *)
Lemma msg_popcount_div2 a : msg_popcount a = N.b2n (N.odd a) + msg_popcount (N.div2 a).
Proof. destruct a as [|[p|p|]]; reflexivity. Qed.

Lemma msg_testbit_div2 a i : N.testbit (N.div2 a) i = N.testbit a (N.succ i).
Proof. rewrite N.div2_spec. rewrite N.shiftr_spec by lia. f_equal. lia. Qed.

Lemma msg_popcount_le : forall (n : nat) a,
  (forall i, N.testbit a i = true -> i < N.of_nat n) -> msg_popcount a <= N.of_nat n.
Proof.
  induction n as [|n IH]; intros a H.
  - assert (a = 0) as ->.
    { apply N.bits_inj_0. intros i. destruct (N.testbit a i) eqn:E; [|reflexivity]. specialize (H i E). lia. }
    reflexivity.
  - rewrite msg_popcount_div2.
    assert (msg_popcount (N.div2 a) <= N.of_nat n).
    { apply IH. intros i Hi. rewrite msg_testbit_div2 in Hi. specialize (H _ Hi). lia. }
    destruct (N.odd a); cbn [N.b2n]; lia.
Qed.

Lemma msg_popcount_full : forall (n : nat) a,
  (forall i, N.testbit a i = true -> i < N.of_nat n) -> msg_popcount a = N.of_nat n ->
  forall i, i < N.of_nat n -> N.testbit a i = true.
Proof.
  induction n as [|n IH]; intros a H Hpc i Hi; [lia|].
  rewrite msg_popcount_div2 in Hpc.
  assert (Hd : forall j, N.testbit (N.div2 a) j = true -> j < N.of_nat n).
  { intros j Hj. rewrite msg_testbit_div2 in Hj. specialize (H _ Hj). lia. }
  pose proof (msg_popcount_le n (N.div2 a) Hd) as Hle.
  destruct (N.odd a) eqn:Hodd; cbn [N.b2n] in Hpc; [|lia].
  destruct (N.eq_dec i 0) as [->|Hne].
  - rewrite N.bit0_odd. exact Hodd.
  - replace i with (N.succ (N.pred i)) by lia. rewrite <- msg_testbit_div2.
    apply (IH (N.div2 a) Hd); lia.
Qed.

(* ---------- the bit of a field ---------- *)
Lemma msg_req_bit_testbit idx i :
  N.testbit (msg_req_bit idx) i = true <-> (idx <> 0 /\ idx <= 64 /\ i = idx - 1).
Proof.
  unfold msg_req_bit. destruct (N.eqb_spec idx 0) as [->|Hne].
  - rewrite N.bits_0. split; [discriminate|intros (H & _); congruence].
  - destruct (N.leb_spec idx 64) as [Hle|Hgt].
    + rewrite N.pow2_bits_eqb. split.
      * intros H. apply N.eqb_eq in H. repeat split; try assumption. lia.
      * intros (_ & _ & ->). apply N.eqb_refl.
    + rewrite N.bits_0. split; [discriminate|intros (_ & H & _); lia].
Qed.

(* index range and injectivity *)
Lemma msg_req_index_range : forall md num n,
  msg_req_index md num n = 0 \/ (n < msg_req_index md num n /\ msg_req_index md num n <= n + msg_count_required md).
Proof.
  induction md as [|fd r IH]; intros num n; [left; reflexivity|].
  cbn [msg_req_index msg_count_required].
  destruct (msg_req_counted fd); cbn [andb].
  - destruct (N.ltb_spec n 255) as [Hlt|Hge].
    + destruct (N.eqb_spec (f_num fd) num); [right; lia|].
      destruct (IH num (n + 1)) as [H|H]; [left; exact H|right; lia].
    + destruct (N.eqb_spec (f_num fd) num); [left; reflexivity|].
      destruct (IH num n) as [H|H]; [left; exact H|right; lia].
  - destruct (N.eqb_spec (f_num fd) num); [left; reflexivity|].
    destruct (IH num n) as [H|H]; [left; exact H|right; lia].
Qed.

Lemma msg_req_index_inj : forall md a b n,
  msg_req_index md a n = msg_req_index md b n -> msg_req_index md a n <> 0 -> a = b.
Proof.
  induction md as [|fd r IH]; intros a b n E Hne; [cbn in Hne; congruence|].
  cbn [msg_req_index] in *.
  destruct (N.eqb_spec (f_num fd) a) as [Ha|Ha]; destruct (N.eqb_spec (f_num fd) b) as [Hb|Hb].
  - congruence.
  - destruct (msg_req_counted fd && (n <? 255)) eqn:Hh; [|congruence].
    destruct (msg_req_index_range r b (n + 1)) as [H0|H0]; lia.
  - destruct (msg_req_counted fd && (n <? 255)) eqn:Hh; [|congruence].
    destruct (msg_req_index_range r a (n + 1)) as [H0|H0]; lia.
  - eapply IH; eassumption.
Qed.

(* a required field that is found by its number has an index, as long as the counter does not saturate *)
Lemma msg_req_index_found : forall md num fd n,
  msg_find_field md num = Some fd -> f_ext fd = false -> msg_is_req fd = true ->
  n + msg_count_required md <= 255 -> n < msg_req_index md num n.
Proof.
  induction md as [|fd0 r IH]; intros num fd n Hf Hext Hreq Hcnt; [discriminate|].
  cbn [msg_find_field msg_req_index msg_count_required] in *.
  destruct (N.eqb_spec (f_num fd0) num) as [Hnum|Hnum].
  - inversion Hf; subst fd0. unfold msg_req_counted in *. rewrite Hext, Hreq in *. cbn [negb andb] in *.
    destruct (N.ltb_spec n 255); lia.
  - destruct (msg_req_counted fd0); cbn [andb].
    + destruct (N.ltb_spec n 255); [|lia].
      assert (n + 1 < msg_req_index r num (n + 1)) by (eapply IH; try eassumption; try lia). lia.
    + eapply IH; try eassumption; try lia.
Qed.

(* a nonzero index belongs to a required field *)
Lemma msg_req_index_nonzero : forall md h n, msg_req_index md h n <> 0 ->
  exists fd, msg_find_field md h = Some fd /\ msg_is_req fd = true /\ f_ext fd = false.
Proof.
  induction md as [|fd r IH]; intros h n H; cbn [msg_req_index msg_find_field] in *; [congruence|].
  destruct (N.eqb_spec (f_num fd) h) as [Hn|Hn].
  - exists fd. split; [reflexivity|]. unfold msg_req_counted in H.
    destruct (f_ext fd); destruct (msg_is_req fd); cbn [negb andb] in H; try congruence. split; reflexivity.
  - eapply IH. exact H.
Qed.

(* ---------- the mask of a sequence of decoded field numbers ---------- *)
Definition msg_bit_of (md : mdesc) (num : N) : N := msg_req_bit (msg_req_index md num 0).
Definition msg_mask_of (md : mdesc) (hits : list N) (m0 : N) : N :=
  fold_left (fun m num => N.lor m (msg_bit_of md num)) hits m0.

Lemma msg_mask_of_testbit md : forall hits m0 i,
  N.testbit (msg_mask_of md hits m0) i = true <->
  (N.testbit m0 i = true \/ exists h, In h hits /\ N.testbit (msg_bit_of md h) i = true).
Proof.
  induction hits as [|h hits IH]; intros m0 i; cbn [msg_mask_of fold_left].
  - split; [intros H; left; exact H|intros [H|(h & [] & _)]; exact H].
  - fold (msg_mask_of md hits (N.lor m0 (msg_bit_of md h))). rewrite IH, N.lor_spec, orb_true_iff. split.
    + intros [[H|H]|(h' & Hin & H)]; [left; exact H|right; exists h; split; [left; reflexivity|exact H]|
                                       right; exists h'; split; [right; exact Hin|exact H]].
    + intros [H|(h' & [->|Hin] & H)]; [left; left; exact H|left; right; exact H|right; exists h'; split; assumption].
Qed.

Definition msg_nums_unique (md : mdesc) : Prop :=
  forall fd, In fd md -> msg_find_field md (f_num fd) = Some fd.

Lemma msg_count_required_pos md fd :
  In fd md -> f_ext fd = false -> msg_is_req fd = true -> 1 <= msg_count_required md.
Proof.
  induction md as [|fd0 r IH]; [contradiction|]. intros Hin Hext Hreq.
  cbn [msg_count_required]. destruct Hin as [->|Hin].
  - unfold msg_req_counted. rewrite Hext, Hreq. cbn [negb andb]. lia.
  - specialize (IH Hin Hext Hreq). lia.
Qed.

(* requiredMask accounting is sound for every number of required fields: if every bit of the mask
   is the bit of a field with property P, and the popcount of the mask equals numRequiredFields,
   then every required field has property P *)
Theorem msg_mask_sound_gen md (P : N -> Prop) mask :
  msg_nums_unique md ->
  (forall i, N.testbit mask i = true -> exists h, P h /\ N.testbit (msg_bit_of md h) i = true) ->
  msg_popcount mask = msg_num_required md ->
  forall fd, In fd md -> f_ext fd = false -> msg_is_req fd = true -> P (f_num fd).
Proof.
  intros Huniq Hcover Hpc fd Hin Hext Hreq.
  set (cnt := msg_count_required md) in *.
  assert (Hbits : forall i, N.testbit mask i = true -> i < N.min cnt 64).
  { intros i Hi. destruct (Hcover i Hi) as (h & _ & Hb).
    unfold msg_bit_of in Hb. apply msg_req_bit_testbit in Hb. destruct Hb as (Hne & Hle & ->).
    destruct (msg_req_index_range md h 0) as [H0|[_ H1]]; [congruence|]. fold cnt in H1. lia. }
  pose proof (msg_count_required_pos md fd Hin Hext Hreq) as Hcntpos. fold cnt in Hcntpos.
  unfold msg_num_required in Hpc. fold cnt in Hpc.
  destruct (N.leb_spec cnt 64) as [Hsmall|Hbig].
  - assert (Hall : forall i, i < cnt -> N.testbit mask i = true).
    { replace cnt with (N.of_nat (N.to_nat cnt)) by lia.
      apply msg_popcount_full.
      - intros i Hi. specialize (Hbits i Hi). lia.
      - lia. }
    pose proof (msg_req_index_found md (f_num fd) fd 0 (Huniq fd Hin) Hext Hreq) as Hidx.
    fold cnt in Hidx. specialize (Hidx ltac:(lia)).
    destruct (msg_req_index_range md (f_num fd) 0) as [H0|[_ Hhi]]; [lia|]. fold cnt in Hhi.
    specialize (Hall (msg_req_index md (f_num fd) 0 - 1) ltac:(lia)).
    destruct (Hcover _ Hall) as (h & Hh & Hb).
    unfold msg_bit_of in Hb. apply msg_req_bit_testbit in Hb. destruct Hb as (Hne & _ & Heq).
    assert (msg_req_index md h 0 = msg_req_index md (f_num fd) 0) as E by lia.
    rewrite <- (msg_req_index_inj md h (f_num fd) 0 E Hne). exact Hh.
  - exfalso.
    assert (msg_popcount mask <= N.of_nat 64).
    { apply msg_popcount_le. intros i Hi. specialize (Hbits i Hi). lia. }
    lia.
Qed.

(* the list form: the mask of a sequence of decoded field numbers *)
Corollary msg_mask_sound md hits :
  msg_nums_unique md ->
  msg_popcount (msg_mask_of md hits 0) = msg_num_required md ->
  forall fd, In fd md -> f_ext fd = false -> msg_is_req fd = true -> In (f_num fd) hits.
Proof.
  intros Huniq Hpc. apply (msg_mask_sound_gen md (fun h => In h hits) (msg_mask_of md hits 0) Huniq); [|exact Hpc].
  intros i Hi. apply msg_mask_of_testbit in Hi.
  destruct Hi as [Hi|(h & Hh & Hb)]; [rewrite N.bits_0 in Hi; discriminate|]. exists h. split; assumption.
Qed.

(* ================= invariants of the decoder accumulator ================= *)

(* ---------- association lists (no sortedness needed) ---------- *)
Lemma msg_fget_fset_other fs k vs h : h <> k -> msg_fget (msg_fset fs k vs) h = msg_fget fs h.
Proof.
  intros Hne. induction fs as [|[k0 v0] r IH]; cbn [msg_fset msg_fget].
  - destruct (N.eqb_spec h k); [congruence|reflexivity].
  - destruct (N.ltb_spec k k0) as [Hlt|Hge].
    + cbn [msg_fget]. destruct (N.eqb_spec h k); [congruence|reflexivity].
    + destruct (N.eqb_spec k k0) as [->|Hk].
      * cbn [msg_fget]. destruct (N.eqb_spec h k0); [congruence|reflexivity].
      * cbn [msg_fget]. destruct (N.eqb_spec h k0); [reflexivity|exact IH].
Qed.
Lemma msg_fget_fdel_other fs k h : h <> k -> msg_fget (msg_fdel fs k) h = msg_fget fs h.
Proof.
  intros Hne. induction fs as [|[k0 v0] r IH]; cbn [msg_fdel msg_fget]; [reflexivity|].
  destruct (N.eqb_spec k k0) as [->|Hk].
  - destruct (N.eqb_spec h k0); [congruence|reflexivity].
  - cbn [msg_fget]. destruct (N.eqb_spec h k0); [reflexivity|exact IH].
Qed.
Lemma msg_in_fset fs k vs p : In p (msg_fset fs k vs) -> p = (k, vs) \/ In p fs.
Proof.
  induction fs as [|[k0 v0] r IH]; cbn [msg_fset].
  - intros [H|[]]. left. symmetry. exact H.
  - destruct (N.ltb_spec k k0) as [Hlt|Hge].
    + intros [H|H]; [left; symmetry; exact H|right; exact H].
    + destruct (N.eqb_spec k k0) as [->|Hk].
      * intros [H|H]; [left; symmetry; exact H|right; right; exact H].
      * intros [H|H]; [right; left; exact H|]. destruct (IH H) as [E|E]; [left; exact E|right; right; exact E].
Qed.
Lemma msg_in_fdel fs k p : In p (msg_fdel fs k) -> In p fs.
Proof.
  induction fs as [|[k0 v0] r IH]; cbn [msg_fdel]; [intros []|].
  destruct (N.eqb_spec k k0); [intros H; right; exact H|].
  intros [H|H]; [left; exact H|right; exact (IH H)].
Qed.
Lemma msg_fget_in fs h : msg_fget fs h <> [] -> In (h, msg_fget fs h) fs.
Proof.
  induction fs as [|[k0 v0] r IH]; cbn [msg_fget]; [congruence|].
  destruct (N.eqb_spec h k0) as [->|Hk]; [intros _; left; reflexivity|intros H; right; exact (IH H)].
Qed.
Lemma msg_in_clear_oneof md oi num : forall fs p, In p (msg_clear_oneof md oi num fs) -> In p fs.
Proof.
  induction md as [|fd r IH]; intros fs p; cbn [msg_clear_oneof]; [exact (fun H => H)|].
  intros H. apply IH in H. destruct (f_oneof fd) as [j|]; [|exact H].
  destruct ((j =? oi) && negb (f_num fd =? num)); [exact (msg_in_fdel _ _ _ H)|exact H].
Qed.
Lemma msg_fget_clear_oneof md oi num h : forall fs,
  (forall fd, In fd md -> f_num fd = h -> f_oneof fd = Some oi -> h = num) ->
  msg_fget (msg_clear_oneof md oi num fs) h = msg_fget fs h.
Proof.
  induction md as [|fd r IH]; intros fs Hh; cbn [msg_clear_oneof]; [reflexivity|].
  rewrite IH by (intros fd' Hin; apply Hh; right; exact Hin).
  destruct (f_oneof fd) as [j|] eqn:Ho; [|reflexivity].
  destruct (N.eqb_spec j oi) as [->|Hj]; cbn [andb]; [|reflexivity].
  destruct (N.eqb_spec (f_num fd) num) as [Hn|Hn]; cbn [negb]; [reflexivity|].
  apply msg_fget_fdel_other. intros E. apply Hn. rewrite <- E.
  apply (Hh fd (or_introl eq_refl)); [symmetry; exact E|exact Ho].
Qed.
Lemma msg_in_map_put : forall es key v x, In x (msg_map_put es key v) -> x = VEntry key v \/ In x es.
Proof.
  induction es as [|e r IH]; intros key v x; cbn [msg_map_put].
  - intros [H|[]]. left. symmetry. exact H.
  - destruct e as [s|fs u|k0 v0].
    + intros [H|H]; [right; left; exact H|]. destruct (IH _ _ _ H) as [E|E]; [left; exact E|right; right; exact E].
    + intros [H|H]; [right; left; exact H|]. destruct (IH _ _ _ H) as [E|E]; [left; exact E|right; right; exact E].
    + destruct (msg_scmp key k0).
      * intros [H|H]; [left; symmetry; exact H|right; right; exact H].
      * intros [H|H]; [left; symmetry; exact H|right; exact H].
      * intros [H|H]; [right; left; exact H|]. destruct (IH _ _ _ H) as [E|E]; [left; exact E|right; right; exact E].
Qed.
Lemma msg_map_put_nonempty es key v : msg_map_put es key v <> [].
Proof. destruct es as [|[s|fs u|k0 v0] r]; cbn [msg_map_put]; try discriminate. destruct (msg_scmp key k0); discriminate. Qed.

(* ---------- well-formedness of the schema for the flag theorem ---------- *)
Record msg_md_wf (ni : nat -> bool) (md : mdesc) : Prop := {
  wf_uniq : msg_nums_unique md;
  wf_req : forall fd, In fd md -> msg_is_req fd = true -> f_ext fd = false /\ f_oneof fd = None
}.
(* a message type all of whose fields are of scalar kind (scalars, lists and maps of scalars) *)
Definition msg_leaf (md : mdesc) : bool :=
  forallb (fun fd => match f_kind fd with KS _ => true | _ => false end) md.
(* restriction [maps]: the value type of a map either needs no init check, or is a leaf type
   (e.g. map<int32, TestRequired>); finding FA5 lives in map values with sub-messages *)
Definition msg_maps_wf (S : schema) (ni : nat -> bool) : Prop :=
  forall tid md fd kk ku vd t, nth_error S tid = Some md -> In fd md -> f_card fd = CMap kk ku vd ->
    (f_kind fd = KMsg t \/ f_kind fd = KGrp t) ->
    ni t = false \/ (f_kind fd = KMsg t /\ msg_leaf (nth t S []) = true).
Definition msg_ni_sound (S : schema) (ni : nat -> bool) : Prop :=
  forall tid v, ni tid = false -> msg_check_init S tid v = true.
Definition msg_init_wf (S : schema) (ni : nat -> bool) : Prop :=
  (forall tid md, nth_error S tid = Some md -> msg_md_wf ni md) /\ msg_ni_sound S ni /\ msg_maps_wf S ni.

(* ---------- invariants ---------- *)
Definition msg_elems_ok (S : schema) (md : mdesc) (p : N * list value) : Prop :=
  forall fd t, msg_find_field md (fst p) = Some fd -> (f_kind fd = KMsg t \/ f_kind fd = KGrp t) ->
               forall x, In x (snd p) -> msg_check_elem (msg_check_init S) t x = true.
Definition msg_subs_ok (S : schema) (md : mdesc) (fs : fields) : Prop :=
  forall p, In p fs -> msg_elems_ok S md p.

Lemma msg_elems_ok_chunk S md p : msg_elems_ok S md p -> msg_check_chunk (msg_check_init S) md p = true.
Proof.
  intros H. unfold msg_check_chunk. destruct (msg_find_field md (fst p)) as [fd|] eqn:Hf; [|reflexivity].
  destruct (f_kind fd) as [sk|t|t] eqn:Hk; [reflexivity| |]; apply forallb_forall; intros x Hx.
  - exact (H fd t Hf (or_introl Hk) x Hx).
  - exact (H fd t Hf (or_intror Hk) x Hx).
Qed.
Lemma msg_chunk_elems_ok S md p : msg_check_chunk (msg_check_init S) md p = true -> msg_elems_ok S md p.
Proof.
  intros H fd t Hf Hk x Hx. unfold msg_check_chunk in H. rewrite Hf in H.
  destruct Hk as [Hk|Hk]; rewrite Hk in H; rewrite forallb_forall in H; exact (H x Hx).
Qed.

Definition msg_mask_ok (md : mdesc) (fs : fields) (mask : N) : Prop :=
  forall i, N.testbit mask i = true ->
            exists h, msg_present fs h = true /\ N.testbit (msg_bit_of md h) i = true.
Definition msg_inv (S : schema) (md : mdesc) (fs : fields) (st : msg_ist) : Prop :=
  msg_mask_ok md fs (fst st) /\ (snd st = true -> msg_subs_ok S md fs).

(* presence of required fields is kept *)
Definition msg_keeps (md : mdesc) (fs fs' : fields) : Prop :=
  forall h fdh, msg_find_field md h = Some fdh -> msg_is_req fdh = true ->
                msg_present fs h = true -> msg_present fs' h = true.

Lemma msg_bit_of_req md h i : N.testbit (msg_bit_of md h) i = true ->
  exists fd, msg_find_field md h = Some fd /\ msg_is_req fd = true /\ f_ext fd = false.
Proof.
  intros H. unfold msg_bit_of in H. apply msg_req_bit_testbit in H. destruct H as (Hne & _ & _).
  exact (msg_req_index_nonzero md h 0 Hne).
Qed.

Lemma msg_mask_ok_keeps md fs fs' mask : msg_keeps md fs fs' -> msg_mask_ok md fs mask -> msg_mask_ok md fs' mask.
Proof.
  intros Hk Hm i Hi. destruct (Hm i Hi) as (h & Hp & Hb). exists h. split; [|exact Hb].
  destruct (msg_bit_of_req md h i Hb) as (fd & Hf & Hr & _). exact (Hk h fd Hf Hr Hp).
Qed.

Lemma msg_mask_ok_hit md fs mask num :
  msg_mask_ok md fs mask ->
  (forall i, N.testbit (msg_bit_of md num) i = true -> msg_present fs num = true) ->
  msg_mask_ok md fs (N.lor mask (msg_bit_of md num)).
Proof.
  intros Hm Hnew i Hi. rewrite N.lor_spec in Hi. apply orb_true_iff in Hi. destruct Hi as [Hi|Hi].
  - exact (Hm i Hi).
  - exists num. split; [exact (Hnew i Hi)|exact Hi].
Qed.

(* a field that is not required contributes no bit *)
Lemma msg_bit_of_nonreq md num fd : msg_find_field md num = Some fd -> msg_is_req fd = false -> msg_bit_of md num = 0.
Proof.
  intros Hf Hr. unfold msg_bit_of.
  destruct (N.eq_dec (msg_req_index md num 0) 0) as [->|Hne]; [reflexivity|].
  destruct (msg_req_index_nonzero md num 0 Hne) as (fd' & Hf' & Hr' & _). congruence.
Qed.
Lemma msg_bit_of_ext md num fd : msg_find_field md num = Some fd -> f_ext fd = true -> msg_bit_of md num = 0.
Proof.
  intros Hf Hr. unfold msg_bit_of.
  destruct (N.eq_dec (msg_req_index md num 0) 0) as [->|Hne]; [reflexivity|].
  destruct (msg_req_index_nonzero md num 0 Hne) as (fd' & Hf' & _ & Hx'). congruence.
Qed.

(* ---------- effect of the stores on presence and on the sub-values ---------- *)
Lemma msg_present_fset_same fs k vs : vs <> [] -> msg_present (msg_fset fs k vs) k = true.
Proof. intros H. unfold msg_present. rewrite msg_fget_fset_same. destruct vs; [congruence|reflexivity]. Qed.
Lemma msg_present_fset_other fs k vs h : h <> k -> msg_present (msg_fset fs k vs) h = msg_present fs h.
Proof. intros H. unfold msg_present. rewrite msg_fget_fset_other by exact H. reflexivity. Qed.

Section Stores.
  Variable ni : nat -> bool.
  Variable md : mdesc.
  Hypothesis Hwf : msg_md_wf ni md.

  Lemma msg_find_in_self fd num : msg_find_field md num = Some fd -> In fd md /\ f_num fd = num.
  Proof. intros H. split; [exact (msg_find_field_in _ _ _ H)|exact (msg_find_field_num _ _ _ H)]. Qed.

  (* clearing the other members of a oneof does not touch required fields nor the field itself *)
  Lemma msg_clear_oneof_keeps oi num fs h fdh :
    msg_find_field md h = Some fdh -> (msg_is_req fdh = true \/ h = num) ->
    msg_fget (msg_clear_oneof md oi num fs) h = msg_fget fs h.
  Proof.
    intros Hf Hc. apply msg_fget_clear_oneof. intros fd' Hin Hn Ho.
    destruct Hc as [Hr|Hc]; [|exact Hc]. exfalso.
    pose proof (wf_uniq ni md Hwf fd' Hin) as Hu. rewrite Hn, Hf in Hu. inversion Hu; subst fd'.
    destruct (wf_req ni md Hwf fdh Hin Hr) as [_ Hoo]. congruence.
  Qed.

  Lemma msg_set_field_keeps fd v fs :
    msg_find_field md (f_num fd) = Some fd -> msg_keeps md fs (msg_set_field md fd v fs).
  Proof.
    intros Hfd h fdh Hf Hr Hp. unfold msg_set_field.
    set (drop := match f_card fd, v with CImp, VS s => msg_scalar_is_zero s | _, _ => false end).
    assert (Hfs1 : msg_present (if drop then msg_fdel fs (f_num fd) else msg_fset fs (f_num fd) [v]) h = true).
    { destruct (N.eq_dec h (f_num fd)) as [->|Hne].
      - assert (drop = false) as ->.
        { rewrite Hfd in Hf. inversion Hf; subst fdh. unfold drop. unfold msg_is_req in Hr.
          destruct (f_card fd); try discriminate. reflexivity. }
        apply msg_present_fset_same. discriminate.
      - destruct drop.
        + unfold msg_present. rewrite msg_fget_fdel_other by exact Hne. exact Hp.
        + rewrite msg_present_fset_other by exact Hne. exact Hp. }
    destruct (f_oneof fd) as [oi|]; [|exact Hfs1].
    unfold msg_present. rewrite (msg_clear_oneof_keeps oi (f_num fd) _ h fdh Hf (or_introl Hr)). exact Hfs1.
  Qed.

  Lemma msg_set_field_present fd v fs :
    msg_find_field md (f_num fd) = Some fd ->
    (match f_card fd, v with CImp, VS s => msg_scalar_is_zero s | _, _ => false end) = false ->
    msg_present (msg_set_field md fd v fs) (f_num fd) = true.
  Proof.
    intros Hfd Hd. unfold msg_set_field. rewrite Hd.
    destruct (f_oneof fd) as [oi|]; [|apply msg_present_fset_same; discriminate].
    unfold msg_present. rewrite (msg_clear_oneof_keeps oi (f_num fd) _ (f_num fd) fd Hfd (or_intror eq_refl)).
    apply msg_present_fset_same. discriminate.
  Qed.

  Lemma msg_in_set_field fd v fs p : In p (msg_set_field md fd v fs) -> p = (f_num fd, [v]) \/ In p fs.
  Proof.
    unfold msg_set_field. intros H.
    assert (H1 : In p (if match f_card fd, v with CImp, VS s => msg_scalar_is_zero s | _, _ => false end
                       then msg_fdel fs (f_num fd) else msg_fset fs (f_num fd) [v])).
    { destruct (f_oneof fd); [exact (msg_in_clear_oneof _ _ _ _ _ H)|exact H]. }
    destruct (match f_card fd, v with CImp, VS s => msg_scalar_is_zero s | _, _ => false end).
    - right. exact (msg_in_fdel _ _ _ H1).
    - exact (msg_in_fset _ _ _ _ H1).
  Qed.

  Lemma msg_append_field_keeps fd vs fs : msg_keeps md fs (msg_append_field fd vs fs).
  Proof.
    intros h fdh Hf Hr Hp. unfold msg_append_field. destruct vs as [|v vs]; [exact Hp|].
    destruct (N.eq_dec h (f_num fd)) as [->|Hne].
    - apply msg_present_fset_same. destruct (msg_fget fs (f_num fd)); discriminate.
    - rewrite msg_present_fset_other by exact Hne. exact Hp.
  Qed.
  Lemma msg_append_field_present fd vs fs : vs <> [] -> msg_present (msg_append_field fd vs fs) (f_num fd) = true.
  Proof.
    intros H. unfold msg_append_field. destruct vs as [|v vs]; [congruence|].
    apply msg_present_fset_same. destruct (msg_fget fs (f_num fd)); discriminate.
  Qed.
  Lemma msg_in_append_field fd vs fs p :
    In p (msg_append_field fd vs fs) -> p = (f_num fd, msg_fget fs (f_num fd) ++ vs) \/ In p fs.
  Proof.
    unfold msg_append_field. destruct vs as [|v vs]; [intros H; right; exact H|]. apply msg_in_fset.
  Qed.

  (* sub-values stay initialized when a field receives initialized elements *)
  Lemma msg_subs_ok_store (S : schema) fs fs' num :
    msg_subs_ok S md fs ->
    (forall p, In p fs' -> In p fs \/ (fst p = num /\ forall x, In x (snd p) -> In x (msg_fget fs num) \/
                 (forall fd t, msg_find_field md num = Some fd -> (f_kind fd = KMsg t \/ f_kind fd = KGrp t) ->
                               msg_check_elem (msg_check_init S) t x = true))) ->
    msg_subs_ok S md fs'.
  Proof.
    intros Hs Hin p Hp. destruct (Hin p Hp) as [Hold|[Hfst Hx]]; [exact (Hs p Hold)|].
    intros fd t Hf Hk x Hxin. rewrite Hfst in Hf. destruct (Hx x Hxin) as [Ho|Hn].
    - assert (Hne : msg_fget fs num <> []) by (intros E; rewrite E in Ho; exact Ho).
      pose proof (Hs _ (msg_fget_in fs num Hne)) as He. exact (He fd t Hf Hk x Ho).
    - exact (Hn fd t Hf Hk).
  Qed.
End Stores.

(* ================= one field: decoder and flag pass in step ================= *)

Section Flag.
  Variable S : schema.
  Variable ni : nat -> bool.
  Hypothesis Hwf : msg_init_wf S ni.
  Notation dm := (msg_decode_msg false S).
  Notation im := (msg_init_msg S ni).

  (* both passes stop at the same place; and decoding [bs] into an accumulator whose sub-values are
     initialized, with the flag set, gives an initialized message *)
  Definition msg_flag_stmt (d : nat) : Prop :=
    forall tid grp g bs acc acc' rest g2 f rest2,
      dm d tid grp g bs acc = DOk (acc', rest) ->
      im d tid grp g2 bs = DOk (f, rest2) ->
      rest2 = rest /\
      (f = true -> msg_subs_ok S (nth tid S []) (fst acc) ->
       msg_check_init S tid (VMsg (fst acc') (snd acc')) = true).

  Definition msg_isub2 (d : nat) : option msg_init_t :=
    match d with O => None | Datatypes.S d1 => Some (im d1) end.

  Lemma msg_subs_ok_old_sub md fd fs t :
    msg_subs_ok S md fs -> msg_find_field md (f_num fd) = Some fd ->
    (f_kind fd = KMsg t \/ f_kind fd = KGrp t) ->
    msg_subs_ok S (nth t S []) (fst (msg_old_sub fd fs)).
  Proof.
    intros Hs Hf Hk. unfold msg_old_sub. destruct (card_repeated (f_card fd)); [intros p []|].
    destruct (msg_fget fs (f_num fd)) as [|v vs] eqn:E; [intros p []|].
    assert (Hne : msg_fget fs (f_num fd) <> []) by (rewrite E; discriminate).
    pose proof (Hs _ (msg_fget_in fs (f_num fd) Hne) fd t Hf Hk v) as Hv.
    rewrite E in Hv. specialize (Hv (or_introl eq_refl)).
    destruct v as [s|fs0 u0|k0 v0]; cbn [msg_macc_of fst]; try (intros p []).
    cbn [msg_check_elem msg_check_init] in Hv. apply andb_true_iff in Hv. destruct Hv as [_ Hv].
    rewrite forallb_forall in Hv. intros p Hp. apply msg_chunk_elems_ok. exact (Hv p Hp).
  Qed.

  Section Step.
    Variables (d : nat) (md : mdesc).
    Hypothesis Hmdwf : msg_md_wf ni md.
    Variable tidfix : nat.
    Hypothesis Hmdfix : nth_error S tidfix = Some md.
    Hypothesis IHd : msg_flag_stmt d.
    (* one level further down (values of map entries) *)
    Hypothesis IHd1 : forall d1, d = Datatypes.S d1 -> msg_flag_stmt d1.
    Hypothesis Hkeeps1 : forall d1 t mdt, d = Datatypes.S d1 -> nth_error S t = Some mdt -> msg_md_wf ni mdt ->
      forall grp g bs acc acc' rest, dm d1 t grp g bs acc = DOk (acc', rest) -> msg_keeps mdt (fst acc) (fst acc').

    (* storing an initialized sub-message *)
    Lemma msg_inv_store_sub fd t m fs st f :
      msg_find_field md (f_num fd) = Some fd -> (f_kind fd = KMsg t \/ f_kind fd = KGrp t) ->
      (forall kk ku vd, f_card fd <> CMap kk ku vd) ->
      (f = true -> msg_subs_ok S md fs -> msg_check_init S t (VMsg (fst m) (snd m)) = true) ->
      msg_inv S md fs st ->
      msg_inv S md (msg_store_sub md fd m fs) (msg_iupd fd f (msg_ihit md fd st)).
    Proof.
      intros Hf Hk Hnm Hm [Hmask Hsub].
      assert (Hkeeps : msg_keeps md fs (msg_store_sub md fd m fs)).
      { unfold msg_store_sub. destruct (card_repeated (f_card fd));
          [apply msg_append_field_keeps|apply (msg_set_field_keeps ni md Hmdwf); exact Hf]. }
      assert (Hpres : msg_present (msg_store_sub md fd m fs) (f_num fd) = true).
      { unfold msg_store_sub. destruct (card_repeated (f_card fd)).
        - apply msg_append_field_present. discriminate.
        - apply (msg_set_field_present ni md Hmdwf); [exact Hf|]. destruct (f_card fd); reflexivity. }
      split.
      - (* mask *)
        assert (Hm2 : msg_mask_ok md (msg_store_sub md fd m fs) (fst (msg_ihit md fd st))).
        { unfold msg_ihit. cbn [fst]. destruct (f_ext fd) eqn:Hx.
          - rewrite N.lor_0_r. exact (msg_mask_ok_keeps _ _ _ _ Hkeeps Hmask).
          - apply msg_mask_ok_hit; [exact (msg_mask_ok_keeps _ _ _ _ Hkeeps Hmask)|]. intros _ _. exact Hpres. }
        unfold msg_iupd. destruct f; exact Hm2.
      - (* sub-values *)
        intros Hok.
        assert (Hf_true : f = true /\ snd st = true).
        { unfold msg_iupd, msg_ihit in Hok. destruct f; [split; [reflexivity|exact Hok]|]. discriminate. }
        destruct Hf_true as [-> Hst]. specialize (Hsub Hst). specialize (Hm eq_refl Hsub).
        apply (msg_subs_ok_store md S fs _ (f_num fd) Hsub). intros p Hp.
        unfold msg_store_sub in Hp. destruct (card_repeated (f_card fd)).
        + apply msg_in_append_field in Hp. destruct Hp as [->|Hp]; [|left; exact Hp].
          right. split; [reflexivity|]. cbn [snd]. intros x Hx. apply in_app_or in Hx.
          destruct Hx as [Hx|[<-|[]]]; [left; exact Hx|right].
          intros fd' t' Hf' Hk'. rewrite Hf in Hf'. inversion Hf'; subst fd'.
          assert (t' = t) as -> by (destruct Hk as [Hk|Hk]; destruct Hk' as [Hk'|Hk']; congruence).
          exact Hm.
        + apply msg_in_set_field in Hp. destruct Hp as [->|Hp]; [|left; exact Hp].
          right. split; [reflexivity|]. cbn [snd]. intros x [<-|[]]. right.
          intros fd' t' Hf' Hk'. rewrite Hf in Hf'. inversion Hf'; subst fd'.
          assert (t' = t) as -> by (destruct Hk as [Hk|Hk]; destruct Hk' as [Hk'|Hk']; congruence).
          exact Hm.
    Qed.

    (* storing a scalar *)
    Lemma msg_inv_store_scalar fd sk s fs st :
      msg_find_field md (f_num fd) = Some fd -> f_kind fd = KS sk ->
      (forall kk ku vd, f_card fd <> CMap kk ku vd) ->
      msg_inv S md fs st ->
      msg_inv S md (if card_repeated (f_card fd) then msg_append_field fd [VS s] fs else msg_set_field md fd (VS s) fs)
              (msg_ihit md fd st).
    Proof.
      intros Hf Hk Hnm [Hmask Hsub].
      set (fs' := if card_repeated (f_card fd) then msg_append_field fd [VS s] fs else msg_set_field md fd (VS s) fs).
      assert (Hkeeps : msg_keeps md fs fs').
      { unfold fs'. destruct (card_repeated (f_card fd));
          [apply msg_append_field_keeps|apply (msg_set_field_keeps ni md Hmdwf); exact Hf]. }
      split.
      - unfold msg_ihit. cbn [fst]. destruct (f_ext fd) eqn:Hx.
        + rewrite N.lor_0_r. exact (msg_mask_ok_keeps _ _ _ _ Hkeeps Hmask).
        + apply msg_mask_ok_hit; [exact (msg_mask_ok_keeps _ _ _ _ Hkeeps Hmask)|].
          intros i Hi. destruct (msg_bit_of_req md _ i Hi) as (fd' & Hf' & Hr & _).
          rewrite Hf in Hf'. inversion Hf'; subst fd'. unfold fs'.
          unfold msg_is_req in Hr. destruct (f_card fd) eqn:Hc; try discriminate. cbn [card_repeated].
          apply (msg_set_field_present ni md Hmdwf); [exact Hf|]. rewrite Hc. reflexivity.
      - unfold msg_ihit. cbn [snd]. intros Hst. specialize (Hsub Hst).
        apply (msg_subs_ok_store md S fs _ (f_num fd) Hsub). intros p Hp. unfold fs' in Hp.
        assert (Hscalar : forall x : value, (forall fd' t, msg_find_field md (f_num fd) = Some fd' ->
                     (f_kind fd' = KMsg t \/ f_kind fd' = KGrp t) -> msg_check_elem (msg_check_init S) t x = true)).
        { intros x fd' t Hf' Hk'. rewrite Hf in Hf'. inversion Hf'; subst fd'. destruct Hk'; congruence. }
        destruct (card_repeated (f_card fd)).
        + apply msg_in_append_field in Hp. destruct Hp as [->|Hp]; [|left; exact Hp].
          right. split; [reflexivity|]. intros x _. right. apply Hscalar.
        + apply msg_in_set_field in Hp. destruct Hp as [->|Hp]; [|left; exact Hp].
          right. split; [reflexivity|]. intros x _. right. apply Hscalar.
    Qed.

    (* the non-map branches of msg_step / msg_istep as functions of the cardinality *)
    Definition msg_step_nm (tagraw : list byte) (num typ : N) (r : list byte) (acc : msg_macc) (fd : fdesc) (c : card)
      : dres (msg_macc * list byte) :=
      match f_kind fd with
      | KMsg tid =>
        if typ =? 2 then
          match dec_bytes r with
          | Err _ => DErr DParse
          | Ok (payload, r') =>
            match msg_whole (dm d) tid payload (msg_old_sub fd (fst acc)) with
            | DErr e => DErr e
            | DOk m => DOk ((msg_store_sub md fd m (fst acc), snd acc), r')
            end
          end
        else msg_unknown tagraw num typ r acc
      | KGrp tid =>
        if typ =? 3 then
          match dm d tid num (x00 :: r) r (msg_old_sub fd (fst acc)) with
          | DErr e => DErr e
          | DOk (m, r') => DOk ((msg_store_sub md fd m (fst acc), snd acc), r')
          end
        else msg_unknown tagraw num typ r acc
      | KS sk =>
        if typ =? sk_wt sk then
          match parse_val 0 num typ r with
          | Err _ => DErr DParse
          | Ok (w, r') =>
            match msg_dec_scalar sk (msg_field_utf8 false fd) w with
            | None => msg_unknown tagraw num typ r acc
            | Some (DErr e) => DErr e
            | Some (DOk s) =>
              DOk ((if card_repeated c then msg_append_field fd [VS s] (fst acc)
                    else msg_set_field md fd (VS s) (fst acc), snd acc), r')
            end
          end
        else if (typ =? 2) && msg_packable sk && card_repeated c then
          match dec_bytes r with
          | Err _ => DErr DParse
          | Ok (payload, r') =>
            match msg_dec_packed (x00 :: payload) sk payload [] with
            | DErr e => DErr e
            | DOk vs => DOk ((msg_append_field fd vs (fst acc), snd acc), r')
            end
          end
        else msg_unknown tagraw num typ r acc
      end.

    Definition msg_istep_nm (num typ : N) (r : list byte) (st : msg_ist) (fd : fdesc) (c : card)
      : dres (msg_ist * list byte) :=
      match f_kind fd with
      | KMsg tid =>
        if typ =? 2 then
          match dec_bytes r with
          | Err _ => DErr DParse
          | Ok (payload, r') =>
            match msg_iwhole (im d) tid payload with
            | DErr e => DErr e
            | DOk f => DOk (msg_iupd fd f (msg_ihit md fd st), r')
            end
          end
        else msg_iskip num typ r st
      | KGrp tid =>
        if typ =? 3 then
          match im d tid num (x00 :: r) r with
          | DErr e => DErr e
          | DOk (f, r') => DOk (msg_iupd fd f (msg_ihit md fd st), r')
          end
        else msg_iskip num typ r st
      | KS sk =>
        if typ =? sk_wt sk then
          match parse_val 0 num typ r with
          | Err _ => DErr DParse
          | Ok (w, r') =>
            match msg_dec_scalar sk (msg_field_utf8 false fd) w with
            | None => msg_iskip num typ r st
            | Some (DErr e) => DErr e
            | Some (DOk _) => DOk (msg_ihit md fd st, r')
            end
          end
        else if (typ =? 2) && msg_packable sk && card_repeated c then
          match dec_bytes r with
          | Err _ => DErr DParse
          | Ok (_, r') => DOk (msg_ihit md fd st, r')
          end
        else msg_iskip num typ r st
      end.

    Lemma msg_step_nm_eq tagraw num typ r acc fd :
      msg_find_field md num = Some fd -> (forall kk ku vd, f_card fd <> CMap kk ku vd) ->
      msg_step false md (dm d) (msg_dsub2 false S d) tagraw num typ r acc = msg_step_nm tagraw num typ r acc fd (f_card fd).
    Proof.
      intros Hf Hnm. unfold msg_step, msg_step_nm. rewrite Hf.
      destruct (f_card fd) eqn:Hc; try reflexivity. exfalso. eapply Hnm. reflexivity.
    Qed.
    Lemma msg_istep_nm_eq num typ r st fd :
      msg_find_field md num = Some fd -> (forall kk ku vd, f_card fd <> CMap kk ku vd) ->
      msg_istep ni md (im d) (msg_isub2 d) num typ r st = msg_istep_nm num typ r st fd (f_card fd).
    Proof.
      intros Hf Hnm. unfold msg_istep, msg_istep_nm. rewrite Hf.
      destruct (f_card fd) eqn:Hc; try reflexivity. exfalso. eapply Hnm. reflexivity.
    Qed.

    Lemma msg_inv_append_packed fd sk vs fs st :
      msg_find_field md (f_num fd) = Some fd -> f_kind fd = KS sk -> card_repeated (f_card fd) = true ->
      msg_inv S md fs st -> msg_inv S md (msg_append_field fd vs fs) (msg_ihit md fd st).
    Proof.
      intros Hf Hk Hrep [Hmask Hsub]. split.
      - unfold msg_ihit. cbn [fst].
        assert (Hbit : (if f_ext fd then 0 else msg_req_bit (msg_req_index md (f_num fd) 0)) = 0).
        { destruct (f_ext fd); [reflexivity|]. fold (msg_bit_of md (f_num fd)).
          apply (msg_bit_of_nonreq md _ fd Hf). unfold msg_is_req. destruct (f_card fd); try discriminate; reflexivity. }
        rewrite Hbit, N.lor_0_r. exact (msg_mask_ok_keeps _ _ _ _ (msg_append_field_keeps md fd vs fs) Hmask).
      - unfold msg_ihit. cbn [snd]. intros Hst. specialize (Hsub Hst).
        apply (msg_subs_ok_store md S fs _ (f_num fd) Hsub). intros p Hp.
        apply msg_in_append_field in Hp. destruct Hp as [->|Hp]; [|left; exact Hp].
        right. split; [reflexivity|]. intros x _. right. intros fd' t Hf' Hk'.
        rewrite Hf in Hf'. inversion Hf'; subst fd'. destruct Hk'; congruence.
    Qed.

    Lemma msg_unknown_sync tagraw num typ r acc st acc' r' st' r2 :
      msg_unknown tagraw num typ r acc = DOk (acc', r') ->
      msg_iskip num typ r st = DOk (st', r2) ->
      r2 = r' /\ (msg_inv S md (fst acc) st -> msg_inv S md (fst acc') st').
    Proof.
      intros H1 H2. unfold msg_unknown in H1. unfold msg_iskip in H2.
      destruct (parse_val default_dep num typ r) as [[w rr]|e]; [|discriminate].
      inversion H1; subst. inversion H2; subst. cbn [fst]. split; [reflexivity|exact (fun H => H)].
    Qed.

    Section NonMap.
      Variables (tagraw : list byte) (num typ : N) (r : list byte) (acc : msg_macc) (st : msg_ist) (fd : fdesc).
      Hypothesis Hfd : msg_find_field md (f_num fd) = Some fd.
      Hypothesis Hnum : f_num fd = num.
      Hypothesis Hnm : forall kk ku vd, f_card fd <> CMap kk ku vd.

      Lemma msg_nm_sync acc' r' st' r2 :
        msg_step_nm tagraw num typ r acc fd (f_card fd) = DOk (acc', r') ->
        msg_istep_nm num typ r st fd (f_card fd) = DOk (st', r2) ->
        r2 = r' /\ (msg_inv S md (fst acc) st -> msg_inv S md (fst acc') st').
      Proof.
        intros Hdm Him. unfold msg_step_nm in Hdm. unfold msg_istep_nm in Him.
        destruct (f_kind fd) as [sk|t|t] eqn:Hk.
        - (* scalar *)
          destruct (typ =? sk_wt sk).
          + destruct (parse_val 0 num typ r) as [[w rr]|e]; [|discriminate].
            destruct (msg_dec_scalar sk (msg_field_utf8 false fd) w) as [[s|e]|];
              [|discriminate|exact (msg_unknown_sync _ _ _ _ _ _ _ _ _ _ Hdm Him)].
            inversion Hdm; subst acc' r'. inversion Him; subst st' r2. cbn [fst]. split; [reflexivity|].
            intros Hinv. apply (msg_inv_store_scalar fd sk s); assumption.
          + destruct ((typ =? 2) && msg_packable sk && card_repeated (f_card fd)) eqn:Hp;
              [|exact (msg_unknown_sync _ _ _ _ _ _ _ _ _ _ Hdm Him)].
            destruct (dec_bytes r) as [[payload rr]|e]; [|discriminate].
            destruct (msg_dec_packed (x00 :: payload) sk payload []) as [vs|e]; [|discriminate].
            inversion Hdm; subst acc' r'. inversion Him; subst st' r2. cbn [fst]. split; [reflexivity|].
            apply andb_true_iff in Hp. destruct Hp as [_ Hrep].
            intros Hinv. apply (msg_inv_append_packed fd sk vs); assumption.
        - (* message *)
          destruct (typ =? 2); [|exact (msg_unknown_sync _ _ _ _ _ _ _ _ _ _ Hdm Him)].
          destruct (dec_bytes r) as [[payload rr]|e]; [|discriminate].
          destruct (msg_whole (dm d) t payload (msg_old_sub fd (fst acc))) as [m|e] eqn:Hw; [|discriminate].
          destruct (msg_iwhole (im d) t payload) as [f|e] eqn:Hiw; [|discriminate].
          inversion Hdm; subst acc' r'. inversion Him; subst st' r2. cbn [fst]. split; [reflexivity|].
          intros Hinv.
          apply (msg_inv_store_sub fd t m (fst acc) st f Hfd (or_introl Hk) Hnm); [|exact Hinv].
          intros -> Hsubs. unfold msg_whole in Hw. unfold msg_iwhole in Hiw.
          destruct (dm d t 0 (x00 :: payload) payload (msg_old_sub fd (fst acc))) as [[m' rest1]|e] eqn:E1; [|discriminate].
          destruct (im d t 0 (x00 :: payload) payload) as [[f' rest2]|e] eqn:E2; [|discriminate].
          inversion Hw; subst m'. inversion Hiw; subst f'.
          exact (proj2 (IHd _ _ _ _ _ _ _ _ _ _ E1 E2) eq_refl
                       (msg_subs_ok_old_sub md fd (fst acc) t Hsubs Hfd (or_introl Hk))).
        - (* group *)
          destruct (typ =? 3); [|exact (msg_unknown_sync _ _ _ _ _ _ _ _ _ _ Hdm Him)].
          destruct (dm d t num (x00 :: r) r (msg_old_sub fd (fst acc))) as [[m rr]|e] eqn:E1; [|discriminate].
          destruct (im d t num (x00 :: r) r) as [[f rr2]|e] eqn:E2; [|discriminate].
          inversion Hdm; subst acc' r'. inversion Him; subst st' r2. cbn [fst].
          destruct (IHd _ _ _ _ _ _ _ _ _ _ E1 E2) as [Hrest Hflag]. split; [exact Hrest|].
          intros Hinv.
          apply (msg_inv_store_sub fd t m (fst acc) st f Hfd (or_intror Hk) Hnm); [|exact Hinv].
          intros -> Hsubs.
          exact (Hflag eq_refl (msg_subs_ok_old_sub md fd (fst acc) t Hsubs Hfd (or_intror Hk))).
      Qed.
    End NonMap.

    (* ---------- presence of required fields survives every step of the decoder ---------- *)
    Lemma msg_keeps_refl fs : msg_keeps md fs fs.
    Proof. intros h fdh _ _ H. exact H. Qed.
    Lemma msg_store_sub_keeps fd m fs :
      msg_find_field md (f_num fd) = Some fd -> msg_keeps md fs (msg_store_sub md fd m fs).
    Proof.
      intros Hf. unfold msg_store_sub. destruct (card_repeated (f_card fd));
        [apply msg_append_field_keeps|apply (msg_set_field_keeps ni md Hmdwf); exact Hf].
    Qed.
    Lemma msg_unknown_keeps tagraw num typ r acc acc' r' :
      msg_unknown tagraw num typ r acc = DOk (acc', r') -> msg_keeps md (fst acc) (fst acc').
    Proof.
      unfold msg_unknown. destruct (parse_val default_dep num typ r) as [[w rr]|e]; [|discriminate].
      intros H. inversion H; subst. cbn [fst]. apply msg_keeps_refl.
    Qed.
    Lemma msg_step_keeps tagraw num typ r acc acc' r' :
      msg_step false md (dm d) (msg_dsub2 false S d) tagraw num typ r acc = DOk (acc', r') ->
      msg_keeps md (fst acc) (fst acc').
    Proof.
      intros Hdm.
      destruct (msg_find_field md num) as [fd|] eqn:Hf.
      2:{ unfold msg_step in Hdm. rewrite Hf in Hdm. exact (msg_unknown_keeps _ _ _ _ _ _ _ Hdm). }
      pose proof (msg_find_field_num _ _ _ Hf) as Hnum.
      assert (Hfd : msg_find_field md (f_num fd) = Some fd) by (rewrite Hnum; exact Hf).
      destruct (f_card fd) as [| | | | |kk ku vd] eqn:Hc.
      6:{ unfold msg_step in Hdm. rewrite Hf, Hc in Hdm.
          destruct (msg_dsub2 false S d); [|discriminate].
          destruct (typ =? 2); [|exact (msg_unknown_keeps _ _ _ _ _ _ _ Hdm)].
          destruct (dec_bytes r) as [[payload rr]|e]; [|discriminate].
          match type of Hdm with context [msg_dec_entry ?p1 ?p2 ?p3 ?p4 ?p5 ?p6 ?p7 ?p8 ?p9] =>
            destruct (msg_dec_entry p1 p2 p3 p4 p5 p6 p7 p8 p9) as [[key v]|e0]; [|discriminate] end.
          inversion Hdm; subst acc' r'. cbn [fst].
          intros h fdh Hfh Hr Hp. destruct (N.eq_dec h num) as [->|Hne].
          - apply msg_present_fset_same. apply msg_map_put_nonempty.
          - rewrite msg_present_fset_other by exact Hne. exact Hp. }
      all: assert (Hnm : forall kk ku vd, f_card fd <> CMap kk ku vd) by (intros; rewrite Hc; discriminate).
      all: rewrite (msg_step_nm_eq _ _ _ _ _ fd Hf Hnm) in Hdm; clear Hc; unfold msg_step_nm in Hdm.
      all: destruct (f_kind fd) as [sk|t|t].
      all: try (destruct (typ =? sk_wt sk);
                [ destruct (parse_val 0 num typ r) as [[w rr]|e]; [|discriminate];
                  destruct (msg_dec_scalar sk (msg_field_utf8 false fd) w) as [[s|e]|];
                  [ inversion Hdm; subst; cbn [fst]; destruct (card_repeated (f_card fd));
                    [exact (msg_append_field_keeps md fd [VS s] (fst acc))|apply (msg_set_field_keeps ni md Hmdwf); exact Hfd]
                  | discriminate | exact (msg_unknown_keeps _ _ _ _ _ _ _ Hdm) ]
                | destruct ((typ =? 2) && msg_packable sk && card_repeated (f_card fd));
                  [|exact (msg_unknown_keeps _ _ _ _ _ _ _ Hdm)];
                  destruct (dec_bytes r) as [[payload rr]|e]; [|discriminate];
                  destruct (msg_dec_packed (x00 :: payload) sk payload []) as [vs|e]; [|discriminate];
                  inversion Hdm; subst; cbn [fst]; exact (msg_append_field_keeps md fd vs (fst acc)) ]).
      all: try (destruct (typ =? 2); [|exact (msg_unknown_keeps _ _ _ _ _ _ _ Hdm)];
                destruct (dec_bytes r) as [[payload rr]|e]; [|discriminate];
                match type of Hdm with context [msg_whole ?q1 ?q2 ?q3 ?q4] =>
                  destruct (msg_whole q1 q2 q3 q4) as [m|e]; [|discriminate] end;
                inversion Hdm; subst; cbn [fst]; apply msg_store_sub_keeps; exact Hfd).
      all: destruct (typ =? 3); [|exact (msg_unknown_keeps _ _ _ _ _ _ _ Hdm)];
           match type of Hdm with context [msg_decode_msg ?q1 ?q2 ?q3 ?q4 ?q5 ?q6 ?q7 ?q8] =>
             destruct (msg_decode_msg q1 q2 q3 q4 q5 q6 q7 q8) as [[m rr]|e]; [|discriminate] end;
           inversion Hdm; subst; cbn [fst]; apply msg_store_sub_keeps; exact Hfd.
    Qed.

    (* ---------- map entries whose value type is a leaf type ---------- *)
    Lemma msg_leaf_check t fs u :
      msg_leaf (nth t S []) = true ->
      msg_check_init S t (VMsg fs u) = msg_required_present (nth t S []) fs.
    Proof.
      intros Hl. cbn [msg_check_init].
      assert (E : forallb (fun p => msg_check_chunk (msg_check_init S) (nth t S []) p) fs = true).
      { apply forallb_forall. intros p _. unfold msg_check_chunk.
        destruct (msg_find_field (nth t S []) (fst p)) as [fd|] eqn:Hf; [|reflexivity].
        unfold msg_leaf in Hl. rewrite forallb_forall in Hl. specialize (Hl fd (msg_find_field_in _ _ _ Hf)).
        destruct (f_kind fd); [reflexivity|discriminate|discriminate]. }
      rewrite E. apply andb_true_r.
    Qed.

    Definition msg_reqp (t : nat) (v : value) : Prop :=
      msg_required_present (nth t S []) (fst (msg_macc_of v)) = true.

    Lemma msg_entry_sync d1 t mdt kk ku vu :
      d = Datatypes.S d1 -> nth_error S t = Some mdt -> msg_leaf mdt = true ->
      forall g g2 bs key0 val0 key v seen,
        msg_dec_entry g kk ku (KMsg t) vu
          (fun p (x : value) => match msg_whole (dm d1) t p (msg_macc_of x) with
                                | DOk m => DOk (VMsg (fst m) (snd m)) | DErr e => DErr e end)
          bs key0 val0 = DOk (key, v) ->
        msg_ientry g2 (msg_iwhole (im d1) t) bs seen = DOk true ->
        (seen = true -> msg_reqp t val0) -> msg_reqp t v.
    Proof.
      intros Hd Hmdt Hleaf.
      pose proof (msg_nth_error_nth S t mdt Hmdt) as Hnth.
      pose proof (proj1 Hwf _ _ Hmdt) as Hwft.
      induction g as [|x g IH]; intros g2 bs key0 val0 key v seen Hdm Him Hseen; [discriminate|].
      destruct g2 as [|x2 g2]; [discriminate|].
      cbn [msg_dec_entry] in Hdm. cbn [msg_ientry] in Him.
      destruct bs as [|b0 bs0].
      - inversion Hdm; subst key v. inversion Him; subst seen. exact (Hseen eq_refl).
      - destruct (dec_tag (b0 :: bs0)) as [[[num typ] r]|e]; [|discriminate].
        destruct (msg_max_num <? num); [discriminate|].
        destruct (parse_val default_dep num typ r) as [[w r']|e]; [|discriminate].
        destruct (N.eqb_spec num 1) as [->|Hn1].
        + cbn [N.eqb Pos.eqb] in Him.
          destruct (msg_dec_scalar kk ku w) as [[s|e]|]; [|discriminate|];
            exact (IH _ _ _ _ _ _ _ Hdm Him Hseen).
        + destruct (num =? 2).
          * destruct w as [?|?|?|payload|?]; try exact (IH _ _ _ _ _ _ _ Hdm Him Hseen).
            destruct (msg_whole (dm d1) t payload (msg_macc_of val0)) as [m|e] eqn:Hw; [|discriminate].
            destruct (msg_iwhole (im d1) t payload) as [f1|e] eqn:Hiw; [|discriminate].
            apply (IH _ _ _ _ _ _ _ Hdm Him). intros Hs.
            unfold msg_whole in Hw. unfold msg_iwhole in Hiw.
            destruct (dm d1 t 0 (x00 :: payload) payload (msg_macc_of val0)) as [[m' rest1]|e] eqn:E1; [|discriminate].
            destruct (im d1 t 0 (x00 :: payload) payload) as [[f' rest2]|e] eqn:E2; [|discriminate].
            inversion Hw; subst m'. inversion Hiw; subst f'.
            unfold msg_reqp. cbn [msg_macc_of fst]. rewrite Hnth.
            apply orb_true_iff in Hs. destruct Hs as [Hs|Hs].
            -- (* already seen an initialized occurrence: required fields stay present *)
               specialize (Hseen Hs). unfold msg_reqp in Hseen. rewrite Hnth in Hseen.
               pose proof (Hkeeps1 d1 t mdt Hd Hmdt Hwft 0 _ _ _ _ _ E1) as Hk.
               unfold msg_required_present in *. rewrite forallb_forall in *. intros fd Hin.
               specialize (Hseen fd Hin). destruct (msg_is_req fd) eqn:Hr; [|reflexivity]. cbn [negb orb] in *.
               exact (Hk (f_num fd) fd (wf_uniq ni mdt Hwft fd Hin) Hr Hseen).
            -- (* this occurrence is initialized *)
               subst f1.
               pose proof (proj2 (IHd1 d1 Hd _ _ _ _ _ _ _ _ _ _ E1 E2) eq_refl) as Hc.
               rewrite Hnth in Hc.
               assert (Hsubs : msg_subs_ok S mdt (fst (msg_macc_of val0))).
               { intros p _ fd' t' Hf' Hk'. exfalso. unfold msg_leaf in Hleaf. rewrite forallb_forall in Hleaf.
                 specialize (Hleaf fd' (msg_find_field_in _ _ _ Hf')). destruct Hk' as [Hk'|Hk']; rewrite Hk' in Hleaf; discriminate. }
               specialize (Hc Hsubs). rewrite (msg_leaf_check t (fst m) (snd m)) in Hc by (rewrite Hnth; exact Hleaf).
               rewrite Hnth in Hc. exact Hc.
          * exact (IH _ _ _ _ _ _ _ Hdm Him Hseen).
    Qed.

    Lemma msg_step_sync tagraw num typ r acc acc' r' st st' r2 :
      msg_step false md (dm d) (msg_dsub2 false S d) tagraw num typ r acc = DOk (acc', r') ->
      msg_istep ni md (im d) (msg_isub2 d) num typ r st = DOk (st', r2) ->
      r2 = r' /\ (msg_inv S md (fst acc) st -> msg_inv S md (fst acc') st').
    Proof.
      intros Hdm Him.
      destruct (msg_find_field md num) as [fd|] eqn:Hf.
      2:{ unfold msg_step in Hdm. unfold msg_istep in Him. rewrite Hf in Hdm, Him.
          exact (msg_unknown_sync _ _ _ _ _ _ _ _ _ _ Hdm Him). }
      pose proof (msg_find_field_num _ _ _ Hf) as Hnum.
      assert (Hfd : msg_find_field md (f_num fd) = Some fd) by (rewrite Hnum; exact Hf).
      destruct (f_card fd) as [| | | | |kk ku vd] eqn:Hc.
      6:{ (* map *)
        unfold msg_step in Hdm. unfold msg_istep in Him. rewrite Hf, Hc in Hdm, Him.
        assert (Hdcase : d = O \/ exists d1, d = Datatypes.S d1) by (destruct d; [left; reflexivity|right; eexists; reflexivity]).
        destruct Hdcase as [Hd0|(d1 & Hd1)]; [rewrite Hd0 in Hdm; cbn [msg_dsub2] in Hdm; discriminate|].
        rewrite Hd1 in Hdm, Him. cbn [msg_dsub2 msg_isub2] in Hdm, Him.
        destruct (typ =? 2).
        2:{ exact (msg_unknown_sync _ _ _ _ _ _ _ _ _ _ Hdm Him). }
        destruct (dec_bytes r) as [[payload rr]|e]; [|discriminate].
        match type of Hdm with context [msg_dec_entry ?p1 ?p2 ?p3 ?p4 ?p5 ?p6 ?p7 ?p8 ?p9] =>
          destruct (msg_dec_entry p1 p2 p3 p4 p5 p6 p7 p8 p9) as [[key v]|e0] eqn:Hent; [|discriminate] end.
        inversion Hdm; subst acc' r'. cbn [fst].
        destruct (msg_find_in_self md fd _ Hfd) as [Hinfd _].
        assert (Hres : exists b, st' = (fst st, snd st && b) /\ r2 = rr /\
                  (b = true -> forall t, (f_kind fd = KMsg t \/ f_kind fd = KGrp t) -> msg_check_init S t v = true)).
        { destruct (f_kind fd) as [sk|t0|t0] eqn:Hk.
          - inversion Him; subst st' r2. exists true. rewrite andb_true_r. split; [destruct st; reflexivity|].
            split; [reflexivity|]. intros _ t [Hk'|Hk']; discriminate.
          - destruct (msg_ientry (x00 :: payload) (msg_iwhole (im d1) t0) payload false) as [f|e0] eqn:Hie; [|discriminate].
            inversion Him; subst st' r2. eexists. split; [reflexivity|]. split; [reflexivity|].
            intros Hb t Hk'. assert (t = t0) as -> by (destruct Hk' as [Hk'|Hk']; congruence).
            destruct (ni t0) eqn:Hni; [|exact (proj1 (proj2 Hwf) t0 v Hni)].
            cbn [negb] in Hb. rewrite orb_false_r in Hb. subst f.
            destruct (nth_error S t0) as [mdt|] eqn:Hmdt.
            2:{ (* no such type: every value is initialized *)
                destruct v as [s|fs u|k0 v0]; try reflexivity. cbn [msg_check_init].
                rewrite (nth_overflow S []) by (apply nth_error_None; exact Hmdt). cbn [msg_required_present forallb].
                apply forallb_forall. intros p _. reflexivity. }
            destruct (proj2 (proj2 Hwf) _ md fd kk ku vd t0 Hmdfix Hinfd Hc (or_introl Hk)) as [Hn|[_ Hleaf]]; [congruence|].
            rewrite (msg_nth_error_nth S t0 mdt Hmdt) in Hleaf.
            pose proof (msg_entry_sync d1 t0 mdt kk ku (f_utf8 fd) Hd1 Hmdt Hleaf
                          (x00 :: payload) (x00 :: payload) payload (sk_zero kk) (msg_entry_default (KMsg t0) vd) key v false
                          Hent Hie (fun H => match Bool.diff_false_true H with end)) as Hrp.
            destruct v as [s|fs u|k0 v0]; try reflexivity.
            rewrite (msg_leaf_check t0 fs u) by (rewrite (msg_nth_error_nth S t0 mdt Hmdt); exact Hleaf). exact Hrp.
          - inversion Him; subst st' r2. exists true. rewrite andb_true_r. split; [destruct st; reflexivity|].
            split; [reflexivity|]. intros _ t Hk'. assert (t = t0) as -> by (destruct Hk' as [Hk'|Hk']; congruence).
            destruct (proj2 (proj2 Hwf) _ md fd kk ku vd t0 Hmdfix Hinfd Hc (or_intror Hk)) as [Hn|[Hbad _]]; [|rewrite Hk in Hbad; discriminate].
            exact (proj1 (proj2 Hwf) t0 v Hn). }
        destruct Hres as (b & -> & -> & Hchk). split; [reflexivity|].
        intros [Hmask Hsub]. cbn [fst snd]. split.
        - apply (msg_mask_ok_keeps md (fst acc)); [|exact Hmask].
          intros h fdh Hfh Hr Hp. destruct (N.eq_dec h num) as [->|Hne].
          + apply msg_present_fset_same. apply msg_map_put_nonempty.
          + rewrite msg_present_fset_other by exact Hne. exact Hp.
        - intros Hb. apply andb_true_iff in Hb. destruct Hb as [Hst Hb2]. specialize (Hsub Hst).
          apply (msg_subs_ok_store md S (fst acc) _ num Hsub). intros p Hp.
          apply msg_in_fset in Hp. destruct Hp as [->|Hp]; [|left; exact Hp].
          right. split; [reflexivity|]. cbn [snd]. intros x Hx. apply msg_in_map_put in Hx.
          destruct Hx as [->|Hx]; [right|left; exact Hx].
          intros fd' t Hf' Hk'. rewrite Hf in Hf'. inversion Hf'; subst fd'.
          cbn [msg_check_elem]. exact (Hchk Hb2 t Hk'). }
      all: assert (Hnm : forall kk ku vd, f_card fd <> CMap kk ku vd) by (intros; rewrite Hc; discriminate).
      all: rewrite (msg_step_nm_eq _ _ _ _ _ fd Hf Hnm) in Hdm; rewrite (msg_istep_nm_eq _ _ _ _ fd Hf Hnm) in Him.
      all: eapply msg_nm_sync; eassumption.
    Qed.
  End Step.
End Flag.

(* ================= the tag loop, the theorem, corollaries, witnesses ================= *)

Section Flag2.
  Variable S : schema.
  Variable ni : nat -> bool.
  Hypothesis Hwf : msg_init_wf S ni.
  Notation dm := (msg_decode_msg false S).
  Notation im := (msg_init_msg S ni).

  Lemma msg_keeps_trans md a b c : msg_keeps md a b -> msg_keeps md b c -> msg_keeps md a c.
  Proof. intros H1 H2 h fdh Hf Hr Hp. exact (H2 h fdh Hf Hr (H1 h fdh Hf Hr Hp)). Qed.

  Lemma msg_dm_keeps d tid md grp :
    nth_error S tid = Some md -> msg_md_wf ni md ->
    forall g bs acc acc' rest,
      dm (Datatypes.S d) tid grp g bs acc = DOk (acc', rest) -> msg_keeps md (fst acc) (fst acc').
  Proof.
    intros Hmd Hmdwf. induction g as [|x g IH]; intros bs acc acc' rest Hdm.
    - cbn [msg_decode_msg] in Hdm. rewrite Hmd in Hdm. discriminate.
    - rewrite (msg_dm_unfold false S d tid grp md x g bs acc Hmd) in Hdm.
      destruct bs as [|b0 bs0].
      + destruct (grp =? 0); [|discriminate]. inversion Hdm; subst. intros h fdh _ _ H. exact H.
      + destruct (dec_tag (b0 :: bs0)) as [[[num typ] r]|e]; [|discriminate].
        destruct (msg_max_num <? num); [discriminate|].
        destruct ((typ =? 4) && negb false).
        * destruct (num =? grp); [|discriminate]. inversion Hdm; subst. intros h fdh _ _ H. exact H.
        * cbv zeta in Hdm.
          destruct (msg_step false md (dm d) (msg_dsub2 false S d) (enc_tag num typ) num typ r acc) as [[acc1 r1]|e] eqn:E1; [|discriminate].
          eapply msg_keeps_trans; [|exact (IH _ _ _ _ Hdm)].
          eapply (msg_step_keeps S ni); eassumption.
  Qed.

  Lemma msg_dm_keeps_all d t mdt :
    nth_error S t = Some mdt -> msg_md_wf ni mdt ->
    forall grp g bs acc acc' rest, dm d t grp g bs acc = DOk (acc', rest) -> msg_keeps mdt (fst acc) (fst acc').
  Proof.
    intros Hm Hw grp g bs acc acc' rest H. destruct d as [|d]; [cbn [msg_decode_msg] in H; discriminate|].
    exact (msg_dm_keeps d t mdt grp Hm Hw g bs acc acc' rest H).
  Qed.

  Lemma msg_loop_sync d tid md grp :
    nth_error S tid = Some md -> msg_md_wf ni md -> msg_flag_stmt S ni d ->
    (forall d1, d = Datatypes.S d1 -> msg_flag_stmt S ni d1) ->
    forall g g2 bs acc st acc' rest st' rest2,
      dm (Datatypes.S d) tid grp g bs acc = DOk (acc', rest) ->
      msg_iloop (msg_istep ni md (im d) (msg_isub2 S ni d)) grp g2 bs st = DOk (st', rest2) ->
      rest2 = rest /\ (msg_inv S md (fst acc) st -> msg_inv S md (fst acc') st').
  Proof.
    intros Hmd Hmdwf IHd IHd1. induction g as [|x g IH]; intros g2 bs acc st acc' rest st' rest2 Hdm Him.
    - cbn [msg_decode_msg] in Hdm. rewrite Hmd in Hdm. discriminate.
    - destruct g2 as [|x2 g2]; [discriminate|].
      rewrite (msg_dm_unfold false S d tid grp md x g bs acc Hmd) in Hdm. cbn [msg_iloop] in Him.
      destruct bs as [|b0 bs0].
      + destruct (grp =? 0); [|discriminate]. inversion Hdm; subst acc' rest. inversion Him; subst st' rest2.
        split; [reflexivity|exact (fun H => H)].
      + destruct (dec_tag (b0 :: bs0)) as [[[num typ] r]|e]; [|discriminate].
        destruct (msg_max_num <? num); [discriminate|].
        destruct (typ =? 4).
        * destruct (num =? grp); [|discriminate]. inversion Hdm; subst acc' rest. inversion Him; subst st' rest2.
          split; [reflexivity|exact (fun H => H)].
        * cbv zeta in Hdm.
          destruct (msg_step false md (dm d) (msg_dsub2 false S d) (enc_tag num typ) num typ r acc) as [[acc1 r1]|e] eqn:E1; [|discriminate].
          destruct (msg_istep ni md (im d) (msg_isub2 S ni d) num typ r st) as [[st1 r1']|e] eqn:E2; [|discriminate].
          destruct (msg_step_sync S ni Hwf d md Hmdwf tid Hmd IHd IHd1
                      (fun d1 t mdt _ Hm Hw grp0 g0 bs1 acc0 acc0' rest0 H0 => msg_dm_keeps_all d1 t mdt Hm Hw grp0 g0 bs1 acc0 acc0' rest0 H0)
                      _ _ _ _ _ _ _ _ _ _ E1 E2) as [-> Hinv1].
          destruct (IH _ _ _ _ _ _ _ _ Hdm Him) as [Hr Hinv2]. split; [exact Hr|].
          intros H. exact (Hinv2 (Hinv1 H)).
  Qed.

  Theorem msg_flag_all_le : forall d k, (k <= d)%nat -> msg_flag_stmt S ni k.
  Proof.
    induction d as [|d IHall]; intros k Hk tid grp g bs acc acc' rest g2 f rest2 Hdm Him.
    - assert (k = O) as -> by lia. cbn [msg_decode_msg] in Hdm. discriminate.
    - destruct (Nat.eq_dec k (Datatypes.S d)) as [->|Hne];
        [|exact (IHall k ltac:(lia) tid grp g bs acc acc' rest g2 f rest2 Hdm Him)].
      pose proof (IHall d (Nat.le_refl d)) as IHd.
      assert (IHd1 : forall d1, d = Datatypes.S d1 -> msg_flag_stmt S ni d1) by (intros d1 Hd1; apply IHall; lia).
      cbn [msg_init_msg] in Him. destruct (nth_error S tid) as [md|] eqn:Hmd.
      2:{ cbn [msg_decode_msg] in Hdm. rewrite Hmd in Hdm. discriminate. }
      change (match d with O => None | Datatypes.S d1 => Some (im d1) end) with (msg_isub2 S ni d) in Him.
      destruct (msg_iloop (msg_istep ni md (im d) (msg_isub2 S ni d)) grp g2 bs (0, true)) as [[st rest2']|e] eqn:El; [|discriminate].
      inversion Him; subst f rest2'. clear Him.
      pose proof (proj1 Hwf _ _ Hmd) as Hmdwf.
      destruct (msg_loop_sync d tid md grp Hmd Hmdwf IHd IHd1 g g2 bs acc (0, true) acc' rest st rest2 Hdm El) as [-> Hinv].
      split; [reflexivity|]. intros Hfin Hsubs.
      rewrite (msg_nth_error_nth S tid md Hmd) in Hsubs.
      assert (Hinv0 : msg_inv S md (fst acc) (0, true)).
      { split; [intros i Hi; cbn [fst] in Hi; rewrite N.bits_0 in Hi; discriminate|intros _; exact Hsubs]. }
      destruct (Hinv Hinv0) as [Hmask Hsub].
      unfold msg_ifinish in Hfin. apply andb_true_iff in Hfin. destruct Hfin as [Hok Hcnt].
      cbn [msg_check_init]. rewrite (msg_nth_error_nth S tid md Hmd). apply andb_true_iff. split.
      + unfold msg_required_present. apply forallb_forall. intros fd Hin.
        destruct (msg_is_req fd) eqn:Hr; [|reflexivity]. cbn [negb orb].
        destruct (wf_req ni md Hmdwf fd Hin Hr) as [Hx _].
        apply orb_true_iff in Hcnt. destruct Hcnt as [Hz|Hpc].
        * exfalso. apply N.eqb_eq in Hz. pose proof (msg_count_required_pos md fd Hin Hx Hr).
          unfold msg_num_required in Hz. lia.
        * apply N.eqb_eq in Hpc.
          exact (msg_mask_sound_gen md (fun h => msg_present (fst acc') h = true) (fst st)
                                    (wf_uniq ni md Hmdwf) Hmask Hpc fd Hin Hx Hr).
      + apply forallb_forall. intros p Hp. apply msg_elems_ok_chunk. exact (Hsub Hok p Hp).
  Qed.
  Theorem msg_flag_all : forall d, msg_flag_stmt S ni d.
  Proof. intros d. exact (msg_flag_all_le d d (Nat.le_refl d)). Qed.
End Flag2.

(* the fast path never marks a partial message as initialized (restriction [maps]) *)
Theorem msg_fast_flag_sound S ni limit tid bs v :
  msg_init_wf S ni ->
  msg_decode false S limit tid bs = DOk v ->
  msg_init_flag S ni limit tid bs = DOk true ->
  msg_check_init S tid v = true.
Proof.
  intros Hwf Hd Hf. unfold msg_decode, msg_decode_into in Hd. unfold msg_init_flag in Hf.
  destruct (msg_decode_msg false S limit tid 0 (x00 :: bs) bs (msg_macc_of msg_empty)) as [[m r1]|e] eqn:E1; [|discriminate].
  destruct (msg_init_msg S ni limit tid 0 (x00 :: bs) bs) as [[f r2]|e] eqn:E2; [|discriminate].
  inversion Hd; subst v. inversion Hf; subst f.
  apply (proj2 (msg_flag_all S ni Hwf limit _ _ _ _ _ _ _ _ _ _ E1 E2) eq_refl).
  intros p [].
Qed.

(* proto.Unmarshal without AllowPartial reports a required-field error iff the decoded message is partial *)
Theorem msg_unmarshal_exact S ni limit tid bs :
  msg_init_wf S ni ->
  (msg_unmarshal S ni limit tid false bs = URequired <->
   exists v, msg_decode false S limit tid bs = DOk v /\ msg_check_init S tid v = false).
Proof.
  intros Hwf. unfold msg_unmarshal. destruct (msg_decode false S limit tid bs) as [v|e] eqn:Hd.
  - split.
    + intros H. exists v. split; [reflexivity|].
      destruct (msg_init_flag S ni limit tid bs) as [[|]|e]; try discriminate;
        destruct (msg_check_init S tid v); [discriminate|reflexivity|discriminate|reflexivity].
    + intros (v' & Hv & Hc). inversion Hv; subst v'.
      destruct (msg_init_flag S ni limit tid bs) as [[|]|e] eqn:Hf; try (rewrite Hc; reflexivity).
      rewrite (msg_fast_flag_sound S ni limit tid bs v Hwf Hd Hf) in Hc. discriminate.
  - split; [discriminate|]. intros (v & Hv & _). discriminate.
Qed.

Theorem msg_unmarshal_ok_exact S ni limit tid bs v :
  msg_init_wf S ni ->
  (msg_unmarshal S ni limit tid false bs = UOk v <->
   msg_decode false S limit tid bs = DOk v /\ msg_check_init S tid v = true).
Proof.
  intros Hwf. unfold msg_unmarshal. destruct (msg_decode false S limit tid bs) as [v0|e] eqn:Hd.
  - split.
    + intros H.
      destruct (msg_init_flag S ni limit tid bs) as [[|]|e] eqn:Hf.
      * inversion H; subst v0. split; [reflexivity|]. exact (msg_fast_flag_sound S ni limit tid bs v Hwf Hd Hf).
      * destruct (msg_check_init S tid v0) eqn:Hc; [|discriminate]. inversion H; subst v0. split; [reflexivity|exact Hc].
      * destruct (msg_check_init S tid v0) eqn:Hc; [|discriminate]. inversion H; subst v0. split; [reflexivity|exact Hc].
    + intros [Hv Hc]. inversion Hv; subst v0.
      destruct (msg_init_flag S ni limit tid bs) as [[|]|e]; try reflexivity; rewrite Hc; reflexivity.
  - split; [discriminate|]. intros [Hv _]. discriminate.
Qed.

Theorem msg_unmarshal_slow_exact S limit tid bs :
  msg_unmarshal_slow S limit tid false bs = URequired <->
  exists v, msg_decode true S limit tid bs = DOk v /\ msg_check_init S tid v = false.
Proof.
  unfold msg_unmarshal_slow. destruct (msg_decode true S limit tid bs) as [v|e].
  - cbn [orb]. split.
    + intros H. exists v. split; [reflexivity|]. destruct (msg_check_init S tid v); [discriminate|reflexivity].
    + intros (v' & Hv & Hc). inversion Hv; subst v'. rewrite Hc. reflexivity.
  - split; [discriminate|]. intros (v & Hv & _). discriminate.
Qed.

Theorem msg_marshal_exact S tid v :
  msg_marshal_checked S tid false v = None <-> msg_check_init S tid v = false.
Proof. unfold msg_marshal_checked. cbn [orb]. destruct (msg_check_init S tid v); split; congruence. Qed.

(* ---------- refutations of the unrestricted statements (witnesses replayed on the implementation) ---------- *)
Definition ex_req : mdesc := [mkF 1 (KS SkInt32) CReq None false false false].
(* FA2: One { oneof u { int32 x = 1; Req m = 2; } } *)
Definition ex_fa2 : schema :=
  [[mkF 1 (KS SkInt32) COpt (Some 0) false false false; mkF 2 (KMsg 1) COpt (Some 0) false false false]; ex_req].
(* (repaired in the code, so in the model: the partial non-first member now clears the flag) *)
Lemma msg_flag_oneof_member_FA2_repaired :
  msg_init_flag ex_fa2 (fun _ => true) 100 0 [n2b 18; n2b 0] = DOk false /\
  msg_init_flag ex_fa2 (fun _ => true) 100 0 [n2b 18; n2b 2; n2b 8; n2b 1] = DOk true.
Proof. vm_compute. split; reflexivity. Qed.
(* FA5: MapV { map<int32, V> mv = 1; }  V { optional Req child = 4; } ; entry = key 1, value {}, value {child {}} *)
Definition ex_fa5 : schema :=
  [[mkF 1 (KMsg 1) (CMap SkInt32 false 0) None false false false];
   [mkF 4 (KMsg 2) COpt None false false false]; ex_req].
Lemma msg_fast_flag_sound_refuted_FA5 :
  exists S ni bs v, msg_decode false S 100 0 bs = DOk v /\ msg_init_flag S ni 100 0 bs = DOk true /\
                    msg_check_init S 0 v = false.
Proof.
  exists ex_fa5, (fun _ => true), (map n2b [10; 8; 8; 1; 18; 0; 18; 2; 34; 0]). eexists. vm_compute. repeat split; reflexivity.
Qed.
(* FA1: TestRequiredLazy { optional TestRequired m = 1 [lazy = true]; } <- 0a 00, lazy decoding *)
Definition ex_fa1 : schema := [[mkF 1 (KMsg 1) COpt None false false true]; ex_req].
Lemma msg_unmarshal_lazy_exact_refuted_FA1 :
  exists S ni bs v, msg_unmarshal_lazy S ni 100 0 false bs = UOk v /\ msg_check_init S 0 v = false.
Proof.
  exists ex_fa1, (fun _ => true), [n2b 10; n2b 0]. eexists. vm_compute. split; reflexivity.
Qed.

(* non-vacuity of msg_init_wf: TestRequiredForeign (singular, repeated, map value and oneof member of
   a message with a required field) *)
Definition ex_wf : schema :=
  [[mkF 1 (KMsg 1) COpt None false false false; mkF 2 (KMsg 1) CRep None false false false;
    mkF 3 (KMsg 1) (CMap SkInt32 false 0) None false false false;
    mkF 4 (KMsg 1) COpt (Some 0) false false false]; ex_req].
Lemma ex_wf_ok : msg_init_wf ex_wf (fun _ => true).
Proof.
  split; [|split; [intros tid v H; discriminate|]].
  - intros tid md Hmd. destruct tid as [|[|tid]]; cbn in Hmd; [| |destruct tid; discriminate];
      inversion Hmd; subst md; constructor.
    + intros fd [<-|[<-|[<-|[<-|[]]]]]; reflexivity.
    + intros fd [<-|[<-|[<-|[<-|[]]]]] H; discriminate.
    + intros fd [<-|[]]; reflexivity.
    + intros fd [<-|[]] _. split; reflexivity.
  - intros tid md fd kk ku vd t Hmd Hin Hc Hk. right.
    destruct tid as [|[|tid]]; cbn in Hmd; [| |destruct tid; discriminate]; inversion Hmd; subst md.
    + destruct Hin as [<-|[<-|[<-|[<-|[]]]]]; try discriminate.
      destruct Hk as [Hk|Hk]; inversion Hk; subst t. split; reflexivity.
    + destruct Hin as [<-|[]]. discriminate.
Qed.
