(* InitP — proofs about Msg/InitModel.v (C10). *)
From Coq Require Import List NArith ZArith Bool Lia.
From PB Require Import Base.PBytes Wire.WireModel Msg.MsgSchema Msg.MsgValue Msg.MsgEnc Msg.MsgDec Msg.MsgSizeP Msg.InitModel.
Import ListNotations.
Open Scope N_scope.

(* AllowPartial: never a required-field error *)
Lemma msg_allow_partial_unmarshal S ni limit tid bs : msg_unmarshal S ni limit tid true bs <> URequired.
Proof. unfold msg_unmarshal. destruct (msg_decode false S limit tid bs); discriminate. Qed.
Lemma msg_allow_partial_unmarshal_slow S limit tid bs : msg_unmarshal_slow S limit tid true bs <> URequired.
Proof. unfold msg_unmarshal_slow. destruct (msg_decode true S limit tid bs); cbn [orb]; discriminate. Qed.
Lemma msg_allow_partial_marshal S tid v : msg_marshal_checked S tid true v = Some (msg_encode S tid v).
Proof. reflexivity. Qed.
