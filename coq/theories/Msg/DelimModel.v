(* Model of encoding/protodelim (protodelim.go): MarshalTo / UnmarshalFrom.
   Definitions only (no proofs).

   A stream is the list of bytes the reader will still deliver, followed by a
   terminal condition: io.EOF, or ([terr] = true) a persistent non-EOF reader
   error.  Message bodies are opaque byte strings: the message codec is the
   subject of other properties, here it is the Section parameter [body_ok]
   (does o.Unmarshal accept these bytes).  Everything a conforming reader may
   choose freely is an [oracle]: whether it is a bufio.Reader, whether
   Peek(n) succeeds (only possible when n bytes are available), and the chunk
   sizes in which Read delivers data to io.ReadFull. *)
From Coq Require Import List NArith ZArith Bool.
From PB Require Import Base.PBytes Wire.WireModel.
Import ListNotations.
Open Scope N_scope.

Inductive dres :=
| DOk (body : list byte)        (* o.Unmarshal(b, m) == nil, b = body *)
| DBodyErr (body : list byte)   (* o.Unmarshal(b, m) returned its error *)
| DEOF                          (* io.EOF *)
| DUnexpectedEOF                (* io.ErrUnexpectedEOF *)
| DOverflow                     (* protowire.ParseError(errCodeOverflow) *)
| DTooLarge (size max : N)      (* *SizeTooLargeError{Size, MaxSize} *)
| DReaderErr                    (* the reader's own non-EOF error, unchanged *)
| DOutOfFuel.                   (* model artefact, shown unreachable *)

(* defaultMaxSize = 4 << 20; math.MaxInt on 64-bit; maxPreallocSize = 4 << 20:
   above it the body is read incrementally (io.CopyN into a bytes.Buffer)
   instead of into one make([]byte, size) *)
Definition default_max_size : N := 4194304.
Definition max_int : N := 9223372036854775807.
Definition max_prealloc_size : N := 4194304.
(* len(sizeArr) = binary.MaxVarintLen64: iterations of the ReadByte loop *)
Definition size_arr_len : nat := 10.

(* the value [size] is compared with; MaxSize is an int64:
   0 -> default, -1 -> math.MaxInt, otherwise uint64(maxSize) *)
Definition effective_max (max_size : Z) : N :=
  if (max_size =? 0)%Z then default_max_size
  else if (max_size =? -1)%Z then max_int
  else if (max_size <? 0)%Z then Z.to_N (18446744073709551616 + max_size)
  else Z.to_N max_size.

Definition marshal_to (body : list byte) : list byte :=
  enc_varint (N.of_nat (length body)) ++ body.

Record oracle := {
  is_bufio : bool;          (* r is a bufio.Reader (the type assertion succeeds) *)
  peek_ok : N -> bool;      (* Peek(n) returns n bytes, given that n bytes are available *)
  chunk : nat -> N          (* how many bytes the i-th Read of io.ReadFull would like to return *)
}.

(* up to n bytes from the front of s *)
Fixpoint take_upto (s : list byte) (n : N) : list byte * list byte :=
  match s with
  | [] => ([], [])
  | b :: r =>
      if n =? 0 then ([], s)
      else let (a, r') := take_upto r (N.pred n) in (b :: a, r')
  end.

Inductive rsize := RSBuf (buf rest : list byte) | RSErr (e : dres) (rest : list byte).
Inductive rfull := RFOk (b rest : list byte) | RFShort | RFFuel.

Section Delim.
Variable body_ok : list byte -> bool.
Variable terr : bool.

(* the size loop: for i := range sizeArr { b, err := r.ReadByte() ... }
   k = iterations left, first = (i == 0), acc = sizeBuf *)
Fixpoint read_size (k : nat) (first : bool) (acc : list byte) (s : list byte) : rsize :=
  match k with
  | O => RSBuf acc s
  | S k' =>
    match s with
    | [] => if terr then RSErr DReaderErr []
            else if first then RSErr DEOF []
            else RSBuf acc []
    | b :: r =>
        if b2n b <? 128 then RSBuf (acc ++ [b]) r
        else read_size k' false (acc ++ [b]) r
    end
  end.

(* io.ReadFull(r, make([]byte, need)): loop "for n < min && err == nil".
   Each Read on a non-exhausted stream returns between 1 and len(buf[n:]) bytes
   (a Read that returns data together with the terminal error behaves like the
   same Read followed by (0, err), so it is not modelled separately). *)
Fixpoint read_full (fuel : nat) (o : oracle) (i : nat) (need : N) (acc : list byte) (s : list byte) : rfull :=
  if need =? 0 then RFOk acc s
  else match fuel with
  | O => RFFuel
  | S f =>
    match s with
    | [] => RFShort
    | _ =>
      let c := N.min (N.max (chunk o i) 1) need in
      let (a, r) := take_upto s c in
      read_full f o (S i) (need - N.of_nat (length a)) (acc ++ a) r
    end
  end.

Definition unmarshal (b : list byte) : dres := if body_ok b then DOk b else DBodyErr b.

Definition unmarshal_from (o : oracle) (max_size : Z) (s : list byte) : dres * list byte :=
  match read_size size_arr_len true [] s with
  | RSErr e r => (e, r)
  | RSBuf buf r =>
    match dec_varint buf with
    | Err Truncated => (DUnexpectedEOF, r)
    | Err _ => (DOverflow, r)
    | Ok (size, _) =>
      let emax := effective_max max_size in
      if emax <? size then (DTooLarge size emax, r)
      else if is_bufio o && peek_ok o size && (size <=? max_int) && (size <=? N.of_nat (length r))
      then let (b, r') := take_upto r size in (unmarshal b, r')
      else if (size <=? max_prealloc_size) || (size <=? max_int) then
        (* make([]byte, size) + io.ReadFull, or io.CopyN(&buf, r, int64(size)): both deliver
           exactly the next [size] bytes or fail short, whatever the chunking *)
        match read_full (S (length r)) o 0 size [] r with
        | RFOk b r' => (unmarshal b, r')
        | RFShort => (if terr then DReaderErr else DUnexpectedEOF, [])
        | RFFuel => (DOutOfFuel, [])
        end
      else
        (* only reachable with MaxSize < -1: int64(size) is negative, io.CopyN reads
           nothing and reports no error, the body is empty *)
        (unmarshal [], r)
    end
  end.

(* repeated UnmarshalFrom until the first result that is not a success;
   the i-th call may see a different oracle *)
Fixpoint read_all (fuel : nat) (orc : nat -> oracle) (i : nat) (max_size : Z) (s : list byte) : list dres :=
  match fuel with
  | O => [DOutOfFuel]
  | S f =>
    match unmarshal_from (orc i) max_size s with
    | (DOk b, r) => DOk b :: read_all f orc (S i) max_size r
    | (e, _) => [e]
    end
  end.
Definition read_stream (orc : nat -> oracle) (max_size : Z) (s : list byte) : list dres :=
  read_all (S (length s)) orc 0 max_size s.

(* the reader-independent specification (proved equal in DelimP.v) *)
Definition unmarshal_from_ref (max_size : Z) (s : list byte) : dres * list byte :=
  match read_size size_arr_len true [] s with
  | RSErr e r => (e, r)
  | RSBuf buf r =>
    match dec_varint buf with
    | Err Truncated => (DUnexpectedEOF, r)
    | Err _ => (DOverflow, r)
    | Ok (size, _) =>
      let emax := effective_max max_size in
      if emax <? size then (DTooLarge size emax, r)
      else if max_int <? size then (unmarshal [], r)
      else if size <=? N.of_nat (length r)
      then (unmarshal (firstn (N.to_nat size) r), skipn (N.to_nat size) r)
      else (if terr then DReaderErr else DUnexpectedEOF, [])
    end
  end.
End Delim.
