(* Model of reflect/protorange (range.go): Options{Stable:true}.Range.
   Definitions only.

   A message value is a tree: a message is the list of its populated fields in
   range order (field number order), a flag "has unknown fields", and, for a
   google.protobuf.Any whose type resolves and whose body unmarshals, the
   expanded message (an oracle: [any = Some m2]).  Lists and maps list their
   elements / entries in range order; map keys are opaque identifiers.

   The push/pop callbacks are arbitrary functions of the path to a verdict;
   the traversal is the code's:
   pop is always called after push, amendError combines verdicts, Break is
   cleared when the enclosing composite returns. *)
From Coq Require Import List NArith Bool.
Import ListNotations.
Open Scope N_scope.

Inductive tree :=
| Scalar
| Message (fields : list (N * tree)) (unknown : bool) (any : option tree)
| TList (elems : list tree)
| TMap (entries : list (N * tree)).

Inductive step := SRoot | SField (num : N) | SUnknown | SAny | SIndex (i : N) | SKey (k : N).
Definition path := list step.   (* from the root step to the last step *)

Inductive event := Push (p : path) (v : tree) | Pop (p : path) (v : tree).

(* the error variable of the Go code *)
Inductive verdict := Continue | Break | Terminate | Error (e : N).

Definition is_nil (v : verdict) : bool := match v with Continue => true | _ => false end.

(* amendError: nil < Break < Terminate < previous non-nil < current non-nil *)
Definition amend (prev curr : verdict) : verdict :=
  match curr with
  | Continue => prev
  | Break => if is_nil prev then curr else prev
  | Terminate => match prev with Continue | Break => curr | _ => prev end
  | Error _ => curr
  end.

Definition clear_break (v : verdict) : verdict := match v with Break => Continue | _ => v end.

(* a callback sees the path (protopath.Values: the values are determined by
   the path); every (path, push|pop) occurs at most once in a traversal, so this
   covers stateful callbacks too *)
Definition callback := path -> verdict.

Section Range.
Variable push pop : callback.

(* the common shape of all four range functions:
     pushStep; err = amendError(err, push(p)); if err == nil { err = children }
     err = amendError(err, pop(p)); popStep
   where err is nil on entry; the result is (err, events) *)
Definition visit (children : path -> tree -> verdict * list event)
    (p : path) (v : tree) : verdict * list event :=
  let e1 := amend Continue (push p) in
  let '(e2, ev) := if is_nil e1 then children p v else (e1, []) in
  let e3 := amend e2 (pop p) in
  (e3, Push p v :: ev ++ [Pop p v]).

(* rangeMessage / rangeAnyMessage / rangeList / rangeMap on the value [t] at
   path [p] (scalars have no children).  Each loop stops as soon as err != nil
   (the RangeFields / RangeEntries callback returns err == nil; the list loop
   tests err == nil), and Break is cleared when the function returns. *)
Fixpoint children (p : path) (t : tree) {struct t} : verdict * list event :=
  match t with
  | Scalar => (Continue, [])
  | Message fields unk any =>
      match any with
      | Some m2 =>
          let '(e, ev) := visit children (p ++ [SAny]) m2 in
          (clear_break e, ev)
      | None =>
          let '(e, ev) :=
            (fix fields_loop (fs : list (N * tree)) : verdict * list event :=
               match fs with
               | [] => (Continue, [])
               | (num, v) :: r =>
                   let '(e, ev) := visit children (p ++ [SField num]) v in
                   if is_nil e then let '(e', ev') := fields_loop r in (e', ev ++ ev')
                   else (e, ev)
               end) fields in
          (* if b := m.GetUnknown(); len(b) > 0 && err == nil { push; pop } *)
          let '(e', ev') :=
            if unk && is_nil e then visit (fun _ _ => (Continue, [])) (p ++ [SUnknown]) Scalar else (e, []) in
          (clear_break e', ev ++ ev')
      end
  | TList elems =>
      let '(e, ev) :=
        (fix list_loop (i : N) (l : list tree) : verdict * list event :=
           match l with
           | [] => (Continue, [])
           | v :: r =>
               let '(e, ev) := visit children (p ++ [SIndex i]) v in
               if is_nil e then let '(e', ev') := list_loop (i + 1) r in (e', ev ++ ev')
               else (e, ev)
           end) 0 elems in
      (clear_break e, ev)
  | TMap entries =>
      let '(e, ev) :=
        (fix map_loop (es : list (N * tree)) : verdict * list event :=
           match es with
           | [] => (Continue, [])
           | (k, v) :: r =>
               let '(e, ev) := visit children (p ++ [SKey k]) v in
               if is_nil e then let '(e', ev') := map_loop r in (e', ev ++ ev')
               else (e, ev)
           end) entries in
      (clear_break e, ev)
  end.

(* Options.Range: Break and Terminate are not errors of the whole operation *)
Definition range (root : tree) : verdict * list event :=
  let '(e, ev) := visit children [SRoot] root in
  (match e with Break | Terminate => Continue | _ => e end, ev).
End Range.

(* ---------- the specification side ---------- *)

(* all populated positions below the value [t] at path [p], depth first *)
Fixpoint positions (p : path) (t : tree) {struct t} : list path :=
  match t with
  | Scalar => []
  | Message fields unk any =>
      match any with
      | Some m2 => (p ++ [SAny]) :: positions (p ++ [SAny]) m2
      | None =>
          (fix go (fs : list (N * tree)) : list path :=
             match fs with
             | [] => []
             | (num, v) :: r => ((p ++ [SField num]) :: positions (p ++ [SField num]) v) ++ go r
             end) fields
          ++ (if unk then [p ++ [SUnknown]] else [])
      end
  | TList elems =>
      (fix go (i : N) (l : list tree) : list path :=
         match l with
         | [] => []
         | v :: r => ((p ++ [SIndex i]) :: positions (p ++ [SIndex i]) v) ++ go (i + 1) r
         end) 0 elems
  | TMap entries =>
      (fix go (es : list (N * tree)) : list path :=
         match es with
         | [] => []
         | (k, v) :: r => ((p ++ [SKey k]) :: positions (p ++ [SKey k]) v) ++ go r
         end) entries
  end.
Definition all_positions (root : tree) : list path := [SRoot] :: positions [SRoot] root.

Fixpoint assoc (l : list (N * tree)) (k : N) : option tree :=
  match l with
  | [] => None
  | (k', v) :: r => if k' =? k then Some v else assoc r k
  end.

(* applying one step to a value (what protoreflect gives for that step) *)
Definition apply_step (t : tree) (s : step) : option tree :=
  match t with
  | Scalar => None
  | Message fields unk any =>
      match any with
      | Some m2 => match s with SAny => Some m2 | _ => None end
      | None =>
          match s with
          | SField num => assoc fields num
          | SUnknown => if unk then Some Scalar else None
          | _ => None
          end
      end
  | TList elems => match s with SIndex i => nth_error elems (N.to_nat i) | _ => None end
  | TMap entries => match s with SKey k => assoc entries k | _ => None end
  end.

Fixpoint apply_steps (t : tree) (ss : list step) : option tree :=
  match ss with
  | [] => Some t
  | s :: r => match apply_step t s with Some t' => apply_steps t' r | None => None end
  end.
Definition resolve (root : tree) (p : path) : option tree :=
  match p with SRoot :: r => apply_steps root r | _ => None end.

Definition ev_path (e : event) : path := match e with Push p _ | Pop p _ => p end.
Definition pushes (ev : list event) : list path :=
  flat_map (fun e => match e with Push p _ => [p] | Pop _ _ => [] end) ev.

Definition always (v : verdict) : callback := fun _ => v.
