(* AliasP — proofs about the provenance model (Msg/AliasModel.v), C14. *)
From Coq Require Import List NArith Bool.
From PB Require Import Base.PBytes Msg.AliasModel.
Import ListNotations.

(* ---------- induction over the nested trees ---------- *)
Section AnodeInd.
  Variable P : anode -> Prop.
  Hypothesis Hb : forall num r, P (NBytes num r).
  Hypothesis Hl : forall num r, P (NLazy num r).
  Hypothesis Hm : forall num kids unk, Forall P kids -> P (NMsg num kids unk).
  Fixpoint anode_ind' (n : anode) : P n :=
    match n with
    | NBytes num r => Hb num r
    | NLazy num r => Hl num r
    | NMsg num kids unk =>
      Hm num kids unk ((fix go (l : list anode) : Forall P l :=
                          match l with
                          | [] => Forall_nil P
                          | x :: r => Forall_cons x (anode_ind' x) (go r)
                          end) kids)
    end.
End AnodeInd.

Section LitemInd.
  Variable P : litem -> Prop.
  Hypothesis Hb : forall num off len, P (LBytes num off len).
  Hypothesis Hu : forall off len, P (LUnknown off len).
  Hypothesis Hs : forall num lz off len items, Forall P items -> P (LSub num lz off len items).
  Fixpoint litem_ind' (it : litem) : P it :=
    match it with
    | LBytes num off len => Hb num off len
    | LUnknown off len => Hu off len
    | LSub num lz off len items =>
      Hs num lz off len items ((fix go (l : list litem) : Forall P l :=
                                  match l with
                                  | [] => Forall_nil P
                                  | x :: r => Forall_cons x (litem_ind' x) (go r)
                                  end) items)
    end.
End LitemInd.

(* ---------- freshness makes the observation independent of external memory ---------- *)
Lemma read_fresh_indep : forall e1 e2 r, region_fresh r = true -> alias_read e1 r = alias_read e2 r.
Proof. intros e1 e2 [b|? ? ?|? ? ?] H; cbn in *; auto; discriminate. Qed.

Theorem obs_fresh_indep : forall e1 e2 n, node_fresh n = true -> alias_obs e1 n = alias_obs e2 n.
Proof.
  intros e1 e2. induction n using anode_ind'; intros Hf; cbn in *.
  - f_equal. apply read_fresh_indep; auto.
  - f_equal. apply read_fresh_indep; auto.
  - apply andb_true_iff in Hf. destruct Hf as [Hk Hu]. f_equal.
    + rewrite forallb_forall in Hk. apply map_ext_in. intros a Ha.
      rewrite Forall_forall in H. apply H; auto.
    + apply read_fresh_indep; auto.
Qed.

(* ---------- clone ---------- *)
Theorem clone_fresh : forall ext n, node_fresh (alias_clone ext n) = true.
Proof.
  intros ext. induction n using anode_ind'; cbn; auto.
  rewrite andb_true_r. apply forallb_forall. intros x Hx. apply in_map_iff in Hx.
  destruct Hx as [y [<- Hy]]. rewrite Forall_forall in H. auto.
Qed.

(* the clone holds the contents the source had when it was cloned, whatever happens later *)
Theorem clone_obs : forall ext e' n, alias_obs e' (alias_clone ext n) = alias_obs ext n.
Proof.
  intros ext e'. induction n using anode_ind'; cbn; auto.
  f_equal. rewrite map_map. apply map_ext_in. intros a Ha. rewrite Forall_forall in H. auto.
Qed.

(* ---------- merge ---------- *)
Theorem merge_dst_fresh : forall ext dst src,
  node_fresh dst = true -> node_fresh (alias_merge ext dst src) = true.
Proof.
  intros ext dst src H. destruct dst as [| |num dk du]; cbn; auto.
  destruct src as [| |snum sk su]; auto. cbn in *.
  apply andb_true_iff in H. destruct H as [Hk _]. rewrite andb_true_r.
  rewrite forallb_app, Hk. cbn. apply forallb_forall. intros x Hx. apply in_map_iff in Hx.
  destruct Hx as [y [<- Hy]]. apply clone_fresh.
Qed.

(* ---------- decode ---------- *)
Definition dec_safe (alias lazyon : bool) (origin : option nat) (it : litem) : Prop :=
  origin = None \/ (alias = false /\ is_lazy_item it && lazyon = false).

Lemma dec_item_fresh : forall it alias lazyon origin data,
  dec_safe alias lazyon origin it ->
  forallb node_fresh (fst (dec_item alias lazyon origin data it)) = true.
Proof.
  induction it using litem_ind'; intros alias lazyon origin data Hs; cbn [dec_item]; auto.
  destruct (lz && lazyon) eqn:Hlz.
  - destruct Hs as [->|[_ Hn]]; [reflexivity|]. cbn in Hn. congruence.
  - cbn [fst forallb]. rewrite andb_true_r. cbn [node_fresh region_fresh]. rewrite andb_true_r.
    set (haslazy := existsb is_lazy_item items && lazyon).
    set (origin' := if haslazy && negb alias then None else origin).
    set (alias' := alias || haslazy).
    assert (Hall : forall it', In it' items -> dec_safe alias' lazyon origin' it').
    { intros it' Hin. destruct Hs as [->|[Ha _]].
      - left. subst origin'. destruct (haslazy && negb alias); reflexivity.
      - subst alias. destruct haslazy eqn:Hh.
        + left. subst origin'. reflexivity.
        + right. split; [subst alias'; reflexivity|].
          subst haslazy. apply andb_false_iff in Hh. destruct Hh as [Hh| ->]; [|apply andb_false_r].
          assert (Hx : is_lazy_item it' = false).
          { destruct (is_lazy_item it') eqn:E; auto.
            assert (existsb is_lazy_item items = true) by (apply existsb_exists; eauto). congruence. }
          rewrite Hx. reflexivity. }
    clearbody origin' alias'. clear Hs.
    induction items as [|x r IHr]; cbn; auto.
    inversion H; subst. rewrite forallb_app. rewrite H2 by (apply Hall; left; auto). cbn.
    apply IHr; auto. intros; apply Hall; right; auto.
Qed.

Theorem decode_fresh : forall lazyon buf ext items,
  node_fresh (alias_decode false lazyon buf ext items) = true.
Proof.
  intros. unfold alias_decode.
  pose proof (dec_item_fresh (LSub 0%N false 0 0 items) false lazyon (Some buf) (ext_input ext buf)) as H.
  assert (Hs : dec_safe false lazyon (Some buf) (LSub 0%N false 0 0 items)) by (right; split; reflexivity).
  specialize (H Hs).
  destruct (dec_item false lazyon (Some buf) (ext_input ext buf) (LSub 0%N false 0 0 items)) as [[|n r] u]; auto.
  cbn in H. apply andb_true_iff in H. tauto.
Qed.

Theorem delim_fresh : forall lazyon rbuf ext items,
  node_fresh (alias_delim_read lazyon rbuf ext items) = true.
Proof. intros. apply decode_fresh. Qed.

(* ---------- any later write to caller memory leaves every observation unchanged ---------- *)
Theorem mutation_independent_decode : forall lazyon buf ext ext' items,
  alias_obs ext' (alias_decode false lazyon buf ext items) = alias_obs ext (alias_decode false lazyon buf ext items).
Proof. intros. apply obs_fresh_indep. apply decode_fresh. Qed.

Theorem mutation_independent_clone : forall ext ext' n,
  alias_obs ext' (alias_clone ext n) = alias_obs ext (alias_clone ext n).
Proof. intros. apply obs_fresh_indep. apply clone_fresh. Qed.

Theorem mutation_independent_merge : forall ext ext' dst src,
  node_fresh dst = true ->
  alias_obs ext' (alias_merge ext dst src) = alias_obs ext (alias_merge ext dst src).
Proof. intros. apply obs_fresh_indep. apply merge_dst_fresh; auto. Qed.

Theorem mutation_independent_delim : forall lazyon rbuf ext ext' items,
  alias_obs ext' (alias_delim_read lazyon rbuf ext items) = alias_obs ext (alias_delim_read lazyon rbuf ext items).
Proof. intros. apply obs_fresh_indep. apply delim_fresh. Qed.

(* ---------- the flag matters: with UnmarshalAliasBuffer a lazy field views the input ---------- *)
Definition alias_ex_items : list litem :=
  [LBytes 1 0 2; LSub 2 true 2 3 [LBytes 1 3 1]; LUnknown 5 1].
Definition alias_ex_mem (b : list byte) : extmem := mkExt (fun _ => b) (fun _ => []).

Theorem alias_flag_views_input :
  node_fresh (alias_decode true true 0 (alias_ex_mem [x0a; x0b; x0c; x0d; x0e; x0f]) alias_ex_items) = false /\
  alias_obs (alias_ex_mem [x00; x00; x00; x00; x00; x00])
            (alias_decode true true 0 (alias_ex_mem [x0a; x0b; x0c; x0d; x0e; x0f]) alias_ex_items) <>
  alias_obs (alias_ex_mem [x0a; x0b; x0c; x0d; x0e; x0f])
            (alias_decode true true 0 (alias_ex_mem [x0a; x0b; x0c; x0d; x0e; x0f]) alias_ex_items).
Proof. split; [vm_compute; reflexivity | vm_compute; discriminate]. Qed.
