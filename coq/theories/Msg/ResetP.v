(* Proofs about Msg/ResetModel.v (C15). *)
From Coq Require Import List NArith Bool Arith Lia.
From PB Require Import Base.PBytes Msg.ResetModel.
Import ListNotations.
Open Scope N_scope.

(* ================================================================ *)
(* 1. generated Reset: the whole struct is the zero value             *)
(* ================================================================ *)
Lemma reset_fast_init cf schema s : fast cf = true -> reset cf schema s = init.
Proof. intros H. unfold reset. rewrite H. reflexivity. Qed.

(* ================================================================ *)
(* 2. well-formed states: everything stored belongs to a field of the *)
(*    schema (the descriptor), in the cell its class prescribes        *)
(* ================================================================ *)
Definition zeroish (cf : cfg) (c : cell) : Prop :=
  c = CZero \/ (flav cf = Opaque /\ c = CSeq []).

Record wf (cf : cfg) (schema : list fld) (s : state) : Prop := mkWf {
  wf_cells : forall n, cells s n <> CZero -> exists f, In f schema /\ fnum f = n /\ is_oo (fcls f) = false;
  wf_oneofs : forall g n c, oneofs s g = Some (n, c) ->
              exists f, In f schema /\ fnum f = n /\ fgrp f = g /\ fcls f = OO;
  wf_pres : forall n, In n (pres s) -> exists f, In f schema /\ fnum f = n /\ has_bit (fcls f) = true;
  wf_slow : fast cf = false -> lazy s = None /\ szc s = false
}.

Lemma wf_init cf schema : wf cf schema init.
Proof.
  constructor; cbn; intros; try congruence; try contradiction; auto.
Qed.

Lemma memN_In n l : memN n l = true <-> In n l.
Proof.
  unfold memN. rewrite existsb_exists. split.
  - intros (x & Hx & E). apply N.eqb_eq in E. subst. exact Hx.
  - intros H. exists n. split; [exact H|apply N.eqb_refl].
Qed.

Lemma In_addN k n l : In k (addN n l) -> k = n \/ In k l.
Proof.
  unfold addN. destruct (memN n l); cbn; intuition.
Qed.

Lemma In_delN k n l : In k (delN n l) <-> In k l /\ k <> n.
Proof.
  unfold delN. rewrite filter_In. rewrite negb_true_iff, N.eqb_neq. intuition.
Qed.

Lemma wf_put cf schema f c s : In f schema -> wf cf schema s -> wf cf schema (put f c s).
Proof.
  intros Hf [H1 H2 H3 H4]. unfold put. destruct (is_oo (fcls f)) eqn:E; [constructor; assumption|].
  constructor; cbn; auto.
  intros n Hn. destruct (N.eqb_spec n (fnum f)).
  - subst. exists f. auto.
  - apply H1. exact Hn.
Qed.

Lemma wf_pset cf schema f s : In f schema -> wf cf schema s -> wf cf schema (pset cf f s).
Proof.
  intros Hf [H1 H2 H3 H4]. unfold pset. destruct (flav cf); try (constructor; assumption).
  destruct (has_bit (fcls f)) eqn:E; [|constructor; assumption].
  constructor; cbn; auto.
  intros n Hn. apply In_addN in Hn. destruct Hn as [->|Hn]; [exists f; auto|auto].
Qed.

Lemma wf_pclr cf schema f s : wf cf schema s -> wf cf schema (pclr f s).
Proof.
  intros [H1 H2 H3 H4]. unfold pclr. destruct (has_bit (fcls f)); [|constructor; assumption].
  constructor; cbn; auto.
  intros n Hn. apply In_delN in Hn. apply H3. tauto.
Qed.

Lemma wf_oput cf schema f c s : In f schema -> wf cf schema s -> wf cf schema (oput f c s).
Proof.
  intros Hf [H1 H2 H3 H4]. unfold oput. destruct (is_oo (fcls f)) eqn:E; [|constructor; assumption].
  constructor; cbn; auto.
  intros g n c0. destruct (N.eqb_spec g (fgrp f)).
  - intros Hs. inversion Hs; subst. exists f. repeat split; auto.
    destruct (fcls f); cbn in E; congruence.
  - apply H2.
Qed.

Lemma wf_oclr cf schema f s : wf cf schema s -> wf cf schema (oclr f s).
Proof.
  intros W. pose proof W as [H1 H2 H3 H4]. unfold oclr. destruct (is_oo (fcls f)); [|assumption].
  destruct (oneofs s (fgrp f)) as [[n c]|]; [|assumption].
  destruct (N.eqb n (fnum f)); [|assumption].
  constructor; cbn; auto.
  intros g n0 c0. destruct (N.eqb g (fgrp f)); [discriminate|apply H2].
Qed.

Lemma wf_with_exts cf schema s e : wf cf schema s -> wf cf schema (with_exts s e).
Proof. intros [H1 H2 H3 H4]. constructor; cbn; auto. Qed.
Lemma wf_with_unk cf schema s u : wf cf schema s -> wf cf schema (with_unk s u).
Proof. intros [H1 H2 H3 H4]. constructor; cbn; auto. Qed.
Lemma wf_with_szc cf schema s : fast cf = true -> wf cf schema s -> wf cf schema (with_szc s true).
Proof. intros F [H1 H2 H3 H4]. constructor; cbn; auto. intros; congruence. Qed.
Lemma wf_with_lazy cf schema s l : fast cf = true -> wf cf schema s -> wf cf schema (with_lazy s l).
Proof. intros F [H1 H2 H3 H4]. constructor; cbn; auto. intros; congruence. Qed.

Lemma wf_force_or_keep cf schema f s : In f schema -> wf cf schema s -> wf cf schema (force_or_keep f s).
Proof.
  intros Hf W. unfold force_or_keep, force.
  destruct (fcls f); try exact W.
  destruct (get f s); try exact W.
  destruct (present f s); try exact W.
  destruct (lazy_lookup s (fnum f)); try exact W.
  apply wf_put; assumption.
Qed.

Global Hint Resolve wf_init wf_put wf_pset wf_pclr wf_oput wf_oclr wf_with_exts wf_with_unk wf_force_or_keep : wfdb.

Ltac wf_crush :=
  repeat match goal with
         | |- wf _ _ (match ?x with _ => _ end) => destruct x
         | |- wf _ _ (if ?x then _ else _) => destruct x
         | |- wf _ _ (let _ := _ in _) => cbv zeta
         end;
  auto 8 with wfdb.

Lemma wf_do_set cf schema f nz cnt v s : In f schema -> wf cf schema s -> wf cf schema (do_set cf f nz cnt v s).
Proof. intros. unfold do_set. wf_crush. Qed.

Lemma wf_do_clear cf schema f s : In f schema -> wf cf schema s -> wf cf schema (do_clear cf f s).
Proof. intros. unfold do_clear. wf_crush. Qed.

Lemma wf_do_mutable cf schema f s : In f schema -> wf cf schema s -> wf cf schema (do_mutable cf f s).
Proof. intros. unfold do_mutable. wf_crush. Qed.

Lemma wf_do_append cf schema f v s : In f schema -> wf cf schema s -> wf cf schema (do_append cf f v s).
Proof. intros. unfold do_append. wf_crush. Qed.

Lemma wf_do_trunc cf schema f s : In f schema -> wf cf schema s -> wf cf schema (do_trunc cf f s).
Proof. intros. unfold do_trunc. wf_crush. Qed.

Lemma wf_merge_field cf schema f nz body v s :
  In f schema -> wf cf schema s -> wf cf schema (merge_field cf f nz body v s).
Proof. intros. unfold merge_field. wf_crush. Qed.

Lemma wf_merge_ext cf schema n isl l s : wf cf schema s -> wf cf schema (merge_ext n isl l s).
Proof. intros. unfold merge_ext. wf_crush. Qed.

Global Hint Resolve wf_do_set wf_do_clear wf_do_mutable wf_do_append wf_do_trunc wf_merge_field wf_merge_ext : wfdb.

(* what an operation may mention *)
Definition item_ok (schema : list fld) (it : witem) : Prop :=
  match it with WField f _ _ _ => In f schema | _ => True end.
Definition fail_ok (schema : list fld) (fl : failspec) : Prop :=
  match fl with FAt _ _ (Some f) => In f schema | _ => True end.
Definition op_ok (schema : list fld) (o : op) : Prop :=
  match o with
  | OSet f _ _ _ | OClr f | OMut f | OApp f _ | OTrn f => In f schema
  | OMrg its => Forall (item_ok schema) its
  | OUm its fl | OUn its fl => Forall (item_ok schema) its /\ fail_ok schema fl
  | _ => True
  end.

Lemma wf_wire_item cf schema lz s it :
  (lz = true -> fast cf = true) -> item_ok schema it -> wf cf schema s -> wf cf schema (wire_item cf lz s it).
Proof.
  intros Hlz Hok W. destruct it as [f nz cnt v|n isl cnt v|raw]; cbn [wire_item item_ok] in *.
  - wf_crush.
  - auto with wfdb.
  - auto with wfdb.
Qed.

Lemma wf_fold {A} cf schema (g : state -> A -> state) (P : A -> Prop) :
  (forall s a, P a -> wf cf schema s -> wf cf schema (g s a)) ->
  forall l s, Forall P l -> wf cf schema s -> wf cf schema (fold_left g l s).
Proof.
  intros Hg. induction l as [|a l IH]; intros s Hl W; cbn; [exact W|].
  inversion Hl; subst. apply IH; auto.
Qed.

Lemma Forall_firstn {A} (P : A -> Prop) k l : Forall P l -> Forall P (firstn k l).
Proof.
  revert l. induction k; intros l H; cbn; [constructor|].
  destruct l; [constructor|]. inversion H; subst. constructor; auto.
Qed.

Lemma wf_bad_nested cf schema lz ff s : In ff schema -> wf cf schema s -> wf cf schema (bad_nested cf lz ff s).
Proof. intros. unfold bad_nested. wf_crush. Qed.

Lemma wf_um cf schema items fl s :
  Forall (item_ok schema) items -> fail_ok schema fl -> wf cf schema s -> wf cf schema (um cf items fl s).
Proof.
  intros Hi Hf W. unfold um.
  set (lz := fast cf && haslazy cf && match flav cf with Opaque => true | _ => false end
             && match pres s with [] => true | _ => false end).
  assert (Hlz : lz = true -> fast cf = true).
  { unfold lz. destruct (fast cf); cbn; auto. }
  cbv zeta.
  set (s0 := if lz then with_lazy s _ else s).
  assert (W0 : wf cf schema s0).
  { unfold s0. destruct lz; [apply wf_with_lazy; auto|exact W]. }
  set (done := match fl with FNone => items | FAt k _ _ => firstn k items end).
  assert (Hd : Forall (item_ok schema) done).
  { unfold done. destruct fl; [exact Hi|apply Forall_firstn; exact Hi]. }
  set (s1 := fold_left (wire_item cf lz) done s0).
  assert (W1 : wf cf schema s1).
  { unfold s1. apply wf_fold with (P := item_ok schema); auto.
    intros. apply wf_wire_item; auto. }
  set (s2 := match fl with FAt _ _ (Some ff) => bad_nested cf lz ff s1 | _ => s1 end).
  assert (W2 : wf cf schema s2).
  { unfold s2. destruct fl as [|k g [ff|]]; auto. apply wf_bad_nested; auto. }
  destruct (lz && match fl with FNone => true | _ => false end) eqn:E; [|exact W2].
  apply wf_with_lazy; auto. apply Hlz. destruct lz; auto.
Qed.

Lemma wf_src_item cf schema s it : item_ok schema it -> wf cf schema s -> wf cf schema (src_item cf s it).
Proof.
  intros Hok W. destruct it; cbn [src_item item_ok] in *; auto with wfdb.
Qed.

Lemma fld_eta f : mkFld (fnum f) (fcls f) (fgrp f) = f.
Proof. destruct f; reflexivity. Qed.

Lemma wf_merge_from cf schema src s it :
  wf cf schema src -> item_ok schema it -> wf cf schema s -> wf cf schema (merge_from cf src s it).
Proof.
  intros Wsrc Hok W. destruct it as [f nz cnt v|n isl cnt v|raw]; cbn [merge_from item_ok] in *; auto.
  - destruct (fcls f) eqn:Ec;
      try (destruct (get f src) as [| [|] ? | | [|]]; auto with wfdb; fail).
    destruct (oneofs src (fgrp f)) as [[n c]|] eqn:Eo; auto.
    destruct (wf_oneofs _ _ _ Wsrc _ _ _ Eo) as (f' & Hin & Hn & Hg & Hc).
    assert (Hf' : mkFld n OO (fgrp f) = f').
    { rewrite <- Hn, <- Hg, <- Hc. apply fld_eta. }
    destruct c; auto; rewrite Hf'; auto with wfdb.
  - destruct (xget n (exts src)) as [[isl' l]|]; auto with wfdb.
Qed.

Lemma wf_merge_all cf schema src : wf cf schema src ->
  forall items s, Forall (item_ok schema) items -> wf cf schema s -> wf cf schema (merge_all cf src items s).
Proof.
  intros Wsrc. induction items as [|it r IH]; intros s Hi W; cbn [merge_all]; [exact W|].
  inversion Hi; subst. apply IH; auto.
  destruct (existsb _ r); auto. apply wf_merge_from; auto.
Qed.

Lemma wf_do_merge cf schema items s :
  Forall (item_ok schema) items -> wf cf schema s -> wf cf schema (do_merge cf items s).
Proof.
  intros Hi W. unfold do_merge. cbv zeta. apply wf_with_unk. apply wf_merge_all; auto.
  apply wf_fold with (P := item_ok schema); auto with wfdb.
  intros. apply wf_src_item; auto.
Qed.

Lemma wf_force_all cf schema l s : incl l schema -> wf cf schema s -> wf cf schema (force_all l s).
Proof.
  intros Hl W. unfold force_all. apply wf_fold with (P := fun f => In f schema); auto with wfdb.
  apply Forall_forall. exact Hl.
Qed.

Lemma wf_reset_refl cf schema s : wf cf schema s -> wf cf schema (reset_refl cf schema s).
Proof.
  intros W. unfold reset_refl. cbv zeta. apply wf_with_unk, wf_with_exts.
  apply wf_fold with (P := fun f => In f schema); auto with wfdb.
  apply Forall_forall. auto.
Qed.

Lemma wf_reset cf schema s : wf cf schema s -> wf cf schema (reset cf schema s).
Proof.
  intros W. unfold reset. destruct (fast cf); [apply wf_init|apply wf_reset_refl; exact W].
Qed.

Lemma stores_szc_fast cf : stores_szc cf = true -> fast cf = true.
Proof. unfold stores_szc. destruct (fast cf); cbn; auto. Qed.

Lemma wf_step cf schema s o : op_ok schema o -> wf cf schema s -> wf cf schema (step cf schema s o).
Proof.
  intros Hok W. destruct o; cbn [step op_ok] in *; auto with wfdb.
  - destruct (stores_szc cf) eqn:E; auto. apply wf_with_szc; auto using stores_szc_fast.
  - cbv zeta. destruct (stores_szc cf) eqn:E.
    + apply wf_with_szc; auto using stores_szc_fast. apply wf_force_all; auto. apply incl_refl.
    + apply wf_force_all; auto. apply incl_refl.
  - apply wf_force_all; auto. apply incl_refl.
  - apply wf_do_merge; auto.
  - destruct Hok. apply wf_um; auto.
  - destruct Hok. unfold unmarshal. apply wf_um; auto. apply wf_reset; auto.
  - apply wf_reset; auto.
Qed.

Lemma wf_run cf schema ops : Forall (op_ok schema) ops ->
  forall s, wf cf schema s -> wf cf schema (run cf schema ops s).
Proof.
  unfold run. induction ops as [|o r IH]; intros Hok s W; cbn; [exact W|].
  inversion Hok; subst. apply IH; auto. apply wf_step; auto.
Qed.

(* ================================================================ *)
(* 3. resetMessage (reflection): what Clear of every field leaves      *)
(* ================================================================ *)
Definition zeroishb (cf : cfg) (c : cell) : bool :=
  match c with
  | CZero => true
  | CSeq [] => match flav cf with Opaque => true | _ => false end
  | _ => false
  end.

Lemma zeroishb_spec cf c : zeroishb cf c = true <-> zeroish cf c.
Proof.
  unfold zeroishb, zeroish. split.
  - destruct c as [| | |[|]]; try discriminate; auto.
    destruct (flav cf); try discriminate; auto.
  - intros [->|[E ->]]; [reflexivity|rewrite E; reflexivity].
Qed.

Definition clear_all (cf : cfg) (l : list fld) (s : state) : state :=
  fold_left (fun s f => do_clear cf f s) l s.

Lemma cells_pclr f s : cells (pclr f s) = cells s.
Proof. unfold pclr. destruct (has_bit (fcls f)); reflexivity. Qed.

Lemma cells_oclr f s : cells (oclr f s) = cells s.
Proof.
  unfold oclr. destruct (is_oo (fcls f)); auto.
  destruct (oneofs s (fgrp f)) as [[n c]|]; auto. destruct (N.eqb n (fnum f)); auto.
Qed.

Lemma clear_cells_stable cf f s n :
  zeroishb cf (cells s n) = true -> zeroishb cf (cells (do_clear cf f s) n) = true.
Proof.
  intros Hz.
  assert (Hput : forall c, zeroishb cf c = true -> zeroishb cf (cells (put f c s) n) = true).
  { intros c Hc. unfold put. destruct (is_oo (fcls f)); auto. cbn. destruct (N.eqb n (fnum f)); auto. }
  unfold do_clear. destruct (fcls f) eqn:Ec; rewrite ?cells_pclr, ?cells_oclr; auto.
  destruct (flav cf) eqn:Ef; destruct (get f s); auto; apply Hput; cbn; rewrite ?Ef; auto.
Qed.

Lemma clear_cells_own cf f s :
  is_oo (fcls f) = false -> zeroishb cf (cells (do_clear cf f s) (fnum f)) = true.
Proof.
  intros Hoo.
  assert (Hput : forall c s0, cells (put f c s0) (fnum f) = c).
  { intros. unfold put. rewrite Hoo. cbn. rewrite N.eqb_refl. reflexivity. }
  unfold do_clear. destruct (fcls f) eqn:Ec; try discriminate; rewrite ?cells_pclr, ?Hput; auto.
  unfold get. destruct (flav cf) eqn:Ef; destruct (cells s (fnum f)) eqn:Eg;
    rewrite ?Hput; cbn; rewrite ?Ef, ?Eg; auto.
Qed.

Lemma clear_all_cells cf : forall l s,
  (forall n, zeroishb cf (cells s n) = false -> exists f, In f l /\ fnum f = n /\ is_oo (fcls f) = false) ->
  forall n, zeroishb cf (cells (clear_all cf l s) n) = true.
Proof.
  induction l as [|f0 r IH]; intros s H n; cbn.
  - destruct (zeroishb cf (cells s n)) eqn:E; auto.
    destruct (H n E) as (f & [] & _).
  - apply IH. intros k Hk.
    destruct (zeroishb cf (cells s k)) eqn:E.
    + rewrite (clear_cells_stable cf f0 s k E) in Hk. discriminate.
    + destruct (H k E) as (f & [->|Hin] & Hn & Hc).
      * subst k. rewrite clear_cells_own in Hk by exact Hc. discriminate.
      * exists f. auto.
Qed.

Lemma pres_put f c s : pres (put f c s) = pres s.
Proof. unfold put. destruct (is_oo (fcls f)); reflexivity. Qed.

Lemma pres_oclr f s : pres (oclr f s) = pres s.
Proof.
  unfold oclr. destruct (is_oo (fcls f)); auto.
  destruct (oneofs s (fgrp f)) as [[n c]|]; auto. destruct (N.eqb n (fnum f)); auto.
Qed.

Lemma clear_pres_mono cf f s n : In n (pres (do_clear cf f s)) -> In n (pres s).
Proof.
  assert (Hp : forall s0, In n (pres (pclr f s0)) -> In n (pres s0)).
  { intros s0. unfold pclr. destruct (has_bit (fcls f)); cbn; auto. rewrite In_delN. tauto. }
  unfold do_clear. destruct (fcls f); rewrite ?pres_oclr; auto;
    try (intros H; apply Hp in H; rewrite pres_put in H; exact H).
  destruct (flav cf); destruct (get f s); rewrite ?pres_put; auto.
Qed.

Lemma clear_pres_own cf f s : has_bit (fcls f) = true -> ~ In (fnum f) (pres (do_clear cf f s)).
Proof.
  intros Hb. unfold do_clear.
  assert (Hp : forall s0, ~ In (fnum f) (pres (pclr f s0))).
  { intros s0. unfold pclr. rewrite Hb. cbn. rewrite In_delN. tauto. }
  destruct (fcls f); try discriminate; apply Hp.
Qed.

Lemma clear_all_pres cf : forall l s,
  (forall n, In n (pres s) -> exists f, In f l /\ fnum f = n /\ has_bit (fcls f) = true) ->
  pres (clear_all cf l s) = [].
Proof.
  induction l as [|f0 r IH]; intros s H; cbn.
  - destruct (pres s) as [|n p]; auto. destruct (H n (or_introl eq_refl)) as (f & [] & _).
  - apply IH. intros n Hn.
    destruct (H n (clear_pres_mono _ _ _ _ Hn)) as (f & [->|Hin] & Hnum & Hb).
    + subst n. exfalso. exact (clear_pres_own cf f s Hb Hn).
    + exists f. auto.
Qed.

Lemma clear_oneofs_cases cf f s g :
  oneofs (do_clear cf f s) g = oneofs s g \/ oneofs (do_clear cf f s) g = None.
Proof.
  unfold do_clear, put, pclr, oclr, get.
  destruct (fcls f); cbn;
    repeat match goal with
           | |- context [match ?x with _ => _ end] => destruct x eqn:?; cbn
           end; auto.
Qed.

Lemma clear_oneofs_own cf f s c :
  fcls f = OO -> oneofs s (fgrp f) = Some (fnum f, c) -> oneofs (do_clear cf f s) (fgrp f) = None.
Proof.
  intros Ec Eo. unfold do_clear, oclr. rewrite Ec. cbn. rewrite Eo, N.eqb_refl. cbn.
  rewrite N.eqb_refl. reflexivity.
Qed.

Lemma clear_all_oneofs cf : forall l s,
  (forall g n c, oneofs s g = Some (n, c) -> exists f, In f l /\ fnum f = n /\ fgrp f = g /\ fcls f = OO) ->
  forall g, oneofs (clear_all cf l s) g = None.
Proof.
  induction l as [|f0 r IH]; intros s H g; cbn.
  - destruct (oneofs s g) as [[n c]|] eqn:E; auto. destruct (H g n c E) as (f & [] & _).
  - apply IH. intros g' n c E.
    destruct (clear_oneofs_cases cf f0 s g') as [Hs|Hn]; [|congruence].
    rewrite Hs in E. destruct (H g' n c E) as (f & [->|Hin] & Hnum & Hg & Hc).
    + subst. rewrite (clear_oneofs_own cf f s c Hc E) in Hs. rewrite E in Hs. discriminate.
    + exists f. auto.
Qed.

Lemma do_clear_other cf f s :
  lazy (do_clear cf f s) = lazy s /\ exts (do_clear cf f s) = exts s /\
  unk (do_clear cf f s) = unk s /\ szc (do_clear cf f s) = szc s.
Proof.
  unfold do_clear, put, pclr, oclr, get.
  destruct (fcls f); cbn;
    repeat match goal with
           | |- context [match ?x with _ => _ end] => destruct x eqn:?; cbn
           end; auto.
Qed.

Lemma clear_all_other cf : forall l s,
  lazy (clear_all cf l s) = lazy s /\ exts (clear_all cf l s) = exts s /\
  unk (clear_all cf l s) = unk s /\ szc (clear_all cf l s) = szc s.
Proof.
  induction l as [|f0 r IH]; intros s; [cbn; auto|].
  change (clear_all cf (f0 :: r) s) with (clear_all cf r (do_clear cf f0 s)).
  destruct (IH (do_clear cf f0 s)) as (A & B & C & D). rewrite A, B, C, D.
  apply do_clear_other.
Qed.

Lemma xget_filter_unpop n l x :
  xget n (filter (fun kx => negb (ext_populated kx)) l) = Some x -> x = XVal true [].
Proof.
  induction l as [|[k y] r IH]; cbn; [discriminate|].
  destruct (ext_populated (k, y)) eqn:E; cbn; auto.
  destruct (N.eqb n k); auto. intros Hx; inversion Hx; subst.
  unfold ext_populated in E. cbn in E. destruct x as [[|] [|]]; try discriminate. reflexivity.
Qed.

(* the residue of a reflection reset *)
Record residue (cf : cfg) (s : state) : Prop := mkResidue {
  res_cells : forall n, zeroishb cf (cells s n) = true;   (* nil, or (opaque) a pointer to an empty slice *)
  res_oneofs : forall g, oneofs s g = None;
  res_pres : pres s = [];
  res_exts : forall n x, xget n (exts s) = Some x -> x = XVal true [];   (* only extensions set to an empty list *)
  res_unk : unk s = [];
  res_lazy : lazy s = None;
  res_szc : szc s = false
}.

Lemma reset_refl_residue cf schema s :
  fast cf = false -> wf cf schema s -> residue cf (reset_refl cf schema s).
Proof.
  intros F W. destruct (wf_slow _ _ _ W F) as [Hl Hz].
  unfold reset_refl. cbv zeta. fold (clear_all cf schema s).
  destruct (clear_all_other cf schema s) as (A & B & C & D).
  constructor; cbn.
  - apply clear_all_cells. intros n Hn. apply (wf_cells _ _ _ W).
    intros E. rewrite E in Hn. discriminate.
  - apply clear_all_oneofs. apply (wf_oneofs _ _ _ W).
  - apply clear_all_pres. apply (wf_pres _ _ _ W).
  - intros n x. apply xget_filter_unpop.
  - reflexivity.
  - congruence.
  - congruence.
Qed.

Lemma residue_init cf : residue cf init.
Proof. constructor; cbn; auto; discriminate. Qed.

Lemma residue_abs_empty cf s : residue cf s -> abs_empty cf s.
Proof.
  intros [Hc Ho Hp Hx Hu Hl Hz]. repeat split; auto.
  - intros f. unfold abs_field, present, get. rewrite Hp. cbn.
    specialize (Hc (fnum f)). specialize (Ho (fgrp f)).
    destruct (fcls f); rewrite ?Ho;
      destruct (cells s (fnum f)) as [| [|] ? | | [|]]; cbn in *; try discriminate;
      destruct (flav cf); cbn in *; try discriminate; reflexivity.
  - intros n. unfold abs_ext. destruct (xget n (exts s)) as [x|] eqn:E; auto.
    rewrite (Hx n x E). reflexivity.
Qed.

(* ================================================================ *)
(* 4. the residue is invisible to the slow merge decoder               *)
(* ================================================================ *)
Definition norm (c : cell) : cell := match c with CSeq [] => CZero | _ => c end.
Definition xnorm (o : option xcell) : option xcell :=
  match o with Some (XVal true []) => None | _ => o end.

Record sim (s1 s2 : state) : Prop := mkSim {
  sim_cells : forall n, norm (cells s1 n) = norm (cells s2 n);
  sim_oneofs : forall g, oneofs s1 g = oneofs s2 g;
  sim_pres : pres s1 = pres s2;
  sim_lazy1 : lazy s1 = None;
  sim_lazy2 : lazy s2 = None;
  sim_exts : forall n, xnorm (xget n (exts s1)) = xnorm (xget n (exts s2));
  sim_unk : unk s1 = unk s2
}.

Lemma zeroishb_norm cf c : zeroishb cf c = true -> norm c = CZero.
Proof. destruct c as [| | |[|]]; cbn; try discriminate; auto. Qed.

Lemma residue_sim cf s1 s2 : residue cf s1 -> residue cf s2 -> sim s1 s2.
Proof.
  intros [Hc1 Ho1 Hp1 Hx1 Hu1 Hl1 Hz1] [Hc2 Ho2 Hp2 Hx2 Hu2 Hl2 Hz2].
  constructor; try congruence.
  - intros n. rewrite (zeroishb_norm cf _ (Hc1 n)), (zeroishb_norm cf _ (Hc2 n)). reflexivity.
  - intros n.
    assert (H : forall s, (forall n x, xget n (exts s) = Some x -> x = XVal true []) -> xnorm (xget n (exts s)) = None).
    { intros s H. destruct (xget n (exts s)) as [x|] eqn:E; auto. rewrite (H n x E). reflexivity. }
    rewrite (H s1 Hx1), (H s2 Hx2). reflexivity.
Qed.

Lemma lazy_lookup_none s n : lazy s = None -> lazy_lookup s n = Some [].
Proof. unfold lazy_lookup. intros ->. reflexivity. Qed.

Lemma sim_abs_eq cf s1 s2 : sim s1 s2 -> abs_eq cf s1 s2.
Proof.
  intros [Hc Ho Hp Hl1 Hl2 Hx Hu]. repeat split; auto.
  - intros f. unfold abs_field, present, get.
    rewrite !lazy_lookup_none by assumption.
    rewrite Hp, (Ho (fgrp f)). specialize (Hc (fnum f)).
    destruct (fcls f); auto;
      destruct (cells s1 (fnum f)) as [| [|] ? | | [|]];
      destruct (cells s2 (fnum f)) as [| [|] ? | | [|]];
      cbn in Hc; try discriminate; try (inversion Hc; subst); auto;
      destruct (flav cf); auto.
  - intros n. unfold abs_ext. specialize (Hx n).
    destruct (xget n (exts s1)) as [[[|] [|]]|];
      destruct (xget n (exts s2)) as [[[|] [|]]|];
      cbn in Hx; try discriminate; try (inversion Hx; subst); auto.
Qed.

Lemma sim_put f c1 c2 s1 s2 : norm c1 = norm c2 -> sim s1 s2 -> sim (put f c1 s1) (put f c2 s2).
Proof.
  intros Hn [Hc Ho Hp Hl1 Hl2 Hx Hu]. unfold put. destruct (is_oo (fcls f)); [constructor; auto|].
  constructor; cbn; auto. intros n. destruct (N.eqb n (fnum f)); auto.
Qed.

Lemma sim_pset cf f s1 s2 : sim s1 s2 -> sim (pset cf f s1) (pset cf f s2).
Proof.
  intros [Hc Ho Hp Hl1 Hl2 Hx Hu]. unfold pset.
  destruct (flav cf); try (constructor; auto; fail).
  destruct (has_bit (fcls f)); constructor; cbn; auto. rewrite Hp. reflexivity.
Qed.

Lemma sim_oput f c s1 s2 : sim s1 s2 -> sim (oput f c s1) (oput f c s2).
Proof.
  intros [Hc Ho Hp Hl1 Hl2 Hx Hu]. unfold oput. destruct (is_oo (fcls f)); constructor; cbn; auto.
  intros g. destruct (N.eqb g (fgrp f)); auto.
Qed.

Lemma sim_with_unk s1 s2 u : sim s1 s2 -> sim (with_unk s1 (unk s1 ++ u)) (with_unk s2 (unk s2 ++ u)).
Proof. intros [Hc Ho Hp Hl1 Hl2 Hx Hu]. constructor; cbn; auto. rewrite Hu. reflexivity. Qed.

Lemma merge_msg_norm c1 c2 body : norm c1 = norm c2 -> norm (merge_msg c1 body) = norm (merge_msg c2 body).
Proof.
  destruct c1 as [| [|] ? | | [|]]; destruct c2 as [| [|] ? | | [|]]; cbn; intros H;
    try discriminate; try (inversion H; subst); reflexivity.
Qed.

Lemma app_cell_norm c1 c2 l : norm c1 = norm c2 -> norm (app_cell c1 l) = norm (app_cell c2 l).
Proof.
  destruct c1 as [| [|] ? | | [|]]; destruct c2 as [| [|] ? | | [|]]; cbn; intros H;
    try discriminate; try (inversion H; subst); reflexivity.
Qed.

(* an ML field: force, then merge *)
Definition ml_merge (f : fld) (body : list N) (s : state) : state :=
  let s1 := force_or_keep f s in put f (merge_msg (get f s1) body) s1.

Lemma force_none f s : lazy s = None ->
  force_or_keep f s = match fcls f, get f s with
                      | ML, CZero => if present f s then put f (CMsg []) s else s
                      | _, _ => s
                      end.
Proof.
  intros Hl. unfold force_or_keep, force. rewrite (lazy_lookup_none s (fnum f) Hl).
  destruct (fcls f); auto. destruct (get f s); auto. destruct (present f s); auto.
Qed.

Lemma sim_ml_merge f body s1 s2 : sim s1 s2 -> sim (ml_merge f body s1) (ml_merge f body s2).
Proof.
  intros S. pose proof S as [Hc Ho Hp Hl1 Hl2 Hx Hu]. unfold ml_merge. cbv zeta.
  rewrite !force_none by assumption. unfold present. rewrite Hp.
  destruct (fcls f) eqn:Ec; try (apply sim_put; [apply merge_msg_norm; apply Hc|exact S]).
  pose proof (Hc (fnum f)) as Hf. unfold get.
  assert (Hput : forall c s, get f (put f c s) = c).
  { intros c s. unfold get, put. rewrite Ec. cbn. rewrite N.eqb_refl. reflexivity. }
  assert (Hdbl : forall c c0 c' t1 t2, norm c = norm c' -> sim t1 t2 -> sim (put f c (put f c0 t1)) (put f c' t2)).
  { intros c c0 c' t1 t2 Hn [Hc' Ho' Hp' Hl1' Hl2' Hx' Hu']. unfold put. rewrite Ec. cbn.
    constructor; cbn; auto. intros n. destruct (N.eqb n (fnum f)); auto. }
  assert (Hdbr : forall c c0 c' t1 t2, norm c = norm c' -> sim t1 t2 -> sim (put f c t1) (put f c' (put f c0 t2))).
  { intros c c0 c' t1 t2 Hn [Hc' Ho' Hp' Hl1' Hl2' Hx' Hu']. unfold put. rewrite Ec. cbn.
    constructor; cbn; auto. intros n. destruct (N.eqb n (fnum f)); auto. }
  destruct (cells s1 (fnum f)) as [| [|] ? | | [|]] eqn:E1;
    destruct (cells s2 (fnum f)) as [| [|] ? | | [|]] eqn:E2;
    cbn in Hf; try discriminate; try (inversion Hf; subst);
    destruct (memN (fnum f) (pres s2));
    fold (get f (put f (CMsg []) s1)); fold (get f (put f (CMsg []) s2));
    rewrite ?Hput; unfold get; rewrite ?E1, ?E2; cbn [merge_msg app];
    first [ apply sim_put; [reflexivity|exact S]
          | apply Hdbl; [reflexivity|exact S]
          | apply Hdbr; [reflexivity|exact S]
          | (apply sim_put; [reflexivity|apply sim_put; [reflexivity|exact S]]) ].
Qed.

Lemma sim_merge_field cf f nz body v s1 s2 :
  sim s1 s2 -> sim (merge_field cf f nz body v s1) (merge_field cf f nz body v s2).
Proof.
  intros S. pose proof S as [Hc Ho Hp Hl1 Hl2 Hx Hu]. unfold merge_field.
  destruct (fcls f) eqn:Ec.
  - apply sim_pset, sim_put; auto.
  - apply sim_put; auto.
  - apply sim_put; auto. apply merge_msg_norm, Hc.
  - cbv zeta. apply sim_pset. apply (sim_ml_merge f body s1 s2 S).
  - apply sim_put; auto. apply app_cell_norm, Hc.
  - apply sim_put; auto. apply app_cell_norm, Hc.
  - apply sim_put; auto. apply app_cell_norm, Hc.
  - rewrite (Ho (fgrp f)).
    destruct body as [|b0 body']; destruct (oneofs s2 (fgrp f)) as [[k [| | |]]|];
      try destruct (N.eqb k (fnum f)); apply sim_oput; exact S.
Qed.

Lemma xget_xdel k n e : xget k (xdel n e) = if N.eqb k n then None else xget k e.
Proof.
  unfold xdel. induction e as [|[a x] r IH]; cbn.
  - destruct (N.eqb k n); reflexivity.
  - destruct (N.eqb_spec n a); cbn.
    + subst. rewrite IH. destruct (N.eqb_spec k a); reflexivity.
    + destruct (N.eqb_spec k a).
      * subst. destruct (N.eqb_spec a n); [congruence|reflexivity].
      * exact IH.
Qed.

Lemma xget_xput k n x e : xget k (xput n x e) = if N.eqb k n then Some x else xget k e.
Proof.
  unfold xput. cbn. destruct (N.eqb_spec k n); auto. rewrite xget_xdel.
  destruct (N.eqb_spec k n); [congruence|reflexivity].
Qed.

Lemma sim_merge_ext n isl l s1 s2 : sim s1 s2 -> sim (merge_ext n isl l s1) (merge_ext n isl l s2).
Proof.
  intros [Hc Ho Hp Hl1 Hl2 Hx Hu]. unfold merge_ext.
  assert (Hn := Hx n).
  assert (G : forall x1 x2, xnorm (Some x1) = xnorm (Some x2) ->
              sim (with_exts s1 (xput n x1 (exts s1))) (with_exts s2 (xput n x2 (exts s2)))).
  { intros x1 x2 Hxx. constructor; try assumption.
    intros k. unfold with_exts. cbn [exts]. rewrite !xget_xput.
    destruct (N.eqb k n); auto. }
  destruct (xget n (exts s1)) as [[[|] [|]]|];
    destruct (xget n (exts s2)) as [[[|] [|]]|];
    cbn in Hn; try discriminate; try (inversion Hn; subst);
    destruct isl; apply G; reflexivity.
Qed.

Lemma sim_wire_item cf s1 s2 it :
  sim s1 s2 -> sim (wire_item cf false s1 it) (wire_item cf false s2 it).
Proof.
  intros S. destruct it as [f nz cnt v|n isl cnt v|raw]; cbn [wire_item].
  - destruct (fcls f) eqn:Ec; try (apply sim_merge_field; exact S).
    apply sim_put; auto.
  - apply sim_merge_ext; exact S.
  - apply sim_with_unk; exact S.
Qed.

Lemma sim_bad_nested cf ff s1 s2 :
  fast cf = false -> sim s1 s2 -> sim (bad_nested cf false ff s1) (bad_nested cf false ff s2).
Proof.
  intros F S. unfold bad_nested. rewrite F.
  destruct (fcls ff) eqn:Ec; auto.
  - apply sim_put; auto. apply merge_msg_norm. apply (sim_cells _ _ S).
  - cbv zeta. apply sim_pset. apply (sim_ml_merge ff [] s1 s2 S).
Qed.

Lemma sim_fold cf : forall l s1 s2, sim s1 s2 ->
  sim (fold_left (wire_item cf false) l s1) (fold_left (wire_item cf false) l s2).
Proof.
  induction l as [|it r IH]; intros s1 s2 S; cbn; auto. apply IH. apply sim_wire_item; exact S.
Qed.

Lemma sim_um_slow cf items fl s1 s2 :
  fast cf = false -> sim s1 s2 -> sim (um cf items fl s1) (um cf items fl s2).
Proof.
  intros F S. unfold um. rewrite F. cbn [andb]. cbv zeta.
  destruct fl as [|k g [ff|]].
  - apply sim_fold; exact S.
  - apply sim_bad_nested; auto. apply sim_fold; exact S.
  - apply sim_fold; exact S.
Qed.

(* ================================================================ *)
(* 5. the property                                                      *)
(* ================================================================ *)
Theorem reset_empty cf schema ops :
  Forall (op_ok schema) ops ->
  let s := run cf schema ops init in
  abs_empty cf (reset cf schema s) /\
  (fast cf = true -> reset cf schema s = init) /\
  (fast cf = false -> residue cf (reset cf schema s)).
Proof.
  intros Hok s.
  assert (W : wf cf schema s) by (apply wf_run; auto using wf_init).
  destruct (fast cf) eqn:F.
  - rewrite (reset_fast_init cf schema s F). split; [|split]; try discriminate; auto.
    apply residue_abs_empty, residue_init.
  - assert (R : residue cf (reset cf schema s)).
    { unfold reset. rewrite F. apply reset_refl_residue; auto. }
    split; [|split]; auto; try discriminate. apply residue_abs_empty; exact R.
Qed.

Theorem unmarshal_fast_same_state cf schema items fl s :
  fast cf = true -> unmarshal cf schema items fl s = unmarshal cf schema items fl init.
Proof. intros F. unfold unmarshal. rewrite !reset_fast_init by exact F. reflexivity. Qed.

Lemma abs_eq_refl cf s : abs_eq cf s s.
Proof. repeat split; reflexivity. Qed.

Theorem unmarshal_equals_fresh cf schema ops items fl :
  Forall (op_ok schema) ops ->
  abs_eq cf (unmarshal cf schema items fl (run cf schema ops init)) (unmarshal cf schema items fl init).
Proof.
  intros Hok.
  destruct (fast cf) eqn:F.
  - rewrite (unmarshal_fast_same_state cf schema items fl _ F). apply abs_eq_refl.
  - apply sim_abs_eq. unfold unmarshal. apply sim_um_slow; auto.
    unfold reset. rewrite F.
    apply residue_sim with (cf := cf); apply reset_refl_residue; auto using wf_init.
    apply wf_run; auto using wf_init.
Qed.
