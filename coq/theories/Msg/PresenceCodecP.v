(* Proofs about Msg/PresenceCodec.v: C11 over the full binary codec of C03. *)
From Coq Require Import List Arith NArith ZArith Lia Bool Permutation.
From Coq Require Import ZifyBool ZifyNat ZifyN.
From PB Require Import Base.PBytes Wire.WireModel Wire.VarintP.
From PB Require Import Msg.MsgSchema Msg.MsgValue Msg.MsgUtf8 Msg.MsgEnc Msg.MsgDec Msg.MsgValid.
From PB Require Import Msg.MsgWireP Msg.MsgScalarP Msg.MsgAssocP Msg.MsgSizeP Msg.MsgRoundP.
From PB Require Import Msg.PresenceModel Msg.PresenceCodec.
Ltac Zify.zify_post_hook ::= Z.div_mod_to_equations.
Import ListNotations.
Open Scope N_scope.

(* ------------------------------------------------------------------ *)
(** * 1. has on canonical values = "the value has an entry for the field" *)

Lemma pc_fget_in : forall fs lo k vs, msg_sorted lo fs -> In (k, vs) fs -> msg_fget fs k = vs.
Proof.
  induction fs as [|[k0 v0] r IH]; intros lo k vs Hs Hin; [contradiction|].
  cbn [msg_sorted] in Hs. destruct Hs as [Hlo Hr]. cbn [msg_fget].
  destruct Hin as [E|Hin].
  - inversion E; subst. now rewrite N.eqb_refl.
  - assert (k0 < k).
    { apply (msg_sorted_keys_gt k0 r Hr). unfold msg_keys. apply in_map_iff. exists (k, vs). auto. }
    replace (k =? k0) with false by lia. eapply IH; eassumption.
Qed.

Lemma pc_existsb_keys (fs : fields) num :
  existsb (N.eqb num) (map fst fs) = true <-> exists vs, In (num, vs) fs.
Proof.
  rewrite existsb_exists. split.
  - intros [k [Hin E]]. apply N.eqb_eq in E. subst k. apply in_map_iff in Hin.
    destruct Hin as [[k vs] [E Hin]]. cbn in E. subst. eauto.
  - intros [vs Hin]. exists num. split; [|apply N.eqb_refl].
    apply in_map_iff. exists (num, vs). auto.
Qed.

Lemma pc_typed_field_rule slow eb tv tv2 has2 fd vs :
  msg_typed_field slow eb tv tv2 has2 fd vs = true -> pc_rule_has (f_card fd) vs = true /\ vs <> [].
Proof.
  unfold msg_typed_field, pc_rule_has. intros H.
  apply andb_true_iff in H. destruct H as [_ H].
  destruct (f_card fd) as [| | | | |kk ku vd].
  - destruct vs as [|v [|? ?]]; try discriminate. split; [reflexivity|discriminate].
  - destruct vs as [|v [|? ?]]; try discriminate.
    apply andb_true_iff in H. destruct H as [_ H].
    destruct (f_kind fd); try discriminate. destruct v as [s| |]; try discriminate.
    split; [exact H|discriminate].
  - destruct vs as [|v [|? ?]]; try discriminate. split; [reflexivity|discriminate].
  - destruct vs; [discriminate|]. split; [reflexivity|discriminate].
  - destruct vs; [discriminate|]. split; [reflexivity|discriminate].
  - destruct vs; [rewrite andb_false_r in H; discriminate|]. split; [reflexivity|discriminate].
Qed.

Theorem pc_has_present slow S dep tid v num :
  msg_typed slow S dep tid v = true -> pc_has S tid v num = pc_present v num.
Proof.
  intros Hty. destruct v as [s|fs unk|k e]; try discriminate.
  destruct (msg_typed_unfold _ _ _ _ _ _ Hty) as [d [md [_ [Hnth [Hsort [Hall _]]]]]].
  apply msg_keys_sorted_spec in Hsort.
  unfold pc_has, pc_present, pc_stored. rewrite (msg_nth_error_nth S tid md Hnth).
  destruct (existsb (N.eqb num) (map fst fs)) eqn:Ex.
  - apply pc_existsb_keys in Ex. destruct Ex as [vs Hin].
    rewrite (pc_fget_in fs 0 num vs Hsort Hin).
    rewrite forallb_forall in Hall. specialize (Hall _ Hin).
    unfold msg_typed_chunk in Hall. cbn [fst snd] in Hall.
    destruct (msg_find_field md num) as [fd|]; [|discriminate].
    apply (pc_typed_field_rule _ _ _ _ _ _ _ Hall).
  - assert (Hn : ~ In num (msg_keys fs)).
    { intros Hin. unfold msg_keys in Hin. apply in_map_iff in Hin. destruct Hin as [[k vs] [E Hin]].
      cbn in E. subst k. assert (existsb (N.eqb num) (map fst fs) = true) by (apply pc_existsb_keys; eauto).
      congruence. }
    rewrite (msg_fget_notin fs num Hn).
    destruct (msg_find_field md num) as [fd|]; [|reflexivity].
    destruct (f_card fd); reflexivity.
Qed.

(* an implicit-presence zero is never stored in a canonical value, and every stored
   implicit-presence scalar is non-zero: [has] is exactly the non-zero test *)
Theorem pc_implicit_has_iff_nonzero slow S dep tid fs unk num fd :
  msg_typed slow S dep tid (VMsg fs unk) = true ->
  msg_find_field (nth tid S []) num = Some fd -> f_card fd = CImp ->
  pc_has S tid (VMsg fs unk) num =
  match msg_fget fs num with [VS s] => negb (msg_scalar_is_zero s) | _ => false end.
Proof. intros _ Hf Hc. unfold pc_has, pc_stored. now rewrite Hf, Hc. Qed.

(* ------------------------------------------------------------------ *)
(** * 2. explicit presence survives the binary round trip (corollary of C03) *)

Theorem pc_has_roundtrip slow S limit tid v :
  msg_valid slow S limit tid v = true ->
  exists v', msg_decode slow S limit tid (msg_encode S tid v) = DOk v' /\
             forall f, pc_has S tid v' f = pc_has S tid v f.
Proof. intros H. exists v. split; [now apply msg_roundtrip|reflexivity]. Qed.

(* ------------------------------------------------------------------ *)
(** * 3. the cardinality class of the schema tables agrees with the HasPresence table *)

Theorem pc_card_explicit_iff_presence : forall a packed,
  valid_attr a = true -> is_repeated (fa_label a) = false ->
  pc_card_explicit (pc_card a false packed) = has_presence a.
Proof.
  intros [[] [] [] [] [] [] []] packed; vm_compute; intros H1 H2; try reflexivity; try discriminate.
Qed.

Theorem pc_card_implicit_iff : forall a packed,
  valid_attr a = true ->
  (pc_card a false packed = 1 <-> (is_repeated (fa_label a) = false /\ has_presence a = false)).
Proof.
  intros [[] [] [] [] [] [] []] packed; destruct packed; vm_compute; intros H1; try discriminate;
    split; try (intros [? ?]); try intros ?; try discriminate; try (split; reflexivity); reflexivity.
Qed.

(* ------------------------------------------------------------------ *)
(** * 4. the scanner reads back, from the encoding, exactly the populated fields *)

(* a fuel-free description of the tag loop [parse_fields] *)
Inductive wparse (dep : nat) : list byte -> list wfield -> Prop :=
| WP_nil : wparse dep [] []
| WP_cons bs n t r v r' wfs :
    dec_tag bs = Ok (n, t, r) -> parse_val dep n t r = Ok (v, r') ->
    (length r' < length bs)%nat -> wparse dep r' wfs -> wparse dep bs ((n, v) :: wfs).

Lemma dec_tag_nil : dec_tag [] = Err Truncated.
Proof. reflexivity. Qed.

Lemma wparse_fields dep bs wfs :
  wparse dep bs wfs -> forall g acc, (length bs < length g)%nat ->
  parse_fields g dep bs acc = Ok (rev acc ++ wfs).
Proof.
  induction 1 as [|bs n t r v r' wfs Ht Hv Hl _ IH]; intros g acc Hg.
  - destruct g; [cbn in Hg; lia|]. cbn. now rewrite app_nil_r.
  - destruct g as [|x g]; [cbn in Hg; lia|]. cbn [parse_fields].
    destruct bs as [|b bs']; [rewrite dec_tag_nil in Ht; discriminate|].
    rewrite Ht, Hv. rewrite IH by (cbn [length] in *; lia).
    cbn [rev]. now rewrite <- app_assoc.
Qed.

(* [bs] is a sequence of complete fields that parses to [wfs], whatever follows *)
Definition pparse (dep : nat) (bs : list byte) (wfs : list wfield) : Prop :=
  forall rest wr, wparse dep rest wr -> wparse dep (bs ++ rest) (wfs ++ wr).

Lemma pparse_nil dep : pparse dep [] [].
Proof. intros rest wr H. exact H. Qed.

Lemma pparse_app dep a wa b wb : pparse dep a wa -> pparse dep b wb -> pparse dep (a ++ b) (wa ++ wb).
Proof. intros Ha Hb rest wr H. rewrite <- !app_assoc. apply Ha, Hb, H. Qed.

Lemma pparse_flat_map {A} dep (f : A -> list byte) (w : A -> list wfield) l :
  (forall x, In x l -> pparse dep (f x) (w x)) -> pparse dep (flat_map f l) (flat_map w l).
Proof.
  induction l as [|x r IH]; intros H; [apply pparse_nil|].
  cbn [flat_map]. apply pparse_app; [apply H; now left|apply IH; intros y Hy; apply H; now right].
Qed.

(* one field: a tag that decodes, a payload the scanner consumes exactly *)
Lemma pparse_one dep num typ payload w :
  1 <= num -> num <= 2147483647 -> typ < 8 ->
  (forall ext, parse_val dep num typ (payload ++ ext) = Ok (w, ext)) ->
  pparse dep (enc_tag num typ ++ payload) [(num, w)].
Proof.
  intros Hlo Hhi Ht Hp rest wr Hr. cbn [app]. rewrite <- app_assoc.
  eapply WP_cons.
  - apply msgw_dec_tag_enc; assumption.
  - apply Hp.
  - destruct (msgw_enc_tag_nonempty num typ) as [b [r E]]. rewrite E. cbn [app length].
    rewrite !app_length. lia.
  - exact Hr.
Qed.

Lemma pparse_len dep num b :
  1 <= num -> num <= 2147483647 -> N.of_nat (length b) < 2^64 ->
  pparse dep (enc_tag num 2 ++ enc_bytes b) [(num, WLen b)].
Proof.
  intros Hlo Hhi Hb. apply pparse_one; try assumption; [lia|].
  intros ext. rewrite msg_parse_val_len, msgw_dec_bytes_enc by exact Hb. reflexivity.
Qed.

Section FieldParse.
  Variable S : schema.
  Let eb := msg_enc_body S.
  Let sb := msg_size_body S.
  Let ok := msg_sizes_ok S.

  Lemma pc_sub_eq v : msg_sub_eq sb eb ok v.
  Proof. apply (proj1 (msg_size_eq_deep S v)). Qed.

  (* an element of a singular / repeated field *)
  Lemma pc_elem_parse slow tv fd v :
    1 <= f_num fd -> f_num fd <= msg_max_num ->
    msg_typed_elem slow eb tv fd v = true ->
    msg_szok_elem sb ok (f_kind fd) v = true ->
    (match f_kind fd with KGrp tid => msg_group_scans (f_num fd) (eb tid v) = true | _ => True end) ->
    pparse default_dep (msg_enc_elem eb (f_num fd) (f_kind fd) v) (pc_elem_w eb (f_num fd) (f_kind fd) v)
    /\ exists w, pc_elem_w eb (f_num fd) (f_kind fd) v = [(f_num fd, w)].
  Proof.
    intros Hlo Hhi Hty Hsz Hscan. rewrite msg_max_num_eq in Hhi.
    unfold msg_typed_elem, msg_szok_elem, msg_enc_elem, pc_elem_w in *.
    destruct (f_kind fd) as [sk|t|t], v as [s|fs unk|k e]; try discriminate.
    - apply andb_true_iff in Hty. destruct Hty as [Hok _]. split; [|eauto].
      apply pparse_one; try lia.
      + destruct sk; cbn; lia.
      + intros ext. apply msg_parse_scalar; assumption.
    - apply andb_true_iff in Hsz. destruct Hsz as [Hok Hlt]. split; [|eauto].
      apply pparse_len; try lia.
      rewrite <- (pc_sub_eq (VMsg fs unk) t Hok). rewrite <- msg_two64_eq. lia.
    - unfold msg_group_scans in Hscan.
      destruct (parse_val default_dep (f_num fd) 3 (eb t (VMsg fs unk) ++ enc_tag (f_num fd) 4))
        as [[w r]|e] eqn:E; [|discriminate].
      destruct r; [|discriminate]. split; [|eauto].
      apply pparse_one; try lia.
      intros ext. destruct (msgw_parse_val_ext _ _ _ _ ext _ _ E) as [E' _]. exact E'.
  Qed.

  Lemma pc_elems_parse slow tv fd vs :
    1 <= f_num fd -> f_num fd <= msg_max_num ->
    forallb (msg_typed_elem slow eb tv fd) vs = true ->
    forallb (msg_szok_elem sb ok (f_kind fd)) vs = true ->
    (match f_kind fd with KGrp tid => forallb (fun v => msg_group_scans (f_num fd) (eb tid v)) vs = true | _ => True end) ->
    pparse default_dep (flat_map (fun e => msg_enc_elem eb (f_num fd) (f_kind fd) e) vs)
                       (flat_map (fun e => pc_elem_w eb (f_num fd) (f_kind fd) e) vs)
    /\ Forall (fun w => fst w = f_num fd) (flat_map (fun e => pc_elem_w eb (f_num fd) (f_kind fd) e) vs)
    /\ (vs <> [] -> flat_map (fun e => pc_elem_w eb (f_num fd) (f_kind fd) e) vs <> []).
  Proof.
    intros Hlo Hhi Hty Hsz Hscan.
    rewrite forallb_forall in Hty, Hsz.
    assert (Hone : forall v, In v vs ->
      pparse default_dep (msg_enc_elem eb (f_num fd) (f_kind fd) v) (pc_elem_w eb (f_num fd) (f_kind fd) v)
      /\ exists w, pc_elem_w eb (f_num fd) (f_kind fd) v = [(f_num fd, w)]).
    { intros v Hv. apply (pc_elem_parse slow tv); auto.
      destruct (f_kind fd); auto. rewrite forallb_forall in Hscan. now apply Hscan. }
    repeat split.
    - apply pparse_flat_map. intros v Hv. apply (Hone v Hv).
    - apply Forall_forall. intros w Hw. apply in_flat_map in Hw. destruct Hw as [v [Hv Hw]].
      destruct (Hone v Hv) as [_ [w0 E]]. rewrite E in Hw. destruct Hw as [<-|[]]. reflexivity.
    - destruct vs as [|v r]; [congruence|]. intros _. cbn [flat_map].
      destruct (Hone v (or_introl eq_refl)) as [_ [w0 E]]. rewrite E. discriminate.
  Qed.

  Lemma pc_entry_parse tv2 fd kk kutf8 e :
    1 <= f_num fd -> f_num fd <= msg_max_num ->
    msg_typed_entry tv2 fd kk kutf8 e = true ->
    msg_szok_entry sb ok kk (f_kind fd) e = true ->
    pparse default_dep (msg_enc_entry eb (f_num fd) kk (f_kind fd) e) (pc_entry_w eb (f_num fd) kk (f_kind fd) e)
    /\ exists w, pc_entry_w eb (f_num fd) kk (f_kind fd) e = [(f_num fd, w)].
  Proof.
    intros Hlo Hhi Hty Hsz. rewrite msg_max_num_eq in Hhi.
    unfold msg_typed_entry, msg_szok_entry, msg_enc_entry, pc_entry_w in *.
    destruct e as [s|fs unk|key v]; try discriminate. split; [|eauto].
    apply andb_true_iff in Hsz. destruct Hsz as [Hsz Hlt].
    apply andb_true_iff in Hsz. destruct Hsz as [Hkey Hval].
    apply pparse_len; try lia.
    rewrite app_length, Nnat.Nat2N.inj_add.
    rewrite <- (msg_size_key_eq kk key Hkey).
    rewrite <- (msg_size_elem_eq sb eb ok 2 (f_kind fd) v); [rewrite <- msg_two64_eq; lia|cbn; lia|apply pc_sub_eq|exact Hval].
  Qed.

  (* one field with all its values *)
  Lemma pc_field_parse slow tv tv2 has2 fd vs :
    msg_typed_field slow eb tv tv2 has2 fd vs = true ->
    msg_szok_field sb ok fd vs = true ->
    (match f_card fd, f_kind fd with
     | CMap _ _ _, _ => True
     | _, KGrp tid => forallb (fun v => msg_group_scans (f_num fd) (eb tid v)) vs = true
     | _, _ => True end) ->
    pparse default_dep (msg_enc_field eb fd vs) (pc_field_w eb fd vs)
    /\ Forall (fun w => fst w = f_num fd) (pc_field_w eb fd vs)
    /\ pc_field_w eb fd vs <> [].
  Proof.
    intros Hty Hsz Hscan.
    destruct (pc_typed_field_rule _ _ _ _ _ _ _ Hty) as [_ Hne].
    unfold msg_typed_field in Hty. apply andb_true_iff in Hty. destruct Hty as [Hnum Hty].
    apply andb_true_iff in Hnum. destruct Hnum as [Hlo Hhi].
    apply N.leb_le in Hlo, Hhi.
    unfold msg_szok_field in Hsz. apply andb_true_iff in Hsz. destruct Hsz as [_ Hsz].
    unfold msg_enc_field, pc_field_w.
    assert (Hplain : forallb (msg_typed_elem slow eb tv fd) vs = true ->
                     forallb (msg_szok_elem sb ok (f_kind fd)) vs = true ->
                     (match f_kind fd with KGrp tid => forallb (fun v => msg_group_scans (f_num fd) (eb tid v)) vs = true | _ => True end) ->
      pparse default_dep (flat_map (fun e => msg_enc_elem eb (f_num fd) (f_kind fd) e) vs)
                         (flat_map (fun e => pc_elem_w eb (f_num fd) (f_kind fd) e) vs)
      /\ Forall (fun w => fst w = f_num fd) (flat_map (fun e => pc_elem_w eb (f_num fd) (f_kind fd) e) vs)
      /\ flat_map (fun e => pc_elem_w eb (f_num fd) (f_kind fd) e) vs <> []).
    { intros A B C. destruct (pc_elems_parse slow tv fd vs Hlo Hhi A B C) as [P1 [P2 P3]].
      repeat split; auto. }
    assert (Hsing : forall v, vs = [v] -> msg_typed_elem slow eb tv fd v = true ->
                    forallb (msg_typed_elem slow eb tv fd) vs = true).
    { intros v -> H. cbn. now rewrite H. }
    destruct (f_card fd) as [| | | | |kk ku vd].
    - (* COpt *) destruct vs as [|v [|? ?]]; try discriminate.
      apply Hplain; [cbn; now rewrite Hty|exact Hsz|destruct (f_kind fd); exact Hscan].
    - (* CImp *) destruct vs as [|v [|? ?]]; try discriminate.
      apply andb_true_iff in Hty. destruct Hty as [Hty _].
      apply Hplain; [cbn; now rewrite Hty|exact Hsz|destruct (f_kind fd); exact Hscan].
    - (* CReq *) destruct vs as [|v [|? ?]]; try discriminate.
      apply Hplain; [cbn; now rewrite Hty|exact Hsz|destruct (f_kind fd); exact Hscan].
    - (* CRep *) destruct vs as [|v0 vs']; [discriminate|].
      apply Hplain; [exact Hty|exact Hsz|destruct (f_kind fd); exact Hscan].
    - (* CPacked *)
      destruct vs as [|v0 vs']; [discriminate|].
      destruct (f_kind fd) as [sk|t|t] eqn:Hk.
      + destruct (msg_packable sk) eqn:Hp.
        * apply andb_true_iff in Hsz. destruct Hsz as [Hall Hlt].
          repeat split; [|repeat constructor|discriminate].
          rewrite msg_max_num_eq in Hhi. apply pparse_len; try lia.
          rewrite <- (msg_packed_eq sb ok sk (v0 :: vs')) by exact Hall.
          rewrite <- msg_two64_eq. lia.
        * apply Hplain; [exact Hty|exact Hsz|exact I].
      + apply Hplain; [exact Hty|exact Hsz|exact I].
      + apply Hplain; [exact Hty|exact Hsz|exact Hscan].
    - (* CMap *)
      apply andb_true_iff in Hty. destruct Hty as [Hty _].
      apply andb_true_iff in Hty. destruct Hty as [_ Hty].
      destruct vs as [|e0 es]; [discriminate|].
      rewrite forallb_forall in Hty, Hsz.
      assert (Hone : forall e, In e (e0 :: es) ->
        pparse default_dep (msg_enc_entry eb (f_num fd) kk (f_kind fd) e) (pc_entry_w eb (f_num fd) kk (f_kind fd) e)
        /\ exists w, pc_entry_w eb (f_num fd) kk (f_kind fd) e = [(f_num fd, w)]).
      { intros e He. apply (pc_entry_parse tv2 fd kk ku); auto. }
      repeat split.
      + apply pparse_flat_map. intros e He. apply (Hone e He).
      + apply Forall_forall. intros w Hw. apply in_flat_map in Hw. destruct Hw as [e [He Hw]].
        destruct (Hone e He) as [_ [w0 E]]. rewrite E in Hw. destruct Hw as [<-|[]]. reflexivity.
      + cbn [flat_map]. destruct (Hone e0 (or_introl eq_refl)) as [_ [w0 E]]. rewrite E. discriminate.
  Qed.
End FieldParse.

(* the unknown bytes of a canonical value are a sequence of complete fields *)
Lemma pc_unknown_parse slow md has2 : forall g u,
  msg_unknown_ok slow md has2 g u = true -> exists wu, wparse default_dep u wu.
Proof.
  induction g as [|x g IH]; intros u H; [discriminate|].
  cbn [msg_unknown_ok] in H. destruct u as [|b u']; [exists []; constructor|].
  destruct (dec_tag (b :: u')) as [[[num typ] r]|e] eqn:Et; [|discriminate].
  destruct (parse_val default_dep num typ r) as [[w r']|e] eqn:Ev; [|discriminate].
  repeat (apply andb_true_iff in H; destruct H as [H ?]).
  destruct (IH r') as [wu Hwu]; [assumption|].
  exists ((num, w) :: wu). eapply WP_cons; try eassumption.
  destruct (msgw_parse_val_ext _ _ _ _ [] _ _ Ev) as [_ L].
  match goal with Hlt : Nat.ltb _ _ = true |- _ => apply Nat.ltb_lt in Hlt; lia end.
Qed.

(* bytes and wire fields of the chunks, in any order that is a permutation of the entries *)
Lemma pc_chunks_parse (cs : list (N * (list byte * list wfield))) :
  (forall c, In c cs -> pparse default_dep (fst (snd c)) (snd (snd c))) ->
  pparse default_dep (concat (map (fun c => fst (snd c)) cs)) (concat (map (fun c => snd (snd c)) cs)).
Proof.
  induction cs as [|c r IH]; intros H; [apply pparse_nil|].
  cbn [map concat]. apply pparse_app; [apply H; now left|apply IH; intros d Hd; apply H; now right].
Qed.

Theorem pc_encode_fields slow S limit tid v :
  msg_valid slow S limit tid v = true -> pc_groups_scan S tid v = true ->
  exists wu,
    parse_fields (x00 :: pc_unknown v) default_dep (pc_unknown v) [] = Ok wu /\
    parse_fields (x00 :: msg_encode S tid v) default_dep (msg_encode S tid v) [] = Ok (pc_wire S tid v ++ wu) /\
    forall f, In f (map fst (pc_wire S tid v)) <-> pc_has S tid v f = true.
Proof.
  unfold msg_valid. intros H Hscan. apply andb_true_iff in H. destruct H as [Hsz Hty].
  destruct v as [s|fs unk|k e]; try discriminate.
  pose proof (pc_has_present slow S limit tid (VMsg fs unk)) as Hhas.
  destruct (msg_typed_unfold _ _ _ _ _ _ Hty) as [d [md [_ [Hnth [Hsort [Hall [_ Hunk]]]]]]].
  pose proof (msg_nth_error_nth S tid md Hnth) as Hmd.
  apply msg_sizes_ok_unfold in Hsz. rewrite Hmd in Hsz.
  cbn [pc_groups_scan] in Hscan. rewrite Hmd in Hscan.
  destruct (pc_unknown_parse _ _ _ _ _ Hunk) as [wu Hwu].
  exists wu. cbn [pc_unknown].
  set (eb := msg_enc_body S) in *.
  set (cs := map (pc_chunk eb md) fs).
  (* every chunk parses; its wire fields carry the field number of its entry *)
  assert (Hchunk : forall p, In p fs ->
            pparse default_dep (fst (snd (pc_chunk eb md p))) (snd (snd (pc_chunk eb md p))) /\
            Forall (fun w => fst w = fst p) (snd (snd (pc_chunk eb md p))) /\
            snd (snd (pc_chunk eb md p)) <> []).
  { intros p Hp. rewrite forallb_forall in Hall, Hsz, Hscan.
    specialize (Hall p Hp). specialize (Hsz p Hp). specialize (Hscan p Hp).
    unfold msg_typed_chunk in Hall. unfold msg_szok_chunk in Hsz. unfold pc_scan_chunk in Hscan. unfold pc_chunk.
    destruct (msg_find_field md (fst p)) as [fd|] eqn:Hf; [|discriminate]. cbn [fst snd].
    rewrite <- (msg_find_field_num md (fst p) fd Hf).
    eapply pc_field_parse; try eassumption.
    destruct (f_card fd); destruct (f_kind fd); auto. }
  assert (Hbytes : msg_encode S tid (VMsg fs unk) =
                   concat (map (fun c => fst (snd c)) (msg_chunk_sort cs)) ++ unk).
  { unfold msg_encode. cbn [msg_enc_body]. rewrite Hmd. fold eb. f_equal. f_equal.
    assert (E : map (fun p => msg_enc_chunk eb md p) fs = map (fun x => (fst x, fst (snd x))) cs).
    { unfold cs. rewrite map_map. apply map_ext. intros p. unfold msg_enc_chunk, pc_chunk.
      destruct (msg_find_field md (fst p)); reflexivity. }
    rewrite E, (msg_chunk_sort_map (fun x => fst x) cs), map_map. reflexivity. }
  assert (Hwire : pc_wire S tid (VMsg fs unk) = concat (map (fun c => snd (snd c)) (msg_chunk_sort cs))).
  { cbn [pc_wire]. rewrite Hmd. reflexivity. }
  assert (Hperm : Permutation (msg_chunk_sort cs) cs) by apply msg_chunk_sort_perm.
  repeat split.
  - apply (wparse_fields _ _ _ Hwu (x00 :: unk) []). cbn [length]. lia.
  - rewrite Hbytes, Hwire.
    apply (wparse_fields default_dep _ _) with (acc := []); [|cbn [length]; lia].
    apply pc_chunks_parse; [|exact Hwu].
    intros c Hc. apply (Permutation_in _ Hperm) in Hc. unfold cs in Hc. apply in_map_iff in Hc.
    destruct Hc as [p [<- Hp]]. apply (Hchunk p Hp).
  - intros Hin. rewrite (Hhas f Hty). cbn [pc_present]. apply pc_existsb_keys.
    rewrite Hwire in Hin. apply in_map_iff in Hin. destruct Hin as [[n w] [E Hin]]. cbn in E. subst n.
    apply in_concat in Hin. destruct Hin as [l [Hl Hw]]. apply in_map_iff in Hl.
    destruct Hl as [c [<- Hc]]. apply (Permutation_in _ Hperm) in Hc. unfold cs in Hc.
    apply in_map_iff in Hc. destruct Hc as [[k vs] [<- Hp]].
    destruct (Hchunk (k, vs) Hp) as [_ [Hall' _]]. rewrite Forall_forall in Hall'.
    specialize (Hall' _ Hw). cbn in Hall'. subst k. eauto.
  - intros Hf. rewrite (Hhas f Hty) in Hf. cbn [pc_present] in Hf. apply pc_existsb_keys in Hf.
    destruct Hf as [vs Hp]. destruct (Hchunk (f, vs) Hp) as [_ [Hall' Hne]].
    destruct (snd (snd (pc_chunk eb md (f, vs)))) as [|[n w] l] eqn:E; [congruence|].
    apply Forall_inv in Hall'. cbn in Hall'. subst n.
    rewrite Hwire. apply in_map_iff. exists (f, w). split; [reflexivity|].
    apply in_concat. exists ((f, w) :: l). split; [|now left].
    apply in_map_iff. exists (pc_chunk eb md (f, vs)). split; [exact E|].
    apply (Permutation_in _ (Permutation_sym Hperm)). unfold cs. apply in_map. exact Hp.
Qed.

(* on the reflection path the scan condition is part of validity *)
Lemma pc_valid_slow_scans S limit tid v :
  msg_valid true S limit tid v = true -> pc_groups_scan S tid v = true.
Proof.
  unfold msg_valid. intros H. apply andb_true_iff in H. destruct H as [_ Hty].
  destruct v as [s|fs unk|k e]; try reflexivity.
  destruct (msg_typed_unfold _ _ _ _ _ _ Hty) as [d [md [_ [Hnth [_ [Hall _]]]]]].
  cbn [pc_groups_scan]. rewrite (msg_nth_error_nth S tid md Hnth).
  apply forallb_forall. intros p Hp. rewrite forallb_forall in Hall. specialize (Hall p Hp).
  unfold msg_typed_chunk in Hall. unfold pc_scan_chunk.
  destruct (msg_find_field md (fst p)) as [fd|]; [|reflexivity].
  unfold msg_typed_field in Hall. apply andb_true_iff in Hall. destruct Hall as [_ Hall].
  assert (G : forall vs, forallb (msg_typed_elem true (msg_enc_body S) (msg_typed true S d) fd) vs = true ->
              forall t, f_kind fd = KGrp t ->
              forallb (fun v => msg_group_scans (f_num fd) (msg_enc_body S t v)) vs = true).
  { intros vs Hvs t Hk. apply forallb_forall. intros v Hv. rewrite forallb_forall in Hvs.
    specialize (Hvs v Hv). unfold msg_typed_elem in Hvs. rewrite Hk in Hvs.
    destruct v; try discriminate. apply andb_true_iff in Hvs. destruct Hvs as [_ Hvs]. exact Hvs. }
  destruct (f_card fd) eqn:Hc; destruct (f_kind fd) as [sk|t|t] eqn:Hk; try reflexivity.
  - destruct (snd p) as [|v [|? ?]]; try discriminate. apply (G [v]); [cbn; now rewrite Hall|reflexivity].
  - destruct (snd p) as [|v [|? ?]]; try discriminate.
    apply andb_true_iff in Hall. destruct Hall as [_ Hall]. destruct v; discriminate.
  - destruct (snd p) as [|v [|? ?]]; try discriminate. apply (G [v]); [cbn; now rewrite Hall|reflexivity].
  - destruct (snd p); [discriminate|]. apply G; [exact Hall|reflexivity].
  - destruct (snd p); [discriminate|]. apply G; [exact Hall|reflexivity].
Qed.

(* messages without group-typed top-level fields need no scan condition *)
Lemma pc_no_groups_scans (S : schema) tid v :
  (forall fd, In fd (nth tid S ([] : mdesc)) -> match f_kind fd with KGrp _ => False | _ => True end) ->
  pc_groups_scan S tid v = true.
Proof.
  intros H. destruct v as [s|fs unk|k e]; try reflexivity. cbn [pc_groups_scan].
  apply forallb_forall. intros p _. unfold pc_scan_chunk.
  destruct (msg_find_field (nth tid S []) (fst p)) as [fd|] eqn:Hf; [|reflexivity].
  specialize (H fd (msg_find_field_in _ _ _ Hf)).
  destruct (f_card fd); destruct (f_kind fd); try reflexivity; contradiction.
Qed.

(** ** the two directions of the property text *)
Corollary pc_unpopulated_not_encoded slow S limit tid v f :
  msg_valid slow S limit tid v = true -> pc_groups_scan S tid v = true ->
  pc_has S tid v f = false -> ~ In f (map fst (pc_wire S tid v)).
Proof.
  intros Hv Hs Hf Hin. destruct (pc_encode_fields slow S limit tid v Hv Hs) as [wu [_ [_ Hiff]]].
  apply Hiff in Hin. congruence.
Qed.

Corollary pc_populated_encoded slow S limit tid v f :
  msg_valid slow S limit tid v = true -> pc_groups_scan S tid v = true ->
  pc_has S tid v f = true -> In f (map fst (pc_wire S tid v)).
Proof.
  intros Hv Hs Hf. destruct (pc_encode_fields slow S limit tid v Hv Hs) as [wu [_ [_ Hiff]]].
  now apply Hiff.
Qed.

(* with no unknown bytes the scanner output is exactly [pc_wire]: no field number of an
   unpopulated field appears on the wire at all *)
Corollary pc_encode_fields_no_unknown slow S limit tid fs :
  msg_valid slow S limit tid (VMsg fs []) = true -> pc_groups_scan S tid (VMsg fs []) = true ->
  exists wfs, parse_fields (x00 :: msg_encode S tid (VMsg fs [])) default_dep (msg_encode S tid (VMsg fs [])) [] = Ok wfs /\
    forall f, In f (map fst wfs) <-> pc_has S tid (VMsg fs []) f = true.
Proof.
  intros Hv Hs. destruct (pc_encode_fields slow S limit tid _ Hv Hs) as [wu [Hu [He Hiff]]].
  cbn [pc_unknown] in Hu. cbn in Hu. inversion Hu; subst wu.
  exists (pc_wire S tid (VMsg fs [])). rewrite app_nil_r in He. split; assumption.
Qed.
