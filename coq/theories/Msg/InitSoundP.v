(* InitSoundP — the validator never reports a partial message as initialized:
     vm_validate S limit tid bs = (Valid, initialized = true, _)  and
     msg_decode false S limit tid bs = DOk v   imply   msg_check_init S tid v = true
   (Msg/ValidateMsgModel.v, Msg/MsgDec.v), for schema tables in which no member of a oneof
   shares its number with a required field.

   Invariant carried along the lockstep walk of validator and decoder:
     - every message value stored in the accumulator is fully initialized ([is_sub_ok]),
     - every required field whose bit the validator has set is present ([is_seen_ok]). *)
From Coq Require Import List Arith NArith ZArith Lia Bool.
From Coq Require Import ZifyBool ZifyNat ZifyN.
From PB Require Import Base.PBytes Wire.WireModel Wire.VarintP Wire.ScanP.
From PB Require Import Msg.MsgSchema Msg.MsgValue Msg.MsgUtf8 Msg.MsgDec Msg.ValidateMsgModel Msg.ValidateMsgP.
Ltac Zify.zify_post_hook ::= Z.div_mod_to_equations.
Import ListNotations.
Open Scope N_scope.

(* ---------- the association list ---------- *)
Lemma is_fget_fset_same fs k vs : msg_fget (msg_fset fs k vs) k = vs.
Proof.
  induction fs as [|[k0 v0] r IH]; cbn [msg_fset msg_fget].
  - now rewrite N.eqb_refl.
  - destruct (k <? k0) eqn:E1; [cbn [msg_fget]; now rewrite N.eqb_refl|].
    destruct (k =? k0) eqn:E2; cbn [msg_fget]; rewrite E2; [reflexivity|exact IH].
Qed.

Lemma is_fget_fset_other fs k vs n : n <> k -> msg_fget (msg_fset fs k vs) n = msg_fget fs n.
Proof.
  intros Hn. induction fs as [|[k0 v0] r IH]; cbn [msg_fset msg_fget].
  - replace (n =? k) with false by lia. reflexivity.
  - destruct (k <? k0) eqn:E1.
    + cbn [msg_fget]. replace (n =? k) with false by lia. reflexivity.
    + destruct (k =? k0) eqn:E2; cbn [msg_fget].
      * apply N.eqb_eq in E2. subst k0. replace (n =? k) with false by lia. reflexivity.
      * destruct (n =? k0); [reflexivity|exact IH].
Qed.

Lemma is_fget_fdel_other fs k n : n <> k -> msg_fget (msg_fdel fs k) n = msg_fget fs n.
Proof.
  intros Hn. induction fs as [|[k0 v0] r IH]; cbn [msg_fdel msg_fget]; [reflexivity|].
  destruct (k =? k0) eqn:E.
  - apply N.eqb_eq in E. subst k0. replace (n =? k) with false by lia. reflexivity.
  - cbn [msg_fget]. destruct (n =? k0); [reflexivity|exact IH].
Qed.

(* ---------- "every stored message value is initialized" ---------- *)
Definition is_chunk_ok (S : schema) (md : mdesc) (p : N * list value) : bool :=
  vm_ci_chunk (msg_check_init S) md p.
Definition is_sub_ok (S : schema) (md : mdesc) (fs : fields) : Prop :=
  forall p, In p fs -> is_chunk_ok S md p = true.

Lemma is_check_init_unfold S tid fs u :
  msg_check_init S tid (VMsg fs u) = true <->
  vm_req_present (nth tid S []) fs = true /\ is_sub_ok S (nth tid S []) fs.
Proof.
  cbn [msg_check_init]. rewrite andb_true_iff, forallb_forall. reflexivity.
Qed.

Lemma is_sub_ok_nil S md : is_sub_ok S md [].
Proof. intros p []. Qed.

Lemma is_sub_ok_fset S md fs k vs :
  is_sub_ok S md fs -> is_chunk_ok S md (k, vs) = true -> is_sub_ok S md (msg_fset fs k vs).
Proof.
  intros Hs Hc. induction fs as [|[k0 v0] r IH]; cbn [msg_fset].
  - intros p [<-|[]]. exact Hc.
  - assert (Hr : is_sub_ok S md r) by (intros p Hp; apply Hs; right; exact Hp).
    destruct (k <? k0).
    + intros p [<-|Hp]; [exact Hc|apply Hs; exact Hp].
    + destruct (k =? k0) eqn:E2.
      * apply N.eqb_eq in E2. subst k0. intros p [<-|Hp]; [exact Hc|apply Hr; exact Hp].
      * intros p [<-|Hp]; [apply Hs; left; reflexivity|apply IH; [exact Hr|exact Hp]].
Qed.

Lemma is_sub_ok_fdel S md fs k : is_sub_ok S md fs -> is_sub_ok S md (msg_fdel fs k).
Proof.
  intros Hs. induction fs as [|[k0 v0] r IH]; cbn [msg_fdel]; [exact Hs|].
  assert (Hr : is_sub_ok S md r) by (intros p Hp; apply Hs; right; exact Hp).
  destruct (k =? k0); [exact Hr|].
  intros p [<-|Hp]; [apply Hs; left; reflexivity|apply IH; [exact Hr|exact Hp]].
Qed.

Lemma is_sub_ok_clear_oneof S md md0 oi num fs :
  is_sub_ok S md fs -> is_sub_ok S md (msg_clear_oneof md0 oi num fs).
Proof.
  revert fs. induction md0 as [|fd r IH]; intros fs Hs; cbn [msg_clear_oneof]; [exact Hs|].
  apply IH. destruct (f_oneof fd) as [j|]; [|exact Hs].
  destruct ((j =? oi) && negb (f_num fd =? num)); [apply is_sub_ok_fdel; exact Hs|exact Hs].
Qed.

(* the values stored under a message-typed field are initialized *)
Lemma is_sub_ok_fget S md fs n fd t :
  is_sub_ok S md fs -> msg_find_field md n = Some fd ->
  (f_kind fd = KMsg t \/ f_kind fd = KGrp t) ->
  forallb (msg_check_init S t) (msg_fget fs n) = true.
Proof.
  intros Hs Hf Hk. induction fs as [|[k0 v0] r IH]; cbn [msg_fget]; [reflexivity|].
  destruct (n =? k0) eqn:E.
  - apply N.eqb_eq in E. subst k0.
    pose proof (Hs (n, v0) (or_introl eq_refl)) as Hc. unfold is_chunk_ok, vm_ci_chunk in Hc. cbn [fst snd] in Hc.
    rewrite Hf in Hc. destruct Hk as [Hk|Hk]; rewrite Hk in Hc; exact Hc.
  - apply IH. intros p Hp. apply Hs. right. exact Hp.
Qed.

Lemma is_chunk_ok_scalar S md n fd sk vs :
  msg_find_field md n = Some fd -> f_kind fd = KS sk -> is_chunk_ok S md (n, vs) = true.
Proof. intros Hf Hk. unfold is_chunk_ok, vm_ci_chunk. cbn [fst snd]. rewrite Hf, Hk. reflexivity. Qed.

Lemma is_chunk_ok_msg S md n fd t vs :
  msg_find_field md n = Some fd -> (f_kind fd = KMsg t \/ f_kind fd = KGrp t) ->
  forallb (msg_check_init S t) vs = true -> is_chunk_ok S md (n, vs) = true.
Proof.
  intros Hf Hk Hv. unfold is_chunk_ok, vm_ci_chunk. cbn [fst snd]. rewrite Hf.
  destruct Hk as [Hk|Hk]; rewrite Hk; exact Hv.
Qed.

(* ---------- presence of required fields ---------- *)
Definition is_present (fs : fields) (n : N) : Prop := msg_fget fs n <> [].

(* no member of a oneof shares its number with a required field *)
Definition is_md_sep (md : mdesc) : Prop :=
  forall fd fd', In fd md -> In fd' md -> vr_is_req fd = true -> f_oneof fd' <> None -> f_num fd <> f_num fd'.
(* field numbers are unique, required fields are not members of a oneof *)
Definition is_md_ok (md : mdesc) : Prop :=
  NoDup (map f_num md) /\ forall fd, In fd md -> vr_is_req fd = true -> f_oneof fd = None.

Lemma is_nodup_num_inj (md : mdesc) fd fd0 :
  NoDup (map f_num md) -> In fd md -> In fd0 md -> f_num fd = f_num fd0 -> fd = fd0.
Proof.
  induction md as [|f r IH]; intros Hnd Hin Hin0 En; [contradiction|].
  cbn [map] in Hnd. inversion Hnd as [|? ? Hnot Hnd']; subst.
  destruct Hin as [<-|Hin], Hin0 as [<-|Hin0]; auto.
  - exfalso. apply Hnot. rewrite En. apply in_map. exact Hin0.
  - exfalso. apply Hnot. rewrite <- En. apply in_map. exact Hin.
Qed.

Lemma is_md_ok_sep md : is_md_ok md -> is_md_sep md.
Proof.
  intros [Hnd Hro] fd fd' Hin Hin' Hr Ho En.
  assert (fd = fd') by (eapply is_nodup_num_inj; eauto). subst fd'. apply Ho. apply Hro; assumption.
Qed.
(* map values are never groups *)
Definition is_md_maps_ok (md : mdesc) : Prop :=
  forall fd kk ku vd t, In fd md -> f_card fd = CMap kk ku vd -> f_kind fd <> KGrp t.
Definition is_schema_ok (S : schema) : Prop := forall md, In md S -> is_md_ok md /\ is_md_maps_ok md.

Lemma is_present_clear_oneof md0 oi num fs n :
  (forall fd', In fd' md0 -> f_oneof fd' <> None -> n <> f_num fd') ->
  is_present fs n -> is_present (msg_clear_oneof md0 oi num fs) n.
Proof.
  revert fs. induction md0 as [|fd r IH]; intros fs Hno Hp; cbn [msg_clear_oneof]; [exact Hp|].
  apply IH; [intros fd' Hin; apply Hno; right; exact Hin|].
  destruct (f_oneof fd) as [j|] eqn:Eo; [|exact Hp].
  destruct ((j =? oi) && negb (f_num fd =? num)); [|exact Hp].
  unfold is_present. rewrite is_fget_fdel_other; [exact Hp|].
  apply Hno; [left; reflexivity|congruence].
Qed.

Lemma is_find_field_num md n fd : msg_find_field md n = Some fd -> f_num fd = n.
Proof.
  induction md as [|f r IH]; cbn [msg_find_field]; [discriminate|].
  destruct (f_num f =? n) eqn:E; [intros H; inversion H; subst; apply N.eqb_eq; exact E|exact IH].
Qed.

(* ---------- the decoder's storing operations ---------- *)
Definition is_req_num (md : mdesc) (n : N) : Prop :=
  exists fd, In fd md /\ vr_is_req fd = true /\ f_num fd = n.

Section Store.
  Variable S : schema.
  Variable md : mdesc.
  Hypothesis Hmdok : is_md_sep md.

  Lemma is_req_not_oneof n fd' : is_req_num md n -> In fd' md -> f_oneof fd' <> None -> n <> f_num fd'.
  Proof. intros (fd & Hin & Hr & <-) Hin' Ho. eapply Hmdok; eauto. Qed.

  Lemma is_set_field_sub_ok fd v fs :
    is_sub_ok S md fs -> is_chunk_ok S md (f_num fd, [v]) = true -> is_sub_ok S md (msg_set_field md fd v fs).
  Proof.
    intros Hs Hc. unfold msg_set_field.
    set (fs1 := if match f_card fd, v with CImp, VS s => msg_scalar_is_zero s | _, _ => false end
                then msg_fdel fs (f_num fd) else msg_fset fs (f_num fd) [v]).
    assert (H1 : is_sub_ok S md fs1).
    { unfold fs1. destruct (match f_card fd, v with CImp, VS s => msg_scalar_is_zero s | _, _ => false end);
        [apply is_sub_ok_fdel; exact Hs|apply is_sub_ok_fset; assumption]. }
    destruct (f_oneof fd); [apply is_sub_ok_clear_oneof; exact H1|exact H1].
  Qed.

  Lemma is_set_field_present_other fd v fs n :
    is_req_num md n -> n <> f_num fd -> is_present fs n -> is_present (msg_set_field md fd v fs) n.
  Proof.
    intros Hr Hn Hp. unfold msg_set_field.
    set (fs1 := if match f_card fd, v with CImp, VS s => msg_scalar_is_zero s | _, _ => false end
                then msg_fdel fs (f_num fd) else msg_fset fs (f_num fd) [v]).
    assert (H1 : is_present fs1 n).
    { unfold fs1, is_present. destruct (match f_card fd, v with CImp, VS s => msg_scalar_is_zero s | _, _ => false end);
        [rewrite is_fget_fdel_other|rewrite is_fget_fset_other]; assumption. }
    destruct (f_oneof fd); [|exact H1].
    apply is_present_clear_oneof; [|exact H1]. intros fd' Hin Ho. eapply is_req_not_oneof; eauto.
  Qed.

  (* a required field that is stored is present afterwards *)
  Lemma is_set_field_present_self fd v fs :
    In fd md -> vr_is_req fd = true -> is_present (msg_set_field md fd v fs) (f_num fd).
  Proof.
    intros Hin Hr. unfold msg_set_field.
    assert (Hc : f_card fd = CReq) by (unfold vr_is_req in Hr; destruct (f_card fd); try discriminate; reflexivity).
    rewrite Hc.
    assert (Ho : f_oneof fd = None).
    { destruct (f_oneof fd) eqn:E; [|reflexivity]. exfalso.
      apply (Hmdok fd fd Hin Hin Hr); [congruence|reflexivity]. }
    rewrite Ho. unfold is_present. rewrite is_fget_fset_same. discriminate.
  Qed.

  Lemma is_append_sub_ok fd vs fs :
    is_sub_ok S md fs -> is_chunk_ok S md (f_num fd, msg_fget fs (f_num fd) ++ vs) = true ->
    is_sub_ok S md (msg_append_field fd vs fs).
  Proof.
    intros Hs Hc. unfold msg_append_field. destruct vs; [exact Hs|]. apply is_sub_ok_fset; assumption.
  Qed.

  Lemma is_append_present_other fd vs fs n :
    n <> f_num fd -> is_present fs n -> is_present (msg_append_field fd vs fs) n.
  Proof.
    intros Hn Hp. unfold msg_append_field. destruct vs; [exact Hp|].
    unfold is_present. rewrite is_fget_fset_other; assumption.
  Qed.

  (* the old value a singular sub-message is merged into *)
  Lemma is_old_sub_ok fd fs num t :
    msg_find_field md num = Some fd -> (f_kind fd = KMsg t \/ f_kind fd = KGrp t) ->
    is_sub_ok S md fs -> is_sub_ok S (nth t S []) (fst (msg_old_sub fd fs)).
  Proof.
    intros Hf Hk Hs. unfold msg_old_sub. destruct (card_repeated (f_card fd)); [apply is_sub_ok_nil|].
    pose proof (is_find_field_num _ _ _ Hf) as Hn. rewrite Hn.
    pose proof (is_sub_ok_fget S md fs num fd t Hs Hf Hk) as Hv.
    destruct (msg_fget fs num) as [|v r]; [apply is_sub_ok_nil|].
    cbn [forallb] in Hv. apply andb_prop in Hv. destruct Hv as [Hv _].
    destruct v as [s|fs' u|k v']; cbn [msg_macc_of fst]; try apply is_sub_ok_nil.
    apply is_check_init_unfold in Hv. tauto.
  Qed.

  (* storing a freshly decoded, initialized sub-message *)
  Lemma is_store_sub fd num t m fs :
    msg_find_field md num = Some fd -> (f_kind fd = KMsg t \/ f_kind fd = KGrp t) ->
    msg_check_init S t (VMsg (fst m) (snd m)) = true ->
    is_sub_ok S md fs ->
    is_sub_ok S md (msg_store_sub md fd m fs) /\
    (forall n, is_req_num md n -> is_present fs n -> is_present (msg_store_sub md fd m fs) n) /\
    (vr_is_req fd = true -> is_present (msg_store_sub md fd m fs) num).
  Proof.
    intros Hf Hk Hci Hs. pose proof (is_find_field_num _ _ _ Hf) as Hn.
    pose proof (vp_find_field_in _ _ _ Hf) as Hin.
    unfold msg_store_sub. cbv zeta. destruct (card_repeated (f_card fd)) eqn:Er.
    - split; [|split].
      + apply is_append_sub_ok; [exact Hs|]. rewrite Hn. eapply is_chunk_ok_msg; eauto.
        rewrite forallb_app. rewrite (is_sub_ok_fget S md fs num fd t Hs Hf Hk). cbn [forallb andb]. rewrite andb_true_r. exact Hci.
      + intros n Hr Hp. destruct (N.eq_dec n (f_num fd)) as [->|Hne].
        * unfold msg_append_field, is_present. rewrite is_fget_fset_same. destruct (msg_fget fs (f_num fd)); discriminate.
        * apply is_append_present_other; assumption.
      + intros Hr. unfold vr_is_req in Hr. destruct (f_card fd); try discriminate; cbn in Er; discriminate.
    - split; [|split].
      + apply is_set_field_sub_ok; [exact Hs|]. rewrite Hn. eapply is_chunk_ok_msg; eauto.
        cbn [forallb]. rewrite andb_true_r. exact Hci.
      + intros n Hr Hp. destruct (N.eq_dec n (f_num fd)) as [->|Hne].
        * destruct Hr as (fd0 & Hin0 & Hr0 & En).
          (* the stored field itself: it is set *)
          unfold msg_set_field. cbn match.
          assert (Hnd : match f_card fd, VMsg (fst m) (snd m) with CImp, VS s => msg_scalar_is_zero s | _, _ => false end = false)
            by (destruct (f_card fd); reflexivity).
          rewrite Hnd.
          destruct (f_oneof fd) as [oi|] eqn:Eo.
          -- exfalso. apply (Hmdok fd0 fd Hin0 Hin Hr0); [congruence|exact En].
          -- unfold is_present. rewrite is_fget_fset_same. discriminate.
        * apply is_set_field_present_other; assumption.
      + intros Hr. rewrite <- Hn. apply is_set_field_present_self; assumption.
  Qed.
End Store.

(* ---------- the initialized flag only shrinks ---------- *)
Lemma is_entry_init_mono reqof kk kutf8 vk vutf8 vm : forall g bs sv i q i' q' r,
  vr_entry reqof g kk kutf8 vk vutf8 vm bs sv i q = VOk i' q' r -> i' = true -> i = true.
Proof.
  induction g as [|x g IH]; intros bs sv i q i' q' r; cbn [vr_entry]; [discriminate|].
  destruct bs as [|b0 t0] eqn:Ebs.
  { intros H; inversion H; subst. intros E. apply andb_prop in E. tauto. }
  rewrite <- Ebs. clear Ebs.
  destruct (dec_tag bs) as [[[num typ] r0]|e]; [|discriminate].
  destruct (msg_max_num <? num); [discriminate|].
  destruct ((num =? 1) && (typ =? 2) && vr_is_string kk && kutf8).
  { destruct (dec_bytes r0) as [[p r1]|e]; [|discriminate]. destruct (msg_utf8_valid p); [apply IH|discriminate]. }
  destruct ((num =? 2) && (typ =? 2)).
  - destruct vk as [sk|tid|tid].
    + destruct (dec_bytes r0) as [[p r1]|e]; [|discriminate].
      destruct (vr_is_string sk && vutf8 && negb (msg_utf8_valid p)); [discriminate|apply IH].
    + destruct (dec_bytes r0) as [[p r1]|e]; [|discriminate].
      destruct (vm tid 0 (x00 :: p) p) as [i1 q1 r2| |]; try discriminate.
      intros H E. apply IH in H; [|exact E]. apply andb_prop in H. tauto.
    + destruct (vr_skip num typ r0); [apply IH|discriminate].
  - destruct (vr_skip num typ r0); [apply IH|discriminate].
Qed.

Lemma is_loop_init_mono reqof md vsub vsub2 grp : forall g bs seen i q i' q' r,
  vr_loop reqof md vsub vsub2 grp g bs seen i q = VOk i' q' r -> i' = true -> i = true.
Proof.
  induction g as [|x g IH]; intros bs seen i q i' q' r; cbn [vr_loop]; [discriminate|].
  destruct bs as [|b0 t0] eqn:Ebs.
  { destruct (grp =? 0); [|discriminate]. intros H; inversion H; subst. intros E. apply andb_prop in E. tauto. }
  rewrite <- Ebs. clear Ebs.
  destruct (dec_tag bs) as [[[num typ] r0]|e]; [|discriminate].
  destruct (msg_max_num <? num); [discriminate|].
  destruct (typ =? 4).
  { destruct (num =? grp); [|discriminate]. intros H; inversion H; subst. intros E. apply andb_prop in E. tauto. }
  destruct (vr_step reqof md vsub vsub2 num typ r0) as [i1 q1 r1| |]; try discriminate.
  intros H E. apply IH in H; [|exact E]. apply andb_prop in H. tauto.
Qed.

Lemma is_empty_init S tid : vr_reqof S tid = false -> msg_check_init S tid msg_empty = true.
Proof.
  unfold vr_reqof, vr_req_count, msg_empty. cbn [msg_check_init forallb]. rewrite andb_true_r.
  unfold vm_req_present. induction (nth tid S []) as [|fd r IH]; [reflexivity|].
  cbn [filter forallb msg_fget]. destruct (vr_is_req fd); cbn [length negb orb andb]; [discriminate|exact IH].
Qed.

(* ---------- map entries ---------- *)
Section EntryInit.
  Variable S : schema.
  Variables (kk : skind) (kutf8 : bool) (vk : kind) (vutf8 : bool).
  Variable vm : vr_t.
  Variable dm : list byte -> value -> dres value.
  Hypothesis Hvm : forall tid p v q r m, vk = KMsg tid ->
    vm tid 0 (x00 :: p) p = VOk true q r -> dm p v = DOk m ->
    is_sub_ok S (nth tid S []) (fst (msg_macc_of v)) -> msg_check_init S tid m = true.

  Definition is_val_inv (sv : bool) (val : value) : Prop :=
    forall tid, vk = KMsg tid ->
      (sv = true -> msg_check_init S tid val = true) /\ (sv = false -> val = msg_empty).

  Lemma is_val_sub_ok sv val tid : vk = KMsg tid -> is_val_inv sv val ->
    is_sub_ok S (nth tid S []) (fst (msg_macc_of val)).
  Proof.
    intros Ek H. destruct (H tid Ek) as [H1 H2]. destruct sv.
    - specialize (H1 eq_refl). destruct val as [s|fs u|k v]; cbn [msg_macc_of fst]; try apply is_sub_ok_nil.
      apply is_check_init_unfold in H1. tauto.
    - rewrite (H2 eq_refl). apply is_sub_ok_nil.
  Qed.

  Lemma is_entry_init : forall g bs sv i q key val q' r key' val',
    vr_entry (vr_reqof S) g kk kutf8 vk vutf8 vm bs sv i q = VOk true q' r ->
    msg_dec_entry g kk kutf8 vk vutf8 dm bs key val = DOk (key', val') ->
    is_val_inv sv val ->
    forall tid, vk = KMsg tid -> msg_check_init S tid val' = true.
  Proof.
    induction g as [|x g IH]; intros bs sv i q key val q' r key' val'; cbn [vr_entry msg_dec_entry]; [discriminate|].
    destruct bs as [|b0 t0] eqn:Ebs.
    { intros Hv Hd Hinv tid Ek. inversion Hd; subst key' val'. injection Hv as Hi _ _.
      destruct (Hinv tid Ek) as [H1 H2]. rewrite Ek in Hi. apply andb_prop in Hi. destruct Hi as [_ Hi].
      destruct sv; [apply H1; reflexivity|]. rewrite (H2 eq_refl).
      apply is_empty_init. rewrite orb_false_r in Hi. destruct (vr_reqof S tid); [discriminate|reflexivity]. }
    rewrite <- Ebs. clear Ebs.
    destruct (dec_tag bs) as [[[num typ] r0]|e]; [|discriminate].
    destruct (msg_max_num <? num); [discriminate|].
    destruct ((num =? 1) && (typ =? 2) && vr_is_string kk && kutf8) eqn:C1.
    { apply andb_prop in C1. destruct C1 as [C1 _]. apply andb_prop in C1. destruct C1 as [C1 _].
      apply andb_prop in C1. destruct C1 as [Hn1 Ht2]. apply N.eqb_eq in Hn1. apply N.eqb_eq in Ht2. subst num typ.
      rewrite vp_parse_val_len2. destruct (dec_bytes r0) as [[p r1]|e]; [|discriminate].
      destruct (msg_utf8_valid p); [|discriminate]. cbn [N.eqb Pos.eqb].
      intros Hv Hd Hinv. destruct (msg_dec_scalar kk kutf8 (WLen p)) as [[s|e]|]; [|discriminate|]; exact (IH _ _ _ _ _ _ _ _ _ _ Hv Hd Hinv). }
    destruct ((num =? 2) && (typ =? 2)) eqn:C2.
    - apply andb_prop in C2. destruct C2 as [Hn2 Ht2]. apply N.eqb_eq in Hn2. apply N.eqb_eq in Ht2. subst num typ.
      cbn [N.eqb Pos.eqb]. rewrite vp_parse_val_len2.
      destruct vk as [sk|tid0|tid0] eqn:Evk.
      + destruct (dec_bytes r0) as [[p r1]|e]; [|discriminate].
        destruct (vr_is_string sk && vutf8 && negb (msg_utf8_valid p)); [discriminate|].
        intros Hv Hd Hinv tid Ek. discriminate.
      + destruct (dec_bytes r0) as [[p r1]|e]; [|discriminate].
        destruct (vm tid0 0 (x00 :: p) p) as [i1 q1 r2| |] eqn:Em; try discriminate.
        intros Hv Hd Hinv.
        pose proof (is_entry_init_mono _ _ _ _ _ _ _ _ _ _ _ _ _ _ Hv eq_refl) as Hi1.
        apply andb_prop in Hi1. destruct Hi1 as [_ ->].
        destruct (dm p val) as [v'|e] eqn:Ed; [|discriminate].
        eapply IH; [exact Hv|exact Hd|].
        intros tid Ek. rewrite Evk in Ek. injection Ek as <-. split; [|discriminate]. intros _.
        eapply Hvm; [first [exact Evk|reflexivity]|exact Em|exact Ed|]. eapply is_val_sub_ok; [first [exact Evk|reflexivity]|exact Hinv].
      + unfold vr_skip. rewrite vp_parse_val_len2. destruct (dec_bytes r0) as [[p r1]|e]; [|discriminate].
        intros Hv Hd Hinv tid Ek. discriminate.
    - unfold vr_skip. destruct (parse_val default_dep num typ r0) as [[w r1]|e] eqn:Ep; [|discriminate].
      intros Hv Hd Hinv.
      assert (Hrec : forall key2, msg_dec_entry g kk kutf8 vk vutf8 dm r1 key2 val = DOk (key', val') ->
                                  forall tid, vk = KMsg tid -> msg_check_init S tid val' = true).
      { intros key2 Hd2. exact (IH _ _ _ _ _ _ _ _ _ _ Hv Hd2 Hinv). }
      destruct (num =? 1).
      + destruct (msg_dec_scalar kk kutf8 w) as [[s|e]|]; [|discriminate|]; exact (Hrec _ Hd).
      + destruct (num =? 2) eqn:Hn2; [|exact (Hrec _ Hd)].
        cbn [andb] in C2. destruct vk as [sk|tid0|tid0] eqn:Evk.
        * intros tid Ek. discriminate.
        * destruct w; try exact (Hrec _ Hd). exfalso.
          apply vp_parse_val_wlen in Ep. subst typ. discriminate.
        * intros tid Ek. discriminate.
  Qed.
End EntryInit.

(* ---------- one field ---------- *)
Lemma is_map_put_ok S t : forall es key v,
  forallb (msg_check_init S t) es = true -> msg_check_init S t v = true ->
  forallb (msg_check_init S t) (msg_map_put es key v) = true.
Proof.
  induction es as [|e r IH]; intros key v He Hv; cbn [msg_map_put forallb].
  - cbn [msg_check_init]. rewrite Hv. reflexivity.
  - cbn [forallb] in He. apply andb_prop in He. destruct He as [He Hr].
    destruct e as [s|fs u|k0 v0].
    + cbn [forallb]. rewrite He. apply IH; assumption.
    + cbn [forallb]. rewrite He. apply IH; assumption.
    + destruct (msg_scmp key k0); cbn [forallb].
      * cbn [msg_check_init]. rewrite Hv, Hr. reflexivity.
      * cbn [msg_check_init]. cbn [msg_check_init] in He. rewrite Hv, He, Hr. reflexivity.
      * rewrite He. apply IH; assumption.
Qed.

Section StepInit.
  Variable S : schema.
  Variable md : mdesc.
  Hypothesis Hmdfull : is_md_ok md.
  Hypothesis Hmaps : is_md_maps_ok md.
  Let Hmdok : is_md_sep md := is_md_ok_sep md Hmdfull.
  Variable vsub : vr_t.
  Variable dsub : msg_dec_t.
  Variable vsub2 : option vr_t.
  Variable dsub2 : option msg_dec_t.

  Definition is_sub_init (vm : vr_t) (dm : msg_dec_t) : Prop :=
    forall tid grp g bs acc q r m r2,
      vm tid grp g bs = VOk true q r -> dm tid grp g bs acc = DOk (m, r2) ->
      is_sub_ok S (nth tid S []) (fst acc) -> msg_check_init S tid (VMsg (fst m) (snd m)) = true.
  Hypothesis Hsub : is_sub_init vsub dsub.
  Hypothesis Hsub2 : match vsub2, dsub2 with
                     | None, None => True
                     | Some vm2, Some dm2 => is_sub_init vm2 dm2
                     | _, _ => False
                     end.

  Definition is_step_post (num typ : N) (acc acc' : msg_macc) : Prop :=
    is_sub_ok S md (fst acc') /\
    (forall n, is_req_num md n -> is_present (fst acc) n -> is_present (fst acc') n) /\
    (vr_marks md num typ = true -> is_present (fst acc') num).

  Lemma is_post_same num typ acc u : vr_marks md num typ = false ->
    is_sub_ok S md (fst acc) -> is_step_post num typ acc (fst acc, u).
  Proof. intros Hm Hs. split; [exact Hs|]. split; [auto|]. rewrite Hm. discriminate. Qed.

  Lemma is_unknown_post tagraw num typ r acc acc' r' :
    vr_marks md num typ = false ->
    msg_unknown tagraw num typ r acc = DOk (acc', r') -> is_sub_ok S md (fst acc) -> is_step_post num typ acc acc'.
  Proof.
    unfold msg_unknown. intros Hm. destruct (parse_val default_dep num typ r) as [[w r0]|e]; [|discriminate].
    intros H Hs. inversion H; subst. apply is_post_same; assumption.
  Qed.

  Lemma is_marks_find num typ fd : msg_find_field md num = Some fd ->
    vr_marks md num typ = vr_is_req fd && (typ =? kind_wt (f_kind fd)).
  Proof. intros H. unfold vr_marks. rewrite H. reflexivity. Qed.

  (* scalars: stored under their own number, never a message value *)
  Lemma is_scalar_set_post num typ fd sk acc s u :
    msg_find_field md num = Some fd -> f_kind fd = KS sk ->
    is_sub_ok S md (fst acc) ->
    is_step_post num typ acc (msg_set_field md fd (VS s) (fst acc), u).
  Proof.
    intros Hf Hk Hs. pose proof (is_find_field_num _ _ _ Hf) as Hn.
    pose proof (vp_find_field_in _ _ _ Hf) as Hin.
    split; [|split]; cbn [fst].
    - apply is_set_field_sub_ok; [exact Hs|]. rewrite Hn. eapply is_chunk_ok_scalar; eauto.
    - intros n Hr Hp. destruct (N.eq_dec n (f_num fd)) as [->|Hne].
      + destruct Hr as (fd0 & Hin0 & Hr0 & En).
        assert (fd0 = fd) by (eapply is_nodup_num_inj; eauto; apply Hmdfull). subst fd0.
        apply is_set_field_present_self; assumption.
      + apply is_set_field_present_other; assumption.
    - rewrite (is_marks_find _ _ _ Hf). intros Hm. apply andb_prop in Hm. destruct Hm as [Hrq _].
      rewrite <- Hn. apply is_set_field_present_self; assumption.
  Qed.

  Lemma is_scalar_append_post num typ fd sk acc vs u :
    msg_find_field md num = Some fd -> f_kind fd = KS sk -> card_repeated (f_card fd) = true ->
    is_sub_ok S md (fst acc) ->
    is_step_post num typ acc (msg_append_field fd vs (fst acc), u).
  Proof.
    intros Hf Hk Hrep Hs. pose proof (is_find_field_num _ _ _ Hf) as Hn.
    split; [|split]; cbn [fst].
    - apply is_append_sub_ok; [exact Hs|]. rewrite Hn. eapply is_chunk_ok_scalar; eauto.
    - intros n Hr Hp. destruct (N.eq_dec n (f_num fd)) as [->|Hne].
      + unfold msg_append_field. destruct vs; [exact Hp|]. unfold is_present. rewrite is_fget_fset_same.
        destruct (msg_fget (fst acc) (f_num fd)); discriminate.
      + apply is_append_present_other; assumption.
    - rewrite (is_marks_find _ _ _ Hf). unfold vr_is_req. destruct (f_card fd); try discriminate; cbn in Hrep; discriminate.
  Qed.
End StepInit.

Lemma is_map_put_nonempty es key v : msg_map_put es key v <> [].
Proof.
  destruct es as [|e r]; cbn [msg_map_put]; [discriminate|].
  destruct e; try discriminate. destruct (msg_scmp key k); discriminate.
Qed.

Section StepInit2.
  Variable S : schema.
  Variable md : mdesc.
  Hypothesis Hmdfull : is_md_ok md.
  Hypothesis Hmaps : is_md_maps_ok md.
  Let Hmdok : is_md_sep md := is_md_ok_sep md Hmdfull.
  Variable vsub : vr_t.
  Variable dsub : msg_dec_t.
  Variable vsub2 : option vr_t.
  Variable dsub2 : option msg_dec_t.
  Hypothesis Hsub : is_sub_init S vsub dsub.
  Hypothesis Hsub2 : match vsub2, dsub2 with
                     | None, None => True
                     | Some vm2, Some dm2 => is_sub_init S vm2 dm2
                     | _, _ => False
                     end.

  Lemma is_step tagraw num typ r acc q1 r' acc' r'' :
    vr_step (vr_reqof S) md vsub vsub2 num typ r = VOk true q1 r' ->
    msg_step false md dsub dsub2 tagraw num typ r acc = DOk (acc', r'') ->
    is_sub_ok S md (fst acc) -> is_step_post S md num typ acc acc'.
  Proof.
    unfold vr_step, msg_step. intros Hv Hd Hs.
    destruct (msg_find_field md num) as [fd|] eqn:Ef.
    2: { eapply is_unknown_post; [|exact Hd|exact Hs]. unfold vr_marks. rewrite Ef. reflexivity. }
    pose proof (vp_find_field_in _ _ _ Ef) as Hin.
    pose proof (is_find_field_num _ _ _ Ef) as Hn.
    pose proof (is_marks_find md num typ fd Ef) as Hmk.
    destruct (f_card fd) as [| | | | |kk kutf8 vdef] eqn:Ec.
    6: {
      assert (Hnr : vr_is_req fd = false) by (unfold vr_is_req; rewrite Ec; reflexivity).
      assert (Hm0 : vr_marks md num typ = false) by (rewrite Hmk, Hnr; reflexivity).
      destruct dsub2 as [dm2|]; [|discriminate].
      destruct (typ =? 2).
      2: { eapply is_unknown_post; eauto. }
      destruct vsub2 as [vm2|]; [|contradiction].
      destruct (dec_bytes r) as [[payload r0]|e]; [|discriminate].
      destruct (vr_entry (vr_reqof S) (x00 :: payload) kk kutf8 (f_kind fd) (f_utf8 fd) vm2 payload false true false)
        as [i q r1| |] eqn:Ev; try discriminate.
      injection Hv as -> _ _.
      match type of Hd with context [msg_dec_entry ?g ?a ?b ?c ?d ?dm ?p ?k ?v] =>
        destruct (msg_dec_entry g a b c d dm p k v) as [[key v']|e] eqn:Ed; [|discriminate];
        pose proof (is_entry_init S a b c d vm2 dm) as He
      end.
      injection Hd as <- _.
      match type of He with (?A -> _) => assert (Hvm : A) end.
      { intros tid p v qq rr2 m Ek Em Edm Hso. rewrite Ek in Edm. unfold msg_whole in Edm.
        destruct (dm2 tid 0 (x00 :: p) p (msg_macc_of v)) as [[m0 r3]|e] eqn:E2; [|discriminate].
        inversion Edm; subst m. eapply Hsub2; eauto. }
      specialize (He Hvm _ _ _ _ _ _ _ _ _ _ _ Ev Ed).
      assert (Hinv : is_val_inv S (f_kind fd) false (msg_entry_default (f_kind fd) vdef)).
      { intros tid Ek. split; [discriminate|]. intros _. rewrite Ek. reflexivity. }
      specialize (He Hinv).
      split; [|split]; cbn [fst].
      - apply is_sub_ok_fset; [exact Hs|].
        destruct (f_kind fd) as [sk|t|t] eqn:Ek.
        + eapply is_chunk_ok_scalar; eauto.
        + eapply is_chunk_ok_msg; [exact Ef|left; exact Ek|].
          apply is_map_put_ok; [eapply is_sub_ok_fget; eauto|apply He; reflexivity].
        + exfalso. eapply Hmaps; eauto.
      - intros n Hr Hp. unfold is_present. destruct (N.eq_dec n num) as [->|Hne].
        + rewrite is_fget_fset_same. apply is_map_put_nonempty.
        + rewrite is_fget_fset_other; assumption.
      - rewrite Hm0. discriminate.
    }
    all: destruct (f_kind fd) as [sk|tid|tid] eqn:Ek.
    (* scalar kinds *)
    1,4,7,10,13:
      (destruct (typ =? sk_wt sk) eqn:Hw;
       [ destruct (parse_val 0 num typ r) as [[w r1]|e] eqn:Ep; [|discriminate];
         destruct (msg_dec_scalar sk (msg_field_utf8 false fd) w) as [[s|e]|] eqn:Es; [|discriminate|];
         [ injection Hd as <- _;
           first [ apply (is_scalar_set_post S md Hmdfull num typ fd sk acc s (snd acc) Ef Ek Hs)
                 | apply (is_scalar_append_post S md num typ fd sk acc [VS s] (snd acc) Ef Ek); [rewrite Ec; reflexivity|exact Hs] ]
         | exfalso; apply N.eqb_eq in Hw; rewrite Hw in Ep;
           destruct (vp_sk_dec_some _ _ _ _ _ _ Ep) as (s0 & Es0);
           rewrite vp_dec_scalar_cases, Es0 in Es;
           match type of Es with context [if ?c then _ else _] => destruct c end; discriminate ]
       | assert (Hm0 : vr_marks md num typ = false)
           by (rewrite Hmk, ?Ek; cbn [kind_wt]; rewrite Hw; apply andb_false_r);
         destruct ((typ =? 2) && msg_packable sk && _) eqn:Ecnd;
         [ destruct (dec_bytes r) as [[payload r0]|e]; [|discriminate];
           destruct (msg_dec_packed (x00 :: payload) sk payload []) as [vs|e]; [|discriminate];
           injection Hd as <- _;
           apply (is_scalar_append_post S md num typ fd sk acc vs (snd acc) Ef Ek); [|exact Hs];
           rewrite Ec; apply andb_prop in Ecnd; destruct Ecnd as [_ Hc]; exact Hc
         | eapply is_unknown_post; eauto ] ]).
    (* message kinds *)
    1,3,5,7,9:
      (destruct (typ =? 2) eqn:Ht;
       [ destruct (dec_bytes r) as [[payload r0]|e]; [|discriminate];
         destruct (vsub tid 0 (x00 :: payload) payload) as [i q r1| |] eqn:Evs; try discriminate;
         injection Hv as -> _ _;
         unfold msg_whole in Hd;
         destruct (dsub tid 0 (x00 :: payload) payload (msg_old_sub fd (fst acc))) as [[m r3]|e] eqn:Eds; [|discriminate];
         injection Hd as <- _;
         assert (Hci : msg_check_init S tid (VMsg (fst m) (snd m)) = true)
           by (eapply Hsub; [exact Evs|exact Eds|]; eapply is_old_sub_ok; eauto);
         destruct (is_store_sub S md Hmdok fd num tid m (fst acc) Ef (or_introl Ek) Hci Hs) as (P1 & P2 & P3);
         split; [exact P1|]; split; [exact P2|];
         rewrite Hmk; intros Hm; apply andb_prop in Hm; destruct Hm as [Hrq _]; apply P3; exact Hrq
       | eapply is_unknown_post; [|exact Hd|exact Hs];
         rewrite Hmk, ?Ek; cbn [kind_wt]; rewrite Ht; apply andb_false_r ]).
    (* group kinds *)
    all: destruct (typ =? 3) eqn:Ht;
      [ destruct (vsub tid num (x00 :: r) r) as [i q r1| |] eqn:Evs; try discriminate;
        injection Hv as -> _ _;
        destruct (dsub tid num (x00 :: r) r (msg_old_sub fd (fst acc))) as [[m r3]|e] eqn:Eds; [|discriminate];
        injection Hd as <- _;
        assert (Hci : msg_check_init S tid (VMsg (fst m) (snd m)) = true)
          by (eapply Hsub; [exact Evs|exact Eds|]; eapply is_old_sub_ok; eauto);
        destruct (is_store_sub S md Hmdok fd num tid m (fst acc) Ef (or_intror Ek) Hci Hs) as (P1 & P2 & P3);
        split; [exact P1|]; split; [exact P2|];
        rewrite Hmk; intros Hm; apply andb_prop in Hm; destruct Hm as [Hrq _]; apply P3; exact Hrq
      | eapply is_unknown_post; [|exact Hd|exact Hs];
        rewrite Hmk, ?Ek; cbn [kind_wt]; rewrite Ht; apply andb_false_r ].
  Qed.
End StepInit2.

(* ---------- the tag loop and the whole message ---------- *)
Section LoopInit.
  Variable S : schema.
  Hypothesis HS : is_schema_ok S.
  Notation dm := (msg_decode_msg false S).

  Lemma is_false_fl1 : False -> vp_fl1_free S. Proof. intros []. Qed.

  Lemma is_sub2_init d :
    (forall d1, d = Datatypes.S d1 -> is_sub_init S (vr_msg S d1) (dm d1)) ->
    match vp_vsub2 S d, vp_dsub2 S d with
    | None, None => True
    | Some vm2, Some dm2 => is_sub_init S vm2 dm2
    | _, _ => False
    end.
  Proof. intros H. destruct d as [|d1]; cbn; [exact I|]. apply H. reflexivity. Qed.

  Lemma is_sub2_agree d :
    match vp_vsub2 S d, vp_dsub2 S d with
    | None, None => True
    | Some vm2, Some dm2 => vp_sub_agree False vm2 dm2
    | _, _ => False
    end.
  Proof. destruct d as [|d1]; cbn; [exact I|]. apply vp_msg_agree. exact is_false_fl1. Qed.

  Definition is_seen_ok (md : mdesc) (seen : list N) (fs : fields) : Prop :=
    forall fd, In fd md -> vr_is_req fd = true -> vr_seen seen (f_num fd) = true -> is_present fs (f_num fd).

  Lemma is_req_ok_present md seen fs :
    vr_req_ok md seen = true -> is_seen_ok md seen fs -> vm_req_present md fs = true.
  Proof.
    unfold vr_req_ok, vm_req_present. intros H Hs. apply andb_prop in H. destruct H as [_ H].
    rewrite forallb_forall in H |- *. intros fd Hin. specialize (H fd Hin).
    destruct (vr_is_req fd) eqn:Hr; [|reflexivity]. cbn [negb orb] in H |- *.
    specialize (Hs fd Hin Hr H). unfold is_present in Hs. destruct (msg_fget fs (f_num fd)); [congruence|reflexivity].
  Qed.

  Lemma is_loop d tid grp md :
    nth_error S tid = Some md ->
    is_sub_init S (vr_msg S d) (dm d) ->
    (forall d1, d = Datatypes.S d1 -> is_sub_init S (vr_msg S d1) (dm d1)) ->
    forall g bs seen i q acc q' r m r2,
      vr_loop (vr_reqof S) md (vr_msg S d) (vp_vsub2 S d) grp g bs seen i q = VOk true q' r ->
      dm (Datatypes.S d) tid grp g bs acc = DOk (m, r2) ->
      is_sub_ok S md (fst acc) -> is_seen_ok md seen (fst acc) ->
      is_sub_ok S md (fst m) /\ vm_req_present md (fst m) = true.
  Proof.
    intros Hmd Hsub Hsub2.
    assert (Hin : In md S) by (eapply nth_error_In; eauto).
    destruct (HS md Hin) as [Hok Hmaps].
    induction g as [|x g IH]; intros bs seen i q acc q' r m r2 Hv Hd Hs Hseen; [cbn in Hv; discriminate|].
    rewrite (vp_dm_unfold _ _ _ _ _ _ _ _ _ Hmd) in Hd. cbn [vr_loop] in Hv.
    destruct bs as [|b0 t0] eqn:Ebs.
    { destruct (grp =? 0); [|discriminate]. injection Hv as Hi _ _. injection Hd as <- _.
      apply andb_prop in Hi. destruct Hi as [_ Hi]. split; [exact Hs|]. eapply is_req_ok_present; eauto. }
    rewrite <- Ebs in *. clear Ebs b0 t0.
    destruct (dec_tag bs) as [[[num typ] r0]|e]; [|discriminate].
    destruct (msg_max_num <? num); [discriminate|].
    destruct (typ =? 4).
    { destruct (num =? grp); [|discriminate]. injection Hv as Hi _ _. injection Hd as <- _.
      apply andb_prop in Hi. destruct Hi as [_ Hi]. split; [exact Hs|]. eapply is_req_ok_present; eauto. }
    pose proof (vp_step_agree False (vr_reqof S) md (vr_msg S d) (dm d) (vp_vsub2 S d) (vp_dsub2 S d)
                  (vp_msg_agree False S is_false_fl1 d) (is_sub2_agree d) (fun f => match f with end)
                  (enc_tag num typ) num typ r0 acc) as Hag.
    unfold vp_agree in Hag.
    destruct (vr_step (vr_reqof S) md (vr_msg S d) (vp_vsub2 S d) num typ r0) as [i1 q1 r1| |] eqn:Evs; try discriminate.
    pose proof (is_loop_init_mono _ _ _ _ _ _ _ _ _ _ _ _ _ Hv eq_refl) as Hi1.
    apply andb_prop in Hi1. destruct Hi1 as [-> ->].
    destruct (msg_step false md (dm d) (vp_dsub2 S d) (enc_tag num typ) num typ r0 acc) as [[acc' r1']|e] eqn:Eds; [|discriminate].
    destruct Hag as [_ Hag]. destruct q1; [discriminate|]. destruct Hag as (mm & Emm & Err). injection Emm as <-.
    cbn [vp_rest2 snd] in Err. subst r1'.
    pose proof (is_step S md Hok Hmaps (vr_msg S d) (dm d) (vp_vsub2 S d) (vp_dsub2 S d) Hsub (is_sub2_init d Hsub2)
                  (enc_tag num typ) num typ r0 acc false r1 acc' r1 Evs Eds Hs) as (P1 & P2 & P3).
    eapply IH; [exact Hv|exact Hd|exact P1|].
    intros fd Hfd Hr Hsn.
    destruct (vr_marks md num typ) eqn:Hm.
    - cbn [vr_seen existsb] in Hsn. apply orb_prop in Hsn. destruct Hsn as [Hsn|Hsn].
      + apply N.eqb_eq in Hsn. rewrite Hsn. apply P3. reflexivity.
      + apply P2; [exists fd; auto|]. apply Hseen; assumption.
    - apply P2; [exists fd; auto|]. apply Hseen; assumption.
  Qed.

  Lemma is_nth_error_nth tid md : nth_error S tid = Some md -> nth tid S [] = md.
  Proof. intros H. apply nth_error_nth with (d := []) in H. exact H. Qed.

  Theorem is_main : forall d, is_sub_init S (vr_msg S d) (dm d).
  Proof.
    induction d as [d IHd] using (well_founded_induction lt_wf).
    intros tid grp g bs acc q r m r2 Hv Hd Hs. destruct d as [|d]; [cbn in Hv; discriminate|].
    rewrite vp_vr_unfold in Hv. destruct (nth_error S tid) as [md|] eqn:Hmd; [|discriminate].
    rewrite (is_nth_error_nth _ _ Hmd) in Hs.
    destruct (is_loop d tid grp md Hmd (IHd d ltac:(lia)) (fun d1 E => IHd d1 ltac:(lia))
                g bs [] true false acc q r m r2 Hv Hd Hs) as [H1 H2].
    { intros fd _ _ H. cbn in H. discriminate. }
    apply is_check_init_unfold. rewrite (is_nth_error_nth _ _ Hmd). split; assumption.
  Qed.
End LoopInit.

(* validate_initialized_sound *)
Theorem is_validate_initialized_sound S limit tid bs q v :
  is_schema_ok S ->
  vm_validate S limit tid bs = (3, true, q) ->
  msg_decode false S limit tid bs = DOk v ->
  msg_check_init S tid v = true.
Proof.
  intros HS Hv Hd. unfold vm_validate in Hv. unfold msg_decode, msg_decode_into in Hd.
  destruct (vr_msg S limit tid 0 (x00 :: bs) bs) as [i q0 r| |] eqn:Ev; try discriminate.
  injection Hv as -> ->.
  destruct (msg_decode_msg false S limit tid 0 (x00 :: bs) bs (msg_macc_of msg_empty)) as [[m r2]|e] eqn:Ed; [|discriminate].
  injection Hd as <-.
  eapply (is_main S HS limit); [exact Ev|exact Ed|]. cbn. apply is_sub_ok_nil.
Qed.

(* decidable version of the schema hypothesis *)
Fixpoint is_nodupb (l : list N) : bool :=
  match l with [] => true | x :: r => negb (existsb (N.eqb x) r) && is_nodupb r end.
Lemma is_nodupb_spec l : is_nodupb l = true -> NoDup l.
Proof.
  induction l as [|x r IH]; intros H; [constructor|]. cbn in H. apply andb_prop in H. destruct H as [H1 H2].
  constructor; [|apply IH; exact H2]. intros Hin. apply negb_true_iff in H1.
  assert (existsb (N.eqb x) r = true) by (apply existsb_exists; exists x; split; [exact Hin|apply N.eqb_refl]). congruence.
Qed.
Definition is_md_okb (md : mdesc) : bool :=
  is_nodupb (map f_num md) &&
  forallb (fun fd => negb (vr_is_req fd) || match f_oneof fd with None => true | Some _ => false end) md &&
  forallb (fun fd => match f_card fd, f_kind fd with CMap _ _ _, KGrp _ => false | _, _ => true end) md.
Definition is_schema_okb (S : schema) : bool := forallb is_md_okb S.
Lemma is_schema_okb_spec S : is_schema_okb S = true -> is_schema_ok S.
Proof.
  unfold is_schema_okb. rewrite forallb_forall. intros H md Hmd. specialize (H md Hmd).
  unfold is_md_okb in H. apply andb_prop in H. destruct H as [H H3]. apply andb_prop in H. destruct H as [H1 H2].
  rewrite forallb_forall in H2, H3. split; [split|].
  - apply is_nodupb_spec. exact H1.
  - intros fd Hin Hr. specialize (H2 fd Hin). rewrite Hr in H2. cbn in H2. destruct (f_oneof fd); [discriminate|reflexivity].
  - intros fd kk ku vd t Hin Hc Hk. specialize (H3 fd Hin). rewrite Hc, Hk in H3. discriminate.
Qed.
