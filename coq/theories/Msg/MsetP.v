(* Proofs about the MessageSet model (Msg/MsetModel.v). *)
From Coq Require Import List Arith NArith ZArith Lia Bool.
From Coq Require Import ZifyBool ZifyNat ZifyN.
From PB Require Import Base.PBytes Wire.WireModel Wire.VarintP Msg.MsetModel Msg.MsetWireP.
Ltac Zify.zify_post_hook ::= Z.div_mod_to_equations.
Import ListNotations.
Open Scope N_scope.

(* ================================================================== *)
(* 1. One item: any order of the subfields                             *)
(* ================================================================== *)

(* [lp raw p]: raw is a length-delimited spelling of p (the length varint need not be minimal) *)
Definition lp (raw p : list byte) : Prop := forall y, dec_bytes (raw ++ y) = Ok (p, y).

Lemma lp_enc_bytes p : N.of_nat (length p) < 2^64 -> lp (enc_bytes p) p.
Proof. intros H y. now apply dec_bytes_enc_bytes. Qed.

Lemma lp_nonempty raw p : lp raw p -> raw <> [].
Proof. intros H ->. specialize (H []). discriminate. Qed.

Lemma lp_dec_varint raw p : lp raw p -> dec_varint raw = Ok (N.of_nat (length p), p).
Proof.
  intros H. specialize (H []). rewrite app_nil_r in H.
  apply dec_bytes_prefix in H. destruct H as (pre & E & _ & Hv & _).
  rewrite !app_nil_r in *. subst raw. exact Hv.
Qed.

Inductive part :=
| PId (v : N)                          (* type_id subfield *)
| PChunk (raw p : list byte)           (* message subfield; raw = length prefix ++ p as on the wire *)
| PJunk (num typ : N) (raw : list byte). (* any other subfield *)

Definition special (num typ : N) : bool :=
  ((num =? 1) && (typ =? 4)) || ((num =? 2) && (typ =? 0)) || ((num =? 3) && (typ =? 2)).

Definition valid_part (x : part) : Prop :=
  match x with
  | PId v => 1 <= v <= max_int32
  | PChunk raw p => lp raw p
  | PJunk num typ raw =>
      valid_num num /\ typ < 8 /\ special num typ = false /\
      forall y, exists v, parse_val default_dep num typ (raw ++ y) = Ok (v, y)
  end.

Definition render_part (x : part) : list byte :=
  match x with
  | PId v => enc_tag 2 0 ++ enc_varint v
  | PChunk raw _ => enc_tag 3 2 ++ raw
  | PJunk num typ raw => enc_tag num typ ++ raw
  end.

Fixpoint last_id (tid : N) (ps : list part) : N :=
  match ps with
  | [] => tid
  | PId v :: r => last_id v r
  | _ :: r => last_id tid r
  end.

Fixpoint chunks_of (ps : list part) : list (list byte * list byte) :=
  match ps with
  | [] => []
  | PChunk raw p :: r => (raw, p) :: chunks_of r
  | _ :: r => chunks_of r
  end.

Definition payload_of (cs : list (list byte * list byte)) : list byte := concat (map snd cs).

(* what the Go [message] slice holds after the chunks [cs] (cs non-empty) *)
Definition stored (wl : bool) (cs : list (list byte * list byte)) : list byte :=
  if wl then match cs with [(raw, _)] => raw | _ => enc_bytes (payload_of cs) end
  else payload_of cs.

Definition item_message (wl : bool) (cs : list (list byte * list byte)) : list byte :=
  match cs with
  | [] => if wl then enc_varint 0 else []
  | _ => stored wl cs
  end.

Definition msg_state (wl : bool) (acc : list (list byte * list byte)) (msg : option (list byte)) : Prop :=
  match acc with [] => msg = None | _ => msg = Some (stored wl acc) end.

Lemma payload_of_app a b : payload_of (a ++ b) = payload_of a ++ payload_of b.
Proof. unfold payload_of. now rewrite map_app, concat_app. Qed.

Lemma stored_true_dec_varint acc :
  acc <> [] -> Forall (fun c => lp (fst c) (snd c)) acc ->
  N.of_nat (length (payload_of acc)) < 2^64 ->
  dec_varint (stored true acc) = Ok (N.of_nat (length (payload_of acc)), payload_of acc).
Proof.
  intros Hne Hlp Hlen. unfold stored.
  destruct acc as [|[raw p] [|c2 r]]; [congruence| |].
  - inversion Hlp; subst. cbn [fst snd] in *.
    unfold payload_of. cbn [map concat snd]. rewrite app_nil_r.
    now apply lp_dec_varint.
  - unfold enc_bytes. apply varint_roundtrip. exact Hlen.
Qed.

Lemma stored_nonempty_true acc :
  acc <> [] -> Forall (fun c => lp (fst c) (snd c)) acc -> stored true acc <> [].
Proof.
  intros Hne Hlp. unfold stored.
  destruct acc as [|[raw p] [|c2 r]]; [congruence| |].
  - inversion Hlp; subst. cbn [fst snd] in *. eapply lp_nonempty; eauto.
  - unfold enc_bytes. intros C. apply app_eq_nil in C. destruct C as [C _].
    now apply enc_varint_nonempty in C.
Qed.

Lemma payload_of_single raw p : payload_of [(raw, p)] = p.
Proof. unfold payload_of. cbn [map concat snd]. now rewrite app_nil_r. Qed.

Lemma stored_true_snoc c acc x :
  stored true ((c :: acc) ++ [x]) = enc_bytes (payload_of (c :: acc) ++ snd x).
Proof.
  unfold stored. cbn [app]. destruct c as [rc pc].
  destruct (acc ++ [x]) as [|c2 r2] eqn:E; [destruct acc; discriminate|].
  rewrite <- E. change ((rc, pc) :: acc ++ [x]) with (((rc, pc) :: acc) ++ [x]).
  rewrite payload_of_app. destruct x as [raw p]. rewrite payload_of_single. reflexivity.
Qed.

Lemma stored_false_snoc acc x : stored false (acc ++ [x]) = payload_of acc ++ snd x.
Proof. unfold stored. rewrite payload_of_app. destruct x as [raw p]. rewrite payload_of_single. reflexivity. Qed.

Lemma msg_state_nonempty wl l : l <> [] -> msg_state wl l (Some (stored wl l)).
Proof. unfold msg_state. destruct l; [congruence|reflexivity]. Qed.

Lemma special_false num typ :
  special num typ = false ->
  (num =? field_item) && (typ =? 4) = false /\
  (num =? field_type_id) && (typ =? 0) = false /\
  (num =? field_message) && (typ =? 2) = false.
Proof.
  unfold special, field_item, field_type_id, field_message. intros H.
  apply orb_false_iff in H. destruct H as [H H3]. apply orb_false_iff in H. destruct H as [H1 H2].
  auto.
Qed.

Lemma item_loop_parts (wl : bool) : forall parts g tid acc msg rest,
  (length parts < length g)%nat ->
  Forall valid_part parts ->
  Forall (fun c => lp (fst c) (snd c)) acc ->
  msg_state wl acc msg ->
  N.of_nat (length (payload_of (acc ++ chunks_of parts))) < 2^64 ->
  item_loop wl g (flat_map render_part parts ++ enc_tag 1 4 ++ rest) tid msg
  = MOk (last_id tid parts, item_message wl (acc ++ chunks_of parts), rest).
Proof.
  induction parts as [|x parts IH]; intros g tid acc msg rest Hg Hv Hacc Hst Hlen.
  - (* end of item *)
    destruct g as [|g0 g]; [cbn [length] in Hg; lia|].
    cbn [flat_map app item_loop].
    rewrite dec_tag_enc_tag by (unfold valid_num; lia).
    unfold field_item. change ((1 =? 1) && (4 =? 4)) with true. cbv iota.
    cbn [last_id chunks_of]. rewrite app_nil_r in *.
    f_equal. f_equal. f_equal.
    unfold msg_state in Hst. unfold item_message, finish_msg.
    destruct acc as [|c acc]; [subst msg; reflexivity|].
    subst msg. destruct wl; [|reflexivity].
    cbn [andb].
    destruct (Nat.eqb (length (stored true (c :: acc))) 0) eqn:E; [|reflexivity].
    apply Nat.eqb_eq in E. apply length_zero_iff_nil in E.
    exfalso. revert E. apply stored_nonempty_true; [discriminate|exact Hacc].
  - destruct g as [|g0 g]; [cbn [length] in Hg; lia|].
    cbn [length] in Hg. inversion Hv as [|? ? Hx Hv']; subst.
    cbn [flat_map]. rewrite <- !app_assoc.
    destruct x as [v|raw p|num typ raw]; cbn [render_part valid_part] in *.
    + (* type_id *)
      rewrite <- app_assoc. cbn [item_loop].
      rewrite dec_tag_enc_tag by (unfold valid_num; lia).
      unfold field_item, field_type_id.
      change ((2 =? 1) && (0 =? 4)) with false. change ((2 =? 2) && (0 =? 0)) with true. cbv iota.
      unfold max_int32 in Hx.
      rewrite varint_roundtrip by (change (2^64) with 18446744073709551616; lia).
      unfold max_int32.
      replace ((v <? 1) || (2147483647 <? v)) with false by lia.
      cbn [last_id chunks_of].
      apply IH; auto. lia.
    + (* message chunk *)
      rewrite <- app_assoc. cbn [item_loop].
      rewrite dec_tag_enc_tag by (unfold valid_num; lia).
      unfold field_item, field_type_id, field_message.
      change ((3 =? 1) && (2 =? 4)) with false. change ((3 =? 2) && (2 =? 0)) with false.
      change ((3 =? 3) && (2 =? 2)) with true. cbv iota.
      rewrite Hx. rewrite firstn_consumed.
      cbn [last_id chunks_of] in *.
      assert (Hacc' : Forall (fun c => lp (fst c) (snd c)) (acc ++ [(raw, p)])).
      { apply Forall_app. split; [exact Hacc|]. constructor; [exact Hx|constructor]. }
      replace (acc ++ (raw, p) :: chunks_of parts) with ((acc ++ [(raw, p)]) ++ chunks_of parts) in *
        by (rewrite <- app_assoc; reflexivity).
      assert (Hlen1 : N.of_nat (length (payload_of (acc ++ [(raw, p)]))) < 2^64).
      { rewrite payload_of_app, app_length in Hlen. lia. }
      unfold msg_state in Hst.
      destruct acc as [|c acc].
      * subst msg. cbn [add_chunk].
        apply IH; auto; [lia|].
        unfold msg_state. cbn [app]. f_equal. unfold stored.
        destruct wl; [reflexivity|]. unfold payload_of. cbn [map concat snd]. now rewrite app_nil_r.
      * subst msg. cbn [add_chunk].
        assert (Hne : (c :: acc) ++ [(raw, p)] <> []) by discriminate.
        destruct wl.
        -- rewrite stored_true_dec_varint; [|discriminate|exact Hacc|].
           2:{ rewrite payload_of_app, app_length in Hlen1. lia. }
           apply IH; auto; [lia|].
           rewrite <- app_length.
           change (enc_varint (N.of_nat (length (payload_of (c :: acc) ++ p))) ++ payload_of (c :: acc) ++ p)
             with (enc_bytes (payload_of (c :: acc) ++ snd (raw, p))).
           rewrite <- stored_true_snoc. now apply msg_state_nonempty.
        -- apply IH; auto; [lia|].
           change (stored false (c :: acc) ++ p) with (payload_of (c :: acc) ++ snd (raw, p)).
           rewrite <- stored_false_snoc. now apply msg_state_nonempty.
    + (* other subfield: skipped *)
      destruct Hx as (Hn & Ht & Hsp & Hpv).
      rewrite <- app_assoc. cbn [item_loop].
      rewrite dec_tag_enc_tag by assumption.
      apply special_false in Hsp. destruct Hsp as (S1 & S2 & S3).
      rewrite S1, S2, S3.
      destruct (Hpv (flat_map render_part parts ++ enc_tag 1 4 ++ rest)) as [v0 Hv0].
      rewrite Hv0.
      cbn [last_id chunks_of].
      apply IH; auto. lia.
Qed.

Lemma render_part_nonempty x : render_part x <> [].
Proof.
  destruct x; cbn [render_part]; intros C; apply app_eq_nil in C; destruct C as [C _];
    unfold enc_tag in C; now apply enc_varint_nonempty in C.
Qed.

Lemma render_parts_length parts : (length parts <= length (flat_map render_part parts))%nat.
Proof.
  induction parts as [|x r IH]; [reflexivity|].
  cbn [flat_map length]. rewrite app_length.
  pose proof (render_part_nonempty x). destruct (render_part x); [congruence|]. cbn [length]. lia.
Qed.

(* The item parser on ANY arrangement of well-formed subfields: the last type_id
   wins (0 when absent), message chunks are concatenated in order, everything
   else is skipped. *)
Theorem consume_item_parts wl parts rest :
  Forall valid_part parts ->
  N.of_nat (length (payload_of (chunks_of parts))) < 2^64 ->
  consume_item wl (flat_map render_part parts ++ enc_tag 1 4 ++ rest)
  = MOk (last_id 0 parts, item_message wl (chunks_of parts), rest).
Proof.
  intros Hv Hlen. unfold consume_item.
  apply (item_loop_parts wl parts _ 0 [] None rest); auto.
  - cbn [length]. rewrite app_length. pose proof (render_parts_length parts). lia.
  - reflexivity.
Qed.

(* the body of an item as AppendFieldStart / marshal / AppendFieldEnd write it, after the start tag *)
Definition item_body (id : N) (p : list byte) : list byte :=
  enc_tag 2 0 ++ enc_varint id ++ enc_tag 3 2 ++ enc_bytes p ++ enc_tag 1 4.

Lemma append_item_body id p : append_item id p = enc_tag 1 3 ++ item_body id p.
Proof.
  unfold append_item, append_field_start, append_field_end, item_body, field_item, field_type_id, field_message.
  now rewrite <- !app_assoc.
Qed.

Definition valid_id (id : N) : Prop := 1 <= id <= max_int32.

Lemma item_body_roundtrip wl id p rest :
  valid_id id -> N.of_nat (length p) < 2^64 ->
  consume_item wl (item_body id p ++ rest) = MOk (id, if wl then enc_bytes p else p, rest).
Proof.
  intros Hid Hp.
  pose proof (consume_item_parts wl [PId id; PChunk (enc_bytes p) p] rest) as H.
  cbn [flat_map render_part last_id chunks_of app] in H.
  unfold item_body. rewrite <- !app_assoc in *. cbn [app] in H.
  rewrite H.
  - unfold item_message, stored. rewrite payload_of_single. destruct wl; reflexivity.
  - constructor; [exact Hid|]. constructor; [|constructor]. now apply lp_enc_bytes.
  - now rewrite payload_of_single.
Qed.

(* either order *)
Lemma item_body_swapped wl id p rest :
  valid_id id -> N.of_nat (length p) < 2^64 ->
  consume_item wl (enc_tag 3 2 ++ enc_bytes p ++ enc_tag 2 0 ++ enc_varint id ++ enc_tag 1 4 ++ rest)
  = consume_item wl (item_body id p ++ rest).
Proof.
  intros Hid Hp. rewrite item_body_roundtrip by assumption.
  pose proof (consume_item_parts wl [PChunk (enc_bytes p) p; PId id] rest) as H.
  cbn [flat_map render_part last_id chunks_of app] in H.
  rewrite <- !app_assoc in *. cbn [app] in H.
  rewrite H.
  - unfold item_message, stored. rewrite payload_of_single. destruct wl; reflexivity.
  - constructor; [now apply lp_enc_bytes|]. constructor; [exact Hid|constructor].
  - now rewrite payload_of_single.
Qed.

(* ================================================================== *)
(* 2. wantLen = true and wantLen = false agree (on every input)        *)
(* ================================================================== *)

Lemma dec_bytes_raw r m r' :
  dec_bytes r = Ok (m, r') ->
  lp (firstn (length r - length r') r) m /\ r = firstn (length r - length r') r ++ r'.
Proof.
  intros H. apply dec_bytes_prefix in H. destruct H as (pre & -> & _ & _ & Hy).
  replace (pre ++ m ++ r') with ((pre ++ m) ++ r') by now rewrite app_assoc.
  rewrite firstn_consumed. split; [|reflexivity].
  intros y. rewrite <- app_assoc. apply Hy.
Qed.

Definition msg_rel (mt mf : option (list byte)) : Prop :=
  match mt, mf with
  | None, None => True
  | Some old, Some p => lp old p
  | _, _ => False
  end.

Lemma lp_length raw p : lp raw p -> (length p <= length raw)%nat.
Proof.
  intros H. specialize (H []). rewrite app_nil_r in H.
  apply dec_bytes_prefix in H. destruct H as (pre & E & _). rewrite app_nil_r in E. subst.
  rewrite app_length. lia.
Qed.

Lemma item_loop_sim : forall g bs tid mt mf,
  (length bs < length g)%nat ->
  msg_rel mt mf ->
  N.of_nat (length (match mf with Some p => p | None => [] end) + length bs) < 2^64 ->
  match item_loop false g bs tid mf with
  | MOk (id, p, r) => exists v, item_loop true g bs tid mt = MOk (id, v, r) /\ lp v p /\ id <= max_int32
                                /\ (length r < length bs)%nat
  | MErr e => item_loop true g bs tid mt = MErr e /\ e <> MFuel /\ e <> MImpossible
  end \/ max_int32 < tid.
Proof.
  induction g as [|g0 g IH]; intros bs tid mt mf Hg Hrel Hlen; [cbn [length] in Hg; lia|].
  destruct (N.ltb_spec max_int32 tid) as [Hbig|Htid]; [right; exact Hbig|]. left.
  cbn [length] in Hg. cbn [item_loop].
  destruct (dec_tag bs) as [[[num typ] r]|e] eqn:Et; [|split; [reflexivity|split; discriminate]].
  pose proof (dec_tag_len _ _ _ _ Et) as Hr.
  destruct ((num =? field_item) && (typ =? 4)) eqn:C1.
  { (* end group *)
    unfold msg_rel in Hrel. destruct mt as [old|], mf as [p|]; try contradiction.
    - exists old. split.
      + cbn [finish_msg andb].
        destruct (Nat.eqb (length old) 0) eqn:E; [|reflexivity].
        apply Nat.eqb_eq in E. apply length_zero_iff_nil in E. apply lp_nonempty in Hrel. congruence.
      + cbn [finish_msg]. auto.
    - exists (enc_varint 0). cbn [finish_msg]. split; [reflexivity|]. split; [|auto].
      change (enc_varint 0) with (enc_bytes []). apply lp_enc_bytes. cbn [length]. lia. }
  destruct ((num =? field_type_id) && (typ =? 0)) eqn:C2.
  { destruct (dec_varint r) as [[v r']|e] eqn:Ev; [|split; [reflexivity|split; discriminate]].
    destruct ((v <? 1) || (max_int32 <? v)) eqn:Cv; [split; [reflexivity|split; discriminate]|].
    pose proof (dec_varint_len _ _ _ Ev) as Hr'.
    assert (Hlen' : N.of_nat (length (match mf with Some p => p | None => [] end) + length r') < 2^64) by lia.
    destruct (IH r' v mt mf ltac:(lia) Hrel Hlen') as [H|H]; [|lia].
    destruct (item_loop false g r' v mf) as [[[id p] r2]|e].
    + destruct H as (v0 & H1 & H2 & H3 & H4). exists v0. repeat split; auto. lia.
    + exact H. }
  destruct ((num =? field_message) && (typ =? 2)) eqn:C3.
  { destruct (dec_bytes r) as [[m r']|e] eqn:Eb; [|split; [reflexivity|split; discriminate]].
    pose proof (dec_bytes_len _ _ _ Eb) as Hr'.
    pose proof (dec_bytes_raw _ _ _ Eb) as [Hlp Hsplit].
    set (raw := firstn (length r - length r') r) in *.
    assert (Hm : (length m + length r' <= length r)%nat).
    { pose proof (f_equal (@length _) Hsplit) as HL. rewrite app_length in HL.
      apply lp_length in Hlp. lia. }
    unfold msg_rel in Hrel. destruct mt as [old|], mf as [p|]; try contradiction; cbn [add_chunk].
    - rewrite (lp_dec_varint _ _ Hrel).
      assert (Hrel' : msg_rel (Some (enc_varint (N.of_nat (length p + length m)) ++ p ++ m)) (Some (p ++ m))).
      { unfold msg_rel. rewrite <- app_length.
        change (enc_varint (N.of_nat (length (p ++ m))) ++ p ++ m) with (enc_bytes (p ++ m)).
        apply lp_enc_bytes. rewrite app_length. lia. }
      assert (Hlen' : N.of_nat (length (p ++ m) + length r') < 2^64) by (rewrite app_length; lia).
      destruct (IH r' tid _ _ ltac:(lia) Hrel' Hlen') as [H|H]; [|lia].
      destruct (item_loop false g r' tid (Some (p ++ m))) as [[[id q] r2]|e].
      + destruct H as (v0 & H1 & H2 & H3 & H4). exists v0. repeat split; auto. lia.
      + exact H.
    - assert (Hrel' : msg_rel (Some raw) (Some m)) by exact Hlp.
      assert (Hlen' : N.of_nat (length m + length r') < 2^64) by lia.
      destruct (IH r' tid _ _ ltac:(lia) Hrel' Hlen') as [H|H]; [|lia].
      destruct (item_loop false g r' tid (Some m)) as [[[id q] r2]|e].
      + destruct H as (v0 & H1 & H2 & H3 & H4). exists v0. repeat split; auto. lia.
      + exact H. }
  destruct (parse_val default_dep num typ r) as [[v0 r']|e] eqn:Ep; [|split; [reflexivity|split; discriminate]].
  pose proof (parse_val_len _ _ _ _ _ _ Ep) as Hr'.
  assert (Hlen' : N.of_nat (length (match mf with Some p => p | None => [] end) + length r') < 2^64) by lia.
  destruct (IH r' tid mt mf ltac:(lia) Hrel Hlen') as [H|H]; [|lia].
  destruct (item_loop false g r' tid mf) as [[[id p] r2]|e].
  + destruct H as (v1 & H1 & H2 & H3 & H4). exists v1. repeat split; auto. lia.
  + exact H.
Qed.

(* Both variants of ConsumeFieldValue accept exactly the same inputs, fail with
   the same error, return the same type id and rest, and the wantLen message is
   a length-delimited spelling of the plain one.  Fuel never runs out and the
   "impossible" state (a stored message that does not start with a varint) is
   never reached. *)
Theorem consume_item_sim bs :
  N.of_nat (length bs) < 2^64 ->
  match consume_item false bs with
  | MOk (id, p, r) => exists v, consume_item true bs = MOk (id, v, r) /\ lp v p /\ id <= max_int32
                                /\ (length r < length bs)%nat
  | MErr e => consume_item true bs = MErr e /\ e <> MFuel /\ e <> MImpossible
  end.
Proof.
  intros Hlen. unfold consume_item.
  destruct (item_loop_sim (x00 :: bs) bs 0 None None) as [H|H].
  - cbn [length]. lia.
  - exact I.
  - cbn [length]. lia.
  - exact H.
  - unfold max_int32 in H. lia.
Qed.
