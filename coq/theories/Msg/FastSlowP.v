(* FastSlowP — proofs for C08: the two emission-order computations yield the same list, and
   normalising unknown-field tags maps what the reflection decoder retains to what the
   table-driven decoder retains. *)
From Coq Require Import List Arith NArith ZArith Lia Bool Permutation Sorting.Sorted.
From Coq Require Import ZifyBool ZifyNat ZifyN.
From PB Require Import Base.PBytes Wire.WireModel Wire.WireGrammar Wire.VarintP Wire.ScanP.
From PB Require Import Msg.MsgSchema Msg.MsgValue Msg.MsgEnc Msg.MsgDec Msg.MsgWireP.
From PB Require Import Msg.DetModel Msg.DetP Msg.FastSlowModel.
Import ListNotations.
Open Scope N_scope.

(* ------------------------------------------------------------------ emission order *)
Definition fsm_perm_oracle {A} (f : list A -> list A) : Prop := forall l, Permutation (f l) l.

(* the populated fields: pairwise distinct valid numbers; oneof indexes are small (there are fewer
   oneofs than fields) *)
Definition fsm_fields_ok (present : list fdesc) : Prop :=
  NoDup (map f_num present) /\
  Forall (fun fd => f_num fd < 536870912 /\ match f_oneof fd with Some i => i < 536870912 | None => True end) present.

Lemma fsm_legacy_key_inj a b :
  f_num a < 536870912 -> f_num b < 536870912 ->
  msg_legacy_key a = msg_legacy_key b -> f_num a = f_num b.
Proof.
  unfold msg_legacy_key. destruct (f_ext a), (f_ext b), (f_oneof a) as [i|], (f_oneof b) as [j|]; intros; nia.
Qed.

Lemma fsm_legacy_pairwise l :
  fsm_fields_ok l -> det_pairwise fsm_lt_legacy l.
Proof.
  intros [Hn Hf]. induction l as [|a r IH]; cbn [det_pairwise]; [exact I|].
  inversion Hn as [|? ? Ha Hr]; subst. inversion Hf as [|? ? [Ha1 _] Hfr]; subst.
  split; [|now apply IH].
  intros b Hb. unfold fsm_lt_legacy. rewrite Forall_forall in Hfr. destruct (Hfr _ Hb) as [Hb1 _].
  assert (msg_legacy_key a <> msg_legacy_key b) as Hne.
  { intros E. apply Ha. rewrite (fsm_legacy_key_inj _ _ Ha1 Hb1 E). now apply in_map. }
  destruct (msg_legacy_key a <? msg_legacy_key b) eqn:E; [now left|right]. lia.
Qed.

Lemma fsm_num_pairwise l : NoDup (map f_num l) -> det_pairwise fsm_lt_num l.
Proof.
  induction l as [|a r IH]; cbn [det_pairwise map]; intros Hn; [exact I|].
  inversion Hn as [|? ? Ha Hr]; subst. split; [|now apply IH].
  intros b Hb. unfold fsm_lt_num.
  assert (f_num a <> f_num b) as Hne by (intros E; apply Ha; rewrite E; now apply in_map).
  destruct (f_num a <? f_num b) eqn:E; [now left|right]. lia.
Qed.

Lemma fsm_sorted_legacy l : fsm_fields_ok l -> StronglySorted (fun a b => fsm_lt_legacy a b = true) (det_sort fsm_lt_legacy l).
Proof.
  intros H. apply (det_sort_sorted fsm_lt_legacy (fun _ => True)).
  - intros a b c _ _ _. unfold fsm_lt_legacy. lia.
  - apply Forall_forall. trivial.
  - now apply fsm_legacy_pairwise.
Qed.

Lemma fsm_sorted_num l : NoDup (map f_num l) -> StronglySorted (fun a b => fsm_lt_num a b = true) (det_sort fsm_lt_num l).
Proof.
  intros H. apply (det_sort_sorted fsm_lt_num (fun _ => True)).
  - intros a b c _ _ _. unfold fsm_lt_num. lia.
  - apply Forall_forall. trivial.
  - now apply fsm_num_pairwise.
Qed.

Lemma fsm_sorted_weaken {A} (R R' : A -> A -> Prop) (P : A -> Prop) l :
  Forall P l -> (forall a b, P a -> P b -> R a b -> R' a b) -> StronglySorted R l -> StronglySorted R' l.
Proof.
  intros HP HR S. induction S as [|a r S IH F]; [constructor|].
  inversion HP as [|? ? Pa Pr]; subst. constructor; [now apply IH|].
  rewrite Forall_forall in *. intros b Hb. apply HR; [exact Pa|now apply Pr|now apply F].
Qed.

Lemma fsm_sorted_app {A} (R : A -> A -> Prop) l1 l2 :
  StronglySorted R l1 -> StronglySorted R l2 -> (forall a b, In a l1 -> In b l2 -> R a b) ->
  StronglySorted R (l1 ++ l2).
Proof.
  intros S1 S2 H. induction S1 as [|a r S1 IH F]; cbn [app]; [exact S2|].
  constructor.
  - apply IH. intros x y Hx Hy. apply H; [now right|exact Hy].
  - apply Forall_app. split; [exact F|]. apply Forall_forall. intros y Hy. apply H; [now left|exact Hy].
Qed.

Lemma fsm_nodup_filter (f : fdesc -> bool) l : NoDup (map f_num l) -> NoDup (map f_num (filter f l)).
Proof.
  induction l as [|a r IH]; cbn [filter map]; intros H; [constructor|].
  inversion H as [|? ? Ha Hr]; subst. destruct (f a); [|now apply IH].
  cbn [map]. constructor; [|now apply IH]. intros Hin. apply Ha.
  apply in_map_iff in Hin. destruct Hin as [x [E Hx]]. apply filter_In in Hx. rewrite <- E. apply in_map. tauto.
Qed.

Lemma fsm_filter_partition (l : list fdesc) :
  Permutation (filter f_ext l ++ filter fsm_is_regular l) l.
Proof.
  induction l as [|a r IH]; cbn [filter]; [constructor|]. unfold fsm_is_regular at 1.
  destruct (f_ext a); cbn [negb app].
  - now constructor.
  - apply Permutation_sym, Permutation_cons_app, Permutation_sym. exact IH.
Qed.

Theorem fsm_order_equal :
  forall (has_oneofs : bool) (rx r : list fdesc -> list fdesc) (present : list fdesc),
    fsm_perm_oracle rx -> fsm_perm_oracle r -> fsm_fields_ok present ->
    (has_oneofs = false -> Forall (fun fd => f_ext fd = true \/ f_oneof fd = None) present) ->
    fsm_order_fast has_oneofs rx present = fsm_order_slow r present.
Proof.
  intros ho rx r l Hrx Hr Hok Hone. destruct Hok as [Hn Hf].
  set (lt := fun a b => fsm_lt_legacy a b = true).
  apply (det_sorted_unique lt).
  - intros a b. unfold lt, fsm_lt_legacy. lia.
  - (* the fast list is sorted w.r.t. the legacy key *)
    unfold fsm_order_fast. apply fsm_sorted_app.
    + (* extensions: sorted by number = sorted by key *)
      assert (Permutation (rx (filter f_ext l)) (filter f_ext l)) as P by apply Hrx.
      assert (NoDup (map f_num (rx (filter f_ext l)))) as N1.
      { eapply Permutation_NoDup; [apply Permutation_map, Permutation_sym; exact P|now apply fsm_nodup_filter]. }
      eapply (fsm_sorted_weaken _ lt (fun fd => f_ext fd = true)); [| |apply fsm_sorted_num; exact N1].
      * apply Forall_forall. intros x Hx.
        apply (Permutation_in _ (det_sort_perm fsm_lt_num _)) in Hx.
        apply (Permutation_in _ P) in Hx. apply filter_In in Hx. tauto.
      * intros a b Ea Eb. unfold lt, fsm_lt_legacy, fsm_lt_num, msg_legacy_key. now rewrite Ea, Eb.
    + destruct ho.
      * apply fsm_sorted_legacy. split; [now apply fsm_nodup_filter|].
        apply Forall_forall. intros x Hx. apply filter_In in Hx. rewrite Forall_forall in Hf. now apply Hf.
      * specialize (Hone eq_refl).
        eapply (fsm_sorted_weaken _ lt (fun fd => f_ext fd = false /\ f_oneof fd = None));
          [| |apply fsm_sorted_num; now apply fsm_nodup_filter].
        -- apply Forall_forall. intros x Hx.
           apply (Permutation_in _ (det_sort_perm fsm_lt_num _)) in Hx. apply filter_In in Hx.
           destruct Hx as [Hx Hreg]. unfold fsm_is_regular in Hreg. apply negb_true_iff in Hreg.
           rewrite Forall_forall in Hone. destruct (Hone _ Hx) as [E|E]; [congruence|tauto].
        -- intros a b [Ea1 Ea2] [Eb1 Eb2]. unfold lt, fsm_lt_legacy, fsm_lt_num, msg_legacy_key.
           rewrite Ea1, Ea2, Eb1, Eb2. lia.
    + (* every extension precedes every regular field *)
      intros a b Ha Hb. unfold lt, fsm_lt_legacy, msg_legacy_key.
      apply (Permutation_in _ (det_sort_perm fsm_lt_num _)) in Ha. apply (Permutation_in _ (Hrx _)) in Ha.
      apply filter_In in Ha. destruct Ha as [Ha Ea]. rewrite Ea.
      assert (In b (filter fsm_is_regular l)) as Hb'.
      { destruct ho; eapply Permutation_in; try exact Hb; apply det_sort_perm. }
      apply filter_In in Hb'. destruct Hb' as [Hb' Eb]. unfold fsm_is_regular in Eb. apply negb_true_iff in Eb. rewrite Eb.
      rewrite Forall_forall in Hf. destruct (Hf _ Ha) as [Ha1 _]. destruct (f_oneof b); lia.
  - unfold fsm_order_slow. apply fsm_sorted_legacy. split.
    + eapply Permutation_NoDup; [apply Permutation_map, Permutation_sym, Hr|exact Hn].
    + apply Forall_forall. intros x Hx. apply (Permutation_in _ (Hr _)) in Hx. rewrite Forall_forall in Hf. now apply Hf.
  - unfold fsm_order_fast, fsm_order_slow.
    assert (Permutation (if ho then det_sort fsm_lt_legacy (filter fsm_is_regular l) else det_sort fsm_lt_num (filter fsm_is_regular l))
                        (filter fsm_is_regular l)) as P2 by (destruct ho; apply det_sort_perm).
    apply Permutation_trans with (l' := l).
    + apply Permutation_trans with (l' := filter f_ext l ++ filter fsm_is_regular l); [|apply fsm_filter_partition].
      apply Permutation_app; [|exact P2].
      apply Permutation_trans with (l' := rx (filter f_ext l)); [apply det_sort_perm|apply Hrx].
    + apply Permutation_sym. apply Permutation_trans with (l' := r l); [apply det_sort_perm|apply Hr].
Qed.

(* hence the same bytes for every per-field encoder *)
Theorem fsm_det_bytes_equal :
  forall (has_oneofs : bool) (rx r : list fdesc -> list fdesc) (present : list fdesc) (enc : fdesc -> list byte),
    fsm_perm_oracle rx -> fsm_perm_oracle r -> fsm_fields_ok present ->
    (has_oneofs = false -> Forall (fun fd => f_ext fd = true \/ f_oneof fd = None) present) ->
    fsm_encode_with (fsm_order_fast has_oneofs rx present) enc = fsm_encode_with (fsm_order_slow r present) enc.
Proof. intros. unfold fsm_encode_with. now rewrite (fsm_order_equal has_oneofs rx r present). Qed.

(* ------------------------------------------------------------------ unknown-field tags *)
Definition fsm_chunk_ok (c : fsm_chunk) : Prop :=
  is_tag (fc_rawtag c) (fc_num c) (fc_typ c) /\ wf_value default_dep (fc_num c) (fc_typ c) (fc_val c).

Lemma fsm_norm_chunks : forall cs g,
  Forall fsm_chunk_ok cs -> (length (fsm_flat_raw cs) < length g)%nat ->
  fsm_norm g (fsm_flat_raw cs) = fsm_flat_min cs.
Proof.
  induction cs as [|c r IH]; intros g Hc Hg.
  - destruct g; reflexivity.
  - inversion Hc as [|? ? [Ht Hv] Hr]; subst. destruct g as [|g0 g']; [cbn [length] in Hg; lia|].
    unfold fsm_flat_raw, fsm_flat_min in *. cbn [map concat] in *.
    set (rest := concat (map (fun c0 => fc_rawtag c0 ++ fc_val c0) r)) in *.
    pose proof (is_tag_len _ _ _ Ht) as Hl.
    assert (dec_tag ((fc_rawtag c ++ fc_val c) ++ rest) = Ok (fc_num c, fc_typ c, fc_val c ++ rest)) as Ed.
    { rewrite <- app_assoc. now apply dec_tag_complete. }
    destruct (parse_val_complete _ _ _ _ rest Hv) as [w Ep].
    destruct (fc_rawtag c) as [|b0 t0] eqn:Et; [cbn [length] in Hl; lia|].
    cbn [fsm_norm app]. change (b0 :: (t0 ++ fc_val c) ++ rest) with (((b0 :: t0) ++ fc_val c) ++ rest).
    rewrite Ed, Ep. rewrite app_length, Nat.add_sub, firstn_app, Nat.sub_diag, firstn_all, firstn_O, app_nil_r.
    rewrite <- app_assoc. f_equal. f_equal. apply IH; [exact Hr|].
    rewrite !app_length in Hg. cbn [length] in Hg. fold rest. lia.
Qed.

(* what the reflection decoder retains, normalised, is what the table-driven decoder retains *)
Theorem fsm_normalize_raw_to_min cs :
  Forall fsm_chunk_ok cs -> fsm_normalize_unknown_tags (fsm_flat_raw cs) = fsm_flat_min cs.
Proof. intros H. unfold fsm_normalize_unknown_tags. apply fsm_norm_chunks; [exact H|cbn [length]; lia]. Qed.

Lemma fsm_enc_tag_is_tag num typ : 1 <= num -> num <= 2147483647 -> typ < 8 -> is_tag (enc_tag num typ) num typ.
Proof.
  intros H1 H2 H3. pose proof (msgw_dec_tag_enc num typ [] H1 H2 H3) as E. rewrite app_nil_r in E.
  apply dec_tag_sound in E. destruct E as (p & Ep & Hp). rewrite app_nil_r in Ep. now rewrite Ep.
Qed.

Lemma fsm_chunk_ok_num c : fsm_chunk_ok c -> 1 <= fc_num c /\ fc_num c <= 2147483647 /\ fc_typ c < 8.
Proof. intros [(_ & _ & Ht & Hlo & Hhi) _]. repeat split; assumption. Qed.

(* normalisation is idempotent, and the identity on what the table-driven decoder retains *)
Theorem fsm_normalize_min_fixed cs :
  Forall fsm_chunk_ok cs -> fsm_normalize_unknown_tags (fsm_flat_min cs) = fsm_flat_min cs.
Proof.
  intros H.
  set (cs' := map (fun c => mkChunk (fc_num c) (fc_typ c) (enc_tag (fc_num c) (fc_typ c)) (fc_val c)) cs).
  assert (fsm_flat_min cs = fsm_flat_raw cs') as E1.
  { unfold fsm_flat_min, fsm_flat_raw, cs'. now rewrite map_map. }
  assert (fsm_flat_min cs' = fsm_flat_min cs) as E2.
  { unfold fsm_flat_min, cs'. now rewrite map_map. }
  rewrite E1 at 1. rewrite <- E2. apply fsm_normalize_raw_to_min.
  unfold cs'. apply Forall_forall. intros c Hc. apply in_map_iff in Hc. destruct Hc as [c0 [<- Hc0]].
  rewrite Forall_forall in H. specialize (H _ Hc0). destruct (fsm_chunk_ok_num _ H) as (A & B & C).
  destruct H as [_ Hv]. split; cbn [fc_rawtag fc_num fc_typ fc_val]; [now apply fsm_enc_tag_is_tag|exact Hv].
Qed.

Theorem fsm_normalize_idempotent cs :
  Forall fsm_chunk_ok cs ->
  fsm_normalize_unknown_tags (fsm_normalize_unknown_tags (fsm_flat_raw cs)) = fsm_normalize_unknown_tags (fsm_flat_raw cs).
Proof. intros H. rewrite (fsm_normalize_raw_to_min _ H). now apply fsm_normalize_min_fixed. Qed.

(* one decoding step: the bytes [msg_unknown] appends in the two modes are related by normalisation *)
Theorem fsm_unknown_step :
  forall bs num typ r acc acc_s acc_f rs rf,
    dec_tag bs = Ok (num, typ, r) ->
    msg_unknown (firstn (length bs - length r) bs) num typ r acc = DOk (acc_s, rs) ->
    msg_unknown (enc_tag num typ) num typ r acc = DOk (acc_f, rf) ->
    rs = rf /\ fst acc_s = fst acc_f /\
    exists chunk_s chunk_f,
      snd acc_s = snd acc ++ chunk_s /\ snd acc_f = snd acc ++ chunk_f /\
      fsm_normalize_unknown_tags chunk_s = chunk_f /\ fsm_normalize_unknown_tags chunk_f = chunk_f.
Proof.
  intros bs num typ r acc acc_s acc_f rs rf Hd Hs Hf. unfold msg_unknown in *.
  destruct (parse_val default_dep num typ r) as [[w r']|e] eqn:Ep; [|discriminate].
  inversion Hs; subst. inversion Hf; subst. cbn [fst snd]. split; [reflexivity|]. split; [reflexivity|].
  apply dec_tag_sound in Hd. destruct Hd as (p & -> & Ht).
  apply parse_val_sound in Ep. destruct Ep as (val & -> & Hv).
  rewrite !app_length, !Nat.add_sub, !firstn_app, !Nat.sub_diag, !firstn_all, !firstn_O, !app_nil_r.
  exists (p ++ val), (enc_tag num typ ++ val). split; [reflexivity|]. split; [reflexivity|].
  set (c := mkChunk num typ p val).
  assert (Forall fsm_chunk_ok [c]) as Hc by (constructor; [split; assumption|constructor]).
  pose proof (fsm_normalize_raw_to_min _ Hc) as E1. pose proof (fsm_normalize_min_fixed _ Hc) as E2.
  unfold fsm_flat_raw, fsm_flat_min, c in E1, E2. cbn [map concat fc_rawtag fc_val fc_num fc_typ] in E1, E2.
  repeat rewrite app_nil_r in E1. repeat rewrite app_nil_r in E2. split; [exact E1|exact E2].
Qed.

(* the two modes fail together on an unknown field *)
Theorem fsm_unknown_verdict :
  forall raw1 raw2 num typ r acc,
    (exists e, msg_unknown raw1 num typ r acc = DErr e) <-> (exists e, msg_unknown raw2 num typ r acc = DErr e).
Proof.
  intros. unfold msg_unknown. destruct (parse_val default_dep num typ r) as [[w r']|e].
  - split; intros [e H]; discriminate H.
  - split; intros _; exists DParse; reflexivity.
Qed.
