(* DetHistP — C05, second part: the sorted view of a well-formed concrete message does not depend
   on the iteration-order oracles, operation histories preserve well-formedness, deterministic
   bytes are a function of the abstract content, and the converse from C03. *)
From Coq Require Import List Arith NArith ZArith Lia Bool Permutation Sorting.Sorted.
From Coq Require Import ZifyBool ZifyNat ZifyN.
From PB Require Import Base.PBytes Wire.WireModel.
From PB Require Import Msg.MsgSchema Msg.MsgValue Msg.MsgEnc Msg.MsgDec Msg.MsgValid Msg.MsgSizeP Msg.MsgRoundP.
From PB Require Import Msg.DetModel Msg.DetP.
Import ListNotations.
Open Scope N_scope.

(* an iteration-order oracle returns a permutation of what it is given *)
Definition det_perm_oracle {A} (f : list A -> list A) : Prop := forall l, Permutation (f l) l.

Lemma det_id_oracle {A} : det_perm_oracle (@det_id (list A)).
Proof. intros l. reflexivity. Qed.

(* ------------------------------------------------------------------ lists *)
Lemma det_perm_filter {A} (f : A -> bool) l l' : Permutation l l' -> Permutation (filter f l) (filter f l').
Proof.
  induction 1 as [|x l l' P IH|x y l|l l' l'' P1 IH1 P2 IH2]; cbn [filter].
  - constructor.
  - destruct (f x); [now constructor|exact IH].
  - destruct (f x), (f y); try reflexivity. apply perm_swap.
  - etransitivity; eassumption.
Qed.

Lemma det_nodup_n_spec l : det_nodup_n l = true <-> NoDup l.
Proof.
  induction l as [|x r IH]; cbn [det_nodup_n]; [split; [constructor|reflexivity]|].
  rewrite andb_true_iff, negb_true_iff, IH. split.
  - intros [H1 H2]. constructor; [|exact H2]. intros Hin.
    assert (existsb (N.eqb x) r = true) as E by (apply existsb_exists; exists x; split; [exact Hin|apply N.eqb_refl]).
    congruence.
  - intros H. inversion H as [|? ? Hn Hr]; subst. split; [|exact Hr].
    destruct (existsb (N.eqb x) r) eqn:E; [|reflexivity].
    apply existsb_exists in E. destruct E as [y [Hy E]]. apply N.eqb_eq in E. subst. contradiction.
Qed.

(* ------------------------------------------------------------------ field order *)
Lemma det_fields_pairwise (l : fields) :
  NoDup (map fst l) -> det_pairwise det_field_lt l.
Proof.
  induction l as [|p r IH]; cbn [det_pairwise map]; intros H; [exact I|].
  inversion H as [|? ? Hn Hr]; subst. split; [|now apply IH].
  intros q Hq. unfold det_field_lt.
  assert (fst p <> fst q) as Hne by (intros E; apply Hn; rewrite E; now apply in_map).
  destruct (fst p <? fst q) eqn:E1; [now left|right]. lia.
Qed.

Lemma det_sort_fields_perm (l l' : fields) :
  NoDup (map fst l) -> Permutation l l' -> det_sort det_field_lt l = det_sort det_field_lt l'.
Proof.
  intros Hn P.
  apply (det_sort_perm_eq det_field_lt (fun _ => True)).
  - intros a b c _ _ _. unfold det_field_lt. lia.
  - intros a b _ _. unfold det_field_lt. lia.
  - apply Forall_forall. trivial.
  - now apply det_fields_pairwise.
  - exact P.
Qed.

(* ------------------------------------------------------------------ entry order *)
Lemma det_entries_pairwise (l : list value) :
  forallb det_is_entry l = true -> det_nodup_keys l = true -> det_pairwise det_entry_lt l.
Proof.
  induction l as [|e r IH]; cbn [det_pairwise forallb det_nodup_keys]; intros He Hn; [exact I|].
  apply andb_true_iff in He. destruct He as [He Hr].
  destruct e as [s|fs u|k x]; try discriminate.
  apply andb_true_iff in Hn. destruct Hn as [Hk Hn]. split; [|now apply IH].
  intros q Hq.
  assert (det_is_entry q = true) as Hqe by (rewrite forallb_forall in Hr; now apply Hr).
  destruct q as [s|fs u|k' x']; try discriminate.
  unfold det_entry_lt, det_klt.
  destruct (det_kcmp k k') eqn:E.
  - exfalso. apply det_kcmp_eq in E. subst k'.
    apply negb_true_iff in Hk.
    assert (existsb (det_has_key k) r = true) as F.
    { apply existsb_exists. exists (VEntry k x'). split; [exact Hq|]. cbn [det_has_key]. now apply det_key_eqb_eq. }
    congruence.
  - now left.
  - right. rewrite det_kcmp_antisym, E. reflexivity.
Qed.

Lemma det_sort_entries_perm (l l' : list value) :
  forallb det_is_entry l = true -> det_nodup_keys l = true -> Permutation l l' ->
  det_sort det_entry_lt l = det_sort det_entry_lt l'.
Proof.
  intros He Hn P.
  apply (det_sort_perm_eq det_entry_lt (fun e => det_is_entry e = true)).
  - intros a b c Ha Hb Hc. destruct a, b, c; try discriminate. unfold det_entry_lt, det_klt.
    destruct (det_kcmp k k0) eqn:E1; try discriminate. destruct (det_kcmp k0 k1) eqn:E2; try discriminate.
    intros _ _. now rewrite (det_kcmp_trans _ _ _ E1 E2).
  - intros a b Ha Hb. destruct a, b; try discriminate. unfold det_entry_lt, det_klt.
    rewrite (det_kcmp_antisym k k0). destruct (det_kcmp k k0); cbn [CompOpp]; discriminate.
  - apply Forall_forall. rewrite forallb_forall in He. exact He.
  - now apply det_entries_pairwise.
  - exact P.
Qed.

(* ------------------------------------------------------------------ arrange does not depend on the oracles *)
Lemma det_arrange_entry_shape sorte pf pi e : det_is_entry (det_arrange sorte pf pi e) = det_is_entry e.
Proof. destruct e; reflexivity. Qed.

Lemma det_arrange_is_entries sorte pf pi l :
  forallb det_is_entry (map (det_arrange sorte pf pi) l) = forallb det_is_entry l.
Proof. induction l as [|e r IH]; cbn [map forallb]; [reflexivity|]. now rewrite det_arrange_entry_shape, IH. Qed.

Lemma det_arrange_has_key sorte pf pi k e : det_has_key k (det_arrange sorte pf pi e) = det_has_key k e.
Proof. destruct e; reflexivity. Qed.

Lemma det_arrange_existsb_key sorte pf pi k l :
  existsb (det_has_key k) (map (det_arrange sorte pf pi) l) = existsb (det_has_key k) l.
Proof.
  induction l as [|e r IH]; cbn [map existsb]; [reflexivity|].
  now rewrite det_arrange_has_key, IH.
Qed.

Lemma det_arrange_nodup_keys sorte pf pi l :
  det_nodup_keys (map (det_arrange sorte pf pi) l) = det_nodup_keys l.
Proof.
  induction l as [|e r IH]; cbn [map det_nodup_keys]; [reflexivity|].
  destruct e as [s|fs u|k x]; cbn [det_arrange]; try exact IH.
  now rewrite IH, det_arrange_existsb_key.
Qed.

Lemma det_is_map_spec vs : det_is_map vs = true -> forallb det_is_entry vs = true.
Proof. destruct vs; [discriminate|]. trivial. Qed.

Lemma det_shape_entries vs : det_shape vs = true -> forallb det_is_entry vs = true -> det_nodup_keys vs = true.
Proof. unfold det_shape. intros H E. now rewrite E in H. Qed.

Lemma det_wf_unfold fs u :
  det_wf (VMsg fs u) =
  det_nodup_n (map fst fs) && forallb (fun p => det_shape (snd p) && forallb det_wf (snd p)) fs.
Proof. reflexivity. Qed.

Lemma det_arrange_unfold sorte pf pi fs u :
  det_arrange sorte pf pi (VMsg fs u) =
  VMsg (det_sort det_field_lt
          (filter det_nonempty
             (pf (map (fun p => (fst p,
                                 let vs := map (det_arrange sorte pf pi) (snd p) in
                                 if det_is_map vs
                                 then (if sorte then det_sort det_entry_lt (pi vs) else pi vs)
                                 else vs)) fs)))) u.
Proof. reflexivity. Qed.

Theorem det_arrange_canon : forall v (pf : fields -> fields) (pi : list value -> list value),
  det_perm_oracle pf -> det_perm_oracle pi ->
  det_wf v = true -> det_arrange true pf pi v = det_canon v.
Proof.
  intros v pf pi Hpf Hpi. unfold det_canon.
  induction v as [s|fs unk IH|k x IH] using msg_value_ind; intros Hwf.
  - reflexivity.
  - rewrite det_wf_unfold in Hwf. apply andb_true_iff in Hwf. destruct Hwf as [Hnd Hall].
    rewrite !det_arrange_unfold. f_equal.
    set (gL := fun p : N * list value => (fst p, let vs := map (det_arrange true pf pi) (snd p) in
              if det_is_map vs then det_sort det_entry_lt (pi vs) else vs)).
    set (gR := fun p : N * list value => (fst p, let vs := map (det_arrange true det_id det_id) (snd p) in
              if det_is_map vs then det_sort det_entry_lt (det_id vs) else vs)).
    assert (map gL fs = map gR fs) as EL.
    { apply map_ext_in. intros p Hp. unfold gL, gR. f_equal. cbv zeta.
      rewrite forallb_forall in Hall. specialize (Hall p Hp). apply andb_true_iff in Hall. destruct Hall as [Hsh Hw].
      rewrite Forall_forall in IH. specialize (IH p Hp).
      assert (map (det_arrange true pf pi) (snd p) = map (det_arrange true det_id det_id) (snd p)) as EM.
      { apply map_ext_in. intros e He. rewrite Forall_forall in IH. apply IH; [exact He|].
        rewrite forallb_forall in Hw. now apply Hw. }
      rewrite EM. destruct (det_is_map (map (det_arrange true det_id det_id) (snd p))) eqn:EMap; [|reflexivity].
      unfold det_id at 3. symmetry. apply det_sort_entries_perm.
      - now apply det_is_map_spec.
      - rewrite det_arrange_nodup_keys. apply det_shape_entries; [exact Hsh|].
        apply det_is_map_spec in EMap. now rewrite det_arrange_is_entries in EMap.
      - apply Permutation_sym, Hpi. }
    rewrite EL. unfold det_id at 1.
    symmetry. apply det_sort_fields_perm.
    + assert (NoDup (map fst (map gR fs))) as N1.
      { rewrite map_map. cbn [fst gR]. replace (map (fun x => fst (gR x)) fs) with (map fst fs) by (apply map_ext; reflexivity).
        now apply det_nodup_n_spec. }
      clear -N1. induction (map gR fs) as [|q r IHr]; cbn [filter map]; [constructor|].
      inversion N1; subst. destruct (det_nonempty q); [|now apply IHr].
      cbn [map]. constructor; [|now apply IHr].
      intros Hin. apply H1. apply in_map_iff in Hin. destruct Hin as [z [Ez Hz]]. apply filter_In in Hz.
      rewrite <- Ez. apply in_map. tauto.
    + apply det_perm_filter, Permutation_sym, Hpf.
  - cbn [det_arrange det_wf] in *. f_equal. now apply IH.
Qed.

(* ------------------------------------------------------------------ histories *)
Definition det_typed_binding (md : mdesc) (p : N * list value) : bool :=
  match msg_find_field md (fst p) with
  | None => false
  | Some fd =>
    (if det_card_is_map (f_card fd)
     then forallb det_is_entry (snd p) && det_nodup_keys (snd p)
     else negb (existsb det_is_entry (snd p)))
    && forallb det_wf (snd p)
  end.

Definition det_inv (md : mdesc) (fs : fields) : Prop :=
  NoDup (map fst fs) /\ forallb (det_typed_binding md) fs = true.

Lemma det_fdel_keys fs num : forall k, In k (map fst (msg_fdel fs num)) -> In k (map fst fs).
Proof.
  induction fs as [|[k0 v0] r IH]; cbn [msg_fdel map]; intros k Hk; [contradiction|].
  destruct (num =? k0); cbn [map] in *; [now right|]. destruct Hk as [<-|Hk]; [now left|right; now apply IH].
Qed.

Lemma det_fdel_in fs num : forall p, In p (msg_fdel fs num) -> In p fs.
Proof.
  induction fs as [|[k0 v0] r IH]; cbn [msg_fdel]; intros p Hp; [contradiction|].
  destruct (num =? k0); [now right|]. destruct Hp as [<-|Hp]; [now left|right; now apply IH].
Qed.

Lemma det_inv_fdel md fs num : det_inv md fs -> det_inv md (msg_fdel fs num).
Proof.
  intros [Hn Ht]. split.
  - clear Ht. induction fs as [|[k0 v0] r IH]; cbn [msg_fdel map] in *; [constructor|].
    inversion Hn; subst. destruct (num =? k0); [assumption|]. cbn [map]. constructor; [|now apply IH].
    intros Hin. apply H1. eapply det_fdel_keys; exact Hin.
  - rewrite forallb_forall in *. intros p Hp. apply Ht. eapply det_fdel_in; exact Hp.
Qed.

Lemma det_inv_clear_oneof md' md oi num fs : det_inv md fs -> det_inv md (msg_clear_oneof md' oi num fs).
Proof.
  revert fs. induction md' as [|fd r IH]; intros fs H; cbn [msg_clear_oneof]; [exact H|].
  apply IH. destruct (f_oneof fd) as [j|]; [|exact H].
  destruct ((j =? oi) && negb (f_num fd =? num)); [now apply det_inv_fdel|exact H].
Qed.

Lemma det_cset_keys fs num vs : forall k, In k (map fst (det_cset fs num vs)) -> k = num \/ In k (map fst fs).
Proof.
  induction fs as [|[k0 v0] r IH]; cbn [det_cset map]; intros k Hk.
  - destruct Hk as [<-|[]]. now left.
  - destruct (num =? k0) eqn:E; cbn [map] in Hk.
    + destruct Hk as [<-|Hk]; [right; now left|right; now right].
    + destruct Hk as [<-|Hk]; [right; now left|]. destruct (IH _ Hk); [now left|right; now right].
Qed.

Lemma det_cset_in fs num vs : forall p, In p (det_cset fs num vs) -> p = (num, vs) \/ In p fs.
Proof.
  induction fs as [|[k0 v0] r IH]; cbn [det_cset]; intros p Hp.
  - destruct Hp as [<-|[]]. now left.
  - destruct (num =? k0) eqn:E.
    + apply N.eqb_eq in E. subst k0. destruct Hp as [<-|Hp]; [now left|right; now right].
    + destruct Hp as [<-|Hp]; [right; now left|]. destruct (IH _ Hp); [now left|right; now right].
Qed.

Lemma det_inv_cset md fs num vs :
  det_inv md fs -> det_typed_binding md (num, vs) = true -> det_inv md (det_cset fs num vs).
Proof.
  intros [Hn Ht] Hb. split.
  - clear Ht Hb. induction fs as [|[k0 v0] r IH]; cbn [det_cset map] in *.
    + constructor; [intros []|constructor].
    + inversion Hn; subst. destruct (num =? k0) eqn:E; cbn [map].
      * constructor; assumption.
      * constructor; [|now apply IH]. intros Hin. destruct (det_cset_keys _ _ _ _ Hin) as [Ek|H]; [|contradiction].
        cbn [fst] in Ek. subst k0. rewrite N.eqb_refl in E. discriminate.
  - rewrite forallb_forall in *. intros p Hp. destruct (det_cset_in _ _ _ _ Hp) as [->|H]; [exact Hb|now apply Ht].
Qed.

Lemma det_fget_in fs num : msg_fget fs num = [] \/ In (num, msg_fget fs num) fs.
Proof.
  induction fs as [|[k0 v0] r IH]; cbn [msg_fget]; [now left|].
  destruct (num =? k0) eqn:E.
  - apply N.eqb_eq in E. subst. right. now left.
  - destruct IH as [H|H]; [now left|right; now right].
Qed.

Lemma det_eput_entries es k v : forallb det_is_entry es = true -> forallb det_is_entry (det_eput es k v) = true.
Proof.
  induction es as [|e r IH]; cbn [det_eput forallb]; [reflexivity|].
  destruct e as [s|fs u|k0 x]; try discriminate. cbn [det_is_entry andb]. intros H.
  destruct (det_key_eqb k0 k); cbn [forallb det_is_entry andb]; [exact H|now apply IH].
Qed.

Lemma det_eput_has_key es k v k' :
  forallb det_is_entry es = true ->
  existsb (det_has_key k') (det_eput es k v) = existsb (det_has_key k') es || det_key_eqb k k'.
Proof.
  induction es as [|e r IH]; cbn [det_eput existsb forallb]; intros He.
  - cbn [det_has_key]. now rewrite orb_false_r.
  - destruct e as [s|fs u|k0 x]; try discriminate. cbn [det_is_entry andb] in He.
    destruct (det_key_eqb k0 k) eqn:E; cbn [existsb det_has_key].
    + apply det_key_eqb_eq in E. subst k0. destruct (det_key_eqb k k'); cbn [orb]; [reflexivity|]. now rewrite orb_false_r.
    + rewrite (IH He). now rewrite orb_assoc.
Qed.

Lemma det_eput_nodup es k v :
  forallb det_is_entry es = true -> det_nodup_keys es = true -> det_nodup_keys (det_eput es k v) = true.
Proof.
  induction es as [|e r IH]; cbn [det_eput det_nodup_keys forallb]; intros He Hn; [reflexivity|].
  destruct e as [s|fs u|k0 x]; try discriminate. cbn [det_is_entry andb] in He.
  apply andb_true_iff in Hn. destruct Hn as [H1 H2].
  destruct (det_key_eqb k0 k) eqn:E; cbn [det_nodup_keys].
  - apply det_key_eqb_eq in E. subst k0. now rewrite H1, H2.
  - rewrite (IH He H2), andb_true_r. rewrite (det_eput_has_key _ _ _ _ He).
    apply negb_true_iff in H1. rewrite H1. cbn [orb].
    destruct (det_key_eqb k k0) eqn:E2; [|reflexivity].
    apply det_key_eqb_eq in E2. subst. rewrite (proj2 (det_key_eqb_eq k0 k0) eq_refl) in E. discriminate.
Qed.

Lemma det_eput_wf es k v : forallb det_wf es = true -> det_wf v = true -> forallb det_wf (det_eput es k v) = true.
Proof.
  induction es as [|e r IH]; cbn [det_eput forallb]; intros He Hv.
  - cbn [det_wf]. now rewrite Hv.
  - apply andb_true_iff in He. destruct He as [H1 H2].
    destruct e as [s|fs u|k0 x]; cbn [forallb].
    + now rewrite H1, IH.
    + now rewrite H1, IH.
    + destruct (det_key_eqb k0 k); cbn [forallb det_wf]; [now rewrite Hv, H2|]. cbn [det_wf] in H1. now rewrite H1, IH.
Qed.

Lemma det_edel_sub es k : forall e, In e (det_edel es k) -> In e es.
Proof.
  induction es as [|e0 r IH]; cbn [det_edel]; intros e He; [contradiction|].
  destruct e0 as [s|fs u|k0 x].
  - destruct He as [<-|He]; [now left|right; now apply IH].
  - destruct He as [<-|He]; [now left|right; now apply IH].
  - destruct (det_key_eqb k0 k); [now right|]. destruct He as [<-|He]; [now left|right; now apply IH].
Qed.

Lemma det_edel_nodup es k : det_nodup_keys es = true -> det_nodup_keys (det_edel es k) = true.
Proof.
  induction es as [|e r IH]; cbn [det_edel det_nodup_keys]; intros Hn; [reflexivity|].
  destruct e as [s|fs u|k0 x]; cbn [det_nodup_keys]; try (now apply IH).
  apply andb_true_iff in Hn. destruct Hn as [H1 H2].
  destruct (det_key_eqb k0 k); [exact H2|]. cbn [det_nodup_keys]. rewrite (IH H2), andb_true_r.
  apply negb_true_iff in H1. apply negb_true_iff.
  destruct (existsb (det_has_key k0) (det_edel r k)) eqn:E; [|reflexivity].
  apply existsb_exists in E. destruct E as [e [He Hk]].
  assert (existsb (det_has_key k0) r = true) as F by (apply existsb_exists; exists e; split; [eapply det_edel_sub; exact He|exact Hk]).
  congruence.
Qed.

Lemma det_forallb_sub {A} (f : A -> bool) (l l' : list A) :
  (forall e, In e l' -> In e l) -> forallb f l = true -> forallb f l' = true.
Proof. intros H. rewrite !forallb_forall. intros F e He. apply F, H, He. Qed.

(* the binding a map operation starts from *)
Lemma det_old_binding md fs num fd :
  det_inv md fs -> msg_find_field md num = Some fd -> det_card_is_map (f_card fd) = true ->
  forallb det_is_entry (msg_fget fs num) = true /\ det_nodup_keys (msg_fget fs num) = true /\
  forallb det_wf (msg_fget fs num) = true.
Proof.
  intros [_ Ht] Hf Hm. destruct (det_fget_in fs num) as [E|Hin]; [rewrite E; repeat split|].
  rewrite forallb_forall in Ht. specialize (Ht _ Hin). unfold det_typed_binding in Ht. cbn [fst snd] in Ht.
  rewrite Hf, Hm in Ht. apply andb_true_iff in Ht. destruct Ht as [H1 H2]. apply andb_true_iff in H1. tauto.
Qed.

Lemma det_step_inv md st o :
  det_op_ok o = true -> det_inv md (fst st) -> det_inv md (fst (det_step md st o)).
Proof.
  intros Hok Hinv. destruct o as [num vs|num|num k v|num k|u]; cbn [det_step].
  - destruct (msg_find_field md num) as [fd|] eqn:Hf; [|exact Hinv].
    destruct (det_card_is_map (f_card fd)) eqn:Hm; cbn [orb]; [exact Hinv|].
    destruct (existsb det_is_entry vs) eqn:He; [exact Hinv|].
    match goal with |- context [if ?d then _ else _] => destruct d end; cbn [fst].
    + now apply det_inv_fdel.
    + assert (det_inv md (det_cset (fst st) num vs)) as H1.
      { apply det_inv_cset; [exact Hinv|]. unfold det_typed_binding. cbn [fst snd]. rewrite Hf, Hm, He. exact Hok. }
      destruct (f_oneof fd); [now apply det_inv_clear_oneof|exact H1].
  - cbn [fst]. now apply det_inv_fdel.
  - destruct (msg_find_field md num) as [fd|] eqn:Hf; [|exact Hinv].
    destruct (det_card_is_map (f_card fd)) eqn:Hm; [|exact Hinv]. cbn [fst].
    destruct (det_old_binding _ _ _ _ Hinv Hf Hm) as [H1 [H2 H3]].
    apply det_inv_cset; [exact Hinv|]. unfold det_typed_binding. cbn [fst snd]. rewrite Hf, Hm.
    rewrite det_eput_entries, det_eput_nodup, det_eput_wf by assumption. reflexivity.
  - destruct (msg_find_field md num) as [fd|] eqn:Hf; [|exact Hinv].
    destruct (det_card_is_map (f_card fd)) eqn:Hm; [|exact Hinv]. cbn [fst].
    destruct (det_old_binding _ _ _ _ Hinv Hf Hm) as [H1 [H2 H3]].
    apply det_inv_cset; [exact Hinv|]. unfold det_typed_binding. cbn [fst snd]. rewrite Hf, Hm.
    rewrite (det_forallb_sub _ _ _ (det_edel_sub _ k) H1), (det_forallb_sub _ _ _ (det_edel_sub _ k) H3), det_edel_nodup by assumption.
    reflexivity.
  - exact Hinv.
Qed.

Lemma det_typed_binding_shape md p : det_typed_binding md p = true -> det_shape (snd p) && forallb det_wf (snd p) = true.
Proof.
  unfold det_typed_binding, det_shape. destruct (msg_find_field md (fst p)) as [fd|]; [|discriminate].
  intros H. apply andb_true_iff in H. destruct H as [H1 H2]. rewrite H2, andb_true_r.
  destruct (det_card_is_map (f_card fd)).
  - apply andb_true_iff in H1. destruct H1 as [E N]. now rewrite E.
  - destruct (forallb det_is_entry (snd p)) eqn:E; [|exact H1].
    destruct (snd p) as [|e r]; [reflexivity|]. cbn [forallb existsb] in *. apply andb_true_iff in E. destruct E as [E _].
    rewrite E in H1. discriminate.
Qed.

Theorem det_run_wf md ops : det_ops_ok ops = true -> det_wf (det_run md ops) = true.
Proof.
  intros Hok. unfold det_run.
  assert (forall st, det_inv md (fst st) -> det_inv md (fst (fold_left (det_step md) ops st))) as H.
  { unfold det_ops_ok in Hok. induction ops as [|o r IH]; intros st Hi; cbn [fold_left]; [exact Hi|].
    cbn [forallb] in Hok. apply andb_true_iff in Hok. destruct Hok as [H1 H2].
    apply IH; [exact H2|]. now apply det_step_inv. }
  specialize (H ([], [])).
  destruct H as [Hn Ht]; [split; [constructor|reflexivity]|].
  rewrite det_wf_unfold. apply andb_true_iff. split; [now apply det_nodup_n_spec|].
  rewrite forallb_forall in *. intros p Hp. apply (det_typed_binding_shape md). now apply Ht.
Qed.

(* ------------------------------------------------------------------ C05 *)
(* deterministic bytes are a function of the abstract content, whatever the iteration orders *)
Theorem det_history_independent :
  forall (S : schema) (tid : nat) (md : mdesc) (h1 h2 : list det_op)
         (pf1 pf2 : fields -> fields) (pi1 pi2 : list value -> list value),
    det_perm_oracle pf1 -> det_perm_oracle pf2 -> det_perm_oracle pi1 -> det_perm_oracle pi2 ->
    det_ops_ok h1 = true -> det_ops_ok h2 = true ->
    det_canon (det_run md h1) = det_canon (det_run md h2) ->
    det_encode pf1 pi1 S tid (det_run md h1) = det_encode pf2 pi2 S tid (det_run md h2).
Proof.
  intros S tid md h1 h2 pf1 pf2 pi1 pi2 F1 F2 P1 P2 O1 O2 E. unfold det_encode.
  rewrite (det_arrange_canon _ pf1 pi1 F1 P1 (det_run_wf md h1 O1)).
  rewrite (det_arrange_canon _ pf2 pi2 F2 P2 (det_run_wf md h2 O2)).
  now rewrite E.
Qed.

(* the same for any two well-formed concrete messages *)
Theorem det_content_determines_bytes :
  forall (S : schema) (tid : nat) (m1 m2 : value)
         (pf1 pf2 : fields -> fields) (pi1 pi2 : list value -> list value),
    det_perm_oracle pf1 -> det_perm_oracle pf2 -> det_perm_oracle pi1 -> det_perm_oracle pi2 ->
    det_wf m1 = true -> det_wf m2 = true -> det_canon m1 = det_canon m2 ->
    det_encode pf1 pi1 S tid m1 = det_encode pf2 pi2 S tid m2.
Proof.
  intros S tid m1 m2 pf1 pf2 pi1 pi2 F1 F2 P1 P2 W1 W2 E. unfold det_encode.
  rewrite (det_arrange_canon _ pf1 pi1 F1 P1 W1), (det_arrange_canon _ pf2 pi2 F2 P2 W2). now rewrite E.
Qed.

(* Deterministic = default marshal with an oracle that happens to sort *)
Theorem det_is_nondet_sorted : forall pf pi S tid v,
  det_encode pf pi S tid v = det_encode_nondet pf (fun l => det_sort det_entry_lt (pi l)) S tid v.
Proof. reflexivity. Qed.

(* converse (from the injectivity of the encoder on valid canonical values, C03) *)
Theorem det_equal_bytes_same_content :
  forall (slow : bool) (S : schema) (limit : nat) (tid : nat) (m1 m2 : value)
         (pf1 pf2 : fields -> fields) (pi1 pi2 : list value -> list value),
    det_perm_oracle pf1 -> det_perm_oracle pf2 -> det_perm_oracle pi1 -> det_perm_oracle pi2 ->
    det_wf m1 = true -> det_wf m2 = true ->
    msg_valid slow S limit tid (det_canon m1) = true -> msg_valid slow S limit tid (det_canon m2) = true ->
    det_encode pf1 pi1 S tid m1 = det_encode pf2 pi2 S tid m2 ->
    det_canon m1 = det_canon m2.
Proof.
  intros slow S limit tid m1 m2 pf1 pf2 pi1 pi2 F1 F2 P1 P2 W1 W2 V1 V2 E. unfold det_encode in E.
  rewrite (det_arrange_canon _ pf1 pi1 F1 P1 W1), (det_arrange_canon _ pf2 pi2 F2 P2 W2) in E.
  eapply msg_encode_injective; eassumption.
Qed.
