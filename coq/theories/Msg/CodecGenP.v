(* CodecGenP — Tier T for C03/C04: theorems over the table regenerated from
   internal/impl/codec_gen.go (Gen/CodecGenTable.v, written by srcmodel_codecgen on every run).

   The extractor matches the whole body of each of the 328 size*/append*/consume* functions against
   the statement skeleton of its (role, variant) and records the *source text* that filled the holes.
   This file gives that text a meaning and ties it to the scalar codec of the hand model
   (Msg/MsgValue.v [sk_enc] / [sk_dec] / [sk_wt] / [msg_scalar_is_zero], Msg/MsgEnc.v
   [msg_size_scalar] / [msg_enc_scalar]):

     [conv_meaning]  Go value->wire expression, by the Go type of its operand  |->  [econv]
     [dec_meaning]   Go wire->value expression, by the protowire.Consume* function that produced
                     its operand                                               |->  [dconv]
     [zero_meaning]  Go NoZero test                                             |->  [zconv]
   These three small tables are the trusted reading of Go's conversion expressions (each line is a
   width fact of the Go spec: `uint64(v)` of an int32 sign-extends, `uint32(v)` of a uint64 keeps the
   low 32 bits, ...).  Text that is not listed has no meaning and fails the check.

     [enc_sem] / [dec_sem] / [zero_sem] / [size_sem]   what a class computes, in terms of the wire
                     model (zz_enc, enc_bool, enc_fixed32, size_varint, ...; those are tied to
                     encoding/protowire/wire.go by the C01/C02 Tier-T theorems)
     [enc_ok_sound] / [dec_ok_sound] / [zero_ok_sound] / [size_ok_sound]   for the classes accepted
                     for a kind, the class computes the model's function on the kind's whole domain
     [check_*]       the boolean checks over the whole table, proved by vm_compute and lifted with
                     forallb_forall.

   Abstractions: float32/float64 values are carried as their IEEE bits (as in the model), so
   math.Float32bits/frombits are the identity and `float32(v.Float())` of a protoreflect.Value that
   holds a float32 is exact; string(v) / append(emptyBuf[:], v...) are copies of the bytes. *)
From Coq Require Import List String Bool NArith ZArith Lia.
From Coq Require Import ZifyBool ZifyNat ZifyN.
From PB Require Import Base.PBytes Wire.WireModel Wire.VarintP.
From PB Require Import Msg.MsgSchema Msg.MsgValue Msg.MsgEnc Msg.MsgValid Msg.MsgWireP Msg.MsgScalarP Msg.MsgSizeP.
Require Import PB.Gen.CodecGenTable.
Ltac Zify.zify_post_hook ::= Z.div_mod_to_equations.
Import ListNotations.
Open Scope string_scope.

(* ---------- reading the names ---------- *)
Definition kind_of (s : string) : option skind :=
  if s =? "Double" then Some SkDouble else if s =? "Float" then Some SkFloat
  else if s =? "Int64" then Some SkInt64 else if s =? "Uint64" then Some SkUint64
  else if s =? "Int32" then Some SkInt32 else if s =? "Fixed64" then Some SkFixed64
  else if s =? "Fixed32" then Some SkFixed32 else if s =? "Bool" then Some SkBool
  else if s =? "String" then Some SkString else if s =? "Bytes" then Some SkBytes
  else if s =? "Uint32" then Some SkUint32 else if s =? "Enum" then Some SkEnum
  else if s =? "Sfixed32" then Some SkSfixed32 else if s =? "Sfixed64" then Some SkSfixed64
  else if s =? "Sint32" then Some SkSint32 else if s =? "Sint64" then Some SkSint64
  else None.

(* the pointer accessor (p.Int32(), ...) of a kind: GoType.PointerMethod of the generator *)
Definition pm_of (sk : skind) : string :=
  match sk with
  | SkBool => "Bool" | SkInt32 | SkSint32 | SkSfixed32 => "Int32" | SkUint32 | SkFixed32 => "Uint32"
  | SkInt64 | SkSint64 | SkSfixed64 => "Int64" | SkUint64 | SkFixed64 => "Uint64"
  | SkFloat => "Float32" | SkDouble => "Float64" | SkString => "String" | SkBytes => "Bytes"
  | SkEnum => "(none)"   (* enums only have the protoreflect.Value coders *)
  end.

Definition is_value (variant : string) : bool :=
  (variant =? "Value") || (variant =? "SliceValue") || (variant =? "PackedSliceValue").

Inductive wfn := WfVarint | WfFixed32 | WfFixed64 | WfBytes | WfString.
Definition wfn_of (s : string) : option wfn :=
  if s =? "Varint" then Some WfVarint else if s =? "Fixed32" then Some WfFixed32
  else if s =? "Fixed64" then Some WfFixed64 else if s =? "Bytes" then Some WfBytes
  else if s =? "String" then Some WfString else None.
(* protowire.XType constants (tied to wire.go by C02_go_constants) *)
Definition wt_of (s : string) : option N :=
  if s =? "Varint" then Some 0%N else if s =? "Fixed64" then Some 1%N
  else if s =? "Bytes" then Some 2%N else if s =? "Fixed32" then Some 5%N else None.
Definition wfn_wt (w : wfn) : N :=
  match w with WfVarint => 0 | WfFixed64 => 1 | WfFixed32 => 5 | _ => 2 end%N.

(* ---------- value -> wire ---------- *)
Inductive econv :=
| EcId        (* the unsigned number / the float's bits / the bytes themselves *)
| EcU32       (* low 32 bits of an unsigned number *)
| EcSext64    (* two's complement of a signed number in 64 bits *)
| EcS32Sext64 (* narrowed to int32 first, then two's complement in 64 bits *)
| EcTrunc32   (* two's complement of a signed number in 32 bits *)
| EcZigZag    (* protowire.EncodeZigZag *)
| EcS32ZigZag (* narrowed to int32 first, then EncodeZigZag *)
| EcBool.     (* protowire.EncodeBool *)

Definition wrap32 (z : Z) : Z := msg_s32 (msg_u32 z).

(* operand type ("Value" = a protoreflect.Value accessor inside the text), expression *)
Definition conv_meaning (ty e : string) : option econv :=
  if ty =? "Value" then
    if e =? "v.Uint()" then Some EcId
    else if e =? "uint64(uint32(v.Uint()))" then Some EcU32
    else if e =? "uint32(v.Uint())" then Some EcU32
    else if e =? "uint64(v.Int())" then Some EcSext64
    else if e =? "uint64(v.Enum())" then Some EcSext64            (* EnumNumber is an int32 *)
    else if e =? "uint64(int32(v.Int()))" then Some EcS32Sext64
    else if e =? "uint32(v.Int())" then Some EcTrunc32
    else if e =? "protowire.EncodeZigZag(v.Int())" then Some EcZigZag
    else if e =? "protowire.EncodeZigZag(int64(int32(v.Int())))" then Some EcS32ZigZag
    else if e =? "protowire.EncodeBool(v.Bool())" then Some EcBool
    else if e =? "math.Float64bits(v.Float())" then Some EcId
    else if e =? "math.Float32bits(float32(v.Float()))" then Some EcId
    else if e =? "v.String()" then Some EcId
    else if e =? "v.Bytes()" then Some EcId
    else None
  else if (ty =? "Int32") || (ty =? "Int64") then
    if e =? "uint64(v)" then Some EcSext64
    else if e =? "uint32(v)" then (if ty =? "Int32" then Some EcTrunc32 else None)
    else if e =? "protowire.EncodeZigZag(int64(v))" then (if ty =? "Int32" then Some EcZigZag else None)
    else if e =? "protowire.EncodeZigZag(v)" then (if ty =? "Int64" then Some EcZigZag else None)
    else None
  else if ty =? "Uint32" then
    if (e =? "uint64(v)") || (e =? "v") then Some EcId else None   (* zero extension *)
  else if ty =? "Uint64" then
    if e =? "v" then Some EcId else None
  else if ty =? "Bool" then
    if e =? "protowire.EncodeBool(v)" then Some EcBool else None
  else if ty =? "Float32" then
    if e =? "math.Float32bits(v)" then Some EcId else None
  else if ty =? "Float64" then
    if e =? "math.Float64bits(v)" then Some EcId else None
  else if (ty =? "String") || (ty =? "Bytes") then
    if e =? "v" then Some EcId else None
  else None.

Definition econv_num (c : econv) (s : scalar) : option N :=
  match c, s with
  | EcId, SN n => Some n
  | EcU32, SN n => Some (n mod 4294967296)%N
  | EcSext64, SZ z => Some (msg_u64 z)
  | EcS32Sext64, SZ z => Some (msg_u64 (wrap32 z))
  | EcTrunc32, SZ z => Some (msg_u32 z)
  | EcZigZag, SZ z => Some (zz_enc z)
  | EcS32ZigZag, SZ z => Some (zz_enc (wrap32 z))
  | EcBool, SB b => Some (enc_bool b)
  | _, _ => None
  end.

(* what protowire.Append<wf>(b, conv) appends, as a wire value *)
Definition enc_sem (wf : wfn) (c : econv) (s : scalar) : option wval :=
  match wf with
  | WfBytes | WfString => match c, s with EcId, SBy b => Some (WLen b) | _, _ => None end
  | WfVarint => option_map WVarint (econv_num c s)
  | WfFixed32 => option_map (fun n => WFixed32 (enc_fixed32 n)) (econv_num c s)
  | WfFixed64 => option_map (fun n => WFixed64 (enc_fixed64 n)) (econv_num c s)
  end.

Definition econv_eqb (a b : econv) : bool :=
  match a, b with
  | EcId, EcId | EcU32, EcU32 | EcSext64, EcSext64 | EcS32Sext64, EcS32Sext64 | EcTrunc32, EcTrunc32
  | EcZigZag, EcZigZag | EcS32ZigZag, EcS32ZigZag | EcBool, EcBool => true
  | _, _ => false
  end.

(* the classes accepted for a kind *)
Definition enc_ok (sk : skind) (wf : wfn) (c : econv) : bool :=
  match sk, wf, c with
  | (SkInt32 | SkEnum), WfVarint, (EcSext64 | EcS32Sext64) => true
  | SkInt64, WfVarint, EcSext64 => true
  | SkUint32, WfVarint, (EcId | EcU32) => true
  | SkUint64, WfVarint, EcId => true
  | SkSint32, WfVarint, (EcZigZag | EcS32ZigZag) => true
  | SkSint64, WfVarint, EcZigZag => true
  | SkBool, WfVarint, EcBool => true
  | (SkFixed32 | SkFloat), WfFixed32, (EcId | EcU32) => true
  | SkSfixed32, WfFixed32, EcTrunc32 => true
  | (SkFixed64 | SkDouble), WfFixed64, EcId => true
  | SkSfixed64, WfFixed64, EcSext64 => true
  | SkString, WfString, EcId => true
  | SkBytes, WfBytes, EcId => true
  | _, _, _ => false
  end.

Lemma wrap32_id z : (-2147483648 <= z < 2147483648)%Z -> wrap32 z = z.
Proof. apply msg_s32_u32. Qed.

Lemma enc_ok_sound sk wf c :
  enc_ok sk wf c = true -> forall s, sk_ok sk s = true -> enc_sem wf c s = Some (sk_enc sk s).
Proof.
  destruct sk, wf, c; cbn [enc_ok]; intros H; try discriminate H; clear H;
    intros s Hs; destruct s; cbn [sk_ok] in Hs; try discriminate Hs;
    cbn [enc_sem econv_num option_map sk_enc]; try reflexivity;
    try (rewrite wrap32_id by lia; reflexivity);
    try (rewrite N.mod_small by lia; reflexivity).
Qed.

(* ---------- wire -> value ---------- *)
Inductive dconv := DcId | DcU32 | DcS32 | DcS64 | DcZigZag32 | DcZigZag64 | DcBool | DcBytes.

(* keyed by the protowire.Consume<wf> function that produced v (Varint, Fixed64: uint64;
   Fixed32: uint32; Bytes: []byte) *)
Definition dec_meaning (value : bool) (wf : wfn) (e : string) : option dconv :=
  match value, wf with
  | false, WfVarint =>
    if e =? "int32(v)" then Some DcS32 else if e =? "int64(v)" then Some DcS64
    else if e =? "uint32(v)" then Some DcU32 else if e =? "v" then Some DcId
    else if e =? "int32(protowire.DecodeZigZag(v & math.MaxUint32))" then Some DcZigZag32
    else if e =? "protowire.DecodeZigZag(v)" then Some DcZigZag64
    else if e =? "protowire.DecodeBool(v)" then Some DcBool else None
  | false, WfFixed32 =>
    if e =? "v" then Some DcId else if e =? "int32(v)" then Some DcS32
    else if e =? "math.Float32frombits(v)" then Some DcId else None
  | false, WfFixed64 =>
    if e =? "v" then Some DcId else if e =? "int64(v)" then Some DcS64
    else if e =? "math.Float64frombits(v)" then Some DcId else None
  | false, WfBytes =>
    if (e =? "string(v)") || (e =? "append(emptyBuf[:], v...)") || (e =? "append(([]byte)(nil), v...)")
    then Some DcBytes else None
  | true, WfVarint =>
    if e =? "protoreflect.ValueOfInt32(int32(v))" then Some DcS32
    else if e =? "protoreflect.ValueOfEnum(protoreflect.EnumNumber(v))" then Some DcS32
    else if e =? "protoreflect.ValueOfInt64(int64(v))" then Some DcS64
    else if e =? "protoreflect.ValueOfUint32(uint32(v))" then Some DcU32
    else if e =? "protoreflect.ValueOfUint64(v)" then Some DcId
    else if e =? "protoreflect.ValueOfInt32(int32(protowire.DecodeZigZag(v & math.MaxUint32)))" then Some DcZigZag32
    else if e =? "protoreflect.ValueOfInt64(protowire.DecodeZigZag(v))" then Some DcZigZag64
    else if e =? "protoreflect.ValueOfBool(protowire.DecodeBool(v))" then Some DcBool else None
  | true, WfFixed32 =>
    if e =? "protoreflect.ValueOfUint32(uint32(v))" then Some DcId       (* v is a uint32 already *)
    else if e =? "protoreflect.ValueOfInt32(int32(v))" then Some DcS32
    else if e =? "protoreflect.ValueOfFloat32(math.Float32frombits(uint32(v)))" then Some DcId else None
  | true, WfFixed64 =>
    if e =? "protoreflect.ValueOfUint64(v)" then Some DcId
    else if e =? "protoreflect.ValueOfInt64(int64(v))" then Some DcS64
    else if e =? "protoreflect.ValueOfFloat64(math.Float64frombits(v))" then Some DcId else None
  | true, WfBytes =>
    if (e =? "protoreflect.ValueOfString(string(v))") || (e =? "protoreflect.ValueOfBytes(append(emptyBuf[:], v...))")
    then Some DcBytes else None
  | _, WfString => None
  end.

Definition dec_num (c : dconv) (v : N) : scalar :=
  match c with
  | DcId | DcBytes => SN v
  | DcU32 => SN (v mod 4294967296)%N
  | DcS32 => SZ (msg_s32 v)
  | DcS64 => SZ (msg_s64 v)
  | DcZigZag32 => SZ (zz_dec (v mod 4294967296)%N)   (* fits int32: the outer int32( ) is exact *)
  | DcZigZag64 => SZ (zz_dec v)
  | DcBool => SB (dec_bool v)
  end.

(* [None]: the wire value is not of the type the Consume function reads (the wtyp check) *)
Definition dec_sem (wf : wfn) (c : dconv) (w : wval) : option scalar :=
  match wf, w with
  | WfVarint, WVarint v => match c with DcBytes => None | _ => Some (dec_num c v) end
  | WfFixed32, WFixed32 b => match c with DcBytes => None | _ => Some (dec_num c (dec_le b)) end
  | WfFixed64, WFixed64 b => match c with DcBytes => None | _ => Some (dec_num c (dec_le b)) end
  | WfBytes, WLen b => match c with DcBytes => Some (SBy b) | _ => None end
  | _, _ => None
  end.

Definition dec_ok (sk : skind) (wf : wfn) (c : dconv) : bool :=
  match sk, wf, c with
  | (SkInt32 | SkEnum), WfVarint, DcS32 => true
  | SkInt64, WfVarint, DcS64 => true
  | SkUint32, WfVarint, DcU32 => true
  | SkUint64, WfVarint, DcId => true
  | SkSint32, WfVarint, DcZigZag32 => true
  | SkSint64, WfVarint, DcZigZag64 => true
  | SkBool, WfVarint, DcBool => true
  | (SkFixed32 | SkFloat), WfFixed32, DcId => true
  | SkSfixed32, WfFixed32, DcS32 => true
  | (SkFixed64 | SkDouble), WfFixed64, DcId => true
  | SkSfixed64, WfFixed64, DcS64 => true
  | (SkString | SkBytes), WfBytes, DcBytes => true
  | _, _, _ => false
  end.

Lemma dec_ok_sound sk wf c :
  dec_ok sk wf c = true -> wfn_wt wf = sk_wt sk /\ forall w, dec_sem wf c w = sk_dec sk w.
Proof.
  destruct sk, wf, c; cbn [dec_ok]; intros H; try discriminate H; clear H;
    (split; [reflexivity|]); intros w; destruct w; reflexivity.
Qed.

(* ---------- the NoZero test ---------- *)
Inductive zconv := ZEq0 | ZEq0Pos | ZLen0 | ZFalse.
Definition zero_meaning (e : string) : option zconv :=
  if e =? "v == 0" then Some ZEq0
  else if e =? "v == 0 && !math.Signbit(float64(v))" then Some ZEq0Pos
  else if e =? "len(v) == 0" then Some ZLen0
  else if e =? "v == false" then Some ZFalse else None.

Definition neg_zero_bits (sk : skind) : option N :=
  match sk with SkFloat => Some 2147483648%N | SkDouble => Some 9223372036854775808%N | _ => None end.

(* `v == 0` on a float holds of +0 and of -0; on an integer of 0 *)
Definition zero_sem (sk : skind) (zc : zconv) (s : scalar) : option bool :=
  match zc, s with
  | ZEq0, SZ z => Some (z =? 0)%Z
  | ZEq0, SN n => match neg_zero_bits sk with
                  | Some m => Some ((n =? 0)%N || (n =? m)%N)
                  | None => Some (n =? 0)%N
                  end
  | ZEq0Pos, SN n => match neg_zero_bits sk with Some _ => Some (n =? 0)%N | None => None end
  | ZLen0, SBy b => Some (match b with [] => true | _ => false end)
  | ZFalse, SB b => Some (negb b)
  | _, _ => None
  end.

Definition zero_ok (sk : skind) (zc : zconv) : bool :=
  match sk, zc with
  | (SkFloat | SkDouble), ZEq0Pos => true
  | SkBool, ZFalse => true
  | (SkString | SkBytes), ZLen0 => true
  | (SkFloat | SkDouble | SkBool | SkString | SkBytes), _ => false
  | _, ZEq0 => true
  | _, _ => false
  end.

Lemma zero_ok_sound sk zc :
  zero_ok sk zc = true -> forall s, sk_ok sk s = true -> zero_sem sk zc s = Some (msg_scalar_is_zero s).
Proof.
  destruct sk, zc; cbn [zero_ok]; intros H; try discriminate H; clear H;
    intros s Hs; destruct s; cbn [sk_ok] in Hs; try discriminate Hs; reflexivity.
Qed.

(* ---------- sizes ---------- *)
(* protowire.Size<wf>(conv): SizeVarint(conv), SizeFixed32() = 4, SizeFixed64() = 8, SizeBytes(len(conv)) *)
Definition size_sem (wf : wfn) (c : option econv) (s : scalar) : option N :=
  match wf, c with
  | WfVarint, Some c => option_map size_varint (econv_num c s)
  | WfFixed32, None => Some 4%N
  | WfFixed64, None => Some 8%N
  | WfBytes, Some EcId => match s with SBy b => Some (size_bytes (N.of_nat (List.length b))) | _ => None end
  | _, _ => None
  end.

(* the size expression [wfs, cs] goes with the append expression [wfa, ca] *)
Definition size_pair_ok (wfs : wfn) (cs : option econv) (wfa : wfn) (ca : econv) : bool :=
  match wfs, cs, wfa with
  | WfVarint, Some c, WfVarint => econv_eqb c ca
  | WfFixed32, None, WfFixed32 => true
  | WfFixed64, None, WfFixed64 => true
  | WfBytes, Some EcId, (WfBytes | WfString) => econv_eqb EcId ca
  | _, _, _ => false
  end.

Lemma econv_eqb_eq a b : econv_eqb a b = true -> a = b.
Proof. destruct a, b; cbn; intros H; try discriminate H; reflexivity. Qed.

Lemma size_ok_sound wfs cs wfa ca :
  size_pair_ok wfs cs wfa ca = true ->
  forall s w, enc_sem wfa ca s = Some w -> msg_wval_ok w = true ->
    size_sem wfs cs s = Some (N.of_nat (List.length (render_val 0 w))).
Proof.
  intros H s w E Hw.
  destruct wfs; destruct cs as [c|]; destruct wfa; cbn [size_pair_ok] in H; try discriminate H;
    try solve [destruct c; discriminate H];
    try (destruct c; try discriminate H; []).
  - (* varint *)
    apply econv_eqb_eq in H. subst ca. cbn [enc_sem size_sem] in *.
    destruct (econv_num c s) as [n|]; cbn [option_map] in *; [|discriminate E].
    inversion E; subst w. cbn [msg_wval_ok render_val] in *.
    rewrite msgw_enc_varint_length; [reflexivity|]. rewrite <- msg_two64_eq. lia.
  - cbn [enc_sem size_sem] in *.
    destruct (econv_num ca s) as [n|]; cbn [option_map] in *; [|discriminate E].
    inversion E; subst w. cbn [render_val]. unfold enc_fixed32. rewrite msgw_enc_le_length. reflexivity.
  - cbn [enc_sem size_sem] in *.
    destruct (econv_num ca s) as [n|]; cbn [option_map] in *; [|discriminate E].
    inversion E; subst w. cbn [render_val]. unfold enc_fixed64. rewrite msgw_enc_le_length. reflexivity.
  - apply econv_eqb_eq in H. subst ca. cbn [enc_sem size_sem] in *.
    destruct s; try discriminate E. inversion E; subst w. cbn [msg_wval_ok render_val] in *.
    rewrite app_length. unfold size_bytes.
    rewrite <- msgw_enc_varint_length by (rewrite <- msg_two64_eq; lia). f_equal. lia.
  - apply econv_eqb_eq in H. subst ca. cbn [enc_sem size_sem] in *.
    destruct s; try discriminate E. inversion E; subst w. cbn [msg_wval_ok render_val] in *.
    rewrite app_length. unfold size_bytes.
    rewrite <- msgw_enc_varint_length by (rewrite <- msg_two64_eq; lia). f_equal. lia.
Qed.

(* ---------- reading one row ---------- *)
Definition u (s : string) : bool := s =? "Unclassified".
Definition row_kind (r : row) : option skind := kind_of (r_kind r).
(* Go type of the operand `v` of the conversion *)
Definition row_ty (r : row) : string := if is_value (r_variant r) then "Value" else r_pm r.
Definition row_pm_ok (sk : skind) (r : row) : bool :=
  if is_value (r_variant r) then r_pm r =? ""
  else (r_pm r =? pm_of sk) ||
       (* sizeFixed32 / sizeFixed32Ptr ...: a constant, the field is not read *)
       ((r_role r =? "size") && (r_tpl r =? "const") && (r_pm r =? "")).

Definition row_enc (r : row) : option (wfn * econv) :=
  match wfn_of (r_wf r), conv_meaning (row_ty r) (r_conv r) with
  | Some wf, Some c => Some (wf, c)
  | _, _ => None
  end.
Definition row_size (r : row) : option (wfn * option econv) :=
  match wfn_of (r_wf r) with
  | Some wf => if r_conv r =? "" then Some (wf, None)
               else match conv_meaning (row_ty r) (r_conv r) with Some c => Some (wf, Some c) | None => None end
  | None => None
  end.
Definition row_dec (r : row) : option (wfn * dconv) :=
  match wfn_of (r_wf r) with
  | Some wf => match dec_meaning (is_value (r_variant r)) wf (r_dec r) with Some c => Some (wf, c) | None => None end
  | None => None
  end.
(* the NoZero test: present exactly in the NoZero size/append functions *)
Definition row_zero_ok (sk : skind) (r : row) : bool :=
  if (r_variant r =? "NoZero") && negb (r_role r =? "consume")
  then match zero_meaning (r_zero r) with Some zc => zero_ok sk zc | None => false end
  else r_zero r =? "".

Definition find_row (fn : string) : option row := find (fun r => r_fn r =? fn) funcs.

(* nothing left unclassified; the packed branches repeat the same expressions; varints are read by
   the standard inlined fast path *)
Definition row_classified (r : row) : bool :=
  negb (u (r_tpl r) || u (r_kind r) || u (r_variant r)) &&
  ((r_role r =? "size") || (r_role r =? "append") || (r_role r =? "consume")) &&
  match row_kind r with Some sk => row_pm_ok sk r | None => false end &&
  r_same r &&
  (negb ((r_role r =? "consume") && (r_wf r =? "Varint")) || r_fast r).

Definition check_append (r : row) : bool :=
  negb (r_role r =? "append") ||
  match row_kind r, row_enc r with
  | Some sk, Some (wf, c) => enc_ok sk wf c && row_zero_ok sk r
  | _, _ => false
  end.

Definition check_consume (r : row) : bool :=
  negb (r_role r =? "consume") ||
  match row_kind r, row_dec r with
  | Some sk, Some (wf, c) =>
      dec_ok sk wf c && row_zero_ok sk r &&
      match wt_of (r_wt r) with Some t => (t =? sk_wt sk)%N && (t =? wfn_wt wf)%N | None => false end
  | _, _ => false
  end.

(* a size function and the append function of the same kind and variant *)
Definition append_of (r : row) : option row :=
  find_row ("append" ++ r_kind r ++ r_variant r).
Definition check_size (r : row) : bool :=
  negb (r_role r =? "size") ||
  match row_kind r, row_size r, append_of r with
  | Some sk, Some (wfs, cs), Some a =>
      match row_enc a with
      | Some (wfa, ca) =>
          size_pair_ok wfs cs wfa ca && enc_ok sk wfa ca &&
          (r_kind a =? r_kind r) && (r_variant a =? r_variant r) && (r_role a =? "append") &&
          (r_zero a =? r_zero r) && row_zero_ok sk r
      | None => false
      end
  | _, _, _ => false
  end.

(* the coder variables bind functions of one kind, and of matching variants *)
Definition variant_pair_ok (mv uv : string) : bool :=
  (mv =? uv) || ((mv =? "NoZero") && (uv =? "")) ||
  ((mv =? "PackedSlice") && (uv =? "Slice")) || ((mv =? "PackedSliceValue") && (uv =? "SliceValue")).
Definition check_coder (e : string * string * (string * string * string)) : bool :=
  match e with
  | (name, typ, (sz, ma, un)) =>
    match find_row sz, find_row ma, find_row un with
    | Some s, Some m, Some c =>
        (r_role s =? "size") && (r_role m =? "append") && (r_role c =? "consume") &&
        (r_kind s =? r_kind m) && (r_kind c =? r_kind m) &&
        (r_variant s =? r_variant m) && variant_pair_ok (r_variant m) (r_variant c) &&
        Bool.eqb (r_validate m) (r_validate c) && negb (r_validate s) &&
        Bool.eqb (is_value (r_variant m)) (typ =? "valueCoderFuncs") &&
        (name =? "coder" ++ r_kind m ++ r_variant m ++ (if r_validate m then "ValidateUTF8" else ""))
    | _, _, _ => false
    end
  end.

Definition check_classified : bool :=
  forallb row_classified funcs && negb (Nat.eqb (List.length funcs) 0) && negb (Nat.eqb (List.length coders) 0).

Lemma check_classified_true : check_classified = true.
Proof. vm_compute. reflexivity. Qed.
Lemma check_append_true : forallb check_append funcs = true.
Proof. vm_compute. reflexivity. Qed.
Lemma check_consume_true : forallb check_consume funcs = true.
Proof. vm_compute. reflexivity. Qed.
Lemma check_size_true : forallb check_size funcs = true.
Proof. vm_compute. reflexivity. Qed.
Lemma check_coders_true : forallb check_coder coders = true.
Proof. vm_compute. reflexivity. Qed.

(* every kind has its functions in the table (non-vacuity of the row-wise theorems) *)
Definition all_kinds : list string :=
  ["Bool"; "Enum"; "Int32"; "Sint32"; "Uint32"; "Int64"; "Sint64"; "Uint64"; "Sfixed32"; "Fixed32";
   "Float"; "Sfixed64"; "Fixed64"; "Double"; "String"; "Bytes"].
Definition check_coverage : bool :=
  forallb (fun k => forallb (fun role => existsb (fun r => (r_kind r =? k) && (r_role r =? role)) funcs)
                            ["size"; "append"; "consume"]) all_kinds.
Lemma check_coverage_true : check_coverage = true.
Proof. vm_compute. reflexivity. Qed.

(* ---------- the theorems ---------- *)
Theorem codecgen_classified :
  (forall r, In r funcs -> row_classified r = true) /\ funcs <> [] /\
  (forall e, In e coders -> check_coder e = true) /\ check_coverage = true.
Proof.
  pose proof check_classified_true as H. unfold check_classified in H.
  apply andb_true_iff in H. destruct H as [H _]. apply andb_true_iff in H. destruct H as [H H2].
  split; [|split; [|split]].
  - apply forallb_forall. exact H.
  - intros E. rewrite E in H2. discriminate H2.
  - apply forallb_forall. exact check_coders_true.
  - exact check_coverage_true.
Qed.

(* append*: what the function hands to protowire.Append* is the model's wire value of the kind, on the
   kind's whole domain; the NoZero variants skip exactly the values [msg_scalar_is_zero] names.
   consume*: the wire type checked is the kind's, and the value stored is the model's sk_dec for every
   wire value. *)
Definition append_row_spec (r : row) : Prop :=
  exists sk wf c, row_kind r = Some sk /\ row_enc r = Some (wf, c) /\
    (forall s, sk_ok sk s = true -> enc_sem wf c s = Some (sk_enc sk s)) /\
    (r_variant r = "NoZero" -> exists zc, zero_meaning (r_zero r) = Some zc /\
       forall s, sk_ok sk s = true -> zero_sem sk zc s = Some (msg_scalar_is_zero s)).
Definition consume_row_spec (r : row) : Prop :=
  exists sk wf c, row_kind r = Some sk /\ row_dec r = Some (wf, c) /\
    wt_of (r_wt r) = Some (sk_wt sk) /\ wfn_wt wf = sk_wt sk /\
    (forall w, dec_sem wf c w = sk_dec sk w).

Lemma nozero_spec sk r :
  r_role r <> "consume" -> row_zero_ok sk r = true -> r_variant r = "NoZero" ->
  exists zc, zero_meaning (r_zero r) = Some zc /\
    forall s, sk_ok sk s = true -> zero_sem sk zc s = Some (msg_scalar_is_zero s).
Proof.
  intros Hr H Hv. unfold row_zero_ok in H. rewrite Hv in H.
  assert (E : (r_role r =? "consume") = false) by (apply String.eqb_neq; exact Hr).
  rewrite E in H. cbn [String.eqb Ascii.eqb Bool.eqb andb negb] in H.
  destruct (zero_meaning (r_zero r)) as [zc|]; [|discriminate H].
  exists zc. split; [reflexivity|]. apply zero_ok_sound. exact H.
Qed.

Theorem codecgen_conversions_match_model :
  forall r, In r funcs ->
    (r_role r = "append" -> append_row_spec r) /\ (r_role r = "consume" -> consume_row_spec r).
Proof.
  intros r Hin. split; intros Hrole.
  - pose proof (proj1 (forallb_forall _ _) check_append_true r Hin) as H.
    unfold check_append in H. rewrite Hrole in H. cbn [String.eqb Ascii.eqb Bool.eqb negb orb] in H.
    destruct (row_kind r) as [sk|] eqn:Ek; [|discriminate H].
    destruct (row_enc r) as [[wf c]|] eqn:Ee; [|discriminate H].
    apply andb_true_iff in H. destruct H as [H1 H2].
    exists sk, wf, c. split; [exact Ek|]. split; [exact Ee|]. split.
    + apply enc_ok_sound. exact H1.
    + apply nozero_spec; [rewrite Hrole; discriminate|exact H2].
  - pose proof (proj1 (forallb_forall _ _) check_consume_true r Hin) as H.
    unfold check_consume in H. rewrite Hrole in H. cbn [String.eqb Ascii.eqb Bool.eqb negb orb] in H.
    destruct (row_kind r) as [sk|] eqn:Ek; [|discriminate H].
    destruct (row_dec r) as [[wf c]|] eqn:Ed; [|discriminate H].
    apply andb_true_iff in H. destruct H as [H H3]. apply andb_true_iff in H. destruct H as [H1 _].
    destruct (wt_of (r_wt r)) as [t|] eqn:Et; [|discriminate H3].
    apply andb_true_iff in H3. destruct H3 as [Ha Hb].
    apply N.eqb_eq in Ha. subst t.
    destruct (dec_ok_sound _ _ _ H1) as [Hw Hd].
    exists sk, wf, c. split; [exact Ek|]. split; [exact Ed|]. split; [exact Et|]. split; [exact Hw|exact Hd].
Qed.

(* size*: there is an append function of the same kind and variant in the table; the size function
   returns tagsize + the number of bytes that append function writes after the tag, which is the
   model's msg_size_scalar and the length of the model's msg_enc_scalar; both skip the same zero
   values. *)
Definition size_row_spec (r : row) : Prop :=
  exists sk wfs cs a, row_kind r = Some sk /\ row_size r = Some (wfs, cs) /\
    In a funcs /\ r_role a = "append" /\ r_kind a = r_kind r /\ r_variant a = r_variant r /\
    r_zero a = r_zero r /\
    forall s, sk_ok sk s = true -> msg_wval_ok (sk_enc sk s) = true ->
      size_sem wfs cs s = Some (N.of_nat (List.length (msg_enc_scalar sk s))) /\
      size_sem wfs cs s = Some (msg_size_scalar sk s).

Theorem codecgen_size_matches_append :
  forall r, In r funcs -> r_role r = "size" -> size_row_spec r.
Proof.
  intros r Hin Hrole.
  pose proof (proj1 (forallb_forall _ _) check_size_true r Hin) as H.
  unfold check_size in H. rewrite Hrole in H. cbn [String.eqb Ascii.eqb Bool.eqb negb orb] in H.
  destruct (row_kind r) as [sk|] eqn:Ek; [|discriminate H].
  destruct (row_size r) as [[wfs cs]|] eqn:Es; [|discriminate H].
  destruct (append_of r) as [a|] eqn:Ea; [|discriminate H].
  destruct (row_enc a) as [[wfa ca]|] eqn:Ee; [|discriminate H].
  apply andb_true_iff in H. destruct H as [H G6].
  apply andb_true_iff in H. destruct H as [H G5].
  apply andb_true_iff in H. destruct H as [H G4].
  apply andb_true_iff in H. destruct H as [H G3].
  apply andb_true_iff in H. destruct H as [H G2].
  apply andb_true_iff in H. destruct H as [G0 G1].
  apply String.eqb_eq in G2, G3, G4, G5.
  unfold append_of, find_row in Ea. apply find_some in Ea. destruct Ea as [Ein _].
  exists sk, wfs, cs, a.
  split; [exact Ek|]. split; [exact Es|]. split; [exact Ein|]. split; [exact G4|].
  split; [exact G2|]. split; [exact G3|]. split; [exact G5|].
  intros s Hs Hw.
  pose proof (enc_ok_sound _ _ _ G1 s Hs) as E.
  pose proof (size_ok_sound _ _ _ _ G0 s _ E Hw) as Sz.
  split.
  - exact Sz.
  - rewrite Sz. rewrite msg_size_scalar_eq by exact Hw. reflexivity.
Qed.

(* names for the Props files (which do not open string_scope) *)
Definition variant_nozero : string := "NoZero".
Definition role_size : string := "size".
Definition role_append : string := "append".
Definition role_consume : string := "consume".
Definition row_named (fn : string) (r : row) : Prop := In r funcs /\ r_fn r = fn.
Lemma find_row_named fn r : find_row fn = Some r -> row_named fn r.
Proof.
  unfold find_row. intros H. apply find_some in H. destruct H as [H1 H2].
  split; [exact H1|]. apply String.eqb_eq. exact H2.
Qed.
Definition fn_appendSint32 : string := "appendSint32".
Definition fn_consumeSint32 : string := "consumeSint32".
Definition fn_sizeSint32PackedSlice : string := "sizeSint32PackedSlice".
